/-
  C11 at the driver level, against a COVERAGE-AWARE dense reference interpreter
  (Lemmas/ApiDenseCov.lean).

  The refinements `C01.reachable_dense` (plain lines), `C12.reachable_dense_scalar` and
  `C06.reachable_dense_multi` relate a map to a header + one value per pixel.  The boolean
  algebra is not a function of that view: by documentation `a op b` equals `a` outside `b`'s
  COVERAGE MASK and the pixelwise operation inside it (coverage of the result = the union), `~a`
  flips exactly the pixels inside `a`'s coverage mask, `a op k` applies the constant over `a`'s
  coverage mask — and a coverage pixel may be allocated without holding a valid pixel
  (`covpix=`, a written `False`, a `None`-cleared pixel, the slice path of a range update).
  Section (4a) has two histories with identical dense values whose `bop` / `inv` lines are
  answered differently.

  So the dense side carries the coverage mask too (`DenseMapC` = `DenseMap` + `cov`), tracked
  through every write line, and the boolean family is interpreted on it:

    `bop`     and / or / xor with a map `rhs=` of either storage kind or a constant `const=T|F`,
              in place (`inplace=1`) and copying (`r=`);
    `inv`     `invert()` in place and `~a` copying;
    `pack`    `as_bit_packed_map`;
    `covmask` `coverage_mask`;
    `copy`.

  HEADLINE `reachable_dense_bool`: after any history of plain and boolean-family lines the world
  of the protocol and the coverage-aware dense world agree — same names, same headers, every map
  reads at every pixel what the dense array holds, and `coverage_mask` is the dense mask — and
  every line is answered alike (`reachable_dense_bool_answers`).  No side condition.
-/
import HealSparse.Lemmas.ApiDenseCov
namespace HS
namespace C11

open ApiDense ApiDenseCov WFApi ApiBool ApiRanges

/-! ### (1) the refinement -/

/-- **the protocol refines the coverage-aware dense interpreter on histories of plain and
    boolean-family lines**: after any history whose lines are plain (`cfg`, `upd`, `updr`, `set`,
    `get`, `vals`) or of the boolean family (`bop`, `inv`, `pack`, `covmask`, `copy`; malformed or
    refused lines included), the world the protocol reaches and the dense world agree: the same
    names, the same headers, every map reads at every pixel what the dense array holds, and its
    coverage mask is the dense mask. -/
theorem reachable_dense_bool (lines : List String) (h : ∀ l ∈ lines, lineOk l = true) :
    RelC (runLines lines) (drunC lines) :=
  rel_runLinesC lines h

/-- … hence any further plain or family line is answered by the protocol as by the dense
    interpreter (errors and their kind included) -/
theorem reachable_dense_bool_answer (lines : List String) (h : ∀ l ∈ lines, lineOk l = true)
    (q : String) (hq : lineOk q = true) :
    (step (runLines lines) q).2 = (dstepC (drunC lines) q).2 :=
  (rel_stepC (rel_runLinesC lines h) (Good.runLines lines) hq).2

/-- … and every answer ALONG the history agrees too -/
theorem reachable_dense_bool_answers (lines : List String) (h : ∀ l ∈ lines, lineOk l = true)
    (k : Nat) (hk : k < lines.length) :
    (step (runLines (lines.take k)) lines[k]).2 = (dstepC (drunC (lines.take k)) lines[k]).2 :=
  reachable_dense_bool_answer (lines.take k) (fun l hl => h l (List.mem_of_mem_take hl)) lines[k]
    (h _ (List.getElem_mem hk))

/-- … as one equation: the list of all answers of the history is the list of answers of the dense
    interpreter (what the `#guard` of section (3) evaluates on an example) -/
theorem reachable_dense_bool_all_answers (lines : List String) (h : ∀ l ∈ lines, lineOk l = true) :
    answers lines = danswersC lines :=
  answers_eq_danswersC lines h

/-- the map-level reading: a name bound after such a history is bound on the dense side to an
    array with the same header that holds `m.abs p` at every pixel and whose mask is
    `coverage_mask` -/
theorem reachable_dense_bool_map (lines : List String) (h : ∀ l ∈ lines, lineOk l = true)
    {n : String} {m : MapObj} (hg : (runLines lines).get? n = some m) :
    ∃ d, (drunC lines).get? n = some d ∧ m.WF ∧ m.view = none ∧ m.covord = d.toDense.covord ∧
      m.spord = d.toDense.spord ∧ m.kind = d.toDense.kind ∧ m.sent = d.toDense.sent ∧
      (∀ p, p < m.npix → m.abs p = d.toDense.f p) ∧
      (∀ k, k < m.c.ncov → covered m.c m.st k = d.cov k) ∧ apiCovMask m = d.covMask := by
  have hm := relC_get (rel_runLinesC lines h) n
  rw [hg] at hm
  cases hd : (drunC lines).get? n with
  | none => rw [hd] at hm; exact hm.elim
  | some d =>
    rw [hd] at hm
    exact ⟨d, rfl, hm.corr.wf, hm.corr.view, hm.corr.covord, hm.corr.spord, hm.corr.kind,
      hm.corr.sent, hm.corr.abs, hm.cov, hm.covMask_eq⟩

/-- forgetting the masks gives back the refinement of `C01.reachable_dense`: on a history of
    PLAIN lines the value part of the coverage-aware interpreter is `ApiDense.dstepArgs`, line
    by line -/
theorem dense_bool_forget (D : DenseWorldC) {op : String} (hp : plainOp op = true) (a : Args) :
    (dstepArgsC D op a).1.toDense = (dstepArgs D.toDense op a).1 ∧
      (dstepArgsC D op a).2 = (dstepArgs D.toDense op a).2 :=
  toDense_stepArgsC D hp a

/-- … and the coverage-aware relation implies the value-only relation -/
theorem reachable_dense_bool_forget (lines : List String) (h : ∀ l ∈ lines, lineOk l = true) :
    Rel (runLines lines) (drunC lines).toDense :=
  (rel_runLinesC lines h).toRel

/-! ### (2) what the dense interpreter computes

The transformers are total decision lists over the headers, the arguments, the dense values and
the masks (`dBop`, `dInv`, `dPack`, `dRunReqC`, `dCfgC` in Lemmas/ApiDenseCov.lean).  Spelled out
per pixel and per coverage pixel: -/

/-- the header of a dense map -/
def SameHdr (d' d : DenseMapC) : Prop :=
  d'.toDense.covord = d.toDense.covord ∧ d'.toDense.spord = d.toDense.spord ∧
  d'.toDense.kind = d.toDense.kind ∧ d'.toDense.sent = d.toDense.sent

/-- **acceptance of `bop`**: exactly `BoolOpOk` of the headers — both operands boolean (bit-packed
    or ordinary, in any combination), the same two orders, neither sentinel `True`; a constant
    needs a boolean left operand only; every refusal is `NotImplementedError`.  The operator
    name, the form (in place / copying), the values and the masks take no part. -/
theorem dense_bop_accept (d : DenseMapC) (op : String) (rhs : DRhs) :
    (∃ d', dBop d op rhs = .ok d') ↔
      d.toDense.kind.isBool = true ∧
        match rhs with
        | .const _ => True
        | .map e => e.toDense.kind.isBool = true ∧ d.toDense.spord = e.toDense.spord ∧
            d.toDense.covord = e.toDense.covord ∧ d.toDense.sent ≠ .bool true ∧
            e.toDense.sent ≠ .bool true := by
  unfold dBop
  cases rhs with
  | const k =>
    show _ ↔ BoolOpOk d.toDense.hdr (.const k)
    split
    · rename_i h; exact ⟨fun _ => h, fun _ => ⟨_, rfl⟩⟩
    · rename_i h; exact ⟨fun ⟨_, h'⟩ => (nomatch h'), fun h' => absurd h' h⟩
  | map e =>
    show _ ↔ BoolOpOk d.toDense.hdr (.map e.toDense.hdr)
    split
    · rename_i h; exact ⟨fun _ => h, fun _ => ⟨_, rfl⟩⟩
    · rename_i h; exact ⟨fun ⟨_, h'⟩ => (nomatch h'), fun h' => absurd h' h⟩

theorem dense_bop_error {d : DenseMapC} {op : String} {rhs : DRhs} {e : Err}
    (h : dBop d op rhs = .error e) : e = .notImpl := by
  unfold dBop at h
  split at h
  · cases h
  · cases h; rfl

/-- **`a op b`, per pixel and per coverage pixel**: the header of the LEFT operand; the mask is
    the UNION; inside `b`'s mask the pixel holds the pixelwise operation of the two boolean
    readings, outside it `a`'s reading — `a`'s cell itself when that is a boolean -/
theorem dense_bop_map_pixel {d e d' : DenseMapC} {op : String}
    (h : dBop d op (.map e) = .ok d') :
    SameHdr d' d ∧ (∀ k, d'.cov k = (d.cov k || e.cov k)) ∧
    (∀ p, e.cov (p >>> d.c.shift) = true →
      d'.toDense.f p = .bool (boolFn op (d.bval p) (e.bval p))) ∧
    (∀ p, e.cov (p >>> d.c.shift) = false → d'.toDense.f p = .bool (d.bval p)) ∧
    (∀ p x, e.cov (p >>> d.c.shift) = false → d.toDense.f p = .bool x →
      d'.toDense.f p = d.toDense.f p) := by
  unfold dBop at h
  split at h
  · cases h
    refine ⟨⟨rfl, rfl, rfl, rfl⟩, fun _ => rfl, fun p hc => ?_, fun p hc => ?_, fun p x hc hx => ?_⟩
    · show bopMapF d e op p = _
      unfold bopMapF; rw [if_pos hc]
    · show bopMapF d e op p = _
      unfold bopMapF; rw [if_neg (by rw [hc]; exact Bool.false_ne_true)]
    · show bopMapF d e op p = _
      unfold bopMapF DenseMapC.bval
      rw [if_neg (by rw [hc]; exact Bool.false_ne_true), hx]; rfl
  · cases h

/-- **`a op k`**: header and mask of `a`; the constant is applied over `a`'s mask only -/
theorem dense_bop_const_pixel {d d' : DenseMapC} {op : String} {k : Bool}
    (h : dBop d op (.const k) = .ok d') :
    SameHdr d' d ∧ (∀ j, d'.cov j = d.cov j) ∧
    (∀ p, d.cov (p >>> d.c.shift) = true → d'.toDense.f p = .bool (boolFn op (d.bval p) k)) ∧
    (∀ p, d.cov (p >>> d.c.shift) = false → d'.toDense.f p = .bool (d.bval p)) := by
  unfold dBop at h
  split at h
  · cases h
    refine ⟨⟨rfl, rfl, rfl, rfl⟩, fun _ => rfl, fun p hc => ?_, fun p hc => ?_⟩
    · show bopConstF d op k p = _
      unfold bopConstF; rw [if_pos hc]
    · show bopConstF d op k p = _
      unfold bopConstF; rw [if_neg (by rw [hc]; exact Bool.false_ne_true)]
  · cases h

/-- **`~a`**: accepted iff `a` is boolean; header and mask of `a`; exactly the pixels inside the
    mask are flipped — a pixel outside it keeps showing the sentinel -/
theorem dense_inv_pixel {d d' : DenseMapC} (h : dInv d = .ok d') :
    d.toDense.kind.isBool = true ∧ SameHdr d' d ∧ (∀ j, d'.cov j = d.cov j) ∧
    (∀ p, d.cov (p >>> d.c.shift) = true → d'.toDense.f p = .bool (!(d.bval p))) ∧
    (∀ p, d.cov (p >>> d.c.shift) = false → d'.toDense.f p = .bool (d.bval p)) := by
  unfold dInv at h
  split at h
  · rename_i hk
    cases h
    refine ⟨hk, ⟨rfl, rfl, rfl, rfl⟩, fun _ => rfl, fun p hc => ?_, fun p hc => ?_⟩
    · show invF d p = _
      unfold invF; rw [if_pos hc]
    · show invF d p = _
      unfold invF; rw [if_neg (by rw [hc]; exact Bool.false_ne_true)]
  · cases h

theorem dense_inv_error {d : DenseMapC} {e : Err} (h : dInv d = .error e) :
    e = .notImpl ∧ d.toDense.kind.isBool = false := by
  unfold dInv at h
  split at h
  · cases h
  · rename_i hk; cases h; exact ⟨rfl, by simpa using hk⟩

/-- inverting twice gives back the boolean reading of every pixel, and the mask -/
theorem dense_inv_inv {d d1 d2 : DenseMapC} (h1 : dInv d = .ok d1) (h2 : dInv d1 = .ok d2) :
    (∀ j, d2.cov j = d.cov j) ∧ ∀ p, d2.toDense.f p = .bool (d.bval p) := by
  obtain ⟨_, hh, c1, a1, b1⟩ := dense_inv_pixel h1
  obtain ⟨_, _, c2, a2, b2⟩ := dense_inv_pixel h2
  have hc : d1.c = d.c := by
    unfold DenseMapC.c DenseMap.hdr MapObj.c; rw [hh.1, hh.2.1]
  refine ⟨fun j => (c2 j).trans (c1 j), fun p => ?_⟩
  cases hcv : d.cov (p >>> d.c.shift) with
  | true =>
    rw [a2 p (by rw [hc, c1]; exact hcv)]
    unfold DenseMapC.bval
    rw [a1 p hcv]
    simp [toB, DenseMapC.bval]
  | false =>
    rw [b2 p (by rw [hc, c1]; exact hcv)]
    unfold DenseMapC.bval
    rw [b1 p hcv]
    simp [toB, DenseMapC.bval]

/-- **`as_bit_packed_map`**: a bit-packed map is returned as it is; any other map needs a
    multiple of 8 pixels per coverage pixel (`ValueError` otherwise) and gives a bit-packed map of
    sentinel `False`, the same orders and the SAME MASK, `True` exactly on the valid pixels -/
theorem dense_pack_pixel {d d' : DenseMapC} (h : dPack d = .ok d') :
    (d.toDense.kind = .packed → d' = d) ∧
    (d.toDense.kind ≠ .packed → d.c.nfine % 8 = 0 ∧
      d'.toDense.covord = d.toDense.covord ∧ d'.toDense.spord = d.toDense.spord ∧
      d'.toDense.kind = .packed ∧ d'.toDense.sent = .bool false ∧ (∀ j, d'.cov j = d.cov j) ∧
      ∀ p, d'.toDense.f p = .bool (d.toDense.kind.valid d.toDense.sent (d.toDense.f p))) := by
  unfold dPack at h
  split at h
  · rename_i hk
    cases h
    exact ⟨fun _ => rfl, fun hn => absurd hk hn⟩
  · rename_i hk
    split at h
    · cases h
    · rename_i h8
      cases h
      exact ⟨fun hp => absurd hp hk,
        fun _ => ⟨by simpa using h8, rfl, rfl, rfl, rfl, fun _ => rfl, fun _ => rfl⟩⟩

/-- **the mask after an accepted write line**: the old mask, plus — unless the value is `None` —
    the coverage pixels of the addressed pixels (`upd`, `set`, and `updr` on the expansion path);
    on the slice path of `updr`: every coverage pixel from the one holding a non-empty row's start
    to the one holding its exclusive end (`sliceCov`) -/
theorem dense_write_mask (d : DenseMapC) (k : Nat) :
    (∀ op pix vals sg, grown d (.upd op pix vals sg) k =
      (d.cov k || (vals.isSome && pix.any fun p => p >>> d.c.shift == k))) ∧
    (∀ op R val, grown d (.ranges op R val false) k =
      (d.cov k || (val.isSome && (expand R).any fun p => p >>> d.c.shift == k))) ∧
    (∀ op R val, grown d (.ranges op R val true) k =
      (d.cov k || (val.isSome && (ApiRanges.liveRows R).any fun ab =>
        decide ((covRange d.c ab).1 ≤ k) && decide (k ≤ (covRange d.c ab).2)))) :=
  ⟨fun _ _ _ _ => rfl, fun _ _ _ => rfl, fun _ _ _ => rfl⟩

/-- a `None`-clear never grows the mask -/
theorem dense_clear_mask (d : DenseMapC) (k : Nat) (op : String) (pix : List Nat) (sg : Bool)
    (R : List (Nat × Nat)) (sl : Bool) :
    grown d (.upd op pix none sg) k = d.cov k ∧ grown d (.ranges op R none sl) k = d.cov k := by
  constructor <;> simp [grown, growBy]

/-- **a write line that is not answered `ok` changes nothing on the dense side** (values and
    mask): the API functions are pure, a refused call stores nothing -/
theorem dense_write_refused (D : DenseWorldC) (n : String) (d : DenseMapC) (req : WReq)
    (h : (dRunReqC D n d req).2 ≠ "ok") : (dRunReqC D n d req).1 = D := by
  cases req with
  | bad s => rfl
  | reject => rfl
  | upd op pix vals single =>
    simp only [dRunReqC] at h ⊢
    cases hu : dUpdate d.toDense op pix vals single none with
    | error e => rfl
    | ok d' => rw [hu] at h; exact absurd rfl h
  | ranges op R val sl =>
    simp only [dRunReqC] at h ⊢
    cases hu : dRanges d.toDense op R val sl with
    | error e => rfl
    | ok d' => rw [hu] at h; exact absurd rfl h

/-- an accepted `update_values_pix` (pixel or range form) keeps the header, keeps every pixel it
    does not address, and only ever GROWS the mask -/
theorem dense_write_ok {D : DenseWorldC} {n : String} {d : DenseMapC} {req : WReq}
    (hb : ∀ s, req ≠ .bad s) (h : (dRunReqC D n d req).2 = "ok") :
    ∃ d', (dRunReqC D n d req).1 = D.bind n d' ∧ SameHdr d' d ∧
      (∀ p, p ∉ req.pixels → d'.toDense.f p = d.toDense.f p) ∧
      (∀ k, d'.cov k = grown d req k) ∧ (∀ k, d.cov k = true → d'.cov k = true) := by
  have hmono : ∀ k, d.cov k = true → grown d req k = true := by
    intro k hk; unfold grown; rw [hk]; rfl
  cases req with
  | bad s => exact absurd rfl (hb s)
  | reject => exact absurd (show errLine .value = "ok" from h) (ApiScalar.errLine_ne_ok _)
  | upd op pix vals single =>
    simp only [dRunReqC] at h ⊢
    cases hu : dUpdate d.toDense op pix vals single none with
    | error e => rw [hu] at h; exact absurd h (ApiScalar.errLine_ne_ok e)
    | ok d' =>
      obtain ⟨a1, a2, a3, a4, a5⟩ := dUpdate_ok hu
      exact ⟨_, rfl, ⟨a1, a2, a3, a4⟩, a5, fun _ => rfl, hmono⟩
  | ranges op R val sl =>
    simp only [dRunReqC] at h ⊢
    cases hu : dRanges d.toDense op R val sl with
    | error e => rw [hu] at h; exact absurd h (ApiScalar.errLine_ne_ok e)
    | ok d' =>
      obtain ⟨a1, a2, a3, a4, a5⟩ := dRanges_ok hu
      exact ⟨_, rfl, ⟨a1, a2, a3, a4⟩, a5, fun _ => rfl, hmono⟩

/-! ### (3) a history: the hypotheses are satisfiable, the answers are what the protocol answers

Three boolean maps at 12 coverage pixels × 16 pixels: `a` ordinary, filled in coverage order
6, 0, 2; `b` BIT-PACKED, filled in coverage order 2, 11, 0, with an explicit `False` at pixel 6;
`c` ordinary with coverage pixels 7, 3 PRE-ALLOCATED by `covpix=` (in that order) before anything
is written.  A `None`-clear and a refused write leave the mask alone.  Then: `a | b` copying
(packed on the right), `b & a` copying (packed on the left; `&` is not commutative: pixels 100
and 180), `a &= b` in place, `a ^ c` copying (the mask of the result is the union of three
differently ordered masks), `c | True` copying and `c &= False`, `b ^= True` in place on the
bit-packed map (the constant acts on the coverage mask only: pixel 100 stays `False`),
`invert` in place, `~a` twice (= the map), `pack` of an ordinary and of a bit-packed map, an
in-place operator on the packed RESULT, growth of a RESULT into a new coverage pixel (8) by
`upd`, `o ^= o` (everything `False`, coverage kept), a range write into a result, `copy`; then
every refusal: an integer operand on either side, `~` of an integer map, `True` sentinel (with a
map; a constant is accepted), different resolution, `pack` at 4 pixels per coverage pixel
(an integer map IS packed: `as_bit_packed_map` looks at the pixel count only), malformed lines.

The real library (harness/real.py `Real().step`, 75 lines) answers every line of this history
that names existing maps exactly as listed below; the lines naming a missing map / no operand are
answered by the harness itself (`nomap`, `err KeyError`, `err IndexError`). -/

def exBool : List String := [
  "cfg a kind=plain dtype=b1 covord=0 spord=2",
  "cfg b kind=packed covord=0 spord=2",
  "cfg c kind=plain dtype=b1 covord=0 spord=2 covpix=7,3",
  "covmask c",
  "upd a pix=100,5,37 val=T",
  "covmask a",
  "upd b pix=37,180,5 val=T",
  "upd b pix=6 val=F",
  "covmask b",
  "upd c pix=50,120,121 vals=T,T,F",
  "covmask c",
  "upd a pix=20 none=1",
  "upd a pix=999 val=T",
  "covmask a",
  "bop a op=or rhs=b r=o",
  "covmask o",
  "get o pix=5,6,37,100,180,0,50",
  "bop b op=and rhs=a r=n",
  "covmask n",
  "get n pix=5,6,37,100,180",
  "bop a op=and rhs=b inplace=1",
  "covmask a",
  "get a pix=5,6,37,100,180",
  "bop a op=xor rhs=c r=x",
  "covmask x",
  "get x pix=5,37,50,51,100,120,121",
  "bop c op=or const=T r=ct",
  "covmask ct",
  "get ct pix=47,48,50,63,64,112,121,127,128,0",
  "bop c op=and const=F inplace=1",
  "get c pix=50,120,121",
  "bop b op=xor const=T inplace=1",
  "get b pix=5,6,7,37,180,100",
  "covmask b",
  "inv a inplace=1",
  "get a pix=5,6,37,100,180,20",
  "inv a r=ia",
  "inv ia r=iia",
  "get ia pix=5,6,37,100,180,20",
  "get iia pix=5,6,37,100,180,20",
  "covmask iia",
  "pack a r=pa",
  "pack b r=pb",
  "covmask pa",
  "get pa pix=5,6,37,100,180",
  "bop pa op=or rhs=o inplace=1",
  "covmask pa",
  "get pa pix=5,6,37,100,180",
  "upd o pix=130 val=T",
  "covmask o",
  "get o pix=130,131,5",
  "bop o op=xor rhs=o inplace=1",
  "covmask o",
  "get o pix=130,5,37",
  "updr x ranges=64:70 val=T",
  "covmask x",
  "copy x r=y",
  "covmask y",
  "cfg i kind=plain dtype=i4 covord=0 spord=2",
  "bop a op=or rhs=i",
  "bop i op=or rhs=a",
  "inv i",
  "cfg t kind=plain dtype=b1 covord=0 spord=2 sentinel=T",
  "bop a op=or rhs=t",
  "bop t op=or const=F r=tf",
  "cfg s kind=plain dtype=b1 covord=0 spord=3",
  "bop a op=and rhs=s",
  "cfg q kind=plain dtype=b1 covord=0 spord=1",
  "pack q r=pq",
  "pack i r=pi",
  "bop a op=or",
  "bop a op=or rhs=zz",
  "bop zz op=or const=T",
  "covmask zz",
  "inv"]

#guard exBool.all lineOk
#guard answers exBool == danswersC exBool
#guard answers exBool ==
  ["ok", "ok", "ok", "000100010000", "ok", "101000100000", "ok", "ok", "101000000001", "ok", "000100010000", "ok",
   "err IndexError", "101000100000", "ok", "101000100001", "T,F,T,T,T,F,F", "ok", "101000100001", "T,F,T,F,T", "ok",
   "101000100001", "T,F,T,T,F", "ok", "101100110001", "T,T,T,F,T,T,F", "ok", "000100010000", "F,T,T,T,F,T,T,T,F,F", "ok",
   "F,F,F", "ok", "F,T,T,F,F,F", "101000000001", "ok", "F,T,F,F,T,F", "ok", "ok", "T,F,T,T,F,F", "F,T,F,F,T,F",
   "101000100001", "ok", "ok", "101000100001", "F,T,F,F,T", "ok", "101000100001", "T,T,T,T,T", "ok", "101000101001",
   "T,F,T", "ok", "101000101001", "F,F,F", "ok", "101110110001", "ok", "101110110001", "ok", "err NotImplementedError",
   "err NotImplementedError", "err NotImplementedError", "ok", "err NotImplementedError", "ok", "ok",
   "err NotImplementedError", "ok", "err ValueError", "ok", "bad-op:rhs", "bad-op:rhs", "bad-op:no-such-map",
   "bad-op:no-such-map", "bad-op:no-map-name"]

/-- the theorems above instantiated on the history (the hypothesis is checked by the `#guard`
    above; the kernel cannot run the string parser, so it stays a hypothesis here) -/
example (h : ∀ l ∈ exBool, lineOk l = true) :
    RelC (runLines exBool) (drunC exBool) ∧
    ∀ k (hk : k < exBool.length),
      (step (runLines (exBool.take k)) exBool[k]).2 = (dstepC (drunC (exBool.take k)) exBool[k]).2 :=
  ⟨reachable_dense_bool _ h, reachable_dense_bool_answers _ h⟩

/-! ### (4) why the mask, and what "the coverage pixels of the pixels written" leaves out

(a) **The boolean operators are not functions of the value-only dense view.**  Two histories that
differ only in `covpix=0` on the second map: both maps hold the same values everywhere (`vals`
agree line by line, as do the headers), yet `a & b` reads `True` at pixel 5 in the first (pixel 5
lies outside `b`'s coverage mask: `a`'s value) and `False` in the second (inside: `True & False`).
Likewise `~b` at pixel 3.  So no interpreter on `ApiDense.DenseMap` can answer `bop` / `inv`. -/

def exNoCov : List String := [
  "cfg a kind=plain dtype=b1 covord=0 spord=2", "cfg b kind=plain dtype=b1 covord=0 spord=2",
  "upd a pix=5 val=T", "vals a", "vals b",
  "bop a op=and rhs=b r=x", "get x pix=5", "inv b r=i", "get i pix=3"]
def exWithCov : List String := [
  "cfg a kind=plain dtype=b1 covord=0 spord=2", "cfg b kind=plain dtype=b1 covord=0 spord=2 covpix=0",
  "upd a pix=5 val=T", "vals a", "vals b",
  "bop a op=and rhs=b r=x", "get x pix=5", "inv b r=i", "get i pix=3"]

#guard (answers exNoCov).take 5 == (answers exWithCov).take 5
#guard (answers exNoCov).drop 5 == ["ok", "T", "ok", "F"]
#guard (answers exWithCov).drop 5 == ["ok", "F", "ok", "T"]
#guard exNoCov.all lineOk && exWithCov.all lineOk
#guard answers exNoCov == danswersC exNoCov && answers exWithCov == danswersC exWithCov

/-! (b) **`updr` on the slice path allocates one coverage pixel more than the pixels written need**
when a row ends on a block edge (other than the end of the sphere): the row `0:16` writes the
pixels 0 … 15, all in coverage pixel 0, and allocates coverage pixels 0 AND 1; the expansion path
allocates coverage pixel 0 only (the real library does the same on both paths; Props/C08
`api_ranges_slice_spec` is the API-level statement).  "The mask grows by exactly the coverage
pixels of the pixels appended" is therefore FALSE for the slice path; the dense interpreter
follows the model (`sliceCov`), and the extra coverage pixel is observable through `~`: -/

def exSliceEdge : List String := [
  "cfg m kind=plain dtype=b1 covord=0 spord=2", "updr m ranges=0:16 val=T path=slice", "covmask m",
  "cfg e kind=plain dtype=b1 covord=0 spord=2", "updr e ranges=0:16 val=T path=expand", "covmask e",
  "vals m", "vals e", "inv m r=im", "inv e r=ie", "get im pix=15,16,31,32", "get ie pix=15,16,31,32",
  "cfg l kind=plain dtype=b1 covord=0 spord=2", "updr l ranges=176:192 val=T path=slice", "covmask l"]

#guard exSliceEdge.all lineOk
#guard answers exSliceEdge == danswersC exSliceEdge
#guard (answers exSliceEdge).take 6 == ["ok", "ok", "110000000000", "ok", "ok", "100000000000"]
#guard (answers exSliceEdge)[6]? == (answers exSliceEdge)[7]?
#guard (answers exSliceEdge).drop 8 ==
  ["ok", "ok", "F,T,T,F", "F,F,F,F", "ok", "ok", "000000000001"]

/-! (c) **a divergence of the MODEL from the library, outside the boolean maps**: `m |= True` on an
INTEGER map is, in the library, the scalar operator (`True` is the integer 1: accepted, bitwise
or with 1); the model's `bop` refuses a non-boolean left operand whatever the right operand is
(`apiBoolOp`, `NotImplementedError`).  The dense interpreter follows the model; the protocol
generators issue `bop` on boolean maps only (scalar operands go through `sop`). -/

#guard answers ["cfg i kind=plain dtype=i4 covord=0 spord=2", "bop i op=or const=T inplace=1"] ==
  ["ok", "err NotImplementedError"]

/-! ### (5) the reachable invariant `World.Good` is needed for ONE line (not for histories)

`rel_stepC` assumes `w.Good` besides `RelC w D`.  `RelC` says nothing of the typing of a map: a
boolean map whose sentinel is the number 0 (not `KindOk`) is related to its dense map, yet its
inverse — every cell a boolean, the overflow block included — is not well formed for that
sentinel, so the worlds are no longer related after `inv`.  No history reaches such a world
(`Good.runLines`), which is why the history-level theorems carry no hypothesis. -/

/-- a boolean map whose sentinel is the NUMBER 0 (not `KindOk`; no history reaches it) -/
def exIllTyped : MapObj :=
  { covord := 0, spord := 0, kind := .plain .bool, sent := .num 0 0,
    st := makeEmpty (cfgOf 0 0) ⟨.num 0 0, fun v => v != .num 0 0⟩ [] }

theorem exIllTyped_corr : CorrC exIllTyped ⟨dEmpty exIllTyped, fun _ => false⟩ := by
  refine ⟨⟨⟨Nat.le_refl _, ?_⟩, rfl, rfl, rfl, rfl, rfl, fun p _ => ?_⟩, fun k hk => ?_⟩
  · exact inv_makeEmpty' _ _ [] List.nodup_nil (fun _ h => nomatch h)
  · exact makeEmpty_abs' _ _ _ p
  · exact (makeEmpty_covered _ _ [] List.nodup_nil k hk).trans (by simp)

/-- at the API level: a related pair whose inverses are not related -/
theorem corrC_alone_insufficient :
    ∃ (m : MapObj) (d : DenseMapC), CorrC m d ∧ ¬ OutRelC m (apiInvert m) (dInv d) := by
  refine ⟨exIllTyped, _, exIllTyped_corr, ?_⟩
  rw [apiInvert_eq, if_pos (by rfl)]
  unfold dInv
  rw [if_pos (by rfl)]
  intro h
  have hwf : (exIllTyped.stored (ofBoolState (invertMap exIllTyped.c (toBoolState exIllTyped.st)))).WF :=
    h.corr.wf
  revert hwf
  decide +kernel

/-- **`RelC` alone is not preserved by `inv`**: related worlds that one `inv m inplace=1` line
    leads to unrelated worlds -/
theorem relC_alone_insufficient :
    ∃ (w : World) (D : DenseWorldC) (a : Args), RelC w D ∧
      ¬ RelC (stepArgs w "inv" a).1 (dstepArgsC D "inv" a).1 := by
  refine ⟨({} : World).bind "m" exIllTyped,
    DenseWorldC.bind [] "m" ⟨dEmpty exIllTyped, fun _ => false⟩, ⟨["m"], [("inplace", "1")]⟩,
    relC_empty.bind "m" exIllTyped_corr, ?_⟩
  intro h
  have hflag : Args.flag ⟨["m"], [("inplace", "1")]⟩ "inplace" = true := by decide +kernel
  have hm := h.maps "m"
  have e1 : (stepArgs (({} : World).bind "m" exIllTyped) "inv" ⟨["m"], [("inplace", "1")]⟩).1
      = (({} : World).bind "m" exIllTyped).bind "m"
          (exIllTyped.stored (ofBoolState (invertMap exIllTyped.c (toBoolState exIllTyped.st)))) := by
    show (opInv _ _).1 = _
    unfold opInv withMap
    simp only [ApiScalar.get?_bind_self, hflag, if_true, List.headD_cons]
    rw [show ({ exIllTyped with view := none } : MapObj) = exIllTyped from rfl, apiInvert_eq,
      if_pos (by rfl)]
    show World.put (({} : World).bind "m" exIllTyped) "m" (exIllTyped.stored _) = _
    exact World.put_eq_bind rfl
  have e2 : (dstepArgsC (DenseWorldC.bind [] "m" ⟨dEmpty exIllTyped, fun _ => false⟩) "inv"
      ⟨["m"], [("inplace", "1")]⟩).1.get? "m" = some ⟨{ dEmpty exIllTyped with f := invF ⟨dEmpty exIllTyped, fun _ => false⟩ }, fun _ => false⟩ := by
    show (dInvOp _ _).1.get? "m" = _
    unfold dInvOp dWithMapC
    simp only [dgetC_bind_self, hflag, List.headD_cons]
    unfold dInv
    rw [if_pos (by rfl)]
    simp only [if_true]
    exact dgetC_bind_self _ _ _
  rw [e1, e2] at hm
  unfold World.bind at hm
  simp only [raw?_eq, rawL_cons_self] at hm
  have hwf := hm.corr.wf
  revert hwf
  decide +kernel

end C11
end HS
