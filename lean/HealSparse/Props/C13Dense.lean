/-
  C13 at the driver level, against the dense reference interpreter: the refinement
  `C01.reachable_dense` (plain lines) / `C12.reachable_dense_scalar` (scalar family) extended to
  the WIDE-MASK BIT family — `bits` (set_bits_pix / clear_bits_pix, `mode=set|clear`, pixel lists
  with repeats, bit lists) and `chk` (check_bits_pix, also written `via=pos`).  Headline theorems
  only; the dense interpreter `dstepB` and the refinement proof are in Lemmas/ApiDenseBits.lean.

  (1) the refinement: `reachable_dense_bits` (+ `_answer`, `_answers`, `_all_answers`, `_map`),
      `bits_line_rel_alone`;
  (2) the dense transformers as per-pixel bit sets (`ApiBits.hasBit`): `dense_set_bits` (∪ / \),
      `dense_set_bits_error`, `dense_check_bits` (∈, any of the listed bits), `dense_check_bits_error`,
      `dense_valid_iff` (valid = non-empty), `dense_bits_refused`, `dense_chk_world`;
  (3) rows stay rows: `dense_sop_bits` (∩ / ∪ / △ on valid pixels), `wideRows_drunB`,
      `reachable_wide_rows`; (3') the two lines read on the protocol's own map: `bits_line_sets`,
      `chk_line_reads`;
  (4) an example history (`#guard`), kernel-evaluated instances of the dense transformers;
  (5) provisos: the byte-256 cell, model vs. library on `chk` of a non-wide map.
-/
import HealSparse.Lemmas.ApiDenseBits
import HealSparse.Props.C13
import HealSparse.Props.C12Dense
namespace HS
namespace C13

open ApiDense ApiDenseBits ApiBits ApiScalar
open ApiDenseScalar (dValid dValidSet RelS relS_empty rel_get dSop sopF dMask maskF dAstype dCopy dValidOp dNvalid
  dCovmap dSopOp dMaskOp dAstypeOp dstepArgsS dWithMap_world dValidOp_world dNvalid_world dCovmap_world
  corr_npix)

/-! ### (1) the refinement -/

/-- **the protocol refines the dense interpreter on histories of plain, scalar and bit lines**:
    after any history whose lines are plain (`cfg`, `upd`, `updr`, `set`, `get`, `vals`), of the
    scalar family (`sop`, `mask`, `astype`, `copy`, `valid`, `nvalid` — not `path=str` —, `covmap`)
    or of the bit family (`bits`, `chk`; malformed or refused lines included), the world the protocol
    reaches and the dense world the dense interpreter reaches agree: the same names, the same
    headers, and every map reads at every pixel what the dense array holds. -/
theorem reachable_dense_bits (lines : List String) (h : ∀ l ∈ lines, ApiDenseBits.lineOk l = true) :
    Rel (runLines lines) (drunB lines) :=
  rel_runLinesB lines h

/-- … hence any further such line is answered by the protocol as by the dense interpreter
    (errors and their kind included) -/
theorem reachable_dense_bits_answer (lines : List String)
    (h : ∀ l ∈ lines, ApiDenseBits.lineOk l = true) (q : String) (hq : ApiDenseBits.lineOk q = true) :
    (step (runLines lines) q).2 = (dstepB (drunB lines) q).2 :=
  (rel_stepB (rel_runLinesB lines h) (Good2.runLines lines) hq).2

/-- … and every answer ALONG the history agrees too -/
theorem reachable_dense_bits_answers (lines : List String)
    (h : ∀ l ∈ lines, ApiDenseBits.lineOk l = true) (k : Nat) (hk : k < lines.length) :
    (step (runLines (lines.take k)) lines[k]).2 = (dstepB (drunB (lines.take k)) lines[k]).2 :=
  reachable_dense_bits_answer (lines.take k) (fun l hl => h l (List.mem_of_mem_take hl)) lines[k]
    (h _ (List.getElem_mem hk))

/-- … as one equation: the list of all answers of the history is the list of answers of the dense
    interpreter (what the `#guard` of section (4) evaluates on an example) -/
theorem reachable_dense_bits_all_answers (lines : List String)
    (h : ∀ l ∈ lines, ApiDenseBits.lineOk l = true) : answers lines = danswersB lines :=
  answers_eq_danswersB lines h

/-- the map-level reading: a name bound after such a history is bound on the dense side to an
    array with the same header that holds `m.abs p` at every pixel -/
theorem reachable_dense_bits_map (lines : List String) (h : ∀ l ∈ lines, ApiDenseBits.lineOk l = true)
    {n : String} {m : MapObj} (hg : (runLines lines).get? n = some m) :
    ∃ d, (drunB lines).get? n = some d ∧ m.WF ∧ m.view = none ∧ m.covord = d.covord ∧
      m.spord = d.spord ∧ m.kind = d.kind ∧ m.sent = d.sent ∧ ∀ p, p < m.npix → m.abs p = d.f p := by
  have hm := rel_get (rel_runLinesB lines h) n
  rw [hg] at hm
  cases hd : (drunB lines).get? n with
  | none => rw [hd] at hm; exact hm.elim
  | some d =>
    rw [hd] at hm
    exact ⟨d, rfl, hm.wf, hm.view, hm.covord, hm.spord, hm.kind, hm.sent, hm.abs⟩

/-- a line of the bit family needs no invariant of the sparse world: `Rel` alone is preserved and
    the answers agree (unlike the scalar family, `C12.rel_alone_insufficient`) -/
theorem bits_line_rel_alone {w : World} {D : DenseWorld} (hR : Rel w D) {line : String}
    (hp : ApiDenseBits.famLine line = true) :
    Rel (step w line).1 (dstepB D line).1 ∧ (step w line).2 = (dstepB D line).2 :=
  rel_step_bits hR hp

/-! ### (2) what the dense interpreter computes: per-pixel bit sets

A cell is read as a set of bit positions through `ApiBits.hasBit` (byte `b / 8`, bit `b % 8`); the
reading needs the cell to be a row of `n` bytes (`ApiBits.isRowVal n`), which every cell of a wide
mask built by `cfg`, `bits` and the bit-list operators is (section (3)). -/

/-- **`bits` accepted** (`dSetBits … = .ok d'`): the map is a wide mask of `n` bytes with zero
    sentinel, the bit list is non-empty with every position below `8 n`, every listed pixel is on
    the sphere; the header is kept; a pixel that is not listed keeps its cell; a listed pixel —
    however often it is listed — holds `S ∪ bits` (set) resp. `S \ bits` (clear) and is again a row
    of `n` bytes -/
theorem dense_set_bits {d d' : DenseMap} {pix bits : List Nat} {clear : Bool}
    (h : dSetBits d pix bits clear = .ok d') :
    ∃ n, d.kind = .wide n ∧ d.sent.isZero = true ∧ bits ≠ [] ∧ (∀ b ∈ bits, b < 8 * n) ∧
      (∀ q ∈ pix, q < d.npix) ∧
      d'.covord = d.covord ∧ d'.spord = d.spord ∧ d'.kind = d.kind ∧ d'.sent = d.sent ∧
      (∀ p, p ∉ pix → d'.f p = d.f p) ∧
      (∀ p, p ∈ pix → isRowVal n (d.f p) = true →
        isRowVal n (d'.f p) = true ∧
        ∀ b, hasBit (d'.f p) b =
          if clear then (hasBit (d.f p) b && !bits.contains b)
          else (hasBit (d.f p) b || bits.contains b)) := by
  unfold dSetBits at h
  split at h
  · rename_i n hk
    split at h
    · cases h
    split at h
    · cases h
    split at h
    · cases h
    split at h
    · cases h
    rename_i h1 h2 h3 h4
    cases h
    have hb := bits_lt_of_not_any h2
    refine ⟨n, hk, by simpa using h3, by simpa using h1, hb, WFApi.lt_of_not_any_ge h4,
      rfl, rfl, rfl, rfl, fun p hp => ?_, fun p hp hx => ?_⟩
    · show bitsF d n pix bits clear p = _
      unfold bitsF
      rw [if_neg hp]
    · show isRowVal n (bitsF d n pix bits clear p) = true ∧
        ∀ b, hasBit (bitsF d n pix bits clear p) b = _
      unfold bitsF
      rw [if_pos hp, ← bitsCell_eq d.hdr]
      obtain ⟨c1, c2, _, _⟩ := cell_ops hx bits hb d.hdr.kind.dt
      unfold bitsCell bitsValue
      cases clear with
      | true => exact c2
      | false => exact c1
  · cases h

/-- **`bits` refused, exactly**: NotImplementedError iff the map is not a wide mask; on a wide mask
    of `n` bytes ValueError iff the bit list is empty, names a position at or above `8 n`, or the
    sentinel is not zero (whatever the pixels); otherwise IndexError iff a listed pixel is outside
    the sphere; nothing else -/
theorem dense_set_bits_error (d : DenseMap) (pix bits : List Nat) (clear : Bool) (e : Err) :
    dSetBits d pix bits clear = .error e ↔
      (e = .notImpl ∧ ∀ n, d.kind ≠ .wide n) ∨
      ∃ n, d.kind = .wide n ∧
        ((e = .value ∧ (bits = [] ∨ (∃ b ∈ bits, 8 * n ≤ b) ∨ d.sent.isZero = false)) ∨
         (e = .index ∧ bits ≠ [] ∧ (∀ b ∈ bits, b < 8 * n) ∧ d.sent.isZero = true ∧
            ∃ q ∈ pix, d.npix ≤ q)) := by
  unfold dSetBits
  cases hk : d.kind with
  | wide n =>
    simp only []
    have hw : ∀ P : Nat → Prop, (∃ n', Kind.wide n = Kind.wide n' ∧ P n') ↔ P n :=
      fun P => ⟨fun ⟨n', h, hp⟩ => by cases h; exact hp, fun hp => ⟨n, rfl, hp⟩⟩
    have hnw : ¬ ∀ n', Kind.wide n ≠ Kind.wide n' := fun h => h n rfl
    rw [hw]
    by_cases h1 : bits.isEmpty = true
    · have hb : bits = [] := by simpa using h1
      rw [if_pos h1]
      constructor
      · intro h; cases h; exact Or.inr (Or.inl ⟨rfl, Or.inl hb⟩)
      · rintro (⟨_, h⟩ | ⟨rfl, _⟩ | ⟨_, h, _⟩)
        · exact absurd h hnw
        · rfl
        · exact absurd hb h
    · have hb : bits ≠ [] := by simpa using h1
      rw [if_neg h1]
      by_cases h2 : (bits.any fun x => decide (x ≥ 8 * n)) = true
      · have hex : ∃ b ∈ bits, 8 * n ≤ b := by simpa using h2
        rw [if_pos h2]
        constructor
        · intro h; cases h; exact Or.inr (Or.inl ⟨rfl, Or.inr (Or.inl hex)⟩)
        · rintro (⟨_, h⟩ | ⟨rfl, _⟩ | ⟨_, _, h, _⟩)
          · exact absurd h hnw
          · rfl
          · obtain ⟨b, hb1, hb2⟩ := hex
            have := h b hb1
            omega
      · have hlt := bits_lt_of_not_any h2
        rw [if_neg h2]
        by_cases h3 : (!d.sent.isZero) = true
        · have hz : d.sent.isZero = false := by simpa using h3
          rw [if_pos h3]
          constructor
          · intro h; cases h; exact Or.inr (Or.inl ⟨rfl, Or.inr (Or.inr hz)⟩)
          · rintro (⟨_, h⟩ | ⟨rfl, _⟩ | ⟨_, _, _, h, _⟩)
            · exact absurd h hnw
            · rfl
            · rw [hz] at h; cases h
        · have hz : d.sent.isZero = true := by simpa using h3
          rw [if_neg h3]
          by_cases h4 : (pix.any fun x => decide (x ≥ d.npix)) = true
          · have hex : ∃ q ∈ pix, d.npix ≤ q := by simpa using h4
            rw [if_pos h4]
            constructor
            · intro h; cases h; exact Or.inr (Or.inr ⟨rfl, hb, hlt, hz, hex⟩)
            · rintro (⟨_, h⟩ | ⟨rfl, h⟩ | ⟨rfl, _⟩)
              · exact absurd h hnw
              · rcases h with h | ⟨b, hb1, hb2⟩ | h
                · exact absurd h hb
                · have := hlt b hb1
                  omega
                · rw [hz] at h; cases h
              · rfl
          · have hpl := WFApi.lt_of_not_any_ge h4
            rw [if_neg h4]
            constructor
            · intro h; cases h
            · rintro (⟨_, h⟩ | ⟨_, h⟩ | ⟨_, _, _, _, q, hq1, hq2⟩)
              · exact absurd h hnw
              · rcases h with h | ⟨b, hb1, hb2⟩ | h
                · exact absurd h hb
                · have := hlt b hb1
                  omega
                · rw [hz] at h; cases h
              · have := hpl q hq1
                omega
  | plain dt =>
    simp only []
    constructor
    · intro h; cases h; exact Or.inl ⟨rfl, fun n h => nomatch h⟩
    · rintro (⟨rfl, _⟩ | ⟨n, h, _⟩)
      · rfl
      · cases h
  | packed =>
    simp only []
    constructor
    · intro h; cases h; exact Or.inl ⟨rfl, fun n h => nomatch h⟩
    · rintro (⟨rfl, _⟩ | ⟨n, h, _⟩)
      · rfl
      · cases h
  | recd fs pr =>
    simp only []
    constructor
    · intro h; cases h; exact Or.inl ⟨rfl, fun n h => nomatch h⟩
    · rintro (⟨rfl, _⟩ | ⟨n, h, _⟩)
      · rfl
      · cases h

/-- **`chk` answered** (`dCheckBits … = .ok l`): a wide mask, every listed pixel on the sphere,
    every position below `8 n` (an EMPTY bit list is accepted); one answer per listed pixel, in
    order, repeats kept; the answer for a pixel holding a row of `n` bytes is `true` iff its set
    contains ANY of the listed bits -/
theorem dense_check_bits {d : DenseMap} {pix bits : List Nat} {l : List Bool}
    (h : dCheckBits d pix bits = .ok l) :
    ∃ n, d.kind = .wide n ∧ (∀ p ∈ pix, p < d.npix) ∧ (∀ b ∈ bits, b < 8 * n) ∧
      l.length = pix.length ∧
      ∀ i (hi : i < pix.length), isRowVal n (d.f pix[i]) = true →
        l.getD i false = bits.any fun b => hasBit (d.f pix[i]) b := by
  unfold dCheckBits at h
  split at h
  · rename_i n hk
    split at h
    · cases h
    split at h
    · cases h
    rename_i h1 h2
    cases h
    have hb := bits_lt_of_not_any h2
    refine ⟨n, hk, WFApi.lt_of_not_any_ge h1, hb, by simp, fun i hi hx => ?_⟩
    rw [List.getD_eq_getElem?_getD, List.getElem?_map, List.getElem?_eq_getElem hi]
    simp only [Option.map_some, Option.getD_some]
    obtain ⟨row, hrow, hl, hrl⟩ := isRowVal_iff.1 hx
    rw [hrow]
    exact check_bits_spec row bits n ⟨hl, hrl⟩ hb
  · cases h

/-- the whole answer when every listed pixel holds a row of `n` bytes -/
theorem dense_check_bits_all {d : DenseMap} {n : Nat} {pix bits : List Nat} {l : List Bool}
    (hk : d.kind = .wide n) (h : dCheckBits d pix bits = .ok l)
    (hrows : ∀ p ∈ pix, isRowVal n (d.f p) = true) :
    l = pix.map fun p => bits.any fun b => hasBit (d.f p) b := by
  obtain ⟨n', hk', _, _, hlen, hget⟩ := dense_check_bits h
  have : n' = n := by rw [hk] at hk'; cases hk'; rfl
  subst this
  apply List.ext_getElem?
  intro i
  by_cases hi : i < pix.length
  · have hi' : i < l.length := by rw [hlen]; exact hi
    have := hget i hi (hrows _ (List.getElem_mem hi))
    rw [List.getD_eq_getElem?_getD, List.getElem?_eq_getElem hi'] at this
    rw [List.getElem?_eq_getElem hi', List.getElem?_map, List.getElem?_eq_getElem hi]
    simp only [Option.getD_some] at this
    rw [this]; rfl
  · rw [List.getElem?_eq_none (by omega), List.getElem?_eq_none (by simp; omega)]

/-- **`chk` refused, exactly**: TypeError iff the map is not a wide mask; on a wide mask IndexError
    iff a listed pixel is outside the sphere or a position is at or above `8 n`; nothing else -/
theorem dense_check_bits_error (d : DenseMap) (pix bits : List Nat) (e : Err) :
    dCheckBits d pix bits = .error e ↔
      (e = .type ∧ ∀ n, d.kind ≠ .wide n) ∨
      ∃ n, d.kind = .wide n ∧ e = .index ∧ ((∃ q ∈ pix, d.npix ≤ q) ∨ ∃ b ∈ bits, 8 * n ≤ b) := by
  unfold dCheckBits
  cases hk : d.kind with
  | wide n =>
    simp only []
    have hnw : ¬ ∀ n', Kind.wide n ≠ Kind.wide n' := fun h => h n rfl
    by_cases h1 : (pix.any fun x => decide (x ≥ d.npix)) = true
    · have hex : ∃ q ∈ pix, d.npix ≤ q := by simpa using h1
      rw [if_pos h1]
      constructor
      · intro h; cases h; exact Or.inr ⟨n, rfl, rfl, Or.inl hex⟩
      · rintro (⟨_, h⟩ | ⟨n', _, rfl, _⟩)
        · exact absurd h hnw
        · rfl
    · have hpl := WFApi.lt_of_not_any_ge h1
      rw [if_neg h1]
      by_cases h2 : (bits.any fun x => decide (x ≥ 8 * n)) = true
      · have hex : ∃ b ∈ bits, 8 * n ≤ b := by simpa using h2
        rw [if_pos h2]
        constructor
        · intro h; cases h; exact Or.inr ⟨n, rfl, rfl, Or.inr hex⟩
        · rintro (⟨_, h⟩ | ⟨n', _, rfl, _⟩)
          · exact absurd h hnw
          · rfl
      · have hlt := bits_lt_of_not_any h2
        rw [if_neg h2]
        constructor
        · intro h; cases h
        · rintro (⟨_, h⟩ | ⟨n', hn, _, h⟩)
          · exact absurd h hnw
          · cases hn
            rcases h with ⟨q, hq1, hq2⟩ | ⟨b, hb1, hb2⟩
            · have := hpl q hq1
              omega
            · have := hlt b hb1
              omega
  | plain dt =>
    simp only []
    constructor
    · intro h; cases h; exact Or.inl ⟨rfl, fun n h => nomatch h⟩
    · rintro (⟨rfl, _⟩ | ⟨n, h, _⟩)
      · rfl
      · cases h
  | packed =>
    simp only []
    constructor
    · intro h; cases h; exact Or.inl ⟨rfl, fun n h => nomatch h⟩
    · rintro (⟨rfl, _⟩ | ⟨n, h, _⟩)
      · rfl
      · cases h
  | recd fs pr =>
    simp only []
    constructor
    · intro h; cases h; exact Or.inl ⟨rfl, fun n h => nomatch h⟩
    · rintro (⟨rfl, _⟩ | ⟨n, h, _⟩)
      · rfl
      · cases h

/-- **validity = non-empty set**: in a wide mask of `n` bytes a row of `n` bytes is valid iff some
    position below `8 n` is set (what `valid`, `nvalid`, `covmap` and `get … vm=1` count) -/
theorem dense_valid_iff {d : DenseMap} {n : Nat} (hk : d.kind = .wide n) {v : Val}
    (hv : isRowVal n v = true) :
    dValid d v = (List.range (8 * n)).any fun b => hasBit v b := by
  obtain ⟨row, rfl, hl, hlt⟩ := isRowVal_iff.1 hv
  unfold dValid
  rw [hk]
  exact valid_iff_nonempty row n ⟨hl, hlt⟩

theorem dense_valid_iff_exists {d : DenseMap} {n : Nat} (hk : d.kind = .wide n) {v : Val}
    (hv : isRowVal n v = true) : dValid d v = true ↔ ∃ b, hasBit v b = true := by
  rw [dense_valid_iff hk hv, List.any_eq_true]
  constructor
  · rintro ⟨b, _, h⟩; exact ⟨b, h⟩
  · rintro ⟨b, h⟩
    refine ⟨b, List.mem_range.2 ?_, h⟩
    apply Nat.lt_of_not_le
    intro hb
    rw [hasBit_big hv hb] at h
    cases h

/-- a refused `bits` line changes nothing on the dense side, `chk` never does (the sparse side:
    `C13.bits_rejected_world_unchanged`, `C13.chk_world_unchanged`) -/
theorem dense_bits_refused (D : DenseWorld) (a : Args) (hne : (dstepArgsB D "bits" a).2 ≠ "ok") :
    (dstepArgsB D "bits" a).1 = D :=
  dBitsOp_not_ok D a hne

theorem dense_chk_world (D : DenseWorld) (a : Args) : (dstepArgsB D "chk" a).1 = D :=
  dChkOp_world D a

/-! ### (3) rows stay rows

The set reading of section (2) needs cells that are rows of `n` bytes.  `cfg`, `bits`, the bit-list
operators, `mask` and `copy` only ever produce such cells; the one way to store anything else in a
wide mask is a raw write (`upd … val=b256.0.0`: the model checks the row LENGTH only, see the API
part of Props/C13).  So along a history without `upd` / `updr` / `set` every wide mask holds rows,
on the dense side (`wideRows_drunB`) and — through the refinement — in the protocol's world
(`reachable_wide_rows`). -/

/-- every cell of the dense array is a row of `n` bytes -/
def RowsD (d : DenseMap) (n : Nat) : Prop := ∀ p, isRowVal n (d.f p) = true

theorem rowsD_dEmpty {m : MapObj} {n : Nat} (hk : m.kind = .wide n) : RowsD (dEmpty m) n := by
  intro p
  show isRowVal n (m.kind.blank m.sent) = true
  rw [hk]
  exact isRowVal_blank n

/-- set / clear keep rows -/
theorem rowsD_set_bits {d d' : DenseMap} {n : Nat} {pix bits : List Nat} {clear : Bool}
    (hk : d.kind = .wide n) (hr : RowsD d n) (h : dSetBits d pix bits clear = .ok d') : RowsD d' n := by
  obtain ⟨n', hk', _, _, _, _, _, _, _, _, hout, hin⟩ := dense_set_bits h
  have : n' = n := by rw [hk] at hk'; cases hk'; rfl
  subst this
  intro p
  by_cases hp : p ∈ pix
  · exact (hin p hp (hr p)).1
  · rw [hout p hp]; exact hr p

theorem sopCell_wide_bits (n : Nat) (op : String) (l : List Nat) (x : Val) :
    sopCell (.wide n) op (.bits l) x = some (bitsOpCell op n l x) := by
  unfold sopCell wideBitop bitsOpCell
  simp only []
  split
  · rfl
  · rfl
  · rename_i h1 h2
    split
    · exact absurd rfl h1
    · exact absurd rfl h2
    · rfl

/-- **an operator with a bit list on a dense wide mask** (`sop … bits=…`): accepted only for
    `and` / `or` / `xor` with a non-empty list of positions below `8 n`; the header is kept; a VALID
    pixel's set becomes `S ∩ l` / `S ∪ l` / `S △ l`, an invalid pixel (empty set) keeps its cell —
    also under `or`; rows stay rows -/
theorem dense_sop_bits {d d' : DenseMap} {n : Nat} {op : String} {k : Scalar} (hk : d.kind = .wide n)
    (h : dSop d op k = .ok d') :
    ∃ l, k = .bits l ∧ l ≠ [] ∧ (∀ b ∈ l, b < 8 * n) ∧ intOnlyOp op = true ∧
      d'.covord = d.covord ∧ d'.spord = d.spord ∧ d'.kind = d.kind ∧ d'.sent = d.sent ∧
      ∀ p, isRowVal n (d.f p) = true →
        isRowVal n (d'.f p) = true ∧
        ∀ b, hasBit (d'.f p) b =
          if dValid d (d.f p) = true then opBool op (hasBit (d.f p) b) (l.contains b)
          else hasBit (d.f p) b := by
  unfold dSop at h
  split at h
  · cases h
  · rename_i hE
    split at h
    · cases h
    cases h
    rw [hk] at hE
    unfold sopError at hE
    simp only [] at hE
    split at hE
    · cases hE
    rename_i hop
    cases k with
    | bits l =>
      simp only [] at hE
      split at hE
      · cases hE
      split at hE
      · cases hE
      rename_i h1 h2
      have hl := bits_lt_of_not_any h2
      refine ⟨l, rfl, by simpa using h1, hl, by simpa using hop, rfl, rfl, rfl, rfl, fun p hx => ?_⟩
      show isRowVal n (sopF d op (.bits l) p) = true ∧ ∀ b, hasBit (sopF d op (.bits l) p) b = _
      unfold sopF
      rw [hk, sopCell_wide_bits]
      simp only [Option.getD_some]
      split
      · exact bitsOpCell_spec hx op l hl
      · exact ⟨hx, fun _ => rfl⟩
    | int _ => cases hE
    | flt _ => cases hE

theorem rowsD_sop {d d' : DenseMap} {n : Nat} {op : String} {k : Scalar} (hk : d.kind = .wide n)
    (hr : RowsD d n) (h : dSop d op k = .ok d') : RowsD d' n := by
  obtain ⟨l, _, _, _, _, _, _, _, _, hp⟩ := dense_sop_bits hk h
  exact fun p => (hp p (hr p)).1

theorem rowsD_mask {d dk d' : DenseMap} {n : Nat} {mb : Option Int} {ba : Option (List Nat)}
    (hk : d.kind = .wide n) (hr : RowsD d n) (h : dMask d dk mb ba = .ok d') : RowsD d' n := by
  intro p
  rw [(C12.dense_mask_pixel h p).2.2.2.2]
  split
  · show isRowVal n (d.kind.blank d.sent) = true
    rw [hk]
    exact isRowVal_blank n
  · exact hr p

/-- every wide mask of the dense world holds rows of bytes of its width -/
def WideRows (D : DenseWorld) : Prop := ∀ x d n, D.get? x = some d → d.kind = .wide n → RowsD d n

theorem wideRows_nil : WideRows [] := by
  intro x d n h
  cases h

theorem wideRows_bind {D : DenseWorld} (h : WideRows D) (x : String) {d : DenseMap}
    (hd : ∀ n, d.kind = .wide n → RowsD d n) : WideRows (D.bind x d) := by
  intro y d' n hg hk
  by_cases hxy : x = y
  · subst hxy
    rw [dget_bind_self] at hg
    cases hg
    exact hd n hk
  · rw [dget_bind_ne D hxy] at hg
    exact h y d' n hg hk

theorem wideRows_withMap {D : DenseWorld} {a : Args} {k : DenseMap → DenseWorld × String}
    (h : WideRows D) (hk : ∀ d, D.get? (a.pos.headD "") = some d → WideRows (k d).1) :
    WideRows (dWithMap D a k).1 := by
  unfold dWithMap
  cases hpos : a.pos with
  | nil => exact h
  | cons x rest =>
    simp only []
    cases hd : D.get? x with
    | none => exact h
    | some d => exact hk d (by rw [hpos]; exact hd)

/-- the operations that keep rows: every operation of `lineOk` but the raw writes -/
def rowsOp (op : String) : Bool :=
  op == "cfg" || op == "get" || op == "vals" || ApiDenseScalar.famOp op || ApiDenseBits.famOp op

section rows
variable {D : DenseWorld}

theorem wideRows_cfg (h : WideRows D) (a : Args) : WideRows (dCfg D a).1 := by
  unfold dCfg
  cases cfgReq a with
  | none => exact h
  | some r =>
    obtain ⟨n, kind, co, so, sent, cp⟩ := r
    simp only []
    cases hm : apiMakeEmpty co so kind sent cp with
    | error e => exact h
    | ok m => exact wideRows_bind h n fun k hk => rowsD_dEmpty hk

theorem wideRows_copy (h : WideRows D) (a : Args) : WideRows (dCopy D a).1 := by
  unfold dCopy
  exact wideRows_withMap h fun d hd => wideRows_bind h _ fun n hk => h _ d n hd hk

theorem wideRows_sop (h : WideRows D) (a : Args) : WideRows (dSopOp D a).1 := by
  unfold dSopOp
  refine wideRows_withMap h fun d hd => ?_
  cases sopArg a with
  | none => exact h
  | some k =>
    simp only []
    cases hs : dSop d (a.getD "op" "add") k with
    | error e => exact h
    | ok d' =>
      simp only []
      have hrows : ∀ n, d'.kind = .wide n → RowsD d' n := by
        intro n hk'
        have hkd : d'.kind = d.kind := (C12.dense_sop_pixel hs 0).2.2.1
        have hk : d.kind = .wide n := hkd ▸ hk'
        exact rowsD_sop hk (h _ d n hd hk) hs
      split
      · exact wideRows_bind h _ hrows
      · exact wideRows_bind h _ hrows

theorem wideRows_mask (h : WideRows D) (a : Args) : WideRows (dMaskOp D a).1 := by
  unfold dMaskOp
  refine wideRows_withMap h fun d hd => ?_
  cases D.get? (a.getD "by" "") with
  | none => exact h
  | some dk =>
    simp only []
    cases hs : dMask d dk ((a.get? "bits").bind String.toInt?) ((a.get? "bitarr").bind parseNats) with
    | error e => exact h
    | ok d' =>
      simp only []
      have hrows : ∀ n, d'.kind = .wide n → RowsD d' n := by
        intro n hk'
        have hkd : d'.kind = d.kind := (C12.dense_mask_pixel hs 0).2.2.1
        have hk : d.kind = .wide n := hkd ▸ hk'
        exact rowsD_mask hk (h _ d n hd hk) hs
      split
      · exact wideRows_bind h _ hrows
      · exact wideRows_bind h _ hrows

theorem wideRows_astype (h : WideRows D) (a : Args) : WideRows (dAstypeOp D a).1 := by
  unfold dAstypeOp
  refine wideRows_withMap h fun d hd => ?_
  cases (a.get? "dtype").bind parseDT <;> cases optVal a "sentinel"
  · exact h
  · exact h
  · exact h
  · rename_i dt sent
    simp only []
    cases hs : dAstype d dt sent with
    | error e => exact h
    | ok d' =>
      refine wideRows_bind h _ fun n hk' => ?_
      rw [(C12.dense_astype_pixel hs 0).2.2.1] at hk'
      cases hk'

theorem wideRows_bits (h : WideRows D) (a : Args) : WideRows (dBitsOp D a).1 := by
  unfold dBitsOp
  refine wideRows_withMap h fun d hd => ?_
  cases parseNats (a.getD "pix" "_") <;> cases parseNats (a.getD "bits" "_")
  · exact h
  · exact h
  · exact h
  · rename_i pix bits
    simp only []
    cases hs : dSetBits d pix bits (a.getD "mode" "set" == "clear") with
    | error e => exact h
    | ok d' =>
      refine wideRows_bind h _ fun n hk' => ?_
      obtain ⟨n', hk, _, _, _, _, _, _, hkd, _⟩ := dense_set_bits hs
      have hk2 : d.kind = .wide n := hkd ▸ hk'
      exact rowsD_set_bits hk2 (h _ d n hd hk2) hs

/-- **one parsed line that is not a raw write keeps rows** -/
theorem wideRows_stepArgs (h : WideRows D) {op : String} (a : Args) (hp : rowsOp op = true) :
    WideRows (dstepArgsB D op a).1 := by
  unfold rowsOp at hp
  simp only [Bool.or_eq_true, beq_iff_eq] at hp
  rcases hp with (((rfl | rfl) | rfl) | hp) | hp
  · exact wideRows_cfg h a
  · have e : (dstepArgsB D "get" a).1 = D := dWithMap_world fun _ => rfl
    rw [e]; exact h
  · have e : (dstepArgsB D "vals" a).1 = D := dWithMap_world fun _ => rfl
    rw [e]; exact h
  · rcases ApiDenseScalar.famOp_cases hp with rfl | rfl | rfl | rfl | rfl | rfl | rfl
    · exact wideRows_copy h a
    · have e : (dstepArgsB D "valid" a).1 = D := dValidOp_world D a
      rw [e]; exact h
    · have e : (dstepArgsB D "nvalid" a).1 = D := dNvalid_world D a
      rw [e]; exact h
    · have e : (dstepArgsB D "covmap" a).1 = D := dCovmap_world D a
      rw [e]; exact h
    · exact wideRows_sop h a
    · exact wideRows_mask h a
    · exact wideRows_astype h a
  · rcases ApiDenseBits.famOp_cases hp with rfl | rfl
    · exact wideRows_bits h a
    · have e : (dstepArgsB D "chk" a).1 = D := dChkOp_world D a
      rw [e]; exact h

end rows

/-- a raw line that is not a raw write (`upd`, `updr`, `set`) -/
def rowsLine (line : String) : Bool :=
  match lineToks line with
  | [] => true
  | op :: _ => rowsOp op

theorem wideRows_dstepB {D : DenseWorld} (h : WideRows D) {line : String} (hp : rowsLine line = true) :
    WideRows (dstepB D line).1 := by
  unfold dstepB
  unfold rowsLine at hp
  cases ht : lineToks line with
  | nil => exact h
  | cons op rest =>
    rw [ht] at hp
    exact wideRows_stepArgs h _ hp

/-- **along a history without raw writes every wide mask of the dense world holds rows** -/
theorem wideRows_drunB (lines : List String) (h : ∀ l ∈ lines, rowsLine l = true) :
    WideRows (drunB lines) := by
  unfold drunB
  have key : ∀ (ls : List String) (D : DenseWorld), WideRows D → (∀ l ∈ ls, rowsLine l = true) →
      WideRows (ls.foldl (fun D l => (dstepB D l).1) D) := by
    intro ls
    induction ls with
    | nil => intro D hD _; exact hD
    | cons l ls ih =>
      intro D hD hp
      exact ih _ (wideRows_dstepB hD (hp l List.mem_cons_self)) fun l' h' => hp l' (List.mem_cons_of_mem _ h')
  exact key lines [] wideRows_nil h

/-- **… and so does every wide mask the protocol reaches**: after a history of `cfg`, `bits`, `chk`,
    reads, observers, operators, `mask`, `astype`, `copy` lines, every pixel of every wide mask of
    `n` bytes reads as a row of `n` bytes — the set reading applies everywhere -/
theorem reachable_wide_rows (lines : List String) (h : ∀ l ∈ lines, ApiDenseBits.lineOk l = true)
    (hr : ∀ l ∈ lines, rowsLine l = true) {x : String} {m : MapObj} {n : Nat}
    (hg : (runLines lines).get? x = some m) (hk : m.kind = .wide n) : RowCells m n := by
  obtain ⟨d, hd, _, _, _, _, hkd, _, habs⟩ := reachable_dense_bits_map lines h hg
  intro p hp
  rw [habs p hp]
  exact wideRows_drunB lines hr x d n hd (hkd ▸ hk) p

/-! ### (3') the two lines as the protocol reads them

The refinement and the dense readings composed: what a `bits` line answered `ok` does to the map
the protocol holds, and what a `chk` line answers, in terms of the map's own pixels. -/

/-- **a `bits` line answered `ok`, read on the protocol's own map**: the name is bound to a wide
    mask of the same width and resolution; the bit list is non-empty, every position is below
    `8 n`, every listed pixel is on the sphere; a pixel that is not listed reads as before; a listed
    pixel holding a row of `n` bytes — however often it is listed, covered or not — reads
    `S ∪ bits` (`mode=set`) resp. `S \ bits` (`mode=clear`) -/
theorem bits_line_sets (lines : List String) (h : ∀ l ∈ lines, ApiDenseBits.lineOk l = true)
    (a : Args) {x : String} {rest : List String} (hpos : a.pos = x :: rest) {pix bits : List Nat}
    (hp : parseNats (a.getD "pix" "_") = some pix) (hb : parseNats (a.getD "bits" "_") = some bits)
    {m : MapObj} (hg : (runLines lines).get? x = some m)
    (hok : (stepArgs (runLines lines) "bits" a).2 = "ok") :
    ∃ m' n, (stepArgs (runLines lines) "bits" a).1.get? x = some m' ∧ m.kind = .wide n ∧
      m'.kind = .wide n ∧ m'.covord = m.covord ∧ m'.spord = m.spord ∧
      bits ≠ [] ∧ (∀ b ∈ bits, b < 8 * n) ∧ (∀ q ∈ pix, q < m.npix) ∧
      ∀ p, p < m.npix →
        (p ∉ pix → m'.abs p = m.abs p) ∧
        (p ∈ pix → isRowVal n (m.abs p) = true →
          isRowVal n (m'.abs p) = true ∧
          ∀ b, hasBit (m'.abs p) b =
            if (a.getD "mode" "set" == "clear") then (hasBit (m.abs p) b && !bits.contains b)
            else (hasBit (m.abs p) b || bits.contains b)) := by
  have hR := rel_runLinesB lines h
  have hm := rel_get hR x
  rw [hg] at hm
  cases hd : (drunB lines).get? x with
  | none => rw [hd] at hm; exact hm.elim
  | some d =>
    rw [hd] at hm
    obtain ⟨hR', hans⟩ := rel_bits hR a
    have e0 : stepArgs (runLines lines) "bits" a = opBits (runLines lines) a := rfl
    rw [e0] at hok ⊢
    rw [hans] at hok
    have e1 : dBitsOp (drunB lines) a =
        match dSetBits d pix bits (a.getD "mode" "set" == "clear") with
        | .ok d' => ((drunB lines).bind x d', "ok")
        | .error e => (drunB lines, errLine e) := by
      unfold dBitsOp dWithMap
      rw [hpos]
      simp only [hd, hp, hb, List.headD_cons]
      cases dSetBits d pix bits (a.getD "mode" "set" == "clear") <;> rfl
    rw [e1] at hok hR'
    cases hs : dSetBits d pix bits (a.getD "mode" "set" == "clear") with
    | error e => rw [hs] at hok; exact absurd hok (errLine_ne_ok e)
    | ok d' =>
      rw [hs] at hR'
      have hm' := rel_get hR' x
      rw [dget_bind_self] at hm'
      cases hg' : (opBits (runLines lines) a).1.get? x with
      | none => rw [hg'] at hm'; exact hm'.elim
      | some m' =>
        rw [hg'] at hm'
        obtain ⟨n, hk, _, hne, hbl, hpl, c1, c2, c3, _, hout, hin⟩ := dense_set_bits hs
        have hnp : m.npix = d.npix := corr_npix hm
        have hnp' : m'.npix = m.npix := by
          unfold MapObj.npix MapObj.c
          rw [hm'.covord, hm'.spord, c1, c2, hm.covord, hm.spord]
        refine ⟨m', n, rfl, hm.kind.trans hk, hm'.kind.trans (c3.trans hk),
          by rw [hm'.covord, c1, hm.covord], by rw [hm'.spord, c2, hm.spord], hne, hbl,
          by rw [hnp]; exact hpl, fun p hpp => ?_⟩
        have e1 : m'.abs p = d'.f p := hm'.abs p (by rw [hnp']; exact hpp)
        have e2 : m.abs p = d.f p := hm.abs p hpp
        rw [e1, e2]
        exact ⟨hout p, hin p⟩

/-- **what a `chk` line answers, on the protocol's own map** (a wide mask of `n` bytes whose listed
    pixels hold rows): `err IndexError` when a listed pixel is outside the sphere or a position is
    at or above `8 n`; otherwise one digit per listed pixel, `1` iff the pixel's set contains ANY of
    the listed bits (all `0` for an empty bit list) — with or without `via=pos` -/
theorem chk_line_reads (lines : List String) (h : ∀ l ∈ lines, ApiDenseBits.lineOk l = true)
    (a : Args) {x : String} {rest : List String} (hpos : a.pos = x :: rest) {pix bits : List Nat}
    (hp : parseNats (a.getD "pix" "_") = some pix) (hb : parseNats (a.getD "bits" "_") = some bits)
    {m : MapObj} {n : Nat} (hg : (runLines lines).get? x = some m) (hk : m.kind = .wide n)
    (hrows : ∀ p ∈ pix, p < m.npix → isRowVal n (m.abs p) = true) :
    (stepArgs (runLines lines) "chk" a).2 =
      if pix.any (· ≥ m.npix) || bits.any (· ≥ 8 * n) then errLine .index
      else showBits (pix.map fun p => bits.any fun b => hasBit (m.abs p) b) := by
  have hR := rel_runLinesB lines h
  have hm := rel_get hR x
  rw [hg] at hm
  cases hd : (drunB lines).get? x with
  | none => rw [hd] at hm; exact hm.elim
  | some d =>
    rw [hd] at hm
    have e0 : stepArgs (runLines lines) "chk" a = opChk (runLines lines) a := rfl
    rw [e0, (rel_chk hR a).2]
    have e1 : (dChkOp (drunB lines) a).2 =
        match dCheckBits d pix bits with
        | .ok l => showBits l
        | .error e => errLine e := by
      unfold dChkOp dWithMap
      rw [hpos]
      simp only [hd, hp, hb]
      cases dCheckBits d pix bits <;> rfl
    have hkd : d.kind = .wide n := hm.kind ▸ hk
    rw [e1]
    unfold dCheckBits
    rw [hkd]
    simp only []
    rw [← corr_npix hm]
    by_cases h1 : (pix.any fun x => decide (x ≥ m.npix)) = true
    · rw [if_pos h1, if_pos (by rw [h1]; rfl)]
    · rw [if_neg h1]
      by_cases h2 : (bits.any fun x => decide (x ≥ 8 * n)) = true
      · rw [if_pos h2, if_pos (by rw [h2, Bool.or_true])]
      · have hbl := bits_lt_of_not_any h2
        rw [if_neg h2, if_neg (by simp only [Bool.or_eq_true]; exact fun hh => hh.elim h1 h2)]
        show showBits (pix.map fun p => checkCell n bits (d.f p)) = _
        congr 1
        apply List.map_congr_left
        intro p hpp
        have hlt : p < m.npix := WFApi.lt_of_not_any_ge h1 p hpp
        obtain ⟨row, hrow, hl, hrl⟩ := isRowVal_iff.1 (hrows p hpp hlt)
        rw [← hm.abs p hlt, hrow]
        exact check_bits_spec row bits n ⟨hl, hrl⟩ hbl

/-! ### (4) a history

A 20-bit mask (3 bytes, width 24).  Bits 7, 8 (byte boundary) are set on the repeated pixels
100, 5, 100, 37, 5 — coverage pixels 6, 0, 2, in that order — then 15, 16 on two of them; `chk` reads
single positions (also `via=pos`) and a two-bit list; bits are cleared (pixel 6: covered, stays
empty; pixel 5: its last bits go, the pixel becomes invalid); a bit-list `xor` empties pixel 100;
positions 24, 25 are refused (ValueError for `bits`, IndexError for `chk`) while 20 (beyond the
requested 20 bits, inside the 3 bytes) is accepted; pixel 192 is refused; `bits mode=clear` grows
the map into coverage pixel 11 without making a pixel valid, `bits mode=set` then does; a plain
map refuses both lines; a copy is independent. -/

def exBits : List String := [
  "cfg w kind=wide maxbits=20 covord=0 spord=2",
  "bits w mode=set pix=100,5,100,37,5 bits=7,8",
  "bits w mode=set pix=37,100 bits=15,16,16",
  "chk w pix=100,5,37,6 bits=7",
  "chk w pix=100,5,37,6 bits=8 via=pos",
  "chk w pix=100,5,37 bits=15",
  "chk w pix=100,5,37 bits=16",
  "chk w pix=100,5,37 bits=23",
  "chk w pix=100,5,37 bits=0,16",
  "get w pix=100,5,37,6",
  "bits w mode=clear pix=100,100,6 bits=8,15",
  "bits w mode=clear pix=5 bits=7,8",
  "get w pix=100,5,6",
  "valid w",
  "nvalid w",
  "sop w op=xor bits=7,16 inplace=1",
  "get w pix=100,37,5",
  "chk w pix=100,37,5 bits=7",
  "bits w mode=set pix=37 bits=24",
  "bits w mode=clear pix=37 bits=3,25",
  "bits w mode=set pix=37 bits=20",
  "bits w mode=set pix=192 bits=1",
  "bits w mode=set pix=37 bits=_",
  "chk w pix=37 bits=24",
  "chk w pix=192 bits=24",
  "chk w pix=37 bits=_",
  "get w pix=37",
  "covmap w",
  "bits w mode=clear pix=180 bits=3",
  "covmap w",
  "bits w mode=set pix=181,180,181 bits=0,23",
  "covmap w",
  "valid w",
  "chk w pix=180,181,182 bits=23",
  "cfg q kind=plain dtype=i4 covord=0 spord=2",
  "bits q pix=1 bits=1",
  "chk q pix=1 bits=1",
  "bits nope pix=1 bits=1",
  "bits w pix=x bits=1",
  "chk w pix=1",
  "copy w r=c",
  "bits c mode=clear pix=181 bits=0",
  "chk w pix=181 bits=0",
  "chk c pix=181 bits=0",
  "get c pix=181,180"]

#guard exBits.all ApiDenseBits.lineOk
#guard exBits.all rowsLine
#guard answers exBits == danswersB exBits
#guard answers exBits ==
  ["ok", "ok", "ok", "1110", "1110", "101", "101", "000", "101", "b128.129.1,b128.1.0,b128.129.1,b0.0.0", "ok", "ok",
   "b128.0.1,b0.0.0,b0.0.0", "37,100", "2", "ok", "b0.0.0,b0.129.0,b0.0.0", "000", "err ValueError", "err ValueError",
   "ok", "err IndexError", "err ValueError", "err IndexError", "err IndexError", "0", "b0.129.16",
   "0,0,1,0,0,0,0,0,0,0,0,0", "ok", "0,0,1,0,0,0,0,0,0,0,0,0", "ok", "0,0,1,0,0,0,0,0,0,0,0,2", "37,180,181", "110",
   "ok", "err NotImplementedError", "err TypeError", "bad-op:no-such-map", "bad-op:bits", "0", "ok", "ok", "1", "0",
   "b0.0.128,b1.0.128"]

/-- the theorems above instantiated on the history (the hypotheses are checked by the `#guard`s
    above; the kernel cannot run the string parser, so they stay hypotheses here) -/
example (h : ∀ l ∈ exBits, ApiDenseBits.lineOk l = true) (hr : ∀ l ∈ exBits, rowsLine l = true) :
    Rel (runLines exBits) (drunB exBits) ∧
    (∀ k (hk : k < exBits.length),
      (step (runLines (exBits.take k)) exBits[k]).2 = (dstepB (drunB (exBits.take k)) exBits[k]).2) ∧
    answers exBits = danswersB exBits ∧
    ∀ x m n, (runLines exBits).get? x = some m → m.kind = .wide n → RowCells m n :=
  ⟨reachable_dense_bits _ h, reachable_dense_bits_answers _ h, reachable_dense_bits_all_answers _ h,
    fun _ _ _ hg hk => reachable_wide_rows _ h hr hg hk⟩

/-! the dense transformers evaluated by the kernel on a 3-byte mask: a repeated pixel gets the bits
once, across the byte boundary; clearing the last bit leaves the empty (invalid) row; the refusals -/

def exDense : DenseMap := ⟨0, 1, .wide 3, .num 0 0, fun p => if p = 9 then .bytes [128, 1, 0] else .bytes [0, 0, 0]⟩

example : (match dSetBits exDense [5, 9, 5] [7, 8, 16] false with
    | .ok d' => d'.f 5 == .bytes [128, 1, 1] && d'.f 9 == .bytes [128, 1, 1] && d'.f 6 == .bytes [0, 0, 0]
    | .error _ => false) = true := by decide +kernel
example : (match dSetBits exDense [9, 9, 6] [7, 8] true with
    | .ok d' => d'.f 9 == .bytes [0, 0, 0] && d'.f 6 == .bytes [0, 0, 0] &&
        !dValid d' (d'.f 9) && dValid exDense (exDense.f 9)
    | .error _ => false) = true := by decide +kernel
example : (match dSetBits exDense [5] [24] false, dSetBits exDense [5] [] false, dSetBits exDense [48] [1] true,
      dSetBits { exDense with kind := .plain (.int 32 true) } [5] [1] false,
      dSetBits { exDense with sent := .num 1 0 } [5] [1] false with
    | .error .value, .error .value, .error .index, .error .notImpl, .error .value => true
    | _, _, _, _, _ => false) = true := by decide +kernel
example : (match dCheckBits exDense [9, 5, 9] [8, 23], dCheckBits exDense [9] [], dCheckBits exDense [9] [24],
      dCheckBits exDense [48] [24], dCheckBits { exDense with kind := .packed } [9] [1] with
    | .ok l₁, .ok l₂, .error .index, .error .index, .error .type => l₁ == [true, false, true] && l₂ == [false]
    | _, _, _, _, _ => false) = true := by decide +kernel

/-! ### (5) the provisos

(a) The set reading needs rows of BYTES.  The model's raw write checks the row length only
(`valMatchesKind`), so `upd … val=b256.0.0` stores a cell that is valid (a byte ≠ 0) and holds no
bit: `valid` lists the pixel, `chk` answers `0` for every position.  The refinement itself is not
affected (the dense interpreter stores the same cell: the history below is `lineOk` and the answers
agree); only `dense_valid_iff` / `dense_check_bits` / `dense_set_bits` need their `isRowVal`
hypothesis, and `rowsLine` excludes the raw writes.  (The real library cannot store 256 in a byte:
a model-level artifact, see the API part of Props/C13.) -/

def exByte256 : List String := [
  "cfg w kind=wide maxbits=20 covord=0 spord=2",
  "upd w pix=5 val=b256.0.0",
  "valid w",
  "chk w pix=5 bits=0,1,2,3,4,5,6,7,8,9,10,11,12,13,14,15,16,17,18,19,20,21,22,23",
  "bits w mode=set pix=5 bits=0",
  "get w pix=5"]

#guard exByte256.all ApiDenseBits.lineOk
#guard !exByte256.all rowsLine
#guard answers exByte256 == danswersB exByte256
#guard answers exByte256 == ["ok", "ok", "5", "0", "ok", "b257.0.0"]

/-! (b) Model vs. library, outside the generators (no history of the harness issues `chk` on a map
that is not a wide mask): the model answers `err TypeError` (checked BEFORE the pixels), the real
`check_bits_pix` first reads the pixels (IndexError for a pixel outside the sphere) and then raises
AttributeError (`_wide_mask_maxbits` does not exist on such a map).  On wide masks the two agree on
all 45 lines of `exBits` (run through harness/real.py). -/

#guard answers ["cfg q kind=plain dtype=i4 covord=0 spord=2", "chk q pix=1 bits=1", "chk q pix=999 bits=1"]
  == ["ok", "err TypeError", "err TypeError"]

end C13
end HS
