"""C20 — random points fall inside the map's valid footprint, in the requested number."""
import numpy as np
import hpgeom as hpg
import gen

PID = 'C20'
RULE = ("footprints (single pixels, scattered pixels, small discs at random positions, polar caps, patches straddling "
        "lon = 0/360 incl. pixels only WEST of lon 0 inside a coverage pixel centred on lon 0, multi-patch) at coverage "
        "order 0-3 and sparse order up to 6; both generators are run with a recording proxy around a seeded "
        "RandomState for n in {0, 1, small, 200*|V|}: the output length, containment of every point in a valid pixel "
        "(get_values_pos), equality of two runs with the same seed, and the fixed starvation rule (|V| <= 64 and "
        "n >= 200|V|: every valid pixel receives a point) are checked on the implementation; the recorded candidate "
        "stream with its validity flags is replayed through the Lean rejection loop and must select the same "
        "candidates; the recorded sampling window must equal the Lean window choice computed from hpgeom's "
        "coverage-pixel centres; for the fast generator the recorded choice / randint draws are mapped through the "
        "Lean child-pixel arithmetic and must give the pixels of the returned positions; a call that does not return "
        "within 20 s (or 5e7 draws) is reported as a hang (a violation, not a timeout); non-trivial = footprint touches lon 0 or a pole")
ASSUMPTIONS = ["hpgeom pixel centres / angle_to_pixel; the angular extent of a coverage pixel is bounded by "
               "2*resolution/sin(theta) (geometry, not proved)",
               "the starvation clause is decided deterministically only through the window logic plus the fixed "
               "sampling rule above; statistical uniformity is not claimed"]
TRUSTED = ["numpy RandomState; hpgeom"]


def footprint(rng, covord, spord):
    nside = 2 ** spord
    npix = 12 * nside * nside
    kind = rng.choice(['single', 'scatter', 'disc', 'pole', 'lon0', 'lon0west', 'multi'])
    if kind == 'single':
        return [rng.randrange(npix)]
    if kind == 'scatter':
        return rng.sample(range(npix), min(npix, rng.randint(2, 12)))
    if kind == 'disc' or kind == 'multi':
        out = []
        for _ in range(1 if kind == 'disc' else rng.randint(2, 3)):
            lon, lat = rng.uniform(0, 360), np.degrees(np.arcsin(rng.uniform(-0.95, 0.95)))
            pix = hpg.query_circle(nside, lon, lat, rng.uniform(0.5, 2.5) * hpg.nside_to_resolution(nside))
            out += [int(p) for p in pix[:20]]
        return list(dict.fromkeys(out)) or [0]
    if kind == 'pole':
        lat = rng.choice([90.0, -90.0, 88.0, -88.0])
        pix = hpg.query_circle(nside, rng.uniform(0, 360), lat, 2.0 * hpg.nside_to_resolution(nside))
        return [int(p) for p in pix[:24]] or [0]
    # patches at longitude 0
    lat = np.degrees(np.arcsin(rng.uniform(-0.8, 0.8)))
    pix = hpg.query_circle(nside, 0.0, lat, 3.0 * hpg.nside_to_resolution(nside))
    lon, _ = hpg.pixel_to_angle(nside, pix)
    if kind == 'lon0west':
        pix = pix[lon > 180.0]
    return [int(p) for p in pix[:24]] or [int(hpg.angle_to_pixel(nside, 359.9, lat))]


def histories(rng, tier):
    n = 120 if tier == 'quick' else 500
    out = []
    for _ in range(n):
        covord = rng.choice([0, 1, 2, 3])
        spord = covord + rng.choice([1, 2, 3])
        spord = min(spord, 6)
        kind = rng.choice(['b1', 'f8', 'i4', 'packed'])
        if kind == 'packed' and spord - covord < 2:
            kind = 'b1'
        if kind == 'packed':
            c = gen.MapCfg('m', 'packed', covord, spord)
        else:
            c = gen.MapCfg('m', 'plain', covord, spord, dtype=kind)
        pix = footprint(rng, covord, spord)
        val = {'b1': 'T', 'packed': 'T', 'f8': '3^1', 'i4': '5'}[kind]
        h = [c.line(), 'upd m op=replace pix=%s val=%s' % (','.join(map(str, sorted(set(pix)))), val)]
        nv = len(set(pix))
        for _ in range(rng.randint(1, 3)):
            nn = rng.choice([0, 1, rng.randint(2, 50), 200 * nv if nv <= 30 else 100])
            g = rng.choice(['uniform', 'fast'])
            ln = 'rand m gen=%s n=%d seed=%d' % (g, nn, rng.randint(1, 10 ** 6))
            if g == 'fast':
                ln += ' nsr=%d' % (spord + rng.choice([1, 2, 5]))
            h.append(ln)
            if rng.random() < 0.35 and nv >= 1:
                # the footprint MOVES between two draws on the same map object while the number of valid pixels
                # stays the same (anything a generator remembers about the map must be keyed on more than a
                # count: seeded change C20h)
                cur = sorted(set(pix))
                gone = rng.choice(cur)
                new = rng.choice([p for p in range(12 * 4 ** spord) if p not in cur][:4096] or [gone])
                pix = [p for p in cur if p != gone] + [new]
                h += ['upd m op=replace none=1 pix=%d' % gone, 'upd m op=replace pix=%d val=%s' % (new, val),
                      ln.replace('seed=', 'seed=1')]
        out.append(h)
    # footprints that are TINY in their sampling window (one or two pixels 6-7 orders below the coverage
    # resolution: a whole batch of 10 000 candidates often holds no valid point), few points requested — the
    # rejection loop runs many rounds, and whatever it does when a round finds nothing must stay seeded
    # (seeded change C20f fell back to an unseeded generator)
    for _ in range(4 if tier == 'quick' else 16):
        covord = rng.choice([2, 3])
        spord = covord + rng.choice([6, 7])
        c = gen.MapCfg('m', 'plain', covord, spord, dtype='b1')
        npix = 12 * 4 ** spord
        pix = sorted(set(rng.randrange(npix) for _ in range(rng.choice([1, 2]))))
        h = [c.line(), 'upd m op=replace pix=%s val=T' % ','.join(map(str, pix))]
        for _ in range(2):
            h.append('rand m gen=uniform n=%d seed=%d' % (rng.choice([1, 3, 8]), rng.randint(1, 10 ** 6)))
        out.append(h)
    return out


def nontrivial(h):
    return any(ln.startswith('rand ') for ln in h)
