"""C09 — operations that return new maps never disturb, or stay tied to, their inputs."""
import gen

PID = 'C09'
RULE = ("for every map-producing operation modelled (copy, scalar / boolean / invert operators in copying form, "
        "apply_mask(in_place=False), astype, as_bit_packed_map, get_single(copy=True), get_single_covpix_map, degrade "
        "(incl. to the same nside, below the coverage resolution, with weights), upgrade, fracdet_map, union / "
        "intersection operations, write_moc): the arguments (incl. weights, masks, right operands) are exported "
        "before and after the call; then the RESULT is mutated and grown and the arguments re-exported; then the "
        "ARGUMENTS are mutated and grown and the result re-exported; every export must equal the Lean model, in which "
        "every pool entry is an independent value (any tie in the real objects therefore shows as a difference); "
        "non-trivial = both continuation phases contain a coverage-growing update")
ASSUMPTIONS = ["metadata sharing is compared through the alias line only where both sides carry metadata"]


def twin(c, name):
    return gen.MapCfg(name, c.kind, c.covord, c.spord, dtype=c.dtype, sentinel=c.sentinel, maxbits=c.maxbits,
                      fields=c.fields, primary=c.primary)


def grow_and_mutate(rng, name, cfg_like, h, n=2, inside=None, exports=()):
    """updates on `name` (a map of the given configuration): first INSIDE the coverage pixels it already has
    (`inside`: no growth, so storage that is secretly a view of another map's stays one — seeded change C09e —,
    followed by the exports), then touching existing and new coverage pixels"""
    c = twin(cfg_like, name)
    if inside:
        for _ in range(rng.randint(1, 2)):
            h.append(gen.upd_line(rng, c, focus=list(inside)))
        h += ['state %s' % name] + list(exports)
    for _ in range(n):
        h.append(gen.upd_line(rng, c, focus=rng.sample(range(c.ncov), min(c.ncov, 3))))


def producing(rng, c, others):
    """returns (line, result_cfg_like or None, argument names)"""
    args = ['a']
    if c.kind == 'plain' and c.dtype == 'b1' or c.kind == 'packed':
        ch = rng.choice(['copy', 'bop_map', 'bop_const', 'inv', 'pack', 'scov', 'fracdet', 'deg', 'upg', 'astype', 'moc'])
    elif c.kind == 'wide':
        ch = rng.choice(['copy', 'sop', 'mask', 'pack', 'scov', 'fracdet', 'deg', 'mop', 'moc'])
    elif c.kind == 'rec':
        ch = rng.choice(['copy', 'single', 'single', 'single', 'scov', 'fracdet', 'deg', 'upg', 'pack', 'mask'])
    else:
        ch = rng.choice(['copy', 'sop', 'mask', 'astype', 'pack', 'scov', 'scov', 'fracdet', 'deg', 'degsame', 'degw',
                         'upg', 'mop', 'moc', 'write'])
    like = c
    if ch == 'copy':
        ln = 'copy a r=res'
    elif ch == 'sop':
        ln = gen.scalar_op_line(rng, c, inplace=False, r='res')
    elif ch == 'bop_map':
        ln = 'bop a op=%s rhs=b r=res' % rng.choice(['and', 'or', 'xor'])
        args.append('b')
    elif ch == 'bop_const':
        ln = 'bop a op=%s const=%s r=res' % (rng.choice(['and', 'or', 'xor']), rng.choice('TF'))
    elif ch == 'inv':
        ln = 'inv a r=res'
    elif ch == 'mask':
        ln = 'mask a by=k r=res'
        args.append('k')
    elif ch == 'astype':
        dt = rng.choice(['f8', 'i8', 'i4', 'f4'])
        ln = 'astype a r=res dtype=%s' % dt
        like = gen.MapCfg('res', 'plain', c.covord, c.spord, dtype=dt)
    elif ch == 'pack':
        ln = 'pack a r=res'
        like = gen.MapCfg('res', 'packed', c.covord, c.spord)
    elif ch == 'single':
        f = c.single_field(rng)           # never None: at most one field of a generated record is boolean
        ln = 'single a r=res field=%d copy=1' % f
        like = gen.MapCfg('res', 'plain', c.covord, c.spord, dtype=c.fields[f])
    elif ch == 'scov':
        # (mostly a coverage pixel the map holds — `focus` of the caller —, the FIRST one allocated included)
        ln = 'scov a r=res k=%d' % (rng.choice(others) if others and rng.random() < 0.85 else rng.randrange(c.ncov))
    elif ch == 'fracdet':
        o = rng.randint(c.covord, c.spord)
        ln = 'fracdet a r=res ord=%d' % o
        like = gen.MapCfg('res', 'plain', c.covord, o, dtype='f8', sentinel='0')
    elif ch in ('deg', 'degsame', 'degw'):
        o = c.spord if ch == 'degsame' else rng.randint(max(0, c.covord - 1), c.spord)
        if c.kind == 'wide':
            red = 'or'
        else:
            red = rng.choice(['mean', 'max', 'sum', 'median'])
        w = ''
        if ch == 'degw':
            red, w = 'wmean', ' w=w'
            args.append('w')
        ln = 'deg a r=res ord=%d red=%s%s' % (o, red, w)
        like = None
    elif ch == 'upg':
        ln = 'upg a r=res ord=%d' % (c.spord + 1)
        like = None
    elif ch == 'mop':
        nm = rng.choice(['sum_union', 'max_union', 'min_intersection', 'product_union'] if c.kind != 'wide'
                        else ['or_union', 'and_intersection', 'xor_union'])
        ln = 'mop r=res name=%s maps=a,b' % nm
        args.append('b')
    elif ch == 'write':
        ln = 'write a f=f1 compress=%s' % rng.choice('01')
        like = None
    else:
        ln = 'moc a f=f1'
        like = None
    return ch, ln, like, args


def histories(rng, tier):
    n = 400 if tier == 'quick' else 3000
    out = []
    for _ in range(n):
        c = gen.rand_cfg(rng, max_npix=768, name='a', min_delta=0)
        b = twin(c, 'b')
        h = [c.line(), b.line()]
        if rng.random() < 0.5:
            h.append('meta a k=AKEY v=%d' % rng.randint(1, 99))
        focus = rng.sample(range(c.ncov), min(c.ncov, 3))
        for _ in range(rng.randint(1, 4)):
            h.append(gen.upd_line(rng, c, focus=focus))
        for _ in range(rng.randint(0, 3)):
            h.append(gen.upd_line(rng, b, focus=rng.sample(range(c.ncov), min(c.ncov, 3))))
        # the coverage pixel allocated FIRST (storage block 1) goes first in the list handed to `producing`
        first = [int(t[4:].split(',')[0]) // c.nfine for l0 in h if l0.startswith('upd a ') for t in l0.split()
                 if t.startswith('pix=') and t != 'pix=_'][:1]
        ch, ln, like, args = producing(rng, c, first + first + list(focus))
        if 'k' in args:
            k = gen.MapCfg('k', 'plain', c.covord, c.spord, dtype=rng.choice(['i2', 'u1', 'i8']), sentinel='0')
            h.append(k.line())
            h.append(gen.upd_line(rng, k, focus=focus))
        if 'w' in args:
            # weight map with the same valid set: built from a copy converted to float
            h += ['astype a r=w dtype=f8']
        exports = ['state %s' % x for x in args]
        h += exports + ['nvalid a', 'getmeta a k=AKEY', ln] + exports + ['nvalid a', 'getmeta a k=AKEY']
        if ch not in ('moc', 'write'):
            h += ['state res', 'info res']
            # phase 1: mutate / grow the result, re-read the arguments
            inside = None
            if ch == 'scov':
                inside = [int(ln.split('k=')[1])]
            elif like is not None and like.covord == c.covord and ch not in ('fracdet',):
                inside = focus
            if like is not None:
                grow_and_mutate(rng, 'res', like, h, inside=inside, exports=exports)
                h += ['state res'] + exports
            # phase 2: mutate / grow the arguments, re-read the result
            grow_and_mutate(rng, 'a', c, h, inside=focus, exports=['state res', 'vals res'])
            if 'b' in args:
                grow_and_mutate(rng, 'b', c, h, n=1)
            h += exports + ['state res', 'vals res', 'valid res']
        out.append(h)
    return out


def nontrivial(h):
    return sum(1 for ln in h if ln.startswith('upd')) >= 3
