/-
  C07 — degrading reduces exactly the valid children of each coarse pixel.
  Property theorems only (helpers in HealSparse/Lemmas).  The numeric reductions are
  parameters (`red`); what is proved is which cells each reduction sees, the validity
  rule, the layout of the result, and the below-coverage path.
-/
import HealSparse.Lemmas.Core
import HealSparse.Lemmas.Coverage
import HealSparse.Lemmas.Valid
import HealSparse.Lemmas.Resolution
import HealSparse.Model.Resolution
import HealSparse.Props.C04
import HealSparse.Props.C01
import HealSparse.Props.C02
import HealSparse.Lemmas.WFWorld
import HealSparse.Lemmas.ApiDegrade
namespace HS
namespace C07

variable {V W : Type} [DecidableEq V] [DecidableEq W]

/-- **`_degrade`**: the result is a well-formed map at the coarser resolution with the same
    coverage mask; a coarse pixel inside the coverage holds `red` of exactly its `2^g`
    children in NEST order; every coarse pixel outside the coverage holds the sentinel
    (this is the sum/prod clause of the property, and needs the overflow reset). -/
theorem degrade_spec (c : Cfg) (vc : VCfg V) (vcOut : VCfg W) (s : State V) (g : Nat)
    (red : List V → W) (h : Inv c vc s) (hg : g ≤ c.shift) :
    Inv (degCfg c g) vcOut (degradeMap c vc s g red vcOut.sentinel) ∧
    (∀ q, q < (degCfg c g).npix →
        abs (degCfg c g) vcOut (degradeMap c vc s g red vcOut.sentinel) q
          = if covered c s (q >>> (c.shift - g)) then red (childrenVals c vc s g q)
            else vcOut.sentinel) ∧
    (∀ k, k < c.ncov →
        covered (degCfg c g) (degradeMap c vc s g red vcOut.sentinel) k = covered c s k) := by
  exact h.degrade_spec' hg vcOut red

/-- For a reduction that masks by validity and maps "no valid child" to the sentinel (mean,
    median, std, min, max, weighted mean, masked and/or): EVERY coarse pixel — covered or
    not — holds the reduction over exactly its valid children if it has one, else the sentinel. -/
theorem degrade_masked (c : Cfg) (vc : VCfg V) (vcOut : VCfg W) (s : State V) (g : Nat)
    (redV : List V → W) (h : Inv c vc s) (hg : g ≤ c.shift)
    (hv : vc.valid vc.sentinel = false) (hempty : redV [] = vcOut.sentinel)
    (q : Nat) (hq : q < (degCfg c g).npix) :
    abs (degCfg c g) vcOut
        (degradeMap c vc s g (fun l => redV (l.filter vc.valid)) vcOut.sentinel) q
      = if (childrenVals c vc s g q).any vc.valid
        then redV ((childrenVals c vc s g q).filter vc.valid)
        else vcOut.sentinel := by
  exact h.degrade_masked' hg vcOut redV hv hempty hq

/-- the gathered weights, read at the cell of pixel `p`, are the weight map's value at `p`
    for valid `p` and zero for invalid covered `p` (for every block order of the weight map) -/
theorem gatherWeights_spec {X : Type} (c : Cfg) (vc : VCfg V) (s : State V) (wAt : Nat → X) (zero : X)
    (h : Inv c vc s) (hv : vc.valid vc.sentinel = false) :
    ∃ wv, gatherWeights c vc s wAt zero = some wv ∧ wv.size = s.sp.size ∧
      ∀ p, p < c.npix → covered c s (p >>> c.shift) = true →
        rd wv (idxOf c s p) zero = if vc.valid (abs c vc s p) then wAt p else zero := by
  exact h.gatherWeights_spec' hv wAt zero

/-- weighted `_degrade`: as `degrade_spec`, the reduction seeing (value, weight) pairs of the
    children in NEST order, where the weight of child `p` is `wOf p`. -/
theorem degradeW_spec {X : Type} (c : Cfg) (vc : VCfg V) (vcOut : VCfg W) (s : State V) (g : Nat)
    (wv : Array X) (zero : X) (wOf : Nat → X)
    (red : List (V × X) → W) (h : Inv c vc s) (hg : g ≤ c.shift)
    (hw : ∀ p, p < c.npix → covered c s (p >>> c.shift) = true → rd wv (idxOf c s p) zero = wOf p) :
    Inv (degCfg c g) vcOut (degradeMapW c vc s g wv zero red vcOut.sentinel) ∧
    (∀ q, q < (degCfg c g).npix →
        abs (degCfg c g) vcOut (degradeMapW c vc s g wv zero red vcOut.sentinel) q
          = if covered c s (q >>> (c.shift - g))
            then red ((List.range (2 ^ g)).map fun j =>
                   (abs c vc s (q * 2 ^ g + j), wOf (q * 2 ^ g + j)))
            else vcOut.sentinel) := by
  exact h.degradeW_spec' hg vcOut wv zero wOf red hw

/-- **below-coverage path**: re-housing into a map with another coverage resolution (same
    sparse resolution) never raises, yields a well-formed map, keeps the value of every valid
    pixel and keeps every invalid pixel invalid (it reads the sentinel in the re-housed map) —
    so degrading below the coverage resolution equals degrading an equal map built with the
    coarser coverage resolution. -/
theorem rehouse_spec (c cNew : Cfg) (vc : VCfg V) (s : State V) (h : Inv c vc s)
    (hv : vc.valid vc.sentinel = false) (hn : cNew.npix = c.npix) :
    ∃ s', rehouseMap c cNew vc s = some s' ∧ Inv cNew vc s' ∧
      ∀ p, p < c.npix → vc.valid (abs cNew vc s' p) = vc.valid (abs c vc s p) ∧
        (vc.valid (abs c vc s p) = true → abs cNew vc s' p = abs c vc s p) := by
  exact h.rehouse_spec' hv cNew hn

/-- value-equality form of `rehouse_spec`: with the extra hypothesis that every invalid cell value IS the
    sentinel (true for all scalar kinds, where `valid = (· ≠ sentinel)`; false for record cells
    whose cleared records differ from the blank record), re-housing never raises, yields a
    well-formed map and changes no pixel value. -/
theorem rehouse_spec_partial (c cNew : Cfg) (vc : VCfg V) (s : State V) (h : Inv c vc s)
    (hv : vc.valid vc.sentinel = false) (hs : ∀ x, vc.valid x = false → x = vc.sentinel)
    (hn : cNew.npix = c.npix) :
    ∃ s', rehouseMap c cNew vc s = some s' ∧ Inv cNew vc s' ∧
      ∀ p, p < c.npix → abs cNew vc s' p = abs c vc s p := by
  exact h.rehouse_partial' hv hs cNew hn

namespace Witness

/-- The value-equality form of `rehouse_spec` (`abs cNew vc s' p = abs c vc s p` for EVERY
    pixel) is FALSE without the "invalid cells hold the sentinel" hypothesis `hs` of
    `rehouse_spec_partial`: with one pixel, `valid = (· > 0)`, sentinel `-1` and the
    well-formed state `⟨#[1], #[-1, 0]⟩`, pixel 0 reads the invalid non-sentinel value `0`,
    but re-housing copies only valid pixels, so the re-housed map reads `-1` there. -/
theorem rehouse_value_spec_false :
    ¬ (∀ (c cNew : Cfg) (vc : VCfg Int) (s : State Int), Inv c vc s →
        vc.valid vc.sentinel = false → cNew.npix = c.npix →
        ∃ s', rehouseMap c cNew vc s = some s' ∧ Inv cNew vc s' ∧
          ∀ p, p < c.npix → abs cNew vc s' p = abs c vc s p) := by
  intro H
  obtain ⟨s', h1, _, h3⟩ := H rehouseWitnessCfg rehouseWitnessCfg rehouseWitnessVC
    rehouseWitnessState (by decide +kernel) (by decide +kernel) rfl
  have e : (rehouseMap rehouseWitnessCfg rehouseWitnessCfg rehouseWitnessVC
      rehouseWitnessState).map (fun s' => abs rehouseWitnessCfg rehouseWitnessVC s' 0)
      = some (-1) := by decide +kernel
  rw [h1] at e
  have h4 := h3 0 (by decide +kernel)
  have h5 : abs rehouseWitnessCfg rehouseWitnessVC rehouseWitnessState 0 = 0 := by
    decide +kernel
  rw [h5] at h4
  simp only [Option.map_some, h4] at e
  cases e

end Witness

/-- non-vacuity: a map whose coarse pixels have 0, 1 and all children valid, blocks out of order -/
example : (degradeMap (V := Int) (W := Int) ⟨3, 1⟩ ⟨-1, fun x => x != -1⟩ ⟨#[4, -2, -2], #[-1, -1, 7, -1, 3, 9]⟩ 1
    (fun l => (l.filter (· != -1)).foldl (· + ·) 0) (-1)).sp = #[-1, 7, 12] := by decide +kernel

/-! ## API level: `apiDegrade` (Model/ApiRes.lean)

The theorems above are about the generic core functions.  The ones below are about
`apiDegrade` itself — argument validation, dtype / sentinel rules, the re-housing below the
coverage resolution, the error behaviour — for every map object that is `Ok`
(`WF ∧ KindOk ∧ SentOK`, Lemmas/WFWorld.lean).  Helpers: Lemmas/ApiDegrade.lean.

  api_degrade_same_order, api_degrade_layout, api_degrade_kind, outKind_rules
                                  configuration, kind and sentinel of the result
  api_degrade_value               THE VALUE, every kind, both paths (`coreRed` on `live` pixels)
  api_degrade_coverage            coverage mask of the result
  api_degrade_float / _masked / _sum_prod / _sum_prod_valid
                                  float reductions over exactly the valid children; nansum of
                                  nothing is 0, nanprod 1: where exactly that shows
  api_degrade_wmean, wmeanOf_zero_weight
                                  weighted mean; zero total weight
  api_degrade_recd / _masked      record maps, field by field
  api_degrade_andor_int, api_degrade_wide
                                  `and` / `or`: the fold over ALL the children (F36)
  api_degrade_andor_int_partial, api_degrade_wide_partial, api_degrade_or_zero_sentinel
                                  what holds of the intended (masked) reduction
  Witness.api_degrade_andor_masked_false, Witness.api_degrade_or_masked_false
                                  the evaluated counterexamples; NEW: `or` is wrong too whenever
                                  the sentinel is not 0 (e.g. the default int64 sentinel)
  api_degrade_error_range, api_degrade_ok_iff, api_degrade_rejects, api_degrade_weight_errors
                                  errors
  api_degrade_float_cells_exact   the `inexact` guard: no `.rat` / `.sqrtRat` / `.poison` cell is
                                  ever reduced (regression example `exThirds`) -/

section api
open ApiDegrade

theorem weightsWF_of_ok {m : MapObj} {ordOut : Nat} {red : String} {w : Option MapObj}
    (h : ∀ wm, w = some wm → wm.Ok) : WeightsWF m ordOut red w :=
  fun _ _ wm hwm => (h wm hwm).1

theorem weightsWF_of_not_wmean {m : MapObj} {ordOut : Nat} {red : String} {w : Option MapObj}
    (h : (red == "wmean") = false) : WeightsWF m ordOut red w :=
  fun _ h' => by rw [h] at h'; cases h'

theorem weightsWF_of_inrange {m : MapObj} {ordOut : Nat} {red : String} {w : Option MapObj}
    (h : m.covord ≤ ordOut) : WeightsWF m ordOut red w :=
  fun h' => by omega

/-- **`degrade` at the map's own resolution is a copy**: nothing is validated — not the
    reduction name, not the weights (`degrade(nside_sparse, reduction='bogus')` succeeds, an
    integer map stays an integer map whatever the reduction) -/
theorem api_degrade_same_order {m : MapObj} (red : String) (w : Option MapObj) (h : m.Ok)
    (hk : m.kind ≠ .packed) :
    apiDegrade m m.spord red w = .ok { m with cache := none } :=
  apiDegrade_same red w h.1.1 hk

/-- **layout of the result** (every path): the result is again `Ok`, at sparse order `ordOut`
    and coverage order `min covord ordOut`; a successful call has `ordOut ≤ spord` on a map that
    is not bit-packed -/
theorem api_degrade_layout {m m' : MapObj} {ordOut : Nat} {red : String} {w : Option MapObj}
    (h : m.Ok) (hr : apiDegrade m ordOut red w = .ok m') :
    m'.Ok ∧ m'.spord = ordOut ∧ m'.covord = min m.covord ordOut ∧ ordOut ≤ m.spord ∧
      m.kind ≠ .packed := by
  obtain ⟨hle, hk⟩ := apiDegrade_pre hr
  refine ⟨Ok.apiDegrade h hr, ?_, ?_, hle, hk⟩
  · by_cases he : ordOut = m.spord
    · subst he
      rw [apiDegrade_same red w h.1.1 hk] at hr
      cases hr; rfl
    · exact (apiDegrade_ok h.1 h.2.1.blankInvalid (by omega) hr).spord
  · by_cases he : ordOut = m.spord
    · subst he
      rw [apiDegrade_same red w h.1.1 hk] at hr
      cases hr
      have := h.1.1
      show m.covord = _
      omega
    · exact (apiDegrade_ok h.1 h.2.1.blankInvalid (by omega) hr).covord

/-- **kind and sentinel of the result** (`ordOut < spord`), as a function of the source kind,
    the reduction and the weight map (`coreOutKind`, `degradeSent`), together with what a
    successful call implies: the kind accepts the reduction (`coreAccepts`), and a `wmean` came
    with a floating-point weight map of the same sparse order (and the same coverage order
    unless re-housed) -/
theorem api_degrade_kind {m m' : MapObj} {ordOut : Nat} {red : String} {w : Option MapObj}
    (h : m.Ok) (hlt : ordOut < m.spord) (hr : apiDegrade m ordOut red w = .ok m') :
    m'.kind = coreOutKind m.kind red w ∧ m'.sent = degradeSent m ordOut red w ∧
    coreAccepts m.kind red = true ∧
    ((red == "wmean") = true → ∃ wm b, w = some wm ∧ wm.kind = .plain (.flt b) ∧
      wm.spord = m.spord ∧ (m.covord ≤ ordOut → wm.covord = m.covord)) ∧
    m'.view = (if ordOut < m.covord then none else m.view) := by
  have D := apiDegrade_ok h.1 h.2.1.blankInvalid hlt hr
  refine ⟨D.kind, D.sent, D.accepts, ?_, D.view⟩
  intro hw
  obtain ⟨wm, b, h1, h2, h3, h4⟩ := D.wts hw
  exact ⟨wm, b, h1, h2, h3, fun hle => h4 (by omega)⟩

/-- the dtype rules spelled out: integers and booleans become float64 (sentinel UNSEEN) under
    every float reduction; float32 stays float32 (sentinel: the float32 UNSEEN) except for a
    `wmean` with float64 weights; `and` / `or` keep integer kinds and sentinels; wide masks keep
    kind; records change field by field, the sentinel being the default of the new primary -/
theorem outKind_rules :
    (∀ b sg red w, isAndOr red = false →
      coreOutKind (.plain (.int b sg)) red w = .plain (.flt 64) ∧
      ∀ s, coreOutSent (.plain (.int b sg)) s red w = .num unseen64 0) ∧
    (∀ red w, coreOutKind (.plain .bool) red w = .plain (.flt 64) ∧
      ∀ s, coreOutSent (.plain .bool) s red w = .num unseen64 0) ∧
    (∀ red w, (red == "wmean" && isF64 w) = false →
      coreOutKind (.plain (.flt 32)) red w = .plain (.flt 32) ∧
      ∀ s, coreOutSent (.plain (.flt 32)) s red w = .num unseen32 0) ∧
    (∀ w, isF64 w = true → coreOutKind (.plain (.flt 32)) "wmean" w = .plain (.flt 64) ∧
      ∀ s, coreOutSent (.plain (.flt 32)) s "wmean" w = .num unseen64 0) ∧
    (∀ red w, coreOutKind (.plain (.flt 64)) red w = .plain (.flt 64)) ∧
    (∀ b sg red w, isAndOr red = true →
      coreOutKind (.plain (.int b sg)) red w = .plain (.int b sg) ∧
      ∀ s, coreOutSent (.plain (.int b sg)) s red w = s) ∧
    (∀ n red w, coreOutKind (.wide n) red w = .wide n) ∧
    (∀ fs pr red w, coreOutKind (.recd fs pr) red w = .recd (fs.map auxDT) pr ∧
      ∀ s, coreOutSent (.recd fs pr) s red w = (auxDT (fs.getD pr (.flt 64))).defaultSentinel) := by
  refine ⟨?_, ?_, ?_, ?_, ?_, ?_, fun _ _ _ => rfl, fun _ _ _ _ => ⟨rfl, fun _ => rfl⟩⟩
  · intro b sg red w h
    simp only [coreOutKind, coreOutSent, h, Bool.and_false, Bool.false_eq_true, if_false, auxDT]
    constructor
    · split <;> rfl
    · intro s; split <;> rfl
  · intro red w
    simp only [coreOutKind, coreOutSent, DT.isInt, Bool.false_and, Bool.false_eq_true, if_false, auxDT]
    constructor
    · split <;> rfl
    · intro s; split <;> rfl
  · intro red w h
    simp only [coreOutKind, coreOutSent, DT.isInt, Bool.false_and, Bool.false_eq_true, if_false, auxDT, h]
    exact ⟨trivial, fun _ => rfl⟩
  · intro w h
    simp only [coreOutKind, coreOutSent, DT.isInt, Bool.false_and, Bool.false_eq_true, if_false, auxDT, h,
      beq_self_eq_true, Bool.and_self, if_true]
    exact ⟨trivial, fun _ => rfl⟩
  · intro red w
    simp only [coreOutKind, DT.isInt, Bool.false_and, Bool.false_eq_true, if_false, auxDT]
    split <;> rfl
  · intro b sg red w h
    simp only [coreOutKind, coreOutSent, DT.isInt, h, Bool.and_self, if_true]
    exact ⟨trivial, fun _ => trivial⟩

/-- **THE VALUE, every kind, both paths** (`ordOut < spord`): coarse pixel `q` of the result
    holds the kind's reduction (`coreRed`) of the (value, weight) pairs of its
    `4^(spord-ordOut)` children in NEST order when `q` is `live` — it has a valid child, or
    (at or above the coverage resolution) lies in a covered coverage pixel — and the blank cell
    otherwise.  `srcAbs` is the stored value (below the coverage resolution: the blank cell at
    invalid pixels); `wAt` the weight map's value at the valid pixels, 0 elsewhere. -/
theorem api_degrade_value {m m' : MapObj} {ordOut : Nat} {red : String} {w : Option MapObj}
    (h : m.Ok) (hww : WeightsWF m ordOut red w) (hlt : ordOut < m.spord)
    (hr : apiDegrade m ordOut red w = .ok m') (q : Nat) (hq : q < 12 * 4 ^ ordOut) :
    m'.abs q =
      if live m ordOut q
      then coreRed m red w ((childPix m ordOut q).map fun p => (srcAbs m ordOut p, wAt m red w p))
      else m'.vc.sentinel :=
  (apiDegrade_ok h.1 h.2.1.blankInvalid hlt hr).abs hww q hq

/-- **coverage mask of the result**: at or above the coverage resolution, the mask of the
    source (coverage pixels without any valid pixel stay covered); below it, a coverage pixel
    of the result is covered exactly when it has a valid child -/
theorem api_degrade_coverage {m m' : MapObj} {ordOut : Nat} {red : String} {w : Option MapObj}
    (h : m.Ok) (hlt : ordOut < m.spord) (hr : apiDegrade m ordOut red w = .ok m')
    (k : Nat) (hk : k < 12 * 4 ^ (min m.covord ordOut)) :
    covered m'.c m'.st k =
      if ordOut < m.covord then (childPix m ordOut k).any (fun p => m.vc.valid (m.abs p))
      else covered m.c m.st k :=
  (apiDegrade_ok h.1 h.2.1.blankInvalid hlt hr).cov k hk

/-- the sentinel (= blank cell) of a plain result -/
theorem plain_sentinel {m' : MapObj} {dt : DT} (hk : m'.kind = .plain dt) :
    m'.vc.sentinel = m'.sent := by
  unfold MapObj.vc; rw [hk]; rfl

/-- **float reductions** (plain maps; integers and booleans included, `and`/`or` on integers
    excluded; not `wmean`): the nan-reduction over EXACTLY the valid children on a live coarse
    pixel, UNSEEN elsewhere -/
theorem api_degrade_float {m m' : MapObj} {dt : DT} {ordOut : Nat} {red : String}
    {w : Option MapObj} (h : m.Ok) (hk : m.kind = .plain dt)
    (hc : (dt.isInt && isAndOr red) = false) (hnw : (red == "wmean") = false)
    (hlt : ordOut < m.spord) (hr : apiDegrade m ordOut red w = .ok m') (q : Nat)
    (hq : q < 12 * 4 ^ ordOut) :
    m'.kind = .plain (auxDT dt) ∧ m'.sent = (auxDT dt).defaultSentinel ∧
    m'.abs q =
      if live m ordOut q
      then fltOut (auxDT dt) (reduceVals red ((validChildren m ordOut q).map fun p => (m.abs p).numD) [] [])
      else (auxDT dt).defaultSentinel := by
  have D := apiDegrade_ok h.1 h.2.1.blankInvalid hlt hr
  have hkind : m'.kind = .plain (auxDT dt) := by
    rw [D.kind, hk]; simp only [coreOutKind, hc, hnw, Bool.false_and, Bool.false_eq_true, if_false]
  have hsent : m'.sent = (auxDT dt).defaultSentinel := by
    rw [D.sent]; unfold degradeSent; rw [hk]
    simp only [coreOutSent, hc, hnw, Bool.false_and, Bool.false_eq_true, if_false]
  refine ⟨hkind, hsent, ?_⟩
  rw [D.abs (weightsWF_of_not_wmean hnw) q hq, coreRed_float h.2.1.blankInvalid hk hc,
    reduceVals_unweighted hnw, plain_sentinel hkind, hsent]
  simp only [hnw, Bool.false_and, Bool.false_eq_true, if_false]

/-- **the masked reductions** (mean, median, std, max, min): a coarse pixel without valid
    children — covered or not, above or below the coverage resolution — holds UNSEEN and is
    invalid; any other holds the reduction over exactly its valid children -/
theorem api_degrade_masked {m m' : MapObj} {dt : DT} {ordOut : Nat} {red : String}
    {w : Option MapObj} (h : m.Ok) (hk : m.kind = .plain dt) (hred : red ∈ maskedReds)
    (hlt : ordOut < m.spord) (hr : apiDegrade m ordOut red w = .ok m') (q : Nat)
    (hq : q < 12 * 4 ^ ordOut) :
    (validChildren m ordOut q = [] → m'.abs q = m'.vc.sentinel ∧ m'.vc.valid (m'.abs q) = false) ∧
    (validChildren m ordOut q ≠ [] → m'.abs q =
      fltOut (auxDT dt) (reduceVals red ((validChildren m ordOut q).map fun p => (m.abs p).numD) [] [])) := by
  have hao : isAndOr red = false := by
    simp only [maskedReds, List.mem_cons, List.not_mem_nil, or_false] at hred
    rcases hred with rfl | rfl | rfl | rfl | rfl <;> rfl
  have hnw : (red == "wmean") = false := by
    simp only [maskedReds, List.mem_cons, List.not_mem_nil, or_false] at hred
    rcases hred with rfl | rfl | rfl | rfl | rfl <;> rfl
  obtain ⟨hkind, hsent, habs⟩ := api_degrade_float h hk (by rw [hao, Bool.and_false]) hnw hlt hr q hq
  have hs : m'.vc.sentinel = (auxDT dt).defaultSentinel := by rw [plain_sentinel hkind, hsent]
  constructor
  · intro hnil
    have : m'.abs q = m'.vc.sentinel := by
      rw [habs, hnil, List.map_nil, reduceVals_nil_masked hred, fltOut_none, hs]
      split <;> rfl
    exact ⟨this, by rw [this]; exact (Ok.apiDegrade h hr).2.1.blankInvalid⟩
  · intro hne
    rw [habs, live_of_validChildren hne, if_pos rfl]

/-- **the sum / prod exception, exactly**: `nansum` of nothing is 0 and `nanprod` 1, so a coarse
    pixel WITHOUT valid children that lies in a covered coverage pixel (at or above the coverage
    resolution) holds 0 resp. 1 — a VALID value of the result; outside the coverage, and
    everywhere below the coverage resolution (re-housing covers only what has a valid pixel),
    it holds UNSEEN.  With valid children: the sum / product over exactly those. -/
theorem api_degrade_sum_prod {m m' : MapObj} {dt : DT} {ordOut : Nat} {red : String}
    {w : Option MapObj} (h : m.Ok) (hk : m.kind = .plain dt) (hred : red = "sum" ∨ red = "prod")
    (hlt : ordOut < m.spord) (hr : apiDegrade m ordOut red w = .ok m') (q : Nat)
    (hq : q < 12 * 4 ^ ordOut) :
    (validChildren m ordOut q = [] → m'.abs q =
      if m.covord ≤ ordOut ∧ covered m.c m.st (q >>> (2 * (ordOut - m.covord))) = true
      then (if red = "sum" then .num 0 0 else .num 1 0) else (auxDT dt).defaultSentinel) ∧
    (validChildren m ordOut q ≠ [] → m'.abs q =
      fltOut (auxDT dt) (reduceVals red ((validChildren m ordOut q).map fun p => (m.abs p).numD) [] [])) := by
  have hao : isAndOr red = false := by rcases hred with rfl | rfl <;> rfl
  have hnw : (red == "wmean") = false := by rcases hred with rfl | rfl <;> rfl
  obtain ⟨hkind, hsent, habs⟩ := api_degrade_float h hk (by rw [hao, Bool.and_false]) hnw hlt hr q hq
  constructor
  · intro hnil
    rw [habs, live_of_no_validChildren hnil, hnil, List.map_nil]
    by_cases hc : m.covord ≤ ordOut ∧ covered m.c m.st (q >>> (2 * (ordOut - m.covord))) = true
    · rw [if_pos hc, decide_eq_true hc.1, hc.2, Bool.and_self, if_pos rfl]
      rcases hred with rfl | rfl
      · rw [reduceVals_nil_sum, fltOut_zero, if_pos rfl]
      · rw [reduceVals_nil_prod, fltOut_one, if_neg (by decide)]
    · rw [if_neg hc, if_neg]
      intro hc'
      apply hc
      simpa using hc'
  · intro hne
    rw [habs, live_of_validChildren hne, if_pos rfl]

theorem flt_sentinel_ne (dt : DT) :
    (Val.num 0 0 != (auxDT dt).defaultSentinel) = true ∧ (Val.num 1 0 != (auxDT dt).defaultSentinel) = true := by
  obtain ⟨b, hb⟩ := WFRes.auxDT_flt dt
  rw [hb]
  unfold DT.defaultSentinel
  split <;> first | (constructor <;> decide) | (rename_i h; cases h)

/-- … and that 0 resp. 1 is a VALID pixel of the result -/
theorem api_degrade_sum_prod_valid {m m' : MapObj} {dt : DT} {ordOut : Nat} {red : String}
    {w : Option MapObj} (h : m.Ok) (hk : m.kind = .plain dt) (hred : red = "sum" ∨ red = "prod")
    (hlt : ordOut < m.spord) (hr : apiDegrade m ordOut red w = .ok m') (q : Nat)
    (hq : q < 12 * 4 ^ ordOut) (hnil : validChildren m ordOut q = []) (hlo : m.covord ≤ ordOut)
    (hc : covered m.c m.st (q >>> (2 * (ordOut - m.covord))) = true) :
    m'.vc.valid (m'.abs q) = true := by
  have hao : isAndOr red = false := by rcases hred with rfl | rfl <;> rfl
  have hnw : (red == "wmean") = false := by rcases hred with rfl | rfl <;> rfl
  obtain ⟨hkind, hsent, _⟩ := api_degrade_float h hk (by rw [hao, Bool.and_false]) hnw hlt hr q hq
  rw [(api_degrade_sum_prod h hk hred hlt hr q hq).1 hnil, if_pos ⟨hlo, hc⟩]
  unfold MapObj.vc
  rw [hkind, hsent]
  show (_ != _) = true
  split
  · exact (flt_sentinel_ne dt).1
  · exact (flt_sentinel_ne dt).2

/-- **weighted mean** (plain maps): `Σ value·weight / Σ weight` over EXACTLY the valid children,
    the weight of child `p` being the weight map's value at `p` (its dense view: the block order
    of the weight map plays no role); no valid child ⇒ UNSEEN.  The result is float64 when the
    weight map is, else the float type of the source (float64 for integers and booleans). -/
theorem api_degrade_wmean {m m' wm : MapObj} {dt : DT} {ordOut : Nat}
    (h : m.Ok) (hk : m.kind = .plain dt) (hww : WeightsWF m ordOut "wmean" (some wm))
    (hlt : ordOut < m.spord) (hr : apiDegrade m ordOut "wmean" (some wm) = .ok m') (q : Nat)
    (hq : q < 12 * 4 ^ ordOut) :
    m'.kind = .plain (if isF64 (some wm) then .flt 64 else auxDT dt) ∧
    m'.sent = (if isF64 (some wm) then DT.flt 64 else auxDT dt).defaultSentinel ∧
    m'.abs q =
      if validChildren m ordOut q = [] then m'.sent
      else fltOut (if isF64 (some wm) then .flt 64 else auxDT dt)
        (wmeanOf
          (dySum (List.zipWith dyMul ((validChildren m ordOut q).map fun p => (m.abs p).numD)
            ((validChildren m ordOut q).map fun p => (wm.abs p).numD)))
          (dySum ((validChildren m ordOut q).map fun p => (wm.abs p).numD))) := by
  have D := apiDegrade_ok h.1 h.2.1.blankInvalid hlt hr
  have hc : (dt.isInt && isAndOr "wmean") = false := by
    rw [show isAndOr "wmean" = false from rfl, Bool.and_false]
  have hkind : m'.kind = .plain (if isF64 (some wm) then .flt 64 else auxDT dt) := by
    rw [D.kind, hk]
    simp only [coreOutKind, hc, Bool.false_eq_true, if_false, beq_self_eq_true, Bool.true_and]
  have hsent : m'.sent = (if isF64 (some wm) then DT.flt 64 else auxDT dt).defaultSentinel := by
    rw [D.sent]; unfold degradeSent; rw [hk]
    simp only [coreOutSent, hc, Bool.false_eq_true, if_false, beq_self_eq_true, Bool.true_and]
  refine ⟨hkind, hsent, ?_⟩
  rw [D.abs hww q hq, coreRed_float h.2.1.blankInvalid hk hc, reduceVals_wmean, ws_wmean,
    wden_wmean, plain_sentinel hkind]
  simp only [beq_self_eq_true, Bool.true_and]
  by_cases hnil : validChildren m ordOut q = []
  · rw [if_pos hnil, hnil]
    simp only [List.map_nil, List.zipWith_nil_left]
    rw [show wmeanOf (dySum []) (dySum []) = none from rfl, fltOut_none, hsent]
    split <;> rfl
  · rw [if_neg hnil, live_of_validChildren hnil, if_pos rfl]

/-- **zero total weight**: the result is NaN — UNSEEN, an invalid pixel — when the weighted sum
    vanishes too, and ±inf otherwise (`poison`: the exact model discards the case) -/
theorem wmeanOf_zero_weight (dtOut : DT) (sxw sw : Int × Nat) (h : sw.1 = 0) :
    fltOut dtOut (wmeanOf sxw sw) = if sxw.1 == 0 then dtOut.defaultSentinel else .poison := by
  unfold wmeanOf
  simp only [h, beq_self_eq_true, if_true]
  split <;> rfl

/-- **integer `and` / `or`** (F36): kind and sentinel are kept, and a live coarse pixel holds the
    bitwise fold over ALL its children — the stored values, sentinels of the invalid children
    included; NO validity mask is applied -/
theorem api_degrade_andor_int {m m' : MapObj} {dt : DT} {ordOut : Nat} {red : String}
    {w : Option MapObj} (h : m.Ok) (hk : m.kind = .plain dt) (hi : dt.isInt = true)
    (hao : isAndOr red = true) (hlt : ordOut < m.spord)
    (hr : apiDegrade m ordOut red w = .ok m') (q : Nat) (hq : q < 12 * 4 ^ ordOut) :
    m'.kind = m.kind ∧ m'.sent = m.sent ∧
    m'.abs q =
      if live m ordOut q then intRed dt m.sent red ((childPix m ordOut q).map m.abs)
      else m.sent := by
  have D := apiDegrade_ok h.1 h.2.1.blankInvalid hlt hr
  have hc : (dt.isInt && isAndOr red) = true := by rw [hi, hao]; rfl
  have hnw : (red == "wmean") = false := by
    cases hw : (red == "wmean") with
    | false => rfl
    | true => rw [eq_of_beq hw] at hao; cases hao
  have hkind : m'.kind = m.kind := by
    rw [D.kind, hk]; simp only [coreOutKind, hc, if_true]
  have hsent : m'.sent = m.sent := by
    rw [D.sent]; unfold degradeSent; rw [hk]; simp only [coreOutSent, hc, if_true]
  refine ⟨hkind, hsent, ?_⟩
  rw [D.abs (weightsWF_of_not_wmean hnw) q hq, coreRed_int hk hc,
    plain_sentinel (hkind.trans hk), hsent]

/-- the INTENDED integer `and` / `or` (the reduction over exactly the valid children) holds under
    the extra hypothesis that every child of the coarse pixel is valid -/
theorem api_degrade_andor_int_partial {m m' : MapObj} {dt : DT} {ordOut : Nat} {red : String}
    {w : Option MapObj} (h : m.Ok) (hk : m.kind = .plain dt) (hi : dt.isInt = true)
    (hao : isAndOr red = true) (hlt : ordOut < m.spord)
    (hr : apiDegrade m ordOut red w = .ok m') (q : Nat) (hq : q < 12 * 4 ^ ordOut)
    (hall : ∀ p ∈ childPix m ordOut q, m.vc.valid (m.abs p) = true) :
    m'.abs q = intRed dt m.sent red ((validChildren m ordOut q).map m.abs) := by
  have hvc : validChildren m ordOut q = childPix m ordOut q := by
    unfold validChildren; rw [List.filter_eq_self]; exact hall
  have hne : validChildren m ordOut q ≠ [] := by
    rw [hvc]; intro hnil
    have := childPix_length m ordOut q
    rw [hnil] at this
    exact absurd this.symm (Nat.ne_of_gt (Nat.pow_pos (by decide)))
  rw [(api_degrade_andor_int h hk hi hao hlt hr q hq).2.2, live_of_validChildren hne, if_pos rfl, hvc]

/-- **wide masks** (`and` / `or` only): kind kept; a live coarse pixel holds the bytewise fold
    over ALL its children (below the coverage resolution the invalid children read the zero
    row) — no validity mask (F36) -/
theorem api_degrade_wide {m m' : MapObj} {n : Nat} {ordOut : Nat} {red : String}
    {w : Option MapObj} (h : m.Ok) (hk : m.kind = .wide n) (hlt : ordOut < m.spord)
    (hr : apiDegrade m ordOut red w = .ok m') (q : Nat) (hq : q < 12 * 4 ^ ordOut) :
    isAndOr red = true ∧ m'.kind = .wide n ∧
    m'.abs q =
      if live m ordOut q then wideRed n red ((childPix m ordOut q).map (srcAbs m ordOut))
      else .bytes (List.replicate n 0) := by
  have D := apiDegrade_ok h.1 h.2.1.blankInvalid hlt hr
  have hao : isAndOr red = true := by have := D.accepts; rw [hk] at this; exact this
  have hnw : (red == "wmean") = false := by
    cases hw : (red == "wmean") with
    | false => rfl
    | true => rw [eq_of_beq hw] at hao; cases hao
  have hkind : m'.kind = .wide n := by rw [D.kind, hk]; rfl
  refine ⟨hao, hkind, ?_⟩
  rw [D.abs (weightsWF_of_not_wmean hnw) q hq, coreRed_wide hk, map_fst_pairs]
  have : m'.vc.sentinel = .bytes (List.replicate n 0) := by unfold MapObj.vc; rw [hkind]; rfl
  rw [this]

/-- the intended wide-mask reduction holds when every child of the coarse pixel is valid -/
theorem api_degrade_wide_partial {m m' : MapObj} {n : Nat} {ordOut : Nat} {red : String}
    {w : Option MapObj} (h : m.Ok) (hk : m.kind = .wide n) (hlt : ordOut < m.spord)
    (hr : apiDegrade m ordOut red w = .ok m') (q : Nat) (hq : q < 12 * 4 ^ ordOut)
    (hall : ∀ p ∈ childPix m ordOut q, m.vc.valid (m.abs p) = true) :
    m'.abs q = wideRed n red ((validChildren m ordOut q).map m.abs) := by
  have hvc : validChildren m ordOut q = childPix m ordOut q := by
    unfold validChildren; rw [List.filter_eq_self]; exact hall
  have hne : validChildren m ordOut q ≠ [] := by
    rw [hvc]; intro hnil
    have := childPix_length m ordOut q
    rw [hnil] at this
    exact absurd this.symm (Nat.ne_of_gt (Nat.pow_pos (by decide)))
  rw [(api_degrade_wide h hk hlt hr q hq).2.2, live_of_validChildren hne, if_pos rfl, hvc]
  congr 1
  apply List.map_congr_left
  intro p hp
  exact srcAbs_of_valid (hall p hp)

/-- **record maps**: the fields become float (`auxDT`), the sentinel the default of the new
    primary field; a live coarse pixel holds, FIELD BY FIELD, the nan-reduction of that field
    over exactly the children whose PRIMARY field is valid (NaN ↦ the field's default sentinel),
    any other coarse pixel the blank record -/
theorem api_degrade_recd {m m' : MapObj} {fs : List DT} {pr : Nat} {ordOut : Nat} {red : String}
    {w : Option MapObj} (h : m.Ok) (hk : m.kind = .recd fs pr) (hww : WeightsWF m ordOut red w)
    (hlt : ordOut < m.spord) (hr : apiDegrade m ordOut red w = .ok m') (q : Nat)
    (hq : q < 12 * 4 ^ ordOut) :
    m'.kind = .recd (fs.map auxDT) pr ∧
    m'.sent = (auxDT (fs.getD pr (.flt 64))).defaultSentinel ∧
    m'.abs q =
      if live m ordOut q
      then recOut fs (fun i =>
        reduceVals red ((validChildren m ordOut q).map fun p => fieldOf i (m.abs p))
          ((validChildren m ordOut q).map fun p => (wAt m red w p).numD)
          ((childPix m ordOut q).map fun p => (wAt m red w p).numD))
      else m'.vc.sentinel := by
  have D := apiDegrade_ok h.1 h.2.1.blankInvalid hlt hr
  refine ⟨by rw [D.kind, hk]; rfl, by rw [D.sent]; unfold degradeSent; rw [hk]; rfl, ?_⟩
  rw [D.abs hww q hq, coreRed_recd h.2.1.blankInvalid hk]

/-- record maps, masked reductions: a coarse pixel without a child whose primary is valid is
    invalid in the result -/
theorem api_degrade_recd_masked {m m' : MapObj} {fs : List DT} {pr : Nat} {ordOut : Nat}
    {red : String} {w : Option MapObj} (h : m.Ok) (hk : m.kind = .recd fs pr)
    (hred : red ∈ maskedReds) (hlt : ordOut < m.spord)
    (hr : apiDegrade m ordOut red w = .ok m') (q : Nat) (hq : q < 12 * 4 ^ ordOut)
    (hnil : validChildren m ordOut q = []) : m'.vc.valid (m'.abs q) = false := by
  have hnw : (red == "wmean") = false := by
    simp only [maskedReds, List.mem_cons, List.not_mem_nil, or_false] at hred
    rcases hred with rfl | rfl | rfl | rfl | rfl <;> rfl
  obtain ⟨hkind, hsent, habs⟩ := api_degrade_recd h hk (weightsWF_of_not_wmean hnw) hlt hr q hq
  have hb := (Ok.apiDegrade h hr).2.1.blankInvalid
  cases hl : live m ordOut q with
  | false => rw [habs, hl]; exact hb
  | true =>
    rw [habs, hl, if_pos rfl, hnil]
    simp only [List.map_nil, reduceVals_nil_masked hred]
    have hpr : pr < fs.length := by
      have := h.2.1
      unfold MapObj.KindOk MapObj.kindOk at this
      rw [hk] at this
      simp only at this
      cases hget : fs[pr]? with
      | none => rw [hget] at this; cases this
      | some dt => exact (List.getElem?_eq_some_iff.1 hget).1
    unfold MapObj.vc
    rw [hkind, hsent]
    simp only [recOut, Kind.valid, List.all_map, List.map_map]
    have hall : ((List.range fs.length).all (Option.isSome ∘ fun i =>
        some ((List.map auxDT fs).getD i (DT.flt 64)).defaultSentinel.numD)) = true := by
      rw [List.all_eq_true]; intro i _; rfl
    rw [if_pos hall]
    simp only [List.getD_eq_getElem?_getD, List.getElem?_map, List.getElem?_range hpr,
      List.getElem?_eq_getElem hpr, Option.map_some, Option.getD_some, Function.comp_apply]
    simp

/-! ### errors -/

/-- `nside_out > nside_sparse` is a ValueError; a bit-packed map NotImplementedError -/
theorem api_degrade_error_range (m : MapObj) (ordOut : Nat) (red : String) (w : Option MapObj) :
    (ordOut > m.spord → apiDegrade m ordOut red w = .error .value) ∧
    (ordOut ≤ m.spord → m.kind = .packed → apiDegrade m ordOut red w = .error .notImpl) := by
  rw [apiDegrade_eq]
  unfold degradeSpec
  constructor
  · intro h; rw [if_pos h]
  · intro h hk; rw [if_neg (by omega), if_pos (by rw [hk]; rfl)]

/-- **when `degrade` succeeds**, `covord ≤ ordOut < spord`: EXACTLY when the weight checks pass
    (`weightsOk`: for `wmean` only — a floating-point weight map with the two resolutions of
    this map and the same sorted `valid_pixels`), the kind accepts the reduction
    (`coreAccepts`), and — an artefact of the exact model, not of the library — every cell
    converts to float64 exactly unless the reduction is `and` / `or` -/
theorem api_degrade_ok_iff {m : MapObj} {ordOut : Nat} {red : String} {w : Option MapObj}
    (h : m.Ok) (hlo : m.covord ≤ ordOut) (hlt : ordOut < m.spord) :
    (∃ m', apiDegrade m ordOut red w = .ok m') ↔
      weightsOk m red w ∧ coreAccepts m.kind red = true ∧
        (isAndOr red = true ∨ cellsFitF64 m.st.sp = true) :=
  apiDegrade_inrange_isOk_iff h.1 h.2.1.blankInvalid hlo hlt

/-- **the `inexact` guard**: a float reduction (anything but `and` / `or`) that succeeds at or
    above the coverage resolution has met no `.rat` / `.sqrtRat` / `.poison` cell — the results
    of an earlier non-dyadic `mean` / `std` / `wmean`, which `Val.numD` cannot read — at any valid
    pixel: a chained degrade is discarded (`inexact`), never mispredicted -/
theorem api_degrade_float_cells_exact {m m' : MapObj} {ordOut : Nat} {red : String}
    {w : Option MapObj} (h : m.Ok) (hlo : m.covord ≤ ordOut) (hlt : ordOut < m.spord)
    (hao : isAndOr red = false) (hr : apiDegrade m ordOut red w = .ok m') (p : Nat)
    (hval : m.vc.valid (m.abs p) = true) : Val.reducible (m.abs p) = true := by
  have hfit : cellsFitF64 m.st.sp = true := by
    rcases ((api_degrade_ok_iff h hlo hlt).1 ⟨m', hr⟩).2.2 with h1 | h1
    · rw [hao] at h1; cases h1
    · exact h1
  rcases abs_mem_or_sentinel m p with hm | hs
  · exact cellsFitF64_reducible hfit hm
  · rw [hs, h.2.1.blankInvalid] at hval; cases hval

/-- on every path (`ordOut < spord`): a reduction the kind does not accept, a `wmean` without
    weights, with a weight map that is not floating point, or of another sparse resolution, is
    an error -/
theorem api_degrade_rejects {m : MapObj} {ordOut : Nat} {red : String} {w : Option MapObj}
    (h : m.Ok) (hlt : ordOut < m.spord)
    (hbad : coreAccepts m.kind red = false ∨
      ((red == "wmean") = true ∧ (w = none ∨ ∃ wm, w = some wm ∧
        ((∀ b, wm.kind ≠ .plain (.flt b)) ∨ wm.spord ≠ m.spord)))) :
    ∃ e, apiDegrade m ordOut red w = .error e := by
  cases hr : apiDegrade m ordOut red w with
  | error e => exact ⟨e, rfl⟩
  | ok m' =>
    exfalso
    have D := apiDegrade_ok h.1 h.2.1.blankInvalid hlt hr
    rcases hbad with hb | ⟨hw, hb⟩
    · rw [D.accepts] at hb; cases hb
    · obtain ⟨wm, b, e1, e2, e3, _⟩ := D.wts hw
      rcases hb with hb | ⟨wm', e1', hb | hb⟩
      · rw [hb] at e1; cases e1
      · rw [e1'] at e1; cases e1; exact hb b e2
      · rw [e1'] at e1; cases e1; exact hb e3

/-- the error codes of the in-range weight checks: `wmean` without weights, with a weight map
    that is not floating point, or whose resolutions differ — ValueError each -/
theorem api_degrade_weight_errors {m : MapObj} {ordOut : Nat} (hk : m.kind ≠ .packed)
    (hlo : m.covord ≤ ordOut) (hlt : ordOut < m.spord) :
    apiDegrade m ordOut "wmean" none = .error .value ∧
    (∀ wm, (∀ b, wm.kind ≠ .plain (.flt b)) → apiDegrade m ordOut "wmean" (some wm) = .error .value) ∧
    (∀ wm b, wm.kind = .plain (.flt b) → (wm.spord ≠ m.spord ∨ wm.covord ≠ m.covord) →
      apiDegrade m ordOut "wmean" (some wm) = .error .value) := by
  have key : ∀ w, apiDegrade m ordOut "wmean" w = coreWeights m "wmean" w >>= coreRest m ordOut "wmean" w := by
    intro w
    rw [apiDegrade_eq]
    unfold degradeSpec
    rw [if_neg (by omega), if_neg (by simpa using hk), if_neg (by omega), if_neg (by simp; omega),
      apiDegradeCore_eq]
  refine ⟨?_, ?_, ?_⟩
  · rw [key]; rfl
  · intro wm hwk
    rw [key]
    unfold coreWeights
    simp only [bne_self_eq_false, Bool.false_eq_true, if_false]
    first
      | rfl
      | (split
         · rename_i b hb; exact absurd hb (hwk b)
         · rfl)
  · intro wm b hwk hne
    rw [key]
    unfold coreWeights
    simp only [bne_self_eq_false, Bool.false_eq_true, if_false, hwk]
    rw [if_pos (by rcases hne with h | h <;> simp [h])]
    rfl

/-- **integer `or` over the sentinel 0 IS the masked reduction** — the one case F36 leaves
    intact: when the sentinel is 0 and the children hold integers of the map's dtype (`IntCell`;
    a dtype of at least one bit), the result is the `or` over EXACTLY the valid children, and the
    sentinel when there is none.  (`Witness.f36_or_eval`: false for any other sentinel.) -/
theorem api_degrade_or_zero_sentinel {m m' : MapObj} {b : Nat} {sg : Bool} {ordOut : Nat}
    {w : Option MapObj} (h : m.Ok) (hk : m.kind = .plain (.int b sg)) (hb : 0 < b)
    (hs : m.sent = .num 0 0) (hlt : ordOut < m.spord)
    (hr : apiDegrade m ordOut "or" w = .ok m') (q : Nat) (hq : q < 12 * 4 ^ ordOut)
    (hty : ∀ p ∈ childPix m ordOut q, IntCell b sg (m.abs p)) :
    m'.abs q = intRed (.int b sg) (.num 0 0) "or" ((validChildren m ordOut q).map m.abs) := by
  have hvalid : m.vc.valid = fun v => v != Val.num 0 0 := by
    unfold MapObj.vc; rw [hk, hs]; rfl
  have hvc : (validChildren m ordOut q).map m.abs =
      ((childPix m ordOut q).map m.abs).filter fun v => v != Val.num 0 0 := by
    unfold validChildren
    rw [List.filter_map, hvalid]
    rfl
  rw [(api_degrade_andor_int h hk rfl rfl hlt hr q hq).2.2, hs]
  cases hl : live m ordOut q with
  | true =>
    rw [if_pos rfl, hvc]
    apply intRed_or_zero hb
    intro x hx
    obtain ⟨p, hp, rfl⟩ := List.mem_map.1 hx
    exact hty p hp
  | false =>
    have hnil : validChildren m ordOut q = [] := by
      rw [validChildren_eq_nil_iff]
      unfold live at hl
      exact (Bool.or_eq_false_iff.1 hl).1
    rw [hnil]
    rfl

/-! ### F36 and its extension: the evaluated counterexamples -/

namespace Witness
open WFApi (okAnd okAnd_iff)

/-- an int64 map at orders (0, 1) whose coarse pixel 0 has the valid children 0, 1 (values 7, 5)
    and the invalid children 2, 3; `sent = none` gives it the default sentinel `-2^63` -/
def partialInt (sent : Option Val) : Except Err MapObj :=
  apiMakeEmpty 0 1 (.plain (.int 64 true)) sent [] >>= fun e =>
    apiUpdate e "replace" [0, 1] (some [.num 7 0, .num 5 0]) false

/-- (F36) sentinel 0, `and`: the valid children of coarse pixel 0 are `[0, 1]`, their `and` is
    `7 & 5 = 5`, but `degrade` answers `0` (= `7 & 5 & 0 & 0`, the sentinel: the pixel comes back
    INVALID) -/
theorem f36_and_eval :
    okAnd (partialInt (some (.num 0 0))) (fun m =>
      decide m.Ok && decide (m.kind = .plain (.int 64 true)) && decide (m.spord = 1) &&
      decide (validChildren m 0 0 = [0, 1]) &&
      decide (intRed (.int 64 true) m.sent "and" ((validChildren m 0 0).map m.abs) = .num 5 0) &&
      okAnd (apiDegrade m 0 "and" none) (fun m' =>
        decide (m'.abs 0 = .num 0 0) && !m'.vc.valid (m'.abs 0))) = true := by
  decide +kernel

/-- (extension of F36, NEW) default sentinel `-2^63`, `or`: the `or` of the valid children is
    `7 | 5 = 7`, but `degrade` answers `-9223372036854775801` (= `7 | -2^63`: the sentinel's bit
    pattern is or-ed in).  `or` is unaffected only when the sentinel is 0. -/
theorem f36_or_eval :
    okAnd (partialInt none) (fun m =>
      decide m.Ok && decide (m.kind = .plain (.int 64 true)) && decide (m.spord = 1) &&
      decide (validChildren m 0 0 = [0, 1]) &&
      decide (intRed (.int 64 true) m.sent "or" ((validChildren m 0 0).map m.abs) = .num 7 0) &&
      okAnd (apiDegrade m 0 "or" none) (fun m' =>
        decide (m'.abs 0 = .num (-9223372036854775801) 0))) = true := by
  decide +kernel

/-- … and with the default sentinel `and` answers `0`, here a VALID value of the result -/
theorem f36_and_default_eval :
    okAnd (partialInt none) (fun m => decide m.Ok &&
      okAnd (apiDegrade m 0 "and" none) (fun m' =>
        decide (m'.abs 0 = .num 0 0) && m'.vc.valid (m'.abs 0))) = true := by
  decide +kernel

/-- the statement "integer `and` / `or` degrade reduces exactly the valid children" is FALSE
    (`api_degrade_andor_int_partial` proves it under "every child valid") -/
theorem api_degrade_andor_masked_false :
    ¬ (∀ (m m' : MapObj) (dt : DT) (ordOut : Nat) (red : String) (w : Option MapObj) (q : Nat),
        m.Ok → m.kind = .plain dt → dt.isInt = true → isAndOr red = true → ordOut < m.spord →
        apiDegrade m ordOut red w = .ok m' → q < 12 * 4 ^ ordOut → validChildren m ordOut q ≠ [] →
        m'.abs q = intRed dt m.sent red ((validChildren m ordOut q).map m.abs)) := by
  intro H
  obtain ⟨m, _, hP⟩ := (okAnd_iff _ _).1 f36_and_eval
  simp only [Bool.and_eq_true, decide_eq_true_eq] at hP
  obtain ⟨⟨⟨⟨⟨h1, h2⟩, h3⟩, h4⟩, h5⟩, h6⟩ := hP
  obtain ⟨m', hm', h7⟩ := (okAnd_iff _ _).1 h6
  simp only [Bool.and_eq_true, decide_eq_true_eq] at h7
  have := H m m' _ 0 "and" none 0 h1 h2 rfl rfl (by omega) hm' (by decide) (by rw [h4]; simp)
  rw [h5, h7.1] at this
  cases this

/-- the same with `or` (sentinel ≠ 0) -/
theorem api_degrade_or_masked_false :
    ¬ (∀ (m m' : MapObj) (dt : DT) (ordOut : Nat) (w : Option MapObj) (q : Nat),
        m.Ok → m.kind = .plain dt → dt.isInt = true → ordOut < m.spord →
        apiDegrade m ordOut "or" w = .ok m' → q < 12 * 4 ^ ordOut → validChildren m ordOut q ≠ [] →
        m'.abs q = intRed dt m.sent "or" ((validChildren m ordOut q).map m.abs)) := by
  intro H
  obtain ⟨m, _, hP⟩ := (okAnd_iff _ _).1 f36_or_eval
  simp only [Bool.and_eq_true, decide_eq_true_eq] at hP
  obtain ⟨⟨⟨⟨⟨h1, h2⟩, h3⟩, h4⟩, h5⟩, h6⟩ := hP
  obtain ⟨m', hm', h7⟩ := (okAnd_iff _ _).1 h6
  simp only [decide_eq_true_eq] at h7
  have := H m m' _ 0 none 0 h1 h2 rfl (by omega) hm' (by decide) (by rw [h4]; simp)
  rw [h5, h7] at this
  cases this

/-- a wide mask (2 bytes) at orders (0, 1): children 0, 1 of coarse pixel 0 valid -/
def partialWide : Except Err MapObj :=
  apiMakeEmpty 0 1 (.wide 2) none [] >>= fun e =>
    apiUpdate e "replace" [0, 1] (some [.bytes [3, 1], .bytes [5, 1]]) false

/-- (F36, wide masks) `and` of the valid children is `[3 & 5, 1 & 1] = [1, 1]`; `degrade`
    answers the zero row -/
theorem f36_wide_eval :
    okAnd partialWide (fun m => decide m.Ok && decide (validChildren m 0 0 = [0, 1]) &&
      decide (wideRed 2 "and" ((validChildren m 0 0).map m.abs) = .bytes [1, 1]) &&
      okAnd (apiDegrade m 0 "and" none) (fun m' => decide (m'.abs 0 = .bytes [0, 0]))) = true := by
  decide +kernel

/-! the same three counterexamples as protocol histories (evaluated by the compiler) -/

#guard ((runLines ["cfg m kind=plain dtype=i8 covord=0 spord=1 sentinel=0",
    "upd m pix=0,1 vals=7,5", "deg m ord=0 red=and r=d"]).get? "d").map (·.abs 0) == some (.num 0 0)
#guard ((runLines ["cfg m kind=plain dtype=i8 covord=0 spord=1",
    "upd m pix=0,1 vals=7,5", "deg m ord=0 red=or r=d"]).get? "d").map (·.abs 0)
      == some (.num (-9223372036854775801) 0)
#guard ((runLines ["cfg m kind=wide maxbits=16 covord=0 spord=1",
    "upd m pix=0,1 vals=b3.1,b5.1", "deg m ord=0 red=and r=d"]).get? "d").map (·.abs 0)
      == some (.bytes [0, 0])

end Witness

/-! ### non-vacuity: the hypotheses are satisfiable and the conclusions say what they should -/

section nonvacuity
open WFApi (okAnd)

/-- a float64 map at orders (0, 2): pixel 0 valid (value 7); coarse pixel 0 at order 1 has one
    valid child, coarse pixels 1–3 lie in the same COVERED coverage pixel without valid children,
    coarse pixel 4 is uncovered -/
def exFlt : Except Err MapObj :=
  apiMakeEmpty 0 2 (.plain (.flt 64)) none [] >>= fun e =>
    apiUpdate e "replace" [0] (some [.num 7 0]) false

-- `api_degrade_layout`, `api_degrade_float`, `api_degrade_masked`, `api_degrade_sum_prod`,
-- `api_degrade_coverage`: mean / sum / prod of the one valid child is 7; a covered coarse pixel
-- without valid children holds UNSEEN (mean), 0 (sum), 1 (prod); an uncovered one UNSEEN
example : okAnd exFlt (fun m => decide m.Ok && decide (m.kind = .plain (.flt 64)) &&
    decide (1 < m.spord) && decide (validChildren m 1 0 = [0]) && decide (validChildren m 1 1 = []) &&
    live m 1 1 && !live m 1 4 &&
    okAnd (apiDegrade m 1 "mean" none) (fun m' => decide m'.Ok && decide (m'.spord = 1) &&
      decide (m'.abs 0 = .num 7 0) && decide (m'.abs 1 = .num unseen64 0) &&
      decide (m'.abs 4 = .num unseen64 0) && covered m'.c m'.st 0 && !covered m'.c m'.st 1) &&
    okAnd (apiDegrade m 1 "sum" none) (fun m' =>
      decide (m'.abs 0 = .num 7 0) && decide (m'.abs 1 = .num 0 0) && m'.vc.valid (m'.abs 1) &&
      decide (m'.abs 4 = .num unseen64 0)) &&
    okAnd (apiDegrade m 1 "prod" none) (fun m' =>
      decide (m'.abs 1 = .num 1 0) && decide (m'.abs 4 = .num unseen64 0))) = true := by
  decide +kernel

/-- a float64 map at orders (1, 2) with the valid pixels 0 and 17 -/
def exBelow : Except Err MapObj :=
  apiMakeEmpty 1 2 (.plain (.flt 64)) none [] >>= fun e =>
    apiUpdate e "replace" [0, 17] (some [.num 7 0, .num 3 0]) false

-- below the coverage resolution (`ordOut = 0 < covord = 1`): the result has coverage order 0,
-- covers exactly the coarse pixels with a valid child, and `sum` leaves every other UNSEEN
example : okAnd exBelow (fun m => decide m.Ok && decide (0 < m.covord) &&
    decide (validChildren m 0 0 = [0]) && decide (validChildren m 0 1 = [17]) &&
    okAnd (apiDegrade m 0 "sum" none) (fun m' => decide m'.Ok && decide (m'.covord = 0) &&
      decide (m'.abs 0 = .num 7 0) && decide (m'.abs 1 = .num 3 0) &&
      decide (m'.abs 2 = .num unseen64 0) &&
      covered m'.c m'.st 0 && covered m'.c m'.st 1 && !covered m'.c m'.st 2)) = true := by
  decide +kernel

-- `api_degrade_kind` / `outKind_rules`: an int64 map becomes float64 with sentinel UNSEEN under
-- `mean` (7, 5 ↦ 6) and stays int64 under `and`; `api_degrade_andor_int_partial`: every child
-- valid ⇒ the `and` of the children; `api_degrade_same_order`: no validation at the same order
example : okAnd (apiMakeEmpty 0 1 (.plain (.int 64 true)) none [] >>= fun e =>
      apiUpdate e "replace" [0, 1, 2, 3] (some [.num 7 0, .num 5 0, .num 13 0, .num 15 0]) false)
    (fun m => decide m.Ok &&
      decide (∀ p ∈ childPix m 0 0, m.vc.valid (m.abs p) = true) &&
      okAnd (apiDegrade m 0 "mean" none) (fun m' => decide (m'.kind = .plain (.flt 64)) &&
        decide (m'.sent = .num unseen64 0) && decide (m'.abs 0 = .num 10 0)) &&
      okAnd (apiDegrade m 0 "and" none) (fun m' => decide (m'.kind = m.kind) &&
        decide (m'.abs 0 = .num 5 0)) &&
      okAnd (apiDegrade m 1 "bogus" none) (fun m' => decide (m'.kind = m.kind))) = true := by
  decide +kernel

-- `api_degrade_or_zero_sentinel`: sentinel 0, children 6, 5, invalid, invalid ⇒ 6 | 5 = 7
example : okAnd (Witness.partialInt (some (.num 0 0))) (fun m => decide m.Ok &&
    decide (m.sent = .num 0 0) &&
    okAnd (apiDegrade m 0 "or" none) (fun m' => decide (m'.abs 0 = .num 7 0))) = true := by
  decide +kernel

-- `api_degrade_wide` / `_partial`: `or` of the rows (all four children valid)
example : okAnd (apiMakeEmpty 0 1 (.wide 2) none [] >>= fun e =>
      apiUpdate e "replace" [0, 1, 2, 3] (some [.bytes [3, 1], .bytes [5, 1], .bytes [8, 0], .bytes [1, 2]]) false)
    (fun m => decide m.Ok && decide (∀ p ∈ childPix m 0 0, m.vc.valid (m.abs p) = true) &&
      okAnd (apiDegrade m 0 "or" none) (fun m' => decide (m'.kind = .wide 2) &&
        decide (m'.abs 0 = .bytes [15, 3]) && decide (m'.abs 1 = .bytes [0, 0])) &&
      okAnd (apiDegrade m 0 "and" none) (fun m' => decide (m'.abs 0 = .bytes [0, 0]))) = true := by
  decide +kernel

/-- a record map (int32, float32), primary 0, at orders (0, 1): children 0, 1 valid -/
def exRec : Except Err MapObj :=
  apiMakeEmpty 0 1 (.recd [.int 32 true, .flt 32] 0) none [] >>= fun e =>
    apiUpdate e "replace" [0, 1] (some [.recd [(7, 0), (1, 1)], .recd [(5, 0), (3, 1)]]) false

-- `api_degrade_recd` / `_masked`: fields become (float64, float32), each the mean over the two
-- children with a valid primary; a coarse pixel without such a child holds the blank record
example : okAnd exRec (fun m => decide m.Ok && decide (validChildren m 0 0 = [0, 1]) &&
    decide (validChildren m 0 1 = []) &&
    okAnd (apiDegrade m 0 "mean" none) (fun m' =>
      decide (m'.kind = .recd [.flt 64, .flt 32] 0) && decide (m'.sent = .num unseen64 0) &&
      decide (m'.abs 0 = .recd [(6, 0), (1, 0)]) &&
      decide (m'.abs 1 = .recd [(unseen64, 0), (unseen32, 0)]) && !m'.vc.valid (m'.abs 1))) = true := by
  decide +kernel

-- the weighted mean (`List.mergeSort` does not reduce in the kernel: evaluated by the compiler).
-- float32 map, float64 weights given in ANOTHER block order: float64 result (7·3 + 5·1)/4 = 13/2;
-- total weight 0: poison when the weighted sum is not 0, UNSEEN when it is
#guard okAnd (apiMakeEmpty 0 1 (.plain (.flt 32)) none [] >>= fun e =>
      apiUpdate e "replace" [0, 1] (some [.num 7 0, .num 5 0]) false) (fun m =>
    okAnd (apiMakeEmpty 0 1 (.plain (.flt 64)) none [] >>= fun e =>
      apiUpdate e "replace" [1, 0] (some [.num 1 0, .num 3 0]) false) (fun wm =>
    decide m.Ok && decide wm.Ok &&
    okAnd (apiDegrade m 0 "wmean" (some wm)) (fun m' =>
      decide (m'.kind = .plain (.flt 64)) && decide (m'.abs 0 = .num 13 1) &&
      decide (m'.abs 1 = .num unseen64 0))))
#guard okAnd (apiMakeEmpty 0 1 (.plain (.flt 64)) none [] >>= fun e =>
      apiUpdate e "replace" [0, 1] (some [.num 7 0, .num 5 0]) false) (fun m =>
    okAnd (apiMakeEmpty 0 1 (.plain (.flt 64)) none [] >>= fun e =>
      apiUpdate e "replace" [1, 0] (some [.num 1 0, .num (-1) 0]) false) (fun wm =>
    okAnd (apiDegrade m 0 "wmean" (some wm)) (fun m' => decide (m'.abs 0 = .poison))))
-- below the coverage resolution the weight map may have another coverage order
#guard okAnd exBelow (fun m =>
    okAnd (apiMakeEmpty 2 2 (.plain (.flt 64)) none [] >>= fun e =>
      apiUpdate e "replace" [17, 0] (some [.num 1 0, .num 3 0]) false) (fun wm =>
    decide wm.Ok &&
    okAnd (apiDegrade m 0 "wmean" (some wm)) (fun m' =>
      decide (m'.abs 0 = .num 7 0) && decide (m'.abs 1 = .num 3 0) &&
      decide (m'.abs 2 = .num unseen64 0))))

-- errors: `ordOut > spord`; an unknown reduction; `and` on a float map; `wmean` without weights;
-- a weight map that is not floating point (`api_degrade_error_range`, `api_degrade_rejects`,
-- `api_degrade_weight_errors`)
example : okAnd exFlt (fun m =>
    (match apiDegrade m 3 "mean" none with | .error .value => true | _ => false) &&
    (match apiDegrade m 1 "bogus" none with | .error .value => true | _ => false) &&
    (match apiDegrade m 1 "and" none with | .error .value => true | _ => false) &&
    (match apiDegrade m 1 "wmean" none with | .error .value => true | _ => false) &&
    (match apiDegrade m 0 "wmean" (some { m with kind := .plain (.int 64 true) }) with
      | .error .value => true | _ => false)) = true := by
  decide +kernel

/-! ### regression: a chained degrade is discarded, not mispredicted

HISTORY.  The float path reads every cell through `Val.numD` (`api_degrade_float`:
`(m.abs p).numD`), which is the value for `.num` / `.bool` cells only.  A first version of
`cellsFitF64` let the `.rat` / `.sqrtRat` / `.poison` cells pass that an earlier `mean`, `std` or
`wmean` degrade leaves when the result is not dyadic, so a CHAINED in-range degrade read them as 0
(mean map holding 4/3, then `sum`: model 0, library 1.333…).  The guard now answers `inexact` on
such cells (`api_degrade_float_cells_exact`: a successful float reduction at or above the coverage
resolution never meets one), and the example below is the regression.  What remains: BELOW the
coverage resolution the same map still raises ValueError in the model — re-housing checks the cell
type (`valMatchesKind` rejects `.rat`) before `_degrade` reaches the guard — where the library
succeeds.  The C07 generator never degrades a degraded map. -/

/-- the `mean` degrade (order 3 → 2) of a float64 map with the values 1, 1, 2 under coarse pixel 0 -/
def exThirds : Except Err MapObj :=
  apiMakeEmpty 1 3 (.plain (.flt 64)) none [] >>= fun e =>
    apiUpdate e "replace" [0, 1, 2] (some [.num 1 0, .num 1 0, .num 2 0]) false >>= fun m =>
      apiDegrade m 2 "mean" none

example : okAnd exThirds (fun d => decide d.Ok && decide (d.abs 0 = .rat 4 3) &&
    !cellsFitF64 d.st.sp && decide (validChildren d 1 0 = [0]) &&
    (match apiDegrade d 1 "sum" none with | .error .inexact => true | _ => false) &&
    (match apiDegrade d 1 "and" none with | .error .value => true | _ => false) &&
    okAnd (apiDegrade d 2 "sum" none) (fun f => decide (f.abs 0 = .rat 4 3)) &&
    (match apiDegrade d 0 "sum" none with | .error .value => true | _ => false)) = true := by
  decide +kernel

end nonvacuity

end api
end C07
end HS
