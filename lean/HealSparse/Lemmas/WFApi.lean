/-
  Well-formedness (`MapObj.WF`, Model/WellFormed.lean) is preserved by the functions of
  Model/Api.lean: make_empty, update_values_pix (pixel and range forms), the wide-mask bit
  API, scalar operators, apply_mask, astype, as_bit_packed_map, boolean algebra, the
  union / intersection operations, get_single (copy and view).

  The API functions are `Except` computations written in `do` notation; the glue lemmas
  (`…_ok`) extract from a successful run which core operation produced the result and which
  validation facts hold, and the `WF.…` theorems thread the existing `Inv` lemmas through.
-/
import HealSparse.Model.WellFormed
import HealSparse.Lemmas.Core
import HealSparse.Lemmas.Coverage
import HealSparse.Lemmas.Valid
import HealSparse.Lemmas.ScalarOps
import HealSparse.Lemmas.Ranges
import HealSparse.Lemmas.RecArray
import HealSparse.Lemmas.BoolOps
import HealSparse.Lemmas.MultiOps
namespace HS

/-! ### peeling a successful `Except` computation -/

theorem WFApi.ite_ok {ε α : Type} {c : Prop} [Decidable c] {a b : Except ε α} {r : α}
    (h : (if c then a else b) = .ok r) : (c ∧ a = .ok r) ∨ (¬ c ∧ b = .ok r) := by
  by_cases hc : c
  · rw [if_pos hc] at h; exact Or.inl ⟨hc, h⟩
  · rw [if_neg hc] at h; exact Or.inr ⟨hc, h⟩

theorem WFApi.guard_ok {ε α : Type} {c : Prop} [Decidable c] {e : ε} {b : Except ε α} {r : α}
    (h : (if c then Except.error e else b) = .ok r) : ¬ c ∧ b = .ok r := by
  by_cases hc : c
  · rw [if_pos hc] at h; cases h
  · rw [if_neg hc] at h; exact ⟨hc, h⟩

open WFApi

/-- peel one layer (`if`, guard, `match`) off a hypothesis `h : prog = .ok r`; error leaves
    are closed.  Works on the head of the term only, so the size of the (join-point
    duplicated) program does not matter. -/
syntax "xpeel " ident : tactic
macro_rules
  | `(tactic| xpeel $h:ident) => `(tactic|
      first
      | (with_reducible cases $h:ident; done)
      | (with_reducible replace $h:ident := guard_ok $h
         have := ($h).1; replace $h:ident := ($h).2)
      | (with_reducible replace $h:ident := ite_ok $h
         refine Or.elim $h (fun hh => ?_) (fun hh => ?_) <;>
           (clear $h; have := hh.1; have $h:ident := hh.2; clear hh))
      | (fail_if_success (with_reducible have := Except.ok.inj $h)
         split at $h:ident))

/-! ### closure facts -/

theorem MapObj.WF_congr {m m' : MapObj} (h1 : m'.covord = m.covord) (h2 : m'.spord = m.spord)
    (h3 : m'.kind = m.kind) (h4 : m'.sent = m.sent) (h5 : m'.st = m.st) : m'.WF ↔ m.WF := by
  unfold MapObj.WF MapObj.c MapObj.vc
  rw [h1, h2, h3, h4, h5]

@[simp] theorem MapObj.WF_cache (m : MapObj) (x : Option Nat) :
    ({ m with cache := x } : MapObj).WF ↔ m.WF := Iff.rfl

@[simp] theorem MapObj.WF_view (m : MapObj) (x : Option (String × Nat)) :
    ({ m with view := x } : MapObj).WF ↔ m.WF := Iff.rfl

theorem MapObj.WF_cache_view (m : MapObj) (x : Option Nat) (y : Option (String × Nat)) :
    ({ m with cache := x, view := y } : MapObj).WF ↔ m.WF := Iff.rfl

/-! ### the layout at a foreign overflow value

A record-field view (`materializeView`) shares the parent's index; its overflow block holds
the field of the parent's blank record, which need not be the view's own sentinel.  All
layout clauses hold with that value in place of the sentinel. -/

/-- the layout of `m`'s arrays with overflow cells equal to `b` -/
def MapObj.WFAt (m : MapObj) (b : Val) : Prop :=
  m.covord ≤ m.spord ∧ Inv m.c ⟨b, m.vc.valid⟩ m.st

instance (m : MapObj) (b : Val) : Decidable (m.WFAt b) := by unfold MapObj.WFAt; infer_instance

theorem MapObj.WF_iff_WFAt (m : MapObj) : m.WF ↔ m.WFAt (m.kind.blank m.sent) := Iff.rfl

theorem MapObj.WFAt_congr {m m' : MapObj} {b : Val} (h1 : m'.covord = m.covord)
    (h2 : m'.spord = m.spord) (h5 : m'.st = m.st) : m'.WFAt b ↔ m.WFAt b := by
  unfold MapObj.WFAt MapObj.c
  rw [h1, h2, h5]
  exact Iff.rfl

/-- `Inv` mentions the cell parameters only through the sentinel -/
theorem WFApi.inv_vc_congr {V : Type} [DecidableEq V] {c : Cfg} {vc vc' : VCfg V} {s : State V}
    (h : Inv c vc s) (hs : vc'.sentinel = vc.sentinel) : Inv c vc' s := by
  unfold Inv at h ⊢
  rw [hs]
  exact h

/-! ### `make_empty` -/

theorem WFApi.checkSentinel_ok_cases {dt : DT} {s : Option Val} {v : Val}
    (h : checkSentinel dt s = .ok v) :
    (s = none ∧ v = dt.defaultSentinel) ∨ (∃ n e, v = .num n e ∧ dt ≠ .bool) ∨
      (∃ x, v = .bool x ∧ dt = .bool) := by
  unfold checkSentinel at h
  split at h
  · cases h; exact Or.inl ⟨rfl, rfl⟩
  · split at h
    · cases h; exact Or.inr (Or.inl ⟨_, _, rfl, by simp⟩)
    · split at h
      · cases h; exact Or.inr (Or.inl ⟨_, _, rfl, by simp⟩)
      · cases h
    · cases h; exact Or.inr (Or.inr ⟨_, rfl, rfl⟩)
    · cases h

theorem WFApi.nodup_eraseDups (l : List Nat) : l.eraseDups.Nodup := by
  generalize hn : l.length = n
  induction n using Nat.strongRecOn generalizing l with
  | _ n ih =>
    cases l with
    | nil => simp
    | cons a as =>
      rw [List.eraseDups_cons, List.nodup_cons]
      simp only [List.length_cons] at hn
      have hF := List.length_filter_le (fun b => !b == a) as
      refine ⟨?_, ih _ (by omega) _ rfl⟩
      rw [List.mem_eraseDups, List.mem_filter]
      rintro ⟨_, h⟩
      simp at h

theorem WFApi.lt_of_not_any_ge {n : Nat} {l : List Nat}
    (h : ¬ (l.any fun x => decide (x ≥ n)) = true) : ∀ k ∈ l, k < n := by
  intro k hk
  apply Nat.lt_of_not_le
  intro hge
  exact h (List.any_eq_true.2 ⟨k, hk, by simpa using hge⟩)

/-- what a successful `make_empty` did: repeats of `cov_pixels` are dropped (keeping the order)
    and every requested coverage pixel is in range -/
theorem WFApi.apiMakeEmpty_ok {covord spord : Nat} {kind : Kind} {sentinel : Option Val}
    {covPix : List Nat} {m : MapObj}
    (h : apiMakeEmpty covord spord kind sentinel covPix = .ok m) :
    covord ≤ spord ∧ m.covord = covord ∧ m.spord = spord ∧ m.kind = kind ∧
    m.st = makeEmpty (cfgOf covord spord) ⟨kind.blank m.sent, kind.valid m.sent⟩ covPix.eraseDups ∧
    (∀ k ∈ covPix.eraseDups, k < (cfgOf covord spord).ncov) ∧
    m.cache = none ∧ m.view = none := by
  unfold apiMakeEmpty at h
  simp only [bind, Except.bind, pure, Except.pure, throw, throwThe, MonadExceptOf.throw] at h
  replace h := guard_ok h
  have hle : covord ≤ spord := Nat.le_of_not_lt h.1
  replace h := h.2
  replace h := guard_ok h
  have hlt := lt_of_not_any_ge h.1
  replace h := h.2
  repeat' xpeel h
  all_goals (cases h; exact ⟨hle, rfl, rfl, rfl, rfl, hlt, rfl, rfl⟩)

/-- **`make_empty` yields a well-formed map, whatever `cov_pixels` is**: repeats are dropped and
    an out-of-range coverage pixel is refused (after the `fix:` commit; before it the layout held
    only for a duplicate-free in-range list) -/
theorem WF.apiMakeEmpty {covord spord : Nat} {kind : Kind} {sentinel : Option Val}
    {covPix : List Nat} {m : MapObj}
    (hr : HS.apiMakeEmpty covord spord kind sentinel covPix = .ok m) : m.WF := by
  obtain ⟨hle, h1, h2, h3, h4, hlt, _, _⟩ := apiMakeEmpty_ok hr
  refine ⟨by rw [h1, h2]; exact hle, ?_⟩
  unfold MapObj.c MapObj.vc
  rw [h4, h1, h2, h3]
  exact inv_makeEmpty' _ _ _ (nodup_eraseDups covPix) hlt

/-- the form every internal caller uses (`covPix = []`) -/
theorem WF.apiMakeEmpty_nil {covord spord : Nat} {kind : Kind} {sentinel : Option Val}
    {m : MapObj} (hr : HS.apiMakeEmpty covord spord kind sentinel [] = .ok m) : m.WF :=
  WF.apiMakeEmpty hr


/-! ### `update_values_pix` -/

section vcIndep
variable {V W : Type}

/-- with a non-empty storage `_reserve_cov_pix` fills from `sp[0]`, never from the nominal sentinel -/
theorem WFApi.reserve_vc_indep (c : Cfg) (vc vc' : VCfg V) (s : State V) (new : List Nat)
    (h : 0 < s.sp.size) : reserve c vc s new = reserve c vc' s new := by
  unfold reserve
  rw [rd_eq_getElem _ _ _ h, rd_eq_getElem _ _ _ h]

theorem WFApi.updateCore_vc_indep (c : Cfg) (vc vc' : VCfg V) (s : State V) (g : V → W → V)
    (L : List (Nat × W)) (na : Bool) (h : 0 < s.sp.size) :
    updateCore c vc s g L na = updateCore c vc' s g L na := by
  unfold updateCore
  simp only
  split
  · rfl
  · rw [reserve_vc_indep c vc vc' _ _ (by rw [scatter_size]; exact h)]

theorem WFApi.updateRanges_vc_indep (c : Cfg) (vc vc' : VCfg V) (s : State V) (h : V → V)
    (R : List (Nat × Nat)) (na : Bool) (hs : 0 < s.sp.size) :
    updateRanges c vc s h R na = updateRanges c vc' s h R na := by
  unfold updateRanges
  simp only
  rw [reserve_vc_indep c vc vc' s _ hs]

theorem Inv.sp_pos [DecidableEq V] {c : Cfg} {vc : VCfg V} {s : State V} (h : Inv c vc s) :
    0 < s.sp.size := Nat.lt_of_lt_of_le c.nfine_pos h.nfine_le_size

/-- `update_values_pix` keeps the layout at any overflow value -/
theorem WFApi.inv_updatePix_at [DecidableEq V] (c : Cfg) (vc vb : VCfg V) (s : State V)
    (pre : Option (V → V)) (f : V → W → V) (pv : List (Nat × W)) (na : Bool)
    (h : Inv c vb s) (hpv : ∀ qw ∈ pv, qw.1 < c.npix) :
    Inv c vb (updatePix c vc s pre f pv na) := by
  unfold updatePix
  rw [updateCore_vc_indep c vc vb s _ _ na h.sp_pos]
  apply inv_updateCore' c vb s _ _ na h
  intro qw hq
  obtain ⟨pw, hpw, he⟩ := stageList_fst_mem _ pv qw hq
  rw [← he]
  exact hpv pw hpw

theorem WFApi.inv_updateRanges_at [DecidableEq V] (c : Cfg) (vc vb : VCfg V) (s : State V) (h : V → V)
    (R : List (Nat × Nat)) (na : Bool) (hs : Inv c vb s)
    (hR : ∀ ab ∈ R, ab.1 ≤ ab.2 ∧ ab.2 ≤ c.npix) :
    Inv c vb (updateRanges c vc s h R na) := by
  rw [updateRanges_vc_indep c vc vb s h R na hs.sp_pos]
  exact (updateRanges_spec c vb s h R na hs hR).1

end vcIndep

theorem WFApi.pv_map_lt {n : Nat} {pix : List Nat} (v : Val)
    (h : ¬ (pix.any fun x => decide (x ≥ n)) = true) :
    ∀ qw ∈ pix.map (fun x => (x, v)), qw.1 < n := by
  intro qw hq
  obtain ⟨x, hx, rfl⟩ := List.mem_map.1 hq
  apply Nat.lt_of_not_le
  intro hge
  exact h (List.any_eq_true.2 ⟨x, hx, by simpa using hge⟩)

theorem WFApi.pv_zip_lt {n : Nat} {pix : List Nat} (vals : List Val)
    (h : ¬ (pix.any fun x => decide (x ≥ n)) = true) :
    ∀ qw ∈ pix.zip vals, qw.1 < n := by
  intro qw hq
  have hx : qw.1 ∈ pix := (List.of_mem_zip (a := qw.1) (b := qw.2) hq).1
  apply Nat.lt_of_not_le
  intro hge
  exact h (List.any_eq_true.2 ⟨qw.1, hx, by simpa using hge⟩)

theorem WFApi.pv_ite_lt {n : Nat} {pix : List Nat} (c : Prop) [Decidable c] (v : Val) (vals : List Val)
    (h : ¬ (pix.any fun x => decide (x ≥ n)) = true) :
    ∀ qw ∈ (if c then pix.map (fun x => (x, v)) else pix.zip vals), qw.1 < n := by
  split
  · exact pv_map_lt v h
  · exact pv_zip_lt vals h

/-- what a successful `update_values_pix` did -/
theorem WFApi.apiUpdate_ok {m : MapObj} {op : String} {pix : List Nat} {vals : Option (List Val)}
    {single : Bool} {rawUnique : Option Bool} {m' : MapObj}
    (h : apiUpdate m op pix vals single rawUnique = .ok m') :
    m'.covord = m.covord ∧ m'.spord = m.spord ∧ m'.kind = m.kind ∧ m'.sent = m.sent ∧
    m'.view = m.view ∧ m'.cache = none ∧
    (m'.st = m.st ∨
      ∃ (pre : Option (Val → Val)) (f : Val → Val → Val) (pv : List (Nat × Val)) (na : Bool),
        (∀ qw ∈ pv, qw.1 < m.npix) ∧ m'.st = updatePix m.c m.vc m.st pre f pv na) := by
  unfold apiUpdate at h
  simp only [bind, Except.bind, pure, Except.pure, throw, throwThe, MonadExceptOf.throw] at h
  repeat' xpeel h
  all_goals (cases h)
  all_goals try (exact ⟨rfl, rfl, rfl, rfl, rfl, rfl, Or.inl rfl⟩)
  all_goals refine ⟨rfl, rfl, rfl, rfl, rfl, rfl, Or.inr ⟨_, _, _, _, ?_, rfl⟩⟩
  all_goals first
    | exact pv_map_lt _ ‹_›
    | exact pv_zip_lt _ ‹_›
    | exact pv_ite_lt _ _ _ ‹_›

/-- `update_values_pix` keeps the layout at any overflow value (the sentinel for an owning
    map, the parent's blank field for a view) -/
theorem WFAt.apiUpdate {m : MapObj} {b : Val} {op : String} {pix : List Nat}
    {vals : Option (List Val)} {single : Bool} {rawUnique : Option Bool} {m' : MapObj}
    (h : m.WFAt b) (hr : apiUpdate m op pix vals single rawUnique = .ok m') : m'.WFAt b := by
  obtain ⟨h1, h2, h3, h4, _, _, h5⟩ := apiUpdate_ok hr
  have hvalid : m'.vc.valid = m.vc.valid := by unfold MapObj.vc; rw [h3, h4]
  refine ⟨by rw [h1, h2]; exact h.1, ?_⟩
  have hc : m'.c = m.c := by unfold MapObj.c; rw [h1, h2]
  rw [hc, hvalid]
  rcases h5 with h5 | ⟨pre, f, pv, na, hpv, h5⟩
  · rw [h5]; exact h.2
  · rw [h5]
    exact inv_updatePix_at m.c m.vc ⟨b, m.vc.valid⟩ m.st pre f pv na h.2 hpv

theorem WF.apiUpdate {m : MapObj} {op : String} {pix : List Nat}
    {vals : Option (List Val)} {single : Bool} {rawUnique : Option Bool} {m' : MapObj}
    (h : m.WF) (hr : apiUpdate m op pix vals single rawUnique = .ok m') : m'.WF := by
  obtain ⟨_, _, h3, h4, _⟩ := apiUpdate_ok hr
  have := WFAt.apiUpdate (b := m.kind.blank m.sent) h hr
  rw [MapObj.WF_iff_WFAt, h3, h4]
  exact this

/-! ### `update_values_pix` with pixel ranges -/

theorem WFApi.ranges_ok_of_not_any {n : Nat} {R : List (Nat × Nat)}
    (h : ¬ (R.any fun ab => decide (ab.2 > n) || decide (ab.1 > ab.2)) = true) :
    ∀ ab ∈ R, ab.1 ≤ ab.2 ∧ ab.2 ≤ n := by
  intro ab hab
  have : ¬ ((decide (ab.2 > n) || decide (ab.1 > ab.2)) = true) :=
    fun hc => h (List.any_eq_true.2 ⟨ab, hab, hc⟩)
  simp only [Bool.or_eq_true, decide_eq_true_eq, not_or, Nat.not_lt] at this
  exact ⟨this.2, this.1⟩

theorem WFApi.apiUpdateRanges_ok {m : MapObj} {op : String} {R : List (Nat × Nat)} {val : Option Val}
    {slicePath : Bool} {m' : MapObj}
    (h : apiUpdateRanges m op R val slicePath = .ok m') :
    m'.covord = m.covord ∧ m'.spord = m.spord ∧ m'.kind = m.kind ∧ m'.sent = m.sent ∧
    m'.view = m.view ∧ m'.cache = none ∧
    (m'.st = m.st ∨
      (∃ (pre : Option (Val → Val)) (f : Val → Val → Val) (pv : List (Nat × Val)) (na : Bool),
        (∀ qw ∈ pv, qw.1 < m.npix) ∧ m'.st = updatePix m.c m.vc m.st pre f pv na) ∨
      (∃ (R' : List (Nat × Nat)) (na : Bool), (∀ ab ∈ R', ab.1 ≤ ab.2 ∧ ab.2 ≤ m.npix) ∧
        ∃ st₁, (st₁ = m.st ∨ ∃ g, st₁ = updateRanges m.c m.vc m.st g R' na) ∧
          ∃ g, m'.st = updateRanges m.c m.vc st₁ g R' na)) := by
  unfold apiUpdateRanges at h
  simp only [bind, Except.bind, pure, Except.pure, throw, throwThe, MonadExceptOf.throw] at h
  repeat' xpeel h
  all_goals first
    | (cases h; exact ⟨rfl, rfl, rfl, rfl, rfl, rfl, Or.inl rfl⟩)
    | (cases h
       refine ⟨rfl, rfl, rfl, rfl, rfl, rfl,
         Or.inr (Or.inr ⟨_, _, ranges_ok_of_not_any ‹_›, _, ?_, _, rfl⟩)⟩
       split
       · exact Or.inr ⟨_, rfl⟩
       · exact Or.inl rfl)
    | exact (fun ⟨h1, h2, h3, h4, h5, h6, h7⟩ => ⟨h1, h2, h3, h4, h5, h6, h7.imp id Or.inl⟩)
        (apiUpdate_ok h)

theorem WFAt.apiUpdateRanges {m : MapObj} {b : Val} {op : String} {R : List (Nat × Nat)}
    {val : Option Val} {slicePath : Bool} {m' : MapObj}
    (h : m.WFAt b) (hr : apiUpdateRanges m op R val slicePath = .ok m') : m'.WFAt b := by
  obtain ⟨h1, h2, h3, h4, _, _, h5⟩ := apiUpdateRanges_ok hr
  have hvalid : m'.vc.valid = m.vc.valid := by unfold MapObj.vc; rw [h3, h4]
  refine ⟨by rw [h1, h2]; exact h.1, ?_⟩
  have hc : m'.c = m.c := by unfold MapObj.c; rw [h1, h2]
  rw [hc, hvalid]
  rcases h5 with h5 | ⟨pre, f, pv, na, hpv, h5⟩ | ⟨R', na, hR, st₁, hst₁, g, h5⟩
  · rw [h5]; exact h.2
  · rw [h5]
    exact inv_updatePix_at m.c m.vc ⟨b, m.vc.valid⟩ m.st pre f pv na h.2 hpv
  · rw [h5]
    have h1 : Inv m.c ⟨b, m.vc.valid⟩ st₁ := by
      rcases hst₁ with rfl | ⟨g₁, rfl⟩
      · exact h.2
      · exact inv_updateRanges_at m.c m.vc ⟨b, m.vc.valid⟩ m.st g₁ R' na h.2 hR
    exact inv_updateRanges_at m.c m.vc ⟨b, m.vc.valid⟩ st₁ g R' na h1 hR

theorem WF.apiUpdateRanges {m : MapObj} {op : String} {R : List (Nat × Nat)}
    {val : Option Val} {slicePath : Bool} {m' : MapObj}
    (h : m.WF) (hr : apiUpdateRanges m op R val slicePath = .ok m') : m'.WF := by
  obtain ⟨_, _, h3, h4, _⟩ := apiUpdateRanges_ok hr
  have := WFAt.apiUpdateRanges (b := m.kind.blank m.sent) h hr
  rw [MapObj.WF_iff_WFAt, h3, h4]
  exact this

/-! ### wide-mask bits -/

/-- `set_bits_pix` / `clear_bits_pix` are `update_values_pix` with `or` / `and` -/
theorem WFApi.apiSetBits_ok {m : MapObj} {pix bits : List Nat} {clear : Bool} {m' : MapObj}
    (h : apiSetBits m pix bits clear = .ok m') :
    ∃ op vals, apiUpdate m op pix vals true = .ok m' := by
  unfold apiSetBits at h
  simp only [bind, Except.bind, throw, throwThe, MonadExceptOf.throw] at h
  repeat' xpeel h
  all_goals exact ⟨_, _, h⟩

theorem WFAt.apiSetBits {m : MapObj} {b : Val} {pix bits : List Nat} {clear : Bool} {m' : MapObj}
    (h : m.WFAt b) (hr : apiSetBits m pix bits clear = .ok m') : m'.WFAt b := by
  obtain ⟨op, vals, hu⟩ := apiSetBits_ok hr
  exact WFAt.apiUpdate h hu

theorem WF.apiSetBits {m : MapObj} {pix bits : List Nat} {clear : Bool} {m' : MapObj}
    (h : m.WF) (hr : apiSetBits m pix bits clear = .ok m') : m'.WF := by
  obtain ⟨op, vals, hu⟩ := apiSetBits_ok hr
  exact WF.apiUpdate h hu

/-! ### the blank cell is invalid -/

/-- the blank cell of the map reads as "not valid" (true of every map `make_empty` can build;
    not implied by `WF`, which does not relate `kind` and `sent`) -/
def MapObj.BlankInvalid (m : MapObj) : Prop := m.vc.valid m.vc.sentinel = false

instance (m : MapObj) : Decidable m.BlankInvalid := by unfold MapObj.BlankInvalid; infer_instance

theorem Kind.valid_blank_plain (dt : DT) (s : Val) : (Kind.plain dt).valid s ((Kind.plain dt).blank s) = false := by
  simp [Kind.valid, Kind.blank]

theorem Kind.valid_blank_wide (n : Nat) (s : Val) : (Kind.wide n).valid s ((Kind.wide n).blank s) = false := by
  simp [Kind.valid, Kind.blank]

theorem MapObj.blankInvalid_of_plain {m : MapObj} {dt : DT} (h : m.kind = .plain dt) : m.BlankInvalid := by
  unfold MapObj.BlankInvalid MapObj.vc; rw [h]; exact Kind.valid_blank_plain dt m.sent

theorem MapObj.blankInvalid_of_wide {m : MapObj} {n : Nat} (h : m.kind = .wide n) : m.BlankInvalid := by
  unfold MapObj.BlankInvalid MapObj.vc; rw [h]; exact Kind.valid_blank_wide n m.sent

theorem MapObj.blankInvalid_packed_iff {m : MapObj} (h : m.kind = .packed) :
    m.BlankInvalid ↔ m.sent = .bool false := by
  unfold MapObj.BlankInvalid MapObj.vc; rw [h]
  show (Val.bool false != m.sent) = false ↔ _
  rw [bne_eq_false_iff_eq]
  exact eq_comm

/-- a map whose storage has been replaced (how the driver stores the result of the
    storage-returning operations) -/
theorem MapObj.WF_withSt (m : MapObj) (st : State Val) (x : Option Nat) :
    ({ m with st := st, cache := x } : MapObj).WF ↔ (m.covord ≤ m.spord ∧ Inv m.c m.vc st) := Iff.rfl

/-! ### scalar operators -/

theorem WFApi.apiScalarOp_ok {m : MapObj} {op : String} {k : Scalar} {st : State Val}
    (h : apiScalarOp m op k = .ok st) :
    (∃ f, st = scalarOp m.vc m.st f) ∧ ((∃ n, m.kind = .wide n) ∨ (∃ dt, m.kind = .plain dt)) := by
  unfold apiScalarOp at h
  simp only [bind, Except.bind, pure, Except.pure, throw, throwThe, MonadExceptOf.throw] at h
  repeat' xpeel h
  all_goals
    cases h
    exact ⟨⟨_, rfl⟩, by first | exact Or.inl ⟨_, ‹_›⟩ | exact Or.inr ⟨_, ‹_›⟩⟩

theorem WFApi.inv_scalarOp {V : Type} [DecidableEq V] (c : Cfg) (vc : VCfg V) (s : State V) (f : V → V)
    (h : Inv c vc s) (hv : vc.valid vc.sentinel = false) : Inv c vc (scalarOp vc s f) := by
  rw [scalarOp_eq]
  exact inv_mapCells c vc vc s _ h (by simp [hv])

/-- `_apply_operation(other, func)`: the map the driver stores (in place: `{m with st}`, copy:
    a new name) is well formed -/
theorem WF.apiScalarOp {m : MapObj} {op : String} {k : Scalar} {st : State Val} (x : Option Nat)
    (h : m.WF) (hr : apiScalarOp m op k = .ok st) : ({ m with st := st, cache := x } : MapObj).WF := by
  obtain ⟨⟨f, hf⟩, hk⟩ := apiScalarOp_ok hr
  have hv : m.BlankInvalid := by
    rcases hk with ⟨n, hn⟩ | ⟨dt, hd⟩
    · exact MapObj.blankInvalid_of_wide hn
    · exact MapObj.blankInvalid_of_plain hd
  rw [MapObj.WF_withSt, hf]
  exact ⟨h.1, inv_scalarOp m.c m.vc m.st f h.2 hv⟩

/-- at a foreign overflow value `b` the scalar operators keep the layout **provided** `b` reads
    as invalid for the map (otherwise the overflow cells are operated on: see `exForeignView`) -/
theorem WFAt.apiScalarOp_partial {m : MapObj} {b : Val} {op : String} {k : Scalar}
    {st : State Val} (x : Option Nat) (h : m.WFAt b) (hb : m.vc.valid b = false)
    (hr : HS.apiScalarOp m op k = .ok st) : ({ m with st := st, cache := x } : MapObj).WFAt b := by
  obtain ⟨⟨f, hf⟩, _⟩ := apiScalarOp_ok hr
  refine ⟨h.1, ?_⟩
  show Inv m.c ⟨b, m.vc.valid⟩ st
  rw [hf]
  exact inv_mapCells m.c ⟨b, m.vc.valid⟩ ⟨b, m.vc.valid⟩ m.st _ h.2 (by simp [hb])

/-! ### `apply_mask` -/

theorem WFApi.scatter_const_getElem? {V W : Type} (v : V) (upd : List (Nat × W)) (a : Array V) (j : Nat)
    (hj : a[j]? = some v) : (scatter (fun _ (_ : W) => v) a upd)[j]? = some v := by
  unfold scatter
  induction upd generalizing a with
  | nil => exact hj
  | cons iw rest ih =>
    rw [List.foldl_cons]
    apply ih
    rw [Array.getElem?_modify]
    split
    · rw [hj]; rfl
    · exact hj

/-- writing the overflow value anywhere keeps the layout -/
theorem WFApi.inv_scatter_sentinel {V W : Type} [DecidableEq V] (c : Cfg) (vc : VCfg V) (s : State V)
    (upd : List (Nat × W)) (h : Inv c vc s) :
    Inv c vc { s with sp := scatter (fun _ (_ : W) => vc.sentinel) s.sp upd } := by
  refine inv_of_cov_eq h rfl (scatter_size _ _ _) ?_
  intro i hi
  exact scatter_const_getElem? _ _ _ _ (h.2.2.1 i hi)

/-- `apply_mask` writes `sp[0]`, i.e. the overflow value `vb.sentinel`, whatever the nominal
    cell parameters `vc` are -/
theorem WFApi.inv_applyMask {V : Type} [DecidableEq V] (c : Cfg) (vc vb : VCfg V) (s s' : State V)
    (bad : Nat → Bool) (h : Inv c vb s) (hr : applyMask c vc s bad = some s') : Inv c vb s' := by
  unfold applyMask at hr
  cases hvp : validPixels c vc s with
  | none => rw [hvp] at hr; cases hr
  | some vp =>
    have h0 : rd s.sp 0 vc.sentinel = vb.sentinel := by
      rw [rd_eq_getElem _ _ _ h.sp_pos, ← rd_eq_getElem _ _ vb.sentinel h.sp_pos]
      exact h.sp_zero
    rw [hvp, Option.map_some, h0] at hr
    cases hr
    exact inv_scatter_sentinel c vb s _ h

theorem WFApi.apiApplyMask_ok {m mask : MapObj} {maskBits : Option Int} {bitArr : Option (List Nat)}
    {st : State Val} (h : apiApplyMask m mask maskBits bitArr = .ok st) :
    ∃ bad, applyMask m.c m.vc m.st bad = some st := by
  unfold apiApplyMask at h
  simp only [bind, Except.bind, pure, Except.pure, throw, throwThe, MonadExceptOf.throw] at h
  repeat' xpeel h
  all_goals
    cases h
    exact ⟨_, ‹_›⟩

/-- `apply_mask`: the stored result is well formed (nothing is required of the mask map) -/
theorem WF.apiApplyMask {m mask : MapObj} {maskBits : Option Int} {bitArr : Option (List Nat)}
    {st : State Val} (x : Option Nat) (h : m.WF)
    (hr : apiApplyMask m mask maskBits bitArr = .ok st) :
    ({ m with st := st, cache := x } : MapObj).WF := by
  obtain ⟨bad, hb⟩ := apiApplyMask_ok hr
  rw [MapObj.WF_withSt]
  exact ⟨h.1, inv_applyMask m.c m.vc m.vc m.st st bad h.2 hb⟩

/-- … at any overflow value (a view: the parent's blank field) -/
theorem WFAt.apiApplyMask {m mask : MapObj} {b : Val} {maskBits : Option Int}
    {bitArr : Option (List Nat)} {st : State Val} (x : Option Nat) (h : m.WFAt b)
    (hr : HS.apiApplyMask m mask maskBits bitArr = .ok st) :
    ({ m with st := st, cache := x } : MapObj).WFAt b := by
  obtain ⟨bad, hb⟩ := apiApplyMask_ok hr
  exact ⟨h.1, inv_applyMask m.c m.vc ⟨b, m.vc.valid⟩ m.st st bad h.2 hb⟩

/-! ### `astype` -/

theorem WFApi.apiAstype_ok {m : MapObj} {dst : DT} {sentinel : Option Val} {m' : MapObj}
    (h : apiAstype m dst sentinel = .ok m') :
    ((∃ dt, m.kind = .plain dt) ∨ m.kind = .packed) ∧
    m'.covord = m.covord ∧ m'.spord = m.spord ∧ m'.kind = .plain dst ∧
    checkSentinel dst sentinel = .ok m'.sent ∧ m'.view = m.view ∧ m'.cache = none ∧
    ∃ conv, m'.st = astypeMap m.vc m.st conv m'.sent := by
  unfold apiAstype at h
  simp only [bind, Except.bind, pure, Except.pure, throw, throwThe, MonadExceptOf.throw] at h
  repeat' xpeel h
  all_goals
    cases h
    exact ⟨by first | exact Or.inl ⟨_, ‹_›⟩ | exact Or.inr ‹_›, rfl, rfl, rfl, ‹_›, rfl, rfl, _, rfl⟩

theorem WFApi.inv_astypeMap {V V' : Type} [DecidableEq V] [DecidableEq V'] (c : Cfg) (vc : VCfg V)
    (vc' : VCfg V') (s : State V) (conv : V → V') (h : Inv c vc s)
    (hv : vc.valid vc.sentinel = false) : Inv c vc' (astypeMap vc s conv vc'.sentinel) := by
  rw [astypeMap_eq]
  exact inv_mapCells c vc vc' s _ h (by simp [hv])

/-- `astype` yields a well-formed map **provided** the source's blank cell is invalid (automatic
    for a plain source; for a bit-packed source it says `sent = False` — see the
    counterexample below) -/
theorem WF.apiAstype_partial {m : MapObj} {dst : DT} {sentinel : Option Val} {m' : MapObj}
    (h : m.WF) (hv : m.BlankInvalid) (hr : apiAstype m dst sentinel = .ok m') : m'.WF := by
  obtain ⟨_, h1, h2, h3, _, _, _, conv, h5⟩ := apiAstype_ok hr
  refine ⟨by rw [h1, h2]; exact h.1, ?_⟩
  have hc : m'.c = m.c := by unfold MapObj.c; rw [h1, h2]
  have hs : m'.vc.sentinel = m'.sent := by unfold MapObj.vc; rw [h3]; rfl
  rw [hc, h5, ← hs]
  exact inv_astypeMap m.c m.vc m'.vc m.st conv h.2 hv

/-- no hypothesis is needed for a plain source -/
theorem WF.apiAstype_plain {m : MapObj} {dt dst : DT} {sentinel : Option Val} {m' : MapObj}
    (h : m.WF) (hk : m.kind = .plain dt) (hr : apiAstype m dst sentinel = .ok m') : m'.WF :=
  WF.apiAstype_partial h (MapObj.blankInvalid_of_plain hk) hr

/-! ### `as_bit_packed_map` -/

theorem WFApi.asBitPacked_overflow {V : Type} (c : Cfg) (vc : VCfg V) (s : State V) (i : Nat)
    (hi : i < c.nfine) : (asBitPacked c vc s).sp[i]? = some false := by
  rw [asBitPacked_sp, foldl_setIdx_get]
  have hnot : i ∉ packedCells c s := by
    unfold packedCells
    rw [List.mem_flatMap]
    rintro ⟨k, hk, hm⟩
    obtain ⟨j, _, rfl⟩ := List.mem_map.1 hm
    have := (covered_eq_true_iff c s k).1 (List.mem_filter.1 hk).2
    omega
  rw [if_neg (fun h => hnot h.1), Array.getElem?_replicate, if_pos]
  exact Nat.lt_of_lt_of_le hi (le_succ_mul _ _)

theorem WFApi.inv_asBitPacked {V : Type} [DecidableEq V] (c : Cfg) (vc : VCfg V) (vb : VCfg Bool)
    (s : State V) (h : Inv c vc s) (hb : vb.sentinel = false) : Inv c vb (asBitPacked c vc s) := by
  refine inv_of_cov_eq (s' := asBitPacked c vc s) h rfl h.asBitPacked_size ?_
  intro i hi
  rw [hb]
  exact asBitPacked_overflow c vc s i hi

theorem WFApi.apiAsBitPacked_ok {m m' : MapObj} (h : apiAsBitPacked m = .ok m') :
    m'.covord = m.covord ∧ m'.spord = m.spord ∧ m'.view = m.view ∧ m'.cache = none ∧
    ((m.kind = .packed ∧ m'.kind = m.kind ∧ m'.sent = m.sent ∧ m'.st = m.st) ∨
     (m'.kind = .packed ∧ m'.sent = .bool false ∧
        m'.st = mapCells (asBitPacked m.c m.vc m.st) Val.bool)) := by
  unfold apiAsBitPacked at h
  simp only [bind, Except.bind, pure, Except.pure, throw, throwThe, MonadExceptOf.throw] at h
  repeat' xpeel h
  · cases h
    refine ⟨rfl, rfl, rfl, rfl, Or.inl ⟨?_, rfl, rfl, rfl⟩⟩
    exact eq_of_beq ‹_›
  · cases h
    exact ⟨rfl, rfl, rfl, rfl, Or.inr ⟨rfl, rfl, rfl⟩⟩

theorem WF.apiAsBitPacked {m m' : MapObj} (h : m.WF) (hr : apiAsBitPacked m = .ok m') : m'.WF := by
  obtain ⟨h1, h2, _, _, h3⟩ := apiAsBitPacked_ok hr
  rcases h3 with ⟨_, h3, h4, h5⟩ | ⟨h3, h4, h5⟩
  · exact (MapObj.WF_congr h1 h2 h3 h4 h5).2 h
  · refine ⟨by rw [h1, h2]; exact h.1, ?_⟩
    have hc : m'.c = m.c := by unfold MapObj.c; rw [h1, h2]
    rw [hc, h5]
    refine inv_mapCells m.c (⟨false, fun b => b⟩ : VCfg Bool) m'.vc _ Val.bool
      (inv_asBitPacked m.c m.vc _ m.st h.2 rfl) ?_
    unfold MapObj.vc
    rw [h3]
    rfl

/-! ### `get_single(copy=True)` -/

theorem WFApi.singleSentinel_ok {m : MapObj} {i : Nat} {sentinel : Option Val} {dt : DT} {s : Val}
    (h : singleSentinel m i sentinel = .ok (dt, s)) :
    ∃ fs pr, m.kind = .recd fs pr ∧ fs[i]? = some dt ∧
      ((i = pr ∧ s = m.sent) ∨ (i ≠ pr ∧ checkSentinel dt sentinel = .ok s)) := by
  unfold singleSentinel at h
  simp only [bind, Except.bind, pure, Except.pure, throw, throwThe, MonadExceptOf.throw] at h
  repeat' xpeel h
  · cases h
    exact ⟨_, _, ‹_›, ‹_›, Or.inl ⟨eq_of_beq ‹_›, rfl⟩⟩
  · cases h
    exact ⟨_, _, ‹_›, ‹_›, Or.inr ⟨by simpa using ‹¬ (i == _) = true›, ‹_›⟩⟩

theorem WFApi.apiGetSingleCopy_ok {m : MapObj} {i : Nat} {sentinel : Option Val} {m' : MapObj}
    (h : apiGetSingleCopy m i sentinel = .ok m') :
    ∃ dt, singleSentinel m i sentinel = .ok (dt, m'.sent) ∧
      m'.covord = m.covord ∧ m'.spord = m.spord ∧ m'.kind = .plain dt ∧
      m'.st = astypeMap m.vc m.st (recField i) m'.sent ∧ m'.cache = none ∧ m'.view = none := by
  unfold apiGetSingleCopy at h
  simp only [bind, Except.bind, pure, Except.pure] at h
  repeat' xpeel h
  cases h
  exact ⟨_, ‹_›, rfl, rfl, rfl, rfl, rfl, rfl⟩

/-- `get_single(copy=True)` yields a well-formed map **provided** the record map's blank cell
    is invalid (for a record map: the primary index is inside the field list — see the
    counterexample below) -/
theorem WF.apiGetSingleCopy_partial {m : MapObj} {i : Nat} {sentinel : Option Val} {m' : MapObj}
    (h : m.WF) (hv : m.BlankInvalid) (hr : apiGetSingleCopy m i sentinel = .ok m') : m'.WF := by
  obtain ⟨dt, _, h1, h2, h3, h5, _, _⟩ := apiGetSingleCopy_ok hr
  refine ⟨by rw [h1, h2]; exact h.1, ?_⟩
  have hc : m'.c = m.c := by unfold MapObj.c; rw [h1, h2]
  have hs : m'.vc.sentinel = m'.sent := by unfold MapObj.vc; rw [h3]; rfl
  rw [hc, h5, ← hs]
  exact inv_astypeMap m.c m.vc m'.vc m.st _ h.2 hv

/-! ### boolean algebra -/

/-- the blank cell is a boolean (true of every boolean map `make_empty` can build; not
    implied by `WF`: a `plain bool` object may carry any `sent`) -/
def MapObj.BoolBlank (m : MapObj) : Prop := ∃ x, m.vc.sentinel = .bool x

/-- the projection used by `toBoolState` -/
def WFApi.toB (v : Val) : Bool := match v with | .bool b => b | _ => false

theorem WFApi.toBoolState_eq (s : State Val) : toBoolState s = mapCells s toB := rfl
theorem WFApi.ofBoolState_eq (s : State Bool) : ofBoolState s = mapCells s Val.bool := rfl

theorem WFApi.toB_blank_false {m : MapObj} (hk : m.kind.isBool = true) (hs : m.sent ≠ .bool true) :
    toB m.vc.sentinel = false := by
  unfold MapObj.vc
  cases hkind : m.kind with
  | plain dt =>
    show toB m.sent = false
    cases hsent : m.sent with
    | bool b =>
      cases b with
      | false => rfl
      | true => exact absurd hsent hs
    | _ => rfl
  | packed => rfl
  | wide n => rw [hkind] at hk; cases hk
  | recd fs pr => rw [hkind] at hk; cases hk

theorem WFApi.apiBoolOp_ok {a : MapObj} {op : String} {rhs : BoolRhs} {inPlace : Bool} {st : State Val}
    (h : apiBoolOp a op rhs inPlace = .ok st) :
    a.kind.isBool = true ∧
    ((∃ k, st = ofBoolState (boolConst a.c (toBoolState a.st) (boolFn op) k)) ∨
     (∃ b, rhs = .map b ∧ b.kind.isBool = true ∧ a.spord = b.spord ∧ a.covord = b.covord ∧
        a.sent ≠ .bool true ∧ b.sent ≠ .bool true ∧
        (st = ofBoolState (boolMapInPlace a.c ⟨false, fun b => b⟩ (toBoolState a.st)
                (toBoolState b.st) (boolFn op)) ∨
         st = ofBoolState (boolMapCopy a.c (toBoolState a.st) (toBoolState b.st) (boolFn op))))) := by
  unfold apiBoolOp at h
  simp only [bind, Except.bind, pure, Except.pure, throw, throwThe, MonadExceptOf.throw] at h
  repeat' xpeel h
  · cases h
    exact ⟨by simpa using ‹¬ (!a.kind.isBool) = true›, Or.inl ⟨_, rfl⟩⟩
  all_goals
    cases h
    have hs := ‹¬ (a.sent == Val.bool true || _ == Val.bool true) = true›
    simp only [Bool.or_eq_true, beq_iff_eq, not_or] at hs
    refine ⟨by simpa using ‹¬ (!a.kind.isBool) = true›, Or.inr ⟨_, rfl, ?_, ?_, ?_,
      hs.1, hs.2, ?_⟩⟩
    · simpa using ‹¬ (!(MapObj.kind _).isBool) = true›
    · simpa using ‹¬ (a.spord != _) = true›
    · simpa using ‹¬ (a.covord != _) = true›
    · first | exact Or.inl rfl | exact Or.inr rfl

theorem Inv.toBoolState {c : Cfg} {vc : VCfg Val} {s : State Val} (h : Inv c vc s)
    (vb : VCfg Bool) (hb : vb.sentinel = toB vc.sentinel) : Inv c vb (toBoolState s) :=
  inv_mapCells c vc vb s toB h hb.symm

theorem Inv.ofBoolState {c : Cfg} {vb : VCfg Bool} {s : State Bool} (h : Inv c vb s)
    (vc : VCfg Val) (hb : vc.sentinel = .bool vb.sentinel) : Inv c vc (ofBoolState s) :=
  inv_mapCells c vb vc s Val.bool h hb.symm

/-- `_apply_boolean_map_operation`: the stored result is well formed **provided** the left
    operand's blank cell is a boolean (see the counterexample below); the right operand map, if
    any, must be well formed -/
theorem WF.apiBoolOp_partial {a : MapObj} {op : String} {rhs : BoolRhs} {inPlace : Bool}
    {st : State Val} (x : Option Nat) (ha : a.WF) (hbb : a.BoolBlank)
    (hrhs : ∀ b, rhs = .map b → b.WF) (hr : apiBoolOp a op rhs inPlace = .ok st) :
    ({ a with st := st, cache := x } : MapObj).WF := by
  obtain ⟨hk, hcase⟩ := apiBoolOp_ok hr
  obtain ⟨xb, hxb⟩ := hbb
  rw [MapObj.WF_withSt]
  refine ⟨ha.1, ?_⟩
  rcases hcase with ⟨k, rfl⟩ | ⟨b, hb, hkb, hsp, hco, hsa, hsb, hst⟩
  · have h1 : Inv a.c (⟨xb, fun b => b⟩ : VCfg Bool) (toBoolState a.st) :=
      ha.2.toBoolState _ (by rw [hxb]; rfl)
    rw [boolConst_eq_mapGuard]
    exact (mapGuard_spec a.c _ _ _ h1).1.ofBoolState _ hxb
  · have hbw := hrhs b hb
    have hcb : b.c = a.c := by unfold MapObj.c; rw [hsp, hco]
    have hxf : xb = false := by
      have := toB_blank_false hk hsa
      rw [hxb] at this
      exact this
    subst hxf
    have h1 : Inv a.c (⟨false, fun b => b⟩ : VCfg Bool) (toBoolState a.st) :=
      ha.2.toBoolState _ (by rw [hxb]; rfl)
    have h2 : Inv a.c (⟨false, fun b => b⟩ : VCfg Bool) (toBoolState b.st) := by
      rw [← hcb]
      exact hbw.2.toBoolState _ (toB_blank_false hkb hsb).symm
    rcases hst with rfl | rfl
    · exact (boolMapInPlace_spec' a.c _ rfl _ _ _ h1 h2).1.ofBoolState _ hxb
    · exact (boolMapCopy_spec' a.c _ rfl _ _ _ h1 h2).1.ofBoolState _ hxb

theorem WFApi.apiInvert_ok {a : MapObj} {st : State Val} (h : apiInvert a = .ok st) :
    a.kind.isBool = true ∧ st = ofBoolState (invertMap a.c (toBoolState a.st)) := by
  unfold apiInvert at h
  simp only [bind, Except.bind, pure, Except.pure, throw, throwThe, MonadExceptOf.throw] at h
  repeat' xpeel h
  cases h
  exact ⟨by simpa using ‹¬ (!a.kind.isBool) = true›, rfl⟩

/-- `invert` / `~map`: same proviso as the boolean operations -/
theorem WF.apiInvert_partial {a : MapObj} {st : State Val} (x : Option Nat) (ha : a.WF)
    (hbb : a.BoolBlank) (hr : apiInvert a = .ok st) :
    ({ a with st := st, cache := x } : MapObj).WF := by
  obtain ⟨_, rfl⟩ := apiInvert_ok hr
  obtain ⟨xb, hxb⟩ := hbb
  rw [MapObj.WF_withSt]
  refine ⟨ha.1, ?_⟩
  have h1 : Inv a.c (⟨xb, fun b => b⟩ : VCfg Bool) (toBoolState a.st) :=
    ha.2.toBoolState _ (by rw [hxb]; rfl)
  rw [invertMap_eq_mapGuard]
  exact (mapGuard_spec a.c _ _ _ h1).1.ofBoolState _ hxb

/-! ### union / intersection operations -/

section multi
variable {V : Type}

theorem WFApi.multiStep_size {c : Cfg} {vc : VCfg V} {covOut : Array Int} {f : V → V → V} {first : Bool}
    {acc acc' : MultiAcc V} {m : State V}
    (h : multiStep c vc covOut f first acc m = some acc') : acc'.sp.size = acc.sp.size := by
  unfold multiStep at h
  cases hvp : validPixels c vc m with
  | none => rw [hvp] at h; cases h
  | some vp =>
    rw [hvp, Option.map_some] at h
    cases h
    clear hvp
    induction vp generalizing acc with
    | nil => rfl
    | cons p ps ih =>
      rw [List.foldl_cons, ih]
      exact Array.size_modify

theorem WFApi.multiLoop_size {c : Cfg} {vc : VCfg V} {covOut : Array Int} {f : V → V → V}
    {fillFirst : Bool} (maps : List (State V)) {i : Nat} {acc acc' : MultiAcc V}
    (h : multiLoop c vc covOut f fillFirst maps i acc = some acc') : acc'.sp.size = acc.sp.size := by
  induction maps generalizing i acc with
  | nil => unfold multiLoop at h; cases h; rfl
  | cons m rest ih =>
    unfold multiLoop at h
    split at h
    · cases h
    · rename_i acc1 h1
      rw [ih h, multiStep_size h1]

/-- the result of `_apply_operation` obeys the layout whatever the inputs are: its index is
    built from the combined coverage, its overflow block is reset at the end -/
theorem WFApi.inv_multiOp [DecidableEq V] {c : Cfg} {vc : VCfg V} {maps : List (State V)}
    {f : V → V → V} {filler : V} {union fillFirst : Bool} {st : State V}
    (h : multiOp c vc maps f filler union fillFirst = some st) : Inv c vc st := by
  rw [multiOp_eq] at h
  split at h
  · cases h
    exact inv_makeEmpty' c vc [] List.nodup_nil (by simp)
  · have hnd := nodup_combCov c maps union
    have hlt : ∀ k ∈ combCov c maps union, k < c.ncov :=
      fun k hk => ((mem_combCov c maps union k).1 hk).1
    generalize combCov c maps union = P at *
    have hE : Inv c vc (makeEmpty c vc P) := inv_makeEmpty' c vc P hnd hlt
    have hEsz : (makeEmpty c vc P).sp.size = (P.length + 1) * c.nfine := by simp [makeEmpty]
    cases hl : multiLoop c vc (makeEmpty c vc P).cov f fillFirst maps 0
        ⟨Array.replicate ((P.length + 1) * c.nfine) filler,
         Array.replicate ((P.length + 1) * c.nfine) 0⟩ with
    | none => rw [hl] at h; cases h
    | some acc =>
      rw [hl, Option.map_some] at h
      cases h
      have hsz : acc.sp.size = (makeEmpty c vc P).sp.size := by
        rw [multiLoop_size maps hl, hEsz]; simp
      refine inv_of_cov_eq hE rfl (by rw [multiFinish_size, hsz]) ?_
      intro i hi
      have hi' : i < acc.sp.size := by rw [hsz]; exact Nat.lt_of_lt_of_le hi hE.nfine_le_size
      rw [multiFinish_getElem? c vc union _ acc i hi', if_pos hi]

end multi

/-- the output kind of `_apply_operation` -/
def multiKindOut (k : Kind) (dtypeOut : String) : Kind :=
  match k, parseDTCode dtypeOut with
  | _, some d => .plain d
  | .packed, none => .plain .bool
  | k, none => k

/-- the kind of the EMPTY result of `_apply_operation` (empty combined coverage): the requested
    output type if there is one, else the first map's kind -/
def multiKindE (k : Kind) (dtypeOut : String) : Kind :=
  match parseDTCode dtypeOut with
  | some d => .plain d
  | none => k

theorem WFApi.apiMultiOp_ok {row : OpRow} {maps : List MapObj} {m' : MapObj}
    (h : apiMultiOp row maps = .ok m') :
    ∃ first rest, maps = first :: rest ∧ m'.covord = first.covord ∧ m'.spord = first.spord ∧
      m'.sent = first.sent ∧ m'.cache = none ∧
      ((m'.kind = multiKindE first.kind row.dtypeOut ∧
        m'.st = makeEmpty first.c ⟨m'.kind.blank first.sent, m'.kind.valid first.sent⟩ [] ∧
        m'.view = first.view) ∨
       (m'.kind = multiKindOut first.kind row.dtypeOut ∧ m'.view = none ∧
        ∃ (ms : List (State Val)) (f : Val → Val → Val) (filler : Val),
          multiOp first.c ⟨m'.kind.blank first.sent, m'.kind.valid first.sent⟩ ms f filler
            row.union row.fillFirst = some m'.st)) := by
  unfold apiMultiOp at h
  simp only [bind, Except.bind, pure, Except.pure, throw, throwThe, MonadExceptOf.throw] at h
  repeat' xpeel h
  · cases h
    exact ⟨_, _, rfl, rfl, rfl, rfl, rfl, Or.inl ⟨rfl, rfl, rfl⟩⟩
  · cases h
    exact ⟨_, _, rfl, rfl, rfl, rfl, rfl, Or.inr ⟨rfl, rfl, _, _, _, ‹_›⟩⟩

/-- `_apply_operation` (sum / product / or / and / xor / min / max / ufunc, union and
    intersection): the result is well formed as soon as the first map's orders are
    consistent; nothing is required of the other inputs' arrays -/
theorem WF.apiMultiOp' {row : OpRow} {maps : List MapObj} {m' : MapObj}
    (h : ∀ m ∈ maps, m.covord ≤ m.spord) (hr : apiMultiOp row maps = .ok m') : m'.WF := by
  obtain ⟨first, rest, rfl, h1, h2, h3, _, hcase⟩ := apiMultiOp_ok hr
  have hf := h first (List.mem_cons_self ..)
  refine ⟨by rw [h1, h2]; exact hf, ?_⟩
  have hc : m'.c = first.c := by unfold MapObj.c; rw [h1, h2]
  rw [hc]
  rcases hcase with ⟨_, hst, _⟩ | ⟨_, _, ms, f, filler, hm⟩
  · have hvc : m'.vc = ⟨m'.kind.blank first.sent, m'.kind.valid first.sent⟩ := by
      unfold MapObj.vc; rw [h3]
    rw [hvc, hst]
    exact inv_makeEmpty' _ _ [] List.nodup_nil (by simp)
  · have hvc : m'.vc = ⟨m'.kind.blank first.sent, m'.kind.valid first.sent⟩ := by
      unfold MapObj.vc; rw [h3]
    rw [hvc]
    exact inv_multiOp hm

theorem WF.apiMultiOp {row : OpRow} {maps : List MapObj} {m' : MapObj}
    (h : ∀ m ∈ maps, m.WF) (hr : apiMultiOp row maps = .ok m') : m'.WF :=
  WF.apiMultiOp' (fun m hm => (h m hm).1) hr

/-! ### `get_single(copy=False)`: writes through a record-field view -/

theorem WFApi.recSetField_recField (i : Nat) (v : Val) : recSetField i v (recField i v) = v := by
  cases v with
  | recd l =>
    show Val.recd (l.set i (l.getD i (0, 0))) = Val.recd l
    congr 1
    by_cases hi : i < l.length
    · rw [List.getD_eq_getElem?_getD, List.getElem?_eq_getElem hi, Option.getD_some]
      exact List.set_getElem_self hi
    · exact List.set_eq_of_length_le (Nat.le_of_not_lt hi)
  | _ => rfl

theorem WFApi.materializeView_ok {p : MapObj} {pn : String} {i : Nat} {sent : Val} {cache : Option Nat}
    {v : MapObj} (h : materializeView p pn i sent cache = .ok v) :
    ∃ dt s, singleSentinel p i none = .ok (dt, s) ∧
      v.covord = p.covord ∧ v.spord = p.spord ∧ v.kind = .plain dt ∧ v.sent = sent ∧
      v.st = mapCells p.st (recField i) ∧ v.cache = cache ∧ v.view = some (pn, i) := by
  unfold materializeView at h
  simp only [bind, Except.bind, pure, Except.pure] at h
  repeat' xpeel h
  cases h
  exact ⟨_, _, ‹_›, rfl, rfl, rfl, rfl, rfl, rfl, rfl⟩

/-- the overflow value of the view of field `i` of `p`: the field of `p`'s blank record -/
def viewBlank (p : MapObj) (i : Nat) : Val := recField i p.vc.sentinel

/-- a materialised view obeys every layout clause with the parent's blank field as overflow
    value (its own sentinel may differ), shares the parent's index, and has the parent's size -/
theorem WFAt.materializeView {p : MapObj} {pn : String} {i : Nat} {sent : Val}
    {cache : Option Nat} {v : MapObj} (hp : p.WF)
    (h : materializeView p pn i sent cache = .ok v) :
    v.WFAt (viewBlank p i) ∧ v.covord = p.covord ∧ v.spord = p.spord ∧
      v.st.cov = p.st.cov ∧ v.st.sp.size = p.st.sp.size := by
  obtain ⟨dt, s, _, h1, h2, _, _, h5, _, _⟩ := materializeView_ok h
  have hc : v.c = p.c := by unfold MapObj.c; rw [h1, h2]
  refine ⟨⟨by rw [h1, h2]; exact hp.1, ?_⟩, h1, h2, by rw [h5]; rfl, by rw [h5]; simp [mapCells]⟩
  rw [hc, h5]
  exact inv_mapCells p.c p.vc _ p.st (recField i) hp.2 rfl

/-- the view is well formed in the ordinary sense exactly when its sentinel is the parent's
    blank field -/
theorem WF.materializeView_of_sent {p : MapObj} {pn : String} {i : Nat} {sent : Val}
    {cache : Option Nat} {v : MapObj} (hp : p.WF)
    (h : materializeView p pn i sent cache = .ok v) (hs : sent = viewBlank p i) : v.WF := by
  obtain ⟨dt, s, _, _, _, h3, h4, _⟩ := materializeView_ok h
  have := (WFAt.materializeView hp h).1
  rw [MapObj.WF_iff_WFAt, h3, h4, hs]
  exact this

/-- writing back a storage whose overflow cells leave the parent's blank record unchanged -/
theorem WF.writeBackView_of_overflow {p v : MapObj} {i : Nat} (hp : p.WF)
    (hov : ∀ j, j < p.c.nfine →
      recSetField i p.vc.sentinel (rd v.st.sp j (.num 0 0)) = p.vc.sentinel) :
    (writeBackView p i v).WF :=
  ⟨hp.1, inv_mapIdx p.c p.vc p.st _ hp.2 hov⟩

/-- writing back a storage that has the view layout -/
theorem WF.writeBackView {p v : MapObj} {i : Nat} (hp : p.WF) (hv : v.WFAt (viewBlank p i))
    (h1 : v.covord = p.covord) (h2 : v.spord = p.spord) : (writeBackView p i v).WF := by
  apply WF.writeBackView_of_overflow hp
  intro j hj
  have hc : v.c = p.c := by unfold MapObj.c; rw [h1, h2]
  have : rd v.st.sp j (.num 0 0) = viewBlank p i := by
    unfold rd
    rw [hv.2.2.2.1 j (by rw [hc]; exact hj)]
    rfl
  rw [this]
  exact recSetField_recField i _

/-- writing back a well-formed map whose blank cell is the parent's blank field (a view with
    the matching sentinel, after any operation that keeps it well formed) -/
theorem WF.writeBackView_of_WF {p v : MapObj} {i : Nat} (hp : p.WF) (hv : v.WF)
    (hs : v.vc.sentinel = viewBlank p i) (h1 : v.covord = p.covord) (h2 : v.spord = p.spord) :
    (HS.writeBackView p i v).WF := by
  refine WF.writeBackView hp ?_ h1 h2
  rw [← hs]
  exact hv

/-- **the view pair**: materialise a view of a well-formed record map, update through it, write
    it back — the parent is well formed again (whatever the view's sentinel) -/
theorem WF.view_apiUpdate {p : MapObj} {pn : String} {i : Nat} {sent : Val} {cache : Option Nat}
    {v v' : MapObj} {op : String} {pix : List Nat} {vals : Option (List Val)} {single : Bool}
    {rawUnique : Option Bool} (hp : p.WF)
    (hm : HS.materializeView p pn i sent cache = .ok v)
    (hu : HS.apiUpdate v op pix vals single rawUnique = .ok v') : (HS.writeBackView p i v').WF := by
  obtain ⟨hv, h1, h2, _, _⟩ := WFAt.materializeView hp hm
  obtain ⟨h1', h2', _⟩ := apiUpdate_ok hu
  exact WF.writeBackView hp (WFAt.apiUpdate hv hu) (h1'.trans h1) (h2'.trans h2)

theorem WF.view_apiUpdateRanges {p : MapObj} {pn : String} {i : Nat} {sent : Val}
    {cache : Option Nat} {v v' : MapObj} {op : String} {R : List (Nat × Nat)} {val : Option Val}
    {slicePath : Bool} (hp : p.WF)
    (hm : HS.materializeView p pn i sent cache = .ok v)
    (hu : HS.apiUpdateRanges v op R val slicePath = .ok v') : (HS.writeBackView p i v').WF := by
  obtain ⟨hv, h1, h2, _, _⟩ := WFAt.materializeView hp hm
  obtain ⟨h1', h2', _⟩ := apiUpdateRanges_ok hu
  exact WF.writeBackView hp (WFAt.apiUpdateRanges hv hu) (h1'.trans h1) (h2'.trans h2)

/-- the failure branch of the driver (`put n {v with cache := none}`) writes the unchanged
    view back: the parent stays well formed -/
theorem WF.view_unchanged {p : MapObj} {pn : String} {i : Nat} {sent : Val} {cache : Option Nat}
    {v : MapObj} (x : Option Nat) (hp : p.WF) (hm : HS.materializeView p pn i sent cache = .ok v) :
    (HS.writeBackView p i { v with cache := x }).WF := by
  obtain ⟨hv, h1, h2, _, _⟩ := WFAt.materializeView hp hm
  exact WF.writeBackView hp hv h1 h2

/-! ### counterexamples: the provisos of the `_partial` theorems are needed -/

/-- the call succeeds and `P` holds of its result -/
def WFApi.okAnd {α : Type} (r : Except Err α) (P : α → Bool) : Bool :=
  match r with
  | .ok m => P m
  | .error _ => false

theorem WFApi.okAnd_iff {α : Type} (r : Except Err α) (P : α → Bool) :
    okAnd r P = true ↔ ∃ m, r = .ok m ∧ P m = true := by
  cases r with
  | ok m => exact ⟨fun h => ⟨m, rfl, h⟩, fun ⟨m', h1, h2⟩ => (by cases h1; exact h2)⟩
  | error e => exact ⟨fun h => (by cases h), fun ⟨m', h1, _⟩ => (by cases h1)⟩

/-- `make_empty(cov_pixels=[3, 0, 3])`: the repeat is dropped, two blocks are allocated in the
    order given, the map is well formed; `cov_pixels=[12]` with 12 coverage pixels is refused -/
example : okAnd (apiMakeEmpty 0 0 (.plain (.int 32 true)) none [3, 0, 3])
      (fun m => decide m.WF && m.st.sp.size == 3 && decide (m.st.cov.toList.take 4 = [2, -1, -2, -2])) = true ∧
    (match apiMakeEmpty 0 0 (.plain (.int 32 true)) none [12] with
     | .error .index => true
     | _ => false) = true := by
  decide +kernel

/-- an empty map of the smallest configuration with the given kind and sentinel -/
def WFApi.blankMap (kind : Kind) (sent : Val) : MapObj :=
  { covord := 0, spord := 0, kind := kind, sent := sent,
    st := makeEmpty (cfgOf 0 0) ⟨kind.blank sent, kind.valid sent⟩ [] }

theorem WFApi.blankMap_wf (kind : Kind) (sent : Val) : (blankMap kind sent).WF :=
  ⟨Nat.le_refl _, inv_makeEmpty' _ _ [] List.nodup_nil (by simp)⟩

/-- `astype` of a bit-packed object whose `sent` is `True` (well formed, but its blank cell
    `False` counts as valid): the overflow block of the result holds `0`, not the sentinel -/
example : okAnd (apiAstype (blankMap .packed (.bool true)) (.int 8 true) none)
    (fun m => !decide m.WF) = true := by decide +kernel

/-- `get_single(copy=True)` of a record object whose primary index is outside the field list -/
example : okAnd (apiGetSingleCopy (blankMap (.recd [.int 32 true] 5) (.num 7 0)) 0 (some (.num 3 0)))
    (fun m => !decide m.WF) = true := by decide +kernel

/-- a boolean operation on a `plain bool` object whose `sent` is not a boolean -/
example : okAnd (apiBoolOp (blankMap (.plain .bool) (.num 5 0)) "and" (.const true) false)
    (fun st => !decide ({ blankMap (.plain .bool) (.num 5 0) with st := st, cache := none } : MapObj).WF)
      = true := by decide +kernel

example : okAnd (apiInvert (blankMap (.plain .bool) (.num 5 0)))
    (fun st => !decide ({ blankMap (.plain .bool) (.num 5 0) with st := st, cache := none } : MapObj).WF)
      = true := by decide +kernel

/-! ### non-vacuity: the hypotheses hold on concrete objects -/

/-- an int32 map (12 coverage pixels × 16 cells) with three covered coverage pixels -/
def WFApi.exMap : Except Err MapObj := do
  let m ← apiMakeEmpty 0 2 (.plain (.int 32 true)) none [3]
  apiUpdate m "replace" [5, 20] (some [.num 3 0, .num 4 0]) false

example : okAnd exMap (fun m => decide m.WF && m.st.sp.size == 64 && m.abs 20 == .num 4 0) = true := by
  decide +kernel

/-- … updated again through the range form, scalar-multiplied, masked by itself, converted and
    bit-packed: every intermediate object satisfies the hypotheses of the next theorem -/
def WFApi.exChain : Except Err (MapObj × MapObj × MapObj) := do
  let m ← exMap
  let m1 ← apiUpdateRanges m "add" [(4, 7), (100, 102)] (some (.num 10 0)) true
  let st ← apiScalarOp m1 "mul" (.int 2)
  let m2 : MapObj := { m1 with st := st, cache := none }
  let st ← apiApplyMask m2 m2 (some 2) none
  let m3 : MapObj := { m2 with st := st, cache := none }
  let m4 ← apiAstype m3 (.flt 64) none
  let m5 ← apiAsBitPacked m4
  pure (m1, m4, m5)

example : okAnd exChain (fun r => decide r.1.WF && decide r.2.1.WF && decide r.2.2.WF &&
    r.1.abs 5 == .num 13 0 && r.2.1.abs 100 == .num 20 0) = true := by
  decide +kernel

/-- a record map with a field view: write through the view, write back -/
def WFApi.exView : Except Err (MapObj × MapObj) := do
  let p ← apiMakeEmpty 0 1 (.recd [.int 16 true, .flt 64] 0) (some (.num 7 0)) []
  let p ← apiUpdate p "replace" [5] (some [.recd [(3, 0), (2, 0)]]) false
  let v ← materializeView p "p" 1 (.num 5 0) none
  let v' ← apiUpdate v "replace" [5, 6] (some [.num 9 0]) true
  pure (p, writeBackView p 1 v')

example : okAnd exView (fun r => decide r.1.WF && decide r.2.WF &&
    r.2.abs 5 == .recd [(3, 0), (9, 0)]) = true := by
  decide +kernel

/-! ### what `make_empty` guarantees about `kind` and `sent`

`MapObj.WF` constrains the arrays only.  The provisos `BlankInvalid` / `BoolBlank` of the
`_partial` theorems follow from the typing discipline below, which `make_empty` establishes
and every function of this file preserves; a world-level proof can carry `WF ∧ KindOk`. -/

def Val.isBoolVal : Val → Bool
  | .bool _ => true
  | _ => false

/-- the sentinel has the type of the (primary) cell: boolean for boolean cells, `False` for
    bit-packed maps; a record map's primary index addresses a field -/
def MapObj.kindOk (m : MapObj) : Bool :=
  match m.kind with
  | .plain .bool => m.sent.isBoolVal
  | .plain _ => true
  | .packed => m.sent == .bool false
  | .wide _ => true
  | .recd fs pr =>
    match fs[pr]? with
    | some .bool => m.sent.isBoolVal
    | some _ => true
    | none => false

def MapObj.KindOk (m : MapObj) : Prop := m.kindOk = true

instance (m : MapObj) : Decidable m.KindOk := by unfold MapObj.KindOk; infer_instance

theorem Val.isBoolVal_iff {v : Val} : v.isBoolVal = true ↔ ∃ b, v = .bool b := by
  cases v <;> simp [Val.isBoolVal]

theorem MapObj.KindOk_congr {m m' : MapObj} (h3 : m'.kind = m.kind) (h4 : m'.sent = m.sent) :
    m'.KindOk ↔ m.KindOk := by
  unfold MapObj.KindOk MapObj.kindOk
  rw [h3, h4]

@[simp] theorem MapObj.KindOk_withSt (m : MapObj) (st : State Val) (x : Option Nat) :
    ({ m with st := st, cache := x } : MapObj).KindOk ↔ m.KindOk := Iff.rfl

@[simp] theorem MapObj.KindOk_cache (m : MapObj) (x : Option Nat) :
    ({ m with cache := x } : MapObj).KindOk ↔ m.KindOk := Iff.rfl

@[simp] theorem MapObj.KindOk_view (m : MapObj) (x : Option (String × Nat)) :
    ({ m with view := x } : MapObj).KindOk ↔ m.KindOk := Iff.rfl

theorem MapObj.KindOk.blankInvalid {m : MapObj} (h : m.KindOk) : m.BlankInvalid := by
  unfold MapObj.KindOk MapObj.kindOk at h
  cases hk : m.kind with
  | plain dt => exact MapObj.blankInvalid_of_plain hk
  | wide n => exact MapObj.blankInvalid_of_wide hk
  | packed =>
    rw [hk] at h
    exact (MapObj.blankInvalid_packed_iff hk).2 (eq_of_beq h)
  | recd fs pr =>
    simp only [hk] at h
    unfold MapObj.BlankInvalid MapObj.vc
    rw [hk]
    have hpr : pr < fs.length := by
      cases hget : fs[pr]? with
      | none => rw [hget] at h; cases h
      | some dt => exact (List.getElem?_eq_some_iff.1 hget).1
    show ((List.map _ fs.zipIdx).getD pr (0, 0) != m.sent.numD) = false
    rw [List.getD_eq_getElem?_getD, List.getElem?_map, List.getElem?_zipIdx,
      List.getElem?_eq_getElem hpr]
    simp

theorem MapObj.KindOk.boolBlank {m : MapObj} (h : m.KindOk) (hb : m.kind.isBool = true) :
    m.BoolBlank := by
  unfold MapObj.KindOk MapObj.kindOk at h
  unfold MapObj.BoolBlank MapObj.vc
  cases hk : m.kind with
  | plain dt =>
    rw [hk] at h hb
    cases dt with
    | bool => exact Val.isBoolVal_iff.1 h
    | int b sg => cases hb
    | flt b => cases hb
  | packed => exact ⟨false, rfl⟩
  | wide n => rw [hk] at hb; cases hb
  | recd fs pr => rw [hk] at hb; cases hb

theorem WFApi.checkSentinel_bool {dt : DT} {s : Option Val} {v : Val}
    (h : checkSentinel dt s = .ok v) (hd : dt = .bool) : v.isBoolVal = true := by
  rcases checkSentinel_ok_cases h with ⟨_, rfl⟩ | ⟨n, e, _, hne⟩ | ⟨x, rfl, _⟩
  · subst hd; rfl
  · exact absurd hd hne
  · rfl

theorem WFApi.kindOk_plain {m : MapObj} {dt : DT} (hk : m.kind = .plain dt)
    (hs : dt = .bool → m.sent.isBoolVal = true) : m.KindOk := by
  unfold MapObj.KindOk MapObj.kindOk
  rw [hk]
  cases dt with
  | bool => exact hs rfl
  | int b sg => rfl
  | flt b => rfl

theorem KindOk.apiMakeEmpty {covord spord : Nat} {kind : Kind} {sentinel : Option Val}
    {covPix : List Nat} {m : MapObj}
    (h : HS.apiMakeEmpty covord spord kind sentinel covPix = .ok m) : m.KindOk := by
  unfold HS.apiMakeEmpty at h
  simp only [bind, Except.bind, pure, Except.pure, throw, throwThe, MonadExceptOf.throw] at h
  repeat' xpeel h
  all_goals cases h
  · rfl
  · rfl
  · -- packed
    rename_i v hv _ hne
    have hb := checkSentinel_bool hv rfl
    obtain ⟨b, rfl⟩ := Val.isBoolVal_iff.1 hb
    cases b with
    | false => rfl
    | true => exact absurd rfl hne
  · -- plain
    rename_i dt _ v hv
    exact kindOk_plain rfl (checkSentinel_bool hv)
  · -- record
    rename_i fs pr _ dt hget _ v hv
    unfold MapObj.KindOk MapObj.kindOk
    simp only [hget]
    cases dt with
    | bool => exact checkSentinel_bool hv rfl
    | int b sg => rfl
    | flt b => rfl


theorem KindOk.apiUpdate {m : MapObj} {op : String} {pix : List Nat}
    {vals : Option (List Val)} {single : Bool} {rawUnique : Option Bool} {m' : MapObj}
    (h : m.KindOk) (hr : HS.apiUpdate m op pix vals single rawUnique = .ok m') : m'.KindOk := by
  obtain ⟨_, _, h3, h4, _⟩ := apiUpdate_ok hr
  exact (MapObj.KindOk_congr h3 h4).2 h

theorem KindOk.apiUpdateRanges {m : MapObj} {op : String} {R : List (Nat × Nat)}
    {val : Option Val} {slicePath : Bool} {m' : MapObj}
    (h : m.KindOk) (hr : HS.apiUpdateRanges m op R val slicePath = .ok m') : m'.KindOk := by
  obtain ⟨_, _, h3, h4, _⟩ := apiUpdateRanges_ok hr
  exact (MapObj.KindOk_congr h3 h4).2 h

theorem KindOk.apiSetBits {m : MapObj} {pix bits : List Nat} {clear : Bool} {m' : MapObj}
    (h : m.KindOk) (hr : HS.apiSetBits m pix bits clear = .ok m') : m'.KindOk := by
  obtain ⟨op, vals, hu⟩ := apiSetBits_ok hr
  exact KindOk.apiUpdate h hu

theorem KindOk.apiAstype {m : MapObj} {dst : DT} {sentinel : Option Val} {m' : MapObj}
    (hr : HS.apiAstype m dst sentinel = .ok m') : m'.KindOk := by
  obtain ⟨_, _, _, h3, h4, _⟩ := apiAstype_ok hr
  exact kindOk_plain h3 (checkSentinel_bool h4)

theorem KindOk.apiAsBitPacked {m m' : MapObj} (h : m.KindOk)
    (hr : HS.apiAsBitPacked m = .ok m') : m'.KindOk := by
  obtain ⟨_, _, _, _, h3⟩ := apiAsBitPacked_ok hr
  rcases h3 with ⟨_, h3, h4, _⟩ | ⟨h3, h4, _⟩
  · exact (MapObj.KindOk_congr h3 h4).2 h
  · unfold MapObj.KindOk MapObj.kindOk
    rw [h3, h4]
    rfl

theorem KindOk.apiGetSingleCopy {m : MapObj} {i : Nat} {sentinel : Option Val} {m' : MapObj}
    (h : m.KindOk) (hr : HS.apiGetSingleCopy m i sentinel = .ok m') : m'.KindOk := by
  obtain ⟨dt, hs, _, _, h3, _⟩ := apiGetSingleCopy_ok hr
  obtain ⟨fs, pr, hk, hget, hcase⟩ := singleSentinel_ok hs
  apply kindOk_plain h3
  intro hd
  rcases hcase with ⟨rfl, hsent⟩ | ⟨_, hc⟩
  · unfold MapObj.KindOk MapObj.kindOk at h
    simp only [hk, hget, hd] at h
    rw [hsent]
    exact h
  · exact checkSentinel_bool hc hd

/-- `_apply_operation` keeps the discipline for every row whose output dtype is not boolean
    (all rows of the generated table, and the `ufunc_*` rows the driver builds) -/
theorem KindOk.apiMultiOp {row : OpRow} {maps : List MapObj} {m' : MapObj}
    (h : ∀ m ∈ maps, m.KindOk) (hrow : parseDTCode row.dtypeOut ≠ some .bool)
    (hr : HS.apiMultiOp row maps = .ok m') : m'.KindOk := by
  obtain ⟨first, rest, rfl, _, _, h3, _, hcase⟩ := apiMultiOp_ok hr
  have hf := h first (List.mem_cons_self ..)
  rcases hcase with ⟨hk, _, _⟩ | ⟨hk, _, _⟩
  · unfold multiKindE at hk
    split at hk
    · rename_i d hd
      apply kindOk_plain hk
      intro hb
      rw [hb] at hd
      exact absurd hd hrow
    · exact (MapObj.KindOk_congr hk h3).2 hf
  · unfold multiKindOut at hk
    split at hk
    · rename_i d hd
      apply kindOk_plain hk
      intro hb
      rw [hb] at hd
      exact absurd hd hrow
    · rename_i hpk _
      apply kindOk_plain hk
      intro _
      unfold MapObj.KindOk MapObj.kindOk at hf
      simp only [hpk] at hf
      rw [h3, eq_of_beq hf]
      rfl
    · exact (MapObj.KindOk_congr hk h3).2 hf

theorem WFApi.opsTable_dtypeOut : opsTable.all (fun r => parseDTCode r.dtypeOut != some .bool) = true := by
  decide

/-! ### the `_partial` theorems under `KindOk` -/

theorem WF.apiAstype {m : MapObj} {dst : DT} {sentinel : Option Val} {m' : MapObj}
    (h : m.WF) (hk : m.KindOk) (hr : HS.apiAstype m dst sentinel = .ok m') : m'.WF :=
  WF.apiAstype_partial h hk.blankInvalid hr

theorem WF.apiGetSingleCopy {m : MapObj} {i : Nat} {sentinel : Option Val} {m' : MapObj}
    (h : m.WF) (hk : m.KindOk) (hr : HS.apiGetSingleCopy m i sentinel = .ok m') : m'.WF :=
  WF.apiGetSingleCopy_partial h hk.blankInvalid hr

theorem WF.apiBoolOp {a : MapObj} {op : String} {rhs : BoolRhs} {inPlace : Bool}
    {st : State Val} (x : Option Nat) (ha : a.WF) (hk : a.KindOk)
    (hrhs : ∀ b, rhs = .map b → b.WF) (hr : HS.apiBoolOp a op rhs inPlace = .ok st) :
    ({ a with st := st, cache := x } : MapObj).WF :=
  WF.apiBoolOp_partial x ha (hk.boolBlank (apiBoolOp_ok hr).1) hrhs hr

theorem WF.apiInvert {a : MapObj} {st : State Val} (x : Option Nat) (ha : a.WF) (hk : a.KindOk)
    (hr : HS.apiInvert a = .ok st) : ({ a with st := st, cache := x } : MapObj).WF :=
  WF.apiInvert_partial x ha (hk.boolBlank (apiInvert_ok hr).1) hr

/-! ### views with a foreign sentinel: what does NOT hold

`get_single(field, sentinel=s, copy=False)` of a non-primary field accepts any `s`
(`singleSentinel`), while the overflow block of the materialised view holds the field's
default sentinel.  The view then satisfies `WFAt (viewBlank p i)` only, and:

* storing the materialised view under an owning name (the driver's `copy v r=c`, or any
  non-in-place operation on `v`) yields an owning map that is not well formed;
* an in-place scalar operation through the view treats the overflow cells as valid, changes
  them, and `writeBackView` carries the change into the parent's overflow block.

Protocol form (history of the finding; checked with `#eval` on `runLines` at the time):
`cfg m kind=rec covord=0 spord=1 fields=i2,f8 primary=0 sentinel=7`,
`single m r=v field=1 sentinel=5`, `copy v r=c` left the owning entry `c` ill-formed; with
`upd m op=replace pix=5 vals=r3;2` … `sop v op=mul k=2 inplace=1` the parent `m` was.
Since the `fix:` commit the library (and `opSingle`) refuses such a view (`err value`), and
`World.get?` resolves a descriptor only if its sentinel is `viewBlank p i`; the API-level
statement below remains true of `materializeView` called directly. -/

def WFApi.exForeignView : Except Err (MapObj × MapObj × MapObj) := do
  let p ← apiMakeEmpty 0 1 (.recd [.int 16 true, .flt 64] 0) (some (.num 7 0)) []
  let p ← apiUpdate p "replace" [5] (some [.recd [(3, 0), (2, 0)]]) false
  let (_, s) ← singleSentinel p 1 (some (.num 5 0))
  let v ← materializeView p "m" 1 s none
  let st ← apiScalarOp v "mul" (.int 2)
  pure (p, v, writeBackView p 1 { v with st := st })

example : okAnd exForeignView (fun r =>
    decide r.1.WF &&                                   -- the parent is well formed,
    decide (r.2.1.WFAt (viewBlank r.1 1)) &&           -- the view has the view layout,
    !decide ({ r.2.1 with view := none } : MapObj).WF &&   -- but is not well formed as an owner,
    !decide r.2.2.WF) = true := by                     -- and the scalar op corrupts the parent
  decide +kernel

/-- `KindOk` holds of what `make_empty` + `update_values_pix` build, of the record map and of
    the results of the chain above -/
example : okAnd exMap (fun m => decide m.KindOk) = true ∧
    okAnd exChain (fun r => decide r.1.KindOk && decide r.2.1.KindOk && decide r.2.2.KindOk) = true ∧
    okAnd exView (fun r => decide r.1.KindOk && decide r.2.KindOk) = true := by
  decide +kernel

end HS
