#!/usr/bin/env python3
"""Writes /verif/MANIFEST.json from the table below (kept in one place so it stays valid)."""
import json
import os

VERIF = os.path.dirname(os.path.dirname(os.path.abspath(__file__)))
PROPS = [json.loads(l) for l in open(os.path.join(VERIF, 'properties.jsonl'))]

# pid -> (claimed?, level text, level note, technique)
NOTE = ("trusted: Lean kernel + propext/Classical.choice/Quot.sound; the hand-written model's faithfulness is checked "
        "by the correspondence run on every invocation (differential, bounded by the generators); numpy/hpgeom/astropy "
        "primitives are modelled, not verified. ")
TECH = "Lean 4 theorems over an executable model + model/implementation correspondence"
CLAIMS = {
    'C01': ("Lean proof that the model's update path refines a dense array for every history/configuration "
            "(C01.history_refines, updateCore_refines, never_written_reads_sentinel, clear_spec); correspondence of the "
            "model with /repo on generated histories incl. every read path and a malformed stream", NOTE, TECH, "6 C01"),
    'C02': ("Lean proof that valid_pixels / n_valid / coverage_map / valid_pixels_single_covpix / fracdet agree with the "
            "dense valid set for every layout-invariant state and that the n_valid cache is coherent; correspondence "
            "with query-mutate-query histories over eleven observers", NOTE, TECH, "6 C02"),
    'C04': ("Lean proof that make_empty / growth / update / ranges / scalar and boolean operators / conversions preserve "
            "the published layout invariant (Inv), with a verified executable checker (checkInv_iff) run on the REAL "
            "arrays after every call of every generator", NOTE, TECH, "6 C04"),
    'C08': ("Lean proof that the slice path of range updates equals the explicit-pixel update for all range arrays "
            "(ranges_eq_explicit, updateRanges_refines, expand_upgrade); twin-path correspondence", NOTE +
            "add over a non-zero sentinel with overlapping rows is proved only for duplicate-free expansions "
            "(ranges_eq_explicit_pre_partial; the full statement is false when an intermediate sum equals the sentinel).",
            TECH, "6 C08"),
    'C11': ("Lean proof of the coverage-scoped semantics of boolean map/constant operators, invert involution, copying "
            "= in-place, lattice laws on common coverage; correspondence over packed/unpacked mixes", NOTE, TECH, "6 C11"),
    'C12': ("Lean proof that scalar operators, apply_mask, astype, as_bit_packed_map act on exactly the valid pixels and "
            "preserve layout; correspondence over dtypes, sentinels, in-place/copying twins", NOTE, TECH, "6 C12"),
    'C13': ("Lean proof of the bit-set semantics of wide-mask rows (pack_testBit, set/clear/xor/and/check specs, "
            "validity iff non-empty, width rules); correspondence over widths and byte-boundary bits with every bit "
            "read back", NOTE, TECH, "6 C13"),
    'C17': ("Lean proof that the MOC writer covers exactly the valid set with disjoint cells no coarser than the "
            "coverage order and that read(write) restores it (moc_cover, moc_disjoint, moc_order_ge_cov, moc_maximal, "
            "moc_read_write), with witnesses for the two repaired defects; correspondence of UNIQ columns and "
            "read-back maps", NOTE + "float64 log2 flooring and the FITS table layer are trusted.", TECH, "6 C17"),
}
NOT_YET = "check not built yet in this round (work in progress; see DESIGN.md section 12)"

checks, na = [], []
for p in PROPS:
    pid = p['id']
    if pid in CLAIMS:
        text, note, tech, ref = CLAIMS[pid]
        checks.append({
            'property_id': pid,
            'quick_cmd': './check %s --tier quick' % pid,
            'thorough_cmd': './check %s --tier thorough' % pid,
            'evidence_file': 'evidence/%s.json' % pid,
            'replay_cmd_template': './check %s --replay {path}' % pid,
            'engine': 'lean4-model+correspondence',
            'level_claimed': {'category': 'proof', 'text': text, 'design_ref': ref},
            'level_note': note,
            'technique': tech,
        })
    else:
        na.append({'property_id': pid, 'reason': NOT_YET})

m = {
    'version': 1,
    'setup_cmd': 'cd lean && lake build HealSparse hsdriver',
    'hooks': {
        'guard': 'LSSTDESC_HEALSPARSE_VERIF',
        'enable': 'no source hooks: the harness drives the public API and reads private attributes from outside',
        'baseline_off_cmd': 'cd /repo && /venv/bin/python -m pytest -ra -q -p no:cacheprovider --timeout=900 '
                            '--continue-on-collection-errors',
        'source_commits': [],
        'add_only': True,
    },
    'engines': [{
        'name': 'lean4-model+correspondence', 'path': 'lean/ , harness/',
        'serves_properties': [c['property_id'] for c in checks],
        'kind_free_text': 'Lean 4 theorems about a hand-written executable model (lean/HealSparse) + differential '
                          'correspondence of that model against /repo on generated histories (harness/)',
    }],
    'checks': checks,
    'not_applicable': na,
    'notes': 'see DESIGN.md; known findings and fixes in known_findings.json',
}
json.dump(m, open(os.path.join(VERIF, 'MANIFEST.json'), 'w'), indent=1)
print("checks:", len(checks), "not_applicable:", len(na))
