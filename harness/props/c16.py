"""C16 — HEALPix interchange, RING/NEST and position addressing are consistent."""
import numpy as np
import hpgeom as hpg
import gen

PID = 'C16'
RULE = ("dense arrays (float32/64 with arbitrary UNSEEN patterns, integer with explicit sentinels) in NEST and RING "
        "order are converted to maps (constructor) and back (generate_healpix_map, both orderings, optionally degraded, "
        "record keys); maps of every kind are read and updated with nest=False pixel numbers and with positions "
        "(random points and pixel centres; lon/lat) and compared with the NEST pixel calls of the Lean model on the "
        "pixels hpgeom maps them to; HEALPix-format files (explicit: float / int / bool maps; implicit NESTED/RING "
        "written with astropy) are read back; interpolate_pos is compared at random positions, allow_partial on/off, "
        "with the model's validity rule and exact rational weighted mean over hpgeom's neighbours and weights; "
        "non-trivial = a RING-ordered or position-addressed call on a map with >= 2 covered coverage pixels")
ASSUMPTIONS = ["hpgeom ring_to_nest / nest_to_ring / angle_to_pixel / get_interpolation_weights are taken from hpgeom "
               "itself (the tables are sent to the model); what is checked is that healsparse applies them where "
               "the property says",
               "interpolated values: exact rational vs IEEE result, tolerance 2^-20"]
TRUSTED = ["hpgeom geometry"]


def ftxt(a):
    return ','.join(repr(float(x)) for x in a)


def dytxt(x):
    n, d = float(x).as_integer_ratio()
    e = d.bit_length() - 1
    return str(n) if e == 0 else "%d^%d" % (n, e)


def rand_positions(rng, nside, n):
    lon = [rng.uniform(0, 360) for _ in range(n)]
    lat = [np.degrees(np.arcsin(rng.uniform(-1, 1))) for _ in range(n)]
    # stay away from pixel edges: re-centre half of them
    pix = hpg.angle_to_pixel(nside, np.array(lon), np.array(lat))
    clon, clat = hpg.pixel_to_angle(nside, pix)
    for i in range(n):
        if rng.random() < 0.5:
            lon[i], lat[i] = float(clon[i]), float(clat[i])
    pix = hpg.angle_to_pixel(nside, np.array(lon), np.array(lat))
    return lon, lat, [int(p) for p in pix]


def boundary_positions(rng, nside, n):
    """(theta, phi) in radians EXACTLY on pixel boundaries (corners and edge points as hpgeom gives them) and at
    pixel centres, with the pixel hpgeom assigns to those very floats — any detour through another unit
    (degrees and back: seeded change C16g) moves some of them into the neighbouring pixel"""
    npix = 12 * nside * nside
    th, ph = [], []
    for _ in range(n):
        p = rng.randrange(npix)
        if rng.random() < 0.75:
            bt, bp = hpg.boundaries(nside, np.array([p]), step=rng.choice([1, 2]), lonlat=False)
            j = rng.randrange(np.asarray(bt).size)
            th.append(float(np.asarray(bt).ravel()[j]))
            ph.append(float(np.asarray(bp).ravel()[j]))
        else:
            t, f = hpg.pixel_to_angle(nside, np.array([p]), lonlat=False)
            th.append(float(t[0]))
            ph.append(float(f[0]))
    # (hpgeom's boundary points can come out a rounding error beyond 2*pi, which it refuses as input)
    two_pi = 2.0 * np.pi
    ph = [p_ if 0.0 <= p_ < two_pi else (p_ % two_pi if 0.0 <= p_ % two_pi < two_pi else 0.0) for p_ in ph]
    th = [min(max(t_, 0.0), float(np.pi)) for t_ in th]
    pix = hpg.angle_to_pixel(nside, np.array(th), np.array(ph), lonlat=False)
    return th, ph, [int(p) for p in pix]


def hist_dense(rng):
    covord = rng.choice([0, 0, 1])
    spord = covord + rng.choice([0, 1, 2])
    npix = 12 * 4 ** spord
    nside = 2 ** spord
    kind = rng.choice(['f8', 'f4', 'i4', 'i8', 'i2'])
    vals = []
    if kind.startswith('f'):
        sent = rng.choice(['default', 'default', '-9999'])
        uns = '-1637499999999999923489519697920' if kind == 'f8' else '-1637499996306027037830206717952'
        focus = rng.sample(range(12 * 4 ** covord), rng.randint(1, 3))
        nf = npix // (12 * 4 ** covord)
        full_sky = rng.random() < 0.2         # every coverage pixel covered, blocks in ascending order
        for p in range(npix):
            if full_sky and (p % nf == 0 or rng.random() < 0.5):
                vals.append(gen.dy(rng))
            elif p // nf in focus and rng.random() < 0.5:
                vals.append(gen.dy(rng))
            else:
                vals.append(uns if rng.random() < 0.9 or sent == 'default' else sent)
        stype = 'flt'
    else:
        sent = rng.choice(['0', '-1', '7'])
        for p in range(npix):
            vals.append(sent if rng.random() < 0.7 else str(rng.randint(-20, 20)))
        stype = rng.choice(['int', 'int', 'int', 'flt'])       # a float sentinel with an integer map must be rejected
    nest = rng.random() < 0.5
    ln = 'fromhp r=m covord=%d spord=%d dtype=%s vals=%s nest=%d' % (covord, spord, kind, ','.join(vals), int(nest))
    if sent != 'default':
        ln += ' sentinel=%s senttype=%s' % (sent, stype)
    elif not kind.startswith('f') and False:
        pass
    if not nest:
        r2n = hpg.ring_to_nest(nside, np.arange(npix))
        ln += ' r2n=%s' % ','.join(map(str, r2n))
    # (the exported array is the caller's: the harness scribbles over it, so the map is read again afterwards)
    h = [ln, 'info m', 'state m', 'vals m', 'valid m', 'genhp m nest=1', 'vals m', 'valid m']
    n2r = hpg.nest_to_ring(nside, np.arange(npix))
    h += ['genhp m nest=0 n2r=%s' % ','.join(map(str, n2r)), 'vals m']
    if spord > covord and rng.random() < 0.5:
        o = rng.randint(covord, spord - 1)
        n2ro = hpg.nest_to_ring(2 ** o, np.arange(12 * 4 ** o))
        h.append('genhp m nest=%d ord=%d red=%s%s' % (0, o, rng.choice(['mean', 'max', 'sum']),
                                                       ' n2r=%s' % ','.join(map(str, n2ro))))
    return h


def hist_addressing(rng):
    c = gen.rand_cfg(rng, max_npix=768, name='m')
    nside = 2 ** c.spord
    focus = rng.sample(range(c.ncov), min(c.ncov, rng.randint(2, 4)))
    h = [c.line()]
    for _ in range(rng.randint(2, 6)):
        ln = gen.upd_line(rng, c, focus=focus)
        r = rng.random()
        toks = ln.split()
        pix = next((t[4:] for t in toks if t.startswith('pix=')), '_')
        if pix != '_' and r < 0.4:
            p = np.array([int(x) for x in pix.split(',')])
            ln += ' ring=%s' % ','.join(map(str, hpg.nest_to_ring(nside, p)))
        elif pix != '_' and r < 0.7:
            p = np.array([int(x) for x in pix.split(',')])
            lon, lat = hpg.pixel_to_angle(nside, p)
            ln += ' lon=%s lat=%s' % (ftxt(lon), ftxt(lat))
        h += [ln, 'state m']
        # reads
        if rng.random() < 0.6:
            lon, lat, pp = rand_positions(rng, nside, rng.choice([1, 3, 6]))
            h.append('get m pix=%s lon=%s lat=%s%s' % (','.join(map(str, pp)), ftxt(lon), ftxt(lat),
                                                       ' vm=1' if rng.random() < 0.3 else ''))
        if rng.random() < 0.5:
            th, ph, pp = boundary_positions(rng, nside, rng.choice([2, 4, 8]))
            h.append('get m pix=%s lon=%s lat=%s lonlat=0%s' % (','.join(map(str, pp)), ftxt(th), ftxt(ph),
                                                                ' vm=1' if rng.random() < 0.3 else ''))
        if rng.random() < 0.6:
            p = np.array(gen.rand_pixels(rng, c, n=rng.choice([1, 3, 6]), unique=False, focus=focus) or [0])
            h.append('get m pix=%s ring=%s%s' % (','.join(map(str, p)), ','.join(map(str, hpg.nest_to_ring(nside, p))),
                                                 ' vm=1' if rng.random() < 0.3 else ''))
    if c.kind == 'plain' and c.dtype != 'b1':
        for _ in range(2):
            n = rng.choice([1, 3, 5])
            lon, lat, _pp = rand_positions(rng, nside, n)
            ipix, iw = hpg.get_interpolation_weights(nside, np.array(lon), np.array(lat))
            h.append('interp m lon=%s lat=%s partial=%d nb=%s w=%s' % (
                ftxt(lon), ftxt(lat), rng.randint(0, 1),
                ','.join(':'.join(str(int(x)) for x in row) for row in ipix),
                ','.join(':'.join(dytxt(x) for x in row) for row in iw)))
    # HEALPix explicit file round trip
    if c.kind in ('plain', 'packed') and c.dtype != 'i1':       # known finding F55 (int8 -> FITS logical column)
        h += ['hpxwrite m f=h1', 'hpxread r=r f=h1 covord=%d' % rng.randint(0, c.spord), 'info r', 'vals r', 'valid r',
              'vals m']
    if c.kind == 'rec':
        n2r = hpg.nest_to_ring(nside, np.arange(c.npix))
        h.append('genhp m nest=0 key=%d n2r=%s' % (c.single_field(rng), ','.join(map(str, n2r))))
    return h


def hist_implicit(rng):
    spord = rng.choice([0, 1, 2])
    npix = 12 * 4 ** spord
    dt = rng.choice(['f8', 'f4', 'i4'])
    uns = '-1637499999999999923489519697920' if dt == 'f8' else '-1637499996306027037830206717952'
    vals = [(gen.dy(rng) if dt != 'i4' else str(rng.randint(-5, 5))) if rng.random() < 0.3 else (uns if dt != 'i4' else '0')
            for _ in range(npix)]
    ordering = rng.choice(['NESTED', 'RING'])
    h = ['hpximplicit f=h2 spord=%d dtype=%s ordering=%s col=%s vals=%s' % (
        spord, dt, ordering, rng.choice(['T', 'TEMPERATURE']), ','.join(vals))]
    ln = 'hpxread r=r f=h2 covord=%d' % rng.randint(0, spord)
    if ordering == 'RING':
        ln += ' r2n=%s' % ','.join(map(str, hpg.ring_to_nest(2 ** spord, np.arange(npix))))
    h += [ln, 'info r', 'vals r', 'valid r', 'state r']
    return h


def hist_explicit_wide(rng):
    """explicit-format files whose PIXEL column needs more than 16 bits, written from maps whose valid pixels
    are NOT listed in ascending order (coverage blocks allocated high-before-low by separate calls)"""
    spord = rng.choice([6, 7])
    covord = rng.choice([1, 2])
    dt = rng.choice(['f8', 'f4', 'i4', 'i2', 'b1'])
    c = gen.MapCfg('m', 'plain', covord, spord, dtype=dt, sentinel=rng.choice(['default', 'default', '0'])
                   if dt not in ('b1', 'f4', 'f8') else 'default')
    h = [c.line()]
    hi = [rng.randrange(2 ** 15, c.npix) for _ in range(2)]
    lo = [rng.randrange(0, 2 ** 15) for _ in range(2)]
    for grp in ([hi, lo] if rng.random() < 0.8 else [lo, hi]):
        grp = sorted(set(grp))
        h.append('upd m op=replace pix=%s vals=%s' % (','.join(map(str, grp)), ','.join(
            (c.val(rng) if dt != 'b1' else 'T') for _ in grp)))
    h += ['valid m', 'hpxwrite m f=h1', 'hpxread r=r f=h1 covord=%d' % rng.randint(0, 3), 'info r', 'valid r',
          'nvalid r', 'get r pix=%s path=pix' % ','.join(map(str, hi + lo))]
    return h


def histories(rng, tier):
    n = 300 if tier == 'quick' else 1500
    out = [hist_explicit_wide(rng) for _ in range(5 if tier == 'quick' else 40)]
    for _ in range(n):
        r = rng.random()
        out.append(hist_dense(rng) if r < 0.35 else hist_addressing(rng) if r < 0.85 else hist_implicit(rng))
    return [gen.file_variants(rng, h) for h in out]


def nontrivial(h):
    return any((' ring=' in ln or ' lon=' in ln or ln.startswith('fromhp') or ln.startswith('hpx')) for ln in h)
