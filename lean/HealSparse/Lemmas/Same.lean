/-
  Helper lemmas for C10 (content-equal maps are interchangeable): congruence of the dense
  specifications in the dense view, stated with raw pointwise-agreement hypotheses, and the
  index arithmetic relating coarse / fine pixel ranges.
-/
import HealSparse.Lemmas.Core
import HealSparse.Lemmas.Coverage
import HealSparse.Model.MultiOps
import HealSparse.Model.BoolOps
import HealSparse.Model.Resolution
import HealSparse.Props.C02
namespace HS

variable {V : Type}

theorem getD_eq_getElem_of_lt {α : Type} (l : List α) (d : α) {i : Nat} (h : i < l.length) :
    l.getD i d = l[i] := (List.getElem_eq_getD (h := h) d).symm

/-! ### index arithmetic -/

/-- child `j` of coarse pixel `q` (grouping `2^g`) is a pixel of the fine map -/
theorem child_lt (n a g q j : Nat) (hq : q < n * 2 ^ a) (hj : j < 2 ^ g) :
    q * 2 ^ g + j < n * 2 ^ (a + g) := by
  have h1 : (q + 1) * 2 ^ g ≤ n * 2 ^ a * 2 ^ g := Nat.mul_le_mul_right _ hq
  rw [Nat.pow_add, ← Nat.mul_assoc]
  rw [Nat.add_mul, Nat.one_mul] at h1
  omega

/-- pixel `k*nfine + j` lies inside the sphere -/
theorem covchild_lt (c : Cfg) (k j : Nat) (hk : k < c.ncov) (hj : j < c.nfine) :
    k * c.nfine + j < c.npix := by
  have h1 : (k + 1) * c.nfine ≤ c.ncov * c.nfine := Nat.mul_le_mul_right _ hk
  rw [Nat.add_mul, Nat.one_mul] at h1
  unfold Cfg.npix
  omega

/-- children of a coarse pixel of the map degraded by `g ≤ shift` bits -/
theorem degchild_lt (c : Cfg) (g q j : Nat) (hg : g ≤ c.shift)
    (hq : q < c.ncov * 2 ^ (c.shift - g)) (hj : j < 2 ^ g) : q * 2 ^ g + j < c.npix := by
  have := child_lt c.ncov (c.shift - g) g q j hq hj
  rw [Nat.sub_add_cancel hg] at this
  exact this

/-- parent of a pixel of the map upgraded by `g` bits -/
theorem upparent_lt (c : Cfg) (g x : Nat) (hx : x < c.ncov * 2 ^ (c.shift + g)) :
    x >>> g < c.npix := by
  rw [Nat.shiftRight_eq_div_pow, Nat.div_lt_iff_lt_mul (Nat.two_pow_pos g)]
  unfold Cfg.npix Cfg.nfine
  rw [Nat.mul_assoc, ← Nat.pow_add]
  exact hx

/-! ### congruences in the dense view -/

theorem validSet_congr (c : Cfg) (vc : VCfg V) (s₁ s₂ : State V)
    (h : ∀ p, p < c.npix → abs c vc s₁ p = abs c vc s₂ p) :
    C02.validSet c vc s₁ = C02.validSet c vc s₂ := by
  unfold C02.validSet
  apply List.filter_congr
  intro p hp
  rw [h p (List.mem_range.1 hp)]

theorem validIn_congr (c : Cfg) (vc : VCfg V) (s₁ s₂ : State V)
    (h : ∀ p, p < c.npix → abs c vc s₁ p = abs c vc s₂ p) (k : Nat) (hk : k < c.ncov) :
    C02.validIn c vc s₁ k = C02.validIn c vc s₂ k := by
  unfold C02.validIn
  apply List.filter_congr
  intro j hj
  rw [h _ (covchild_lt c k j hk (List.mem_range.1 hj))]

theorem fracCount_congr (c : Cfg) (vc : VCfg V) (s₁ s₂ : State V)
    (h : ∀ p, p < c.npix → abs c vc s₁ p = abs c vc s₂ p) (g : Nat) (hg : g ≤ c.shift)
    (q : Nat) (hq : q < c.ncov * 2 ^ (c.shift - g)) :
    ((List.range (2 ^ g)).filter fun j => vc.valid (abs c vc s₁ (q * 2 ^ g + j)))
      = ((List.range (2 ^ g)).filter fun j => vc.valid (abs c vc s₂ (q * 2 ^ g + j))) := by
  apply List.filter_congr
  intro j hj
  rw [h _ (degchild_lt c g q j hg hq (List.mem_range.1 hj))]

theorem childrenVals_congr (c : Cfg) (vc : VCfg V) (s₁ s₂ : State V)
    (h : ∀ p, p < c.npix → abs c vc s₁ p = abs c vc s₂ p) (g : Nat) (hg : g ≤ c.shift)
    (q : Nat) (hq : q < c.ncov * 2 ^ (c.shift - g)) :
    childrenVals c vc s₁ g q = childrenVals c vc s₂ g q := by
  unfold childrenVals
  apply List.map_congr_left
  intro j hj
  exact h _ (degchild_lt c g q j hg hq (List.mem_range.1 hj))

/-- `validInputs` only reads the dense views at `p` -/
theorem validInputs_congr (c : Cfg) (vc : VCfg V) (p : Nat) :
    ∀ (ms₁ ms₂ : List (State V)), ms₁.length = ms₂.length →
      (∀ i (h₁ : i < ms₁.length) (h₂ : i < ms₂.length), abs c vc ms₁[i] p = abs c vc ms₂[i] p) →
      validInputs c vc ms₁ p = validInputs c vc ms₂ p
  | [], [], _, _ => rfl
  | [], _ :: _, hl, _ => by simp at hl
  | _ :: _, [], hl, _ => by simp at hl
  | a :: as, b :: bs, hl, h => by
    have h0 : abs c vc a p = abs c vc b p := h 0 (by simp) (by simp)
    have ih := validInputs_congr c vc p as bs (by simpa using hl)
      (fun i h₁ h₂ => h (i + 1) (by simpa using h₁) (by simpa using h₂))
    unfold validInputs at ih ⊢
    rw [List.filterMap_cons, List.filterMap_cons, h0, ih]

/-- `any`/`all` of the coverage masks of index-wise agreeing lists -/
theorem covAny_congr (c : Cfg) (k : Nat) :
    ∀ (ms₁ ms₂ : List (State V)), ms₁.length = ms₂.length →
      (∀ i (h₁ : i < ms₁.length) (h₂ : i < ms₂.length), covered c ms₁[i] k = covered c ms₂[i] k) →
      ms₁.any (fun m => covered c m k) = ms₂.any (fun m => covered c m k) ∧
      ms₁.all (fun m => covered c m k) = ms₂.all (fun m => covered c m k)
  | [], [], _, _ => ⟨rfl, rfl⟩
  | [], _ :: _, hl, _ => by simp at hl
  | _ :: _, [], hl, _ => by simp at hl
  | a :: as, b :: bs, hl, h => by
    have h0 : covered c a k = covered c b k := h 0 (by simp) (by simp)
    have ih := covAny_congr c k as bs (by simpa using hl)
      (fun i h₁ h₂ => h (i + 1) (by simpa using h₁) (by simpa using h₂))
    simp only [List.any_cons, List.all_cons, h0, ih.1, ih.2, and_self]

theorem denseMulti_congr (c : Cfg) (vc : VCfg V) (ms₁ ms₂ : List (State V)) (f : V → V → V)
    (filler : V) (union fillFirst : Bool) (p : Nat) (hl : ms₁.length = ms₂.length)
    (h : ∀ i (h₁ : i < ms₁.length) (h₂ : i < ms₂.length), abs c vc ms₁[i] p = abs c vc ms₂[i] p) :
    denseMulti c vc ms₁ f filler union fillFirst p = denseMulti c vc ms₂ f filler union fillFirst p := by
  unfold denseMulti
  rw [validInputs_congr c vc p ms₁ ms₂ hl h, hl]

theorem denseBoolMap_congr (c : Cfg) (av av' bv bv' : Nat → Bool) (bcov bcov' : Nat → Bool)
    (op : Bool → Bool → Bool) (p : Nat) (ha : av p = av' p) (hb : bv p = bv' p)
    (hc : bcov (p >>> c.shift) = bcov' (p >>> c.shift)) :
    denseBoolMap c av bv bcov op p = denseBoolMap c av' bv' bcov' op p := by
  unfold denseBoolMap; rw [ha, hb, hc]

end HS
