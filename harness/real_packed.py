"""Protocol operations on stand-alone _PackedBoolArray objects (array level of C05).
Operation `p.xyz` is method `op_p_xyz(self, pos, kv)`; returns the observation string."""


class PackedOps(object):
    def packed_reset(self):
        self.parrs = {}
