-- root of the HealSparse library: executable model, lemmas, property theorems
import HealSparse.Model.Dispatch
import HealSparse.Props.C01
import HealSparse.Props.C02
import HealSparse.Props.C04
import HealSparse.Props.C06
import HealSparse.Props.C07
import HealSparse.Props.C08
import HealSparse.Props.C11
import HealSparse.Props.C12
import HealSparse.Props.C13
import HealSparse.Props.C15
import HealSparse.Props.C17
