/-
  C04 (continued) — the arithmetic kernels of the layout, tied to the SOURCE by a translator.
  `Generated/Kernels.lean` is rewritten on every run by harness/translate_kernels.py, which CALLS
  `utils._compute_bitshift`, `utils.check_sentinel` and reads `hpgeom.UNSEEN` in /repo's current tree.
  The theorems below say that every row of those tables is what the Lean model's own definition
  computes; the tables are exhaustive over the legal domain (all power-of-two nside pairs up to 2^29;
  all supported dtypes), so these are statements about the code's kernels for every input, re-proved
  each run.  A changed kernel makes a `decide` fail; the failing row is the counterexample.
-/
import HealSparse.Generated.Kernels
import HealSparse.Model.Api
namespace HS
namespace C04

/-- `_compute_bitshift(2^a, 2^b)` is the shift of the model's configuration, for EVERY legal pair -/
theorem kernel_bitshift :
    Kernels.bitshiftTable.all (fun r => (cfgOf r.1 r.2.1).shift == r.2.2) = true := by decide +kernel

/-- the table is the whole domain: every pair `a ≤ b < 30` occurs -/
theorem kernel_bitshift_exhaustive :
    (List.range 30).all (fun a => (List.range 30).all fun b =>
      decide (a ≤ b) → Kernels.bitshiftTable.any fun r => r.1 == a && r.2.1 == b) = true := by decide +kernel

/-- hence: for every legal pair the code's kernel returns `2 * (b - a)` -/
theorem kernel_bitshift_spec (a b : Nat) (hab : a ≤ b) (hb : b < 30) :
    ∃ r ∈ Kernels.bitshiftTable, r.1 = a ∧ r.2.1 = b ∧ r.2.2 = 2 * (b - a) := by
  have h1 := kernel_bitshift_exhaustive
  have h2 := kernel_bitshift
  rw [List.all_eq_true] at h1 h2
  have ha : a < 30 := Nat.lt_of_le_of_lt hab hb
  have := h1 a (List.mem_range.2 ha)
  rw [List.all_eq_true] at this
  have := this b (List.mem_range.2 hb)
  simp only [decide_eq_true_eq, hab, forall_const, List.any_eq_true, Bool.and_eq_true, beq_iff_eq] at this
  obtain ⟨r, hr, e1, e2⟩ := this
  refine ⟨r, hr, e1, e2, ?_⟩
  have := h2 r hr
  simp only [beq_iff_eq] at this
  rw [← this, e1, e2]
  rfl

/-- `check_sentinel(dtype, None)` is the model's default sentinel, for every supported dtype -/
theorem kernel_default_sentinels :
    Kernels.sentinelTable.all (fun r => r.1.defaultSentinel == r.2) = true := by decide +kernel

theorem kernel_sentinels_all_dtypes :
    Kernels.sentinelTable.map (·.1) =
      [.int 8 true, .int 16 true, .int 32 true, .int 64 true, .int 8 false, .int 16 false,
       .int 32 false, .int 64 false, .flt 32, .flt 64, .bool] := by decide +kernel

/-- `hpgeom.UNSEEN` in both float widths -/
theorem kernel_unseen : Kernels.unseenF64 = unseen64 ∧ Kernels.unseenF32 = unseen32 := by decide +kernel

end C04
end HS
