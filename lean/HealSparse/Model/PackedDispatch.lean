/-
  Protocol operations on stand-alone `_PackedBoolArray` objects (array level of C05).
  Lines whose operation name starts with `p.` are routed here by Model/Dispatch.lean.

  World = one byte heap (all numpy buffers of the history, see Model/Packed.lean) and the
  named `_PackedBoolArray` objects (view descriptors into the heap).

  Operations (first positional argument(s) = object names; `none` = omitted / Python `None`):

    p.new a [n=13] [start=3] [stop=5] [data=b1.2.3]    `_PackedBoolArray(size, data_buffer, start_index, stop_index)`
    p.frombool a bits=0110 [start=3]                   `from_boolean_array`
    p.slice v a [lo=3] [hi=-2] [step=1]                `v = a[lo:hi:step]` (a view)
    p.len a | p.arr a | p.repr a | p.data a            `len(a)`, `np.asarray(a)`, `str(a)`, `a.data_array`
    p.get a i=5 | p.getidx a idx=1,2,2 [list=1]        `a[i]`, `a[idx]`
    p.set a i=5 v=T                                    `a[i] = v`
    p.setslice a [lo=] [hi=] v=T | vals=0101 | rhs=b   `a[lo:hi] = …`
    p.setidx a idx=1,2 v=T | vals=01 [list=1]          `a[idx] = …`
    p.iop a op=and|or|xor v=T | rhs=b                  `a op= …`
    p.invert a                                         `a.invert()`
    p.bop r a op=and|or|xor v=T | rhs=b                `r = a op …`
    p.not r a | p.copy r a                             `r = ~a`, `r = a.copy()`
    p.resize a n=40                                    `a.resize(n)`
    p.sum a | p.sumshape a shape=2,3,16 [axis=1]       `a.sum()`, `a.sum(shape=…, axis=…)`
    p.fml a mask=0|1                                   `a._extract_first_middle_last(mask_extra=…)`
    p.lut                                              the 256-entry `_bit_count` table
    p.dump                                             `np.asarray` of every object, by name
    p.drop a                                           forget the object `a` (`del a`)

  Observations: `ok`, `err <ExceptionClass>`, bit strings, numbers.
-/
import HealSparse.Model.Text
import HealSparse.Model.Packed
namespace HS
open Packed

structure PackedWorld where
  heap : Heap := #[]
  views : List (String × PBA) := []

namespace PackedWorld

def get? (w : PackedWorld) (n : String) : Option PBA := (w.views.find? (·.1 == n)).map (·.2)
def put (w : PackedWorld) (n : String) (p : PBA) : PackedWorld :=
  { w with views := (n, p) :: w.views.filter (·.1 != n) }

end PackedWorld

namespace PackedIO

def perr (e : PErr) : String := "err " ++ e.tag

/-- absent or `none` ↦ `some none`; an integer ↦ `some (some i)`; anything else ↦ `none` -/
def optInt (a : Args) (k : String) : Option (Option Int) :=
  match a.get? k with
  | none => some none
  | some "none" => some none
  | some s => s.toInt?.map some

def parseBits (s : String) : Option (List Bool) :=
  if s == "_" then some [] else
  s.toList.mapM fun c => if c == '1' then some true else if c == '0' then some false else none

def parseBool (s : String) : Option Bool :=
  if s == "T" then some true else if s == "F" then some false else none

def parseOp (s : String) : Option Op :=
  match s with
  | "and" => some .and | "or" => some .or | "xor" => some .xor | _ => none

def parseBytes (s : String) : Option (List Byte) :=
  if !s.startsWith "b" then none else
  let body := (s.drop 1).toString
  if body == "" then some [] else
  ((body.splitOn ".").mapM String.toNat?).map fun l => l.map fun n => BitVec.ofNat 8 n

def showBytes (l : List Byte) : String := "b" ++ ".".intercalate (l.map fun b => toString b.toNat)

def showPart (p : Part) : String :=
  match p.arr with
  | none => "None"
  | some a => showBits a ++ "/" ++ toString p.lo ++ "/" ++ toString p.hi

def showFML (h : Heap) (p : PBA) (f : FML) : String :=
  let mid := match f.mid with
    | none => "None"
    | some (a, b) => showBytes ((List.range (b - a)).map fun i => rdB h (p.off + a + i))
  s!"F={showPart f.first} M={mid} L={showPart f.last}"

end PackedIO
open PackedIO

/-- value operand of an assignment / logic operation -/
inductive POperand where
  | bool (b : Bool)
  | arr (l : List Bool)
  | pba (q : PBA)

def packedOperand (w : PackedWorld) (a : Args) : Option POperand :=
  match a.get? "v", a.get? "vals", a.get? "rhs" with
  | some v, none, none => (parseBool v).map .bool
  | none, some vs, none => (parseBits vs).map .arr
  | none, none, some r => (w.get? r).map .pba
  | _, _, _ => none

def stepPacked (w : PackedWorld) (op : String) (a : Args) : PackedWorld × String :=
  let bad (s : String) : PackedWorld × String := (w, "bad-op:" ++ s)
  -- run `k` on the object named by positional argument `i`
  let withObj (i : Nat) (k : PBA → PackedWorld × String) : PackedWorld × String :=
    match a.pos[i]? with
    | none => bad "no-name"
    | some n => match w.get? n with
      | none => (w, "err LookupError")       -- its creation raised earlier (same answer as the real side)
      | some p => k p
  let mut' (r : Except PErr Heap) : PackedWorld × String :=
    match r with
    | .ok h => ({ w with heap := h }, "ok")
    | .error e => (w, perr e)
  let mk (n : String) (r : Except PErr (Heap × PBA)) : PackedWorld × String :=
    match r with
    | .ok (h, p) => (({ w with heap := h } : PackedWorld).put n p, "ok")
    | .error e => (w, perr e)
  match op with
  | "p.new" =>
    match a.pos, optInt a "n", optInt a "start", optInt a "stop" with
    | n :: _, some size, some start, some stop =>
      match a.get? "data" with
      | none => mk n (init w.heap size none start stop)
      | some d => match parseBytes d with
        | none => bad "data"
        | some bs => mk n (init w.heap size (some bs) start stop)
    | _, _, _, _ => bad "p.new"
  | "p.frombool" =>
    match a.pos, parseBits (a.getD "bits" "_"), optInt a "start" with
    | n :: _, some bits, some start => mk n (fromBool w.heap bits start)
    | _, _, _ => bad "p.frombool"
  | "p.slice" =>
    match a.pos, optInt a "lo", optInt a "hi", optInt a "step" with
    | v :: _ :: _, some lo, some hi, some step => withObj 1 fun p =>
      match slice p lo hi step with
      | .ok q => (w.put v q, "ok")
      | .error e => (w, perr e)
    | _, _, _, _ => bad "p.slice"
  | "p.len" => withObj 0 fun p =>
    match p.pyLen with
    | .ok n => (w, toString n)
    | .error e => (w, perr e)
  | "p.arr" => withObj 0 fun p => (w, showBits (toBools w.heap p))
  | "p.repr" => withObj 0 fun p => (w, repr p)
  | "p.data" => withObj 0 fun p =>
    match dataArray w.heap p with
    | .ok bs => (w, showBytes bs)
    | .error e => (w, perr e)
  | "p.get" => withObj 0 fun p =>
    match (a.get? "i").bind String.toInt? with
    | none => bad "i"
    | some i => match getInt w.heap p i with
      | .ok b => (w, if b then "T" else "F")
      | .error e => (w, perr e)
  | "p.getidx" => withObj 0 fun p =>
    match parseInts (a.getD "idx" "_") with
    | none => bad "idx"
    | some idx => match getIdx w.heap p idx (a.flag "list") with
      | .ok bs => (w, showBits bs)
      | .error e => (w, perr e)
  | "p.set" => withObj 0 fun p =>
    match (a.get? "i").bind String.toInt?, (a.get? "v").bind parseBool with
    | some i, some v => mut' (setInt w.heap p i v)
    | _, _ => bad "p.set"
  | "p.setslice" => withObj 0 fun p =>
    match optInt a "lo", optInt a "hi", packedOperand w a with
    | some lo, some hi, some (.bool v) => mut' (setSliceBool w.heap p lo hi v)
    | some lo, some hi, some (.arr vs) => mut' (setSliceArr w.heap p lo hi vs)
    | some lo, some hi, some (.pba q) => mut' (setSlicePBA w.heap p lo hi q)
    | _, _, _ => bad "p.setslice"
  | "p.setidx" => withObj 0 fun p =>
    match parseInts (a.getD "idx" "_"), packedOperand w a with
    | some idx, some (.bool v) => mut' (setIdxBool w.heap p idx v (a.flag "list"))
    | some idx, some (.arr vs) =>
      let (h, e) := setIdxArr w.heap p idx vs (a.flag "list")
      ({ w with heap := h }, match e with | none => "ok" | some e => perr e)
    | _, _ => bad "p.setidx"
  | "p.iop" => withObj 0 fun p =>
    match (a.get? "op").bind parseOp, packedOperand w a with
    | some o, some (.bool v) => mut' (iopBool w.heap p o v)
    | some o, some (.pba q) => mut' (iopPBA w.heap p q o)
    | _, _ => bad "p.iop"
  | "p.invert" => withObj 0 fun p => mut' (invert w.heap p)
  | "p.bop" =>
    match a.pos with
    | r :: _ :: _ => withObj 1 fun p =>
      match (a.get? "op").bind parseOp, packedOperand w a with
      | some o, some (.bool v) => mk r (bopBool w.heap p o v)
      | some o, some (.pba q) => mk r (bopPBA w.heap p q o)
      | _, _ => bad "p.bop"
    | _ => bad "p.bop"
  | "p.not" =>
    match a.pos with
    | r :: _ :: _ => withObj 1 fun p => mk r (notCopy w.heap p)
    | _ => bad "p.not"
  | "p.copy" =>
    match a.pos with
    | r :: _ :: _ => withObj 1 fun p => mk r (copy w.heap p)
    | _ => bad "p.copy"
  | "p.resize" => withObj 0 fun p =>
    match (a.get? "n").bind String.toInt? with
    | none => bad "n"
    | some n =>
      let ((h, p'), e) := resize w.heap p n
      (({ w with heap := h } : PackedWorld).put (a.pos.headD "") p',
        match e with | none => "ok" | some e => perr e)
  | "p.sum" => withObj 0 fun p =>
    match sum w.heap p with
    | .ok n => (w, toString n)
    | .error e => (w, perr e)
  | "p.sumshape" => withObj 0 fun p =>
    match parseNats (a.getD "shape" "_"), optInt a "axis" with
    | some shape, some axis =>
      match sumShaped w.heap p shape axis with
      | .ok (dims, vals) =>
        if axis.isNone then (w, toString (vals.headD 0))
        else (w, "x".intercalate (dims.map toString) ++ ":" ++ showNats vals)
      | .error e => (w, perr e)
    | _, _ => bad "p.sumshape"
  | "p.fml" => withObj 0 fun p =>
    match p.fml w.heap (a.flag "mask") with
    | .ok f => (w, showFML w.heap p f)
    | .error e => (w, perr e)
  | "p.lut" => (w, showNats ((List.range 256).map fun n => (bitCount (BitVec.ofNat 8 n)).toNat))
  | "p.dump" =>
    let vs := w.views.mergeSort fun x y => !(y.1 < x.1)
    (w, showList (fun (x : String × PBA) => x.1 ++ "=" ++ showBits (toBools w.heap x.2)) vs)
  | "p.drop" =>
    match a.pos with
    | n :: _ => ({ w with views := w.views.filter (·.1 != n) }, "ok")
    | [] => bad "p.drop"
  | _ => (w, "bad-op:unknown-packed-op:" ++ op)

end HS
