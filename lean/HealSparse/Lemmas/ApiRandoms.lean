/-
  C20 at the driver level: what the answer of the protocol operation `rand` pins down.

  `opRand` (Model/Dispatch.lean) never looks at the world: the real generators are run by the
  harness with a recording proxy around a seeded RandomState, the protocol line carries the
  recorded draws, and the model recomputes from them what the bookkeeping and arithmetic of
  healSparseRandoms.py must produce.  Here: the answer as an explicit function of the parsed
  fields of the argument record (`randAnswer`, `fastAnswer`, `uniformAnswer`), the labelling of
  the candidate stream (`parseBatches`), and the facts about the three parts — fast generator,
  rejection loop, window choice — in the form the property theorems of Props/C20.lean use.

  TRUSTED (outside Lean, by design of this partial property): the recording proxy and the
  harness code that builds the line (`vp=` is `np.sort(m.valid_pixels)` of the REAL map, the
  validity flags of the candidates are `get_values_pos(valid_mask=True)` of the real map, the
  interval lists are recomputed from hpgeom), hpgeom's geometry (`pixel_to_angle`,
  `angle_to_pixel`, pixel extents), numpy's RNG (same seed ⇒ same draws), the statistics
  (`starved`).
-/
import HealSparse.Model.Dispatch
import HealSparse.Lemmas.Randoms
import HealSparse.Lemmas.Cat
import HealSparse.Lemmas.WFApi
namespace HS
namespace ApiRandoms

/-! ### the answer as a function of the argument record -/

/-- the candidate batches of a `batches=` token: one batch per `;`-separated group of `0`/`1`
    characters; candidate `j` of the whole stream is labelled `j` -/
def parseBatches (s : String) : List (List (Nat × Bool)) :=
  opRand.go ((s.splitOn ";").filter (· != "")) 0

/-- the interval lists of the `ivs=` / `rot=` tokens -/
def parseIvs (t : String) : Option (List (Int × Int)) :=
  (splitList t).mapM fun r => match r.splitOn ":" with
    | [x, y] => do let x ← x.toInt?; let y ← y.toInt?; pure (x, y)
    | _ => none

/-- the recorded draws of the fast generator are admissible: every chosen pixel is one of the
    listed valid pixels, every sub-pixel offset is below `2^shift`, and there are `n` of each -/
def fastOk (n : Nat) (vp ch sub : List Nat) (sh : Nat) : Bool :=
  ch.all (fun p => vp.contains p) && sub.all (· < 2 ^ sh) && ch.length == n && sub.length == n

/-- the pixels at the finer resolution the fast generator must return -/
def children (sh : Nat) (ch sub : List Nat) : List Nat := List.zipWith (fastChild sh) ch sub

/-- answer for `gen=fast` from the parsed fields -/
def fastAnswer (n : Nat) (vp ch sub : List Nat) (sh : Nat) : String :=
  if !fastOk n vp ch sub sh then "draws-out-of-range"
  else s!"len={n} valid=1 det=1 starved=0 child={showNats (children sh ch sub)}"

/-- the `sel=` token -/
def selToken (n : Nat) (batches : List (List (Nat × Bool))) : String :=
  match rejectionLoop n batches with
  | some l => showNats l
  | none => "none"

/-- the `win=` token -/
def winToken (nowin : Bool) (T thr : Int) (ivs rot : List (Int × Int)) : String :=
  if nowin then "na"
  else s!"{(chooseWindow T thr ivs rot).2.1}:{(chooseWindow T thr ivs rot).2.2}"

/-- answer for the rejection sampler from the parsed fields -/
def uniformAnswer (n : Nat) (batches : List (List (Nat × Bool))) (ivs rot : List (Int × Int))
    (T thr : Int) (nowin : Bool) : String :=
  s!"len={n} valid=1 det=1 starved=0 win={winToken nowin T thr ivs rot} sel={selToken n batches}"

/-- **the complete answer of `rand`**, a function of the KEY=VALUE part of the argument record
    alone -/
def randAnswer (a : Args) : String :=
  let n := (a.nat? "n").getD 0
  if a.getD "gen" "uniform" == "fast" then
    match parseNats (a.getD "vp" "_"), parseNats (a.getD "choice" "_"), parseNats (a.getD "sub" "_"),
          a.nat? "shift" with
    | some vp, some ch, some sub, some sh => fastAnswer n vp ch sub sh
    | _, _, _, _ => "bad-op:rand-fast"
  else
    match parseIvs (a.getD "ivs" "_"), parseIvs (a.getD "rot" "_"), (a.get? "T").bind String.toInt?,
          (a.get? "thr").bind String.toInt? with
    | some ivs, some rot, some T, some thr =>
      uniformAnswer n (parseBatches (a.getD "batches" "")) ivs rot T thr (a.flag "nowin")
    | _, _, _, _ => "bad-op:rand-uniform"

theorem opRand_eq (w : World) (a : Args) : opRand w a = (w, randAnswer a) := by
  unfold opRand randAnswer
  simp only []
  by_cases hg : (a.getD "gen" "uniform" == "fast") = true
  · rw [if_pos hg, if_pos hg]
    generalize parseNats (a.getD "vp" "_") = o1
    generalize parseNats (a.getD "choice" "_") = o2
    generalize parseNats (a.getD "sub" "_") = o3
    generalize a.nat? "shift" = o4
    cases o1 <;> cases o2 <;> cases o3 <;> cases o4 <;> try rfl
    unfold fastAnswer fastOk children
    simp only []
    split <;> rfl
  · rw [if_neg hg, if_neg hg]
    show (match parseIvs (a.getD "ivs" "_"), parseIvs (a.getD "rot" "_"),
        (a.get? "T").bind String.toInt?, (a.get? "thr").bind String.toInt? with
      | some ivs, some rot, some T, some thr => _
      | _, _, _, _ => _) = _
    generalize parseIvs (a.getD "ivs" "_") = o1
    generalize parseIvs (a.getD "rot" "_") = o2
    generalize (a.get? "T").bind String.toInt? = o3
    generalize (a.get? "thr").bind String.toInt? = o4
    cases o1 <;> cases o2 <;> cases o3 <;> cases o4 <;> rfl

theorem stepArgs_rand (w : World) (a : Args) : stepArgs w "rand" a = opRand w a := by rfl

/-! ### the fast generator -/

theorem fastOk_iff (n : Nat) (vp ch sub : List Nat) (sh : Nat) :
    fastOk n vp ch sub sh = true ↔
      (∀ p ∈ ch, p ∈ vp) ∧ (∀ s ∈ sub, s < 2 ^ sh) ∧ ch.length = n ∧ sub.length = n := by
  unfold fastOk
  simp only [Bool.and_eq_true, List.all_eq_true, List.contains_iff_mem, decide_eq_true_eq,
    beq_iff_eq]
  constructor
  · rintro ⟨⟨⟨a, b⟩, c⟩, d⟩; exact ⟨a, b, c, d⟩
  · rintro ⟨a, b, c, d⟩; exact ⟨⟨⟨a, b⟩, c⟩, d⟩

theorem fastAnswer_of_ok {n : Nat} {vp ch sub : List Nat} {sh : Nat} (h : fastOk n vp ch sub sh = true) :
    fastAnswer n vp ch sub sh =
      s!"len={n} valid=1 det=1 starved=0 child={showNats (children sh ch sub)}" := by
  unfold fastAnswer; rw [h]; rfl

theorem fastAnswer_of_not_ok {n : Nat} {vp ch sub : List Nat} {sh : Nat}
    (h : fastOk n vp ch sub sh = false) : fastAnswer n vp ch sub sh = "draws-out-of-range" := by
  unfold fastAnswer; rw [h]; rfl

/-- the refusal is not an answer any run of the real generator can give (those start `len=`) -/
theorem refusal_ne_len (n : Nat) (r : String) : "draws-out-of-range" ≠ s!"len={n}{r}" := by
  intro h
  have := congrArg String.toList h
  simp [toString] at this

/-- **the model refuses exactly the inadmissible draws** -/
theorem fastAnswer_refuses_iff (n : Nat) (vp ch sub : List Nat) (sh : Nat) :
    fastAnswer n vp ch sub sh = "draws-out-of-range" ↔ fastOk n vp ch sub sh = false := by
  constructor
  · intro h
    cases hok : fastOk n vp ch sub sh with
    | false => rfl
    | true =>
      rw [fastAnswer_of_ok hok] at h
      exact absurd h.symm (by
        have := refusal_ne_len n
          (" valid=1 det=1 starved=0 child=" ++ showNats (children sh ch sub))
        simpa [toString, String.append_assoc] using this)
  · exact fastAnswer_of_not_ok

/-- **a child lies under its parent iff the sub-pixel offset is in range** -/
theorem fastChild_parent_iff (s p sub : Nat) : fastChild s p sub >>> s = p ↔ sub < 2 ^ s := by
  rw [Randoms.fastChild_eq, Nat.shiftRight_eq_div_pow, Nat.mul_comm, Nat.mul_add_div (Nat.two_pow_pos s)]
  constructor
  · intro h
    have h0 : sub / 2 ^ s = 0 := by omega
    exact (Nat.div_eq_zero_iff_lt (Nat.two_pow_pos s)).1 h0
  · intro h
    rw [Nat.div_eq_of_lt h]; rfl

/-- an out-of-range offset puts the child under a LATER pixel than the one chosen -/
theorem fastChild_parent_gt (s p sub : Nat) (h : 2 ^ s ≤ sub) : p < fastChild s p sub >>> s := by
  rw [Randoms.fastChild_eq, Nat.shiftRight_eq_div_pow, Nat.mul_comm, Nat.mul_add_div (Nat.two_pow_pos s)]
  have : 0 < sub / 2 ^ s := Nat.div_pos h (Nat.two_pow_pos s)
  omega

theorem children_length {n : Nat} {vp ch sub : List Nat} {sh : Nat} (h : fastOk n vp ch sub sh = true) :
    (children sh ch sub).length = n := by
  obtain ⟨_, _, h3, h4⟩ := (fastOk_iff _ _ _ _ _).1 h
  unfold children
  rw [List.length_zipWith, h3, h4, Nat.min_self]

theorem children_getElem? (sh : Nat) (ch sub : List Nat) (i : Nat) :
    (children sh ch sub)[i]? = match ch[i]?, sub[i]? with
      | some p, some s => some (fastChild sh p s)
      | _, _ => none := by
  unfold children
  rw [List.getElem?_zipWith]
  cases ch[i]? <;> cases sub[i]? <;> rfl

/-- with admissible draws the `i`-th printed child is a sub-pixel of the `i`-th chosen pixel,
    which is one of the listed valid pixels -/
theorem children_parent {n : Nat} {vp ch sub : List Nat} {sh : Nat} (h : fastOk n vp ch sub sh = true)
    (i : Nat) (hi : i < n) :
    ∃ p s c, ch[i]? = some p ∧ sub[i]? = some s ∧ (children sh ch sub)[i]? = some c ∧
      c = fastChild sh p s ∧ c >>> sh = p ∧ p ∈ vp := by
  obtain ⟨h1, h2, h3, h4⟩ := (fastOk_iff _ _ _ _ _).1 h
  have hic : i < ch.length := by omega
  have his : i < sub.length := by omega
  refine ⟨ch[i], sub[i], fastChild sh ch[i] sub[i], List.getElem?_eq_getElem hic,
    List.getElem?_eq_getElem his, ?_, rfl, ?_, h1 _ (List.getElem_mem hic)⟩
  · rw [children_getElem?, List.getElem?_eq_getElem hic, List.getElem?_eq_getElem his]
  · exact Randoms.fastChild_shiftRight sh _ _ (h2 _ (List.getElem_mem his))

/-- every sub-pixel of every listed valid pixel is the answer to some admissible draw -/
theorem children_onto (vp : List Nat) (sh p c : Nat) (hp : p ∈ vp) (hc : c >>> sh = p) :
    ∃ s, fastOk 1 vp [p] [s] sh = true ∧ children sh [p] [s] = [c] := by
  obtain ⟨s, hs, he⟩ := Randoms.fastChild_onto sh p c hc
  refine ⟨s, (fastOk_iff _ _ _ _ _).2 ⟨?_, ?_, rfl, rfl⟩, ?_⟩
  · intro q hq; rw [List.mem_singleton] at hq; rw [hq]; exact hp
  · intro q hq; rw [List.mem_singleton] at hq; rw [hq]; exact hs
  · unfold children; simp [he]

/-! ### the candidate stream -/

theorem go_nil (off : Nat) : opRand.go [] off = [] := rfl

theorem go_cons (b : String) (rest : List String) (off : Nat) :
    opRand.go (b :: rest) off =
      (b.toList.zipIdx.map fun (ch, i) => (off + i, ch == '1')) ::
        opRand.go rest (off + b.toList.length) := rfl

/-- the flags of the whole candidate stream, in draw order -/
def streamChars (groups : List String) : List Char := groups.flatMap String.toList

/-- **labelling**: candidate `j` of the concatenated stream carries the label `off + j` -/
theorem go_flatten (groups : List String) (off : Nat) :
    (opRand.go groups off).flatten =
      ((streamChars groups).zipIdx off).map fun x => (x.2, x.1 == '1') := by
  induction groups generalizing off with
  | nil => rfl
  | cons b rest ih =>
    rw [go_cons, List.flatten_cons, ih]
    unfold streamChars
    rw [List.flatMap_cons, List.zipIdx_append, List.map_append]
    congr 1
    have e : b.toList.zipIdx off = List.map (Prod.map id fun x => x + off) (b.toList.zipIdx 0) := by
      rw [List.map_snd_add_zipIdx_eq_zipIdx]; rfl
    rw [e, List.map_map]
    apply List.map_congr_left
    intro x _
    simp only [Function.comp, Prod.map, id]
    rw [Nat.add_comm]

/-- the groups of a `batches=` token -/
def batchGroups (s : String) : List String := (s.splitOn ";").filter (· != "")

theorem parseBatches_flatten (s : String) :
    (parseBatches s).flatten =
      ((streamChars (batchGroups s)).zipIdx 0).map fun x => (x.2, x.1 == '1') :=
  go_flatten _ 0

/-- the labels of the stream are `0, 1, 2, …` -/
theorem parseBatches_labels (s : String) :
    (parseBatches s).flatten.map (·.1) = List.range (streamChars (batchGroups s)).length := by
  rw [parseBatches_flatten, List.map_map]
  have : ((fun x : Nat × Bool => x.1) ∘ fun x : Char × Nat => (x.2, x.1 == '1')) = Prod.snd := rfl
  rw [this, List.zipIdx_map_snd, List.range_eq_range']

/-- the number of valid candidates in the stream -/
def nValidCand (batches : List (List (Nat × Bool))) : Nat := ((batches.flatten).filter (·.2)).length

/-- the labels of the first `n` valid candidates, in stream order -/
def firstValid (n : Nat) (batches : List (List (Nat × Bool))) : List Nat :=
  (((batches.flatten).filter (·.2)).take n).map (·.1)

/-- **the `sel=` token**: the first `n` valid candidates of the stream if it holds `n` of
    them, `none` otherwise -/
theorem selToken_eq (n : Nat) (batches : List (List (Nat × Bool))) :
    selToken n batches =
      if n ≤ nValidCand batches then showNats (firstValid n batches) else "none" := by
  unfold selToken nValidCand firstValid
  rw [Randoms.rejectionLoop_eq]
  by_cases h : n ≤ (List.filter (fun x => x.snd) batches.flatten).length
  · rw [if_pos h, if_pos h]; rfl
  · rw [if_neg h, if_neg h]

theorem firstValid_length {n : Nat} {batches : List (List (Nat × Bool))} (h : n ≤ nValidCand batches) :
    (firstValid n batches).length = n := by
  unfold firstValid nValidCand at *
  rw [List.length_map, List.length_take]
  omega

/-- every selected label belongs to a candidate that was drawn and flagged valid -/
theorem firstValid_mem {n : Nat} {batches : List (List (Nat × Bool))} {k : Nat}
    (h : k ∈ firstValid n batches) : (k, true) ∈ batches.flatten :=
  Randoms.takeValid_mem n _ k h

/-- the selection is a prefix of the valid candidates: it does not depend on what follows the
    `n`-th valid candidate, nor on how the stream is cut into batches -/
theorem firstValid_flatten (n : Nat) (b₁ b₂ : List (List (Nat × Bool))) (h : b₁.flatten = b₂.flatten) :
    firstValid n b₁ = firstValid n b₂ := by
  unfold firstValid; rw [h]

/-- a candidate flagged valid in the parsed stream is a `1` at its own position of the token -/
theorem parseBatches_mem {s : String} {k : Nat} (h : (k, true) ∈ (parseBatches s).flatten) :
    (streamChars (batchGroups s))[k]? = some '1' := by
  rw [parseBatches_flatten, List.mem_map] at h
  obtain ⟨x, hx, he⟩ := h
  have h1 : x.2 = k := congrArg Prod.fst he
  have h2 : (x.1 == '1') = true := congrArg Prod.snd he
  have := List.mem_zipIdx_iff_getElem?.1 hx
  rw [h1] at this
  rw [this, eq_of_beq h2]

/-- **every selected label is the position of a `1` of the recorded stream** -/
theorem firstValid_stream {s : String} {n k : Nat} (h : k ∈ firstValid n (parseBatches s)) :
    (streamChars (batchGroups s))[k]? = some '1' :=
  parseBatches_mem (firstValid_mem h)

/-! ### the `vp=` token and a map object -/

/-- `vp` lists exactly the valid pixels of `m` (what the harness puts into the `vp=` token:
    `np.sort(m.valid_pixels)` of the REAL map — the driver does not check it) -/
def VpOf (m : MapObj) (vp : List Nat) : Prop :=
  ∀ p, p ∈ vp ↔ (p < m.npix ∧ m.vc.valid (m.abs p) = true)

/-- the valid-pixel listing of a well-formed, well-typed map object is such a list -/
theorem vpOf_validNat {m : MapObj} (hw : m.WF) (hk : m.KindOk) : VpOf m (validNat m.c m.vc m.st) :=
  fun p => mem_validNat m.c m.vc m.st hw.2 hk.blankInvalid p

/-! ### the window -/

/-- the list of intervals the chosen window is the hull of -/
theorem chooseWindow_eq (T thr : Int) (ivs rot : List (Int × Int)) :
    (chooseWindow T thr ivs rot).2 =
      raWindow T (if (chooseWindow T thr ivs rot).1 then rot else ivs) := by
  unfold chooseWindow
  simp only []
  split <;> rfl

/-- the rotated window is chosen iff it is narrower than the plain one by more than `thr` -/
theorem chooseWindow_rotated_iff (T thr : Int) (ivs rot : List (Int × Int)) :
    (chooseWindow T thr ivs rot).1 = true ↔
      (raWindow T rot).2 - (raWindow T rot).1 < ((raWindow T ivs).2 - (raWindow T ivs).1) - thr := by
  unfold chooseWindow
  simp only []
  split
  · rename_i h; exact ⟨fun _ => h, fun _ => rfl⟩
  · rename_i h; exact ⟨(fun hc => by cases hc), fun hc => absurd hc h⟩

end ApiRandoms
end HS
