/-
  C19 — degrade-on-read equals reading and then degrading.
  Property theorems only (helpers in HealSparse/Lemmas).
-/
import HealSparse.Lemmas.Core
import HealSparse.Lemmas.Coverage
import HealSparse.Lemmas.Valid
import HealSparse.Lemmas.Resolution
import HealSparse.Lemmas.FitsIO
import HealSparse.Lemmas.DegradeOnRead
import HealSparse.Model.DegradeOnRead
import HealSparse.Props.C03
import HealSparse.Props.C07
import HealSparse.Lemmas.ApiDor
namespace HS
namespace C19

variable {V W : Type} [DecidableEq V] [DecidableEq W]

/-- reading then degrading in memory (the reference path) -/
def readThenDegrade (c : Cfg) (vc : VCfg V) (f : FitsFile V) (pixels : Option (List Nat)) (g : Nat)
    (red : List V → W) (sentOut : W) : Option (State W) :=
  match pixels with
  | none => some (degradeMap c vc (readFull f) g red sentOut)
  | some l => (readPartial c vc f l).map fun r => degradeMap c vc r g red sentOut

/-- **C19 (unweighted)**: for a file written from any well-formed map (any block order), any
    reduction, any output resolution ≥ the coverage resolution and any pixel request (none,
    or any list incl. uncovered pixels and pixels beyond the last covered one), degrade-on-read
    is rejected exactly when read-then-degrade is, and otherwise both yield well-formed maps
    with the same value at every pixel and the same coverage mask. -/
theorem dor_eq (c : Cfg) (vc : VCfg V) (vcOut : VCfg W) (s : State V) (pixels : Option (List Nat))
    (g : Nat) (red : List V → W) (h : Inv c vc s) (hg : g ≤ c.shift) :
    (degradeOnRead c vc (writeFits s) pixels g red vcOut.sentinel = none ↔
      readThenDegrade c vc (writeFits s) pixels g red vcOut.sentinel = none) ∧
    ∀ a b, degradeOnRead c vc (writeFits s) pixels g red vcOut.sentinel = some a →
      readThenDegrade c vc (writeFits s) pixels g red vcOut.sentinel = some b →
      Inv (degCfg c g) vcOut a ∧ Inv (degCfg c g) vcOut b ∧
      (∀ q, q < (degCfg c g).npix → abs (degCfg c g) vcOut a q = abs (degCfg c g) vcOut b q) ∧
      (∀ k, k < c.ncov → covered (degCfg c g) a k = covered (degCfg c g) b k) := by
  rw [degradeOnRead_writeFits]
  cases pixels with
  | none =>
    rw [dorPixels_none]
    simp only [readThenDegrade, Option.map_some, C03.read_write_id]
    refine ⟨by simp, ?_⟩
    intro a b ha hb
    cases ha
    cases hb
    have hpx : ∀ k ∈ allCovered c s, k < c.ncov ∧ covered c s k = true :=
      fun k hk => (mem_allCovered c s k).1 hk
    obtain ⟨i1, a1, c1⟩ := h.dor_spec hg vcOut red _ (nodup_allCovered c s) hpx
    obtain ⟨i2, a2, c2⟩ := C07.degrade_spec c vc vcOut s g red h hg
    refine ⟨i1, i2, ?_, ?_⟩
    · intro q hq
      rw [a1 q hq, a2 q hq]
      have hk : q >>> (c.shift - g) < c.ncov := covpix_lt (degCfg c g) q hq
      by_cases hc : covered c s (q >>> (c.shift - g)) = true
      · rw [if_pos ((mem_allCovered c s _).2 ⟨hk, hc⟩), if_pos hc]
      · rw [if_neg (fun hm => hc ((mem_allCovered c s _).1 hm).2), if_neg hc]
    · intro k hk
      rw [c1 k hk, c2 k hk, Bool.eq_iff_iff, decide_eq_true_eq, mem_allCovered]
      exact ⟨fun hm => hm.2, fun hc => ⟨hk, hc⟩⟩
  | some l =>
    simp only [readThenDegrade]
    constructor
    · rw [Option.map_eq_none_iff, Option.map_eq_none_iff]
      exact dorPixels_eq_none_iff c vc s l
    · intro a b ha hb
      cases hdp : dorPixels c (writeFits s) (some l) with
      | none => rw [hdp] at ha; cases ha
      | some px =>
        obtain ⟨hnd, epx, hrp⟩ := dorPixels_some_eq_some c vc s l px hdp
        rw [hdp] at ha
        rw [hrp] at hb
        simp only [Option.map_some, Option.some.injEq] at ha hb
        subst ha hb
        have hpnd : px.Nodup := by rw [epx]; exact nodup_partialPixels c s l hnd
        have hpx : ∀ k ∈ px, k < c.ncov ∧ covered c s k = true := by
          intro k hk
          rw [epx] at hk
          exact ((mem_partialPixels c s l k).1 hk).2
        have hr : Inv c vc (partialState c vc s px) :=
          inv_partialState c vc s px h hpnd (fun k hk => (hpx k hk).1)
        obtain ⟨i1, a1, c1⟩ := h.dor_spec hg vcOut red px hpnd hpx
        obtain ⟨i2, a2, c2⟩ := C07.degrade_spec c vc vcOut (partialState c vc s px) g red hr hg
        refine ⟨i1, i2, ?_, ?_⟩
        · intro q hq
          rw [a1 q hq, a2 q hq]
          have hk : q >>> (c.shift - g) < c.ncov := covpix_lt (degCfg c g) q hq
          rw [partialState_covered c vc s px hpnd _ hk]
          by_cases hm : (q >>> (c.shift - g)) ∈ px
          · rw [if_pos hm, if_pos (decide_eq_true hm),
              childrenVals_partialState hg px hpnd hpx hq hm]
          · rw [if_neg hm, if_neg (by simpa using hm)]
        · intro k hk
          rw [c1 k hk, c2 k hk, partialState_covered c vc s px hpnd k hk]

/-- **C19 (whole-file form, spelled out)**: with no pixel request, degrade-on-read of a written
    file equals the in-memory degrade of the map that was written, pixel for pixel. -/
theorem dor_full (c : Cfg) (vc : VCfg V) (vcOut : VCfg W) (s : State V) (g : Nat) (red : List V → W)
    (h : Inv c vc s) (hg : g ≤ c.shift) :
    ∃ a, degradeOnRead c vc (writeFits s) none g red vcOut.sentinel = some a ∧
      Inv (degCfg c g) vcOut a ∧
      (∀ q, q < (degCfg c g).npix → abs (degCfg c g) vcOut a q
          = abs (degCfg c g) vcOut (degradeMap c vc s g red vcOut.sentinel) q) ∧
      (∀ k, k < c.ncov → covered (degCfg c g) a k = covered c s k) := by
  have hpx : ∀ k ∈ allCovered c s, k < c.ncov ∧ covered c s k = true :=
    fun k hk => (mem_allCovered c s k).1 hk
  obtain ⟨i1, a1, c1⟩ := h.dor_spec hg vcOut red _ (nodup_allCovered c s) hpx
  obtain ⟨_, a2, _⟩ := C07.degrade_spec c vc vcOut s g red h hg
  refine ⟨_, by rw [degradeOnRead_writeFits, dorPixels_none]; rfl, i1, ?_, ?_⟩
  · intro q hq
    rw [a1 q hq, a2 q hq]
    have hk : q >>> (c.shift - g) < c.ncov := covpix_lt (degCfg c g) q hq
    by_cases hc : covered c s (q >>> (c.shift - g)) = true
    · rw [if_pos ((mem_allCovered c s _).2 ⟨hk, hc⟩), if_pos hc]
    · rw [if_neg (fun hm => hc ((mem_allCovered c s _).1 hm).2), if_neg hc]
  · intro k hk
    rw [c1 k hk, Bool.eq_iff_iff, decide_eq_true_eq, mem_allCovered]
    exact ⟨fun hm => hm.2, fun hc => ⟨hk, hc⟩⟩

/-- **C19 (weighted)**: with a weight file written from any well-formed weight map `ws` that
    covers every coverage pixel read (its blocks may be in any other order), the weighted
    degrade-on-read holds, at every coarse pixel inside the coverage read, the reduction of the
    (value, prepared weight) pairs of its children in NEST order — the same pairs the in-memory
    weighted degrade sees (`C07.degradeW_spec` with `wOf p = prep (weight map value at p)`). -/
theorem dorW_spec {X : Type} [DecidableEq X] (c : Cfg) (vc : VCfg V) (vcX : VCfg X) (vcOut : VCfg W)
    (s : State V) (ws : State X) (prep : X → X) (g : Nat) (red : List (V × X) → W)
    (h : Inv c vc s) (hw : Inv c vcX ws) (hg : g ≤ c.shift)
    (hcov : ∀ k, k < c.ncov → covered c s k = true → covered c ws k = true) :
    ∃ a, degradeOnReadW c vc (writeFits s) (writeFits ws) vcX.sentinel prep none g red vcOut.sentinel = some a ∧
      Inv (degCfg c g) vcOut a ∧
      (∀ q, q < (degCfg c g).npix →
        abs (degCfg c g) vcOut a q
          = if covered c s (q >>> (c.shift - g))
            then red ((List.range (2 ^ g)).map fun j =>
                   (abs c vc s (q * 2 ^ g + j), prep (abs c vcX ws (q * 2 ^ g + j))))
            else vcOut.sentinel) := by
  have hpx : ∀ k ∈ allCovered c s,
      k < c.ncov ∧ covered c s k = true ∧ covered c ws k = true := by
    intro k hk
    have := (mem_allCovered c s k).1 hk
    exact ⟨this.1, this.2, hcov k this.1 this.2⟩
  obtain ⟨i1, a1⟩ := h.dorW_spec' hw hg vcOut prep red _ (nodup_allCovered c s) hpx
  refine ⟨_, by rw [degradeOnReadW_writeFits, dorPixels_none]; rfl, i1, ?_⟩
  intro q hq
  rw [a1 q hq]
  have hk : q >>> (c.shift - g) < c.ncov := covpix_lt (degCfg c g) q hq
  by_cases hc : covered c s (q >>> (c.shift - g)) = true
  · rw [if_pos ((mem_allCovered c s _).2 ⟨hk, hc⟩), if_pos hc]
  · rw [if_neg (fun hm => hc ((mem_allCovered c s _).1 hm).2), if_neg hc]

/-- non-vacuity: out-of-order blocks, request with an uncovered pixel and one beyond the last covered -/
example : (degradeOnRead (V := Int) (W := Int) ⟨4, 1⟩ ⟨-1, fun x => x != -1⟩
    (writeFits ⟨#[4, -2, -2, -6], #[-1, -1, 7, -1, 3, 9]⟩) (some [3, 2, 1]) 1
    (fun l => (l.filter (· != -1)).foldl (· + ·) 0) (-1)).map (·.sp) = some #[-1, 7] := by
  decide +kernel


/-! ## C19 at the API level

`apiDegradeOnRead f ordOut red pixels wf` (`HealSparseMap.read(file, degrade_nside=…,
reduction=…, pixels=…, weightfile=…)`) against the reference path `apiReadThenDegrade`
(`read(file, pixels=…)`, `read(weightfile, pixels=…)`, then `degrade(…, weights=…)`), for every
well-formed file `f` (`f.WF`, e.g. `apiWrite m md` of any `m.Ok`): argument validation, kind
recovery from the header, per-kind reductions, output dtype / sentinel rules, pixel subsets and
the weight-file checks included.  Helpers: Lemmas/ApiDor.lean.

`Agree x y`: `Err.inexact` on either side is no claim; otherwise both are rejected, or both
succeed with `MapObj.SameAs` results (equal `covord`, `spord`, `kind`, `sent`, `C10.Same`
states).  `AgreeS` adds: the two rejections are the same exception class.

What is TRUE (proved below):
 * no weight file, `nside_coverage ≤ nside_out < nside_sparse`, every kind, every reduction name,
   every pixel request: `AgreeS` (`api_dor_unweighted_partial`), except that
     – a BOOLEAN map with `and` / `or` is degraded on read but REJECTED in memory
       (`api_dor_bool_andor`: proved for every boolean file — FINDING);
     – `wmean` without weights on a wide mask raises different classes (`Agree` only);
     – (model typing) an integer file must not hold `Val.bool` cells for `and` / `or`.
 * a weight file with another reduction than `wmean` is ignored by both paths
   (`api_dor_ignored_weightfile`).
 * `wmean` with a weight file: whenever both paths succeed the results are `SameAs`
   (`api_dor_weighted_same_partial`), except for F47 (float32 map, float64 weights: `hF47`).
   The rejections: in memory the two maps read must have the same valid pixels (H2); on read
   (after the `fix:` commit for the defect `weights_empty_block` found here) the weight file
   must cover every processed coverage pixel in which the map has an observed pixel — which
   FOLLOWS from H2.  Under H2 the two paths agree (`api_dor_weighted_partial`; H0: a pixel
   request must touch the weight file's coverage, else the reference path cannot read it).
   H2 is necessary in memory (`api_rtd_weighted_needs_H2`) but NOT checked on read: known
   finding F68, `weights_extra_valid`.  What the on-read check amounts to:
   `api_dor_weighted_needs_H1`.
 * kind recovery, accepted reductions, output dtype and sentinel of every successful call:
   `api_dor_ok_rules` (on read), `api_rtd_ok_rules` (in memory).
 * outside the range degrade-on-read always raises (`api_dor_out_of_range`) while the in-memory
   path returns a copy at `nside_out = nside_sparse` (`api_rtd_at_sparse_order`) and re-houses
   below the coverage resolution.
-/

open ApiDor

/-- **C19, API level, no weight file** (exception classes included) -/
theorem api_dor_unweighted_partial {f : FileObj} (hf : f.WF) {ordOut : Nat} (hlo : f.covord ≤ ordOut)
    (hhi : ordOut < f.spord) (red : String) (pixels : Option (List Nat))
    (hbool : fileKind f = some (.plain .bool) → (red == "and" || red == "or") = false)
    (hty : ∀ b sg, fileKind f = some (.plain (.int b sg)) → (red == "and" || red == "or") = true →
      ∀ v ∈ f.file.data.toList, v.isBoolV = false)
    (hww : ∀ n, fileKind f = some (.wide n) → (red == "wmean") = false) :
    AgreeS (apiDegradeOnRead f ordOut red pixels none)
      (apiReadThenDegrade f ordOut red pixels none) :=
  dor_unweighted hf hlo hhi red pixels hbool hty hww

/-- the same without the exception-class claim: `wmean` on a wide mask is not excluded -/
theorem api_dor_unweighted_agree_partial {f : FileObj} (hf : f.WF) {ordOut : Nat} (hlo : f.covord ≤ ordOut)
    (hhi : ordOut < f.spord) (red : String) (pixels : Option (List Nat))
    (hbool : fileKind f = some (.plain .bool) → (red == "and" || red == "or") = false)
    (hty : ∀ b sg, fileKind f = some (.plain (.int b sg)) → (red == "and" || red == "or") = true →
      ∀ v ∈ f.file.data.toList, v.isBoolV = false) :
    Agree (apiDegradeOnRead f ordOut red pixels none)
      (apiReadThenDegrade f ordOut red pixels none) :=
  dor_unweighted_agree hf hlo hhi red pixels hbool hty

/-- **a weight file is ignored unless the reduction is `wmean`**, by degrade-on-read always and
    by the reference path as soon as the weight file can be read with the pixel request -/
theorem api_dor_ignored_weightfile (f w : FileObj) {ordOut : Nat} {red : String}
    (hred : (red == "wmean") = false) (pixels : Option (List Nat)) :
    apiDegradeOnRead f ordOut red pixels (some w) = apiDegradeOnRead f ordOut red pixels none ∧
    (f.covord ≤ ordOut → ordOut < f.spord → ∀ wm, apiRead w pixels = .ok wm →
      apiReadThenDegrade f ordOut red pixels (some w) = apiReadThenDegrade f ordOut red pixels none) :=
  ⟨dor_ignored_weights f w ordOut hred pixels,
    fun hlo hhi _ hwr => rtd_ignored_weights hlo hhi hred hwr⟩

/-- **C19, API level, `wmean` with a weight file: the results** -/
theorem api_dor_weighted_same_partial {f w : FileObj} (hf : f.WF) (hfk : f.KindOk) (hw : w.WF)
    {ordOut : Nat} {pixels : Option (List Nat)} {a b : MapObj}
    (hL : apiDegradeOnRead f ordOut "wmean" pixels (some w) = .ok a)
    (hR : apiReadThenDegrade f ordOut "wmean" pixels (some w) = .ok b)
    (hF47 : ∀ dt0, fileKind f = some (.plain dt0) → fileKind w = some (.plain (.flt 64)) →
      auxDT dt0 = .flt 64) : a.SameAs b :=
  dor_weighted_same hf hfk hw hL hR hF47

/-- **C19, API level, `wmean` with a weight file: the rejections** (PARTIAL in H2: F68,
    `weights_extra_valid`; and in H0: `weights_request_outside`).  The on-read weight-coverage
    check needs no hypothesis: it follows from H2. -/
theorem api_dor_weighted_partial {f w : FileObj} (hf : f.WF) (hfk : f.KindOk) (hw : w.WF)
    (hbp : w.bitpack = true → w.arrDT = "u1")
    {ordOut : Nat} (hlo : f.covord ≤ ordOut) (hhi : ordOut < f.spord) (pixels : Option (List Nat))
    (H0 : ∀ l, pixels = some l →
      ∃ k ∈ l, k < (fCfg w).ncov ∧ covered (fCfg w) (readFull w.file) k = true)
    (H2 : ∀ r wm, apiRead f pixels = .ok r → apiRead w pixels = .ok wm → wm.covord = r.covord →
      wm.spord = r.spord → ∀ p, p < r.npix → r.vc.valid (r.abs p) = wm.vc.valid (wm.abs p))
    (hF47 : ∀ dt0, fileKind f = some (.plain dt0) → fileKind w = some (.plain (.flt 64)) →
      auxDT dt0 = .flt 64) :
    Agree (apiDegradeOnRead f ordOut "wmean" pixels (some w))
      (apiReadThenDegrade f ordOut "wmean" pixels (some w)) :=
  dor_weighted hf hfk hw hbp hlo hhi pixels H0 H2 hF47

/-- outside `nside_coverage ≤ nside_out < nside_sparse` degrade-on-read always raises -/
theorem api_dor_out_of_range (f : FileObj) {ordOut : Nat} (h : ordOut ≥ f.spord ∨ ordOut < f.covord)
    (red : String) (pixels : Option (List Nat)) (wf : Option FileObj) :
    ∃ e, apiDegradeOnRead f ordOut red pixels wf = .error e :=
  dor_out_of_range f h red pixels wf

/-- … while at `nside_out = nside_sparse` the reference path returns the map read -/
theorem api_rtd_at_sparse_order {f : FileObj} (hf : f.WF) {pixels : Option (List Nat)} {r : MapObj}
    (hr : apiRead f pixels = .ok r) (hnp : (r.kind == Kind.packed) = false) (red : String) :
    apiReadThenDegrade f f.spord red pixels none = .ok { r with cache := none } :=
  rtd_at_sparse_order hf.1 hr hnp red

/-- **FINDING**: every boolean file is degraded on read with `and` / `or`, and rejected by
    read-then-degrade -/
theorem api_dor_bool_andor {f : FileObj} (hf : f.WF) (hk : fileKind f = some (.plain .bool))
    {ordOut : Nat} (hlo : f.covord ≤ ordOut) (hhi : ordOut < f.spord) {red : String}
    (hao : red = "and" ∨ red = "or") {pixels : Option (List Nat)} {px : List Nat}
    (hpx : dorPixels (fCfg f) f.file pixels = some px) :
    (∃ a, apiDegradeOnRead f ordOut red pixels none = .ok a) ∧
      apiReadThenDegrade f ordOut red pixels none = .error .value :=
  dor_bool_andor hf hk hlo hhi hao hpx

/-- **what a successful degrade-on-read returns**: kind recovery from the header, the reductions
    each kind accepts (`dorAccepts`), the output dtype rule (`dorOutKind`: integer and boolean →
    float64 except under `and` / `or`, float32 stays float32, records field by field, wide masks
    unchanged) and the output sentinel rule (`dorOutSent`) -/
theorem api_dor_ok_rules {f : FileObj} {ordOut : Nat} {red : String} {pixels : Option (List Nat)}
    {wf : Option FileObj} {a : MapObj} (h : apiDegradeOnRead f ordOut red pixels wf = .ok a) :
    ∃ kind, fileKind f = some kind ∧ f.bitpack = false ∧ f.covord ≤ ordOut ∧ ordOut < f.spord ∧
      a.covord = f.covord ∧ a.spord = ordOut ∧ a.kind = dorOutKind kind red ∧
      a.sent = dorOutSent kind f.sentinel red ∧ dorAccepts kind red = true ∧
      ((red == "wmean") = true → ∃ w, wf = some w) :=
  dor_ok_rules h

/-- **what a successful read-then-degrade returns** (in range): the in-memory acceptance rule
    `coreAccepts` (no `and` / `or` on boolean maps) and dtype rule `coreOutKind` (a float64 weight
    map makes the `wmean` result float64) — compare `api_dor_ok_rules` -/
theorem api_rtd_ok_rules {f : FileObj} {ordOut : Nat} (hlo : f.covord ≤ ordOut) (hhi : ordOut < f.spord)
    {red : String} {pixels : Option (List Nat)} {wf : Option FileObj} {b : MapObj}
    (h : apiReadThenDegrade f ordOut red pixels wf = .ok b) :
    ∃ kind w', fileKind f = some kind ∧ f.bitpack = false ∧
      (∀ w, wf = some w → ∃ wm, apiRead w pixels = .ok wm ∧ w' = some wm) ∧ (wf = none → w' = none) ∧
      b.covord = f.covord ∧ b.spord = ordOut ∧ b.kind = coreOutKind kind red w' ∧
      coreAccepts kind red = true :=
  rtd_ok_rules hlo hhi h

/-- what the on-read weight checks amount to: a successful `wmean` degrade-on-read means the
    weight file has the map's resolutions and covers every coverage pixel processed in which the
    map has an observed pixel (`ApiDor.observed`) -/
theorem api_dor_weighted_needs_H1 {f w : FileObj} {ordOut : Nat} {pixels : Option (List Nat)}
    {a : MapObj} (h : apiDegradeOnRead f ordOut "wmean" pixels (some w) = .ok a) :
    w.covord = f.covord ∧ w.spord = f.spord ∧
      ∃ px kind, dorPixels (fCfg f) f.file pixels = some px ∧ fileKind f = some kind ∧
        ∀ k ∈ px, covered (fCfg f) (readFull w.file) k = true ∨ observed f kind k = false :=
  dor_weighted_ok_H1 h

/-- H2 is NECESSARY in memory: a successful `wmean` read-then-degrade means the two maps read
    have the same valid pixels -/
theorem api_rtd_weighted_needs_H2 {f w : FileObj} (hf : f.WF) (hfk : f.KindOk) (hw : w.WF)
    {ordOut : Nat} (hlo : f.covord ≤ ordOut) (hhi : ordOut < f.spord)
    {pixels : Option (List Nat)} {b : MapObj}
    (h : apiReadThenDegrade f ordOut "wmean" pixels (some w) = .ok b) :
    ∃ r wm, apiRead f pixels = .ok r ∧ apiRead w pixels = .ok wm ∧ wm.covord = r.covord ∧
      wm.spord = r.spord ∧ ∀ p, p < r.npix → r.vc.valid (r.abs p) = wm.vc.valid (wm.abs p) :=
  rtd_weighted_ok_H2 hf hfk hw hlo hhi h

/-! ### files written from map objects -/

theorem apiWrite_bitpack (m : MapObj) (md : List (String × String)) :
    (apiWrite m md).bitpack = true → (apiWrite m md).arrDT = "u1" := by
  unfold apiWrite
  cases hk : m.kind with
  | plain dt => cases dt <;> simp
  | _ => simp

/-- what a full read of a written file returns -/
theorem apiRead_written {m : MapObj} (hs : m.SentOK) {md : List (String × String)} {r : MapObj}
    (h : apiRead (apiWrite m md) none = .ok r) :
    r.covord = m.covord ∧ r.spord = m.spord ∧ r.sent = m.sent ∧ r.st = m.st ∧ r.vc = m.vc := by
  obtain ⟨kind, hk, h1, h2, h3, h4, _, _, h5, _⟩ := apiRead_ok h
  obtain ⟨e1, e2⟩ := fileKind_apiWrite m md hs kind hk
  refine ⟨h1, h2, h4, h5 rfl, ?_⟩
  unfold MapObj.vc
  rw [h3, h4]
  show (⟨kind.blank m.sent, kind.valid m.sent⟩ : VCfg Val) = _
  rw [e1, e2]

/-- **C19, API level, for a written map, no weight file** -/
theorem api_dor_written_unweighted_partial {m : MapObj} (hm : m.Ok) (md : List (String × String))
    {ordOut : Nat} (hlo : m.covord ≤ ordOut) (hhi : ordOut < m.spord) (red : String)
    (pixels : Option (List Nat))
    (hbool : fileKind (apiWrite m md) = some (.plain .bool) → (red == "and" || red == "or") = false)
    (hty : (red == "and" || red == "or") = true → ∀ v ∈ m.st.sp.toList, v.isBoolV = false) :
    Agree (apiDegradeOnRead (apiWrite m md) ordOut red pixels none)
      (apiReadThenDegrade (apiWrite m md) ordOut red pixels none) :=
  api_dor_unweighted_agree_partial (Ok.apiWrite md hm).1 hlo hhi red pixels hbool (fun _ _ _ hao => hty hao)

/-- **C19, API level, for written map and weight map, whole-file read** (PARTIAL in H2 — same
    valid pixels; F68) -/
theorem api_dor_written_weighted_partial {m wm : MapObj} (hm : m.Ok) (hwm : wm.Ok)
    (md md' : List (String × String)) {ordOut : Nat} (hlo : m.covord ≤ ordOut)
    (hhi : ordOut < m.spord)
    (H2 : wm.covord = m.covord → wm.spord = m.spord →
      ∀ p, p < m.npix → m.vc.valid (m.abs p) = wm.vc.valid (wm.abs p))
    (hF47 : ∀ dt0, fileKind (apiWrite m md) = some (.plain dt0) →
      fileKind (apiWrite wm md') = some (.plain (.flt 64)) → auxDT dt0 = .flt 64) :
    Agree (apiDegradeOnRead (apiWrite m md) ordOut "wmean" none (some (apiWrite wm md')))
      (apiReadThenDegrade (apiWrite m md) ordOut "wmean" none (some (apiWrite wm md'))) := by
  obtain ⟨hf, hfk⟩ := Ok.apiWrite md hm
  refine api_dor_weighted_partial hf hfk (Ok.apiWrite md' hwm).1 (apiWrite_bitpack wm md') hlo hhi none
    (fun l hl => nomatch hl) ?_ hF47
  intro r wr hr hwr hco hso p hp
  obtain ⟨r1, r2, _, r4, r5⟩ := apiRead_written hm.2.2 hr
  obtain ⟨w1, w2, _, w4, w5⟩ := apiRead_written hwm.2.2 hwr
  have hco' : wm.covord = m.covord := by rw [← w1, ← r1]; exact hco
  have hso' : wm.spord = m.spord := by rw [← w2, ← r2]; exact hso
  have hp' : p < m.npix := by
    have : r.npix = m.npix := by unfold MapObj.npix MapObj.c; rw [r1, r2]
    rw [← this]; exact hp
  have ea : r.abs p = m.abs p := by
    unfold MapObj.abs MapObj.c; rw [r1, r2, r4, r5]
  have eb : wr.abs p = wm.abs p := by
    unfold MapObj.abs MapObj.c; rw [w1, w2, w4, w5]
  rw [ea, eb, r5, w5]
  exact H2 hco' hso' p hp'

/-- the reference path SUCCEEDS for a written float map and a written float weight map with the
    same resolutions and the same valid pixels (whole-file read); the result is float64 as soon
    as the weights are -/
theorem rtd_written_weighted_ok {m wm : MapObj} (hm : m.Ok) (hwm : wm.Ok)
    (md md' : List (String × String)) {ordOut : Nat} (hlo : m.covord ≤ ordOut)
    (hhi : ordOut < m.spord) {b0 wb : Nat}
    (hk : fileKind (apiWrite m md) = some (.plain (.flt b0)))
    (hwk : fileKind (apiWrite wm md') = some (.plain (.flt wb)))
    (hco : wm.covord = m.covord) (hso : wm.spord = m.spord) (hfit : cellsFitF64 m.st.sp = true)
    (H2 : ∀ p, p < m.npix → m.vc.valid (m.abs p) = wm.vc.valid (wm.abs p)) :
    ∃ b, apiReadThenDegrade (apiWrite m md) ordOut "wmean" none (some (apiWrite wm md')) = .ok b ∧
      b.kind = .plain (if wb = 64 then .flt 64 else .flt b0) := by
  obtain ⟨hf, hfk⟩ := Ok.apiWrite md hm
  have hw := (Ok.apiWrite md' hwm).1
  have hpx : dorPixels (fCfg (apiWrite m md)) (apiWrite m md).file none
      = some (allCovered (fCfg (apiWrite m md)) (readFull (apiWrite m md).file)) := rfl
  obtain ⟨rst, hread, hro, _, _, hfull, _⟩ := read_facts hf hk hpx
  obtain ⟨hrst, _⟩ := hfull rfl
  have hwr : apiRead (apiWrite wm md') none
      = .ok (readMap (apiWrite wm md') (.plain (.flt wb)) (readFull (apiWrite wm md').file)) := by
    rw [apiRead_eq]; unfold readSpec; simp only [hwk]; rfl
  obtain ⟨e1, e2⟩ := fileKind_apiWrite m md hm.2.2 _ hk
  obtain ⟨w1, w2⟩ := fileKind_apiWrite wm md' hwm.2.2 _ hwk
  have hv : ∀ p, p < (fCfg (apiWrite m md)).npix →
      (fVC (apiWrite m md) (.plain (.flt b0))).valid
        (abs (fCfg (apiWrite m md)) (fVC (apiWrite m md) (.plain (.flt b0))) rst p)
      = (fVC (apiWrite wm md') (.plain (.flt wb))).valid
        (abs (fCfg (apiWrite m md)) (fVC (apiWrite wm md') (.plain (.flt wb)))
          (readFull (apiWrite wm md').file) p) := by
    intro p hp
    have ev : fVC (apiWrite m md) (.plain (.flt b0)) = m.vc := by
      show (⟨_, _⟩ : VCfg Val) = ⟨_, _⟩
      rw [WFFiles.apiWrite_sentinel, e1, e2]
    have ew : fVC (apiWrite wm md') (.plain (.flt wb)) = wm.vc := by
      show (⟨_, _⟩ : VCfg Val) = ⟨_, _⟩
      rw [WFFiles.apiWrite_sentinel, w1, w2]
    rw [ev, ew, hrst]
    have := H2 p hp
    unfold MapObj.abs MapObj.c at this
    rw [hco, hso] at this
    exact this
  obtain ⟨arr, _, heval⟩ := rtd_weighted_eval (f := apiWrite m md) (w := apiWrite wm md') hfk hw hk rfl
    hlo hhi hread hro.inv hwr hco hso hv
  rw [heval]
  have hfit' : cellsFitF64 (readMap (apiWrite m md) (.plain (.flt b0)) rst).st.sp = true := by
    rw [hrst]; exact hfit
  obtain ⟨r, hr, hkind⟩ := coreRest_wmean_plain_flt (readMap (apiWrite m md) (.plain (.flt b0)) rst)
    ordOut rfl hfit' (some (readMap (apiWrite wm md') (.plain (.flt wb))
      (readFull (apiWrite wm md').file))) (some arr)
  refine ⟨r, hr, ?_⟩
  rw [hkind]
  by_cases hwb : wb = 64
  · subst hwb; rfl
  · rw [if_neg hwb, if_neg]
    intro hc
    obtain ⟨x, hx, hxk⟩ := isF64_true hc
    cases hx
    simp only [readMap] at hxk
    injection hxk with h1
    injection h1 with h2
    exact hwb h2

/-! ### concrete objects: counterexamples and non-vacuity -/

namespace ApiWitness

def okMap (x : Except Err MapObj) : MapObj :=
  match x with
  | .ok m => m
  | .error _ => WFApi.blankMap (.plain .bool) (.bool false)

def isOk (x : Except Err MapObj) : Bool := match x with | .ok _ => true | .error _ => false
def errIs (x : Except Err MapObj) (e : Err) : Bool :=
  match x with | .error e' => decide (e' = e) | .ok _ => false
def ok2 (x y : Except Err MapObj) (p : MapObj → MapObj → Bool) : Bool :=
  match x, y with | .ok a, .ok b => p a b | _, _ => false

theorem ok2_elim {x y : Except Err MapObj} {p : MapObj → MapObj → Bool} (h : ok2 x y p = true) :
    ∃ a b, x = .ok a ∧ y = .ok b ∧ p a b = true := by
  cases x with
  | error e => cases h
  | ok a => cases y with
    | error e => cases h
    | ok b => exact ⟨a, b, rfl, rfl, h⟩

theorem sameAs_of_agree {x y : Except Err MapObj} (h : Agree x y)
    (hok : ok2 x y (fun _ _ => true) = true) : ∃ a b, x = .ok a ∧ y = .ok b ∧ a.SameAs b := by
  obtain ⟨a, b, rfl, rfl, _⟩ := ok2_elim hok
  exact ⟨a, b, rfl, rfl, h⟩

/-- make an empty map (`nside_coverage = 2^co`, `nside_sparse = 2^so`) and set some pixels -/
def build (co so : Nat) (k : Kind) (pix : List Nat) (vals : List Val) (cov : List Nat := []) : MapObj :=
  okMap (do
    let m ← apiMakeEmpty co so k none cov
    apiUpdate m "replace" pix (some vals) (vals.length == 1))

def exBool : MapObj := build 0 1 (.plain .bool) [5, 6] [.bool true]
def exInt : MapObj := build 0 1 (.plain (.int 32 true)) [5, 40] [.num 7 0, .num 9 0]
def exInt2 : MapObj := build 1 2 (.plain (.int 32 true)) [5, 40] [.num 7 0, .num 9 0]
def exWide : MapObj := build 0 1 (.wide 1) [5, 6] [.bytes [3], .bytes [6]]
def exRec : MapObj := build 0 1 (.recd [.flt 64, .int 32 true] 0) [5, 6]
  [.recd [(1, 0), (5, 0)], .recd [(3, 0), (8, 0)]]
def exF32 : MapObj := build 0 1 (.plain (.flt 32)) [5, 6] [.num 1 0, .num 3 0]
def exF64 : MapObj := build 0 1 (.plain (.flt 64)) [5, 6] [.num 1 0, .num 3 0]
/-- the same map with an allocated block (coverage pixel 3) that holds no valid pixel -/
def exF64e : MapObj := build 0 1 (.plain (.flt 64)) [5, 6] [.num 1 0, .num 3 0] [3]
def exW : MapObj := build 0 1 (.plain (.flt 64)) [5, 6] [.num 1 0]
/-- weights with one more valid pixel (in the same coverage pixel) -/
def exWx : MapObj := build 0 1 (.plain (.flt 64)) [5, 6, 7] [.num 1 0]

theorem ex_ok : exBool.Ok ∧ exInt.Ok ∧ exInt2.Ok ∧ exWide.Ok ∧ exRec.Ok ∧ exF32.Ok ∧ exF64.Ok ∧
    exF64e.Ok ∧ exW.Ok ∧ exWx.Ok := by decide +kernel

/-- **FINDING (new)**: `read(bool_file, degrade_nside, reduction='or')` succeeds,
    `read(bool_file).degrade(nside, 'or')` raises -/
theorem bool_andor :
    isOk (apiDegradeOnRead (apiWrite exBool []) 0 "or" none none) = true ∧
    errIs (apiReadThenDegrade (apiWrite exBool []) 0 "or" none none) .value = true ∧
    isOk (apiDegradeOnRead (apiWrite exBool []) 0 "and" none none) = true ∧
    errIs (apiReadThenDegrade (apiWrite exBool []) 0 "and" none none) .value = true := by
  decide +kernel

/-- `nside_out = nside_sparse`: `ValueError` on read, a copy in memory -/
theorem at_sparse_order :
    errIs (apiDegradeOnRead (apiWrite exInt []) 1 "sum" none none) .value = true ∧
    isOk (apiReadThenDegrade (apiWrite exInt []) 1 "sum" none none) = true := by
  decide +kernel

/-- `nside_out < nside_coverage`: rejected on read, re-housed and degraded in memory -/
theorem below_coverage :
    errIs (apiDegradeOnRead (apiWrite exInt2 []) 0 "sum" none none) .value = true ∧
    isOk (apiReadThenDegrade (apiWrite exInt2 []) 0 "sum" none none) = true := by
  decide +kernel

/-- **F47**: float32 map, float64 weight file — both paths succeed, float32 on read, float64 in
    memory: `hF47` of `api_dor_weighted_same_partial` cannot be dropped -/
theorem f47 : ∃ a b,
    apiDegradeOnRead (apiWrite exF32 []) 0 "wmean" none (some (apiWrite exW [])) = .ok a ∧
    apiReadThenDegrade (apiWrite exF32 []) 0 "wmean" none (some (apiWrite exW [])) = .ok b ∧
    a.kind = .plain (.flt 32) ∧ b.kind = .plain (.flt 64) ∧ ¬ a.SameAs b := by
  have h : ok2 (apiDegradeOnRead (apiWrite exF32 []) 0 "wmean" none (some (apiWrite exW [])))
      (.ok exF32) (fun a _ => decide (a.kind = .plain (.flt 32))) = true := by
    decide +kernel
  obtain ⟨a, _, ha, _, hp⟩ := ok2_elim h
  simp only [decide_eq_true_eq] at hp
  obtain ⟨b, hb, hbk⟩ := rtd_written_weighted_ok (m := exF32) (wm := exW) ex_ok.2.2.2.2.2.1
    ex_ok.2.2.2.2.2.2.2.2.1 [] [] (ordOut := 0) (by decide +kernel) (by decide +kernel)
    (b0 := 32) (wb := 64) (by decide +kernel) (by decide +kernel) (by decide +kernel)
    (by decide +kernel) (by decide +kernel) (by decide +kernel)
  refine ⟨a, b, ha, hb, hp, hbk, ?_⟩
  intro hs
  have := hs.2.2.1
  rw [hp, hbk] at this
  cases this

/-- **KNOWN FINDING F68**: a weight map with one more valid pixel (H2 fails: pixel 7; the weight
    file covers everything) is accepted on read and rejected in memory -/
theorem weights_extra_valid :
    isOk (apiDegradeOnRead (apiWrite exF64 []) 0 "wmean" none (some (apiWrite exWx []))) = true ∧
    ¬ ∃ b, apiReadThenDegrade (apiWrite exF64 []) 0 "wmean" none (some (apiWrite exWx [])) = .ok b := by
  refine ⟨by decide +kernel, ?_⟩
  rintro ⟨b, hb⟩
  obtain ⟨hf, hfk⟩ := Ok.apiWrite [] ex_ok.2.2.2.2.2.2.1
  have hw := (Ok.apiWrite [] ex_ok.2.2.2.2.2.2.2.2.2).1
  obtain ⟨r, wm, hr, hwr, _, _, hv⟩ := rtd_weighted_ok_H2 hf hfk hw (by decide +kernel)
    (by decide +kernel) hb
  obtain ⟨r1, r2, _, r4, r5⟩ := apiRead_written ex_ok.2.2.2.2.2.2.1.2.2 hr
  obtain ⟨w1, w2, _, w4, w5⟩ := apiRead_written ex_ok.2.2.2.2.2.2.2.2.2.2.2 hwr
  have h7 := hv 7 (by unfold MapObj.npix MapObj.c; rw [r1, r2]; decide +kernel)
  have ea : r.abs 7 = exF64.abs 7 := by unfold MapObj.abs MapObj.c; rw [r1, r2, r4, r5]
  have eb : wm.abs 7 = exWx.abs 7 := by unfold MapObj.abs MapObj.c; rw [w1, w2, w4, w5]
  rw [ea, eb, r5, w5] at h7
  revert h7
  decide +kernel

/-- **REGRESSION (defect found here, FIXED in the library; the model mirrors the fix)**: a map with
    an allocated block without valid pixels (coverage pixel 3) that the weight map does not cover.
    Before the fix degrade-on-read raised `ValueError` ("must have coverage in all the pixels to
    read") where read-then-degrade succeeds; now the two paths AGREE: both succeed, `SameAs`. -/
theorem weights_empty_block : ∃ a b,
    apiDegradeOnRead (apiWrite exF64e []) 0 "wmean" none (some (apiWrite exW [])) = .ok a ∧
    apiReadThenDegrade (apiWrite exF64e []) 0 "wmean" none (some (apiWrite exW [])) = .ok b ∧
    a.SameAs b ∧
    -- the weight file does not cover coverage pixel 3, which the map file covers
    covered (fCfg (apiWrite exF64e [])) (readFull (apiWrite exF64e []).file) 3 = true ∧
    covered (fCfg (apiWrite exF64e [])) (readFull (apiWrite exW []).file) 3 = false := by
  have hm := ex_ok.2.2.2.2.2.2.2.1
  have hw := ex_ok.2.2.2.2.2.2.2.2.1
  have hk : fileKind (apiWrite exF64e []) = some (.plain (.flt 64)) := by decide +kernel
  have hA := api_dor_written_weighted_partial hm hw [] [] (ordOut := 0) (by decide +kernel)
    (by decide +kernel) (fun _ _ => by decide +kernel)
    (fun dt0 h1 _ => by rw [hk] at h1; cases h1; rfl)
  have h : ok2 (apiDegradeOnRead (apiWrite exF64e []) 0 "wmean" none (some (apiWrite exW [])))
      (.ok exF64e) (fun _ _ => true) = true := by decide +kernel
  obtain ⟨a, _, ha, _, _⟩ := ok2_elim h
  obtain ⟨b, hb, _⟩ := rtd_written_weighted_ok (m := exF64e) (wm := exW) hm hw [] [] (ordOut := 0)
    (by decide +kernel) (by decide +kernel) (b0 := 64) (wb := 64) hk (by decide +kernel)
    (by decide +kernel) (by decide +kernel) (by decide +kernel) (by decide +kernel)
  rw [ha, hb] at hA
  exact ⟨a, b, ha, hb, hA, by decide +kernel, by decide +kernel⟩

/-- H0 of `api_dor_weighted_partial` cannot be dropped: a pixel request that only touches a block
    of the map without valid pixels and lies outside the weight file's coverage is degraded on
    read, while the reference path cannot read the weights with that request (`RuntimeError`,
    "None of the specified pixels are in the coverage map") -/
theorem weights_request_outside :
    isOk (apiDegradeOnRead (apiWrite exF64e []) 0 "wmean" (some [3]) (some (apiWrite exW []))) = true ∧
    errIs (apiReadThenDegrade (apiWrite exF64e []) 0 "wmean" (some [3]) (some (apiWrite exW [])))
      .runtime = true := by
  decide +kernel

/-- the exception classes can differ: `wmean` without weights on a wide mask -/
theorem wide_wmean_classes :
    errIs (apiDegradeOnRead (apiWrite exWide []) 0 "wmean" none none) .notImpl = true ∧
    errIs (apiReadThenDegrade (apiWrite exWide []) 0 "wmean" none none) .value = true := by
  decide +kernel


/-! #### the theorems applied (non-vacuity): both paths succeed and the results are `SameAs` -/

/-- no weights: integer map / `sum` with a pixel request (one uncovered pixel, one beyond the
    covered ones), integer `or`, wide mask `or`, record `mean`, boolean `sum`, float `median` -/
example :
    (∃ a b, apiDegradeOnRead (apiWrite exInt []) 0 "sum" (some [1, 7, 10]) none = .ok a ∧
      apiReadThenDegrade (apiWrite exInt []) 0 "sum" (some [1, 7, 10]) none = .ok b ∧ a.SameAs b) ∧
    (∃ a b, apiDegradeOnRead (apiWrite exInt []) 0 "or" none none = .ok a ∧
      apiReadThenDegrade (apiWrite exInt []) 0 "or" none none = .ok b ∧ a.SameAs b) ∧
    (∃ a b, apiDegradeOnRead (apiWrite exWide []) 0 "or" none none = .ok a ∧
      apiReadThenDegrade (apiWrite exWide []) 0 "or" none none = .ok b ∧ a.SameAs b) ∧
    (∃ a b, apiDegradeOnRead (apiWrite exRec []) 0 "mean" none none = .ok a ∧
      apiReadThenDegrade (apiWrite exRec []) 0 "mean" none none = .ok b ∧ a.SameAs b) ∧
    (∃ a b, apiDegradeOnRead (apiWrite exBool []) 0 "sum" (some [1]) none = .ok a ∧
      apiReadThenDegrade (apiWrite exBool []) 0 "sum" (some [1]) none = .ok b ∧ a.SameAs b) ∧
    (∃ a b, apiDegradeOnRead (apiWrite exF32 []) 0 "median" none none = .ok a ∧
      apiReadThenDegrade (apiWrite exF32 []) 0 "median" none none = .ok b ∧ a.SameAs b) := by
  obtain ⟨hB, hI, _, hW, hR, hF, _⟩ := ex_ok
  refine ⟨?_, ?_, ?_, ?_, ?_, ?_⟩
  · exact sameAs_of_agree (api_dor_written_unweighted_partial hI [] (by decide +kernel) (by decide +kernel)
      "sum" _ (fun h => by revert h; decide +kernel) (fun h => by revert h; decide +kernel))
      (by decide +kernel)
  · exact sameAs_of_agree (api_dor_written_unweighted_partial hI [] (by decide +kernel) (by decide +kernel)
      "or" _ (fun h => by revert h; decide +kernel) (fun _ => by decide +kernel))
      (by decide +kernel)
  · exact sameAs_of_agree (api_dor_written_unweighted_partial hW [] (by decide +kernel) (by decide +kernel)
      "or" _ (fun h => by revert h; decide +kernel) (fun _ => by decide +kernel))
      (by decide +kernel)
  · exact sameAs_of_agree (api_dor_written_unweighted_partial hR [] (by decide +kernel) (by decide +kernel)
      "mean" _ (fun h => by revert h; decide +kernel) (fun h => by revert h; decide +kernel))
      (by decide +kernel)
  · exact sameAs_of_agree (api_dor_written_unweighted_partial hB [] (by decide +kernel) (by decide +kernel)
      "sum" _ (fun _ => by decide +kernel) (fun h => by revert h; decide +kernel))
      (by decide +kernel)
  · exact sameAs_of_agree (api_dor_written_unweighted_partial hF [] (by decide +kernel) (by decide +kernel)
      "median" _ (fun h => by revert h; decide +kernel) (fun h => by revert h; decide +kernel))
      (by decide +kernel)

/-- `wmean` with a weight file: float64 map and weights with the same valid pixels -/
example : ∃ a b,
    apiDegradeOnRead (apiWrite exF64 []) 0 "wmean" none (some (apiWrite exW [])) = .ok a ∧
    apiReadThenDegrade (apiWrite exF64 []) 0 "wmean" none (some (apiWrite exW [])) = .ok b ∧
    a.SameAs b := by
  have hm := ex_ok.2.2.2.2.2.2.1
  have hw := ex_ok.2.2.2.2.2.2.2.2.1
  have hk : fileKind (apiWrite exF64 []) = some (.plain (.flt 64)) := by decide +kernel
  have hA := api_dor_written_weighted_partial hm hw [] [] (ordOut := 0) (by decide +kernel)
    (by decide +kernel) (fun _ _ => by decide +kernel)
    (fun dt0 h1 _ => by rw [hk] at h1; cases h1; rfl)
  have h : ok2 (apiDegradeOnRead (apiWrite exF64 []) 0 "wmean" none (some (apiWrite exW [])))
      (.ok exF64) (fun _ _ => true) = true := by decide +kernel
  obtain ⟨a, _, ha, _, _⟩ := ok2_elim h
  obtain ⟨b, hb, _⟩ := rtd_written_weighted_ok (m := exF64) (wm := exW) hm hw [] [] (ordOut := 0)
    (by decide +kernel) (by decide +kernel) (b0 := 64) (wb := 64) hk (by decide +kernel)
    (by decide +kernel) (by decide +kernel) (by decide +kernel) (by decide +kernel)
  rw [ha, hb] at hA
  exact ⟨a, b, ha, hb, hA⟩

/-- the general finding instantiated: `api_dor_bool_andor` applies to `exBool` -/
example : (∃ a, apiDegradeOnRead (apiWrite exBool []) 0 "and" none none = .ok a) ∧
    apiReadThenDegrade (apiWrite exBool []) 0 "and" none none = .error .value :=
  api_dor_bool_andor (px := [1]) (Ok.apiWrite [] ex_ok.1).1 (by decide +kernel) (by decide +kernel)
    (by decide +kernel) (.inl rfl) (by decide +kernel)

/-! #### the same findings as protocol histories (driver level; evaluated, `#guard`) -/

/-- the replies of the driver to a history -/
def replies (lines : List String) : List String :=
  (lines.foldl (fun (acc : World × List String) l =>
    let r := step acc.1 l; (r.1, acc.2 ++ [r.2])) ({}, [])).2

-- boolean map, `or`: accepted on read, rejected in memory
#guard replies ["cfg m kind=plain dtype=b1 covord=0 spord=1", "upd m pix=5,6 val=T", "write m f=fa",
    "dor f=fa ord=0 red=or r=a", "read f=fa r=b", "deg b ord=0 red=or r=c"]
  == ["ok", "ok", "ok", "ok", "ok", "err ValueError"]
-- weights with an extra valid pixel: accepted on read, rejected in memory
#guard replies ["cfg m kind=plain dtype=f8 covord=0 spord=1", "upd m pix=5,6 vals=1,3", "write m f=fa",
    "cfg w kind=plain dtype=f8 covord=0 spord=1", "upd w pix=5,6,7 val=1", "write w f=fw",
    "dor f=fa ord=0 red=wmean wf=fw r=a", "read f=fa r=b", "read f=fw r=bw",
    "deg b ord=0 red=wmean w=bw r=c"]
  == ["ok", "ok", "ok", "ok", "ok", "ok", "ok", "ok", "ok", "err ValueError"]
-- allocated empty block not covered by the weights: accepted by both paths (after the fix)
#guard replies ["cfg m kind=plain dtype=f8 covord=0 spord=1 covpix=3", "upd m pix=5,6 vals=1,3",
    "write m f=fa", "cfg w kind=plain dtype=f8 covord=0 spord=1", "upd w pix=5,6 val=1", "write w f=fw",
    "dor f=fa ord=0 red=wmean wf=fw r=a", "read f=fa r=b", "read f=fw r=bw",
    "deg b ord=0 red=wmean w=bw r=c"]
  == ["ok", "ok", "ok", "ok", "ok", "ok", "ok", "ok", "ok", "ok"]
-- nside_out = nside_sparse, nside_out < nside_coverage: rejected on read, accepted in memory
#guard replies ["cfg m kind=plain dtype=i4 covord=0 spord=1", "upd m pix=5,40 vals=7,9", "write m f=fa",
    "dor f=fa ord=1 red=sum r=a", "read f=fa r=b", "deg b ord=1 red=sum r=c"]
  == ["ok", "ok", "ok", "err ValueError", "ok", "ok"]
#guard replies ["cfg m kind=plain dtype=i4 covord=1 spord=2", "upd m pix=5,40 vals=7,9", "write m f=fa",
    "dor f=fa ord=0 red=sum r=a", "read f=fa r=b", "deg b ord=0 red=sum r=c"]
  == ["ok", "ok", "ok", "err ValueError", "ok", "ok"]

end ApiWitness

end C19
end HS
