/-
  C07 at the API level: `apiDegrade` (Model/ApiRes.lean) — helper lemmas for the API part of
  Props/C07.lean.

  Part 0: `apiDegrade` / `apiDegradeCore` as explicit decision trees (`degradeSpec`,
          `coreWeights >>= coreRest`) over NAMED reductions (`wideRed`, `recRed`, `intRed`,
          `fltRed`; the same decomposition as Lemmas/ApiDor.lean, which cannot be imported here:
          it depends on Props/C10, which imports Props/C07).
  Part 1: a `replace` update of an empty map (what `rehouse` does): dense view AND coverage mask.
  Part 2: what a successful `rehouse` returns (`Rehoused`).
  Part 3: the dense view of `_degrade` (`coreRest_ok`): `coreRed` of the (value, weight) pairs
          of ALL the children of every covered coarse pixel; what the weight checks establish.
  Part 4: both paths of `degrade` at once: `Src` (the map `_degrade` runs on: the map itself or
          its re-housing), `Degraded` / `apiDegrade_ok` (the result in terms of the source alone).
  Part 5: the reductions in terms of the VALID children (`coreRed_float`, `coreRed_int`,
          `coreRed_recd`).
  Part 6: facts about the numeric reductions (`reduceVals` on an empty group, zero weights).
  Part 7: when `_degrade` succeeds (`apiDegrade_inrange_isOk_iff`).
  Part 8: small facts for the property theorems.
  Part 9: integer `or` over a zero sentinel is unaffected by the missing validity mask.
  Part 10: the `inexact` guard (`cellsFitF64`): no `.rat` / `.sqrtRat` / `.poison` cell is reduced.
-/
import HealSparse.Lemmas.WFRes
namespace HS
namespace ApiDegrade

open WFRes WFApi

/-! ### Part 0: the programs as decision trees -/

open Lean Elab Tactic Meta in
/-- goal `jp args = rhs` with `jp` a local definition (a join point): unfold it -/
elab "lhs_unfold" : tactic => do
  let g ← getMainGoal
  g.withContext do
    let tgt := (← instantiateMVars (← g.getType)).consumeMData
    unless tgt.isAppOfArity ``Eq 3 do throwError "not an equation"
    let x := tgt.appFn!.appArg!
    let .fvar fv := x.getAppFn | throwError "head is not a local definition"
    let some v ← fv.getValue? | throwError "head has no value"
    let x' := (mkAppN v x.getAppArgs).headBeta
    replaceMainGoal [← g.replaceTargetDefEq (mkApp (mkApp tgt.appFn!.appFn! x') tgt.appArg!)]

/-- enter the continuation after a passed check -/
macro "jp_step" : tactic =>
  `(tactic| ((try lhs_unfold); (try dsimp -zeta only); (try extract_lets -underBinder)))

/-- wide masks: `np.bitwise_and/or.reduce` over ALL the rows of the group (no validity mask) -/
def wideRed (n : Nat) (red : String) (cells : List Val) : Val :=
  let rows := cells.map fun v => match v with | .bytes b => b | _ => List.replicate n 0
  match rows with
  | [] => .bytes (List.replicate n 0)
  | r :: rest => .bytes (rest.foldl (zipBytes (if red == "and" then (· &&& ·) else (· ||| ·))) r)

/-- record maps: every field reduced over the children whose PRIMARY field is valid -/
def recRed (valid : Val → Bool) (fs : List DT) (red : String) (cw : List (Val × Val)) : Val :=
  let fsOut := fs.map auxDT
  let validCW := cw.filter fun p => valid p.1
  let ws := validCW.map fun p => p.2.numD
  let fields := (List.range fs.length).map fun i =>
    let vals := validCW.map fun p => match p.1 with | .recd l => l.getD i (0, 0) | _ => (0, 0)
    match reduceVals red vals ws (cw.map fun p => p.2.numD) with
    | none => some ((fsOut.getD i (.flt 64)).defaultSentinel.numD)
    | some (.num n e) => if (Val.num n e).fits (fsOut.getD i (.flt 64)) then some (n, e) else none
    | some _ => none
  if fields.all Option.isSome then .recd (fields.map fun o => o.getD (0, 0)) else .poison

/-- integer maps with `and` / `or`: the fold over ALL the cells of the group (no validity mask) -/
def intRed (dt : DT) (sent : Val) (red : String) (cells : List Val) : Val :=
  match cells with
  | [] => sent
  | r :: rest => rest.foldl (if red == "and" then Val.and dt else Val.or dt) r

/-- the float path: the nan-reduction over the VALID cells of the group -/
def fltRed (valid : Val → Bool) (dtOut : DT) (red : String) (cw : List (Val × Val)) : Val :=
  let validCW := cw.filter fun p => valid p.1
  match reduceVals red (validCW.map fun p => p.1.numD) (validCW.map fun p => p.2.numD)
      (cw.map fun p => p.2.numD) with
  | none => dtOut.defaultSentinel
  | some (.num n e) => if (Val.num n e).fits dtOut then .num n e else .poison
  | some v => v

/-- the weight checks of `_degrade` -/
def coreWeights (m : MapObj) (red : String) (w : Option MapObj) : Except Err (Option (Array Val)) :=
  match w with
    | none => if red == "wmean" then throw .value else pure none
    | some wm =>
      if red != "wmean" then pure none else
        match wm.kind with
        | .plain (.flt _) =>
          if wm.spord != m.spord || wm.covord != m.covord then throw .value
          else match validPixels wm.c wm.vc wm.st, validPixels m.c m.vc m.st with
          | some a, some b =>
            if a.mergeSort (· ≤ ·) != b.mergeSort (· ≤ ·) then throw .value
            else match gatherWeights m.c m.vc m.st wm.abs (Val.num 0 0) with
            | some arr => pure (some arr)
            | none => throw .index
          | _, _ => throw .index
        | _ => throw .value

/-- is the weight map a float64 map (numpy promotion of `x * weights`) -/
def isF64 (w : Option MapObj) : Bool :=
  match w with
  | some wm => (match wm.kind with | .plain (.flt 64) => true | _ => false)
  | none => false

/-- `_degrade` after the weight checks -/
def coreRest (m : MapObj) (ordOut : Nat) (red : String) (w : Option MapObj) (wv : Option (Array Val)) :
    Except Err MapObj :=
  let g := 2 * (m.spord - ordOut)
  if !(red == "and" || red == "or") && !cellsFitF64 m.st.sp then .error .inexact else
  match m.kind with
  | .packed => .error .notImpl
  | .wide n =>
    if red != "and" && red != "or" then .error .notImpl else
    .ok { m with spord := ordOut, cache := none,
                  st := degradeMap m.c m.vc m.st g (wideRed n red) (m.kind.blank m.sent) }
  | .recd fs pr =>
    if !floatReds.contains red then .error .value else
    let kindOut := Kind.recd (fs.map auxDT) pr
    let sentOut := (fs.getD pr (.flt 64) |> auxDT).defaultSentinel
    .ok { m with kind := kindOut, sent := sentOut, spord := ordOut, cache := none,
                  st := degradeMapW m.c m.vc m.st g (wv.getD #[]) (Val.num 0 0)
                    (recRed m.vc.valid fs red) (kindOut.blank sentOut) }
  | .plain dt =>
    if dt.isInt && (red == "and" || red == "or") then
      .ok { m with spord := ordOut, cache := none,
                   st := degradeMap m.c m.vc m.st g (intRed dt m.sent red) m.sent }
    else
      if !floatReds.contains red then .error .value else
      let dtOut := if red == "wmean" && isF64 w then .flt 64 else auxDT dt
      .ok { m with kind := .plain dtOut, sent := dtOut.defaultSentinel, spord := ordOut, cache := none,
                    st := degradeMapW m.c m.vc m.st g (wv.getD #[]) (Val.num 0 0)
                      (fltRed m.vc.valid dtOut red) dtOut.defaultSentinel }

theorem apiDegradeCore_eq (m : MapObj) (ordOut : Nat) (red : String) (w : Option MapObj) :
    apiDegradeCore m ordOut red w = coreWeights m red w >>= coreRest m ordOut red w := by
  unfold apiDegradeCore coreWeights
  extract_lets -underBinder g jp
  cases w with
  | none =>
    by_cases h : (red == "wmean") = true
    · rw [if_pos h, if_pos h]; rfl
    · rw [if_neg h, if_neg h]; rfl
  | some wm =>
    dsimp -zeta only
    by_cases h : (red != "wmean") = true
    · rw [if_pos h, if_pos h]; rfl
    · rw [if_neg h, if_neg h]
      generalize validPixels wm.c wm.vc wm.st = oa
      generalize validPixels m.c m.vc m.st = ob
      generalize gatherWeights m.c m.vc m.st wm.abs (Val.num 0 0) = og
      cases hk : wm.kind with
      | plain dt =>
        cases dt with
        | flt b =>
          dsimp -zeta only
          by_cases h2 : (wm.spord != m.spord || wm.covord != m.covord) = true
          · rw [if_pos h2, if_pos h2]; rfl
          · rw [if_neg h2, if_neg h2]
            cases oa with
            | none => rfl
            | some a =>
              cases ob with
              | none => rfl
              | some b =>
                dsimp -zeta only
                by_cases h3 : ((a.mergeSort fun x1 x2 => decide (x1 ≤ x2)) != b.mergeSort fun x1 x2 => decide (x1 ≤ x2)) = true
                · rw [if_pos h3, if_pos h3]; rfl
                · rw [if_neg h3, if_neg h3]
                  cases og <;> rfl
        | _ => rfl
      | _ => rfl

/-- `degrade` as a decision tree -/
def degradeSpec (m : MapObj) (ordOut : Nat) (red : String) (w : Option MapObj) : Except Err MapObj :=
  if ordOut > m.spord then .error .value
  else if m.kind == .packed then .error .notImpl
  else if ordOut < m.covord then
    rehouse m ordOut >>= fun m1 =>
      (match w with
        | none => pure none
        | some wm => (rehouse wm ordOut).map some) >>= fun w' =>
      apiDegradeCore m1 ordOut red w'
  else if ordOut == m.spord then .ok { m with cache := none }
  else apiDegradeCore m ordOut red w

theorem apiDegrade_eq (m : MapObj) (ordOut : Nat) (red : String) (w : Option MapObj) :
    apiDegrade m ordOut red w = degradeSpec m ordOut red w := by
  unfold apiDegrade degradeSpec
  extract_lets -underBinder jp1
  by_cases h1 : ordOut > m.spord
  · rw [if_pos h1, if_pos h1]; rfl
  · rw [if_neg h1, if_neg h1]
    jp_step
    refine ite_congr rfl (fun _ => rfl) (fun _ => ?_)
    jp_step
    by_cases h3 : ordOut < m.covord
    · rw [if_pos h3, if_pos h3]
      cases w <;> rfl
    · rw [if_neg h3, if_neg h3]
      rfl

/-! ### Part 1: a `replace` update of an empty map -/

section fresh
variable {V : Type} [DecidableEq V]

omit [DecidableEq V] in
theorem makeEmpty_nil_covered (c : Cfg) (vc : VCfg V) {k : Nat} (hk : k < c.ncov) :
    covered c (makeEmpty c vc []) k = false := by
  rw [covered_eq_false_iff, makeEmpty_blockStart_not_mem c vc [] k hk (fun h => nomatch h)]
  exact_mod_cast c.nfine_pos

/-- `out[L] = φ(L)` on an empty map, `L` duplicate free and in range: the result obeys the
    layout, reads `φ p` on `L` and the sentinel elsewhere, and covers exactly the coverage
    pixels `L` touches -/
theorem replace_fresh (c : Cfg) (vc : VCfg V) (L : List Nat) (φ : Nat → V) (hnd : L.Nodup)
    (hL : ∀ p ∈ L, p < c.npix) :
    Inv c vc (updatePix c vc (makeEmpty c vc []) none (fun _ (w : V) => w)
        (L.map fun p => (p, φ p)) false) ∧
    (∀ p, p < c.npix →
      abs c vc (updatePix c vc (makeEmpty c vc []) none (fun _ (w : V) => w)
        (L.map fun p => (p, φ p)) false) p = if p ∈ L then φ p else vc.sentinel) ∧
    (∀ k, k < c.ncov →
      covered c (updatePix c vc (makeEmpty c vc []) none (fun _ (w : V) => w)
        (L.map fun p => (p, φ p)) false) k = L.any (fun p => p >>> c.shift == k)) := by
  have e2 : updatePix c vc (makeEmpty c vc []) none (fun _ (w : V) => w)
        (L.map fun p => (p, φ p)) false
      = updateCore c vc (makeEmpty c vc []) (stageOp id fun _ (w : V) => w)
        (L.map fun p => (p, some (φ p))) false := by
    rw [← stageList_false_map]
    rfl
  rw [e2]
  have h0 : Inv c vc (makeEmpty c vc []) :=
    inv_makeEmpty' c vc [] List.nodup_nil (fun _ hk => nomatch hk)
  have hLt : ∀ qw ∈ L.map fun p => (p, some (φ p)), qw.1 < c.npix := by
    intro qw hq
    obtain ⟨p, hp, rfl⟩ := List.mem_map.1 hq
    exact hL p hp
  refine ⟨inv_updateCore' c vc _ _ _ false h0 hLt, ?_, ?_⟩
  · intro p hp
    rw [updateCore_refines' c vc _ _ _ false h0 hLt p hp]
    unfold denseUpdate
    simp only [Bool.false_and, Bool.false_eq_true, if_false]
    rw [denseFold_nodup _ L (fun p => some (φ p)) hnd, makeEmpty_abs']
    rfl
  · intro k hk
    rw [updateCore_covered' c vc _ _ _ false h0 hLt k hk]
    unfold denseCov
    rw [makeEmpty_nil_covered c vc hk, List.any_map]
    simp only [Bool.false_or, Bool.not_false, Bool.true_and]
    rfl

end fresh

/-! ### Part 2: what a successful `rehouse` returns -/

theorem checkSentinel_some {dt : DT} {v s : Val} (h : checkSentinel dt (some v) = .ok s) : s = v := by
  unfold checkSentinel at h
  simp only at h
  split at h
  · cases h; rfl
  · split at h
    · cases h; rfl
    · cases h
  · cases h; rfl
  · cases h

theorem cellOp_replace (m : MapObj) : cellOp m "replace" = (none, fun _ w => w) := by
  unfold cellOp
  simp

theorem single_pv_eq {pix : List Nat} {vals : List Val} (d : Val) (hlen : vals.length = pix.length) :
    (if (false || vals.length == 1) = true then pix.map (fun x => (x, vals.headD d))
      else pix.zip vals) = pix.zip vals := by
  split
  · rename_i h
    have h1 : vals.length = 1 := by simpa using h
    match vals, pix, h1, hlen with
    | [v], [p], _, _ => rfl
  · rfl

/-- what a successful `out[pix] = vals` (index-array assignment) on a map that is not a view
    did: nothing for an empty index, else every value has the cell type of the map and the
    storage is the core `replace` update -/
theorem apiUpdate_replace_ok {e m1 : MapObj} {pix : List Nat} {vals : List Val}
    (h : apiUpdate e "replace" pix (some vals) false = .ok m1)
    (hlen : vals.length = pix.length) :
    m1.covord = e.covord ∧ m1.spord = e.spord ∧ m1.kind = e.kind ∧ m1.sent = e.sent ∧
    m1.view = e.view ∧
    ((pix = [] ∧ m1.st = e.st) ∨
     (vals.all (valMatchesKind e.kind) = true ∧
      m1.st = updatePix e.c e.vc e.st none (fun _ w => w) (pix.zip vals) false)) := by
  unfold apiUpdate at h
  simp only [bind, Except.bind, pure, Except.pure, throw, throwThe, MonadExceptOf.throw] at h
  repeat' xpeel h
  all_goals (cases h)
  all_goals first
    | exact ⟨rfl, rfl, rfl, rfl, rfl, .inl ⟨List.isEmpty_iff.1 ‹_›, rfl⟩⟩
    | (refine ⟨rfl, rfl, rfl, rfl, rfl, .inr ⟨by simpa using ‹¬(!vals.all (valMatchesKind e.kind)) = true›, ?_⟩⟩
       show updatePix e.c e.vc e.st (cellOp _ "replace").1 (cellOp _ "replace").2 _ false = _
       rw [cellOp_replace, single_pv_eq _ hlen])

theorem cfgOf_npix {co so : Nat} (h : co ≤ so) : (cfgOf co so).npix = 12 * 4 ^ so := by
  unfold Cfg.npix Cfg.nfine cfgOf
  simp only
  have e : 2 ^ (2 * (so - co)) = 4 ^ (so - co) := by
    rw [Nat.pow_mul]
  rw [e, Nat.mul_assoc, ← Nat.pow_add]
  congr 2
  omega

/-- the sentinel `make_empty(..., sentinel=v)` records: `v` itself, except that a wide mask
    always gets `0`; the blank cell is that of `v` in every case -/
theorem apiMakeEmpty_some_sent {co so : Nat} {kind : Kind} {v : Val} {P : List Nat} {e : MapObj}
    (h : apiMakeEmpty co so kind (some v) P = .ok e) :
    kind.blank e.sent = kind.blank v ∧ ((∀ n, kind ≠ .wide n) → e.sent = v) ∧
      (∀ n, kind = .wide n → e.sent = .num 0 0) := by
  unfold apiMakeEmpty at h
  simp only [bind, Except.bind, pure, Except.pure, throw, throwThe, MonadExceptOf.throw] at h
  repeat' xpeel h
  all_goals (cases h)
  all_goals first
    | exact ⟨rfl, fun hn => absurd rfl (hn _), fun _ _ => rfl⟩
    | (have := checkSentinel_some ‹_›; subst this; exact ⟨rfl, fun _ => rfl, fun _ hn => nomatch hn⟩)

theorem zip_map_self {α β : Type} (L : List α) (f : α → β) :
    L.zip (L.map f) = L.map fun p => (p, f p) := by
  induction L with
  | nil => rfl
  | cons a l ih => simp only [List.map_cons, List.zip_cons_cons, ih]

/-- what `rehouse m co` (re-housing with coverage order `co`) returns -/
structure Rehoused (m m1 : MapObj) (co : Nat) : Prop where
  hco : co ≤ m.spord
  covord : m1.covord = co
  spord : m1.spord = m.spord
  kind : m1.kind = m.kind
  view : m1.view = none
  blank : m1.vc.sentinel = m.vc.sentinel
  sent : (∀ n, m.kind ≠ .wide n) → m1.sent = m.sent
  sentw : ∀ n, m.kind = .wide n → m1.sent = .num 0 0
  wf : m1.WF
  npix : m1.npix = m.npix
  abs : ∀ p, p < m.npix →
    m1.abs p = if m.vc.valid (m.abs p) = true then m.abs p else m.vc.sentinel
  cov : ∀ k, k < m1.c.ncov → (covered m1.c m1.st k = true ↔
    ∃ p, p < m.npix ∧ m.vc.valid (m.abs p) = true ∧ p >>> m1.c.shift = k)
  typed : ∀ p, p < m.npix → m.vc.valid (m.abs p) = true → valMatchesKind m.kind (m.abs p) = true

theorem rehouse_ok {m m1 : MapObj} {co : Nat} (hwf : m.WF) (hv : m.BlankInvalid)
    (h : rehouse m co = .ok m1) : Rehoused m m1 co := by
  unfold rehouse at h
  cases he : apiMakeEmpty co m.spord m.kind (some m.sent) [] with
  | error x => rw [he] at h; cases h
  | ok e =>
    rw [he] at h
    obtain ⟨hle, e1, e2, e3, e4, e5⟩ := WFRes.apiMakeEmpty_ok he
    obtain ⟨hb, hs, hsw⟩ := apiMakeEmpty_some_sent he
    have hvp := hwf.2.validPixels_eq hv
    generalize hL : (validCells m.vc m.st).map (pixOfCell m.c m.st) = L at hvp
    have hmem : ∀ p, p ∈ L ↔ p < m.npix ∧ m.vc.valid (m.abs p) = true := by
      intro p; rw [← hL]; exact hwf.2.mem_validCells_map hv p
    have hnd : L.Nodup := by rw [← hL]; exact hwf.2.nodup_validCells_map hv
    have hcast : (L.map fun p => ((p : Nat) : Int)).map Int.toNat = L := by
      rw [List.map_map]
      conv => rhs; rw [← List.map_id L]
      apply List.map_congr_left
      intro p _
      simp
    simp only [bind, Except.bind, hvp, hcast] at h
    obtain ⟨g1, g2, g3, g4, g5, g6⟩ := apiUpdate_replace_ok h (by simp)
    have hnp : m1.npix = m.npix := by
      show (cfgOf m1.covord m1.spord).npix = (cfgOf m.covord m.spord).npix
      rw [g1, g2, e1, e2, cfgOf_npix hle, cfgOf_npix hwf.1]
    have hc1 : m1.c = e.c := by unfold MapObj.c; rw [g1, g2]
    have hec : e.c = cfgOf co m.spord := by unfold MapObj.c; rw [e1, e2]
    have hesent : e.vc.sentinel = m.vc.sentinel := by
      show e.kind.blank e.sent = m.kind.blank m.sent
      rw [e3]; exact hb
    have hvc1 : m1.vc = e.vc := by unfold MapObj.vc; rw [g3, g4]
    have hest : e.st = makeEmpty e.c e.vc [] := by
      rw [e5, hec]; unfold MapObj.vc; rw [e3]; rfl
    have hzip : L.zip (L.map m.abs) = L.map fun p => (p, m.abs p) := by
      exact zip_map_self L m.abs
    have hLt : ∀ p ∈ L, p < e.c.npix := by
      intro p hp
      have : e.c.npix = m.npix := by rw [← hc1]; exact hnp
      rw [this]; exact ((hmem p).1 hp).1
    obtain ⟨f1, f2, f3⟩ := replace_fresh e.c e.vc L m.abs hnd hLt
    have hst : m1.st = updatePix e.c e.vc (makeEmpty e.c e.vc []) none (fun _ (w : Val) => w)
        (L.map fun p => (p, m.abs p)) false := by
      rcases g6 with ⟨hnil, g6⟩ | ⟨_, g6⟩
      · rw [g6, hnil]; exact hest
      · rw [g6, hzip, ← hest]
    refine ⟨hle, g1.trans e1, g2.trans e2, g3.trans e3, g5.trans e4,
      by rw [hvc1]; exact hesent, fun hn => (g4.trans (hs hn)),
      fun n hn => (g4.trans (hsw n hn)), ?_, hnp, ?_, ?_, ?_⟩
    · refine ⟨by rw [g1, g2, e1, e2]; exact hle, ?_⟩
      rw [hc1, hvc1, hst]; exact f1
    · intro p hp
      show HS.abs m1.c m1.vc m1.st p = _
      rw [hc1, hvc1, hst, f2 p (by rw [← hc1]; show p < m1.npix; rw [hnp]; exact hp), hesent]
      by_cases hpL : p ∈ L
      · rw [if_pos hpL, if_pos ((hmem p).1 hpL).2]
      · rw [if_neg hpL, if_neg (fun hval => hpL ((hmem p).2 ⟨hp, hval⟩))]
    · intro k hk
      rw [hc1, hst, f3 k (by rw [← hc1]; exact hk), List.any_eq_true]
      constructor
      · rintro ⟨p, hp, hpk⟩
        exact ⟨p, ((hmem p).1 hp).1, ((hmem p).1 hp).2, by simpa using hpk⟩
      · rintro ⟨p, hp, hval, hpk⟩
        exact ⟨p, (hmem p).2 ⟨hp, hval⟩, by simpa using hpk⟩
    · intro p hp hval
      rcases g6 with ⟨hnil, _⟩ | ⟨hall, _⟩
      · have := (hmem p).2 ⟨hp, hval⟩
        rw [hnil] at this; cases this
      · rw [List.all_eq_true] at hall
        have := hall (m.abs p) (List.mem_map.2 ⟨p, (hmem p).2 ⟨hp, hval⟩, rfl⟩)
        rw [e3] at this; exact this

/-! ### Part 3: the dense view of `_degrade` -/

/-- the fine pixels below coarse pixel `q` at order `ordOut`: the `4^(spord - ordOut)` pixels
    `q * 4^(spord-ordOut) + j` in NEST order -/
def childPix (m : MapObj) (ordOut q : Nat) : List Nat :=
  (List.range (2 ^ (2 * (m.spord - ordOut)))).map fun j => q * 2 ^ (2 * (m.spord - ordOut)) + j

theorem childPix_length (m : MapObj) (ordOut q : Nat) :
    (childPix m ordOut q).length = 4 ^ (m.spord - ordOut) := by
  unfold childPix
  rw [List.length_map, List.length_range, Nat.pow_mul]

theorem mem_childPix {m : MapObj} {ordOut q p : Nat} :
    p ∈ childPix m ordOut q ↔ p >>> (2 * (m.spord - ordOut)) = q := by
  unfold childPix
  rw [List.mem_map, Nat.shiftRight_eq_div_pow]
  have hpos := Nat.two_pow_pos (2 * (m.spord - ordOut))
  constructor
  · rintro ⟨j, hj, rfl⟩
    rw [Nat.mul_comm, Nat.mul_add_div hpos, Nat.div_eq_of_lt (List.mem_range.1 hj)]
    rfl
  · rintro rfl
    refine ⟨p % 2 ^ (2 * (m.spord - ordOut)), List.mem_range.2 (Nat.mod_lt _ hpos), ?_⟩
    rw [Nat.mul_comm]; exact Nat.div_add_mod _ _

theorem shift_sub {m : MapObj} {ordOut : Nat} (hlo : m.covord ≤ ordOut) (hhi : ordOut ≤ m.spord) :
    m.c.shift - 2 * (m.spord - ordOut) = 2 * (ordOut - m.covord) := by
  show 2 * (m.spord - m.covord) - _ = _
  omega

theorem gbits_le {m : MapObj} {ordOut : Nat} (hlo : m.covord ≤ ordOut) :
    2 * (m.spord - ordOut) ≤ m.c.shift := by
  show _ ≤ 2 * (m.spord - m.covord)
  omega

theorem degCfg_c {m : MapObj} {ordOut : Nat} (hlo : m.covord ≤ ordOut) (hhi : ordOut ≤ m.spord) :
    degCfg m.c (2 * (m.spord - ordOut)) = cfgOf m.covord ordOut := degCfg_cfgOf hlo hhi

theorem childrenVals_eq (m : MapObj) (ordOut q : Nat) :
    childrenVals m.c m.vc m.st (2 * (m.spord - ordOut)) q = (childPix m ordOut q).map m.abs := by
  unfold childrenVals childPix
  rw [List.map_map]
  rfl

/-- the children of an in-range coarse pixel are in range -/
theorem childPix_lt {m : MapObj} {ordOut q p : Nat} (hlo : m.covord ≤ ordOut)
    (hhi : ordOut ≤ m.spord) (hq : q < (cfgOf m.covord ordOut).npix) (hp : p ∈ childPix m ordOut q) :
    p < m.npix := by
  unfold childPix at hp
  obtain ⟨j, hj, rfl⟩ := List.mem_map.1 hp
  rw [← degCfg_c hlo hhi] at hq
  exact (child_facts m.c (gbits_le hlo) hq (List.mem_range.1 hj)).1

/-- dense view of an unweighted `_degrade` result (reduction `f` over ALL the children) -/
theorem abs_degradeMap {m : MapObj} (hwf : m.WF) {ordOut : Nat} (hlo : m.covord ≤ ordOut)
    (hhi : ordOut ≤ m.spord) (vcOut : VCfg Val) (f : List Val → Val) {q : Nat}
    (hq : q < (cfgOf m.covord ordOut).npix) :
    HS.abs (cfgOf m.covord ordOut) vcOut
        (degradeMap m.c m.vc m.st (2 * (m.spord - ordOut)) f vcOut.sentinel) q =
      if covered m.c m.st (q >>> (2 * (ordOut - m.covord))) then f ((childPix m ordOut q).map m.abs)
      else vcOut.sentinel := by
  have hg := gbits_le (m := m) hlo
  have key := (hwf.2.degrade_spec' hg vcOut f).2.1 q (by rw [degCfg_c hlo hhi]; exact hq)
  rw [degCfg_c hlo hhi, shift_sub hlo hhi, childrenVals_eq] at key
  exact key

/-- dense view of a weighted `_degrade` result: the reduction sees (value, weight) pairs of ALL
    the children -/
theorem abs_degradeMapW {m : MapObj} (hwf : m.WF) {ordOut : Nat} (hlo : m.covord ≤ ordOut)
    (hhi : ordOut ≤ m.spord) (vcOut : VCfg Val) (wv : Array Val) (zero : Val) (wOf : Nat → Val)
    (f : List (Val × Val) → Val)
    (hw : ∀ p, p < m.npix → covered m.c m.st (p >>> m.c.shift) = true →
      rd wv (idxOf m.c m.st p) zero = wOf p) {q : Nat}
    (hq : q < (cfgOf m.covord ordOut).npix) :
    HS.abs (cfgOf m.covord ordOut) vcOut
        (degradeMapW m.c m.vc m.st (2 * (m.spord - ordOut)) wv zero f vcOut.sentinel) q =
      if covered m.c m.st (q >>> (2 * (ordOut - m.covord)))
      then f ((childPix m ordOut q).map fun p => (m.abs p, wOf p))
      else vcOut.sentinel := by
  have hg := gbits_le (m := m) hlo
  have key := (hwf.2.degradeW_spec' hg vcOut wv zero wOf f hw).2 q
    (by rw [degCfg_c hlo hhi]; exact hq)
  rw [degCfg_c hlo hhi, shift_sub hlo hhi] at key
  rw [key]
  unfold childPix
  rw [List.map_map]
  rfl

/-- coverage mask of any `_degrade` result: that of the source -/
theorem covered_regroup {m : MapObj} (hwf : m.WF) {ordOut : Nat} (hlo : m.covord ≤ ordOut)
    (hhi : ordOut ≤ m.spord) (f : Nat → Val) (b : Val) {k : Nat} (hk : k < m.c.ncov) :
    covered (cfgOf m.covord ordOut) (regroup m.c m.st (2 * (m.spord - ordOut)) f b) k
      = covered m.c m.st k := by
  have r := hwf.2.regroup_relayout (gbits_le (m := m) hlo) f ⟨b, fun _ => false⟩
  rw [degCfg_c hlo hhi] at r
  exact r.cov_eq hwf.2 hk

/-- the weight `_degrade` pairs with fine pixel `p`: for `wmean`, the weight map's value at `p`
    where THIS map is valid and 0 elsewhere; 0 everywhere for every other reduction -/
def wAt (m : MapObj) (red : String) (w : Option MapObj) (p : Nat) : Val :=
  match w with
  | some wm => if red == "wmean" && m.vc.valid (m.abs p) then wm.abs p else .num 0 0
  | none => .num 0 0

/-- what the weight checks establish -/
theorem coreWeights_ok {m : MapObj} {red : String} {w : Option MapObj} {wv : Option (Array Val)}
    (hwf : m.WF) (hv : m.BlankInvalid) (h : coreWeights m red w = .ok wv) :
    ((red == "wmean") = true → ∃ wm b al bl, w = some wm ∧ wm.kind = .plain (.flt b) ∧
      wm.spord = m.spord ∧ wm.covord = m.covord ∧ validPixels wm.c wm.vc wm.st = some al ∧
      validPixels m.c m.vc m.st = some bl ∧ al.mergeSort (· ≤ ·) = bl.mergeSort (· ≤ ·)) ∧
    ∀ p, p < m.npix → covered m.c m.st (p >>> m.c.shift) = true →
      rd (wv.getD #[]) (idxOf m.c m.st p) (.num 0 0) = wAt m red w p := by
  unfold coreWeights at h
  cases w with
  | none =>
    simp only at h
    split at h
    · cases h
    · rename_i hr
      cases h
      exact ⟨fun hr' => absurd hr' hr, fun p _ _ => rfl⟩
  | some wm =>
    simp only at h
    split at h
    · rename_i hr
      cases h
      have hr' : (red == "wmean") = false := by simpa using hr
      refine ⟨fun h' => (by rw [hr'] at h'; cases h'), fun p _ _ => ?_⟩
      unfold wAt
      simp only [hr', Bool.false_and, Bool.false_eq_true, if_false]
      rfl
    · rename_i hr
      have hr' : (red == "wmean") = true := by simpa using hr
      split at h
      · rename_i b hk
        split at h
        · cases h
        · rename_i hord
          split at h
          · rename_i al bl ha hb
            split at h
            · cases h
            · rename_i hs
              split at h
              · rename_i arr hg
                cases h
                obtain ⟨wv', g1, _, g3⟩ := hwf.2.gatherWeights_spec' hv wm.abs (Val.num 0 0)
                rw [g1] at hg
                cases hg
                have hord' : wm.spord = m.spord ∧ wm.covord = m.covord := by
                  simpa using hord
                refine ⟨fun _ => ⟨wm, b, al, bl, rfl, hk, hord'.1, hord'.2, ha, hb, by simpa using hs⟩, ?_⟩
                intro p hp hc
                refine (g3 p hp hc).trans ?_
                unfold wAt
                simp only [hr', Bool.true_and]
                rfl
              · cases h
          · cases h
      · cases h

/-- `red` is `and` or `or` -/
def isAndOr (red : String) : Bool := red == "and" || red == "or"

/-- kind of the map `_degrade` returns: integers and booleans become float64 for the float
    reductions, float32 stays float32 unless the weight map of a `wmean` is float64; `and` /
    `or` keep integer and wide-mask kinds; records field by field -/
def coreOutKind (kind : Kind) (red : String) (w : Option MapObj) : Kind :=
  match kind with
  | .plain dt =>
    if dt.isInt && isAndOr red then kind
    else .plain (if red == "wmean" && isF64 w then .flt 64 else auxDT dt)
  | .recd fs pr => .recd (fs.map auxDT) pr
  | k => k

/-- sentinel of the map `_degrade` returns: the source's for `and` / `or`, else the default
    sentinel (UNSEEN) of the output dtype (of the primary field for records) -/
def coreOutSent (kind : Kind) (sent : Val) (red : String) (w : Option MapObj) : Val :=
  match kind with
  | .plain dt =>
    if dt.isInt && isAndOr red then sent
    else (if red == "wmean" && isF64 w then DT.flt 64 else auxDT dt).defaultSentinel
  | .recd fs pr => (auxDT (fs.getD pr (.flt 64))).defaultSentinel
  | _ => sent

/-- which reductions `_degrade` accepts for a kind -/
def coreAccepts (kind : Kind) (red : String) : Bool :=
  match kind with
  | .packed => false
  | .wide _ => isAndOr red
  | .recd _ _ => floatReds.contains red
  | .plain dt => (dt.isInt && isAndOr red) || floatReds.contains red

/-- the reduction `_degrade` applies to the (value, weight) pairs of ALL the children of a
    covered coarse pixel -/
def coreRed (m : MapObj) (red : String) (w : Option MapObj) (cw : List (Val × Val)) : Val :=
  match m.kind with
  | .plain dt =>
    if dt.isInt && isAndOr red then intRed dt m.sent red (cw.map (·.1))
    else fltRed m.vc.valid (if red == "wmean" && isF64 w then .flt 64 else auxDT dt) red cw
  | .recd fs _ => recRed m.vc.valid fs red cw
  | .wide n => wideRed n red (cw.map (·.1))
  | .packed => .poison

theorem abs_sent_congr {V : Type} (c : Cfg) (vc vc' : VCfg V) (s : State V) (q : Nat)
    (h : vc.sentinel = vc'.sentinel) : HS.abs c vc s q = HS.abs c vc' s q := by
  unfold HS.abs; rw [h]

theorem map_fst_pairs {α β γ : Type} (L : List α) (f : α → β) (g : α → γ) :
    (L.map fun p => (f p, g p)).map (·.1) = L.map f := by
  rw [List.map_map]; rfl

/-- **what a successful `_degrade` (after the weight checks) returns**, for
    `covord ≤ ordOut ≤ spord`: configuration, kind and sentinel rules, which reductions pass,
    and the dense view — `coreRed` of the children of every covered coarse pixel, the blank cell
    on every uncovered one; the coverage mask is the source's -/
theorem coreRest_ok {m b : MapObj} {ordOut : Nat} {red : String} {w : Option MapObj}
    {wv : Option (Array Val)} (hwf : m.WF) (hlo : m.covord ≤ ordOut) (hhi : ordOut ≤ m.spord)
    (hw : ∀ p, p < m.npix → covered m.c m.st (p >>> m.c.shift) = true →
      rd (wv.getD #[]) (idxOf m.c m.st p) (.num 0 0) = wAt m red w p)
    (h : coreRest m ordOut red w wv = .ok b) :
    b.covord = m.covord ∧ b.spord = ordOut ∧ b.view = m.view ∧
    b.kind = coreOutKind m.kind red w ∧ b.sent = coreOutSent m.kind m.sent red w ∧
    coreAccepts m.kind red = true ∧ (isAndOr red = true ∨ cellsFitF64 m.st.sp = true) ∧
    (∀ q, q < (cfgOf m.covord ordOut).npix →
      b.abs q = if covered m.c m.st (q >>> (2 * (ordOut - m.covord)))
        then coreRed m red w ((childPix m ordOut q).map fun p => (m.abs p, wAt m red w p))
        else b.vc.sentinel) ∧
    (∀ k, k < m.c.ncov → covered b.c b.st k = covered m.c m.st k) := by
  unfold coreRest at h
  simp only at h
  split at h
  · cases h
  rename_i hfit
  have hfit' : isAndOr red = true ∨ cellsFitF64 m.st.sp = true := by
    unfold isAndOr
    cases h1 : (red == "and" || red == "or") <;> cases h2 : cellsFitF64 m.st.sp <;> simp_all
  split at h
  · cases h
  · -- wide
    rename_i n hk
    split at h
    · cases h
    rename_i hr
    have hr' : isAndOr red = true := by
      unfold isAndOr
      cases h1 : (red == "and") <;> cases h2 : (red == "or") <;> simp_all
    cases h
    refine ⟨rfl, rfl, rfl, by rw [hk]; rfl, by rw [hk]; rfl, by rw [hk]; exact hr', hfit', ?_, ?_⟩
    · intro q hq
      refine (abs_degradeMap hwf hlo hhi ⟨m.kind.blank m.sent, m.kind.valid m.sent⟩ _ hq).trans ?_
      unfold coreRed
      rw [hk, map_fst_pairs]
      rfl
    · intro k hk'
      exact covered_regroup hwf hlo hhi _ _ hk'
  · -- record
    rename_i fs pr hk
    split at h
    · cases h
    rename_i hr
    have hr' : floatReds.contains red = true := by simpa using hr
    cases h
    refine ⟨rfl, rfl, rfl, by rw [hk]; rfl, by rw [hk]; rfl, by rw [hk]; exact hr', hfit', ?_, ?_⟩
    · intro q hq
      refine (abs_degradeMapW hwf hlo hhi ⟨_, fun _ => false⟩ _ _ _ _ hw hq).trans ?_
      unfold coreRed
      rw [hk]
      rfl
    · intro k hk'
      exact covered_regroup hwf hlo hhi _ _ hk'
  · -- plain
    rename_i dt hk
    split at h
    · rename_i hc
      have hc' : (dt.isInt && isAndOr red) = true := hc
      cases h
      refine ⟨rfl, rfl, rfl, ?_, ?_, ?_, hfit', ?_, ?_⟩
      · rw [hk]; simp only [coreOutKind, hc', ↓reduceIte]
      · rw [hk]; simp only [coreOutSent, hc', ↓reduceIte]
      · rw [hk]; simp only [coreAccepts, hc', Bool.true_or]
      · intro q hq
        have hs : m.vc.sentinel = m.sent := by unfold MapObj.vc; rw [hk]; rfl
        refine (abs_sent_congr _ _ ⟨m.sent, fun _ => false⟩ _ _ hs).trans ?_
        refine (abs_degradeMap hwf hlo hhi ⟨m.sent, fun _ => false⟩ _ hq).trans ?_
        unfold coreRed
        rw [hk, map_fst_pairs]
        simp only [hc', if_true]
        rw [← hs]
        rfl
      · intro k hk'
        exact covered_regroup hwf hlo hhi _ _ hk'
    · rename_i hc
      have hc' : ¬ (dt.isInt && isAndOr red) = true := hc
      split at h
      · cases h
      rename_i hr
      have hr' : floatReds.contains red = true := by simpa using hr
      cases h
      refine ⟨rfl, rfl, rfl, ?_, ?_, ?_, hfit', ?_, ?_⟩
      · rw [hk]; simp only [coreOutKind, hc', Bool.false_eq_true, if_false]
      · rw [hk]; simp only [coreOutSent, hc', Bool.false_eq_true, if_false]
      · rw [hk]; simp only [coreAccepts, hr', Bool.or_true]
      · intro q hq
        refine (abs_degradeMapW hwf hlo hhi ⟨_, fun _ => false⟩ _ _ _ _ hw hq).trans ?_
        unfold coreRed
        rw [hk]
        simp only [hc', Bool.false_eq_true, if_false]
        rfl
      · intro k hk'
        exact covered_regroup hwf hlo hhi _ _ hk'

/-! ### Part 4: both paths of `degrade` at once -/

/-- the value `_degrade` sees at fine pixel `p`: the stored value, except that below the
    coverage resolution the map is re-housed first and every INVALID pixel reads the blank cell -/
def srcAbs (m : MapObj) (ordOut p : Nat) : Val :=
  if ordOut < m.covord ∧ m.vc.valid (m.abs p) = false then m.vc.sentinel else m.abs p

/-- coarse pixel `q` is inside the coverage of the map `_degrade` runs on: it has a valid child,
    or (at or above the coverage resolution only) it lies in a covered coverage pixel -/
def live (m : MapObj) (ordOut q : Nat) : Bool :=
  (childPix m ordOut q).any (fun p => m.vc.valid (m.abs p)) ||
    (decide (m.covord ≤ ordOut) && covered m.c m.st (q >>> (2 * (ordOut - m.covord))))

/-- `M` is the map `_degrade` runs on when `degrade(m, ordOut)` is called: `m` itself, or `m`
    re-housed at coverage order `ordOut` -/
structure Src (m M : MapObj) (ordOut : Nat) : Prop where
  wf : M.WF
  lo : M.covord ≤ ordOut
  covord : M.covord = min m.covord ordOut
  spord : M.spord = m.spord
  kind : M.kind = m.kind
  blank : M.vc.sentinel = m.vc.sentinel
  sent : (∀ n, m.kind ≠ .wide n) → M.sent = m.sent
  sentw : ∀ n, m.kind = .wide n → M.sent = if ordOut < m.covord then .num 0 0 else m.sent
  npix : M.npix = m.npix
  view : ordOut < m.covord → M.view = none
  abs : ∀ p, p < m.npix → M.abs p = srcAbs m ordOut p
  live : ∀ q, q < (cfgOf M.covord ordOut).npix →
    covered M.c M.st (q >>> (2 * (ordOut - M.covord))) = live m ordOut q
  cov : ordOut < m.covord → ∀ k, k < M.c.ncov → covered M.c M.st k =
    (childPix m ordOut k).any (fun p => m.vc.valid (m.abs p))
  cov0 : ¬ ordOut < m.covord → ∀ k, k < M.c.ncov → covered M.c M.st k = covered m.c m.st k

theorem childPix_spord {m M : MapObj} (h : M.spord = m.spord) (ordOut q : Nat) :
    childPix M ordOut q = childPix m ordOut q := by
  unfold childPix; rw [h]

theorem src_self {m : MapObj} {ordOut : Nat} (hwf : m.WF) (hv : m.BlankInvalid)
    (hlo : m.covord ≤ ordOut) (hhi : ordOut ≤ m.spord) : Src m m ordOut where
  wf := hwf
  lo := hlo
  covord := by omega
  spord := rfl
  kind := rfl
  blank := rfl
  sent := fun _ => rfl
  sentw := fun _ _ => by rw [if_neg (by omega)]
  npix := rfl
  view := fun h => by omega
  abs := by
    intro p _
    unfold srcAbs
    rw [if_neg (by omega)]
  live := by
    intro q hq
    unfold ApiDegrade.live
    rw [decide_eq_true hlo, Bool.true_and]
    cases hc : covered m.c m.st (q >>> (2 * (ordOut - m.covord))) with
    | true => rw [Bool.or_true]
    | false =>
      rw [Bool.or_false]
      symm
      rw [List.any_eq_false]
      intro p hp hval
      have hp' := childPix_lt hlo hhi hq hp
      have hcov := hwf.2.covered_of_valid hv hp' hval
      unfold childPix at hp
      obtain ⟨j, hj, rfl⟩ := List.mem_map.1 hp
      rw [← degCfg_c hlo hhi] at hq
      rw [(child_facts m.c (gbits_le hlo) hq (List.mem_range.1 hj)).2, shift_sub hlo hhi, hc] at hcov
      cases hcov
  cov := fun h => by omega
  cov0 := fun _ _ _ => rfl

theorem src_rehoused {m m1 : MapObj} {ordOut : Nat} (hwf : m.WF)
    (hlt : ordOut < m.covord) (r : Rehoused m m1 ordOut) : Src m m1 ordOut := by
  have hcov : ∀ k, k < m1.c.ncov → covered m1.c m1.st k =
      (childPix m ordOut k).any (fun p => m.vc.valid (m.abs p)) := by
    intro k hk
    have hsh : m1.c.shift = 2 * (m.spord - ordOut) := by
      show 2 * (m1.spord - m1.covord) = _
      rw [r.spord, r.covord]
    rw [Bool.eq_iff_iff, r.cov k hk, List.any_eq_true]
    constructor
    · rintro ⟨p, _, hval, hpk⟩
      exact ⟨p, mem_childPix.2 (by rw [← hsh]; exact hpk), hval⟩
    · rintro ⟨p, hp, hval⟩
      have hpk := mem_childPix.1 hp
      refine ⟨p, ?_, hval, by rw [hsh]; exact hpk⟩
      -- `p` is in range because its coverage pixel `k` is
      have hk' : k < 12 * 4 ^ ordOut := by
        have : m1.c.ncov = 12 * 4 ^ m1.covord := rfl
        rw [this, r.covord] at hk; exact hk
      rw [← hpk] at hk'
      rw [Nat.shiftRight_eq_div_pow, Nat.div_lt_iff_lt_mul (Nat.two_pow_pos _)] at hk'
      show p < (cfgOf m.covord m.spord).npix
      rw [cfgOf_npix hwf.1]
      have e : 2 ^ (2 * (m.spord - ordOut)) = 4 ^ (m.spord - ordOut) := by rw [Nat.pow_mul]
      rw [e, Nat.mul_assoc, ← Nat.pow_add] at hk'
      have : ordOut + (m.spord - ordOut) = m.spord := by have := hwf.1; omega
      rw [this] at hk'
      exact hk'
  refine ⟨r.wf, by rw [r.covord]; exact Nat.le_refl _, by rw [r.covord]; omega, r.spord, r.kind,
    r.blank, r.sent, fun n hn => by rw [if_pos hlt]; exact r.sentw n hn, r.npix, fun _ => r.view, ?_, ?_,
    fun _ => hcov, fun h => absurd hlt h⟩
  · intro p hp
    rw [r.abs p hp]
    unfold srcAbs
    cases hval : m.vc.valid (m.abs p) with
    | true => rw [if_pos rfl, if_neg (by simp)]
    | false => rw [if_neg (by simp), if_pos ⟨hlt, rfl⟩]
  · intro q hq
    have h0 : 2 * (ordOut - m1.covord) = 0 := by rw [r.covord]; omega
    rw [h0, Nat.shiftRight_zero]
    have hq' : q < m1.c.ncov := by
      have e : (cfgOf m1.covord ordOut).npix = 12 * 4 ^ ordOut := cfgOf_npix (by rw [r.covord]; exact Nat.le_refl _)
      rw [e] at hq
      show q < 12 * 4 ^ m1.covord
      rw [r.covord]; exact hq
    rw [hcov q hq']
    unfold ApiDegrade.live
    rw [decide_eq_false (by omega), Bool.false_and, Bool.or_false]

/-- equal sorted `valid_pixels` listings mean equal validity at every pixel -/
theorem valid_eq_of_sorted_eq {V X : Type} [DecidableEq V] [DecidableEq X] {c : Cfg}
    {vc : VCfg V} {vcX : VCfg X} {r : State V} {wr : State X}
    (hr : Inv c vc r) (hbr : vc.valid vc.sentinel = false)
    (hw : Inv c vcX wr) (hbw : vcX.valid vcX.sentinel = false) {al bl : List Int}
    (ha : validPixels c vcX wr = some al) (hb : validPixels c vc r = some bl)
    (hs : al.mergeSort (· ≤ ·) = bl.mergeSort (· ≤ ·)) :
    ∀ p, p < c.npix → vc.valid (HS.abs c vc r p) = vcX.valid (HS.abs c vcX wr p) := by
  rw [hw.validPixels_eq hbw] at ha
  rw [hr.validPixels_eq hbr] at hb
  have ha := Option.some.inj ha
  have hb := Option.some.inj hb
  have hperm : al.Perm bl := by
    have h1 := (List.mergeSort_perm al (· ≤ ·)).symm
    rw [hs] at h1
    exact h1.trans (List.mergeSort_perm bl _)
  intro p hp
  have hmem : ((p : Nat) : Int) ∈ al ↔ ((p : Nat) : Int) ∈ bl := hperm.mem_iff
  rw [← ha, ← hb] at hmem
  have cast_mem : ∀ (L : List Nat), ((p : Nat) : Int) ∈ L.map (fun q => ((q : Nat) : Int)) ↔ p ∈ L := by
    intro L
    rw [List.mem_map]
    constructor
    · rintro ⟨q, hq, he⟩
      have : q = p := by exact_mod_cast he
      rw [← this]; exact hq
    · intro h; exact ⟨p, h, rfl⟩
  rw [cast_mem, cast_mem, hw.mem_validCells_map hbw, hr.mem_validCells_map hbr] at hmem
  rw [Bool.eq_iff_iff]
  constructor
  · intro h; exact (hmem.2 ⟨hp, h⟩).2
  · intro h; exact (hmem.1 ⟨hp, h⟩).2

theorem vc_eq_of {m M : MapObj} (hk : M.kind = m.kind) (hs : M.sent = m.sent) : M.vc = m.vc := by
  unfold MapObj.vc; rw [hk, hs]

/-- the validity of the value `_degrade` sees is the validity of the stored value -/
theorem valid_srcAbs {m : MapObj} (hv : m.BlankInvalid) (ordOut p : Nat) :
    m.vc.valid (srcAbs m ordOut p) = m.vc.valid (m.abs p) := by
  unfold srcAbs
  split
  · rename_i h; rw [h.2]; exact hv
  · rfl

/-- below the coverage resolution the weight map is re-housed too; the weights `_degrade` then
    pairs with the pixels are still the ORIGINAL weight map's values at the valid pixels -/
theorem wAt_rehoused {m M wm W : MapObj} {ordOut : Nat} {red : String} {wv : Option (Array Val)}
    (hM : Src m M ordOut) (hv : m.BlankInvalid) (hMvc : M.vc = m.vc)
    (rW : Rehoused wm W ordOut) (hcw : coreWeights M red (some W) = .ok wv) :
    ∀ p, p < m.npix → wAt M red (some W) p = wAt m red (some wm) p := by
  intro p hp
  have hMv : M.BlankInvalid := by unfold MapObj.BlankInvalid; rw [hMvc]; exact hv
  have hvalid : M.vc.valid (M.abs p) = m.vc.valid (m.abs p) := by
    rw [hM.abs p hp, hMvc]; exact valid_srcAbs hv ordOut p
  unfold wAt
  rw [hvalid]
  cases hr : (red == "wmean") with
  | false => simp
  | true =>
    cases hval : m.vc.valid (m.abs p) with
    | false => simp
    | true =>
      simp only [Bool.and_self, if_true]
      obtain ⟨wm0, b, al, bl, e0, hk, ho1, ho2, ha, hb, hs⟩ := (coreWeights_ok hM.wf hMv hcw).1 hr
      cases e0
      have hWc : W.c = M.c := by unfold MapObj.c; rw [ho1, ho2]
      have hWv : W.BlankInvalid := MapObj.blankInvalid_of_plain hk
      have hWinv : Inv M.c W.vc W.st := by rw [← hWc]; exact rW.wf.2
      rw [hWc] at ha
      have hpM : p < M.c.npix := by show p < M.npix; rw [hM.npix]; exact hp
      have key := valid_eq_of_sorted_eq hM.wf.2 hMv hWinv hWv ha hb hs p hpM
      have key' : W.vc.valid (W.abs p) = true := by
        show W.vc.valid (HS.abs W.c W.vc W.st p) = true
        rw [hWc, ← key]
        show M.vc.valid (M.abs p) = true
        rw [hvalid]; exact hval
      have hpw : p < wm.npix := by
        rw [← rW.npix]; show p < W.c.npix; rw [hWc]; exact hpM
      have hwk : wm.kind = .plain (.flt b) := by rw [← rW.kind]; exact hk
      have hWvc : W.vc = wm.vc :=
        vc_eq_of rW.kind (rW.sent (fun n hn => by rw [hwk] at hn; cases hn))
      rw [rW.abs p hpw] at key' ⊢
      cases hwv : wm.vc.valid (wm.abs p) with
      | true => rw [if_pos rfl]
      | false =>
        rw [hwv, if_neg (by simp), hWvc] at key'
        have := MapObj.blankInvalid_of_plain hwk
        unfold MapObj.BlankInvalid at this
        rw [this] at key'
        cases key'

/-- sentinel of the map `degrade` returns (`ordOut < spord`): `coreOutSent`, except that a wide
    mask re-housed below its coverage resolution comes back with the sentinel `0` -/
def degradeSent (m : MapObj) (ordOut : Nat) (red : String) (w : Option MapObj) : Val :=
  match m.kind with
  | .wide _ => if ordOut < m.covord then .num 0 0 else m.sent
  | k => coreOutSent k m.sent red w

/-- what the value theorems ask of the weight map: it has to be well formed only where `degrade`
    actually re-houses AND uses it — a `wmean` below the coverage resolution -/
def WeightsWF (m : MapObj) (ordOut : Nat) (red : String) (w : Option MapObj) : Prop :=
  ordOut < m.covord → (red == "wmean") = true → ∀ wm, w = some wm → wm.WF

/-- **what a successful `degrade(m, ordOut, red, w)` returns**, `ordOut < spord`, in terms of
    `m` alone (both paths) -/
structure Degraded (m m' : MapObj) (ordOut : Nat) (red : String) (w : Option MapObj) : Prop where
  covord : m'.covord = min m.covord ordOut
  spord : m'.spord = ordOut
  kind : m'.kind = coreOutKind m.kind red w
  sent : m'.sent = degradeSent m ordOut red w
  accepts : coreAccepts m.kind red = true
  wts : (red == "wmean") = true → ∃ wm b, w = some wm ∧ wm.kind = .plain (.flt b) ∧
    wm.spord = m.spord ∧ (¬ ordOut < m.covord → wm.covord = m.covord)
  view : m'.view = if ordOut < m.covord then none else m.view
  abs : WeightsWF m ordOut red w → ∀ q, q < 12 * 4 ^ ordOut → m'.abs q =
    if live m ordOut q
    then coreRed m red w ((childPix m ordOut q).map fun p => (srcAbs m ordOut p, wAt m red w p))
    else m'.vc.sentinel
  cov : ∀ k, k < 12 * 4 ^ (min m.covord ordOut) → covered m'.c m'.st k =
    if ordOut < m.covord then (childPix m ordOut k).any (fun p => m.vc.valid (m.abs p))
    else covered m.c m.st k

theorem coreOutKind_congr (k : Kind) (red : String) {W w : Option MapObj} (h : isF64 W = isF64 w) :
    coreOutKind k red W = coreOutKind k red w := by
  unfold coreOutKind; rw [h]

theorem coreOutSent_congr (k : Kind) (s : Val) (red : String) {W w : Option MapObj}
    (h : isF64 W = isF64 w) : coreOutSent k s red W = coreOutSent k s red w := by
  unfold coreOutSent; rw [h]

theorem src_blankInvalid {m M : MapObj} {ordOut : Nat} (hM : Src m M ordOut) (hv : m.BlankInvalid) :
    M.BlankInvalid := by
  cases hk : m.kind with
  | wide n => exact MapObj.blankInvalid_of_wide (hM.kind.trans hk)
  | plain dt =>
    unfold MapObj.BlankInvalid
    rw [vc_eq_of hM.kind (hM.sent (fun n hn => by rw [hk] at hn; cases hn))]; exact hv
  | recd fs pr =>
    unfold MapObj.BlankInvalid
    rw [vc_eq_of hM.kind (hM.sent (fun n hn => by rw [hk] at hn; cases hn))]; exact hv
  | packed =>
    unfold MapObj.BlankInvalid
    rw [vc_eq_of hM.kind (hM.sent (fun n hn => by rw [hk] at hn; cases hn))]; exact hv

theorem coreRed_congr {m M : MapObj} {red : String} {W w : Option MapObj} (hk : M.kind = m.kind)
    (hs : (∀ n, m.kind ≠ .wide n) → M.sent = m.sent) (hf : isF64 W = isF64 w)
    (cw : List (Val × Val)) : coreRed M red W cw = coreRed m red w cw := by
  unfold coreRed
  rw [hk, hf]
  cases hk' : m.kind with
  | wide n => rfl
  | packed => rfl
  | plain dt =>
    have h1 := hs (fun n hn => by rw [hk'] at hn; cases hn)
    rw [vc_eq_of hk h1, h1]
  | recd fs pr =>
    have h1 := hs (fun n hn => by rw [hk'] at hn; cases hn)
    rw [vc_eq_of hk h1]

/-- for a wide mask the weights play no role -/
theorem coreRed_wide {m : MapObj} {n : Nat} (hk : m.kind = .wide n) (red : String)
    (w : Option MapObj) (cw : List (Val × Val)) :
    coreRed m red w cw = wideRed n red (cw.map (·.1)) := by
  unfold coreRed; rw [hk]

/-- the common tail of both paths -/
theorem degrade_tail {m M m' : MapObj} {ordOut : Nat} {red : String} {w W : Option MapObj}
    {wv : Option (Array Val)} (hM : Src m M ordOut) (hv : m.BlankInvalid) (hhi : ordOut ≤ m.spord)
    (hF1 : WeightsWF m ordOut red w → (∀ n, m.kind ≠ .wide n) → ∀ p, p < m.npix →
      wAt M red W p = wAt m red w p)
    (hF2 : isF64 W = isF64 w) (hvw : ¬ ordOut < m.covord → M.view = m.view)
    (hF3 : ∀ W0, W = some W0 → ∃ wm, w = some wm ∧ wm.kind = W0.kind ∧ wm.spord = W0.spord ∧
      (¬ ordOut < m.covord → wm.covord = W0.covord))
    (hcw : coreWeights M red W = .ok wv) (hcr : coreRest M ordOut red W wv = .ok m') :
    Degraded m m' ordOut red w := by
  have hMv := src_blankInvalid hM hv
  have hhi' : ordOut ≤ M.spord := by rw [hM.spord]; exact hhi
  obtain ⟨c1, c2, c3, c4, c5, c6, _, c8, c9⟩ :=
    coreRest_ok hM.wf hM.lo hhi' (coreWeights_ok hM.wf hMv hcw).2 hcr
  have hnp : (cfgOf M.covord ordOut).npix = 12 * 4 ^ ordOut := cfgOf_npix hM.lo
  refine ⟨c1.trans hM.covord, c2, ?_, ?_, by rw [← hM.kind]; exact c6, ?_, ?_, ?_, ?_⟩
  · rw [c4, hM.kind]; exact coreOutKind_congr _ _ hF2
  · rw [c5, hM.kind]
    unfold degradeSent
    cases hk : m.kind with
    | wide n => exact hM.sentw n hk
    | plain dt =>
      show coreOutSent _ _ _ _ = coreOutSent _ _ _ _
      rw [hM.sent (fun n hn => by rw [hk] at hn; cases hn)]; exact coreOutSent_congr _ _ _ hF2
    | recd fs pr =>
      show coreOutSent _ _ _ _ = coreOutSent _ _ _ _
      rw [hM.sent (fun n hn => by rw [hk] at hn; cases hn)]; exact coreOutSent_congr _ _ _ hF2
    | packed =>
      show coreOutSent _ _ _ _ = coreOutSent _ _ _ _
      rw [hM.sent (fun n hn => by rw [hk] at hn; cases hn)]; exact coreOutSent_congr _ _ _ hF2
  · intro hr
    obtain ⟨W0, b, _, _, e0, hk, ho1, ho2, _⟩ := (coreWeights_ok hM.wf hMv hcw).1 hr
    obtain ⟨wm, e1, g1, g2, g3⟩ := hF3 W0 e0
    refine ⟨wm, b, e1, g1.trans hk, g2.trans (ho1.trans hM.spord), fun hnb => ?_⟩
    rw [g3 hnb, ho2, hM.covord]
    omega
  · rw [c3]
    by_cases hb : ordOut < m.covord
    · rw [if_pos hb]; exact hM.view hb
    · rw [if_neg hb]; exact hvw hb
  · intro hww q hq
    have hq' : q < (cfgOf M.covord ordOut).npix := by rw [hnp]; exact hq
    rw [c8 q hq', hM.live q hq', childPix_spord hM.spord]
    cases hl : live m ordOut q with
    | false => rfl
    | true =>
      simp only [if_true]
      have hch : ∀ p ∈ childPix m ordOut q, p < m.npix := by
        intro p hp
        rw [← hM.npix]
        exact childPix_lt hM.lo hhi' hq' (by rw [childPix_spord hM.spord]; exact hp)
      rw [coreRed_congr hM.kind hM.sent hF2]
      by_cases hwide : ∃ n, m.kind = .wide n
      · obtain ⟨n, hk⟩ := hwide
        rw [coreRed_wide hk, coreRed_wide hk, map_fst_pairs, map_fst_pairs]
        congr 1
        apply List.map_congr_left
        intro p hp
        exact hM.abs p (hch p hp)
      · have hnw : ∀ n, m.kind ≠ .wide n := fun n hn => hwide ⟨n, hn⟩
        congr 1
        apply List.map_congr_left
        intro p hp
        rw [hM.abs p (hch p hp), hF1 hww hnw p (hch p hp)]
  · intro k hk
    have hk' : k < M.c.ncov := by
      show k < 12 * 4 ^ M.covord
      rw [hM.covord]; exact hk
    have hc : m'.c = cfgOf M.covord ordOut := by unfold MapObj.c; rw [c1, c2]
    by_cases hb : ordOut < m.covord
    · rw [if_pos hb, c9 k hk', hM.cov hb k hk']
    · rw [if_neg hb, c9 k hk']
      exact hM.cov0 hb k hk'

theorem wAt_not_wmean {m : MapObj} {red : String} (hr : (red == "wmean") = false)
    (w : Option MapObj) (p : Nat) : wAt m red w p = .num 0 0 := by
  unfold wAt
  cases w with
  | none => rfl
  | some wm => simp [hr]

theorem isF64_rehouse {wm W : MapObj} {co : Nat} (h : rehouse wm co = .ok W) :
    isF64 (some W) = isF64 (some wm) := by
  have := (WFRes.rehouse_okp wm co W h).2.2.2.1
  unfold isF64
  simp only [this]

/-- **`degrade` to a coarser order, both paths**: `Degraded` for every well-formed map whose
    blank cell is invalid.  The weight map has to be well formed only where it is actually
    re-housed and used (`wmean` below the coverage resolution). -/
theorem apiDegrade_ok {m m' : MapObj} {ordOut : Nat} {red : String} {w : Option MapObj}
    (hwf : m.WF) (hv : m.BlankInvalid)
    (hlt : ordOut < m.spord) (h : apiDegrade m ordOut red w = .ok m') :
    Degraded m m' ordOut red w := by
  rw [apiDegrade_eq] at h
  unfold degradeSpec at h
  rw [if_neg (by omega)] at h
  split at h
  · cases h
  split at h
  · -- below the coverage resolution
    rename_i hb
    cases hr : rehouse m ordOut with
    | error e => rw [hr] at h; cases h
    | ok M =>
      rw [hr] at h
      have hM := src_rehoused hwf hb (rehouse_ok hwf hv hr)
      have tail : ∀ W, (match w with
            | none => (pure none : Except Err (Option MapObj))
            | some wm => (rehouse wm ordOut).map some) = .ok W →
          apiDegradeCore M ordOut red W = .ok m' → Degraded m m' ordOut red w := by
        intro W hW hcore
        rw [apiDegradeCore_eq] at hcore
        cases hcw : coreWeights M red W with
        | error e => rw [hcw] at hcore; cases hcore
        | ok wv =>
          rw [hcw] at hcore
          have hcr : coreRest M ordOut red W wv = .ok m' := hcore
          refine degrade_tail hM hv (by omega) ?_ ?_ (fun hnb => absurd hb hnb) ?_ hcw hcr
          · intro hww hnw p hp
            cases hwm : (red == "wmean") with
            | false => rw [wAt_not_wmean hwm, wAt_not_wmean hwm]
            | true =>
              cases w with
              | none => cases hW; rfl
              | some wm =>
                simp only at hW
                cases hrw : rehouse wm ordOut with
                | error e => rw [hrw] at hW; cases hW
                | ok W0 =>
                  rw [hrw] at hW
                  cases hW
                  have hMv := src_blankInvalid hM hv
                  obtain ⟨wm0, b, _, _, e0, hk, _⟩ := (coreWeights_ok hM.wf hMv hcw).1 hwm
                  cases e0
                  have hwk : wm.kind = .plain (.flt b) := by
                    rw [← (WFRes.rehouse_okp wm ordOut W0 hrw).2.2.2.1]; exact hk
                  have rW := rehouse_ok (hww hb hwm wm rfl) (MapObj.blankInvalid_of_plain hwk) hrw
                  exact wAt_rehoused hM hv (vc_eq_of hM.kind (hM.sent hnw)) rW hcw p hp
          · cases w with
            | none => cases hW; rfl
            | some wm =>
              simp only at hW
              cases hrw : rehouse wm ordOut with
              | error e => rw [hrw] at hW; cases hW
              | ok W0 =>
                rw [hrw] at hW
                cases hW
                exact isF64_rehouse hrw
          · intro W0 hW0
            cases w with
            | none => cases hW; cases hW0
            | some wm =>
              simp only at hW
              cases hrw : rehouse wm ordOut with
              | error e => rw [hrw] at hW; cases hW
              | ok W1 =>
                rw [hrw] at hW
                cases hW
                cases hW0
                obtain ⟨_, _, g2, g3, _⟩ := WFRes.rehouse_okp wm ordOut W0 hrw
                exact ⟨wm, rfl, g3.symm, g2.symm, fun hnb => absurd hb hnb⟩
      simp only [bind, Except.bind] at h
      split at h
      · cases h
      · rename_i W hW
        exact tail W hW h
  · rename_i hb
    rw [if_neg (by simp; omega)] at h
    rw [apiDegradeCore_eq] at h
    cases hcw : coreWeights m red w with
    | error e => rw [hcw] at h; cases h
    | ok wv =>
      rw [hcw] at h
      exact degrade_tail (src_self hwf hv (by omega) (by omega)) hv (by omega) (fun _ _ _ _ => rfl) rfl
        (fun _ => rfl) (fun W0 hW0 => ⟨W0, hW0, rfl, rfl, fun _ => rfl⟩) hcw h

/-! ### Part 5: the reductions in terms of the VALID children -/

/-- the valid children of coarse pixel `q` (pixel numbers, NEST order) -/
def validChildren (m : MapObj) (ordOut q : Nat) : List Nat :=
  (childPix m ordOut q).filter fun p => m.vc.valid (m.abs p)

/-- the float path's post-processing of a nan-reduction: NaN becomes the sentinel, a result the
    output dtype cannot hold exactly is `poison` (the exact model discards the case) -/
def fltOut (dtOut : DT) : Option Val → Val
  | none => dtOut.defaultSentinel
  | some (.num n e) => if (Val.num n e).fits dtOut then .num n e else .poison
  | some v => v

theorem fltRed_eq (valid : Val → Bool) (dtOut : DT) (red : String) (cw : List (Val × Val)) :
    fltRed valid dtOut red cw =
      fltOut dtOut (reduceVals red ((cw.filter fun p => valid p.1).map fun p => p.1.numD)
        ((cw.filter fun p => valid p.1).map fun p => p.2.numD) (cw.map fun p => p.2.numD)) := by
  unfold fltRed fltOut
  simp only

theorem srcAbs_of_valid {m : MapObj} {ordOut p : Nat} (h : m.vc.valid (m.abs p) = true) :
    srcAbs m ordOut p = m.abs p := by
  unfold srcAbs
  rw [if_neg (by rw [h]; simp)]

/-- the valid (value, weight) pairs `_degrade` sees are those of the valid children of `m` -/
theorem filter_pairs {m : MapObj} (hv : m.BlankInvalid) (ordOut : Nat) (B : Nat → Val) (L : List Nat) :
    ((L.map fun p => (srcAbs m ordOut p, B p)).filter fun x => m.vc.valid x.1) =
      (L.filter fun p => m.vc.valid (m.abs p)).map fun p => (m.abs p, B p) := by
  induction L with
  | nil => rfl
  | cons a l ih =>
    simp only [List.map_cons, List.filter_cons, valid_srcAbs hv]
    cases h : m.vc.valid (m.abs a) with
    | true => simp only [if_true, List.map_cons, ih, srcAbs_of_valid h]
    | false => simp only [Bool.false_eq_true, if_false, ih]

/-- **float path**: the nan-reduction over EXACTLY the valid children (values, and for `wmean`
    their weights; the denominator of `wmean` sums the weights of all children, which are 0 at
    the invalid ones) -/
theorem coreRed_float {m : MapObj} {dt : DT} (hv : m.BlankInvalid) (hk : m.kind = .plain dt)
    {red : String} (hc : (dt.isInt && isAndOr red) = false) (w : Option MapObj) (ordOut q : Nat) :
    coreRed m red w ((childPix m ordOut q).map fun p => (srcAbs m ordOut p, wAt m red w p)) =
      fltOut (if red == "wmean" && isF64 w then .flt 64 else auxDT dt)
        (reduceVals red ((validChildren m ordOut q).map fun p => (m.abs p).numD)
          ((validChildren m ordOut q).map fun p => (wAt m red w p).numD)
          ((childPix m ordOut q).map fun p => (wAt m red w p).numD)) := by
  unfold coreRed
  rw [hk]
  simp only [hc, Bool.false_eq_true, if_false]
  rw [fltRed_eq, filter_pairs hv, List.map_map, List.map_map, List.map_map]
  rfl

/-- the values of ALL the children as `_degrade` sees them, for a plain kind: the stored values
    (an invalid cell of a plain map IS the sentinel) -/
theorem srcAbs_plain {m : MapObj} {dt : DT} (hk : m.kind = .plain dt) (ordOut p : Nat) :
    srcAbs m ordOut p = m.abs p := by
  unfold srcAbs
  split
  · rename_i h
    have h2 := h.2
    unfold MapObj.vc at h2 ⊢
    rw [hk] at h2 ⊢
    simp only [Kind.valid, bne_eq_false_iff_eq] at h2
    exact h2.symm
  · rfl

/-- **integer `and` / `or`**: the fold over ALL the children, valid or not (F36) -/
theorem coreRed_int {m : MapObj} {dt : DT} (hk : m.kind = .plain dt)
    {red : String} (hc : (dt.isInt && isAndOr red) = true) (w : Option MapObj) (ordOut q : Nat) :
    coreRed m red w ((childPix m ordOut q).map fun p => (srcAbs m ordOut p, wAt m red w p)) =
      intRed dt m.sent red ((childPix m ordOut q).map m.abs) := by
  unfold coreRed
  rw [hk]
  simp only [hc, if_true]
  rw [map_fst_pairs]
  congr 1
  apply List.map_congr_left
  intro p _
  exact srcAbs_plain hk ordOut p

/-- a record cell built from per-field nan-reductions (`field i` = the reduction of field `i`):
    NaN becomes the field's default sentinel, anything the exact model cannot hold makes the
    whole cell `poison` -/
def recOut (fs : List DT) (field : Nat → Option Val) : Val :=
  let fsOut := fs.map auxDT
  let fields := (List.range fs.length).map fun i =>
    match field i with
    | none => some ((fsOut.getD i (.flt 64)).defaultSentinel.numD)
    | some (.num n e) => if (Val.num n e).fits (fsOut.getD i (.flt 64)) then some (n, e) else none
    | some _ => none
  if fields.all Option.isSome then .recd (fields.map fun o => o.getD (0, 0)) else .poison

/-- field `i` of a record cell -/
def fieldOf (i : Nat) (v : Val) : Int × Nat :=
  match v with | .recd l => l.getD i (0, 0) | _ => (0, 0)

theorem recRed_eq (valid : Val → Bool) (fs : List DT) (red : String) (cw : List (Val × Val)) :
    recRed valid fs red cw =
      recOut fs (fun i =>
        reduceVals red ((cw.filter fun p => valid p.1).map fun p => fieldOf i p.1)
          ((cw.filter fun p => valid p.1).map fun p => p.2.numD) (cw.map fun p => p.2.numD)) := by
  rfl

/-- **record maps**: every field is the nan-reduction of that field over EXACTLY the children
    whose primary field is valid -/
theorem coreRed_recd {m : MapObj} {fs : List DT} {pr : Nat} (hv : m.BlankInvalid)
    (hk : m.kind = .recd fs pr) (red : String) (w : Option MapObj) (ordOut q : Nat) :
    coreRed m red w ((childPix m ordOut q).map fun p => (srcAbs m ordOut p, wAt m red w p)) =
      recOut fs (fun i =>
        reduceVals red ((validChildren m ordOut q).map fun p => fieldOf i (m.abs p))
          ((validChildren m ordOut q).map fun p => (wAt m red w p).numD)
          ((childPix m ordOut q).map fun p => (wAt m red w p).numD)) := by
  unfold coreRed
  rw [hk]
  simp only
  rw [recRed_eq, filter_pairs hv, List.map_map]
  congr 1
  funext i
  rw [List.map_map, List.map_map]
  rfl

/-! ### Part 6: facts about the numeric reductions -/

/-- only `wmean` looks at the weights -/
theorem reduceVals_unweighted {red : String} (h : (red == "wmean") = false)
    (vals ws wden : List (Int × Nat)) : reduceVals red vals ws wden = reduceVals red vals [] [] := by
  unfold reduceVals
  split <;> first | rfl | (simp at h)

/-- the reductions that answer NaN on an empty group -/
def maskedReds : List String := ["mean", "median", "std", "max", "min"]

theorem reduceVals_nil_masked {red : String} (h : red ∈ maskedReds)
    (ws wden : List (Int × Nat)) : reduceVals red [] ws wden = none := by
  simp only [maskedReds, List.mem_cons, List.not_mem_nil, or_false] at h
  rcases h with rfl | rfl | rfl | rfl | rfl <;> rfl

/-- `nansum` of nothing is 0 -/
theorem reduceVals_nil_sum (ws wden : List (Int × Nat)) :
    reduceVals "sum" [] ws wden = some (.num 0 0) := rfl

/-- `nanprod` of nothing is 1 -/
theorem reduceVals_nil_prod (ws wden : List (Int × Nat)) :
    reduceVals "prod" [] ws wden = some (.num 1 0) := rfl

theorem dyNorm_idem (n : Int) (e : Nat) : dyNorm (dyNorm n e).1 (dyNorm n e).2 = dyNorm n e := by
  induction e generalizing n with
  | zero => rfl
  | succ k ih =>
    by_cases h : (n % 2 == 0) = true
    · have e : dyNorm n (k + 1) = dyNorm (n / 2) k := by rw [dyNorm, if_pos h]
      rw [e]; exact ih _
    · have e : dyNorm n (k + 1) = (n, k + 1) := by rw [dyNorm, if_neg h]
      rw [e]; exact e

theorem dyAdd_zero {a : Int × Nat} (ha : dyNorm a.1 a.2 = a) : dyAdd a (0, 0) = a := by
  unfold dyAdd dyAlign
  simp only [Nat.max_zero, Nat.sub_self, Int.pow_zero, Int.mul_one, Int.zero_mul, Int.add_zero]
  exact ha

theorem dyAdd_normal (a b : Int × Nat) : dyNorm (dyAdd a b).1 (dyAdd a b).2 = dyAdd a b := by
  unfold dyAdd
  exact dyNorm_idem _ _

/-- zero weights do not change a sum of weights -/
theorem foldl_dyAdd_filter {α : Type} (L : List α) (f : α → Int × Nat) (P : α → Bool)
    (h : ∀ p ∈ L, P p = false → f p = (0, 0)) (acc : Int × Nat) (hacc : dyNorm acc.1 acc.2 = acc) :
    (L.map f).foldl dyAdd acc = ((L.filter P).map f).foldl dyAdd acc := by
  induction L generalizing acc with
  | nil => rfl
  | cons a l ih =>
    have hl : ∀ p ∈ l, P p = false → f p = (0, 0) := fun p hp => h p (List.mem_cons_of_mem _ hp)
    simp only [List.map_cons, List.foldl_cons, List.filter_cons]
    cases hP : P a with
    | true =>
      simp only [if_true, List.map_cons, List.foldl_cons]
      exact ih hl _ (dyAdd_normal _ _)
    | false =>
      simp only [Bool.false_eq_true, if_false]
      rw [h a (List.mem_cons_self ..) hP, dyAdd_zero hacc]
      exact ih hl _ hacc

theorem dySum_filter {α : Type} (L : List α) (f : α → Int × Nat) (P : α → Bool)
    (h : ∀ p ∈ L, P p = false → f p = (0, 0)) :
    dySum (L.map f) = dySum ((L.filter P).map f) :=
  foldl_dyAdd_filter L f P h (0, 0) rfl

/-- the weighted mean from the weighted sum `sxw` and the total weight `sw` -/
def wmeanOf (sxw sw : Int × Nat) : Option Val :=
  if sw.1 == 0 then (if sxw.1 == 0 then none else some .poison)
  else
    let sgn : Int := if sw.1 < 0 then -1 else 1
    some (mkRat (sgn * sxw.1 * 2 ^ sw.2) (sw.1.natAbs * 2 ^ sxw.2))

/-- `wmean` = Σ value·weight over the valid children / Σ weight over ALL the children -/
theorem reduceVals_wmean (vals ws wden : List (Int × Nat)) :
    reduceVals "wmean" vals ws wden = wmeanOf (dySum (List.zipWith dyMul vals ws)) (dySum wden) := rfl

/-- `wmean` depends on the weights of all children only through their sum -/
theorem reduceVals_wmean_congr (vals ws wden wden' : List (Int × Nat))
    (h : dySum wden = dySum wden') :
    reduceVals "wmean" vals ws wden = reduceVals "wmean" vals ws wden' := by
  rw [reduceVals_wmean, reduceVals_wmean, h]

/-- **`wmean` with zero total weight**: NaN (hence the sentinel: an invalid pixel) when the
    weighted sum is zero as well, else ±inf — `poison` in the exact model -/
theorem reduceVals_wmean_zero (vals ws wden : List (Int × Nat)) (h : (dySum wden).1 = 0) :
    reduceVals "wmean" vals ws wden =
      if (dySum (List.zipWith dyMul vals ws)).1 == 0 then none else some .poison := by
  rw [reduceVals_wmean]
  unfold wmeanOf
  simp only [h, beq_self_eq_true, if_true]

/-! ### Part 7: when `_degrade` succeeds -/

/-- the weight checks of `_degrade` pass: no weights needed unless the reduction is `wmean`;
    then a floating-point map of the same two resolutions whose sorted `valid_pixels` listing
    equals this map's -/
def weightsOk (m : MapObj) (red : String) (w : Option MapObj) : Prop :=
  (red == "wmean") = false ∨
    ∃ wm b al bl, w = some wm ∧ wm.kind = .plain (.flt b) ∧ wm.spord = m.spord ∧
      wm.covord = m.covord ∧ validPixels wm.c wm.vc wm.st = some al ∧
      validPixels m.c m.vc m.st = some bl ∧ al.mergeSort (· ≤ ·) = bl.mergeSort (· ≤ ·)

theorem coreWeights_isOk_iff {m : MapObj} {red : String} {w : Option MapObj} (hwf : m.WF)
    (hv : m.BlankInvalid) : (∃ wv, coreWeights m red w = .ok wv) ↔ weightsOk m red w := by
  constructor
  · rintro ⟨wv, h⟩
    cases hr : (red == "wmean") with
    | false => exact .inl hr
    | true => exact .inr ((coreWeights_ok hwf hv h).1 hr)
  · rintro (hr | ⟨wm, b, al, bl, rfl, hk, h1, h2, ha, hb, hs⟩)
    · have hr' : (red != "wmean") = true := by simp [bne, hr]
      unfold coreWeights
      cases w with
      | none => exact ⟨none, by rw [if_neg (by rw [hr]; exact Bool.false_ne_true)]; rfl⟩
      | some wm => exact ⟨none, by simp only; rw [if_pos hr']; rfl⟩
    · unfold coreWeights
      obtain ⟨wv', g1, _, _⟩ := hwf.2.gatherWeights_spec' hv wm.abs (Val.num 0 0)
      cases hr : (red == "wmean") with
      | false =>
        have hr' : (red != "wmean") = true := by simp [bne, hr]
        exact ⟨none, by simp only; rw [if_pos hr']; rfl⟩
      | true =>
        refine ⟨some wv', ?_⟩
        have hr' : ¬ (red != "wmean") = true := by simp [bne, hr]
        simp only
        rw [if_neg hr']
        simp only [hk]
        rw [if_neg (by rw [h1, h2]; simp)]
        simp only [ha, hb]
        rw [if_neg (by rw [hs]; simp)]
        simp only [g1]
        rfl

theorem coreRest_isOk_iff (m : MapObj) (ordOut : Nat) (red : String) (w : Option MapObj)
    (wv : Option (Array Val)) :
    (∃ b, coreRest m ordOut red w wv = .ok b) ↔
      coreAccepts m.kind red = true ∧ (isAndOr red = true ∨ cellsFitF64 m.st.sp = true) := by
  unfold coreRest coreAccepts isAndOr
  simp only
  cases ha : (red == "and") <;> cases ho : (red == "or") <;> cases hfit : cellsFitF64 m.st.sp <;>
    cases hk : m.kind <;> cases hfr : floatReds.contains red <;>
    (try (rename_i dt; cases hi : dt.isInt)) <;> simp_all

theorem bind_isOk_iff {α β : Type} (x : Except Err α) (f : α → Except Err β) :
    (∃ b, (x >>= f) = .ok b) ↔ ∃ a, x = .ok a ∧ ∃ b, f a = .ok b := by
  cases x with
  | error e =>
    constructor
    · rintro ⟨b, h⟩; cases h
    · rintro ⟨a, h, _⟩; cases h
  | ok a =>
    constructor
    · rintro ⟨b, h⟩; exact ⟨a, rfl, b, h⟩
    · rintro ⟨a', h, b, hb⟩; cases h; exact ⟨b, hb⟩

/-- **when `degrade` succeeds**, for `covord ≤ ordOut < spord`: exactly when the weight checks
    pass, the reduction is one the kind accepts, and (model artefact) every cell converts to
    float64 exactly unless the reduction is `and` / `or` -/
theorem apiDegrade_inrange_isOk_iff {m : MapObj} {ordOut : Nat} {red : String} {w : Option MapObj}
    (hwf : m.WF) (hv : m.BlankInvalid) (hlo : m.covord ≤ ordOut) (hlt : ordOut < m.spord) :
    (∃ m', apiDegrade m ordOut red w = .ok m') ↔
      weightsOk m red w ∧ coreAccepts m.kind red = true ∧
        (isAndOr red = true ∨ cellsFitF64 m.st.sp = true) := by
  rw [apiDegrade_eq]
  unfold degradeSpec
  rw [if_neg (by omega)]
  by_cases hp : (m.kind == .packed) = true
  · rw [if_pos hp]
    have hk : m.kind = .packed := eq_of_beq hp
    constructor
    · rintro ⟨_, h⟩; cases h
    · rintro ⟨_, h, _⟩
      rw [hk] at h; cases h
  · rw [if_neg hp, if_neg (by omega), if_neg (by simp; omega), apiDegradeCore_eq, bind_isOk_iff]
    constructor
    · rintro ⟨wv, h1, h2⟩
      exact ⟨(coreWeights_isOk_iff hwf hv).1 ⟨wv, h1⟩, (coreRest_isOk_iff _ _ _ _ _).1 h2⟩
    · rintro ⟨h1, h2⟩
      obtain ⟨wv, hwv⟩ := (coreWeights_isOk_iff hwf hv).2 h1
      exact ⟨wv, hwv, (coreRest_isOk_iff _ _ _ _ _).2 h2⟩

theorem apiDegrade_pre {m m' : MapObj} {ordOut : Nat} {red : String} {w : Option MapObj}
    (h : apiDegrade m ordOut red w = .ok m') : ordOut ≤ m.spord ∧ m.kind ≠ .packed := by
  rw [apiDegrade_eq] at h
  unfold degradeSpec at h
  split at h
  · cases h
  split at h
  · cases h
  rename_i h1 h2
  exact ⟨by omega, by simpa using h2⟩

/-- `degrade` at the map's own resolution is a copy: nothing is validated -/
theorem apiDegrade_same {m : MapObj} (red : String) (w : Option MapObj) (hle : m.covord ≤ m.spord)
    (hk : m.kind ≠ .packed) :
    apiDegrade m m.spord red w = .ok { m with cache := none } := by
  rw [apiDegrade_eq]
  unfold degradeSpec
  rw [if_neg (by omega), if_neg (by simpa using hk), if_neg (by omega), if_pos (by simp)]

/-! ### Part 8: small facts for the property theorems -/

theorem fits_zero (dt : DT) : (Val.num 0 0).fits dt = true := by
  cases dt with
  | flt b =>
    show decide (fitsFloat.strip 1100 0 < 2 ^ (if b == 32 then 24 else 53)) = true
    rw [decide_eq_true_iff]
    exact Nat.two_pow_pos _
  | int b sg => rfl
  | bool => rfl

theorem fits_one (dt : DT) : (Val.num 1 0).fits dt = true := by
  cases dt with
  | flt b =>
    show decide (fitsFloat.strip 1100 1 < 2 ^ (if b == 32 then 24 else 53)) = true
    rw [decide_eq_true_iff]
    show 1 < _
    split <;> decide
  | int b sg => rfl
  | bool => rfl

theorem fltOut_none (dt : DT) : fltOut dt none = dt.defaultSentinel := rfl

theorem fltOut_zero (dt : DT) : fltOut dt (some (.num 0 0)) = .num 0 0 := by
  show (if (Val.num 0 0).fits dt = true then Val.num 0 0 else Val.poison) = _
  rw [if_pos (fits_zero dt)]

theorem fltOut_one (dt : DT) : fltOut dt (some (.num 1 0)) = .num 1 0 := by
  show (if (Val.num 1 0).fits dt = true then Val.num 1 0 else Val.poison) = _
  rw [if_pos (fits_one dt)]

theorem validChildren_eq_nil_iff {m : MapObj} {ordOut q : Nat} :
    validChildren m ordOut q = [] ↔
      (childPix m ordOut q).any (fun p => m.vc.valid (m.abs p)) = false := by
  unfold validChildren
  rw [List.filter_eq_nil_iff, List.any_eq_false]

/-- a coarse pixel with a valid child is live -/
theorem live_of_validChildren {m : MapObj} {ordOut q : Nat} (h : validChildren m ordOut q ≠ []) :
    live m ordOut q = true := by
  unfold live
  cases ha : (childPix m ordOut q).any (fun p => m.vc.valid (m.abs p)) with
  | true => rfl
  | false => exact absurd (validChildren_eq_nil_iff.2 ha) h

/-- without valid children, a coarse pixel is live exactly when (at or above the coverage
    resolution) it lies in a covered coverage pixel -/
theorem live_of_no_validChildren {m : MapObj} {ordOut q : Nat} (h : validChildren m ordOut q = []) :
    live m ordOut q =
      (decide (m.covord ≤ ordOut) && covered m.c m.st (q >>> (2 * (ordOut - m.covord)))) := by
  unfold live
  rw [validChildren_eq_nil_iff.1 h, Bool.false_or]

theorem wAt_wmean_valid {m wm : MapObj} {p : Nat} (h : m.vc.valid (m.abs p) = true) :
    wAt m "wmean" (some wm) p = wm.abs p := by
  unfold wAt
  simp [h]

theorem wAt_invalid {m : MapObj} {red : String} {w : Option MapObj} {p : Nat}
    (h : m.vc.valid (m.abs p) = false) : wAt m red w p = .num 0 0 := by
  unfold wAt
  cases w with
  | none => rfl
  | some wm => simp [h]

/-- the weights of the valid children, read from the weight map's dense view -/
theorem ws_wmean (m wm : MapObj) (ordOut q : Nat) :
    ((validChildren m ordOut q).map fun p => (wAt m "wmean" (some wm) p).numD) =
      (validChildren m ordOut q).map fun p => (wm.abs p).numD := by
  apply List.map_congr_left
  intro p hp
  unfold validChildren at hp
  rw [wAt_wmean_valid (List.mem_filter.1 hp).2]
  -- `List.mem_filter` gives `valid … = true`

/-- total weight: the invalid children carry weight 0, so the sum over ALL the children is the
    sum over the valid ones -/
theorem wden_wmean (m wm : MapObj) (ordOut q : Nat) :
    dySum ((childPix m ordOut q).map fun p => (wAt m "wmean" (some wm) p).numD) =
      dySum ((validChildren m ordOut q).map fun p => (wm.abs p).numD) := by
  rw [← ws_wmean]
  unfold validChildren
  apply dySum_filter
  intro p _ hp
  rw [wAt_invalid hp]
  rfl

/-! ### Part 9: integer `or` over a zero sentinel is unaffected by the missing mask -/

theorem pow2_pos (b : Nat) : (0 : Int) < 2 ^ b := Int.pow_pos (by decide)

theorem wrapInt_emod (b : Nat) (sg : Bool) (x : Int) : wrapInt b sg (x % 2 ^ b) = wrapInt b sg x := by
  unfold wrapInt
  simp only [Int.emod_emod]

theorem wrapInt_idem (b : Nat) (sg : Bool) (y : Int) : wrapInt b sg (wrapInt b sg y) = wrapInt b sg y := by
  unfold wrapInt
  simp only
  split
  · rename_i hc
    simp only [Int.sub_emod_right, Int.emod_emod, hc, if_true]
  · rename_i hc
    simp only [Int.emod_emod, hc, Bool.false_eq_true, if_false]

theorem wrapInt_zero {b : Nat} (hb : 0 < b) (sg : Bool) : wrapInt b sg 0 = 0 := by
  obtain ⟨k, rfl⟩ : ∃ k, b = k + 1 := ⟨b - 1, by omega⟩
  unfold wrapInt
  simp only [Int.zero_emod]
  have h2 : (2 : Int) ^ (k + 1) / 2 = 2 ^ k := by
    rw [Int.pow_succ, Int.mul_ediv_cancel _ (by decide)]
  have h3 : ¬ ((0 : Int) ≥ 2 ^ (k + 1) / 2) := by
    rw [h2]; have := pow2_pos k; omega
  simp only [h3, decide_false, Bool.and_false, Bool.false_eq_true, if_false]

theorem intBitop_or_zero (b : Nat) (sg : Bool) (a : Int) :
    intBitop (· ||| ·) (.int b sg) a 0 = wrapInt b sg a := by
  unfold intBitop
  simp only [Int.zero_emod, Int.toNat_zero, Nat.or_zero]
  rw [Int.toNat_of_nonneg (Int.emod_nonneg a (Int.ne_of_gt (pow2_pos b))), wrapInt_emod]

theorem intBitop_zero_or (b : Nat) (sg : Bool) (a : Int) :
    intBitop (· ||| ·) (.int b sg) 0 a = wrapInt b sg a := by
  unfold intBitop
  simp only [Int.zero_emod, Int.toNat_zero, Nat.zero_or]
  rw [Int.toNat_of_nonneg (Int.emod_nonneg a (Int.ne_of_gt (pow2_pos b))), wrapInt_emod]

/-- a cell of an integer map of dtype `int b sg`: an integer in the range of the dtype -/
def IntCell (b : Nat) (sg : Bool) (v : Val) : Prop := ∃ a, v = .num a 0 ∧ wrapInt b sg a = a

theorem IntCell.or_zero {b : Nat} {sg : Bool} {x : Val} (hx : IntCell b sg x) :
    Val.or (.int b sg) x (.num 0 0) = x := by
  obtain ⟨a, rfl, ha⟩ := hx
  show Val.num (intBitop (· ||| ·) (.int b sg) a 0) 0 = _
  rw [intBitop_or_zero, ha]

theorem IntCell.zero_or {b : Nat} {sg : Bool} {x : Val} (hx : IntCell b sg x) :
    Val.or (.int b sg) (.num 0 0) x = x := by
  obtain ⟨a, rfl, ha⟩ := hx
  show Val.num (intBitop (· ||| ·) (.int b sg) 0 a) 0 = _
  rw [intBitop_zero_or, ha]

theorem IntCell.or {b : Nat} {sg : Bool} {x y : Val} (hx : IntCell b sg x) (hy : IntCell b sg y) :
    IntCell b sg (Val.or (.int b sg) x y) := by
  obtain ⟨a, rfl, _⟩ := hx
  obtain ⟨c, rfl, _⟩ := hy
  exact ⟨_, rfl, wrapInt_idem _ _ _⟩

/-- zeros do not change an `or` fold -/
theorem foldl_or_filter {b : Nat} {sg : Bool} (l : List Val) (hl : ∀ x ∈ l, IntCell b sg x)
    (acc : Val) (hacc : IntCell b sg acc) :
    l.foldl (Val.or (.int b sg)) acc =
      (l.filter fun v => v != Val.num 0 0).foldl (Val.or (.int b sg)) acc := by
  induction l generalizing acc with
  | nil => rfl
  | cons x t ih =>
    have ht : ∀ y ∈ t, IntCell b sg y := fun y hy => hl y (List.mem_cons_of_mem _ hy)
    have hx := hl x (List.mem_cons_self ..)
    simp only [List.foldl_cons, List.filter_cons]
    by_cases hz : x = Val.num 0 0
    · subst hz
      simp only [bne_self_eq_false, Bool.false_eq_true, if_false]
      rw [hacc.or_zero]
      exact ih ht acc hacc
    · have : (x != Val.num 0 0) = true := by simpa using hz
      simp only [this, if_true, List.foldl_cons]
      exact ih ht _ (hacc.or hx)

theorem intRed_or_cons (dt : DT) (s r : Val) (rest : List Val) :
    intRed dt s "or" (r :: rest) = rest.foldl (Val.or dt) r := by
  unfold intRed
  simp

/-- **integer `or` over the sentinel 0**: the unmasked fold over all cells equals the fold over
    exactly the valid (non-zero) cells, and is the sentinel when there is none -/
theorem intRed_or_zero {b : Nat} {sg : Bool} (hb : 0 < b) (cells : List Val)
    (hl : ∀ x ∈ cells, IntCell b sg x) :
    intRed (.int b sg) (.num 0 0) "or" cells =
      intRed (.int b sg) (.num 0 0) "or" (cells.filter fun v => v != Val.num 0 0) := by
  have hzero : IntCell b sg (.num 0 0) := ⟨0, rfl, wrapInt_zero hb sg⟩
  have fold0 : ∀ l : List Val, (∀ x ∈ l, IntCell b sg x) →
      l.foldl (Val.or (.int b sg)) (.num 0 0) = intRed (.int b sg) (.num 0 0) "or" l := by
    intro l hl'
    cases l with
    | nil => rfl
    | cons x t =>
      rw [intRed_or_cons]
      show t.foldl _ (Val.or (.int b sg) (.num 0 0) x) = t.foldl _ x
      rw [(hl' x (List.mem_cons_self ..)).zero_or]
  cases cells with
  | nil => rfl
  | cons r rest =>
    have hrest : ∀ y ∈ rest, IntCell b sg y := fun y hy => hl y (List.mem_cons_of_mem _ hy)
    have hr := hl r (List.mem_cons_self ..)
    simp only [List.filter_cons]
    by_cases hz : r = Val.num 0 0
    · subst hz
      simp only [bne_self_eq_false, Bool.false_eq_true, if_false]
      rw [intRed_or_cons, foldl_or_filter rest hrest _ hzero]
      exact fold0 _ (fun x hx => hrest x (List.mem_filter.1 hx).1)
    · have : (r != Val.num 0 0) = true := by simpa using hz
      simp only [this, if_true]
      rw [intRed_or_cons, intRed_or_cons]
      exact foldl_or_filter rest hrest r hr

/-! ### Part 10: the `inexact` guard: what the float path never reduces -/

/-- a cell the float path may reduce: not the exact rational / root / unpredictable value an
    earlier `mean`, `std` or `wmean` degrade can leave -/
def Val.reducible : Val → Bool
  | .rat _ _ => false
  | .sqrtRat _ _ => false
  | .poison => false
  | _ => true

theorem cellsFitF64_reducible {sp : Array Val} (h : cellsFitF64 sp = true) {v : Val} (hv : v ∈ sp) :
    Val.reducible v = true := by
  unfold cellsFitF64 at h
  rw [Array.all_eq_true_iff_forall_mem] at h
  have := h v hv
  cases v <;> first | rfl | (simp at this)

theorem abs_mem_or_sentinel (m : MapObj) (p : Nat) : m.abs p ∈ m.st.sp ∨ m.abs p = m.vc.sentinel := by
  have e : m.abs p = (m.st.sp[(lookup m.c m.st p).toNat]?).getD m.vc.sentinel := rfl
  rw [e]
  cases hg : m.st.sp[(lookup m.c m.st p).toNat]? with
  | none => exact .inr rfl
  | some v => exact .inl (Array.mem_of_getElem? hg)


end ApiDegrade
end HS
