/-
  Protocol operations on stand-alone `_PackedBoolArray` objects (array level of C05).
  Lines whose operation name starts with `p.` are routed here by Model/Dispatch.lean.
-/
import HealSparse.Model.Text
namespace HS

structure PackedWorld where
  dummy : Unit := ()

def stepPacked (w : PackedWorld) (op : String) (a : Args) : PackedWorld × String :=
  let _ := a
  (w, "bad-op:unknown-packed-op:" ++ op)

end HS
