"""C13 — a wide-mask map behaves as a per-pixel set of bit positions."""
import gen
import translate_kernels

PID = 'C13'
RULE = ("wide-mask maps with requested maxbits in {1,7,8,9,15,16,17,20,24,32} receive histories of set_bits_pix / "
        "clear_bits_pix / update with packed rows / or-and-xor with bit lists (copying and in place) over arbitrary "
        "pixel sets, with bits drawn from {0,7,8,15,16,W-1, random, and >= W (must be rejected, map unchanged)}; "
        "after every step check_bits_pix is read for every single bit position of every touched pixel, plus valid "
        "pixels, n_valid and layout, and compared with the Lean model; non-trivial = a set followed by a clear "
        "touching a byte boundary bit")
ASSUMPTIONS = ["bit positions are non-negative (negative positions wrap in numpy indexing and are outside the property)"]


def histories(rng, tier):
    n = 300 if tier == 'quick' else 2500
    out = []
    for _ in range(n):
        covord = rng.choice([0, 0, 1])
        spord = covord + rng.choice([0, 1, 2])
        mb = rng.choice([1, 7, 8, 9, 15, 16, 17, 20, 24, 32])
        c = gen.MapCfg('w', 'wide', covord, spord, maxbits=mb)
        W = c.nbytes * 8
        h = [c.line()]
        focus = rng.sample(range(c.ncov), min(c.ncov, rng.randint(1, 4)))
        touched = set()

        def bitlist():
            nb = rng.randint(1, 3)
            cand = [0, 7, 8, 15, 16, W - 1, rng.randrange(W), rng.randrange(W)]
            bl = [rng.choice(cand) % W for _ in range(nb)]
            if rng.random() < 0.08:
                bl[0] = W + rng.choice([0, 1, 7])
            return bl

        for _ in range(rng.randint(3, 10)):
            r = rng.random()
            if c.nbytes >= 2 and rng.random() < 0.12:
                # a pixel whose bits all sit in ONE byte, then xor with a list that cancels exactly that byte and
                # carries a bit in another byte: the pixel passes through the all-zero row mid-operation
                # (seeded change C13f re-evaluated validity per byte column in the in-place form)
                p0 = rng.choice(focus) * c.nfine + rng.randrange(c.nfine)
                byte = rng.randrange(c.nbytes)
                x = rng.choice([1, 128, 129, 33, rng.randint(1, 255)])
                row = [0] * c.nbytes
                row[byte] = x
                other = rng.choice([b for b in range(c.nbytes) if b != byte])
                bl = [8 * byte + j for j in range(8) if x >> j & 1] + [8 * other + rng.randrange(8)]
                bl = [b for b in bl if b < W]
                rng.shuffle(bl)
                touched.add(p0)
                h.append('upd w op=replace pix=%d val=b%s' % (p0, '.'.join(map(str, row))))
                h.append('sop w op=xor bits=%s%s' % (','.join(map(str, bl)),
                                                     rng.choice([' inplace=1', ' inplace=1', ' r=w'])))
                h += ['state w', 'valid w', 'nvalid w']
            pix = gen.rand_pixels(rng, c, unique=False, focus=focus)
            touched.update(pix)
            ptxt = ','.join(map(str, pix)) or '_'
            if r < 0.4:
                h.append('bits w mode=set pix=%s bits=%s' % (ptxt, ','.join(map(str, bitlist()))))
            elif r < 0.65:
                h.append('bits w mode=clear pix=%s bits=%s' % (ptxt, ','.join(map(str, bitlist()))))
            elif r < 0.72:
                h.append(gen.geom_line(rng, c, mode=rng.choice(['ior', 'realize'])))
            elif r < 0.76:
                h += [gen.geom_line(rng, c, mode=rng.choice(['getmap', 'getmaplike']), r='gm'), 'info gm', 'state gm',
                      'valid gm']
                for b in (0, 7, 8, 15, 16, 23, 24):
                    h.append('chk gm pix=%s bits=%d' % (','.join(map(str, sorted(touched)[:8])) or '0', b))
            elif r < 0.8:
                h.append(gen.upd_line(rng, c, focus=focus))
            else:
                op = rng.choice(['and', 'or', 'xor'])
                # (r=w: the history continues on the RESULT OBJECT of the copying operator itself — not on a
                #  copy of it — so later growth runs on whatever storage the operator produced: seeded C13d)
                tail = rng.choice([' inplace=1', ' inplace=1', ' r=t', ' r=w'])
                h.append('sop w op=%s bits=%s%s' % (op, ','.join(map(str, bitlist())), tail))
                if tail == ' r=t':
                    h += ['state t', 'copy t r=w']
            h.append('state w')
            tp = sorted(touched)[:24]
            if tp:
                for b in sorted(set([0, 7, 8, 15, 16, W - 1] + [rng.randrange(W) for _ in range(2)])):
                    if b < W:
                        h.append('chk w pix=%s bits=%d%s' % (','.join(map(str, tp)), b,
                                                              ' via=pos' if rng.random() < 0.25 else ''))
            h += ['valid w', 'nvalid w']
        out.append(h)
    return out


def nontrivial(h):
    return sum(1 for ln in h if ln.startswith('bits ')) >= 2


def must_reject(line):
    """C13: bit positions at or above the width must be rejected"""
    t = line.split()
    return t[0] in ('bits', 'sop', 'geom') and any(x.startswith('bits=') for x in t)


def translate():
    """regenerate Generated/Kernels.lean from /repo (obligations: Props/C13Kernels.lean)"""
    return translate_kernels.translate()


def kernel_failing_rows():
    return translate_kernels.failing_rows(PID)
