/-
  The two implementations of a pixel-range update at the API level (`apiUpdateRanges`,
  Model/Api.lean): helper lemmas for the API-level part of Props/C08.

  * `apiUpdate_eq`, `apiUpdateRanges_slice_eq`, `apiUpdateRanges_expand_eq`: the `Except`
    programs as flat decision lists (every check in source order, then the core function);
  * the storage cells of a well-formed state are exactly the overflow cells and the cells of
    pixels (`Inv.cell_owner`), so a predicate on all cells (`floatCellsFit`) depends on the
    dense view only;
  * coverage / dense-view facts of both paths in the shape the property theorems use.
-/
import HealSparse.Lemmas.WFWorld
import HealSparse.Lemmas.Ranges
namespace HS

/-! ### the API programs as decision lists -/

/-- legality of the operation name / of the `None` value for this map (lines 508-560): the
    checks that precede the empty-input early return; the same code in both range paths -/
def frontErr (m : MapObj) (op : String) (clear : Bool) : Option Err :=
  if clear && op != "replace" then some .value
  else if op != "replace" then
    if m.kind.isBool then (if op != "or" && op != "and" then some .notImpl else none)
    else if op == "or" || op == "and" then
      (if !(m.kind.isIntegerMap && m.sent.isZero) then some .value else none)
    else if op == "add" then (match m.kind with | .recd _ _ => some .value | _ => none)
    else some .value
  else none

/-- the (pixel, value) pairs `update_values_pix` scatters -/
def updPv (m : MapObj) (pix : List Nat) (vals : Option (List Val)) (single : Bool) :
    List (Nat × Val) :=
  match vals with
  | none => pix.map (·, clearValue m)
  | some vs => if single || vs.length == 1 then pix.map (·, vs.headD (.num 0 0)) else pix.zip vs

/-- the storage `update_values_pix` produces once every check has passed -/
def updSt (m : MapObj) (op : String) (pix : List Nat) (vals : Option (List Val)) (single : Bool) :
    State Val :=
  updatePix m.c m.vc m.st (cellOp m op).1 (cellOp m op).2 (updPv m pix vals single) vals.isNone

/-- `update_values_pix` as a flat decision list -/
def apiUpdateSpec (m : MapObj) (op : String) (pix : List Nat) (vals : Option (List Val))
    (single : Bool) (rawUnique : Option Bool) : Except Err MapObj :=
  let vs := vals.getD [clearValue m]
  let sg := vals.isNone || single || vs.length == 1
  match frontErr m op vals.isNone with
  | some e => .error e
  | none =>
    if pix.isEmpty then .ok { m with cache := none }
    else if !(vs.all (valMatchesKind m.kind)) then .error .value
    else if op == "replace" &&
        (match rawUnique with | some ok => !ok | none => decide (pix.eraseDups.length < pix.length))
      then .error .value
    else if !sg && vs.length != pix.length then .error .value
    else if pix.any (· ≥ m.npix) then .error .index
    else if m.view.isSome && pix.any (fun p => m.abs p == m.sent) then .error .runtime
    else if op == "add" && !floatCellsFit m.kind (updSt m op pix vals single).sp then .error .inexact
    else .ok { m with cache := none, st := updSt m op pix vals single }

theorem cellOp_cache (m : MapObj) (x : Option Nat) (op : String) :
    cellOp { m with cache := x } op = cellOp m op := rfl
theorem clearValue_cache (m : MapObj) (x : Option Nat) :
    clearValue { m with cache := x } = clearValue m := rfl
theorem MapObj.npix_cache (m : MapObj) (x : Option Nat) :
    ({ m with cache := x } : MapObj).npix = m.npix := rfl
theorem MapObj.c_cache (m : MapObj) (x : Option Nat) :
    ({ m with cache := x } : MapObj).c = m.c := rfl
theorem MapObj.vc_cache (m : MapObj) (x : Option Nat) :
    ({ m with cache := x } : MapObj).vc = m.vc := rfl
theorem MapObj.abs_cache (m : MapObj) (x : Option Nat) :
    ({ m with cache := x } : MapObj).abs = m.abs := rfl

/-- decide one condition of a decision list on both sides of the goal -/
syntax "cs " ident " : " term : tactic
macro_rules
  | `(tactic| cs $h:ident : $c:term) => `(tactic|
      (by_cases $h:ident : $c <;>
        simp only [$h:ident, if_true, if_false, ↓reduceIte, Bool.not_true, Bool.not_false,
          Bool.false_eq_true, not_true_eq_false, not_false_eq_true] <;> try rfl))

theorem apiUpdate_eq (m : MapObj) (op : String) (pix : List Nat) (vals : Option (List Val))
    (single : Bool) (ru : Option Bool) :
    apiUpdate m op pix vals single ru = apiUpdateSpec m op pix vals single ru := by
  unfold apiUpdate apiUpdateSpec frontErr updSt updPv
  simp only [bind, Except.bind, pure, Except.pure, throw, throwThe, MonadExceptOf.throw,
    cellOp_cache, clearValue_cache, MapObj.npix_cache, MapObj.c_cache, MapObj.vc_cache,
    MapObj.abs_cache]
  cases vals with
  | none =>
    simp only [Option.isNone_none, Option.getD_none, Bool.true_and, Bool.true_or]
    cs h1 : (op != "replace") = true
    have h1' : op = "replace" := by simpa using h1
    subst h1'
    cases ru <;> simp
  | some vs =>
    simp only [Option.isNone_some, Option.getD_some, Bool.false_and, Bool.false_or]
    cs h1 : (op != "replace") = true
    · cs h2 : m.kind.isBool = true
      · cs h3 : (op != "or" && op != "and") = true
        cs hr : (op == "replace") = true <;> cases ru <;> simp
      · cs h4 : (op == "or" || op == "and") = true
        · cs h5 : (!(m.kind.isIntegerMap && m.sent.isZero)) = true
          cs hr : (op == "replace") = true <;> cases ru <;> simp
        · cs h6 : (op == "add") = true
          generalize m.kind = k
          cases k <;> simp only [] <;> cs hr : (op == "replace") = true <;> cases ru <;> simp
    · cs hr : (op == "replace") = true <;> cases ru <;> simp

/-- line 592 applied to the raw `(M, 2)` array: no repeated number among the `2 M` entries
    beyond what `M` rows allow -/
def rawOk (R : List (Nat × Nat)) : Bool :=
  !((R.flatMap fun ab => [ab.1, ab.2]).eraseDups.length < R.length)

/-- the single value of a range update (`None` = the clear value) -/
def rangesW (m : MapObj) (val : Option Val) : Val := val.getD (clearValue m)

/-- the storage the slice path produces once every check has passed -/
def sliceSt (m : MapObj) (op : String) (R : List (Nat × Nat)) (val : Option Val) : State Val :=
  updateRanges m.c m.vc m.st (cellEffect (cellOp m op).1 (cellOp m op).2 (rangesW m val)) R val.isNone

/-- the slice path as a flat decision list -/
def apiRangesSliceSpec (m : MapObj) (op : String) (R : List (Nat × Nat)) (val : Option Val) :
    Except Err MapObj :=
  match frontErr m op val.isNone with
  | some e => .error e
  | none =>
    if R.isEmpty then .ok { m with cache := none }
    else if !(valMatchesKind m.kind (rangesW m val)) then .error .value
    else if op == "replace" && !rawOk R then .error .value
    else if R.any (fun ab => ab.2 > m.npix || ab.1 > ab.2) then .error .index
    else if op == "add" && !floatCellsFit m.kind (sliceSt m op R val).sp then .error .inexact
    else .ok { m with cache := none, st := sliceSt m op R val }

theorem apiUpdateRanges_slice_eq (m : MapObj) (op : String) (R : List (Nat × Nat))
    (val : Option Val) :
    apiUpdateRanges m op R val true = apiRangesSliceSpec m op R val := by
  unfold apiUpdateRanges apiRangesSliceSpec frontErr sliceSt rangesW rawOk
  simp only [bind, Except.bind, pure, Except.pure, throw, throwThe, MonadExceptOf.throw,
    cellOp_cache, clearValue_cache, MapObj.npix_cache, MapObj.c_cache, MapObj.vc_cache,
    Bool.not_true, Bool.false_eq_true, if_false]
  cases val with
  | none =>
    simp only [Option.isNone_none, Option.getD_none, Bool.true_and]
    cs h1 : (op != "replace") = true
  | some v =>
    simp only [Option.isNone_some, Option.getD_some, Bool.false_and]
    cs h1 : (op != "replace") = true
    cs h2 : m.kind.isBool = true
    · cs h3 : (op != "or" && op != "and") = true
    · cs h4 : (op == "or" || op == "and") = true
      · cs h5 : (!(m.kind.isIntegerMap && m.sent.isZero)) = true
      · cs h6 : (op == "add") = true
        generalize m.kind = k
        cases k <;> rfl

/-- the expansion path: `update_values_pix` on the explicit pixel list (the raw-array
    uniqueness verdict is handed over; a row beyond the sphere raises after the checks) -/
theorem apiUpdateRanges_expand_eq (m : MapObj) (op : String) (R : List (Nat × Nat))
    (val : Option Val) :
    apiUpdateRanges m op R val false =
      if R.isEmpty then apiUpdateSpec m op [] (val.map fun v => [v]) true none
      else if R.any (fun ab => ab.2 > m.npix) then
        (match apiUpdateSpec m op [0] (val.map fun v => [v]) true (some (rawOk R)) with
         | .ok _ => .error .index
         | .error e => .error e)
      else apiUpdateSpec m op (expand R) (val.map fun v => [v]) true (some (rawOk R)) := by
  unfold apiUpdateRanges rawOk
  simp only [bind, Except.bind, pure, Except.pure, throw, throwThe, MonadExceptOf.throw,
    Bool.not_false, if_true, apiUpdate_eq]
  split
  · rfl
  · split
    · split <;> simp_all
    · rfl


/-! ### small facts -/

theorem MapObj.npix_pos (m : MapObj) : 0 < m.npix := by
  unfold MapObj.npix MapObj.c cfgOf Cfg.npix Cfg.nfine
  exact Nat.mul_pos (Nat.mul_pos (by decide) (Nat.pow_pos (by decide))) (Nat.two_pow_pos _)

theorem expand_lt {n : Nat} {R : List (Nat × Nat)} (h : ∀ ab ∈ R, ab.2 ≤ n) :
    ∀ q ∈ expand R, q < n := by
  intro q hq
  obtain ⟨ab, hab, _, h2⟩ := (expand_mem' R q).1 hq
  exact Nat.lt_of_lt_of_le h2 (h ab hab)

theorem expand_eq_nil_iff (R : List (Nat × Nat)) : expand R = [] ↔ ∀ ab ∈ R, ab.2 ≤ ab.1 := by
  constructor
  · intro h ab hab
    apply Nat.le_of_not_lt
    intro hlt
    have : ab.1 ∈ expand R := (expand_mem' R _).2 ⟨ab, hab, Nat.le_refl _, hlt⟩
    rw [h] at this
    cases this
  · intro h
    apply List.eq_nil_iff_forall_not_mem.2
    intro q hq
    obtain ⟨ab, hab, h1, h2⟩ := (expand_mem' R q).1 hq
    have := h ab hab
    omega

theorem not_any_iff {α : Type} {l : List α} {P : α → Bool} :
    ¬ l.any P = true ↔ ∀ x ∈ l, P x = false := by
  rw [List.any_eq_true]
  constructor
  · intro h x hx
    cases hP : P x with
    | false => rfl
    | true => exact absurd ⟨x, hx, hP⟩ h
  · rintro h ⟨x, hx, hP⟩
    rw [h x hx] at hP
    cases hP

/-! ### storage cells and the dense view -/

section cells
variable {V : Type} [DecidableEq V] {c : Cfg} {vc : VCfg V} {s : State V}

/-- every data cell is the cell of a pixel -/
theorem Inv.cell_owner (h : Inv c vc s) {i : Nat} (hi : i < s.sp.size) (hn : c.nfine ≤ i) :
    ∃ p, p < c.npix ∧ idxOf c s p = i := by
  have hsz := h.size_eq
  have hpos := c.nfine_pos
  have hdm := Nat.div_add_mod i c.nfine
  have hml := Nat.mod_lt i hpos
  have hq1 : 1 ≤ i / c.nfine := (Nat.le_div_iff_mul_le hpos).2 (by omega)
  have hq2 : i / c.nfine < nblk c s + 1 := by
    rw [Nat.div_lt_iff_lt_mul hpos, ← hsz]; exact hi
  obtain ⟨k, hk, hbs⟩ := h.2.2.2.2.2 (i / c.nfine - 1) (by omega)
  have e : i / c.nfine - 1 + 1 = i / c.nfine := by omega
  rw [e] at hbs
  have hle := block_le_npix c hk
  rw [Nat.succ_mul] at hle
  refine ⟨k * c.nfine + i % c.nfine, by omega, ?_⟩
  have hsh : (k * c.nfine + i % c.nfine) >>> c.shift = k :=
    shift_eq_of_block c (by omega) (by rw [Nat.succ_mul]; omega)
  unfold idxOf
  rw [lookup_of_shift c s hsh]
  unfold blockStart at hbs
  rw [Nat.mul_comm] at hdm
  have hdm' : ((i / c.nfine * c.nfine : Nat) : Int) + ((i % c.nfine : Nat) : Int) = (i : Int) := by
    exact_mod_cast hdm
  rw [Int.natCast_add]
  omega

/-- a predicate holds of every storage cell iff it holds of the sentinel and of every pixel -/
theorem Inv.all_cells (h : Inv c vc s) (P : V → Bool) :
    s.sp.all P = true ↔ P vc.sentinel = true ∧ ∀ p, p < c.npix → P (abs c vc s p) = true := by
  rw [Array.all_eq_true]
  constructor
  · intro hall
    refine ⟨?_, fun p hp => ?_⟩
    · have h0 := h.2.2.1 0 c.nfine_pos
      have hlt : 0 < s.sp.size := Nat.lt_of_lt_of_le c.nfine_pos h.nfine_le_size
      rw [Array.getElem?_eq_getElem hlt] at h0
      have := hall 0 hlt
      rw [Option.some.inj h0] at this
      exact this
    · have hlt := h.idxOf_lt_size hp
      have : abs c vc s p = s.sp[idxOf c s p] := rd_eq_getElem _ _ _ hlt
      rw [this]
      exact hall _ hlt
  · rintro ⟨h0, hp⟩ i hi
    by_cases hn : i < c.nfine
    · have := h.2.2.1 i hn
      rw [Array.getElem?_eq_getElem hi] at this
      rw [Option.some.inj this]
      exact h0
    · obtain ⟨p, hp', hix⟩ := h.cell_owner hi (Nat.le_of_not_lt hn)
      have : abs c vc s p = s.sp[i] := by
        show rd s.sp (idxOf c s p) _ = _
        rw [hix]; exact rd_eq_getElem _ _ _ hi
      rw [← this]
      exact hp p hp'

/-- two well-formed states with the same dense view satisfy the same all-cells predicates -/
theorem Inv.all_cells_congr {s' : State V} (h : Inv c vc s) (h' : Inv c vc s') (P : V → Bool)
    (hab : ∀ p, p < c.npix → abs c vc s p = abs c vc s' p) : s.sp.all P = s'.sp.all P := by
  have e : s.sp.all P = true ↔ s'.sp.all P = true := by
    rw [h.all_cells P, h'.all_cells P]
    constructor
    · rintro ⟨h0, hp⟩; exact ⟨h0, fun p hp' => by rw [← hab p hp']; exact hp p hp'⟩
    · rintro ⟨h0, hp⟩; exact ⟨h0, fun p hp' => by rw [hab p hp']; exact hp p hp'⟩
  cases h1 : s.sp.all P <;> cases h2 : s'.sp.all P <;> simp_all

end cells

/-- the per-cell test of `floatCellsFit` -/
def fitCell (k : Kind) (v : Val) : Bool :=
  match k with
  | .plain (.flt b) => (match v with
      | .num n e => fitsFloat b (n, e)
      | .poison => false
      | _ => true)
  | _ => true

theorem floatCellsFit_eq (k : Kind) (sp : Array Val) : floatCellsFit k sp = sp.all (fitCell k) := by
  unfold floatCellsFit fitCell
  split
  · rfl
  · rename_i hk
    symm
    rw [Array.all_eq_true]
    intro i hi
    split
    · exact absurd rfl (hk _)
    · rfl


/-! ### the two core paths: dense view, coverage -/

section core
variable {V W : Type} [DecidableEq V]

theorem stageList_lt {n : Nat} (b : Bool) (pv : List (Nat × W)) (h : ∀ qw ∈ pv, qw.1 < n) :
    ∀ qw ∈ stageList b pv, qw.1 < n := by
  intro qw hq
  obtain ⟨pw, hpw, he⟩ := stageList_fst_mem b pv qw hq
  rw [← he]
  exact h pw hpw

/-- the value part of the two paths agrees: always for an operation without pre-pass, and
    for `add` over a non-zero sentinel when no pixel is addressed twice -/
theorem ranges_abs_agree (c : Cfg) (vc : VCfg V) (s : State V) (pre : Option (V → V))
    (f : V → W → V) (w : W) (R : List (Nat × Nat)) (na : Bool) (hs : Inv c vc s)
    (hR : ∀ ab ∈ R, ab.1 ≤ ab.2 ∧ ab.2 ≤ c.npix) (hpre : pre = none ∨ (expand R).Nodup)
    (p : Nat) (hp : p < c.npix) :
    abs c vc (updateRanges c vc s (cellEffect pre f w) R na) p
      = abs c vc (updatePix c vc s pre f ((expand R).map fun q => (q, w)) na) p := by
  rw [(updateRanges_spec c vc s _ R na hs hR).2.2 p hp]
  unfold updatePix
  rw [updateCore_refines' c vc s _ _ na hs (stageList_expand_lt c _ R w hR) p hp]
  unfold denseUpdate
  cases pre with
  | none =>
    show _ = if _ then _ else denseFold (stageOp id f) (stageList false _) p _
    rw [denseFold_stage_none]
  | some pr =>
    rcases hpre with h | h
    · cases h
    · show _ = if _ then _ else denseFold (stageOp pr f) (stageList true _) p _
      rw [denseFold_stage_some pr f w (expand R) h]

omit [DecidableEq V] in
theorem denseCov_stageList (c : Cfg) (cov : Nat → Bool) (b : Bool) (pv : List (Nat × W)) (na : Bool)
    (k : Nat) :
    denseCov c cov (stageList b pv) na k = denseCov c cov pv na k := by
  unfold denseCov stageList
  congr 2
  cases b <;> simp [List.any_append, List.any_map, Function.comp_def]

/-- coverage after the explicit-pixel update: grown by exactly the coverage pixels of the
    addressed pixels (nothing under `no_append`) -/
theorem updatePix_covered (c : Cfg) (vc : VCfg V) (s : State V) (pre : Option (V → V))
    (f : V → W → V) (pv : List (Nat × W)) (na : Bool) (hs : Inv c vc s)
    (hpv : ∀ qw ∈ pv, qw.1 < c.npix) (k : Nat) (hk : k < c.ncov) :
    covered c (updatePix c vc s pre f pv na) k
      = (covered c s k || (!na && pv.any fun qw => qw.1 >>> c.shift == k)) := by
  unfold updatePix
  rw [updateCore_covered' c vc s _ _ na hs (stageList_lt _ pv hpv) k hk, denseCov_stageList]
  rfl

theorem updatePix_refines (c : Cfg) (vc : VCfg V) (s : State V) (pre : Option (V → V))
    (f : V → W → V) (pv : List (Nat × W)) (na : Bool) (hs : Inv c vc s)
    (hpv : ∀ qw ∈ pv, qw.1 < c.npix) (p : Nat) (hp : p < c.npix) :
    abs c vc (updatePix c vc s pre f pv na) p
      = denseUpdate c (abs c vc s) (covered c s) (stageOp (pre.getD id) f)
          (stageList pre.isSome pv) na p := by
  unfold updatePix
  exact updateCore_refines' c vc s _ _ na hs (stageList_lt _ pv hpv) p hp

theorem inv_updatePix (c : Cfg) (vc : VCfg V) (s : State V) (pre : Option (V → V))
    (f : V → W → V) (pv : List (Nat × W)) (na : Bool) (hs : Inv c vc s)
    (hpv : ∀ qw ∈ pv, qw.1 < c.npix) : Inv c vc (updatePix c vc s pre f pv na) := by
  unfold updatePix
  exact inv_updateCore' c vc s _ _ na hs (stageList_lt _ pv hpv)

omit [DecidableEq V] in
/-- an update with no pixels is the identity on the arrays -/
theorem updatePix_nil (c : Cfg) (vc : VCfg V) (s : State V) (pre : Option (V → V))
    (f : V → W → V) (na : Bool) : updatePix c vc s pre f [] na = s := by
  unfold updatePix updateCore stageList
  cases h : pre.isSome <;> simp [scatter]

end core

/-- the coverage pixels that hold a pixel of some row -/
def touchedCov (c : Cfg) (R : List (Nat × Nat)) (k : Nat) : Bool :=
  (expand R).any fun q => q >>> c.shift == k

/-- every pixel of a row lies in a coverage pixel the slice path considers -/
theorem touched_sub_rangeCov {V : Type} (c : Cfg) (s : State V) (R : List (Nat × Nat))
    (hR : ∀ ab ∈ R, ab.1 ≤ ab.2 ∧ ab.2 ≤ c.npix) (k : Nat) (hk : k < c.ncov)
    (hc : covered c s k = false) (ht : touchedCov c R k = true) : k ∈ rangeNewCov c s R := by
  obtain ⟨q, hq, hqk⟩ := List.any_eq_true.1 ht
  rw [beq_iff_eq] at hqk
  obtain ⟨ab, hab, h1, h2⟩ := (expand_mem' R q).1 hq
  have hm := covRange_mem c ab (hR ab hab).2 h1 h2
  rw [hqk] at hm
  exact (mem_rangeNewCov c s R k).2 ⟨hk, hc, ab, hab, hm.1, hm.2⟩

end HS
