/-
  C18 — concatenating disjoint map files yields their union, pixel for pixel.
  Property theorems only (helpers in HealSparse/Lemmas).
-/
import HealSparse.Lemmas.Core
import HealSparse.Lemmas.Coverage
import HealSparse.Lemmas.Valid
import HealSparse.Lemmas.FitsIO
import HealSparse.Model.Cat
import HealSparse.Props.C01
import HealSparse.Props.C02
import HealSparse.Props.C03
import HealSparse.Props.C04
namespace HS
namespace C18

variable {V : Type} [DecidableEq V]

/-- a well-formed input of the same sparse resolution as the output -/
def InputOk (cOut : Cfg) (vc : VCfg V) (i : CatIn V) : Prop :=
  Inv i.c vc i.state ∧ i.c.npix = cOut.npix ∧ i.c.ncov * 2 ^ i.c.shift = cOut.ncov * 2 ^ cOut.shift ∧
  (i.c.shift ≤ cOut.shift → cOut.ncov = i.c.ncov * 2 ^ (cOut.shift - i.c.shift) ∨ True) ∧
  (∃ d, i.c.shift = cOut.shift + d ∧ cOut.ncov = i.c.ncov * 2 ^ d) ∨
  (Inv i.c vc i.state ∧ i.c.npix = cOut.npix ∧ ∃ d, cOut.shift = i.c.shift + d ∧ i.c.ncov = cOut.ncov * 2 ^ d)

/-- is pixel `p` valid in input `i` -/
def validIn (vc : VCfg V) (i : CatIn V) (p : Nat) : Bool := vc.valid (abs i.c vc i.state p)

/-- **what one input contributes to one output coverage pixel**: exactly its valid pixels
    inside that coverage pixel, with their values — for matched, coarser and finer input
    coverage alike (this is where the partial-read bookkeeping must be right: a finer input
    may cover only the first, a middle or the last child of the output coverage pixel). -/
theorem contribution_spec (cOut : Cfg) (vc : VCfg V) (i : CatIn V) (pix : Nat)
    (hi : Inv i.c vc i.state) (hv : vc.valid vc.sentinel = false) (hn : i.c.npix = cOut.npix)
    (hrel : (∃ d, i.c.shift = cOut.shift + d ∧ cOut.ncov = i.c.ncov * 2 ^ d) ∨
            (∃ d, cOut.shift = i.c.shift + d ∧ i.c.ncov = cOut.ncov * 2 ^ d))
    (hpix : pix < cOut.ncov) (hsum : catSummary cOut vc i pix = true) (p : Nat) (v : V) :
    (p, v) ∈ catContribution cOut vc i pix ↔
      (p < cOut.npix ∧ p >>> cOut.shift = pix ∧ validIn vc i p = true ∧ v = abs i.c vc i.state p) := by
  sorry

/-- the contribution lists every such pixel once -/
theorem contribution_nodup (cOut : Cfg) (vc : VCfg V) (i : CatIn V) (pix : Nat)
    (hi : Inv i.c vc i.state) (hv : vc.valid vc.sentinel = false) (hn : i.c.npix = cOut.npix)
    (hrel : (∃ d, i.c.shift = cOut.shift + d ∧ cOut.ncov = i.c.ncov * 2 ^ d) ∨
            (∃ d, cOut.shift = i.c.shift + d ∧ i.c.ncov = cOut.ncov * 2 ^ d))
    (hpix : pix < cOut.ncov) :
    ((catContribution cOut vc i pix).map (·.1)).Nodup := by
  sorry

/-- the summary row says exactly which output coverage pixels hold a valid pixel of the input
    (matched coverage: which are covered — a superset) -/
theorem summary_complete (cOut : Cfg) (vc : VCfg V) (i : CatIn V)
    (hi : Inv i.c vc i.state) (hv : vc.valid vc.sentinel = false) (hn : i.c.npix = cOut.npix)
    (hrel : (∃ d, i.c.shift = cOut.shift + d ∧ cOut.ncov = i.c.ncov * 2 ^ d) ∨
            (∃ d, cOut.shift = i.c.shift + d ∧ i.c.ncov = cOut.ncov * 2 ^ d))
    (p : Nat) (hp : p < cOut.npix) (hval : validIn vc i p = true) :
    catSummary cOut vc i (p >>> cOut.shift) = true := by
  sorry

/-- **C18**: for inputs whose valid sets are pairwise disjoint, with or without overlap
    checking, the concatenation succeeds, is a well-formed map, and holds at every pixel the
    value of the unique input valid there, the sentinel where none is. -/
theorem cat_union (cOut : Cfg) (vc : VCfg V) (inputs : List (CatIn V)) (checkOverlap orOk : Bool)
    (orF : V → V → V)
    (hin : ∀ i ∈ inputs, Inv i.c vc i.state ∧ i.c.npix = cOut.npix ∧
      ((∃ d, i.c.shift = cOut.shift + d ∧ cOut.ncov = i.c.ncov * 2 ^ d) ∨
       (∃ d, cOut.shift = i.c.shift + d ∧ i.c.ncov = cOut.ncov * 2 ^ d)))
    (hv : vc.valid vc.sentinel = false)
    (hdisj : ∀ a b, a < inputs.length → b < inputs.length → a ≠ b → ∀ p, p < cOut.npix →
      ¬ (validIn vc (inputs.getD a ⟨cOut, ⟨#[], #[]⟩⟩) p = true ∧
         validIn vc (inputs.getD b ⟨cOut, ⟨#[], #[]⟩⟩) p = true)) :
    ∃ out, catFiles cOut vc inputs checkOverlap orOk orF = some out ∧ Inv cOut vc out ∧
      ∀ p, p < cOut.npix →
        abs cOut vc out p =
          match inputs.find? (fun i => validIn vc i p) with
          | some i => abs i.c vc i.state p
          | none => vc.sentinel := by
  sorry

/-- with overlap checking (and no or-combination) an error is raised iff two inputs share a
    valid pixel -/
theorem cat_overlap_raises_iff (cOut : Cfg) (vc : VCfg V) (inputs : List (CatIn V)) (orF : V → V → V)
    (hin : ∀ i ∈ inputs, Inv i.c vc i.state ∧ i.c.npix = cOut.npix ∧
      ((∃ d, i.c.shift = cOut.shift + d ∧ cOut.ncov = i.c.ncov * 2 ^ d) ∨
       (∃ d, cOut.shift = i.c.shift + d ∧ i.c.ncov = cOut.ncov * 2 ^ d)))
    (hv : vc.valid vc.sentinel = false) :
    catFiles cOut vc inputs true false orF = none ↔
      ∃ a b, a < b ∧ b < inputs.length ∧ ∃ p, p < cOut.npix ∧
        validIn vc (inputs.getD a ⟨cOut, ⟨#[], #[]⟩⟩) p = true ∧
        validIn vc (inputs.getD b ⟨cOut, ⟨#[], #[]⟩⟩) p = true := by
  sorry

/-- non-vacuity: a finer input covering only the LAST child of the output coverage pixel -/
example : catContribution (V := Int) ⟨1, 2⟩ ⟨-1, fun x => x != -1⟩
    ⟨⟨2, 1⟩, ⟨#[0, 0], #[-1, -1, 5, 6]⟩⟩ 0 = [(2, 5), (3, 6)] := by decide +kernel

end C18
end HS
