/-
  C13 (continued) — the bit-position kernels of wide masks, tied to the SOURCE by a translator
  (harness/translate_kernels.py calls `utils._get_field_and_bitval` and
  `utils._bitvals_to_packed_array` in /repo's current tree and rewrites Generated/Kernels.lean on
  every run).  Every row equals what the model's own definitions compute.
-/
import HealSparse.Generated.Kernels
import HealSparse.Model.WideMask
namespace HS
namespace C13

/-- `_get_field_and_bitval(bit)` = (bit / 8, 2^(bit % 8)) for every bit position 0..127 — the byte and
    the mask `rowTestBit` looks at -/
theorem kernel_field_bit :
    Kernels.fieldBitTable.all (fun r => r.2.1 == r.1 / 8 && r.2.2 == 2 ^ (r.1 % 8)) = true := by
  decide +kernel

theorem kernel_field_bit_exhaustive :
    Kernels.fieldBitTable.map (·.1) = List.range 128 := by decide +kernel

/-- the byte/mask pair is exactly what membership in a row means in the model -/
theorem kernel_field_bit_testBit (row : List Nat) (b : Nat) :
    rowTestBit row b = ((row.getD (b / 8) 0) &&& 2 ^ (b % 8) != 0) := by
  unfold rowTestBit
  generalize row.getD (b / 8) 0 = x
  generalize b % 8 = i
  have key : x &&& 2 ^ i = if x.testBit i then 2 ^ i else 0 := by
    apply Nat.eq_of_testBit_eq
    intro j
    rw [Nat.testBit_and, Nat.testBit_two_pow]
    by_cases h : i = j
    · subst h
      cases hx : x.testBit i <;> simp [Nat.testBit_two_pow_self]
    · cases hx : x.testBit i <;> simp [h, Nat.testBit_two_pow_of_ne h]
  rw [key]
  cases hx : x.testBit i
  · simp
  · have := Nat.two_pow_pos i
    simp only [↓reduceIte]
    symm
    rw [bne_iff_ne]
    omega

/-- `_bitvals_to_packed_array(bits, maxbits)` is the model's `bitvalsToPacked`: every single position
    and every pair for widths 8, 16, 24, plus lists with repeats and the empty list -/
theorem kernel_bitvals :
    Kernels.bitvalsTable.all (fun r => bitvalsToPacked r.1 r.2.1 == r.2.2) = true := by decide +kernel

/-- coverage of the table: every single bit and every ordered-ascending pair below the width -/
theorem kernel_bitvals_covers :
    [8, 16, 24].all (fun mb => (List.range mb).all fun i =>
      (Kernels.bitvalsTable.any fun r => r.1 == [i] && r.2.1 == mb) &&
      (List.range mb).all fun j => decide (i < j) →
        Kernels.bitvalsTable.any fun r => r.1 == [i, j] && r.2.1 == mb) = true := by decide +kernel

end C13
end HS
