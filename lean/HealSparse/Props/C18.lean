/-
  C18 — concatenating disjoint map files yields their union, pixel for pixel.
  Property theorems only (helpers in HealSparse/Lemmas).
-/
import HealSparse.Lemmas.Core
import HealSparse.Lemmas.Coverage
import HealSparse.Lemmas.Valid
import HealSparse.Lemmas.FitsIO
import HealSparse.Lemmas.Cat
import HealSparse.Model.Cat
import HealSparse.Props.C01
import HealSparse.Props.C02
import HealSparse.Props.C03
import HealSparse.Props.C04
namespace HS
namespace C18

variable {V : Type} [DecidableEq V]

/-- is pixel `p` valid in input `i` -/
def validIn (vc : VCfg V) (i : CatIn V) (p : Nat) : Bool := vc.valid (abs i.c vc i.state p)

/-- **what one input contributes to one output coverage pixel**: exactly its valid pixels
    inside that coverage pixel, with their values — for matched, coarser and finer input
    coverage alike (this is where the partial-read bookkeeping must be right: a finer input
    may cover only the first, a middle or the last child of the output coverage pixel). -/
theorem contribution_spec (cOut : Cfg) (vc : VCfg V) (i : CatIn V) (pix : Nat)
    (hi : Inv i.c vc i.state) (hv : vc.valid vc.sentinel = false) (hn : i.c.npix = cOut.npix)
    (hrel : (∃ d, i.c.shift = cOut.shift + d ∧ cOut.ncov = i.c.ncov * 2 ^ d) ∨
            (∃ d, cOut.shift = i.c.shift + d ∧ i.c.ncov = cOut.ncov * 2 ^ d))
    (hpix : pix < cOut.ncov) (hsum : catSummary cOut vc i pix = true) (p : Nat) (v : V) :
    (p, v) ∈ catContribution cOut vc i pix ↔
      (p < cOut.npix ∧ p >>> cOut.shift = pix ∧ validIn vc i p = true ∧ v = abs i.c vc i.state p) := by
  have _ := hrel
  have _ := hpix
  have _ := hsum
  exact mem_catContribution cOut vc i pix hi hv hn p v

/-- the contribution lists every such pixel once -/
theorem contribution_nodup (cOut : Cfg) (vc : VCfg V) (i : CatIn V) (pix : Nat)
    (hi : Inv i.c vc i.state) (hv : vc.valid vc.sentinel = false) (hn : i.c.npix = cOut.npix)
    (hrel : (∃ d, i.c.shift = cOut.shift + d ∧ cOut.ncov = i.c.ncov * 2 ^ d) ∨
            (∃ d, cOut.shift = i.c.shift + d ∧ i.c.ncov = cOut.ncov * 2 ^ d))
    (hpix : pix < cOut.ncov) :
    ((catContribution cOut vc i pix).map (·.1)).Nodup := by
  have _ := hn
  have _ := hrel
  have _ := hpix
  exact nodup_catContribution cOut vc i pix hi hv

/-- the summary row says exactly which output coverage pixels hold a valid pixel of the input
    (matched coverage: which are covered — a superset) -/
theorem summary_complete (cOut : Cfg) (vc : VCfg V) (i : CatIn V)
    (hi : Inv i.c vc i.state) (hv : vc.valid vc.sentinel = false) (hn : i.c.npix = cOut.npix)
    (hrel : (∃ d, i.c.shift = cOut.shift + d ∧ cOut.ncov = i.c.ncov * 2 ^ d) ∨
            (∃ d, cOut.shift = i.c.shift + d ∧ i.c.ncov = cOut.ncov * 2 ^ d))
    (p : Nat) (hp : p < cOut.npix) (hval : validIn vc i p = true) :
    catSummary cOut vc i (p >>> cOut.shift) = true := by
  have _ := hrel
  exact catSummary_complete cOut vc i hi hv hn p hp hval

/-- **C18**: for inputs whose valid sets are pairwise disjoint, with or without overlap
    checking, the concatenation succeeds, is a well-formed map, and holds at every pixel the
    value of the unique input valid there, the sentinel where none is. -/
theorem cat_union (cOut : Cfg) (vc : VCfg V) (inputs : List (CatIn V)) (checkOverlap orOk : Bool)
    (orF : V → V → V)
    (hin : ∀ i ∈ inputs, Inv i.c vc i.state ∧ i.c.npix = cOut.npix ∧
      ((∃ d, i.c.shift = cOut.shift + d ∧ cOut.ncov = i.c.ncov * 2 ^ d) ∨
       (∃ d, cOut.shift = i.c.shift + d ∧ i.c.ncov = cOut.ncov * 2 ^ d)))
    (hv : vc.valid vc.sentinel = false)
    (hdisj : ∀ a b, a < inputs.length → b < inputs.length → a ≠ b → ∀ p, p < cOut.npix →
      ¬ (validIn vc (inputs.getD a ⟨cOut, ⟨#[], #[]⟩⟩) p = true ∧
         validIn vc (inputs.getD b ⟨cOut, ⟨#[], #[]⟩⟩) p = true)) :
    ∃ out, catFiles cOut vc inputs checkOverlap orOk orF = some out ∧ Inv cOut vc out ∧
      ∀ p, p < cOut.npix →
        abs cOut vc out p =
          match inputs.find? (fun i => validIn vc i p) with
          | some i => abs i.c vc i.state p
          | none => vc.sentinel := by
  have hin' : ∀ i ∈ inputs, Inv i.c vc i.state ∧ i.c.npix = cOut.npix :=
    fun i hi => ⟨(hin i hi).1, (hin i hi).2.1⟩
  have hpw : inputs.Pairwise fun a b => ∀ p, p < cOut.npix →
      ¬ (vc.valid (abs a.c vc a.state p) = true ∧ vc.valid (abs b.c vc b.state p) = true) := by
    rw [List.pairwise_iff_getElem]
    intro a b ha hb hab p hp
    have := hdisj a b ha hb (Nat.ne_of_lt hab) p hp
    rw [getD_eq_getElem inputs _ a ha, getD_eq_getElem inputs _ b hb] at this
    exact this
  obtain ⟨out, h1, h2, h3⟩ := catFiles_union cOut vc inputs checkOverlap orOk orF hin' hv hpw
  refine ⟨out, h1, h2, ?_⟩
  intro p hp
  split
  · rename_i i hf
    exact (h3 p hp).1 i hf
  · rename_i hf
    exact (h3 p hp).2 hf

/-- with overlap checking (and no or-combination) an error is raised iff two inputs share a
    valid pixel -/
theorem cat_overlap_raises_iff (cOut : Cfg) (vc : VCfg V) (inputs : List (CatIn V)) (orF : V → V → V)
    (hin : ∀ i ∈ inputs, Inv i.c vc i.state ∧ i.c.npix = cOut.npix ∧
      ((∃ d, i.c.shift = cOut.shift + d ∧ cOut.ncov = i.c.ncov * 2 ^ d) ∨
       (∃ d, cOut.shift = i.c.shift + d ∧ i.c.ncov = cOut.ncov * 2 ^ d)))
    (hv : vc.valid vc.sentinel = false) :
    catFiles cOut vc inputs true false orF = none ↔
      ∃ a b, a < b ∧ b < inputs.length ∧ ∃ p, p < cOut.npix ∧
        validIn vc (inputs.getD a ⟨cOut, ⟨#[], #[]⟩⟩) p = true ∧
        validIn vc (inputs.getD b ⟨cOut, ⟨#[], #[]⟩⟩) p = true := by
  have hin' : ∀ i ∈ inputs, Inv i.c vc i.state ∧ i.c.npix = cOut.npix :=
    fun i hi => ⟨(hin i hi).1, (hin i hi).2.1⟩
  constructor
  · intro hnone
    apply Classical.byContradiction
    intro hno
    have hdisj : ∀ a b, a < inputs.length → b < inputs.length → a ≠ b → ∀ p, p < cOut.npix →
        ¬ (validIn vc (inputs.getD a ⟨cOut, ⟨#[], #[]⟩⟩) p = true ∧
           validIn vc (inputs.getD b ⟨cOut, ⟨#[], #[]⟩⟩) p = true) := by
      intro a b ha hb hab p hp hboth
      rcases Nat.lt_or_gt_of_ne hab with hlt | hlt
      · exact hno ⟨a, b, hlt, hb, p, hp, hboth.1, hboth.2⟩
      · exact hno ⟨b, a, hlt, ha, p, hp, hboth.2, hboth.1⟩
    obtain ⟨out, h1, _⟩ := cat_union cOut vc inputs true false orF hin hv hdisj
    rw [hnone] at h1
    cases h1
  · rintro ⟨a, b, hab, hb, p, hp, hva, hvb⟩
    have ha := Nat.lt_trans hab hb
    rw [getD_eq_getElem inputs _ a ha] at hva
    rw [getD_eq_getElem inputs _ b hb] at hvb
    exact catFiles_overlap_none cOut vc inputs orF hin' hv a b hab hb p hp hva hvb

/-- non-vacuity: a finer input covering only the LAST child of the output coverage pixel -/
example : catContribution (V := Int) ⟨1, 2⟩ ⟨-1, fun x => x != -1⟩
    ⟨⟨2, 1⟩, ⟨#[0, 0], #[-1, -1, 5, 6]⟩⟩ 0 = [(2, 5), (3, 6)] := by decide +kernel

/-- non-vacuity: a finer input covering only a MIDDLE child of the output coverage pixel -/
example : catContribution (V := Int) ⟨1, 3⟩ ⟨-1, fun x => x != -1⟩
    ⟨⟨4, 1⟩, ⟨#[0, 0, -4, -6], #[-1, -1, 5, 6]⟩⟩ 0 = [(2, 5), (3, 6)] := by decide +kernel

/-- non-vacuity: a finer and a coarser input with disjoint valid sets concatenate to their union -/
example : (catFiles (V := Int) ⟨2, 1⟩ ⟨-1, fun x => x != -1⟩
    [⟨⟨4, 0⟩, ⟨#[1, -1, -2, -3], #[-1, 5]⟩⟩, ⟨⟨1, 2⟩, ⟨#[4], #[-1, -1, -1, -1, -1, -1, 7, -1]⟩⟩]
    true false (fun a _ => a)).map (fun s => (List.range 4).map (abs ⟨2, 1⟩ ⟨-1, fun x => x != -1⟩ s))
    = some [5, -1, 7, -1] := by decide +kernel

/-- non-vacuity: the same inputs sharing valid pixel 0 raise under overlap checking -/
example : (catFiles (V := Int) ⟨2, 1⟩ ⟨-1, fun x => x != -1⟩
    [⟨⟨4, 0⟩, ⟨#[1, -1, -2, -3], #[-1, 5]⟩⟩, ⟨⟨1, 2⟩, ⟨#[4], #[-1, -1, -1, -1, 8, -1, 7, -1]⟩⟩]
    true false (fun a _ => a)).isNone = true := by decide +kernel

end C18
end HS
