"""C11 — boolean mask algebra follows the documented coverage-scoped semantics."""
import gen

PID = 'C11'
RULE = ("2-3 boolean maps (each independently bit-packed or not; coverage relations empty / equal / disjoint / nested / "
        "partially overlapping; different coverage growth order on each side; some with cov_pixels pre-allocation; in 30% of the histories twins / "
        "operands are first written to a file and read back) are "
        "combined by chains of 2-6 operators from {&,|,^} x {map, True, False} x {copying, in place} and invert / ~; "
        "each in-place step on twin x is mirrored by the copying form on twin y; after each step dense values, "
        "coverage mask, kind, layout and n_valid of results and operands are compared with the Lean model; "
        "non-trivial = an operator whose operands have different coverage masks")
ASSUMPTIONS = ["both operands have the same nside pair and False sentinel (documented restriction)"]


def bool_cfg(rng, name, covord, spord):
    packed = rng.random() < 0.5 and spord - covord >= 2
    c = gen.MapCfg(name, 'packed' if packed else 'plain', covord, spord, dtype=None if packed else 'b1')
    ncov = c.ncov
    if rng.random() < 0.25:
        c.covpix = rng.sample(range(ncov), rng.randint(1, min(3, ncov)))
    return c


def fill(rng, c, h, focus):
    for _ in range(rng.randint(0, 4)):
        if rng.random() < 0.3:
            h.append(gen.updr_line(rng, c))
        else:
            h.append(gen.upd_line(rng, c, focus=focus))


def histories(rng, tier):
    n = 350 if tier == 'quick' else 3000
    out = []
    for _ in range(n):
        covord = rng.choice([0, 0, 1])
        spord = covord + rng.choice([0, 1, 2, 2, 3]) if covord == 0 else covord + rng.choice([0, 1, 2])
        names = ['a', 'b', 'c'][:rng.choice([2, 2, 3])]
        cfgs = [bool_cfg(rng, nm, covord, spord) for nm in names]
        h = [c.line() for c in cfgs]
        base = rng.sample(range(cfgs[0].ncov), min(cfgs[0].ncov, 5))
        for c in cfgs:
            rel = rng.choice(['same', 'disjoint', 'sub', 'any', 'empty'])
            if rel == 'same':
                focus = base[:3]
            elif rel == 'disjoint':
                focus = base[3:] or base[:1]
            elif rel == 'sub':
                focus = base[:1]
            elif rel == 'empty':
                continue
            else:
                focus = rng.sample(range(c.ncov), min(c.ncov, rng.randint(1, 4)))
            focus = list(focus)
            rng.shuffle(focus)
            fill(rng, c, h, focus)
        # twins x (in place) / y (copying) start as copies of a
        # (or as results of a COPYING operator with the neutral constant: content-equal to a, but produced by the
        #  operator — whatever such a result still shares with a must not show: seeded change C11e)
        for tw in 'xy':
            h.append(rng.choice(['copy a r=%s', 'copy a r=%s', 'bop a op=and const=T r=%s', 'bop a op=or const=F r=%s',
                                 'bop a op=xor const=F r=%s']) % tw)
        if rng.random() < 0.3:
            # twins (and sometimes an operand) as read back from their own files
            for nm in rng.sample(['x', 'y'] + names[1:], rng.randint(1, 2)):
                h += gen.roundtrip_lines(rng, nm, f='f' + nm)
        for _ in range(rng.randint(2, 6)):
            r = rng.random()
            if r < 0.15:
                h += ['nvalid x', 'inv x inplace=1', 'nvalid x', 'inv y r=t', 'copy t r=y']
            else:
                op = rng.choice(['and', 'or', 'xor'])
                if rng.random() < 0.3:
                    rhs = 'const=%s' % rng.choice('TF')
                else:
                    rhs = 'rhs=%s' % rng.choice(names[1:] + ['a', 'SELF'])
                # (SELF: the map combined with itself)
                h += ['nvalid x', 'bop x op=%s %s inplace=1' % (op, rhs.replace('SELF', 'x')), 'nvalid x',
                      'bop y op=%s %s r=t' % (op, rhs.replace('SELF', 'y')), 'state t',
                      rng.choice(['copy t r=y', 'bop t op=or const=F r=y'])]
            h += ['state x', 'state y', 'vals x', 'vals y', 'covmask x', 'covmask y', 'valid x', 'info x', 'info y']
            for nm in names:
                h.append('state %s' % nm)
        out.append(h)
    return out


def nontrivial(h):
    return any(ln.startswith('bop') and 'rhs=' in ln for ln in h)
