import HealSparse.Props.C13
#print axioms HS.C13.width_rule
#print axioms HS.C13.geom_width_enough
#print axioms HS.C13.pack_isRow
#print axioms HS.C13.pack_testBit
#print axioms HS.C13.set_bits_spec
#print axioms HS.C13.clear_bits_spec
#print axioms HS.C13.xor_bits_spec
#print axioms HS.C13.and_bits_spec
#print axioms HS.C13.ops_preserve_isRow
#print axioms HS.C13.check_bits_spec
#print axioms HS.C13.valid_iff_nonempty
#print axioms HS.C13.reject_big_bit
#print axioms HS.C13.reject_big_bit_operator
