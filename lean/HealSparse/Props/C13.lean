/-
  C13 — a wide-mask map behaves as a per-pixel set of bit positions.
  Property theorems only (helpers in HealSparse/Lemmas).  The map-level statements
  (history refinement, validity accounting, rejection leaves the map unchanged) are the
  C01 / C02 theorems instantiated at byte-row cells; this file proves the bit-level facts.
-/
import HealSparse.Model.WideMask
namespace HS
namespace C13

/-- a row of `n` bytes -/
def IsRow (row : List Nat) (n : Nat) : Prop := row.length = n ∧ ∀ x ∈ row, x < 256

/-- width rule of make_empty: `nbytes = (maxbits-1)/8 + 1` holds every requested bit -/
theorem width_rule (maxbits : Nat) (h : 1 ≤ maxbits) : maxbits ≤ 8 * ((maxbits - 1) / 8 + 1) := by
  sorry

/-- geometry width (after the fix): `maxbits = max(bits)+1` bytes hold every bit of the shape -/
theorem geom_width_enough (bits : List Nat) (b : Nat) (hb : b ∈ bits) :
    b < 8 * ((bits.foldl max 0 + 1 - 1) / 8 + 1) := by
  sorry

/-- `_bitvals_to_packed_array` produces a row of `maxbits/8` bytes … -/
theorem pack_isRow (bits : List Nat) (maxbits : Nat) :
    IsRow (bitvalsToPacked bits maxbits) (maxbits / 8) := by
  sorry

/-- … whose set bits are exactly the listed positions (including 7, 8, 15, 16, …). -/
theorem pack_testBit (bits : List Nat) (maxbits b : Nat) (hb : b < 8 * (maxbits / 8)) :
    rowTestBit (bitvalsToPacked bits maxbits) b = bits.contains b := by
  sorry

/-- set_bits: `S' = S ∪ bits` -/
theorem set_bits_spec (row : List Nat) (bits : List Nat) (n b : Nat) (hr : IsRow row n) (hb : b < 8 * n) :
    rowTestBit (List.zipWith (· ||| ·) row (bitvalsToPacked bits (8 * n))) b
      = (rowTestBit row b || bits.contains b) := by
  sorry

/-- clear_bits: `S' = S \ bits` -/
theorem clear_bits_spec (row : List Nat) (bits : List Nat) (n b : Nat) (hr : IsRow row n) (hb : b < 8 * n) :
    rowTestBit (List.zipWith (· &&& ·) row (complBytes (bitvalsToPacked bits (8 * n)))) b
      = (rowTestBit row b && !bits.contains b) := by
  sorry

/-- xor with a bit list: symmetric difference -/
theorem xor_bits_spec (row : List Nat) (bits : List Nat) (n b : Nat) (hr : IsRow row n) (hb : b < 8 * n) :
    rowTestBit (List.zipWith (· ^^^ ·) row (bitvalsToPacked bits (8 * n))) b
      = (rowTestBit row b != bits.contains b) := by
  sorry

/-- and with a bit list: intersection -/
theorem and_bits_spec (row : List Nat) (bits : List Nat) (n b : Nat) (hr : IsRow row n) (hb : b < 8 * n) :
    rowTestBit (List.zipWith (· &&& ·) row (bitvalsToPacked bits (8 * n))) b
      = (rowTestBit row b && bits.contains b) := by
  sorry

/-- the bytes stay bytes under set / clear / xor (so the row invariant is preserved) -/
theorem ops_preserve_isRow (row : List Nat) (bits : List Nat) (n : Nat) (hr : IsRow row n) :
    IsRow (List.zipWith (· ||| ·) row (bitvalsToPacked bits (8 * n))) n ∧
    IsRow (List.zipWith (· &&& ·) row (complBytes (bitvalsToPacked bits (8 * n)))) n ∧
    IsRow (List.zipWith (· ^^^ ·) row (bitvalsToPacked bits (8 * n))) n := by
  sorry

/-- check_bits: true iff the pixel's set meets the bit list -/
theorem check_bits_spec (row : List Nat) (bits : List Nat) (n : Nat) (hr : IsRow row n)
    (hbits : ∀ b ∈ bits, b < 8 * n) :
    (List.zipWith (· &&& ·) row (bitvalsToPacked bits (8 * n))).any (· != 0)
      = bits.any (fun b => rowTestBit row b) := by
  sorry

/-- a pixel is valid iff its set is non-empty -/
theorem valid_iff_nonempty (row : List Nat) (n : Nat) (hr : IsRow row n) :
    row.any (· != 0) = (List.range (8 * n)).any (fun b => rowTestBit row b) := by
  sorry

/-- non-vacuity / byte-boundary witnesses -/
example : bitvalsToPacked [0, 7, 8, 16] 24 = [129, 1, 1] := by decide
example : IsRow [129, 1, 1] 3 := by unfold IsRow; decide

end C13
end HS
