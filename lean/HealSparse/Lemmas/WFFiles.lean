/-
  Well-formedness (`MapObj.WF`, `FileObj.WF`, Model/WellFormed.lean) through the file
  interfaces of the executable API model (Model/ApiFiles.lean): `apiWrite`, `apiRead`,
  `apiDegradeOnRead`, `apiCat`.

  Findings recorded here:
  * (history) with the ORIGINAL `fileKind` (boolean-SENTINEL branch tested before the table /
    PRIMARY branch) `apiWrite` broke well-formedness for a record map whose primary field is
    boolean: the protocol history  cfg m kind=rec fields=b1,f8 primary=0 …; write m; read
    produced a file and a map that violate the layout (the real library raises on that read).
    `fileKind` now tests the table case first; the record case below is unconditional.
  * what remains: `apiWrite` does NOT preserve well-formedness for a WIDE-MASK map object whose
    scalar sentinel is a `Val.bool` — the reader takes its `astype(bool)` branch on the boolean
    SENTINEL keyword and recovers `plain bool`, whose blank cell is not the zero row.  No API
    constructor produces such an object (`apiMakeEmpty` gives wide maps the sentinel `0`), but
    `MapObj.WF` alone does not exclude it.  `WF.apiWrite_iff` shows that `MapObj.SentOK` is
    exactly the condition under which the file is well formed; `apiWrite_not_wf` is the
    concrete counterexample; `WF.apiWrite_of_not_wide` / `WF.apiWrite_of_num` are the
    unconditional forms for all other cases.
  * every map produced by `apiRead` / `apiDegradeOnRead` satisfies `SentOK`, and `apiCat` only
    writes such maps, so the file-side operations never leave the good region by themselves.
  * `apiDegradeOnRead` and `apiCat` need much less than asked: degrade-on-read produces a well
    formed map from ANY file; concatenation only needs `covord ≤ spord` of every input.
-/
import HealSparse.Model.WellFormed
import HealSparse.Lemmas.FitsIO
import HealSparse.Lemmas.DegradeOnRead
import HealSparse.Lemmas.Cat
import Lean.Elab.Tactic
namespace HS

/-! ### generic facts -/

/-- the layout mentions the cell parameters only through the blank cell -/
theorem WFFiles.inv_of_sentinel_eq {V : Type} [DecidableEq V] {c : Cfg} {vc vc' : VCfg V} {s : State V}
    (h : Inv c vc s) (hs : vc'.sentinel = vc.sentinel) : Inv c vc' s := by
  unfold Inv at *
  rw [hs]; exact h

open WFFiles

/-- `cache` and `view` play no role in well-formedness (what `World.put` stores) -/
@[simp] theorem WFFiles.wf_with_view (m : MapObj) (v : Option (String × Nat)) :
    ({ m with view := v } : MapObj).WF ↔ m.WF := Iff.rfl

@[simp] theorem WFFiles.wf_with_cache (m : MapObj) (n : Option Nat) :
    ({ m with cache := n } : MapObj).WF ↔ m.WF := Iff.rfl

@[simp] theorem WFFiles.wf_with_cache_view (m : MapObj) (n : Option Nat) (v : Option (String × Nat)) :
    ({ m with cache := n, view := v } : MapObj).WF ↔ m.WF := Iff.rfl


/-! ### the sentinel / kind compatibility the reader relies on -/

/-- is the value a boolean (the reader's `astype(bool)` trigger on the SENTINEL keyword) -/
def Val.isBoolV : Val → Bool
  | .bool _ => true
  | _ => false

/-- a wide-mask kind is not paired with a boolean scalar sentinel -/
def Kind.sentOK (k : Kind) (s : Val) : Prop :=
  match k with
  | .wide _ => s.isBoolV = false
  | _ => True

instance (k : Kind) (s : Val) : Decidable (k.sentOK s) := by
  unfold Kind.sentOK; split <;> infer_instance

/-- the scalar sentinel of a wide-mask map is not a boolean -/
def MapObj.SentOK (m : MapObj) : Prop := m.kind.sentOK m.sent

instance (m : MapObj) : Decidable m.SentOK := by unfold MapObj.SentOK; infer_instance

theorem Kind.sentOK_plain (dt : DT) (s : Val) : (Kind.plain dt).sentOK s := trivial
theorem Kind.sentOK_packed (s : Val) : Kind.packed.sentOK s := trivial
theorem Kind.sentOK_recd (fs : List DT) (pr : Nat) (s : Val) : (Kind.recd fs pr).sentOK s := trivial
theorem Kind.sentOK_of_not_wide {k : Kind} (s : Val) (h : ∀ n, k ≠ .wide n) : k.sentOK s := by
  unfold Kind.sentOK; split
  · rename_i n; exact absurd rfl (h n)
  · trivial
theorem Kind.sentOK_of_num (k : Kind) (n : Int) (e : Nat) : k.sentOK (.num n e) := by
  unfold Kind.sentOK; split <;> trivial

@[simp] theorem WFFiles.sentOK_with_view (m : MapObj) (v : Option (String × Nat)) :
    ({ m with view := v } : MapObj).SentOK ↔ m.SentOK := Iff.rfl

@[simp] theorem WFFiles.sentOK_with_cache (m : MapObj) (n : Option Nat) :
    ({ m with cache := n } : MapObj).SentOK ↔ m.SentOK := Iff.rfl

/-- a kind recovered by the reader never pairs a wide-mask kind with a boolean sentinel -/
theorem fileKind_sentOK {f : FileObj} {kind : Kind} (hk : fileKind f = some kind) :
    kind.sentOK f.sentinel := by
  unfold fileKind at hk
  unfold Kind.sentOK
  split at hk
  · cases hk; trivial
  · split at hk
    · cases hp : f.primary with
      | none => rw [hp] at hk; cases hk
      | some p => rw [hp] at hk; cases hk; trivial
    · split at hk
      · cases hk; trivial
      · rename_i hnb
        have hb : f.sentinel.isBoolV = false := by
          cases hs : f.sentinel with
          | bool b => exact absurd hs (hnb b)
          | _ => rfl
        split <;> first | exact hb | trivial

/-! ### `apiWrite` -/

@[simp] theorem WFFiles.apiWrite_covord (m : MapObj) (md) : (apiWrite m md).covord = m.covord := rfl
@[simp] theorem WFFiles.apiWrite_spord (m : MapObj) (md) : (apiWrite m md).spord = m.spord := rfl
@[simp] theorem WFFiles.apiWrite_sentinel (m : MapObj) (md) : (apiWrite m md).sentinel = m.sent := rfl
@[simp] theorem WFFiles.apiWrite_file (m : MapObj) (md) : (apiWrite m md).file = writeFits m.st := rfl
@[simp] theorem WFFiles.apiWrite_mdata (m : MapObj) (md) : (apiWrite m md).mdata = md := rfl
@[simp] theorem WFFiles.readFull_writeFits {V} (s : State V) : readFull (writeFits s) = s := rfl
@[simp] theorem WFFiles.writeFits_readFull {V} (f : FitsFile V) : writeFits (readFull f) = f := rfl

/-- the kind the reader recovers from a written file has the blank cell and the validity test
    of the map's kind (for EVERY kind, provided the sentinel is compatible) -/
theorem fileKind_apiWrite (m : MapObj) (md : List (String × String)) (hs : m.SentOK) (k : Kind)
    (hk : fileKind (apiWrite m md) = some k) :
    k.blank m.sent = m.kind.blank m.sent ∧ k.valid m.sent = m.kind.valid m.sent := by
  unfold MapObj.SentOK Kind.sentOK at hs
  unfold fileKind apiWrite at hk
  cases hkind : m.kind with
  | packed =>
    simp [hkind] at hk
    subst hk; exact ⟨rfl, rfl⟩
  | wide n =>
    rw [hkind] at hs
    simp only [hkind] at hk hs
    cases hsent : m.sent <;> simp_all [Val.isBoolV]
  | recd fs p =>
    simp [hkind] at hk
    subst hk; exact ⟨rfl, rfl⟩
  | plain dt =>
    have hpl : ∀ k', k = .plain k' → k.blank m.sent = (Kind.plain dt).blank m.sent ∧
        k.valid m.sent = (Kind.plain dt).valid m.sent := by
      intro k' e; subst e; exact ⟨rfl, rfl⟩
    simp only [hkind] at hk
    have hfin : ∀ (o : Option DT), Option.map Kind.plain o = some k →
        k.blank m.sent = (Kind.plain dt).blank m.sent ∧
          k.valid m.sent = (Kind.plain dt).valid m.sent := by
      intro o ho
      cases o with
      | none => cases ho
      | some d => exact hpl d (Option.some.inj ho).symm
    cases dt <;> simp only [Bool.false_eq_true, if_false] at hk <;>
      (split at hk
       · simp at hk
       · split at hk
         · exact hpl _ (Option.some.inj hk).symm
         · exact hfin _ hk)

/-- packed, wide-mask and record kinds are recovered exactly -/
theorem fileKind_apiWrite_exact (m : MapObj) (md : List (String × String)) (hs : m.SentOK)
    (hk : ∀ dt, m.kind ≠ .plain dt) : fileKind (apiWrite m md) = some m.kind := by
  unfold MapObj.SentOK Kind.sentOK at hs
  unfold fileKind apiWrite
  cases hkind : m.kind with
  | packed => simp
  | wide n =>
    rw [hkind] at hs
    simp only at hs
    cases hsent : m.sent <;> simp_all [Val.isBoolV]
  | recd fs p => simp
  | plain dt => exact absurd hkind (hk dt)

/-- a boolean sentinel sends the reader of a wide-mask file into its `astype(bool)` branch -/
theorem fileKind_apiWrite_wide_bool (m : MapObj) (md : List (String × String)) (n : Nat) (b : Bool)
    (hk : m.kind = .wide n) (hs : m.sent = .bool b) :
    fileKind (apiWrite m md) = some (.plain .bool) := by
  unfold fileKind apiWrite
  simp [hk, hs]

/-- **`apiWrite` preserves well-formedness for sentinel-compatible maps.**
    PARTIAL: the hypothesis `m.SentOK` cannot be dropped (`apiWrite_not_wf`), and it is the
    weakest possible (`WF.apiWrite_iff`). -/
theorem WF.apiWrite_partial {m : MapObj} (md : List (String × String)) (h : m.WF)
    (hs : m.SentOK) : (apiWrite m md).WF := by
  refine ⟨h.1, ?_⟩
  intro k hk
  have := fileKind_apiWrite m md hs k hk
  exact inv_of_sentinel_eq (vc := m.vc) h.2 this.1

/-- for a well-formed map, the written file is well formed EXACTLY when the sentinel is
    compatible with the kind -/
theorem WF.apiWrite_iff {m : MapObj} (md : List (String × String)) (h : m.WF) :
    (apiWrite m md).WF ↔ m.SentOK := by
  constructor
  · intro hw
    have h0 := h.2.2.2.1 0 m.c.nfine_pos
    unfold MapObj.SentOK Kind.sentOK
    split
    · rename_i n hk
      cases hsent : m.sent with
      | bool b =>
        exfalso
        have h1 := (hw.2 _ (fileKind_apiWrite_wide_bool m md n b hk hsent)).2.2.1 0 m.c.nfine_pos
        simp only [apiWrite_file, readFull_writeFits, apiWrite_sentinel] at h1
        rw [h1] at h0
        have h2 : (Kind.plain DT.bool).blank m.sent = m.kind.blank m.sent := Option.some.inj h0
        rw [hk, hsent] at h2
        simp [Kind.blank] at h2
      | _ => rfl
    · trivial
  · exact WF.apiWrite_partial md h

/-- **unconditional** for plain, bit-packed and record maps -/
theorem WF.apiWrite_of_not_wide {m : MapObj} (md : List (String × String)) (h : m.WF)
    (hk : ∀ n, m.kind ≠ .wide n) : (apiWrite m md).WF :=
  WF.apiWrite_partial md h (Kind.sentOK_of_not_wide _ hk)

/-- **unconditional** for every kind when the sentinel is a number (as `apiMakeEmpty` makes it
    for wide masks) -/
theorem WF.apiWrite_of_num {m : MapObj} (md : List (String × String)) (h : m.WF) {n : Int}
    {e : Nat} (hs : m.sent = .num n e) : (apiWrite m md).WF :=
  WF.apiWrite_partial md h (by unfold MapObj.SentOK; rw [hs]; exact Kind.sentOK_of_num _ _ _)

/-- `apiMakeEmpty` only makes sentinel-compatible maps -/
theorem SentOK.apiMakeEmpty {covord spord : Nat} {kind : Kind} {sentinel : Option Val}
    {covPix : List Nat} {m : MapObj}
    (h : HS.apiMakeEmpty covord spord kind sentinel covPix = .ok m) : m.SentOK := by
  unfold HS.apiMakeEmpty at h
  simp only [bind, Except.bind, pure, Except.pure, throw, throwThe, MonadExceptOf.throw] at h
  split at h
  · cases h
  · cases kind with
    | wide n =>
      have hk : m.kind = .wide n ∧ m.sent = .num 0 0 := by
        simp only at h
        repeat' (split at h)
        all_goals first | (cases h; done) | (simp only [Except.ok.injEq] at h; subst h; exact ⟨rfl, rfl⟩)
      unfold MapObj.SentOK; rw [hk.1, hk.2]; exact Kind.sentOK_of_num _ _ _
    | packed =>
      have hk : m.kind = .packed := by
        simp only at h
        repeat' (split at h)
        all_goals first | (cases h; done) | (simp only [Except.ok.injEq] at h; subst h; rfl)
      unfold MapObj.SentOK; rw [hk]; exact Kind.sentOK_packed _
    | plain dt =>
      have hk : m.kind = .plain dt := by
        simp only at h
        repeat' (split at h)
        all_goals first | (cases h; done) | (simp only [Except.ok.injEq] at h; subst h; rfl)
      unfold MapObj.SentOK; rw [hk]; exact Kind.sentOK_plain _ _
    | recd fs pr =>
      have hk : m.kind = .recd fs pr := by
        simp only at h
        repeat' (split at h)
        all_goals first | (cases h; done) | (simp only [Except.ok.injEq] at h; subst h; rfl)
      unfold MapObj.SentOK; rw [hk]; exact Kind.sentOK_recd _ _ _

/-! #### the counterexample -/

/-- a wide-mask map object carrying a boolean scalar sentinel (well formed: the layout does not
    look at the scalar sentinel of a wide mask) -/
def wideBoolMap : MapObj :=
  { covord := 0, spord := 0, kind := .wide 1, sent := .bool false,
    st := makeEmpty (cfgOf 0 0) ⟨(Kind.wide 1).blank (.bool false),
      (Kind.wide 1).valid (.bool false)⟩ [3] }

theorem wideBoolMap_wf : wideBoolMap.WF := by decide +kernel

/-- **FINDING**: a well-formed map object whose written file is not well formed -/
theorem apiWrite_not_wf : ¬ (apiWrite wideBoolMap []).WF := by
  rw [WF.apiWrite_iff [] wideBoolMap_wf]
  decide

/-- the counterexample spelled out: the reader recovers `plain bool`, whose blank cell `false`
    is not the zero row `[0]` that fills the overflow block written -/
example : fileKind (apiWrite wideBoolMap []) = some (.plain .bool) ∧
    (readFull (apiWrite wideBoolMap []).file).sp[0]? = some (.bytes [0]) ∧
    (Kind.plain .bool).blank (apiWrite wideBoolMap []).sentinel = .bool false := by
  decide +kernel

/-- the record map with a boolean primary field that broke the ORIGINAL `fileKind` is now
    written to a well-formed file -/
def boolRecMap : MapObj :=
  { covord := 0, spord := 0, kind := .recd [.bool] 0, sent := .bool false,
    st := makeEmpty (cfgOf 0 0) ⟨(Kind.recd [.bool] 0).blank (.bool false),
      (Kind.recd [.bool] 0).valid (.bool false)⟩ [] }

theorem boolRecMap_made : apiMakeEmpty 0 0 (.recd [.bool] 0) none [] = .ok boolRecMap := by rfl

theorem boolRecMap_wf : boolRecMap.WF := by decide +kernel

example : (apiWrite boolRecMap []).WF ∧ fileKind (apiWrite boolRecMap []) = some boolRecMap.kind :=
  ⟨WF.apiWrite_of_not_wide [] boolRecMap_wf (by intro n h; cases h), by decide +kernel⟩

/-! ### `apiRead` -/

/-- a successful partial read of a well-laid-out file is well laid out -/
theorem inv_readPartial {V : Type} [DecidableEq V] (c : Cfg) (vc : VCfg V) (f : FitsFile V)
    (pixels : List Nat) (s : State V) (h : Inv c vc (readFull f))
    (hr : readPartial c vc f pixels = some s) : Inv c vc s := by
  have e : f = writeFits (readFull f) := rfl
  rw [e, readPartial_writeFits] at hr
  split at hr
  · cases hr
  · rename_i hdup
    split at hr
    · cases hr
    · have := Option.some.inj hr
      subst this
      have hnd : pixels.Nodup := Classical.not_not.1 (fun hn => hdup ((eraseDups_length_lt_iff pixels).2 hn))
      exact inv_partialState c vc _ _ h (nodup_partialPixels c _ pixels hnd)
        (fun k hk => ((mem_partialPixels c _ pixels k).1 hk).2.1)

/-- what a successful `apiRead` returns -/
theorem apiRead_ok {f : FileObj} {pixels : Option (List Nat)} {m : MapObj}
    (h : apiRead f pixels = .ok m) :
    ∃ kind, fileKind f = some kind ∧ m.covord = f.covord ∧ m.spord = f.spord ∧ m.kind = kind ∧
      m.sent = f.sentinel ∧ m.cache = none ∧ m.view = none ∧
      (pixels = none → m.st = readFull f.file) ∧
      (∀ px, pixels = some px → readPartial (cfgOf f.covord f.spord)
            ⟨kind.blank f.sentinel, kind.valid f.sentinel⟩ f.file px = some m.st) := by
  unfold HS.apiRead at h
  cases hk : fileKind f with
  | none => simp [hk, bind, Except.bind, throw, throwThe, MonadExceptOf.throw] at h
  | some kind =>
    simp only [hk, bind, Except.bind, pure, Except.pure] at h
    refine ⟨kind, rfl, ?_⟩
    cases pixels with
    | none =>
      simp only [Except.ok.injEq] at h
      subst h
      exact ⟨rfl, rfl, rfl, rfl, rfl, rfl, fun _ => rfl, fun _ h => (nomatch h)⟩
    | some px =>
      simp only [Bool.and_false, Bool.false_eq_true, if_false] at h
      split at h
      · rename_i s hs
        simp only [Except.ok.injEq] at h
        subst h
        refine ⟨rfl, rfl, rfl, rfl, rfl, rfl, fun h => (nomatch h), ?_⟩
        intro px' hpx
        cases hpx
        exact hs
      · simp [throw, throwThe, MonadExceptOf.throw] at h

/-- **reading (fully or partially) a well-formed file gives a well-formed map** -/
theorem WF.apiRead {f : FileObj} {pixels : Option (List Nat)} {m : MapObj}
    (hf : f.WF) (h : apiRead f pixels = .ok m) : m.WF := by
  obtain ⟨kind, hk, h1, h2, h3, h4, _, _, hfull, hpart⟩ := apiRead_ok h
  have hinv := hf.2 kind hk
  unfold MapObj.WF MapObj.c MapObj.vc
  rw [h1, h2, h3, h4]
  refine ⟨hf.1, ?_⟩
  cases pixels with
  | none => rw [hfull rfl]; exact hinv
  | some px => exact inv_readPartial _ _ _ px _ hinv (hpart px rfl)

/-- a map read from ANY file is sentinel-compatible -/
theorem SentOK.apiRead {f : FileObj} {pixels : Option (List Nat)} {m : MapObj}
    (h : apiRead f pixels = .ok m) : m.SentOK := by
  obtain ⟨kind, hk, _, _, h3, h4, _⟩ := apiRead_ok h
  unfold MapObj.SentOK
  rw [h3, h4]
  exact fileKind_sentOK hk


/-- in the form `opRead` stores the result (`World.put` clears `view`) -/
theorem WF.apiRead_stored {f : FileObj} {pixels : Option (List Nat)} {m : MapObj}
    (hf : f.WF) (h : HS.apiRead f pixels = .ok m) : ({ m with view := none } : MapObj).WF :=
  (WF.apiRead hf h : m.WF)

/-! ### `apiDegradeOnRead` -/

section dor
variable {V W : Type}

/-- the coverage pixels degrade-on-read processes are duplicate free and in range -/
theorem dorPixels_spec (c : Cfg) (f : FitsFile V) (pixels : Option (List Nat)) (px : List Nat)
    (h : dorPixels c f pixels = some px) : px.Nodup ∧ ∀ k ∈ px, k < c.ncov := by
  have e : f = writeFits (readFull f) := rfl
  cases pixels with
  | none =>
    rw [e, dorPixels_none] at h
    have := Option.some.inj h
    subst this
    exact ⟨nodup_allCovered c _, fun k hk => ((mem_allCovered c _ k).1 hk).1⟩
  | some l =>
    rw [e, dorPixels_some] at h
    split at h
    · cases h
    · rename_i hdup
      split at h
      · cases h
      · have := Option.some.inj h
        subst this
        have hnd : l.Nodup :=
          Classical.not_not.1 (fun hn => hdup ((eraseDups_length_lt_iff l).2 hn))
        exact ⟨nodup_partialPixels c _ l hnd,
          fun k hk => ((mem_partialPixels c _ l k).1 hk).2.1⟩

/-- **degrade-on-read builds a well-laid-out map from any file** (the index is rebuilt from the
    processed pixel list; nothing is assumed about the file) -/
theorem inv_degradeOnRead [DecidableEq W] (c : Cfg) (vc : VCfg V) (f : FitsFile V)
    (pixels : Option (List Nat)) (g : Nat) (red : List V → W) (vw : VCfg W) (st : State W)
    (h : degradeOnRead c vc f pixels g red vw.sentinel = some st) : Inv (degCfg c g) vw st := by
  have e : f = writeFits (readFull f) := rfl
  rw [e, degradeOnRead_writeFits] at h
  cases hp : dorPixels c (writeFits (readFull f)) pixels with
  | none => rw [hp] at h; cases h
  | some px =>
    rw [hp] at h
    have := Option.some.inj h
    subst this
    obtain ⟨hnd, hlt⟩ := dorPixels_spec c _ pixels px hp
    exact inv_dorState (degCfg c g) vw px _ hnd hlt (dorBlock_length c vc _ g red)

theorem inv_degradeOnReadW [DecidableEq W] {X : Type} (c : Cfg) (vc : VCfg V) (f : FitsFile V)
    (wf : FitsFile X) (dflt : X) (prep : X → X) (pixels : Option (List Nat)) (g : Nat)
    (red : List (V × X) → W) (vw : VCfg W) (st : State W)
    (h : degradeOnReadW c vc f wf dflt prep pixels g red vw.sentinel = some st) :
    Inv (degCfg c g) vw st := by
  have e : f = writeFits (readFull f) := rfl
  have e' : wf = writeFits (readFull wf) := rfl
  rw [e, e', degradeOnReadW_writeFits] at h
  cases hp : dorPixels c (writeFits (readFull f)) pixels with
  | none => rw [hp] at h; cases h
  | some px =>
    rw [hp] at h
    have := Option.some.inj h
    subst this
    obtain ⟨hnd, hlt⟩ := dorPixels_spec c _ pixels px hp
    exact inv_dorState (degCfg c g) vw px _ hnd hlt (dorBlockW_length c vc _ _ dflt prep g red)

end dor

theorem WFFiles.degCfg_cfgOf {co so ord : Nat} (h1 : co ≤ ord) (h2 : ord ≤ so) :
    degCfg (cfgOf co so) (2 * (so - ord)) = cfgOf co ord := by
  unfold degCfg cfgOf
  simp only [Cfg.mk.injEq, true_and]
  omega


theorem WFFiles.ite_err_ok {c : Prop} [Decidable c] {e : Err} {b : Except Err MapObj} {m : MapObj}
    (h : (if c then (Except.error e : Except Err MapObj) else b) = .ok m) : ¬ c ∧ b = .ok m := by
  by_cases hc : c
  · rw [if_pos hc] at h; cases h
  · rw [if_neg hc] at h; exact ⟨hc, h⟩

theorem WFFiles.ite_ok_inv {c : Prop} [Decidable c] {a b : Except Err MapObj} {m : MapObj}
    (h : (if c then a else b) = .ok m) : (c ∧ a = .ok m) ∨ (¬ c ∧ b = .ok m) := by
  by_cases hc : c
  · rw [if_pos hc] at h; exact .inl ⟨hc, h⟩
  · rw [if_neg hc] at h; exact .inr ⟨hc, h⟩

theorem WFFiles.dor_leaf {f : FileObj} {ordOut : Nat} {K : Kind} {S : Val} {st : State Val}
    {V : Type} {vc : VCfg V} {file : FitsFile V} {pixels : Option (List Nat)} {red : List V → Val}
    (sOut : Val) (h1 : ¬ ordOut ≥ f.spord) (h2 : ¬ ordOut < f.covord) (hb : K.blank S = sOut)
    (hst : degradeOnRead (cfgOf f.covord f.spord) vc file pixels (2 * (f.spord - ordOut)) red sOut
      = some st) :
    MapObj.WF { covord := f.covord, spord := ordOut, kind := K, sent := S, st := st } := by
  refine ⟨by simp only; omega, ?_⟩
  have := inv_degradeOnRead _ vc file pixels _ red ⟨K.blank S, K.valid S⟩ st (by rw [hb]; exact hst)
  rw [degCfg_cfgOf (by omega) (by omega)] at this
  exact this

theorem WFFiles.dorW_leaf {f : FileObj} {ordOut : Nat} {K : Kind} {S : Val} {st : State Val}
    {V X : Type} {vc : VCfg V} {file : FitsFile V} {wfile : FitsFile X} {dflt : X} {prep : X → X}
    {pixels : Option (List Nat)} {red : List (V × X) → Val}
    (sOut : Val) (h1 : ¬ ordOut ≥ f.spord) (h2 : ¬ ordOut < f.covord) (hb : K.blank S = sOut)
    (hst : degradeOnReadW (cfgOf f.covord f.spord) vc file wfile dflt prep pixels
      (2 * (f.spord - ordOut)) red sOut = some st) :
    MapObj.WF { covord := f.covord, spord := ordOut, kind := K, sent := S, st := st } := by
  refine ⟨by simp only; omega, ?_⟩
  have := inv_degradeOnReadW _ vc file wfile dflt prep pixels _ red ⟨K.blank S, K.valid S⟩ st
    (by rw [hb]; exact hst)
  rw [degCfg_cfgOf (by omega) (by omega)] at this
  exact this

theorem WFFiles.guard_match_ok {α : Type} {c : Prop} [Decidable c] {e : Err} {u : α}
    {f : α → Except Err MapObj} {m : MapObj}
    (h : Except.bind (if c then Except.error e else Except.ok u) f = .ok m) : ¬ c ∧ f u = .ok m := by
  by_cases hc : c
  · rw [if_pos hc] at h; cases h
  · rw [if_neg hc] at h; exact ⟨hc, h⟩

set_option hygiene false in
/-- a leaf of `apiDegradeOnRead`: `mk kindOut sentOut (degradeOnRead[W] …)`, on the hypothesis `h` -/
local macro "dor_leafs" : tactic => `(tactic| (
  split at h
  · cases h
    refine ⟨?_, ?_, rfl, rfl, rfl, rfl⟩
    · first
      | exact dor_leaf _ ‹¬ _ ≥ _› ‹¬ _ < _› rfl ‹_›
      | exact dorW_leaf _ ‹¬ _ ≥ _› ‹¬ _ < _› rfl ‹_›
      | exact dor_leaf _ ‹¬ _ ≥ _› ‹¬ _ < _› (by split <;> rfl) ‹_›
    · first
      | exact fileKind_sentOK hk
      | exact Kind.sentOK_plain _ _
      | exact Kind.sentOK_recd _ _ _
      | (show Kind.sentOK _ _; split <;> exact Kind.sentOK_plain _ _)
  · cases h))

open Lean Elab Tactic Meta in
/-- succeeds iff the hypothesis `h` has the form `(if c then Except.error e else b) = r` (checked
    syntactically: unification against the unfolded `apiDegradeOnRead` is too expensive to fail) -/
elab "is_guard_hyp" : tactic => withMainContext do
  let h ← getLocalDeclFromUserName `h
  let ty := (← instantiateMVars h.type).consumeMData
  let some (_, lhs, _) := ty.eq? | throwError "not an equation"
  let lhs := lhs.consumeMData
  unless lhs.isAppOfArity ``ite 5 && (lhs.getArg! 3).consumeMData.isAppOf ``Except.error do
    throwError "not a guard"

set_option hygiene false in
/-- peel the validation guards (`if c then throw …`) off the hypothesis `h`, keeping the facts -/
local macro "dor_guards" : tactic => `(tactic| repeat (is_guard_hyp; obtain ⟨_, h⟩ := ite_err_ok h))

set_option hygiene false in
/-- an `if` on the (by now concrete) flag `useW`: keep the live branch -/
local macro "dor_if" : tactic => `(tactic| (
  rcases ite_ok_inv h with ⟨hc, h⟩ | ⟨hc, h⟩ <;>
    first | (cases hc; done) | (exact absurd rfl hc) | (exact absurd trivial hc) | skip))

set_option hygiene false in
/-- the tail of `apiDegradeOnRead` once the kind is known (from the check of the data on), on `h` -/
local macro "dor_tail" : tactic => `(tactic| (
    dor_guards
    cases k with
    | packed => first | cases h | (dsimp only at h; cases h)
    | wide n =>
      try dsimp only at h
      dor_guards
      dor_leafs
    | recd fs pr =>
      try dsimp only at h
      dor_guards
      try dsimp only at h
      dor_leafs
    | plain dt0 =>
      try dsimp only at h
      obtain ⟨_, h⟩ | ⟨_, h⟩ := ite_ok_inv h
      · dor_leafs
      · dor_guards
        try dsimp only at h
        dor_leafs))

set_option hygiene false in
/-- from the kind recovery on (with a weight file in use there is one more guard, its coverage
    where the map has observed pixels) -/
local macro "dor_kind" : tactic => `(tactic| (
  generalize hk : fileKind _ = ok at h
  cases ok with
  | none => cases h
  | some k =>
    dor_if
    dor_tail))

/-- what a successful `apiDegradeOnRead` returns; NOTHING is assumed about the file or the
    weight file -/
theorem apiDegradeOnRead_ok {f : FileObj} {ordOut : Nat} {red : String}
    {pixels : Option (List Nat)} {wf : Option FileObj} {m : MapObj}
    (h : apiDegradeOnRead f ordOut red pixels wf = .ok m) :
    m.WF ∧ m.SentOK ∧ m.covord = f.covord ∧ m.spord = ordOut ∧ m.cache = none ∧ m.view = none := by
  unfold HS.apiDegradeOnRead at h
  simp only [bind, Except.bind, pure, Except.pure, throw, throwThe, MonadExceptOf.throw] at h
  generalize hpx : dorPixels _ _ _ = opx at h
  cases opx with
  | none => cases h
  | some px =>
    cases wf with
    | none =>
      dsimp only at h
      dor_guards
      dor_if
      dor_guards
      dor_kind
    | some w =>
      dsimp only at h
      obtain ⟨_, h⟩ | ⟨_, h⟩ := ite_ok_inv h
      · dor_guards
        dor_if
        dor_guards
        dor_kind
      · dor_guards
        dor_if
        dor_guards
        dor_kind

/-- **degrade-on-read returns a well-formed map** (as asked, with the well-formedness of the
    file and of the weight file as hypotheses; they are not used: see `WF.apiDegradeOnRead'`) -/
theorem WF.apiDegradeOnRead {f : FileObj} {ordOut : Nat} {red : String}
    {pixels : Option (List Nat)} {wf : Option FileObj} {m : MapObj}
    (_hf : f.WF) (_hw : ∀ w, wf = some w → w.WF)
    (h : apiDegradeOnRead f ordOut red pixels wf = .ok m) : m.WF :=
  (apiDegradeOnRead_ok h).1

/-- the unconditional form -/
theorem WF.apiDegradeOnRead' {f : FileObj} {ordOut : Nat} {red : String}
    {pixels : Option (List Nat)} {wf : Option FileObj} {m : MapObj}
    (h : HS.apiDegradeOnRead f ordOut red pixels wf = .ok m) : m.WF :=
  (apiDegradeOnRead_ok h).1

theorem SentOK.apiDegradeOnRead {f : FileObj} {ordOut : Nat} {red : String}
    {pixels : Option (List Nat)} {wf : Option FileObj} {m : MapObj}
    (h : apiDegradeOnRead f ordOut red pixels wf = .ok m) : m.SentOK :=
  (apiDegradeOnRead_ok h).2.1

/-- in the form `opDor` stores the result -/
theorem WF.apiDegradeOnRead_stored {f : FileObj} {ordOut : Nat} {red : String}
    {pixels : Option (List Nat)} {wf : Option FileObj} {m : MapObj}
    (h : HS.apiDegradeOnRead f ordOut red pixels wf = .ok m) :
    ({ m with view := none } : MapObj).WF :=
  (apiDegradeOnRead_ok h).1

/-! ### `apiCat` -/

section cat
variable {V : Type}

theorem WFFiles.mem_of_mapM_some {α β : Type} (f : α → Option β) :
    ∀ (l : List α) (r : List β), l.mapM f = some r → ∀ b ∈ r, ∃ a ∈ l, f a = some b := by
  intro l
  induction l with
  | nil =>
    intro r h b hb
    simp at h
    subst h
    cases hb
  | cons x xs ih =>
    intro r h b hb
    rw [List.mapM_cons] at h
    cases hx : f x with
    | none => rw [hx] at h; cases h
    | some y =>
      cases hxs : xs.mapM f with
      | none => rw [hx, hxs] at h; cases h
      | some ys =>
        rw [hx, hxs] at h
        have := Option.some.inj h
        subst this
        rcases List.mem_cons.1 hb with rfl | hb
        · exact ⟨x, List.mem_cons_self, hx⟩
        · obtain ⟨a, ha, hfa⟩ := ih ys hxs b hb
          exact ⟨a, List.mem_cons_of_mem _ ha, hfa⟩

/-- the block table only depends on the index and the storage size -/
theorem WFFiles.blockToCov_congr {U : Type} (c : Cfg) (s : State V) (s0 : State U)
    (hcov : s.cov = s0.cov) (hsz : s.sp.size = s0.sp.size) : blockToCov c s = blockToCov c s0 := by
  unfold blockToCov nblk blockStart
  rw [hcov, hsz]

/-- **`valid_pixels` stays on the sphere** for any state with a well-formed index and storage
    size, whatever the cells hold (in particular whatever the overflow block holds and whether or
    not the blank cell counts as valid): the pixel numbers it returns, clipped at 0, are `< npix` -/
theorem validPixels_lt_of_shape {U : Type} [DecidableEq U] {c : Cfg} {vu : VCfg U} {s0 : State U}
    (h0 : Inv c vu s0) (vc : VCfg V) (s : State V) (hcov : s.cov = s0.cov)
    (hsz : s.sp.size = s0.sp.size) :
    ∀ q ∈ (validPixels c vc s).getD [], q.toNat < c.npix := by
  intro q hq
  cases hvp : validPixels c vc s with
  | none => rw [hvp] at hq; cases hq
  | some l =>
    rw [hvp] at hq
    simp only [Option.getD_some] at hq
    unfold validPixels at hvp
    obtain ⟨i, hi, hfi⟩ := mem_of_mapM_some _ _ _ hvp q hq
    have hisz : i < s0.sp.size := by rw [← hsz]; exact ((mem_validCells vc s i).1 hi).1
    cases hcp : covPixFromIndex c s i with
    | none => rw [hcp] at hfi; cases hfi
    | some k =>
      rw [hcp] at hfi
      simp only [Option.map_some, Option.some.injEq] at hfi
      subst hfi
      have hn := c.nfine_pos
      unfold covPixFromIndex at hcp
      rw [blockToCov_congr c s s0 hcov hsz] at hcp
      simp only at hcp
      rw [hcov]
      by_cases hlt : i < c.nfine
      · rw [if_pos (Nat.div_eq_of_lt hlt)] at hcp
        rw [Array.back?_eq_getElem?] at hcp
        obtain ⟨hb, hk, hbs⟩ := h0.blockToCov_some hcp
        unfold blockStart at hbs
        have h1 : (k + 1) * c.nfine ≤ c.ncov * c.nfine := Nat.mul_le_mul_right _ hk
        rw [Nat.succ_mul] at h1
        unfold Cfg.npix
        have h2 : (((blockToCov c s0).size - 1 + 1) * c.nfine : Nat) = ((blockToCov c s0).size - 1) * c.nfine + c.nfine := Nat.succ_mul _ _
        omega
      · have h1 : c.nfine ≤ i := Nat.le_of_not_lt hlt
        obtain ⟨hpl, _, _, _, k', hk', he⟩ := h0.pixOfCell_spec (vc := vu) h1 hisz
        have hne : ¬ i / c.nfine = 0 := by
          intro h
          have := (Nat.div_eq_zero_iff_lt hn).1 h
          omega
        have : covPixFromIndex c s0 i = some k := by
          unfold covPixFromIndex; exact hcp
        rw [hk'] at this
        cases this
        rw [he, Int.toNat_natCast]
        exact hpl

/-- the pixels a partial read contributes are on the sphere, whatever the input file holds -/
theorem catPartial_validPixels_lt (c : Cfg) (vc : VCfg V) (f : FitsFile V) (pixels : List Nat)
    (hnd : pixels.Nodup) :
    ∀ q ∈ (validPixels c vc (catPartial c vc f pixels)).getD [], q.toNat < c.npix := by
  let vu : VCfg Unit := ⟨(), fun _ => false⟩
  let i : CatIn V := ⟨c, f⟩
  have hpx : (partialPixels c (writeFits i.state) pixels).Nodup := nodup_partialPixels c i.state pixels hnd
  have hlt : ∀ k ∈ partialPixels c (writeFits i.state) pixels, k < c.ncov :=
    fun k hk => ((mem_partialPixels c i.state pixels k).1 hk).2.1
  have h0 : Inv c vu (makeEmpty c vu (partialPixels c (writeFits i.state) pixels)) :=
    inv_makeEmpty' c vu _ hpx hlt
  refine validPixels_lt_of_shape h0 vc _ rfl ?_
  have e : catPartial c vc f pixels = catPartial c vc i.f pixels := rfl
  rw [e, catPartial_eq, partialState_sp_size]
  simp [makeEmpty]

theorem catContribution_lt (cOut : Cfg) (vc : VCfg V) (i : CatIn V) (pix : Nat)
    (hn : i.c.npix = cOut.npix) :
    ∀ pv ∈ catContribution cOut vc i pix, pv.1 < cOut.npix := by
  intro pv hpv
  rw [← hn]
  unfold catContribution at hpv
  simp only at hpv
  split at hpv
  · obtain ⟨q, hq, rfl⟩ := List.mem_map.1 hpv
    exact catPartial_validPixels_lt i.c vc i.f _ (nodup_single _) q hq
  · split at hpv
    · obtain ⟨q, hq, rfl⟩ := List.mem_map.1 hpv
      exact catPartial_validPixels_lt i.c vc i.f _ (nodup_single _) q (List.mem_filter.1 hq).1
    · obtain ⟨q, hq, rfl⟩ := List.mem_map.1 hpv
      exact catPartial_validPixels_lt i.c vc i.f _ (nodup_children _ _) q hq

section
variable [DecidableEq V]

theorem WFFiles.inv_updatePix_replace (c : Cfg) (vc : VCfg V) (s : State V) (L : List (Nat × V))
    (h : Inv c vc s) (hL : ∀ qw ∈ L, qw.1 < c.npix) :
    Inv c vc (updatePix c vc s none (fun _ (w : V) => w) L false) := by
  have hL' : ∀ qw ∈ stageList false L, qw.1 < c.npix := by
    intro qw hq
    obtain ⟨pw, hpw, he⟩ := stageList_fst_mem false L qw hq
    rw [← he]; exact hL pw hpw
  exact inv_updateCore' c vc s _ _ false h hL'

theorem inv_catStep (cOut : Cfg) (vc : VCfg V) (co oo : Bool) (orF : V → V → V)
    (out out' : State V) (L : List (Nat × V)) (h : Inv cOut vc out)
    (hL : ∀ pv ∈ L, pv.1 < cOut.npix) (hs : catStep cOut vc co oo orF out L = some out') :
    Inv cOut vc out' := by
  unfold catStep at hs
  split at hs
  · split at hs
    · cases hs
    · have := Option.some.inj hs
      subst this
      apply inv_updatePix_replace cOut vc out _ h
      intro qw hq
      obtain ⟨pv, hpv, rfl⟩ := List.mem_map.1 hq
      exact hL pv hpv
  · have := Option.some.inj hs
    subst this
    exact inv_updatePix_replace cOut vc out _ h hL

theorem inv_catIter (cOut : Cfg) (vc : VCfg V) (co oo : Bool) (orF : V → V → V)
    (out out' : State V) (x : Nat × CatIn V) (h : Inv cOut vc out)
    (hn : x.2.c.npix = cOut.npix) (hs : catIter cOut vc co oo orF (some out) x = some out') :
    Inv cOut vc out' := by
  unfold catIter at hs
  simp only at hs
  split at hs
  · split at hs
    · cases hs; exact h
    · exact inv_catStep cOut vc co oo orF out out' _ h (catContribution_lt cOut vc x.2 x.1 hn) hs
  · cases hs; exact h

theorem inv_catFold (cOut : Cfg) (vc : VCfg V) (co oo : Bool) (orF : V → V → V)
    (T : List (Nat × CatIn V)) :
    ∀ (out out' : State V), Inv cOut vc out → (∀ x ∈ T, x.2.c.npix = cOut.npix) →
      T.foldl (catIter cOut vc co oo orF) (some out) = some out' → Inv cOut vc out' := by
  induction T with
  | nil => intro out out' h _ hs; cases hs; exact h
  | cons x xs ih =>
    intro out out' h hn hs
    rw [List.foldl_cons] at hs
    cases h1 : catIter cOut vc co oo orF (some out) x with
    | none => rw [h1, catIter_none_foldl] at hs; cases hs
    | some out1 =>
      rw [h1] at hs
      exact ih out1 out' (inv_catIter cOut vc co oo orF out out1 x h (hn x List.mem_cons_self) h1)
        (fun y hy => hn y (List.mem_cons_of_mem _ hy)) hs

/-- **the concatenated map is well laid out** whenever the loop succeeds: the inputs only have to
    cover the same sphere as the output (nothing is assumed about their contents) -/
theorem inv_catFiles (cOut : Cfg) (vc : VCfg V) (inputs : List (CatIn V)) (co oo : Bool)
    (orF : V → V → V) (st : State V) (hn : ∀ i ∈ inputs, i.c.npix = cOut.npix)
    (h : catFiles cOut vc inputs co oo orF = some st) : Inv cOut vc st := by
  rw [catFiles_eq] at h
  refine inv_catFold cOut vc co oo orF _ _ st
    (inv_makeEmpty' cOut vc [] List.nodup_nil (fun _ hk => nomatch hk)) ?_ h
  intro x hx
  exact hn x.2 ((mem_catPairs cOut vc inputs x).1 hx).2

end

end cat

theorem WFFiles.cfgOf_npix {co so : Nat} (h : co ≤ so) : (cfgOf co so).npix = 12 * 4 ^ so := by
  unfold Cfg.npix Cfg.nfine cfgOf
  simp only
  have e : 2 ^ (2 * (so - co)) = 4 ^ (so - co) := by
    rw [Nat.pow_mul]
  rw [e, Nat.mul_assoc, ← Nat.pow_add]
  congr 2
  omega

theorem apiCat_ok {files : List FileObj} {covordOut : Option Nat} {co oo : Bool} {fo : FileObj}
    (h : apiCat files covordOut co oo = .ok fo) :
    ∃ f0 rest kind st, files = f0 :: rest ∧ (∀ f ∈ files, f.spord = f0.spord) ∧
      fileKind f0 = some kind ∧ covordOut.getD f0.covord ≤ f0.spord ∧
      catFiles (cfgOf (covordOut.getD f0.covord) f0.spord)
        ⟨kind.blank f0.sentinel, kind.valid f0.sentinel⟩
        (files.map fun f => ⟨cfgOf f.covord f.spord, f.file⟩) co (oo && kind.isIntegerMap)
        (fun a b => Val.or kind.dt a b) = some st ∧
      fo = apiWrite { covord := covordOut.getD f0.covord, spord := f0.spord, kind := kind,
                      sent := f0.sentinel, st := st } [] := by
  unfold HS.apiCat at h
  simp only [bind, Except.bind, pure, Except.pure, throw, throwThe, MonadExceptOf.throw] at h
  split at h
  · cases h
  · split at h
    · rename_i f0 rest
      split at h
      · cases h
      · rename_i hany
        split at h
        · rename_i kind hk
          split at h
          · cases h
          · rename_i hco
            split at h
            · cases h
            · rename_i st hst
              cases h
              refine ⟨f0, rest, kind, st, rfl, ?_, hk, by omega, hst, rfl⟩
              intro f hf
              have := List.any_eq_false.1 (Bool.not_eq_true _ ▸ hany) f hf
              simpa using this
        · cases h
    · cases h

/-- **concatenation writes a well-formed file**; of the inputs only `covord ≤ spord` is used
    (their contents are irrelevant for the LAYOUT of the result) -/
theorem WF.apiCat' {files : List FileObj} {covordOut : Option Nat} {co oo : Bool} {fo : FileObj}
    (hf : ∀ f ∈ files, f.covord ≤ f.spord) (h : HS.apiCat files covordOut co oo = .ok fo) :
    fo.WF := by
  obtain ⟨f0, rest, kind, st, hfiles, hsp, hk, hco, hcat, rfl⟩ := apiCat_ok h
  apply WF.apiWrite_partial
  · refine ⟨hco, ?_⟩
    apply inv_catFiles _ _ _ _ _ _ _ ?_ hcat
    intro i hi
    obtain ⟨f, hfm, rfl⟩ := List.mem_map.1 hi
    show (cfgOf f.covord f.spord).npix = (cfgOf (covordOut.getD f0.covord) f0.spord).npix
    rw [cfgOf_npix (hf f hfm), cfgOf_npix hco, hsp f hfm]
  · exact fileKind_sentOK hk

/-- **`apiCat` preserves well-formedness** (the form asked for) -/
theorem WF.apiCat {files : List FileObj} {covordOut : Option Nat} {co oo : Bool} {fo : FileObj}
    (hf : ∀ f ∈ files, f.WF) (h : HS.apiCat files covordOut co oo = .ok fo) : fo.WF :=
  WF.apiCat' (fun f hfm => (hf f hfm).1) h

/-! ### the dispatch layer: what is stored in the world -/

/-- replacing / adding a file under a name keeps the file part of `World.WF` -/
theorem WFFiles.files_insert {files : List (String × FileObj)} (n : String) {fo : FileObj}
    (h : ∀ e ∈ files, e.2.WF) (hfo : fo.WF) :
    ∀ e ∈ (n, fo) :: files.filter (·.1 != n), e.2.WF := by
  intro e he
  rcases List.mem_cons.1 he with rfl | he
  · exact hfo
  · exact h e (List.mem_filter.1 he).1

/-- a file found by name is one of the stored files -/
theorem WFFiles.files_find {files : List (String × FileObj)} {n : String} {fo : FileObj}
    (h : ∀ e ∈ files, e.2.WF) (hf : (files.find? (·.1 == n)).map (·.2) = some fo) : fo.WF := by
  cases hfind : files.find? (·.1 == n) with
  | none => rw [hfind] at hf; cases hf
  | some e =>
    rw [hfind] at hf
    cases hf
    exact h e (List.mem_of_find?_eq_some hfind)

/-- storing a map that is not a view keeps the world well formed -/
theorem WFFiles.put_wf {w : World} (n : String) {m : MapObj} (hw : w.WF) (hm : m.WF)
    (hv : m.view = none) : (w.put n m).WF := by
  unfold World.put
  rw [hv]
  split
  · rename_i h1 h2; cases h2
  · refine ⟨?_, hw.2⟩
    intro e he hev
    rcases List.mem_cons.1 he with rfl | he
    · exact hm
    · exact hw.1 e (List.mem_filter.1 he).1 hev

/-- binding a name to a freshly produced map keeps the world well formed -/
theorem WFFiles.bind_wf {w : World} (n : String) {m : MapObj} (hw : w.WF) (hm : m.WF) :
    (w.bind n m).WF := by
  refine ⟨?_, hw.2⟩
  intro e he hev
  rcases List.mem_cons.1 he with rfl | he
  · exact hm
  · exact hw.1 e (List.mem_filter.1 he).1 hev

theorem WFFiles.with_metas_wf {w : World} (ms : List (String × List (String × String)))
    (h : w.WF) : ({ w with metas := ms } : World).WF := h

theorem WF.opCovread {w : World} (a : Args) (h : w.WF) : (opCovread w a).1.WF := by
  unfold HS.opCovread
  split <;> exact h

theorem WF.opFitsraw {w : World} (a : Args) (h : w.WF) : (opFitsraw w a).1.WF := by
  unfold HS.opFitsraw
  split
  · split <;> exact h
  · exact h
  · exact h

theorem WF.opRead {w : World} (a : Args) (h : w.WF) : (opRead w a).1.WF := by
  unfold HS.opRead
  split
  · exact h
  · rename_i fo hfo
    have hf : fo.WF := files_find h.2 hfo
    simp only
    split
    · exact h
    · split
      · rename_i m hm
        obtain ⟨_, _, _, _, _, _, _, hv, _⟩ := apiRead_ok hm
        exact with_metas_wf _ (bind_wf _ h (WF.apiRead hf hm))
      · exact h

theorem WF.opCat {w : World} (a : Args) (h : w.WF) : (opCat w a).1.WF := by
  unfold HS.opCat
  simp only
  split
  · exact h
  · rename_i fs hfs
    split
    · rename_i fo hfo
      have hall : ∀ f ∈ fs, f.WF := by
        intro f hf
        obtain ⟨n, _, hn⟩ := mem_of_mapM_some _ _ _ hfs f hf
        exact files_find h.2 hn
      exact ⟨h.1, files_insert _ h.2 (WF.apiCat hall hfo)⟩
    · exact h

/-- `write`: needs the map looked up (a view is materialised from its parent) to be well formed
    and sentinel-compatible -/
theorem WF.opWrite_partial {w : World} (a : Args) (h : w.WF)
    (hget : ∀ n m, w.get? n = some m → m.WF ∧ m.SentOK) : (opWrite w a).1.WF := by
  unfold HS.opWrite withMap
  split
  · rename_i n _
    split
    · rename_i m hm
      obtain ⟨h1, h2⟩ := hget _ m hm
      exact ⟨h.1, files_insert _ h.2 (WF.apiWrite_partial _ h1 h2)⟩
    · exact h
  · exact h

/-- `dor` on a healsparse file (the HEALPix-file branch converts and degrades in memory: its
    well-formedness is the business of `apiReadHealpix` / `apiDegrade`, taken as a hypothesis) -/
theorem WF.opDor {w : World} (a : Args) (h : w.WF)
    (hhp : ∀ hf co r2n m ord red d, apiReadHealpix hf co r2n = .ok m →
      apiDegrade m ord red none = .ok d → d.WF ∧ d.view = none) : (opDor w a).1.WF := by
  unfold HS.opDor
  split
  · rename_i hf ord co _ _ _
    simp only
    split
    · exact h
    · split
      · exact h
      · rename_i m hm
        split
        · rename_i d hd
          obtain ⟨h1, h2⟩ := hhp _ _ _ _ _ _ _ hm hd
          exact bind_wf _ h h1
        · exact h
  · split
    · rename_i fo ord hfo _
      simp only
      split
      · split
        · rename_i m hm
          obtain ⟨hwf, _, _, _, _, hv⟩ := apiDegradeOnRead_ok hm
          exact with_metas_wf _ (bind_wf _ h hwf)
        · exact h
      · exact h
    · exact h
    · exact h

/-! ### the hypotheses are satisfiable: a concrete history -/

/-- the result of an `Except` computation satisfies a boolean test -/
def WFFiles.okAnd {α : Type} (r : Except Err α) (p : α → Bool) : Bool :=
  match r with
  | .ok a => p a
  | .error _ => false

theorem WFFiles.okAnd_elim {α : Type} {r : Except Err α} {p : α → Bool} (h : okAnd r p = true) :
    ∃ a, r = .ok a ∧ p a = true := by
  cases r with
  | ok a => exact ⟨a, rfl, h⟩
  | error e => cases h

/-- an int32 map at `nside_coverage = 1`, `nside_sparse = 2` with two pixels set -/
def WFFiles.exMapE : Except Err MapObj := do
  let m ← apiMakeEmpty 0 1 (.plain (.int 32 true)) none []
  apiUpdate m "replace" [5, 40] (some [.num 7 0, .num 9 0]) false

/-- a second map, on another coverage pixel -/
def WFFiles.exMapE2 : Except Err MapObj := do
  let m ← apiMakeEmpty 0 1 (.plain (.int 32 true)) none []
  apiUpdate m "replace" [17] (some [.num 3 0]) true

/-- a wide-mask map (two bytes per pixel) with one pixel set -/
def WFFiles.exWideE : Except Err MapObj := do
  let m ← apiMakeEmpty 0 1 (.wide 2) none []
  apiUpdate m "replace" [30] (some [.bytes [1, 128]]) true

/-- everything below is computed by the kernel: both maps are made and updated, are well formed
    and sentinel-compatible; the file of the first can be read partially and degraded on read,
    and the two files can be concatenated -/
theorem WFFiles.ex_computed :
    okAnd exMapE (fun m => decide m.WF && decide m.SentOK &&
      okAnd (apiRead (apiWrite m []) (some [1, 7])) (fun _ => true) &&
      okAnd (apiDegradeOnRead (apiWrite m []) 0 "sum" none none) (fun _ => true) &&
      okAnd exMapE2 (fun m2 => decide m2.WF && decide m2.SentOK &&
        okAnd (apiCat [apiWrite m [], apiWrite m2 []] none true false) (fun _ => true)) &&
      okAnd exWideE (fun mw => decide mw.WF && decide mw.SentOK &&
        okAnd (apiRead (apiWrite mw []) none) (fun _ => true))) = true := by
  decide +kernel

/-- **the theorems applied to the concrete history**: every hypothesis is met, every object
    produced along the way is well formed -/
example : ∃ m m2 mw mr md mwr fo,
    exMapE = .ok m ∧ exMapE2 = .ok m2 ∧ exWideE = .ok mw ∧
    (apiWrite m []).WF ∧ (apiWrite m2 []).WF ∧ (apiWrite mw []).WF ∧
    apiRead (apiWrite m []) (some [1, 7]) = .ok mr ∧ mr.WF ∧ mr.SentOK ∧
    apiDegradeOnRead (apiWrite m []) 0 "sum" none none = .ok md ∧ md.WF ∧
    apiRead (apiWrite mw []) none = .ok mwr ∧ mwr.WF ∧
    apiCat [apiWrite m [], apiWrite m2 []] none true false = .ok fo ∧ fo.WF := by
  obtain ⟨m, hm, h⟩ := okAnd_elim ex_computed
  simp only [Bool.and_eq_true, decide_eq_true_eq] at h
  obtain ⟨⟨⟨⟨⟨hwf, hs⟩, hr⟩, hd⟩, h2⟩, hw⟩ := h
  obtain ⟨mr, hmr, _⟩ := okAnd_elim hr
  obtain ⟨md, hmd, _⟩ := okAnd_elim hd
  obtain ⟨m2, hm2, h2⟩ := okAnd_elim h2
  simp only [Bool.and_eq_true, decide_eq_true_eq] at h2
  obtain ⟨⟨hwf2, hs2⟩, hc⟩ := h2
  obtain ⟨fo, hfo, _⟩ := okAnd_elim hc
  obtain ⟨mw, hmw, hw⟩ := okAnd_elim hw
  simp only [Bool.and_eq_true, decide_eq_true_eq] at hw
  obtain ⟨⟨hwfw, hsw⟩, hrw⟩ := hw
  obtain ⟨mwr, hmwr, _⟩ := okAnd_elim hrw
  have f1 := WF.apiWrite_partial [] hwf hs
  have f2 := WF.apiWrite_partial [] hwf2 hs2
  have fw := WF.apiWrite_partial [] hwfw hsw
  refine ⟨m, m2, mw, mr, md, mwr, fo, hm, hm2, hmw, f1, f2, fw, hmr, WF.apiRead f1 hmr,
    SentOK.apiRead hmr, hmd, WF.apiDegradeOnRead f1 (fun _ h => by cases h) hmd,
    hmwr, WF.apiRead fw hmwr, hfo, WF.apiCat ?_ hfo⟩
  intro f hf
  simp only [List.mem_cons, List.not_mem_nil, or_false] at hf
  rcases hf with rfl | rfl
  · exact f1
  · exact f2

end HS
