/-
  C17 — a MOC written from a map covers exactly the map's valid pixels.
  Property theorems only (helpers and the specification vocabulary in HealSparse/Lemmas/Moc.lean).

  Model: `HealSparse/Model/Moc.lean` (`mocWrite`, `mocWriteWith`, `mocRead`), a statement by
  statement transcription of `_write_moc_fits` / `_read_moc_fits` (healsparse/io_map_fits.py).

  Vocabulary (all plain definitions, see Lemmas/Moc.lean):
  * `uniqOf o p = 4 * 4^o + p`, `uniqOrder u = log2 (u / 4) / 2`, `uniqIndex u = u - 4 * 4^(uniqOrder u)`;
  * `cellCovers maxOrd u x` : `∃ j < 4^(maxOrd - o), x = (i <<< 2*(maxOrd - o)) + j`
    for `(o, i) = (uniqOrder u, uniqIndex u)`;
  * `cnt P d q` : number of `p ∈ P` with `p >>> 2*d = q` (the direct count);
  * `Full P d q` : every `x` with `x >>> 2*d = q` is in `P`;
  * `cmLevel P d` : the hash map of child counts after `d` `degrade(sum)` steps.

  Hypotheses.  `P.Nodup` and `∀ p ∈ P, p < 12 * 4^maxOrd` are what `valid_pixels` guarantees.
  Non-emptiness of `P` is never needed by the model (the Python code raises on an empty map,
  `np.max` of an empty array); `minOrd ≤ maxOrd` is needed only for the lower order bound.

  HISTORY (reader, 32-bit overflow — repaired).  Before the commit "fix: reading a MOC with cells
  of order 15 or more", `_read_moc_fits` computed `4*(4**order)` on an `int32` array; for
  `order ≥ 15` (nside ≥ 32768) this wrapped to 0 and every pixel read back as its own UNIQ code
  (`p + 4*4^order`) or raised `IndexError` (reproduced then on the real code: nside_coverage 256,
  nside_sparse 32768, pixels [5, 77] read back as [4294967301, 4294967373]).  `mocRead` models the
  repaired code (exact arithmetic) and `moc_read_write` is proved without any bound on the
  order.  The pre-fix reader is kept as `mocReadI32`, only for the theorems in
  `Witness` (`Witness.uniq_decode_i32_fails_order15`, `Witness.moc_read_write_i32_fails_order15`,
  `Witness.moc_read_write_i32_partial`).
-/
import HealSparse.Lemmas.Moc
namespace HS
namespace C17

variable {maxOrd minOrd : Nat} {P : List Nat}

/-! ### A concrete instance used by the `example`s

Order 2 (192 pixels), given in scrambled order: the order-0 cell 1 (pixels 16 … 31) is full, the
order-1 cell 0 (pixels 0 … 3) is full but its parent is not, pixel 5 sits alone in a partial
order-1 cell, pixel 100 is isolated. -/

def exP : List Nat :=
  [100, 5, 31, 30, 29, 28, 16, 17, 18, 19, 20, 21, 22, 23, 24, 25, 26, 27, 3, 0, 2, 1]

theorem exP_nodup : exP.Nodup := by decide
theorem exP_lt : ∀ p ∈ exP, p < 12 * 4 ^ 2 := by decide

-- What the compiled model writes / reads for it (evaluated, not proved):
#guard mocWrite 2 0 exP == [uniqOf 0 1, uniqOf 1 0, uniqOf 2 5, uniqOf 2 100]
#guard mocWrite 2 0 exP == [5, 16, 69, 164]
#guard mocWrite 2 1 exP == [16, 20, 21, 22, 23, 69, 164]
#guard mocWrite 2 2 exP == (exP.map (uniqOf 2 ·)).mergeSort
#guard mocRead [5, 16, 69, 164] == (2, exP.mergeSort)
#guard mocRead (mocWrite 2 0 (List.range 192)) == (0, List.range 12)

/-! ### Child counts: level by level = direct count -/

/-- One `degrade(sum)` step: the count of a cell is the sum of the counts of its four children. -/
theorem count_level_step (m : CountMap) (q : Nat) :
    cmGet (cmDegrade m) q =
      cmGet m (4 * q) + cmGet m (4 * q + 1) + cmGet m (4 * q + 2) + cmGet m (4 * q + 3) :=
  cmGet_cmDegrade m q

/-- The count map computed level by level (1 for valid pixels, then `d` sum-degrades) holds, at
    every cell `q`, the number of valid pixels below `q`. -/
theorem count_level (hnd : P.Nodup) (d q : Nat) :
    cmGet (cmLevel P d) q = (P.filter fun p => p >>> (2 * d) == q).length := by
  rw [cmGet_cmLevel hnd, cnt, List.countP_eq_length_filter]

example : cmGet (cmLevel exP 2) 1 = 16 := by
  rw [count_level exP_nodup]; decide

/-- The meaning of the code's test `uniq_map[pix_shift] == 4**(max_order - uniq_order)`:
    the count equals `4^d` exactly when every descendant of the cell is valid. -/
theorem full_test_iff (hnd : P.Nodup) (d q : Nat) :
    cnt P d q = 4 ^ d ↔ ∀ x, x >>> (2 * d) = q → x ∈ P :=
  cnt_eq_iff_full hnd d q

example : cnt exP 2 1 = 4 ^ 2 ∧ cnt exP 2 0 ≠ 4 ^ 2 := by decide

/-! ### UNIQ coding -/

/-- Decoding `4 * 4^o + p` gives back `(o, p)`. -/
theorem uniq_decode_encode {o p : Nat} (h : p < 12 * 4 ^ o) :
    uniqOrder (uniqOf o p) = o ∧ uniqIndex (uniqOf o p) = p :=
  ⟨uniqOrder_uniqOf h, uniqIndex_uniqOf h⟩

example : uniqOrder (uniqOf 7 196607) = 7 ∧ uniqIndex (uniqOf 7 196607) = 196607 :=
  uniq_decode_encode (by decide)

/-! ### The cells written -/

/-- The UNIQ column is strictly ascending (sorted, no duplicates), for any comparator. -/
theorem moc_sorted (full : Nat → Nat → Bool) (maxOrd minOrd : Nat) (P : List Nat) :
    (mocWriteWith full maxOrd minOrd P).Pairwise (· < ·) :=
  npUnique_sorted _

/-- The order-`maxOrd` pixels covered by the cells written are exactly the input pixels. -/
theorem moc_cover (hnd : P.Nodup) (hlt : ∀ p ∈ P, p < 12 * 4 ^ maxOrd) (x : Nat) :
    (∃ u ∈ mocWrite maxOrd minOrd P, cellCovers maxOrd u x) ↔ x ∈ P :=
  moc_cover' hnd hlt x

example : ∃ u ∈ mocWrite 2 0 exP, cellCovers 2 u 20 :=
  (moc_cover exP_nodup exP_lt 20).2 (by decide)
example : ¬ ∃ u ∈ mocWrite 2 0 exP, cellCovers 2 u 4 :=
  fun h => absurd ((moc_cover exP_nodup exP_lt 4).1 h) (by decide)

/-- Distinct cells written cover disjoint pixel sets. -/
theorem moc_disjoint (hnd : P.Nodup) (hlt : ∀ p ∈ P, p < 12 * 4 ^ maxOrd) {u₁ u₂ : Nat}
    (h₁ : u₁ ∈ mocWrite maxOrd minOrd P) (h₂ : u₂ ∈ mocWrite maxOrd minOrd P) (hne : u₁ ≠ u₂) :
    ¬ ∃ x, cellCovers maxOrd u₁ x ∧ cellCovers maxOrd u₂ x :=
  fun ⟨_, hc₁, hc₂⟩ => hne (moc_disjoint' hnd hlt h₁ h₂ hc₁ hc₂)

example {u₁ u₂ : Nat} (h₁ : u₁ ∈ mocWrite 2 0 exP) (h₂ : u₂ ∈ mocWrite 2 0 exP) (hne : u₁ ≠ u₂) :
    ¬ ∃ x, cellCovers 2 u₁ x ∧ cellCovers 2 u₂ x :=
  moc_disjoint exP_nodup exP_lt h₁ h₂ hne

/-- Every written cell has an order between the coverage order and the sparse order (and a
    pixel index valid at that order). -/
theorem moc_order_ge_cov (hmo : minOrd ≤ maxOrd) (hnd : P.Nodup)
    (hlt : ∀ p ∈ P, p < 12 * 4 ^ maxOrd) {u : Nat} (hu : u ∈ mocWrite maxOrd minOrd P) :
    minOrd ≤ uniqOrder u ∧ uniqOrder u ≤ maxOrd ∧ uniqIndex u < 12 * 4 ^ uniqOrder u :=
  moc_order' hmo hnd hlt hu

example {u : Nat} (hu : u ∈ mocWrite 2 1 exP) : 1 ≤ uniqOrder u ∧ uniqOrder u ≤ 2 :=
  have h := moc_order_ge_cov (by decide) exP_nodup exP_lt hu
  ⟨h.1, h.2.1⟩

/-- Soundness of the early `break`: if at some level no valid pixel lies in a cell that passes
    the fullness test, the same holds at every coarser level (a full cell has full children), so
    the levels skipped by the `break` would not have changed anything. -/
theorem moc_break_sound (hnd : P.Nodup) {d : Nat}
    (h : ∀ p ∈ P, cnt P d (p >>> (2 * d)) ≠ 4 ^ d) {e p : Nat} (hp : p ∈ P) (he : d ≤ e) :
    cnt P e (p >>> (2 * e)) ≠ 4 ^ e :=
  moc_break_sound' hnd h hp he

example : cnt [0, 1, 2, 7] 2 (7 >>> (2 * 2)) ≠ 4 ^ 2 :=
  moc_break_sound (P := [0, 1, 2, 7]) (d := 1) (by decide) (by decide) (by decide) (by decide)

/-- Maximality.  Every written cell is fully valid, and none of its ancestors of order
    `minOrd ≤ o' < order` is: each cell is the coarsest fully valid ancestor that is not coarser
    than the coverage resolution.  (No side condition for the `break`: by `moc_break_sound` it
    never stops the loop too early.) -/
theorem moc_maximal (hnd : P.Nodup) (hlt : ∀ p ∈ P, p < 12 * 4 ^ maxOrd) {u : Nat}
    (hu : u ∈ mocWrite maxOrd minOrd P) :
    (∀ x, cellCovers maxOrd u x → x ∈ P) ∧
    ∀ o', minOrd ≤ o' → o' < uniqOrder u →
      ¬ ∀ x, x >>> (2 * (maxOrd - o')) = uniqIndex u >>> (2 * (uniqOrder u - o')) → x ∈ P :=
  moc_maximal' hnd hlt hu

/-- Conversely every valid pixel is represented: the complete description of the UNIQ column.
    `u` is written iff it is the code of the ancestor `e` levels above some valid pixel `p`,
    where `e ≤ maxOrd - minOrd` is the largest number of levels such that this ancestor is
    fully valid. -/
theorem moc_mem_iff (hnd : P.Nodup) (u : Nat) :
    u ∈ mocWrite maxOrd minOrd P ↔
      ∃ p ∈ P, ∃ e, e ≤ maxOrd - minOrd ∧ Full P e (p >>> (2 * e)) ∧
        (∀ e', e' ≤ maxOrd - minOrd → Full P e' (p >>> (2 * e')) → e' ≤ e) ∧
        u = uniqOf (maxOrd - e) (p >>> (2 * e)) :=
  (mem_mocWrite_iff maxOrd minOrd hnd u).trans
    ⟨fun ⟨p, hp, e, he, hu⟩ => ⟨p, hp, e, he.1, he.2.1, he.2.2, hu⟩,
     fun ⟨p, hp, e, h1, h2, h3, hu⟩ => ⟨p, hp, e, ⟨h1, h2, h3⟩, hu⟩⟩

example {u : Nat} (hu : u ∈ mocWrite 2 0 exP) : ∀ x, cellCovers 2 u x → x ∈ exP :=
  (moc_maximal exP_nodup exP_lt hu).1
/-- On the instance: the order-0 cell 1 (UNIQ 5) is written, being the ancestor 2 levels above
    pixel 20, fully valid, with no further level allowed (`maxOrd - minOrd = 2`). -/
example : uniqOf 0 1 ∈ mocWrite 2 0 exP :=
  (moc_mem_iff exP_nodup _).2 ⟨20, by decide, 2, by decide,
    (full_test_iff exP_nodup 2 _).1 (by decide), fun _ h _ => h, by decide⟩

/-! ### Write, then read -/

/-- The map read from any UNIQ column: pixel `y` (at the file's maximum order `m`) is valid iff
    it lies in one of the cells, expanded to order `m`. -/
theorem moc_read_mem (U : List Nat) (y : Nat) :
    y ∈ (mocRead U).2 ↔
      ∃ u ∈ U, ∃ j, j < 4 ^ ((mocRead U).1 - uniqOrder u) ∧
        y = (uniqIndex u <<< (2 * ((mocRead U).1 - uniqOrder u))) + j := by
  rw [mem_mocRead_snd]
  constructor
  · rintro ⟨u, hu, h⟩
    obtain ⟨j, hj, hy⟩ := (shr_eq_iff _ _ _).1 h
    exact ⟨u, hu, j, by rw [four_pow]; exact hj, hy⟩
  · rintro ⟨u, hu, j, hj, hy⟩
    exact ⟨u, hu, (shr_eq_iff _ _ _).2 ⟨j, by rw [← four_pow]; exact hj, hy⟩⟩

example : 7 ∈ (mocRead [uniqOf 0 0, uniqOf 1 5]).2 ↔
    ∃ u ∈ [uniqOf 0 0, uniqOf 1 5], ∃ j, j < 4 ^ ((mocRead [uniqOf 0 0, uniqOf 1 5]).1 - uniqOrder u) ∧
      7 = (uniqIndex u <<< (2 * ((mocRead [uniqOf 0 0, uniqOf 1 5]).1 - uniqOrder u))) + j :=
  moc_read_mem _ 7

/-- Reading back what was written: the file's order `m` is at most `maxOrd`, and a pixel `x` of
    order `maxOrd` is in the input iff its ancestor at order `m` is a valid pixel of the map read
    (each pixel read stands for its `4^(maxOrd - m)` descendants).  Holds for every `x`, in range
    or not, and for every order (no bound: the repaired reader uses 64-bit orders; the model's
    arithmetic is exact). -/
theorem moc_read_write (hnd : P.Nodup) (hlt : ∀ p ∈ P, p < 12 * 4 ^ maxOrd) :
    (mocRead (mocWrite maxOrd minOrd P)).1 ≤ maxOrd ∧
    ∀ x, x ∈ P ↔ x >>> (2 * (maxOrd - (mocRead (mocWrite maxOrd minOrd P)).1))
                    ∈ (mocRead (mocWrite maxOrd minOrd P)).2 :=
  moc_read_write' hnd hlt

example : 20 >>> (2 * (2 - (mocRead (mocWrite 2 0 exP)).1)) ∈ (mocRead (mocWrite 2 0 exP)).2 :=
  ((moc_read_write exP_nodup exP_lt).2 20).1 (by decide)
example : ¬ 4 >>> (2 * (2 - (mocRead (mocWrite 2 1 exP)).1)) ∈ (mocRead (mocWrite 2 1 exP)).2 :=
  fun h => absurd (((moc_read_write exP_nodup exP_lt).2 4).2 h) (by decide)
example : (mocRead (mocWrite 2 0 exP)).1 ≤ 2 := (moc_read_write exP_nodup exP_lt).1

/-- The instance on which the pre-fix reader failed (one valid pixel, 5, at order 15) now reads
    back correctly. -/
theorem moc_read_write_order15 : mocRead (mocWrite 15 15 [5]) = (15, [5]) :=
  mocRead_order15

/-! ### Witness: the `np.isclose` comparator (the code before the fix) breaks `moc_cover`

`decide` cannot run the writer on `4^9 - 1` pixels, so the witness is assembled from
(1) the arithmetic fact that `isclose` accepts a count that is one short of `4^9`,
(2) a structural theorem valid for every comparator: a cell declared full although its count is
    below `4^d` makes the writer emit a cell containing an invalid pixel (as soon as the loop
    reaches that level), and
(3) their combination on the concrete input `range (4^9 - 1)` at orders (9, 0), proved by
    reasoning about counts instead of evaluating them.  A two-level analogue with a deliberately
    sloppy comparator is evaluated by `#guard`. -/
namespace Witness

/-- One missing child nine levels down is within the `isclose` tolerance. -/
theorem isclose_accepts_one_missing : iscloseF32 (4 ^ 9 - 1) (4 ^ 9) = true := by decide

/-- Up to eight levels the `isclose` test is exact, which is why shallow tests never saw it. -/
theorem isclose_exact_below_9 {d c : Nat} (hd : d ≤ 8) (hc : c < 4 ^ d) :
    iscloseF32 c (4 ^ d) = false := by
  have : 4 ^ d ≤ 4 ^ 8 := Nat.pow_le_pow_right (by omega) hd
  have : (4 : Nat) ^ 8 = 65536 := by decide
  simp only [iscloseF32, decide_eq_false_iff_not]
  omega

example : iscloseF32 (4 ^ 8 - 1) (4 ^ 8) = false := isclose_exact_below_9 (by decide) (by decide)

/-- Structural part, for an arbitrary comparator `full`. -/
theorem overcovers (full : Nat → Nat → Bool) (hnd : P.Nodup) {p d : Nat} (hp : p ∈ P)
    (hd1 : 1 ≤ d) (hd : d ≤ maxOrd - minOrd)
    (hreach : ∀ e, 1 ≤ e → e < d → ∃ p' ∈ P, full (cnt P e (p' >>> (2 * e))) (4 ^ e) = true)
    (hfull : full (cnt P d (p >>> (2 * d))) (4 ^ d) = true)
    (hcnt : cnt P d (p >>> (2 * d)) < 4 ^ d) :
    ∃ e, d ≤ e ∧ e ≤ maxOrd - minOrd ∧
      uniqOf (maxOrd - e) (p >>> (2 * e)) ∈ mocWriteWith full maxOrd minOrd P ∧
      ∃ x, x ∉ P ∧ x >>> (2 * e) = p >>> (2 * e) :=
  mocWriteWith_overcovers full maxOrd minOrd hnd hp hd1 hd
    (fun e h1 h2 => List.any_eq_true.2 (hreach e h1 h2)) hfull hcnt

example : ∃ e, 1 ≤ e ∧ e ≤ 1 - 0 ∧
    uniqOf (1 - e) (0 >>> (2 * e)) ∈ mocWriteWith (fun c t => decide (t ≤ c + 1)) 1 0 [0, 1, 2] ∧
    ∃ x, x ∉ [0, 1, 2] ∧ x >>> (2 * e) = 0 >>> (2 * e) :=
  overcovers (P := [0, 1, 2]) _ (by decide) (p := 0) (d := 1) (by decide) (by decide) (by decide)
    (fun e h1 h2 => absurd h2 (by omega)) (by decide) (by decide)

#guard mocWriteWith (fun c t => decide (t ≤ c + 1)) 1 0 [0, 1, 2] == [uniqOf 0 0]
#guard mocWrite 1 0 [0, 1, 2] == [uniqOf 1 0, uniqOf 1 1, uniqOf 1 2]

/-- The defect: `4^9 - 1` of the `4^9` order-9 pixels of the order-0 cell 0 are valid, yet the
    `isclose` writer emits the whole order-0 cell (UNIQ code 4), which contains the invalid
    pixel `4^9 - 1 = 262143`. -/
theorem moc_isclose_wrong :
    4 ∈ mocWriteWith iscloseF32 9 0 (List.range (4 ^ 9 - 1)) ∧
    cellCovers 9 4 262143 ∧ 262143 ∉ List.range (4 ^ 9 - 1) :=
  ⟨isclose_writes_whole_cell, ⟨262143, by decide, by decide⟩, by simp⟩

/-- Hence `moc_cover` is false for the `isclose` writer. -/
theorem moc_cover_fails_isclose :
    ¬ ∀ x, (∃ u ∈ mocWriteWith iscloseF32 9 0 (List.range (4 ^ 9 - 1)), cellCovers 9 u x) ↔
        x ∈ List.range (4 ^ 9 - 1) :=
  fun h => moc_isclose_wrong.2.2 ((h 262143).1 ⟨4, moc_isclose_wrong.1, moc_isclose_wrong.2.1⟩)

/-! #### Witness: the PRE-FIX reader (`int32` orders), `mocReadI32`

These three theorems are about the reader as it was BEFORE the commit "fix: reading a MOC with
cells of order 15 or more"; they do not concern the current code (`mocRead`, for which
`moc_read_write` holds without restriction). -/

/-- Pre-fix reader: its index computation `uniq - int32(4*4**order)` decodes correctly up to
    order 14 … -/
theorem uniq_decode_encode_i32_partial {o p : Nat} (h : p < 12 * 4 ^ o) (ho : o ≤ 14) :
    uniqIndexI32 (uniqOf o p) = p := by
  rw [uniqIndexI32, uniqOrder_uniqOf h, uniqBaseI32_eq ho, uniqOf]; omega

example : uniqIndexI32 (uniqOf 14 3221225471) = 3221225471 :=
  uniq_decode_encode_i32_partial (by decide) (by decide)

/-- … and at order 15 returns the UNIQ code itself (the offset wraps to 0). -/
theorem uniq_decode_i32_fails_order15 : uniqIndexI32 (uniqOf 15 5) = uniqOf 15 5 := by
  rw [uniqIndexI32, uniqOrder_uniqOf (by decide), uniqBaseI32_big (by omega)]; rfl

/-- Pre-fix reader: the write/read round trip held exactly when the file's maximum order was
    at most 14. -/
theorem moc_read_write_i32_partial (hnd : P.Nodup) (hlt : ∀ p ∈ P, p < 12 * 4 ^ maxOrd)
    (h14 : (mocReadI32 (mocWrite maxOrd minOrd P)).1 ≤ 14) :
    (mocReadI32 (mocWrite maxOrd minOrd P)).1 ≤ maxOrd ∧
    ∀ x, x ∈ P ↔ x >>> (2 * (maxOrd - (mocReadI32 (mocWrite maxOrd minOrd P)).1))
                    ∈ (mocReadI32 (mocWrite maxOrd minOrd P)).2 :=
  moc_read_write_i32' hnd hlt h14

example : (mocReadI32 (mocWrite 2 0 exP)).1 ≤ 14 := by
  refine Nat.le_trans (mocReadWith_fst_le _ _ fun u hu => ?_) (show 2 ≤ 14 by decide)
  exact (moc_order_ge_cov (by decide) exP_nodup exP_lt hu).2.1

/-- Pre-fix reader, closed counterexample: one valid pixel, 5, at order 15.  The file contains
    the single code `4 * 4^15 + 5`; the pre-fix reader returned order 15 and the "pixel"
    4294967301, so pixel 5 was lost.  (4294967301 < 12 * 4^15, which is why the old code marked
    that wrong pixel valid silently; for pixels ≥ 8 * 4^15 it raised `IndexError` instead.)
    Compare `moc_read_write_order15` for the repaired reader. -/
theorem moc_read_write_i32_fails_order15 :
    mocReadI32 (mocWrite 15 15 [5]) = (15, [4294967301]) ∧
    ¬ (5 ∈ [5] ↔ 5 >>> (2 * (15 - (mocReadI32 (mocWrite 15 15 [5])).1))
                    ∈ (mocReadI32 (mocWrite 15 15 [5])).2) := by
  refine ⟨mocReadI32_order15, ?_⟩
  rw [mocReadI32_order15]; decide

end Witness

end C17
end HS
