/-
  C11 — boolean mask algebra follows the documented coverage-scoped semantics.
  Property theorems only (helpers in HealSparse/Lemmas).
-/
import HealSparse.Lemmas.Core
import HealSparse.Lemmas.Coverage
import HealSparse.Lemmas.BoolOps
import HealSparse.Model.BoolOps
import HealSparse.Props.C04
import HealSparse.Props.C01
namespace HS
namespace C11

/-- cell parameters of a boolean map (False sentinel) -/
def bvc : VCfg Bool := ⟨false, fun b => b⟩

/-- `a op k` (constant): the operation applies over `a`'s coverage mask; layout and coverage kept. -/
theorem boolConst_spec (c : Cfg) (s : State Bool) (op : Bool → Bool → Bool) (k : Bool)
    (h : Inv c bvc s) :
    Inv c bvc (boolConst c s op k) ∧
    (∀ p, p < c.npix → abs c bvc (boolConst c s op k) p
        = denseBoolConst c (abs c bvc s) (covered c s) op k p) ∧
    (∀ j, covered c (boolConst c s op k) j = covered c s j) := by
  rw [boolConst_eq_mapGuard]
  exact mapGuard_spec c bvc s _ h

/-- Inversion flips exactly the pixels inside the coverage mask. -/
theorem invert_spec (c : Cfg) (s : State Bool) (h : Inv c bvc s) :
    Inv c bvc (invertMap c s) ∧
    (∀ p, p < c.npix → abs c bvc (invertMap c s) p
        = if covered c s (p >>> c.shift) then !(abs c bvc s p) else abs c bvc s p) ∧
    (∀ j, covered c (invertMap c s) j = covered c s j) := by
  rw [invertMap_eq_mapGuard]
  exact mapGuard_spec c bvc s _ h

/-- Inversion is its own inverse (literally, on the representation). -/
theorem invert_involutive (c : Cfg) (s : State Bool) : invertMap c (invertMap c s) = s := by
  exact invertMap_invertMap c s

/-- **`a op= b`** (in place): `a` outside `b`'s coverage, the pointwise operation inside it;
    coverage = union; the layout is preserved; for every block order on either side. -/
theorem boolMapInPlace_spec (c : Cfg) (a b : State Bool) (op : Bool → Bool → Bool)
    (ha : Inv c bvc a) (hb : Inv c bvc b) :
    Inv c bvc (boolMapInPlace c bvc a b op) ∧
    (∀ p, p < c.npix → abs c bvc (boolMapInPlace c bvc a b op) p
        = denseBoolMap c (abs c bvc a) (abs c bvc b) (covered c b) op p) ∧
    (∀ k, k < c.ncov → covered c (boolMapInPlace c bvc a b op) k = (covered c a k || covered c b k)) := by
  exact boolMapInPlace_spec' c bvc rfl a b op ha hb

/-- **`a op b`** (copying form) yields the same map as the in-place form applied to a copy:
    same layout invariant, same value at every pixel, same coverage mask. -/
theorem boolMapCopy_spec (c : Cfg) (a b : State Bool) (op : Bool → Bool → Bool)
    (ha : Inv c bvc a) (hb : Inv c bvc b) :
    Inv c bvc (boolMapCopy c a b op) ∧
    (∀ p, p < c.npix → abs c bvc (boolMapCopy c a b op) p
        = abs c bvc (boolMapInPlace c bvc a b op) p) ∧
    (∀ k, k < c.ncov → covered c (boolMapCopy c a b op) k
        = covered c (boolMapInPlace c bvc a b op) k) := by
  rw [boolMapCopy_eq_inPlace c bvc rfl a b op ha]
  exact ⟨(boolMapInPlace_spec' c bvc rfl a b op ha hb).1, fun _ _ => rfl, fun _ _ => rfl⟩

/-- commutativity of or / xor values wherever both coverages apply -/
theorem or_comm_on_common (c : Cfg) (a b : State Bool) (ha : Inv c bvc a) (hb : Inv c bvc b)
    (p : Nat) (hp : p < c.npix)
    (hca : covered c a (p >>> c.shift) = true) (hcb : covered c b (p >>> c.shift) = true) :
    abs c bvc (boolMapCopy c a b (· || ·)) p = abs c bvc (boolMapCopy c b a (· || ·)) p ∧
    abs c bvc (boolMapCopy c a b (· != ·)) p = abs c bvc (boolMapCopy c b a (· != ·)) p := by
  rw [boolMapCopy_abs_on c bvc rfl a b _ ha hb hp hcb, boolMapCopy_abs_on c bvc rfl b a _ hb ha hp hca,
    boolMapCopy_abs_on c bvc rfl a b _ ha hb hp hcb, boolMapCopy_abs_on c bvc rfl b a _ hb ha hp hca]
  cases abs c bvc a p <;> cases abs c bvc b p <;> exact ⟨rfl, rfl⟩

/-- De Morgan wherever both coverages apply: `~(a & b) = ~a | ~b`. -/
theorem de_morgan_on_common (c : Cfg) (a b : State Bool) (ha : Inv c bvc a) (hb : Inv c bvc b)
    (p : Nat) (hp : p < c.npix)
    (hca : covered c a (p >>> c.shift) = true) (hcb : covered c b (p >>> c.shift) = true) :
    abs c bvc (invertMap c (boolMapCopy c a b (· && ·))) p
      = abs c bvc (boolMapCopy c (invertMap c a) (invertMap c b) (· || ·)) p := by
  have hk := covpix_lt c p hp
  obtain ⟨hi, _, hcov⟩ := boolMapCopy_spec' c bvc rfl a b (· && ·) ha hb
  have hia := (invert_spec c a ha).1
  have hib := (invert_spec c b hb).1
  have hcib : covered c (invertMap c b) (p >>> c.shift) = true := hcb
  rw [invertMap_abs_on c bvc _ hi hp (by rw [hcov _ hk, hca]; rfl),
    boolMapCopy_abs_on c bvc rfl a b _ ha hb hp hcb,
    boolMapCopy_abs_on c bvc rfl _ _ _ hia hib hp hcib,
    invertMap_abs_on c bvc a ha hp hca, invertMap_abs_on c bvc b hb hp hcb]
  cases abs c bvc a p <;> cases abs c bvc b p <;> rfl

/-- absorption wherever both coverages apply: `a | (a & b) = a`. -/
theorem absorption_on_common (c : Cfg) (a b : State Bool) (ha : Inv c bvc a) (hb : Inv c bvc b)
    (p : Nat) (hp : p < c.npix)
    (hca : covered c a (p >>> c.shift) = true) (hcb : covered c b (p >>> c.shift) = true) :
    abs c bvc (boolMapCopy c a (boolMapCopy c a b (· && ·)) (· || ·)) p = abs c bvc a p := by
  have hk := covpix_lt c p hp
  obtain ⟨hi, _, hcov⟩ := boolMapCopy_spec' c bvc rfl a b (· && ·) ha hb
  rw [boolMapCopy_abs_on c bvc rfl a _ _ ha hi hp (by rw [hcov _ hk, hca]; rfl),
    boolMapCopy_abs_on c bvc rfl a b _ ha hb hp hcb]
  cases abs c bvc a p <;> cases abs c bvc b p <;> rfl

/-- non-vacuity: operands with different block orders and partially overlapping coverage -/
example : Inv ⟨3, 1⟩ bvc ⟨#[4, -2, -2], #[false, false, true, false, false, true]⟩ ∧
    Inv ⟨3, 1⟩ bvc ⟨#[2, 2, -4], #[false, false, true, true, true, false]⟩ := by decide

end C11
end HS
