/-
  C17 at the driver level: `opMoc` / `opMocread` (Model/Dispatch.lean) — helper lemmas for the
  driver part of Props/C17.lean.

  Part 1: sorted duplicate-free lists are determined by their members; the `valid` answer.
  Part 2: core additions: the UNIQ coding is injective, the writer does not depend on the listing
          order of the pixels, no four sibling cells are written, the file's maximum order.
  Part 3: `opMoc` as an equation.
  Part 4: `opMocread` as an equation; the map it binds.
  Part 5: counting: one pixel read stands for `4^(spord - mo)` valid pixels.
-/
import HealSparse.Lemmas.WFWorld
import HealSparse.Lemmas.ApiRanges
import HealSparse.Lemmas.ApiDegrade
import HealSparse.Lemmas.Moc
import HealSparse.Props.C02
namespace HS
namespace ApiMoc

open C02 (validSet)

/-! ### Part 1: sorted lists -/

/-- a strictly sorted list is determined by its members -/
theorem sorted_ext {α : Type} {lt : α → α → Prop} (asymm : ∀ a b, lt a b → lt b a → False) :
    ∀ {l₁ l₂ : List α}, l₁.Pairwise lt → l₂.Pairwise lt → (∀ x, x ∈ l₁ ↔ x ∈ l₂) → l₁ = l₂
  | [], [], _, _, _ => rfl
  | [], b :: _, _, _, h => by have := (h b).2 (List.mem_cons_self ..); cases this
  | a :: _, [], _, _, h => by have := (h a).1 (List.mem_cons_self ..); cases this
  | a :: t₁, b :: t₂, h₁, h₂, h => by
    have p₁ := List.pairwise_cons.1 h₁
    have p₂ := List.pairwise_cons.1 h₂
    have hab : a = b := by
      rcases List.mem_cons.1 ((h a).1 (List.mem_cons_self ..)) with e | ha
      · exact e
      · rcases List.mem_cons.1 ((h b).2 (List.mem_cons_self ..)) with e | hb
        · exact e.symm
        · exact (asymm a b (p₁.1 b hb) (p₂.1 a ha)).elim
    subst hab
    congr 1
    refine sorted_ext asymm p₁.2 p₂.2 fun x => ⟨fun hx => ?_, fun hx => ?_⟩
    · rcases List.mem_cons.1 ((h x).1 (List.mem_cons_of_mem _ hx)) with e | hx'
      · subst e; exact (asymm _ _ (p₁.1 x hx) (p₁.1 x hx)).elim
      · exact hx'
    · rcases List.mem_cons.1 ((h x).2 (List.mem_cons_of_mem _ hx)) with e | hx'
      · subst e; exact (asymm _ _ (p₂.1 x hx) (p₂.1 x hx)).elim
      · exact hx'

theorem sorted_ext_nat {l₁ l₂ : List Nat} (h₁ : l₁.Pairwise (· < ·)) (h₂ : l₂.Pairwise (· < ·))
    (h : ∀ x, x ∈ l₁ ↔ x ∈ l₂) : l₁ = l₂ :=
  sorted_ext (fun a b h1 h2 => by omega) h₁ h₂ h

theorem sorted_ext_int {l₁ l₂ : List Int} (h₁ : l₁.Pairwise (· < ·)) (h₂ : l₂.Pairwise (· < ·))
    (h : ∀ x, x ∈ l₁ ↔ x ∈ l₂) : l₁ = l₂ :=
  sorted_ext (fun a b h1 h2 => by omega) h₁ h₂ h

/-- sorting a duplicate-free list of integers gives a strictly ascending list -/
theorem mergeSort_strict {l : List Int} (hnd : l.Nodup) :
    (l.mergeSort (· ≤ ·)).Pairwise (· < ·) := by
  have hle : (l.mergeSort (fun a b => decide (a ≤ b))).Pairwise (fun a b => decide (a ≤ b) = true) :=
    List.pairwise_mergeSort (fun a b c h1 h2 => by simp at *; omega)
      (fun a b => by simp; omega) l
  have hnd' : (l.mergeSort (fun a b => decide (a ≤ b))).Nodup :=
    (List.mergeSort_perm l _).nodup_iff.2 hnd
  exact (hle.and hnd').imp fun ⟨h1, h2⟩ => by simp at h1; omega

section vs
variable {V : Type} [DecidableEq V]

omit [DecidableEq V] in
theorem validSet_sorted (c : Cfg) (vc : VCfg V) (s : State V) :
    (validSet c vc s).Pairwise (· < ·) :=
  List.Pairwise.sublist List.filter_sublist List.pairwise_lt_range

omit [DecidableEq V] in
theorem mem_validSet {c : Cfg} {vc : VCfg V} {s : State V} {p : Nat} :
    p ∈ validSet c vc s ↔ p < c.npix ∧ vc.valid (abs c vc s p) = true := by
  unfold validSet
  rw [List.mem_filter, List.mem_range]

/-- **the `valid` answer**: `valid_pixels`, sorted, is the ascending list of the valid pixels of
    the dense view, whatever the block order -/
theorem sorted_validPixels {c : Cfg} {vc : VCfg V} {s : State V} (h : Inv c vc s)
    (hv : vc.valid vc.sentinel = false) :
    ∃ l, validPixels c vc s = some l ∧
      l.mergeSort (· ≤ ·) = (validSet c vc s).map fun p => ((p : Nat) : Int) := by
  obtain ⟨l, hl, hperm⟩ := C02.validPixels_spec c vc s h hv
  refine ⟨l, hl, ?_⟩
  have hsorted : ((validSet c vc s).map fun p => ((p : Nat) : Int)).Pairwise (· < ·) := by
    rw [List.pairwise_map]
    exact (validSet_sorted c vc s).imp fun h => by omega
  have hnd : l.Nodup := hperm.nodup_iff.2 (hsorted.imp fun h => by omega)
  refine sorted_ext_int (mergeSort_strict hnd) hsorted fun x => ?_
  rw [(List.mergeSort_perm l _).mem_iff, hperm.mem_iff]

end vs

/-! ### Part 2: core additions -/

/-- **the UNIQ coding is injective**, for every order (the model's arithmetic is unbounded) -/
theorem uniqOf_inj {o o' p p' : Nat} (h : p < 12 * 4 ^ o) (h' : p' < 12 * 4 ^ o')
    (e : uniqOf o p = uniqOf o' p') : o = o' ∧ p = p' := by
  have ho : o = o' := by rw [← uniqOrder_uniqOf h, e, uniqOrder_uniqOf h']
  refine ⟨ho, ?_⟩
  rw [← uniqIndex_uniqOf h, e, uniqIndex_uniqOf h']

theorem full_congr {P P' : List Nat} (h : ∀ x, x ∈ P ↔ x ∈ P') (e q : Nat) :
    Full P e q ↔ Full P' e q := by
  unfold Full
  exact ⟨fun hf x hx => (h x).1 (hf x hx), fun hf x hx => (h x).2 (hf x hx)⟩

theorem isCellOf_congr {P P' : List Nat} (h : ∀ x, x ∈ P ↔ x ∈ P') (R p e : Nat) :
    IsCellOf P R p e ↔ IsCellOf P' R p e := by
  unfold IsCellOf
  rw [full_congr h]
  constructor
  · rintro ⟨h1, h2, h3⟩; exact ⟨h1, h2, fun e' he' hf => h3 e' he' ((full_congr h _ _).2 hf)⟩
  · rintro ⟨h1, h2, h3⟩; exact ⟨h1, h2, fun e' he' hf => h3 e' he' ((full_congr h _ _).1 hf)⟩

/-- **the UNIQ column depends on the SET of pixels only**, not on the order in which
    `valid_pixels` lists them (the block order of the map) -/
theorem mocWrite_congr (n m : Nat) {P P' : List Nat} (hnd : P.Nodup) (hnd' : P'.Nodup)
    (h : ∀ x, x ∈ P ↔ x ∈ P') : mocWrite n m P = mocWrite n m P' := by
  refine sorted_ext_nat (npUnique_sorted _) (npUnique_sorted _) fun u => ?_
  rw [mem_mocWrite_iff n m hnd, mem_mocWrite_iff n m hnd']
  constructor
  · rintro ⟨p, hp, e, he, hu⟩; exact ⟨p, (h p).1 hp, e, (isCellOf_congr h _ _ _).1 he, hu⟩
  · rintro ⟨p, hp, e, he, hu⟩; exact ⟨p, (h p).2 hp, e, (isCellOf_congr h _ _ _).2 he, hu⟩

/-- the MOC of a non-empty pixel list is non-empty; of the empty list, empty -/
theorem mocWrite_eq_nil_iff {n m : Nat} {P : List Nat} (hnd : P.Nodup) :
    mocWrite n m P = [] ↔ P = [] := by
  constructor
  · intro hU
    cases P with
    | nil => rfl
    | cons p t =>
      have := (mem_mocWrite_iff n m hnd _).2 ⟨p, List.mem_cons_self .., _,
        isCellOf_lev hnd (List.mem_cons_self ..) (n - m), rfl⟩
      rw [hU] at this; cases this
  · rintro rfl
    cases hU : mocWrite n m [] with
    | nil => rfl
    | cons u t =>
      obtain ⟨p, hp, _⟩ := (mem_mocWrite_iff n m List.nodup_nil u).1 (by rw [hU]; exact List.mem_cons_self ..)
      cases hp

/-- **no four sibling cells**: above the coverage order (`m < order`), the four children of one
    parent are never all written — they would have been merged into the parent.  (At the
    coverage order itself four siblings may all be present: cells are never coarser than `m`.) -/
theorem moc_no_four_siblings {n m : Nat} {P : List Nat} (hnd : P.Nodup)
    (hlt : ∀ p ∈ P, p < 12 * 4 ^ n) {u : Nat} (hu : u ∈ mocWrite n m P) (ho : m < uniqOrder u) :
    ¬ ∀ k, k < 4 → uniqOf (uniqOrder u) (4 * (uniqIndex u / 4) + k) ∈ mocWrite n m P := by
  intro hall
  by_cases hmn : m ≤ n
  · obtain ⟨_, hon, hi⟩ := moc_order' hmn hnd hlt hu
    obtain ⟨o, ho'⟩ : ∃ o, uniqOrder u = o + 1 := ⟨uniqOrder u - 1, by omega⟩
    refine (moc_maximal' hnd hlt hu).2 o (by omega) (by omega) ?_
    intro x hx
    have h2 : 2 * (uniqOrder u - o) = 2 := by omega
    rw [h2] at hx
    -- the order-`uniqOrder u` ancestor of `x` is one of the four siblings
    have hsh : x >>> (2 * (n - o)) = (x >>> (2 * (n - uniqOrder u))) >>> 2 := by
      rw [shr_shr]; congr 1; omega
    rw [hsh, Nat.shiftRight_eq_div_pow, Nat.shiftRight_eq_div_pow _ 2] at hx
    have h4 : (2 : Nat) ^ 2 = 4 := rfl
    rw [h4] at hx
    let y := x >>> (2 * (n - uniqOrder u))
    have hy : y / 4 = uniqIndex u / 4 := hx
    have hk : y % 4 < 4 := Nat.mod_lt _ (by decide)
    have hyk : y = 4 * (uniqIndex u / 4) + y % 4 := by
      rw [← hy]; exact (Nat.div_add_mod y 4).symm
    have hpow : 4 ^ uniqOrder u = 4 * 4 ^ o := by rw [ho', Nat.pow_succ, Nat.mul_comm]
    have hylt : y < 12 * 4 ^ uniqOrder u := by
      rw [hpow] at hi ⊢; omega
    have hsib := hall (y % 4) hk
    rw [← hyk] at hsib
    refine (moc_maximal' hnd hlt hsib).1 x ?_
    rw [cellCovers_iff, uniqOrder_uniqOf hylt, uniqIndex_uniqOf hylt]
  · -- `m > n`: the loop does not run and every cell has order `n`
    obtain ⟨p, hp, e, he, rfl⟩ := (mem_mocWrite_iff n m hnd u).1 hu
    have he0 : e = 0 := by have := he.1; omega
    subst he0
    rw [uniqOrder_cellU (hlt p hp) (by omega)] at ho
    omega

theorem foldl_max_mem (l : List Nat) (a : Nat) : l.foldl max a = a ∨ l.foldl max a ∈ l := by
  induction l generalizing a with
  | nil => exact .inl rfl
  | cons y t ih =>
    rw [List.foldl_cons]
    rcases ih (max a y) with h | h
    · rw [h]
      by_cases hay : y ≤ a
      · exact .inl (by omega)
      · exact .inr (by rw [show max a y = y by omega]; exact List.mem_cons_self ..)
    · exact .inr (List.mem_cons_of_mem _ h)

/-- **the order the reader chooses**: the largest order among the cells of the file (0 for an
    empty file) — attained by some cell of a non-empty file -/
theorem mocRead_fst_attained {U : List Nat} (hU : U ≠ []) : ∃ u ∈ U, uniqOrder u = (mocRead U).1 := by
  unfold mocRead
  rw [mocReadWith_fst]
  rcases foldl_max_mem (U.map uniqOrder) 0 with h | h
  · cases U with
    | nil => exact absurd rfl hU
    | cons u t =>
      refine ⟨u, List.mem_cons_self .., ?_⟩
      have := (foldl_max_ge ((u :: t).map uniqOrder) 0).2 (uniqOrder u) (by simp)
      omega
  · obtain ⟨u, hu, he⟩ := List.mem_map.1 h
    exact ⟨u, hu, he⟩

theorem mocRead_nil : mocRead [] = (0, []) := by
  simp [mocRead, mocReadWith, npUnique, dedupLoop]

/-! ### Part 3: `opMoc` -/

/-- the UNIQ column `moc` writes for a map: `_write_moc_fits` between the coverage order and the
    sparse order on the valid pixels (ascending; any listing order gives the same column) -/
def mocOf (m : MapObj) : List Nat := mocWrite m.spord m.covord (validSet m.c m.vc m.st)

theorem validSet_nodup (m : MapObj) : (validSet m.c m.vc m.st).Nodup :=
  (validSet_sorted m.c m.vc m.st).imp fun h => by omega

theorem validSet_lt (m : MapObj) (hwf : m.WF) : ∀ p ∈ validSet m.c m.vc m.st, p < 12 * 4 ^ m.spord := by
  intro p hp
  have := (mem_validSet.1 hp).1
  rw [show m.c = cfgOf m.covord m.spord from rfl, ApiDegrade.cfgOf_npix hwf.1] at this
  exact this

/-- **`moc n f=F`** on a map the world resolves under `n`: ValueError on a map without valid
    pixels (`np.max` of an empty array), else the UNIQ column `mocOf m` is stored under `F`
    (replacing an earlier file of that name) and printed -/
theorem opMoc_eq {w : World} {a : Args} {n : String} {rest : List String} {m : MapObj}
    (ha : a.pos = n :: rest) (hg : w.get? n = some m) (hwf : m.WF) (hv : m.BlankInvalid) :
    opMoc w a =
      if validSet m.c m.vc m.st = [] then (w, errLine .value)
      else ({ w with mocs := (a.getD "f" "f", mocOf m) ::
                w.mocs.filter (·.1 != a.getD "f" "f") }, showNats (mocOf m)) := by
  unfold opMoc withMap
  rw [ha]
  simp only [hg]
  rw [hwf.2.validPixels_eq hv]
  simp only
  generalize hL : (validCells m.vc m.st).map (pixOfCell m.c m.st) = L
  have hmem : ∀ p, p ∈ L ↔ p ∈ validSet m.c m.vc m.st := by
    intro p; rw [← hL, hwf.2.mem_validCells_map hv p, mem_validSet]
  have hnd : L.Nodup := by rw [← hL]; exact hwf.2.nodup_validCells_map hv
  have hcast : (L.map fun p => ((p : Nat) : Int)).map Int.toNat = L := by
    rw [List.map_map]
    conv => rhs; rw [← List.map_id L]
    apply List.map_congr_left
    intro p _
    simp
  have hemp : (L.map fun p => ((p : Nat) : Int)).isEmpty = true ↔ validSet m.c m.vc m.st = [] := by
    rw [List.isEmpty_iff, List.map_eq_nil_iff]
    constructor
    · intro h
      rw [h] at hmem
      exact List.eq_nil_iff_forall_not_mem.2 fun p hp => by have := (hmem p).2 hp; cases this
    · intro h
      rw [h] at hmem
      exact List.eq_nil_iff_forall_not_mem.2 fun p hp => by have := (hmem p).1 hp; cases this
  by_cases he : validSet m.c m.vc m.st = []
  · rw [if_pos (hemp.2 he), if_pos he]
  · rw [if_neg (fun h => he (hemp.1 h)), if_neg he, hcast]
    have : mocWrite m.spord m.covord L = mocOf m :=
      mocWrite_congr _ _ hnd (validSet_nodup m) hmem
    rw [this]

/-! ### Part 4: `opMocread` -/

/-- cell parameters of a boolean map with the default sentinel `False` -/
def boolVC : VCfg Val := ⟨.bool false, (Kind.plain .bool).valid (.bool false)⟩

/-- `make_empty(nside_coverage, 2**max_order, dtype=bool)` -/
def emptyBool (c mo : Nat) : MapObj :=
  { covord := c, spord := mo, kind := .plain .bool, sent := .bool false,
    st := makeEmpty (cfgOf c mo) boolVC [] }

theorem apiMakeEmpty_bool (c mo : Nat) :
    apiMakeEmpty c mo (.plain .bool) none [] =
      if mo < c then .error .value else .ok (emptyBool c mo) := by
  unfold apiMakeEmpty
  by_cases h : mo < c
  · rw [if_pos h, if_pos h]; rfl
  · rw [if_neg h, if_neg h]
    rfl

/-- the map `mocread covord=c` builds from the UNIQ column `U`: boolean, sentinel `False`, coverage
    order `c`, sparse order = the largest order among the cells, `True` at every pixel of every
    cell expanded to that order -/
def mocMap (c : Nat) (U : List Nat) : MapObj :=
  { emptyBool c (mocRead U).1 with
    st := updatePix (cfgOf c (mocRead U).1) boolVC (makeEmpty (cfgOf c (mocRead U).1) boolVC [])
      none (fun _ (w : Val) => w) ((mocRead U).2.map fun p => (p, Val.bool true)) false }

theorem mocRead_snd_sorted (U : List Nat) : (mocRead U).2.Pairwise (· < ·) :=
  npUnique_sorted _

theorem mocRead_snd_nodup (U : List Nat) : (mocRead U).2.Nodup :=
  (mocRead_snd_sorted U).imp fun h => by omega

/-- the pixels read are in range when every cell of the file is a cell of the sphere -/
theorem mocRead_snd_lt {U : List Nat} (hU : ∀ u ∈ U, uniqIndex u < 12 * 4 ^ uniqOrder u) :
    ∀ y ∈ (mocRead U).2, y < 12 * 4 ^ (mocRead U).1 := by
  intro y hy
  obtain ⟨u, hu, h⟩ := (mem_mocRead_snd U y).1 hy
  have hle := uniqOrder_le_mocRead_fst hu
  have hi := hU u hu
  rw [← h, Nat.shiftRight_eq_div_pow, Nat.div_lt_iff_lt_mul (Nat.two_pow_pos _), ← four_pow,
    Nat.mul_assoc, ← Nat.pow_add] at hi
  rw [show uniqOrder u + ((mocRead U).1 - uniqOrder u) = (mocRead U).1 by omega] at hi
  exact hi

/-- `map[np.sort(pixels)] = True` on the empty boolean map succeeds for a duplicate-free in-range
    pixel list -/
theorem apiUpdate_true {c mo : Nat} (hle : c ≤ mo) {ps : List Nat} (hnd : ps.Nodup)
    (hlt : ∀ y ∈ ps, y < 12 * 4 ^ mo) :
    apiUpdate (emptyBool c mo) "replace" ps (some [.bool true]) true =
      .ok { emptyBool c mo with
        st := updatePix (cfgOf c mo) boolVC (makeEmpty (cfgOf c mo) boolVC []) none
          (fun _ (w : Val) => w) (ps.map fun p => (p, Val.bool true)) false } := by
  rw [ApiRanges.apiUpdate_eq]
  unfold ApiRanges.apiUpdateSpec
  have hfe : ApiRanges.frontErr (emptyBool c mo) "replace" (some [Val.bool true]).isNone = none := by
    unfold ApiRanges.frontErr
    simp
  simp only [hfe]
  by_cases hemp : ps = []
  · subst hemp
    rfl
  · have h1 : ps.isEmpty = false := by simpa using hemp
    have h2 : ¬ ps.eraseDups.length < ps.length := by
      rw [eraseDups_length_lt_iff]; exact fun h => h hnd
    have h3 : (ps.any fun x => decide (x ≥ (emptyBool c mo).npix)) = false := by
      rw [List.any_eq_false]
      intro y hy
      have : (emptyBool c mo).npix = 12 * 4 ^ mo := ApiDegrade.cfgOf_npix hle
      rw [this]
      have := hlt y hy
      simpa using this
    simp only [h1, Bool.false_eq_true, if_false, Option.getD_some, List.all_cons, List.all_nil,
      Bool.and_true, h3]
    rw [if_neg (by simp [emptyBool, valMatchesKind]), if_neg (by simp [h2]), if_neg (by simp),
      if_neg (by simp [emptyBool]), if_neg (by simp)]
    congr 2

/-- **`mocread r=R f=F covord=c`** on a stored UNIQ column `U` whose cells are cells of the
    sphere: ValueError when `c` exceeds the largest order among the cells (`make_empty` refuses
    `nside_coverage > nside_sparse`), else `R` is bound to `mocMap c U` and the answer is `ok` -/
theorem opMocread_eq {w : World} {a : Args} {U : List Nat} {c : Nat}
    (hf : (w.mocs.find? (·.1 == a.getD "f" "f")).map (·.2) = some U)
    (hc : a.nat? "covord" = some c) (hU : ∀ u ∈ U, uniqIndex u < 12 * 4 ^ uniqOrder u) :
    opMocread w a =
      if (mocRead U).1 < c then (w, errLine .value)
      else (w.bind (a.getD "r" "tmp") (mocMap c U), "ok") := by
  unfold opMocread
  simp only [hf, hc]
  rw [apiMakeEmpty_bool]
  by_cases h : (mocRead U).1 < c
  · rw [if_pos h, if_pos h]
  · rw [if_neg h, if_neg h]
    simp only
    rw [apiUpdate_true (by omega) (mocRead_snd_nodup U) (mocRead_snd_lt hU)]
    rfl

/-- without a stored file of that name, or without `covord=`, nothing happens -/
theorem opMocread_none {w : World} {a : Args}
    (h : (w.mocs.find? (·.1 == a.getD "f" "f")).map (·.2) = none ∨ a.nat? "covord" = none) :
    opMocread w a = (w, "bad-op:no-such-map") := by
  unfold opMocread
  rcases h with h | h
  · rw [h]
  · rw [h]
    cases (w.mocs.find? (·.1 == a.getD "f" "f")).map (·.2) <;> rfl

/-- the map read: well formed, well typed; pixel `y` (at the file's maximum order) reads `True`
    exactly when it is one of the pixels the reader lists, `False` otherwise -/
theorem mocMap_spec {c : Nat} {U : List Nat} (hle : c ≤ (mocRead U).1)
    (hU : ∀ u ∈ U, uniqIndex u < 12 * 4 ^ uniqOrder u) :
    (mocMap c U).Ok ∧
    (∀ y, y < 12 * 4 ^ (mocRead U).1 →
      (mocMap c U).abs y = if y ∈ (mocRead U).2 then .bool true else .bool false) ∧
    (∀ y, y < 12 * 4 ^ (mocRead U).1 →
      ((mocMap c U).vc.valid ((mocMap c U).abs y) = true ↔ y ∈ (mocRead U).2)) := by
  have hnp : (cfgOf c (mocRead U).1).npix = 12 * 4 ^ (mocRead U).1 := ApiDegrade.cfgOf_npix hle
  obtain ⟨f1, f2, _⟩ := ApiDegrade.replace_fresh (cfgOf c (mocRead U).1) boolVC (mocRead U).2
    (fun _ => Val.bool true) (mocRead_snd_nodup U) (by rw [hnp]; exact mocRead_snd_lt hU)
  have habs : ∀ y, y < 12 * 4 ^ (mocRead U).1 →
      (mocMap c U).abs y = if y ∈ (mocRead U).2 then .bool true else .bool false := by
    intro y hy
    exact f2 y (by rw [hnp]; exact hy)
  refine ⟨⟨⟨hle, f1⟩, rfl, trivial⟩, habs, ?_⟩
  intro y hy
  rw [habs y hy]
  by_cases hm : y ∈ (mocRead U).2
  · rw [if_pos hm]; exact ⟨fun _ => hm, fun _ => rfl⟩
  · rw [if_neg hm]; exact ⟨fun h => (by cases h), fun h => absurd h hm⟩

/-! ### Part 5: counting -/

theorem length_eq_mul (d K : Nat) (S : List Nat) (hS : S.Nodup) :
    ∀ (P : List Nat), (∀ p ∈ P, p >>> (2 * d) ∈ S) → (∀ y ∈ S, cnt P d y = K) →
      P.length = S.length * K := by
  induction S with
  | nil =>
    intro P hP _
    cases P with
    | nil => simp
    | cons p t => have := hP p (List.mem_cons_self ..); cases this
  | cons y S' ih =>
    intro P hP hc
    have hy : y ∉ S' := (List.nodup_cons.1 hS).1
    have hS' := (List.nodup_cons.1 hS).2
    let P' := P.filter fun p => !(p >>> (2 * d) == y)
    have hP' : ∀ p ∈ P', p >>> (2 * d) ∈ S' := by
      intro p hp
      obtain ⟨h1, h2⟩ := List.mem_filter.1 hp
      rcases List.mem_cons.1 (hP p h1) with e | h
      · simp [e] at h2
      · exact h
    have hc' : ∀ y' ∈ S', cnt P' d y' = K := by
      intro y' hy'
      rw [← hc y' (List.mem_cons_of_mem _ hy')]
      unfold cnt
      rw [List.countP_filter]
      apply List.countP_congr
      intro p _
      have hne : y' ≠ y := fun e => hy (e ▸ hy')
      constructor
      · intro h; simp at h; simp [h.1]
      · intro h
        simp at h
        simp [h, hne]
    have h1 := ih hS' P' hP' hc'
    have h2 : P.length = cnt P d y + P'.length := by
      unfold cnt
      rw [List.length_eq_countP_add_countP (fun p => p >>> (2 * d) == y) (l := P),
        List.countP_eq_length_filter (p := fun p => decide ¬ ((p >>> (2 * d) == y) = true))]
      congr 2
      apply List.filter_congr
      intro p _
      cases (p >>> (2 * d) == y) <;> rfl
    rw [h2, hc y (List.mem_cons_self ..), h1, List.length_cons, Nat.succ_mul]
    omega

/-- the pixels `mocread` marks, as the ascending list of valid pixels of the map it builds -/
theorem validSet_mocMap {c : Nat} {U : List Nat} (hle : c ≤ (mocRead U).1)
    (hU : ∀ u ∈ U, uniqIndex u < 12 * 4 ^ uniqOrder u) :
    validSet (mocMap c U).c (mocMap c U).vc (mocMap c U).st = (mocRead U).2 := by
  obtain ⟨_, _, hv⟩ := mocMap_spec hle hU
  refine sorted_ext_nat (validSet_sorted _ _ _) (mocRead_snd_sorted U) fun y => ?_
  have hnp : (mocMap c U).c.npix = 12 * 4 ^ (mocRead U).1 := ApiDegrade.cfgOf_npix hle
  rw [mem_validSet, hnp]
  constructor
  · rintro ⟨hy, h⟩; exact (hv y hy).1 h
  · intro hy
    have hlt := mocRead_snd_lt hU y hy
    exact ⟨hlt, (hv y hlt).2 hy⟩

/-- **one pixel read stands for `4^(n - mo)` valid pixels**: the number of valid pixels of the
    source is the number of pixels read times `4^(n - mo)` -/
theorem length_read_write {n m : Nat} {P : List Nat} (hnd : P.Nodup)
    (hlt : ∀ p ∈ P, p < 12 * 4 ^ n) :
    P.length = (mocRead (mocWrite n m P)).2.length * 4 ^ (n - (mocRead (mocWrite n m P)).1) := by
  obtain ⟨_, hrt⟩ := moc_read_write' (m := m) hnd hlt
  refine length_eq_mul _ _ _ (mocRead_snd_nodup _) P (fun p hp => (hrt p).1 hp) ?_
  intro y hy
  rw [cnt_eq_iff_full hnd]
  intro x hx
  exact (hrt x).2 (by rw [hx]; exact hy)

/-! ### the world around the two operations -/

theorem get?_mocs (w : World) (M : List (String × List Nat)) (n : String) :
    ({ w with mocs := M } : World).get? n = w.get? n := rfl

theorem find_mocs_cons (F : String) (U : List Nat) (M : List (String × List Nat)) :
    (((F, U) :: M).find? (·.1 == F)).map (·.2) = some U := by
  simp

/-- a freshly bound owning map is what the name resolves to -/
theorem get?_bind_self (w : World) (R : String) (mm : MapObj) (hv : mm.view = none) :
    (w.bind R mm).get? R = some mm := by
  unfold World.bind World.get? World.raw?
  simp only [List.find?_cons, beq_self_eq_true, Option.map_some]
  cases mm
  cases hv
  rfl

/-- **`valid n`** answers the ascending list of the valid pixels of the dense view -/
theorem opValid_eq {w : World} {a : Args} {n : String} {rest : List String} {m : MapObj}
    (ha : a.pos = n :: rest) (hg : w.get? n = some m) (hwf : m.WF) (hv : m.BlankInvalid) :
    opValid w a = (w, showList toString ((validSet m.c m.vc m.st).map fun p => ((p : Nat) : Int))) := by
  unfold opValid withMap
  rw [ha]
  simp only [hg]
  obtain ⟨l, hl, hs⟩ := sorted_validPixels hwf.2 hv
  rw [hl]
  simp only
  rw [← hs]

/-- **`nvalid n`** on an owning map that is not bit-packed and has no cached count -/
theorem opNvalid_eq {w : World} {a : Args} {n : String} {rest : List String} {m : MapObj}
    (ha : a.pos = n :: rest) (hg : w.get? n = some m) (hc : m.cache = none)
    (hk : m.kind ≠ .packed) (hwf : m.WF) (hv : m.BlankInvalid) :
    (opNvalid w a).2 = toString (validSet m.c m.vc m.st).length := by
  unfold opNvalid withMap
  rw [ha]
  simp only [hg, hc]
  have hkp : (m.kind == Kind.packed) = false := by simpa using hk
  rw [hkp, Bool.and_false]
  simp only [Bool.false_eq_true, if_false]
  rw [C02.nValid_eq m.c m.vc m.st hwf.2 hv]
  split <;> rfl

end ApiMoc
end HS
