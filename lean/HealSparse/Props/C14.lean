/-
  C14 — record-array maps keep all fields under the validity of the primary field.
  Property theorems only (helpers in HealSparse/Lemmas).  Record cells are abstract:
  a cell type `R` with a field lens (`get`, `set`).
-/
import HealSparse.Lemmas.Core
import HealSparse.Lemmas.Coverage
import HealSparse.Lemmas.ScalarOps
import HealSparse.Model.Api
import HealSparse.Props.C04
import HealSparse.Props.C01
import HealSparse.Props.C12
import HealSparse.Lemmas.RecArray
namespace HS
namespace C14

/-- a field of a record cell -/
structure Lens (R F : Type) where
  get : R → F
  set : R → F → R
  get_set : ∀ r x, get (set r x) = x
  set_get : ∀ r, set r (get r) = r
  set_set : ∀ r x y, set (set r x) y = set r y

variable {R F : Type} [DecidableEq R] [DecidableEq F]

/-- the storage a field view sees: the field column, same coverage index (shared buffer) -/
def viewState (l : Lens R F) (s : State R) : State F := ⟨s.cov, s.sp.map l.get⟩

/-- writing a (same-size) field column back into the records -/
def writeBack (l : Lens R F) (s : State R) (col : Array F) : State R :=
  ⟨s.cov, s.sp.mapIdx fun j r => l.set r (rd col j (l.get r))⟩

/-- On the concrete cell type: a record pixel is valid iff its PRIMARY field differs from the sentinel. -/
theorem rec_valid_iff_primary (fs : List DT) (pr : Nat) (sent : Val) (l : List (Int × Nat)) :
    (Kind.recd fs pr).valid sent (.recd l) = (l.getD pr (0, 0) != sent.numD) := by
  rfl

/-- A whole-record read returns every field exactly as last written (replace with distinct
    pixels): the cell written is the cell read, for every block layout and growth order. -/
theorem replace_reads_back (c : Cfg) (vc : VCfg R) (s : State R) (pv : List (Nat × R)) (na : Bool)
    (h : Inv c vc s) (hL : ∀ qw ∈ pv, qw.1 < c.npix) (hnd : (pv.map (·.1)).Nodup)
    (p : Nat) (v : R) (hp : (p, v) ∈ pv) (hc : na = true → covered c s (p >>> c.shift) = true) :
    abs c vc (updatePix c vc s none (fun _ (w : R) => w) pv na) p = v := by
  have hL' : ∀ qw ∈ stageList false pv, qw.1 < c.npix := by
    intro qw hq
    obtain ⟨pw, hpw, he⟩ := stageList_fst_mem false pv qw hq
    rw [← he]; exact hL pw hpw
  have hpl : p < c.npix := hL (p, v) hp
  show abs c vc (updateCore c vc s (stageOp id fun _ (w : R) => w) (stageList false pv) na) p = v
  rw [C01.updateCore_refines c vc s _ _ na h hL' p hpl]
  unfold denseUpdate
  have hg : (na && !covered c s (p >>> c.shift)) = false := by
    cases na with
    | false => rfl
    | true => rw [hc rfl]; rfl
  rw [hg]
  exact denseFold_replace_nodup pv hnd p v hp _

/-- `get_single(field, copy=True)`: the field's values at exactly the parent's valid pixels,
    the field map's sentinel everywhere else; well-formed, same coverage. -/
theorem field_copy_spec (c : Cfg) (vc : VCfg R) (vcF : VCfg F) (l : Lens R F) (s : State R)
    (h : Inv c vc s) (hv : vc.valid vc.sentinel = false) :
    Inv c vcF (astypeMap vc s l.get vcF.sentinel) ∧
    (∀ p, p < c.npix → abs c vcF (astypeMap vc s l.get vcF.sentinel) p
        = if vc.valid (abs c vc s p) then l.get (abs c vc s p) else vcF.sentinel) := by
  have := C12.astype_spec c vc vcF s l.get h hv
  exact ⟨this.1, this.2.1⟩

/-- A field view reads the stored field of every pixel; it is a well-formed map over the
    field type whose sentinel is the blank record's field; pixels holding the blank record
    (never written, or cleared with None) are invalid in the view. -/
theorem field_view_spec (c : Cfg) (vc : VCfg R) (vcF : VCfg F) (l : Lens R F) (s : State R)
    (h : Inv c vc s) (hblank : l.get vc.sentinel = vcF.sentinel) :
    Inv c vcF (viewState l s) ∧
    (∀ p, p < c.npix → abs c vcF (viewState l s) p = l.get (abs c vc s p)) ∧
    (∀ k, covered c (viewState l s) k = covered c s k) := by
  exact ⟨inv_mapCells c vc vcF s l.get h hblank,
    fun p hp => abs_mapCells c vc vcF s l.get h p hp,
    fun k => mapCells_covered c s l.get k⟩

/-- **Writes through a view** (addressed pixels inside the coverage, as the view guard
    ensures): the parent keeps its layout, exactly the viewed field of exactly the addressed
    pixels changes — to the operation folded over the values written — and every other field
    and every other pixel is unchanged. -/
theorem view_write_spec {W : Type} (c : Cfg) (vc : VCfg R) (vcF : VCfg F) (l : Lens R F) (s : State R)
    (g : F → W → F) (L : List (Nat × W)) (na : Bool)
    (h : Inv c vc s) (hblank : l.get vc.sentinel = vcF.sentinel)
    (hL : ∀ qw ∈ L, qw.1 < c.npix ∧ covered c s (qw.1 >>> c.shift) = true) :
    let v' := updateCore c vcF (viewState l s) g L na
    v'.cov = s.cov ∧ v'.sp.size = s.sp.size ∧
    Inv c vc (writeBack l s v'.sp) ∧
    (∀ p, p < c.npix → abs c vc (writeBack l s v'.sp) p
        = l.set (abs c vc s p) (denseFold g L p (l.get (abs c vc s p)))) := by
  exact writeBack_spec l.get l.set l.set_get c vc vcF s g L na h hblank hL

/-- pixels not addressed are untouched in every field -/
theorem view_write_frame {W : Type} (c : Cfg) (vc : VCfg R) (vcF : VCfg F) (l : Lens R F) (s : State R)
    (g : F → W → F) (L : List (Nat × W)) (na : Bool)
    (h : Inv c vc s) (hblank : l.get vc.sentinel = vcF.sentinel)
    (hL : ∀ qw ∈ L, qw.1 < c.npix ∧ covered c s (qw.1 >>> c.shift) = true)
    (p : Nat) (hp : p < c.npix) (hnot : ∀ qw ∈ L, qw.1 ≠ p) :
    abs c vc (writeBack l s (updateCore c vcF (viewState l s) g L na).sp) p = abs c vc s p := by
  rw [(view_write_spec c vc vcF l s g L na h hblank hL).2.2.2 p hp, denseFold_none g L p _ hnot,
    l.set_get]

/-- **The view guard**: a view whose sentinel is the blank record's field value rejects any
    write that addresses a pixel outside the coverage or holding the blank record (so no new
    valid pixel can be created through it); the parent is not touched by a rejected call. -/
theorem view_guard_rejects (m : MapObj) (op : String) (pix : List Nat) (vals : Option (List Val))
    (single : Bool) (hview : m.view.isSome = true)
    (hbad : ∃ p ∈ pix, p < m.npix ∧ m.abs p = m.sent)
    (r : MapObj) : apiUpdate m op pix vals single ≠ .ok r := by
  obtain ⟨p, hp, _, hab⟩ := hbad
  exact apiUpdate_view_rejects m op pix vals single hview p hp hab r

/-- non-vacuity: a two-field record lens on pairs -/
def pairFst : Lens (Int × Int) Int :=
  ⟨Prod.fst, fun r x => (x, r.2), fun _ _ => rfl, fun _ => rfl, fun _ _ _ => rfl⟩

example : Inv ⟨3, 1⟩ (⟨(-1, -9), fun r => r.1 != -1⟩ : VCfg (Int × Int))
    ⟨#[4, -2, -2], #[(-1, -9), (-1, -9), (7, 1), (-1, -9), (-1, -9), (9, 2)]⟩ := by decide

end C14
end HS
