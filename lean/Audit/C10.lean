import HealSparse.Props.C10
#print axioms HS.C10.same_updateCore
#print axioms HS.C10.same_updateRanges
#print axioms HS.C10.same_queries
#print axioms HS.C10.same_scalarOp
#print axioms HS.C10.same_applyMask
#print axioms HS.C10.same_astype
#print axioms HS.C10.same_boolMap
#print axioms HS.C10.same_invert
#print axioms HS.C10.same_degrade
#print axioms HS.C10.same_upgrade
#print axioms HS.C10.same_multiOp
#print axioms HS.C10.history_interchangeable
