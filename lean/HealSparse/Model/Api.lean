/-
  Map objects of concrete kinds and the front end of `update_values_pix` /
  `get_values_pix` (validation chain in source order, then the generic core).

  Mirrors: HealSparseMap.make_empty (165-258), update_values_pix (475-676, front part),
  get_values_pix (860-918).
-/
import HealSparse.Model.Map
import HealSparse.Model.Value
import HealSparse.Model.Ranges
import HealSparse.Model.ScalarOps
import HealSparse.Model.BoolOps
import HealSparse.Model.WideMask
import HealSparse.Model.MultiOps
namespace HS

inductive Err where
  | value | index | runtime | notImpl | type | bad (msg : String) | inexact
deriving Repr, DecidableEq

def Err.tag : Err → String
  | .value => "ValueError" | .index => "IndexError" | .runtime => "RuntimeError"
  | .notImpl => "NotImplementedError" | .type => "TypeError" | .bad m => "bad-op:" ++ m
  | .inexact => "inexact"

/-- A `HealSparseMap` object of a concrete kind. -/
structure MapObj where
  covord : Nat
  spord  : Nat
  kind   : Kind
  sent   : Val                 -- `_sentinel` (scalar; for records: of the primary field)
  st     : State Val
  cache  : Option Nat := none  -- `_n_valid`
  view   : Option (String × Nat) := none   -- `get_single(copy=False)`: (parent name, field index)
deriving Repr

def cfgOf (covord spord : Nat) : Cfg := ⟨12 * 4 ^ covord, 2 * (spord - covord)⟩

def MapObj.c (m : MapObj) : Cfg := cfgOf m.covord m.spord
def MapObj.vc (m : MapObj) : VCfg Val := ⟨m.kind.blank m.sent, m.kind.valid m.sent⟩
def MapObj.abs (m : MapObj) (p : Nat) : Val := HS.abs m.c m.vc m.st p
def MapObj.npix (m : MapObj) : Nat := m.c.npix

/-- element dtype used by arithmetic / bitwise cell operations -/
def Kind.dt : Kind → DT
  | .plain dt => dt
  | .packed => .bool
  | .wide _ => .int 8 false
  | .recd _ _ => .flt 64

def Kind.isBool : Kind → Bool
  | .plain .bool => true
  | .packed => true
  | _ => false

/-- `is_integer_map` (bool counts as integer; records do not). -/
def Kind.isIntegerMap : Kind → Bool
  | .plain (.int _ _) => true
  | .plain .bool => true
  | .packed => true
  | .wide _ => true
  | _ => false

def Val.isZero : Val → Bool
  | .num n _ => n == 0
  | .bool b => !b
  | .bytes bs => bs.all (· == 0)
  | _ => false

/-- `check_sentinel` for an explicitly given sentinel. -/
def checkSentinel (dt : DT) (s : Option Val) : Except Err Val :=
  match s with
  | none => .ok dt.defaultSentinel
  | some v =>
    match dt, v with
    | .flt _, .num n e => .ok (.num n e)
    | .int b sg, .num n 0 =>
        if wrapInt b sg n == n then .ok (.num n 0) else .error .value
    | .bool, .bool x => .ok (.bool x)
    | _, _ => .error .value

/-- `HealSparseMap.make_empty`. -/
def apiMakeEmpty (covord spord : Nat) (kind : Kind) (sentinel : Option Val) (covPix : List Nat) :
    Except Err MapObj := do
  if spord < covord then throw .value
  let c := cfgOf covord spord
  -- `cov_pixels`: repeats dropped keeping the order (after the `fix:` commit); an index past
  -- the coverage map is numpy's IndexError
  let covPix := covPix.eraseDups
  if covPix.any (· ≥ c.ncov) then throw .index
  let sent ← match kind with
    | .wide _ =>
        match sentinel with
        | none => pure (Val.num 0 0)
        | some v => if v.isZero then pure (Val.num 0 0) else throw .value
    | .packed =>
        let s ← checkSentinel .bool sentinel
        if c.nfine % 8 != 0 then throw .value
        if s == .bool true then throw .notImpl
        pure s
    | .plain dt => checkSentinel dt sentinel
    | .recd fs pr =>
        match fs[pr]? with
        | none => throw .runtime
        | some dt => checkSentinel dt sentinel
  let vc : VCfg Val := ⟨kind.blank sent, kind.valid sent⟩
  pure { covord, spord, kind, sent, st := makeEmpty c vc covPix }

/-- does a dyadic fit the float format exactly (mantissa width) -/
def fitsFloat (bits : Nat) (x : Int × Nat) : Bool :=
  let y := dyNorm x.1 x.2
  let n := y.1.natAbs
  let rec strip (fuel n : Nat) : Nat :=
    match fuel with
    | 0 => n
    | f + 1 => if n != 0 && n % 2 == 0 then strip f (n / 2) else n
  let m := strip 1100 n
  m < 2 ^ (if bits == 32 then 24 else 53)

/-- float cells of a float map all representable in the map's precision (the exact model
    discards a history as soon as IEEE rounding would occur in an accumulating update) -/
def floatCellsFit (k : Kind) (sp : Array Val) : Bool :=
  match k with
  | .plain (.flt b) => sp.all fun v => match v with
      | .num n e => fitsFloat b (n, e)
      | .poison => false
      | _ => true
  | _ => true

/-- float addition in the map's precision: a sum that IEEE arithmetic would round is `poison` -/
def addExact (dt : DT) (x w : Val) : Val :=
  let r := Val.add dt x w
  match dt, r with
  | .flt b, .num n e => if fitsFloat b (n, e) then r else .poison
  | _, _ => r

/-- The cell operation, optional pre-pass, for `operation` on this map. -/
def cellOp (m : MapObj) (op : String) : (Option (Val → Val)) × (Val → Val → Val) :=
  let dt := m.kind.dt
  match op with
  | "add" =>
    let pre : Option (Val → Val) :=
      if m.sent.isZero then none
      else some fun x => if x == m.sent then m.kind.zeroCell else x
    (pre, addExact dt)
  | "or"  => (none, Val.or dt)
  | "and" => (none, Val.and dt)
  | _     => (none, fun _ w => w)

/-- value used by `None` (clear): sentinel row / the blank record (as in the overflow block;
    after the `fix:` commit) / sentinel -/
def clearValue (m : MapObj) : Val := m.kind.blank m.sent

def valMatchesKind (k : Kind) (v : Val) : Bool :=
  match k, v with
  | .plain .bool, .bool _ => true
  | .packed, .bool _ => true
  | .plain (.int _ _), .num _ 0 => true
  | .plain (.flt _), .num _ _ => true
  | .wide n, .bytes bs => bs.length == n
  | .recd fs _, .recd vs => vs.length == fs.length
  | _, _ => false

/-- `update_values_pix(pixels, values, operation=op)`.
    `vals = none` ⇔ `values=None`; `single` ⇔ a scalar (or length-1 array) value. -/
def apiUpdate (m : MapObj) (op : String) (pix : List Nat) (vals : Option (List Val))
    (single : Bool) (rawUnique : Option Bool := none) : Except Err MapObj := do
  let m := { m with cache := none }                       -- line 508
  let (vals, single, noAppend) ← match vals with
    | none =>
        if op != "replace" then throw .value
        pure ([clearValue m], true, true)
    | some vs => pure (vs, single || vs.length == 1, false)
  if op != "replace" then
    if m.kind.isBool then
      if op != "or" && op != "and" then throw .notImpl
    else if op == "or" || op == "and" then
      if !(m.kind.isIntegerMap && m.sent.isZero) then throw .value
    else if op == "add" then
      match m.kind with
      | .recd _ _ => throw .value
      | _ => pure ()
    else throw .value
  if pix.isEmpty then return m
  if !(vals.all (valMatchesKind m.kind)) then throw .value
  if op == "replace" then
    match rawUnique with
    | some ok => if !ok then throw .value
    | none => if pix.eraseDups.length < pix.length then throw .value
  if !single && vals.length != pix.length then throw .value
  if pix.any (· ≥ m.npix) then throw .index
  -- line 618: a view cannot create new valid pixels
  if m.view.isSome && pix.any (fun p => m.abs p == m.sent) then throw .runtime
  let pv : List (Nat × Val) :=
    if single then pix.map (·, vals.headD (.num 0 0)) else pix.zip vals
  let (pre, f) := cellOp m op
  let st' := updatePix m.c m.vc m.st pre f pv noAppend
  if op == "add" && !floatCellsFit m.kind st'.sp then throw .inexact
  pure { m with st := st' }

/-- `update_values_pix` with an `(M, 2)` array of half-open pixel ranges.
    `slicePath` ⇔ the total size exceeds `PIXEL_RANGE_THRESHOLD`. -/
def apiUpdateRanges (m : MapObj) (op : String) (R : List (Nat × Nat)) (val : Option Val)
    (slicePath : Bool) : Except Err MapObj := do
  -- line 592: `len(np.unique(pixels)) < len(pixels)` on the raw (M, 2) array
  let rawOk := !((R.flatMap fun ab => [ab.1, ab.2]).eraseDups.length < R.length)
  -- a view always takes the explicit path, where the guard against new pixels is
  -- (after the `fix:` commit; before it the range routine bypassed the guard)
  if !slicePath || m.view.isSome then
    if R.isEmpty then
      apiUpdate m op [] (val.map fun v => [v]) true
    else
      -- ranges beyond the sphere: IndexError in either path
      if R.any (fun ab => ab.2 > m.npix) then
        let _ ← apiUpdate m op [0] (val.map fun v => [v]) true (some rawOk)
        throw .index
      apiUpdate m op (expand R) (val.map fun v => [v]) true (some rawOk)
  else
    let m := { m with cache := none }
    let (w, noAppend) ← match val with
      | none => if op != "replace" then throw .value else pure (clearValue m, true)
      | some v => pure (v, false)
    if op != "replace" then
      if m.kind.isBool then
        if op != "or" && op != "and" then throw .notImpl
      else if op == "or" || op == "and" then
        if !(m.kind.isIntegerMap && m.sent.isZero) then throw .value
      else if op == "add" then
        match m.kind with
        | .recd _ _ => throw .value
        | _ => pure ()
      else throw .value
    if R.isEmpty then return m
    if !(valMatchesKind m.kind w) then throw .value
    if op == "replace" && !rawOk then throw .value
    -- the range routine drops empty rows on entry (after the `fix:` commit: an empty row selects
    -- nothing, allocates nothing, and `[[npix, npix]]` is harmless)
    let R := R.filter fun ab => ab.1 != ab.2
    if R.any (fun ab => ab.2 > m.npix || ab.1 > ab.2) then throw .index
    let (pre, f) := cellOp m op
    -- `add` on a non-zero sentinel: unset cells are reset to 0 in a pass of their own over ALL
    -- rows, before anything is added (after the `fix:` commit; with overlapping rows a running
    -- sum may pass through the sentinel)
    let st₁ := match pre with
      | some g => updateRanges m.c m.vc m.st g R noAppend
      | none => m.st
    let st' := updateRanges m.c m.vc st₁ (fun x => f x w) R noAppend
    if op == "add" && !floatCellsFit m.kind st'.sp then throw .inexact
    pure { m with st := st' }

/-- `get_values_pix(pixels)` -/
def apiGet (m : MapObj) (pix : List Nat) : Except Err (List Val) :=
  if pix.any (· ≥ m.npix) then .error .index else .ok (pix.map m.abs)

/-- `coverage_mask` -/
def apiCovMask (m : MapObj) : List Bool := (List.range m.c.ncov).map (covered m.c m.st)


/-! ### wide-mask bit API (set_bits_pix, clear_bits_pix, check_bits_pix) -/

def MapObj.maxbits (m : MapObj) : Nat :=
  match m.kind with
  | .wide n => 8 * n
  | _ => 0

def apiSetBits (m : MapObj) (pix : List Nat) (bits : List Nat) (clear : Bool) : Except Err MapObj := do
  match m.kind with
  | .wide _ => pure ()
  | _ => throw .notImpl
  if bits.isEmpty then throw .value                      -- np.max of an empty list
  if bits.any (· ≥ m.maxbits) then throw .value
  let value := bitvalsToPacked bits m.maxbits
  if clear then apiUpdate m "and" pix (some [.bytes (complBytes value)]) true
  else apiUpdate m "or" pix (some [.bytes value]) true

def apiCheckBits (m : MapObj) (pix : List Nat) (bits : List Nat) : Except Err (List Bool) := do
  match m.kind with
  | .wide _ => pure ()
  | _ => throw .type
  let vals ← apiGet m pix
  if bits.any (· ≥ m.maxbits) then throw .index
  let bv := bitvalsToPacked bits m.maxbits
  pure (vals.map fun v => match v with
    | .bytes row => (List.zipWith (· &&& ·) row bv).any (· != 0)
    | _ => false)

/-! ### scalar operators -/

def Val.fits (dt : DT) : Val → Bool
  | .num n e => match dt with
    | .flt b => fitsFloat b (n, e)
    | _ => true
  | _ => true

/-- numpy `func(cell, k)` for one numeric cell; `none` = not exactly representable in the model -/
def scalarCell (dt : DT) (op : String) (k : Int × Nat) (x : Val) : Option Val :=
  match x with
  | .num n e =>
    let a := (n, e)
    let r : Option (Int × Nat) :=
      match op with
      | "add" => some (dyAdd a k)
      | "sub" => some (dySub a k)
      | "mul" => some (dyMul a k)
      | "div" => dyDiv? a k
      | "pow" => if k.2 == 0 && k.1 ≥ 0 then some (dyPowNat a k.1.toNat) else none
      | "and" => some (intBitop (· &&& ·) dt n k.1, 0)
      | "or"  => some (intBitop (· ||| ·) dt n k.1, 0)
      | "xor" => some (intBitop (· ^^^ ·) dt n k.1, 0)
      | _ => none
    r.bind fun y =>
      let y := dt.wrap y
      let v := Val.num y.1 y.2
      if v.fits dt then some v else none
  | _ => none

def intOnlyOp (op : String) : Bool := op == "and" || op == "or" || op == "xor"

inductive Scalar where
  | int (k : Int) | flt (k : Int × Nat) | bits (l : List Nat)

/-- `_apply_operation(other, func, int_only, in_place)`; returns the new storage. -/
def apiScalarOp (m : MapObj) (op : String) (k : Scalar) : Except Err (State Val) := do
  match m.kind with
  | .recd _ _ => throw .notImpl
  | _ => pure ()
  if m.kind.isBool then throw .notImpl
  if intOnlyOp op then
    if !m.kind.isIntegerMap then throw .notImpl
  else
    match m.kind with
    | .wide _ => throw .notImpl
    | _ => pure ()
  match k with
  | .bits l =>
    match m.kind with
    | .wide _ => pure ()
    | _ => throw .notImpl
    if l.isEmpty then throw .value
    if l.any (· ≥ m.maxbits) then throw .value
  | _ => pure ()
  match m.kind, k with
  | .wide _, .bits l =>
    let bv := bitvalsToPacked l m.maxbits
    let f : Val → Val := fun x =>
      match op with
      | "and" => Val.and (.int 8 false) x (.bytes bv)
      | "or"  => Val.or (.int 8 false) x (.bytes bv)
      | _     => Val.xor (.int 8 false) x (.bytes bv)
    pure (scalarOp m.vc m.st f)
  | .wide _, _ => throw .notImpl
  | .plain dt, sc =>
    let kk ← match sc with
      | .int k => pure (k, 0)
      | .flt k => if intOnlyOp op then throw .notImpl else pure k
      | .bits _ => throw .notImpl
    -- numpy casting / overflow rules for `out=` of the map's dtype
    match dt, sc with
    | .int b sg, .int k => if wrapInt b sg k != k then throw .type
    | .int _ _, .flt _ => throw .type
    | _, _ => pure ()
    if op == "div" && dt.isInt then throw .type
    if op == "pow" && dt.isInt && kk.1 < 0 then throw .value
    let cells := m.st.sp.toList.filter m.vc.valid
    if cells.any (fun x => (scalarCell dt op kk x).isNone) then throw .inexact
    pure (scalarOp m.vc m.st fun x => (scalarCell dt op kk x).getD x)
  | _, _ => throw .notImpl

/-! ### apply_mask, astype, as_bit_packed_map -/

/-- `apply_mask(mask_map, mask_bits=…, mask_bit_arr=…)`; returns the new storage. -/
def apiApplyMask (m mask : MapObj) (maskBits : Option Int) (bitArr : Option (List Nat)) :
    Except Err (State Val) := do
  if !mask.kind.isIntegerMap then throw .runtime
  let isWide := match mask.kind with | .wide _ => true | _ => false
  if maskBits.isSome && isWide then throw .runtime
  -- NEP 50: a Python integer outside the mask dtype's range raises OverflowError in `values & mask_bits`
  match mask.kind, maskBits with
  | .plain (.int b sg), some k => if wrapInt b sg k != k then throw .type
  | _, _ => pure ()
  if isWide then
    match bitArr with
    | some l => if l.any (· ≥ mask.maxbits) then throw .index
    | none => pure ()
  let bad : Nat → Bool := fun p =>
    match mask.abs p, maskBits with
    | .bytes row, _ =>
      (match bitArr with
       | none => row.any (· != 0)
       | some l => (List.zipWith (· &&& ·) row (bitvalsToPacked l mask.maxbits)).any (· != 0))
    -- (only pixels VALID in the mask map mask: an unset pixel reads as the mask's sentinel, which
    --  for a signed map is not 0 — after the `fix:` commit)
    | .num n e, none => n != 0 && mask.vc.valid (.num n e)
    | .num n e, some b => intBitop (· &&& ·) mask.kind.dt n b != 0 && mask.vc.valid (.num n e)
    | .bool x, none => x
    | .bool x, some b => x && b % 2 != 0
    | _, _ => false
  match validPixels m.c m.vc m.st with
  | none => throw .index
  | some vp =>
    if vp.any (fun p => p < 0 || p.toNat ≥ mask.npix) then throw .index
    match applyMask m.c m.vc m.st bad with
    | some s => pure s
    | none => throw .index

/-- numpy `astype` on one valid cell -/
def convCell (src dst : DT) (x : Val) : Option Val :=
  match x, dst with
  | .num n e, .int b sg =>
    -- float → int truncates toward zero; int → int wraps
    let t : Int := if e == 0 then n else Int.tdiv n (2 ^ e)
    if src.isFlt && wrapInt b sg t != t then none      -- out-of-range float→int is undefined behaviour
    else some (.num (wrapInt b sg t) 0)
  | .num n e, .flt b => if fitsFloat b (n, e) then some (.num n e) else none
  | .bool v, .int _ _ => some (.num (if v then 1 else 0) 0)
  | .bool v, .flt _ => some (.num (if v then 1 else 0) 0)
  | .bool v, .bool => some (.bool v)
  | .num n _, .bool => some (.bool (n != 0))
  | _, _ => none

def apiAstype (m : MapObj) (dst : DT) (sentinel : Option Val) : Except Err MapObj := do
  let src ← match m.kind with
    | .plain dt => pure dt
    | .packed => pure DT.bool
    | _ => throw .runtime
  let sent' ← checkSentinel dst sentinel
  let cells := m.st.sp.toList.filter m.vc.valid
  if cells.any (fun x => (convCell src dst x).isNone) then throw .inexact
  pure { m with kind := .plain dst, sent := sent', cache := none,
                st := astypeMap m.vc m.st (fun x => (convCell src dst x).getD x) sent' }

def apiAsBitPacked (m : MapObj) : Except Err MapObj := do
  if m.kind == .packed then return { m with cache := none }
  if m.c.nfine % 8 != 0 then throw .value
  let s := asBitPacked m.c m.vc m.st
  pure { m with kind := .packed, sent := .bool false, cache := none,
                st := ⟨s.cov, s.sp.map Val.bool⟩ }

/-! ### boolean algebra -/

def boolFn (op : String) : Bool → Bool → Bool :=
  match op with
  | "and" => (· && ·)
  | "or"  => (· || ·)
  | _     => (· != ·)

def toBoolState (s : State Val) : State Bool :=
  ⟨s.cov, s.sp.map fun v => match v with | .bool b => b | _ => false⟩
def ofBoolState (s : State Bool) : State Val := ⟨s.cov, s.sp.map Val.bool⟩

inductive BoolRhs where
  | const (k : Bool) | map (b : MapObj)

/-- `_apply_boolean_map_operation(other, name, in_place)`; returns the new storage. -/
def apiBoolOp (a : MapObj) (op : String) (rhs : BoolRhs) (inPlace : Bool) : Except Err (State Val) := do
  if !a.kind.isBool then throw .notImpl
  let vcb : VCfg Bool := ⟨false, fun b => b⟩
  match rhs with
  | .const k => pure (ofBoolState (boolConst a.c (toBoolState a.st) (boolFn op) k))
  | .map b =>
    if !b.kind.isBool then throw .notImpl
    if a.spord != b.spord then throw .notImpl
    if a.covord != b.covord then throw .notImpl
    if a.sent == .bool true || b.sent == .bool true then throw .notImpl
    if inPlace then
      pure (ofBoolState (boolMapInPlace a.c vcb (toBoolState a.st) (toBoolState b.st) (boolFn op)))
    else
      pure (ofBoolState (boolMapCopy a.c (toBoolState a.st) (toBoolState b.st) (boolFn op)))

def apiInvert (a : MapObj) : Except Err (State Val) := do
  if !a.kind.isBool then throw .notImpl
  pure (ofBoolState (invertMap a.c (toBoolState a.st)))


/-! ### union / intersection operations (operations.py) -/

/-- one row of the operation table: what a public function of operations.py passes to
    `_apply_operation` for a first map of dtype `dt` (re-extracted from /repo on every run
    into Generated/OpsTable.lean) -/
structure OpRow where
  name      : String
  ufunc     : String
  dt        : String           -- dtype code of the first map (`u1w` = wide mask)
  filler    : Val
  promoted  : String           -- dtype of `np.zeros(1, dt) + filler`
  union     : Bool
  intOnly   : Bool
  fillFirst : Bool
  dtypeOut  : String           -- "" = none
deriving Repr, DecidableEq

/-- WHAT each documented function of operations.py computes — written from the documentation
    (docs/basic_interface.rst "sum_union … the sum over the union of the maps", etc.), NOT
    extracted from the code: (numpy ufunc folded, over the union?, integer maps only?,
    seeded with the first map?, float64 result?).  The generated table must agree with it
    (`C06.opsTable_spec`), and the model folds with THESE fields, so a wrapper that passes
    another ufunc or flag shows up as a concrete failing input. -/
def opSpec : String → Option (String × Bool × Bool × Bool × Bool)
  | "sum_union" => some ("add", true, false, false, false)
  | "sum_intersection" => some ("add", false, false, false, false)
  | "product_union" => some ("multiply", true, false, false, false)
  | "product_intersection" => some ("multiply", false, false, false, false)
  | "or_union" => some ("bitwise_or", true, true, false, false)
  | "or_intersection" => some ("bitwise_or", false, true, false, false)
  | "and_union" => some ("bitwise_and", true, true, false, false)
  | "and_intersection" => some ("bitwise_and", false, true, false, false)
  | "xor_union" => some ("bitwise_xor", true, true, false, false)
  | "xor_intersection" => some ("bitwise_xor", false, true, false, false)
  | "max_union" => some ("fmax", true, false, false, false)
  | "max_intersection" => some ("fmax", false, false, false, false)
  | "min_union" => some ("fmin", true, false, false, false)
  | "min_intersection" => some ("fmin", false, false, false, false)
  | "divide_intersection" => some ("divide", false, false, true, true)
  | "floor_divide_intersection" => some ("floor_divide", false, true, true, false)
  | _ => none

/-- the row the model folds with: semantic fields from `opSpec`, the rest (filler, dtype after
    adding the filler) from the row extracted from the code -/
def OpRow.withSpec (r : OpRow) : OpRow :=
  match opSpec r.name with
  | some (u, un, io, ff, fo) =>
    { r with ufunc := u, union := un, intOnly := io, fillFirst := ff, dtypeOut := if fo then "f8" else "" }
  | none => r

/-- storing a ufunc result into an array of dtype `dt` (`combined[idx] = func(combined[idx], values)`
    with `values` of another dtype: numpy computes in the promoted type and narrows on assignment):
    numeric results go through `dt.wrap` (integer wrap-around; identity for float / bool arrays);
    the ±inf start values, byte rows and `poison` are unchanged -/
def narrow (dt : DT) (v : Val) : Val :=
  match v with
  | .num n e => .ofDy (dt.wrap (n, e))
  | v => v

/-- numpy ufunc on two cells of dtype `dt` -/
def ufuncCell (ufunc : String) (dt : DT) (x w : Val) : Val :=
  match ufunc with
  | "add" => (match x, w with
      | .num _ _, .num _ _ => Val.add dt x w
      | .bytes _, .bytes _ => Val.add dt x w
      | _, _ => .poison)
  | "subtract" => (match x, w with
      | .num a ea, .num b eb => .ofDy (dt.wrap (dySub (a, ea) (b, eb)))
      | _, _ => .poison)
  | "multiply" => Val.mul dt x w
  | "divide" => Val.div x w
  | "floor_divide" => Val.floorDiv dt x w
  | "bitwise_or" => Val.or dt x w
  | "bitwise_and" => Val.and dt x w
  | "bitwise_xor" => Val.xor dt x w
  | "fmax" => narrow dt (Val.fmax x w)
  | "fmin" => narrow dt (Val.fmin x w)
  | _ => .poison

def dtCode : DT → String
  | .int b sg => (if sg then "i" else "u") ++ toString (b / 8)
  | .flt b => "f" ++ toString (b / 8)
  | .bool => "b1"

def Kind.code : Kind → String
  | .plain dt => dtCode dt
  | .wide _ => "u1w"
  | .packed => "b1"
  | .recd _ _ => "rec"

def parseDTCode (s : String) : Option DT :=
  match s with
  | "i1" => some (.int 8 true)  | "i2" => some (.int 16 true)
  | "i4" => some (.int 32 true) | "i8" => some (.int 64 true)
  | "u1" => some (.int 8 false)  | "u2" => some (.int 16 false)
  | "u4" => some (.int 32 false) | "u8" => some (.int 64 false)
  | "f4" => some (.flt 32) | "f8" => some (.flt 64)
  | "b1" => some .bool
  | _ => none

/-- the neutral start value the SPECIFICATION prescribes for a named operation on dtype `dt`
    (what `C06.rowOk` demands of the table extracted from the source).  The model folds with
    this value, not with the filler found in the source, so that a wrong filler in the code
    shows up as a difference between implementation and model. -/
def neutralFiller (ufunc : String) (dt : DT) : Option Val :=
  match ufunc, dt with
  | "add", _ => some (.num 0 0)
  | "multiply", _ => some (.num 1 0)
  | "bitwise_or", _ => some (.num 0 0)
  | "bitwise_xor", _ => some (.num 0 0)
  | "bitwise_and", .int b sg => some (.num (if sg then -1 else 2 ^ b - 1) 0)
  | "fmax", .int b sg => some (.num (if sg then -(2 ^ (b - 1)) else 0) 0)
  | "fmax", .flt _ => some (.inf true)
  | "fmin", .int b sg => some (.num (if sg then 2 ^ (b - 1) - 1 else 2 ^ b - 1) 0)
  | "fmin", .flt _ => some (.inf false)
  | _, _ => none

/-- `_apply_operation(map_list, func, filler, union, int_only, fill_with_first_map, dtype_out)` -/
def apiMultiOp (row : OpRow) (maps : List MapObj) : Except Err MapObj := do
  if maps.length < 2 then throw .runtime
  if row.fillFirst && row.union then throw .runtime
  let first ← match maps with
    | m :: _ => pure m
    | [] => throw .runtime
  for m in maps do
    match m.kind with
    | .recd _ _ => throw .notImpl
    | _ => pure ()
    if row.intOnly && !m.kind.isIntegerMap then throw .value
    if m.covord != first.covord || m.spord != first.spord then throw .runtime
    let wideW : Kind → Nat := fun k => match k with | .wide n => n | _ => 0
    if wideW m.kind != wideW first.kind then throw .runtime
  let isWide := match first.kind with | .wide _ => true | _ => false
  if isWide && row.fillFirst then throw .runtime
  -- empty combined coverage: `make_empty_like(map_list[0])`
  let anyCov := (List.range first.c.ncov).any fun k =>
    if row.union then maps.any (fun m => covered m.c m.st k) else maps.all (fun m => covered m.c m.st k)
  if !anyCov then
    -- (of the requested output type when there is one — after the `fix:` commit)
    let kindE : Kind := match parseDTCode row.dtypeOut with
      | some d => .plain d
      | none => first.kind
    return { first with kind := kindE, cache := none,
                        st := makeEmpty first.c ⟨kindE.blank first.sent, kindE.valid first.sent⟩ [] }
  -- output kind / dtype / sentinel
  let dtOut : DT := match parseDTCode row.dtypeOut with
    | some d => d
    | none => first.kind.dt
  let kindOut : Kind := match first.kind, parseDTCode row.dtypeOut with
    | _, some d => .plain d
    | .packed, none => .plain .bool
    | k, none => k
  -- type promotion by the filler: the array must keep the output dtype
  if row.promoted != (if isWide then "u1" else dtCode dtOut) then throw .value
  -- named operations fold from the specification's neutral element; `ufunc_*` from the user's value
  let fillerSpec : Val :=
    if row.name == "ufunc_union" || row.name == "ufunc_intersection" || row.fillFirst then row.filler
    else (neutralFiller row.ufunc (if isWide then .int 8 false else dtOut)).getD row.filler
  let filler : Val := match first.kind, fillerSpec with
    | .wide n, .num k _ => .bytes (List.replicate n k.toNat)
    | _, v => v
  let vc : VCfg Val := ⟨kindOut.blank first.sent, kindOut.valid first.sent⟩
  -- all inputs are read with their own validity; cell values are dtype-agnostic numerals
  let f := ufuncCell row.ufunc (if isWide then .int 8 false else dtOut)
  -- inputs may have different sentinels: normalise each map to the output sentinel
  let norm (m : MapObj) : State Val :=
    ⟨m.st.cov, m.st.sp.map fun x => if m.vc.valid x then x else vc.sentinel⟩
  if maps.any (fun m => m.st.sp.any fun x => m.vc.valid x && !vc.valid x) then throw .inexact
  -- integer inputs converted to a floating-point output must be exact in float64
  if dtOut.isFlt && maps.any (fun m => m.st.sp.any fun x => match x with
      | .num n e => !(fitsFloat 64 (n, e) || decide (n.natAbs > 2 ^ 100))
      | _ => false) then throw .inexact
  match multiOp first.c vc (maps.map norm) f filler row.union row.fillFirst with
  | none => throw .index
  | some st =>
    if st.sp.any (fun x => match x with | .num n e => !(Val.num n e).fits dtOut | _ => false) then
      throw .inexact
    pure { covord := first.covord, spord := first.spord, kind := kindOut, sent := first.sent, st := st }


/-! ### record arrays: get_single -/

def recField (i : Nat) (v : Val) : Val :=
  match v with
  | .recd l => let x := l.getD i (0, 0); .num x.1 x.2
  | _ => v

def recSetField (i : Nat) (v : Val) (x : Val) : Val :=
  match v, x with
  | .recd l, .num n e => .recd (l.set i (n, e))
  | _, _ => v

/-- the sentinel of a single-field map: the parent's for the primary field, else
    `check_sentinel(field type, sentinel)` -/
def singleSentinel (m : MapObj) (i : Nat) (sentinel : Option Val) : Except Err (DT × Val) := do
  match m.kind with
  | .recd fs pr =>
    match fs[i]? with
    | none => throw .value
    | some dt =>
      if i == pr then pure (dt, m.sent) else
        let s ← checkSentinel dt sentinel
        pure (dt, s)
  | _ => throw .type

/-- `get_single(key, copy=True)`: field values where the PRIMARY is valid, the field map's
    sentinel elsewhere; shares the coverage index -/
def apiGetSingleCopy (m : MapObj) (i : Nat) (sentinel : Option Val) : Except Err MapObj := do
  let (dt, s) ← singleSentinel m i sentinel
  pure { covord := m.covord, spord := m.spord, kind := .plain dt, sent := s,
         st := astypeMap m.vc m.st (recField i) s }

/-- `get_single(key, copy=False)`: a view — the storage is the parent's field column -/
def materializeView (parent : MapObj) (pname : String) (i : Nat) (sent : Val) (cache : Option Nat) :
    Except Err MapObj := do
  let (dt, _) ← singleSentinel parent i none
  pure { covord := parent.covord, spord := parent.spord, kind := .plain dt, sent := sent,
         st := ⟨parent.st.cov, parent.st.sp.map (recField i)⟩, cache := cache, view := some (pname, i) }

/-- write the view's storage back into the parent's field column -/
def writeBackView (parent : MapObj) (i : Nat) (v : MapObj) : MapObj :=
  { parent with
    st := ⟨parent.st.cov, parent.st.sp.mapIdx fun j r => recSetField i r (rd v.st.sp j (.num 0 0))⟩
    cache := none }                       -- `_view_parent._n_valid = None`

end HS
