/-
  C06 at the API level: `apiMultiOp` (operations._apply_operation as called by the sixteen
  documented wrappers and by ufunc_union / ufunc_intersection).

  * `apiMultiOp_eq_spec`: the `Except` do-block (with its `for` loop) as a flat decision list;
    `ok_iff`: the exact success condition.
  * `ok_sem`: for well-formed, well-typed inputs a successful call yields a well-formed map
    whose value at every pixel is the seeded left fold of the inputs VALID there — each input
    judged by its own kind and sentinel (`vals`) — and whose coverage is the union /
    intersection of the inputs'.
  * `neutral_api`: the start value the model folds with is neutral on the carrier of the
    output array (numeric dtypes and wide masks), so it never shows in a named operation.

  Property theorems: Props/C06.lean (API part).
-/
import HealSparse.Lemmas.WFApi
import HealSparse.Generated.OpsTable
namespace HS
namespace ApiMulti

def isWide (k : Kind) : Bool := match k with | .wide _ => true | _ => false
def wideW (k : Kind) : Nat := match k with | .wide n => n | _ => 0
def isRecd (k : Kind) : Bool := match k with | .recd _ _ => true | _ => false

def mapCheck (row : OpRow) (first m : MapObj) : Option Err :=
  match m.kind with
  | .recd _ _ => some .notImpl
  | _ =>
    if row.intOnly && !m.kind.isIntegerMap then some .value
    else if m.covord != first.covord || m.spord != first.spord then some .runtime
    else if wideW m.kind != wideW first.kind then some .runtime
    else none

theorem forIn_check {α : Type} (chk : α → Option Err) (l : List α)
    (body : α → PUnit → Except Err (ForInStep PUnit))
    (hb : ∀ a s, body a s = match chk a with | some e => .error e | none => .ok (.yield PUnit.unit)) :
    forIn l PUnit.unit body =
      match l.findSome? chk with
      | some e => Except.error e
      | none => Except.ok PUnit.unit := by
  induction l with
  | nil => rfl
  | cons a as ih =>
    rw [List.forIn_cons, hb, List.findSome?_cons]
    cases h : chk a with
    | some e => rfl
    | none => exact ih

theorem ite_match {β : Type} {c : Prop} [Decidable c] (e : Err) {x : Except Err β} {y : β}
    (o : Option Err) (h : x = match o with | some e => .error e | none => .ok y) :
    (if c then Except.error e else x) =
      match (if c then some e else o) with | some e => .error e | none => .ok y := by
  by_cases hc : c
  · rw [if_pos hc, if_pos hc]
  · rw [if_neg hc, if_neg hc]; exact h

/-- element dtype of the output array -/
def dtOut (row : OpRow) (first : MapObj) : DT :=
  match parseDTCode row.dtypeOut with
  | some d => d
  | none => first.kind.dt

/-- dtype at which the ufunc runs (wide masks: column-wise on `uint8`) -/
def dtArr (row : OpRow) (first : MapObj) : DT :=
  if isWide first.kind then .int 8 false else dtOut row first

def kindOut (row : OpRow) (first : MapObj) : Kind := multiKindOut first.kind row.dtypeOut

/-- validity configuration of the result: the FIRST map's sentinel at the output kind -/
def vcOut (row : OpRow) (first : MapObj) : VCfg Val :=
  ⟨(kindOut row first).blank first.sent, (kindOut row first).valid first.sent⟩

/-- the cell function folded -/
def cellF (row : OpRow) (first : MapObj) : Val → Val → Val := ufuncCell row.ufunc (dtArr row first)

/-- is the row one of the two `ufunc_*` entry points (caller-supplied start value)? -/
def isUfuncRow (row : OpRow) : Bool := row.name == "ufunc_union" || row.name == "ufunc_intersection"

def fillerSpec (row : OpRow) (first : MapObj) : Val :=
  if isUfuncRow row || row.fillFirst then row.filler
  else (neutralFiller row.ufunc (dtArr row first)).getD row.filler

/-- the start value the fold is seeded with -/
def fillerOf (row : OpRow) (first : MapObj) : Val :=
  match first.kind, fillerSpec row first with
  | .wide n, .num k _ => .bytes (List.replicate n k.toNat)
  | _, v => v

/-- an input read through ITS OWN validity rule, unset cells rewritten to the output blank -/
def norm (vc : VCfg Val) (m : MapObj) : State Val :=
  mapCells m.st fun x => if m.vc.valid x then x else vc.sentinel

/-- combined coverage non-empty -/
def anyCov (row : OpRow) (first : MapObj) (maps : List MapObj) : Bool :=
  (List.range first.c.ncov).any fun k =>
    if row.union then maps.any (fun m => covered m.c m.st k) else maps.all (fun m => covered m.c m.st k)

/-- some input holds a valid cell that reads as "unset" under the result's sentinel -/
def sentClash (vc : VCfg Val) (maps : List MapObj) : Bool :=
  maps.any fun m => m.st.sp.any fun x => m.vc.valid x && !vc.valid x

/-- floating-point output, and some input cell is not exact in float64 -/
def fltClash (row : OpRow) (first : MapObj) (maps : List MapObj) : Bool :=
  (dtOut row first).isFlt && maps.any fun m => m.st.sp.any fun x => match x with
      | .num n e => !(fitsFloat 64 (n, e) || decide (n.natAbs > 2 ^ 100))
      | _ => false

/-- some result cell does not fit the output dtype -/
def outClash (row : OpRow) (first : MapObj) (st : State Val) : Bool :=
  st.sp.any fun x => match x with | .num n e => !(Val.num n e).fits (dtOut row first) | _ => false

/-- the core call -/
def core (row : OpRow) (first : MapObj) (maps : List MapObj) : Option (State Val) :=
  multiOp first.c (vcOut row first) (maps.map (norm (vcOut row first))) (cellF row first)
    (fillerOf row first) row.union row.fillFirst

/-- the kind the call announces: a plain map of `dtype_out` when there is one, else the first
    map's kind (the kind of the empty-coverage early return; the main path differs only for a
    bit-packed first map, which it unpacks) -/
def kindE (row : OpRow) (first : MapObj) : Kind := multiKindE first.kind row.dtypeOut

/-- validity configuration of the empty result -/
def vcE (row : OpRow) (first : MapObj) : VCfg Val :=
  ⟨(kindE row first).blank first.sent, (kindE row first).valid first.sent⟩

/-- the result of the empty-coverage early return: `make_empty_like(map_list[0])`, of the
    requested output type when there is one (after the `fix:` commit) -/
def emptyLike (row : OpRow) (first : MapObj) : MapObj :=
  { first with kind := kindE row first, cache := none,
               st := makeEmpty first.c (vcE row first) [] }

/-- the result object of the main path -/
def resultOf (row : OpRow) (first : MapObj) (st : State Val) : MapObj :=
  { covord := first.covord, spord := first.spord, kind := kindOut row first, sent := first.sent, st := st }

/-- `apiMultiOp` as a flat decision list -/
def spec (row : OpRow) (maps : List MapObj) : Except Err MapObj :=
  match maps with
  | [] => .error .runtime
  | first :: rest =>
    if rest = [] then .error .runtime
    else if row.fillFirst && row.union then .error .runtime
    else match maps.findSome? (mapCheck row first) with
    | some e => .error e
    | none =>
      if isWide first.kind && row.fillFirst then .error .runtime
      else if !anyCov row first maps then
        .ok (emptyLike row first)
      else if row.promoted != (if isWide first.kind then "u1" else dtCode (dtOut row first)) then .error .value
      else if sentClash (vcOut row first) maps then .error .inexact
      else if fltClash row first maps then .error .inexact
      else match core row first maps with
      | none => .error .index
      | some st =>
        if outClash row first st then .error .inexact
        else .ok (resultOf row first st)

theorem apiMultiOp_eq_spec (row : OpRow) (maps : List MapObj) :
    apiMultiOp row maps = spec row maps := by
  unfold apiMultiOp spec
  simp only [bind, Except.bind, pure, Except.pure, throw, throwThe, MonadExceptOf.throw]
  cases maps with
  | nil => rfl
  | cons first rest =>
    cases rest with
    | nil => rfl
    | cons second rest =>
      have h2 : ¬ (first :: second :: rest).length < 2 := by simp
      rw [if_neg h2]
      show _ = (if second :: rest = [] then _ else _)
      rw [if_neg (List.cons_ne_nil _ _)]
      by_cases hfu : (row.fillFirst && row.union) = true
      · rw [if_pos hfu, if_pos hfu]
      · rw [if_neg hfu, if_neg hfu]
        simp only []
        rw [forIn_check (mapCheck row first)]
        · cases hck : List.findSome? (mapCheck row first) (first :: second :: rest) with
          | some e => rfl
          | none =>
            simp only []
            rfl
        · intro a s
          unfold mapCheck
          cases hk : a.kind <;> simp only [] <;>
            first
            | rfl
            | exact ite_match _ _ (ite_match _ _ (ite_match _ _ rfl))


/-! ### reading the per-map check -/

theorem mapCheck_none_iff (row : OpRow) (first m : MapObj) :
    mapCheck row first m = none ↔
      isRecd m.kind = false ∧ (row.intOnly = true → m.kind.isIntegerMap = true) ∧
      m.covord = first.covord ∧ m.spord = first.spord ∧ wideW m.kind = wideW first.kind := by
  unfold mapCheck
  cases hk : m.kind <;> simp [isRecd] <;> grind

/-- the structural preconditions (everything checked before the arrays are looked at) -/
def Accepts (row : OpRow) (first : MapObj) (maps : List MapObj) : Prop :=
  2 ≤ maps.length ∧ ¬ (row.fillFirst = true ∧ row.union = true) ∧
  (∀ m ∈ maps, mapCheck row first m = none) ∧ ¬ (isWide first.kind = true ∧ row.fillFirst = true)

def promotedOk (row : OpRow) (first : MapObj) : Bool :=
  row.promoted == (if isWide first.kind then "u1" else dtCode (dtOut row first))

theorem ite_err_iff {α : Type} {c : Prop} [Decidable c] {e : Err} {x : Except Err α} {r : α} :
    ((if c then Except.error e else x) = .ok r) ↔ ¬ c ∧ x = .ok r := by
  by_cases hc : c
  · rw [if_pos hc]; exact ⟨(fun h => nomatch h), fun h => absurd hc h.1⟩
  · rw [if_neg hc]; exact ⟨fun h => ⟨hc, h⟩, fun h => h.2⟩

theorem ite_ok_iff {α : Type} {c : Prop} [Decidable c] {a : α} {x : Except Err α} {r : α} :
    ((if c then Except.ok a else x) = .ok r) ↔ (c ∧ a = r) ∨ (¬ c ∧ x = .ok r) := by
  by_cases hc : c
  · rw [if_pos hc]
    exact ⟨fun h => Or.inl ⟨hc, Except.ok.inj h⟩, fun h => h.elim (fun h => by rw [h.2]) (fun h => absurd hc h.1)⟩
  · rw [if_neg hc]
    exact ⟨fun h => Or.inr ⟨hc, h⟩, fun h => h.elim (fun h => absurd h.1 hc) (fun h => h.2)⟩

theorem core_match_iff {o : Option (State Val)} {oc : State Val → Bool} {g : State Val → MapObj}
    {m' : MapObj} :
    ((match o with
      | none => Except.error Err.index
      | some st => if oc st = true then Except.error Err.inexact else Except.ok (g st)) = Except.ok m') ↔
      ∃ st, o = some st ∧ oc st = false ∧ m' = g st := by
  cases o with
  | none => simp
  | some st =>
    simp only [ite_err_iff, Option.some.injEq, exists_eq_left', Bool.not_eq_true, Except.ok.injEq]
    exact ⟨fun h => ⟨h.1, h.2.symm⟩, fun h => ⟨h.1, h.2.symm⟩⟩

/-- **exact success condition** of `apiMultiOp` -/
theorem ok_iff (row : OpRow) (maps : List MapObj) (m' : MapObj) :
    apiMultiOp row maps = .ok m' ↔
      ∃ first rest, maps = first :: rest ∧ Accepts row first maps ∧
        ((anyCov row first maps = false ∧ m' = emptyLike row first) ∨
         (anyCov row first maps = true ∧ promotedOk row first = true ∧
          sentClash (vcOut row first) maps = false ∧ fltClash row first maps = false ∧
          ∃ st, core row first maps = some st ∧ outClash row first st = false ∧
            m' = resultOf row first st)) := by
  rw [apiMultiOp_eq_spec]
  unfold spec
  cases maps with
  | nil => simp
  | cons first rest =>
    have hex : ∀ P : MapObj → List MapObj → Prop,
        (∃ f r, first :: rest = f :: r ∧ P f r) ↔ P first rest :=
      fun P => ⟨fun ⟨f, r, h, hp⟩ => by cases h; exact hp, fun h => ⟨_, _, rfl, h⟩⟩
    rw [hex fun f r => Accepts row f (first :: rest) ∧ _]
    simp only []
    rw [ite_err_iff, ite_err_iff]
    unfold Accepts
    have hlen : 2 ≤ (first :: rest).length ↔ ¬ rest = [] := by
      cases rest <;> simp
    rw [hlen]
    cases hfs : List.findSome? (mapCheck row first) (first :: rest) with
    | some e =>
      simp only []
      have : ¬ ∀ m ∈ first :: rest, mapCheck row first m = none := by
        intro hall
        rw [List.findSome?_eq_none_iff.2 (fun m hm => hall m hm)] at hfs
        cases hfs
      constructor
      · rintro ⟨_, _, h⟩; cases h
      · rintro ⟨⟨_, _, h, _⟩, _⟩; exact absurd h this
    | none =>
      have hall : ∀ m ∈ first :: rest, mapCheck row first m = none :=
        fun m hm => List.findSome?_eq_none_iff.1 hfs m hm
      simp only []
      rw [ite_err_iff, ite_ok_iff, ite_err_iff, ite_err_iff, ite_err_iff,
        core_match_iff (g := resultOf row first)]
      have e1 : (emptyLike row first = m') ↔ (m' = emptyLike row first) := eq_comm
      unfold promotedOk
      change _ ∧ _ ∧ _ ∧ (_ ∧ emptyLike row first = m' ∨ _) ↔ _
      rw [e1]
      generalize (∀ m ∈ first :: rest, mapCheck row first m = none) = H at hall ⊢
      generalize anyCov row first (first :: rest) = ac
      generalize sentClash (vcOut row first) (first :: rest) = sc
      generalize fltClash row first (first :: rest) = fc
      generalize (∃ st, core row first (first :: rest) = some st ∧ outClash row first st = false ∧
        m' = resultOf row first st) = X
      generalize (m' = emptyLike row first) = Y
      generalize isWide first.kind = iw
      generalize row.promoted = pr
      generalize dtCode (dtOut row first) = dc
      cases ac <;> cases sc <;> cases fc <;> cases iw <;> cases row.fillFirst <;> cases row.union <;>
        simp [hall]


/-! ### errors, classified -/

/-- the validation phase (nothing but lengths, kinds and orders is looked at): the error it
    raises, in source order -/
def structErr (row : OpRow) (maps : List MapObj) : Option Err :=
  match maps with
  | [] => some .runtime
  | first :: rest =>
    if rest = [] then some .runtime
    else if row.fillFirst && row.union then some .runtime
    else match (first :: rest).findSome? (mapCheck row first) with
      | some e => some e
      | none => if isWide first.kind && row.fillFirst then some .runtime else none

/-- the data-dependent phase (only with a non-empty combined coverage): dtype of the filler
    (`.value`), and the three guards of the exact model (`.inexact`: no claim) -/
def dataErr (row : OpRow) (first : MapObj) (maps : List MapObj) : Option Err :=
  if !anyCov row first maps then none
  else if !promotedOk row first then some .value
  else if sentClash (vcOut row first) maps then some .inexact
  else if fltClash row first maps then some .inexact
  else match core row first maps with
    | none => some .index
    | some st => if outClash row first st then some .inexact else none

theorem structErr_none_iff (row : OpRow) (maps : List MapObj) :
    structErr row maps = none ↔ ∃ first rest, maps = first :: rest ∧ Accepts row first maps := by
  unfold structErr
  cases maps with
  | nil => simp
  | cons first rest =>
    have hex : ∀ P : MapObj → List MapObj → Prop,
        (∃ f r, first :: rest = f :: r ∧ P f r) ↔ P first rest :=
      fun P => ⟨fun ⟨f, r, h, hp⟩ => by cases h; exact hp, fun h => ⟨_, _, rfl, h⟩⟩
    rw [hex fun f _ => Accepts row f (first :: rest)]
    unfold Accepts
    have hlen : 2 ≤ (first :: rest).length ↔ ¬ rest = [] := by
      cases rest <;> simp
    rw [hlen]
    simp only []
    cases hfs : List.findSome? (mapCheck row first) (first :: rest) with
    | some e =>
      have : ¬ ∀ m ∈ first :: rest, mapCheck row first m = none := by
        intro hall
        rw [List.findSome?_eq_none_iff.2 (fun m hm => hall m hm)] at hfs
        cases hfs
      generalize (∀ m ∈ first :: rest, mapCheck row first m = none) = H at this ⊢
      by_cases h1 : rest = [] <;> cases row.fillFirst <;> cases row.union <;> simp [h1, this]
    | none =>
      have hall : ∀ m ∈ first :: rest, mapCheck row first m = none :=
        fun m hm => List.findSome?_eq_none_iff.1 hfs m hm
      generalize (∀ m ∈ first :: rest, mapCheck row first m = none) = H at hall ⊢
      by_cases h1 : rest = [] <;> cases row.fillFirst <;> cases row.union <;>
        cases isWide first.kind <;> simp [h1, hall]

/-- **exact error behaviour**: the call raises `e` iff the validation phase raises `e`, or
    validation passes and the data-dependent phase raises `e` -/
theorem error_iff (row : OpRow) (maps : List MapObj) (e : Err) :
    apiMultiOp row maps = .error e ↔
      structErr row maps = some e ∨
      (structErr row maps = none ∧ ∃ first rest, maps = first :: rest ∧ dataErr row first maps = some e) := by
  rw [apiMultiOp_eq_spec]
  unfold spec structErr
  cases maps with
  | nil => simp
  | cons first rest =>
    have hex : ∀ P : MapObj → List MapObj → Prop,
        (∃ f r, first :: rest = f :: r ∧ P f r) ↔ P first rest :=
      fun P => ⟨fun ⟨f, r, h, hp⟩ => by cases h; exact hp, fun h => ⟨_, _, rfl, h⟩⟩
    rw [hex fun f _ => dataErr row f (first :: rest) = some e]
    simp only []
    by_cases h1 : rest = []
    · simp [h1]
    rw [if_neg h1, if_neg h1]
    by_cases h2 : (row.fillFirst && row.union) = true
    · simp [h2]
    rw [if_neg h2, if_neg h2]
    cases hfs : List.findSome? (mapCheck row first) (first :: rest) with
    | some e' => simp
    | none =>
      simp only []
      by_cases h3 : (isWide first.kind && row.fillFirst) = true
      · simp [h3]
      rw [if_neg h3, if_neg h3]
      unfold dataErr
      by_cases h4 : (!anyCov row first (first :: rest)) = true
      · simp [h4]
      rw [if_neg h4, if_neg h4]
      have hp : (row.promoted != if isWide first.kind = true then "u1" else dtCode (dtOut row first)) =
          !promotedOk row first := rfl
      rw [hp]
      by_cases h5 : (!promotedOk row first) = true
      · simp [h5]
      rw [if_neg h5, if_neg h5]
      by_cases h6 : sentClash (vcOut row first) (first :: rest) = true
      · simp [h6]
      rw [if_neg h6, if_neg h6]
      by_cases h7 : fltClash row first (first :: rest) = true
      · simp [h7]
      rw [if_neg h7, if_neg h7]
      cases core row first (first :: rest) with
      | none => simp
      | some st =>
        by_cases h8 : outClash row first st = true <;> simp [h8]

/-- the per-map check, read off: a record map is `NotImplementedError`; else an `int_only`
    operation on a non-integer map is `ValueError`; else different orders, or wide masks of
    different widths (or a wide mask next to a scalar map), are `RuntimeError` -/
theorem mapCheck_some_iff (row : OpRow) (first m : MapObj) (e : Err) :
    mapCheck row first m = some e ↔
      (isRecd m.kind = true ∧ e = .notImpl) ∨
      (isRecd m.kind = false ∧ row.intOnly = true ∧ m.kind.isIntegerMap = false ∧ e = .value) ∨
      (isRecd m.kind = false ∧ (row.intOnly = true → m.kind.isIntegerMap = true) ∧
        (m.covord ≠ first.covord ∨ m.spord ≠ first.spord ∨ wideW m.kind ≠ wideW first.kind) ∧
        e = .runtime) := by
  unfold mapCheck
  cases hk : m.kind <;> simp [isRecd] <;> grind

theorem structErr_short (row : OpRow) (maps : List MapObj) (h : maps.length < 2) :
    structErr row maps = some .runtime := by
  unfold structErr
  cases maps with
  | nil => rfl
  | cons a rest =>
    cases rest with
    | nil => rfl
    | cons b rest => simp only [List.length_cons] at h; omega

/-- the first map that fails its check determines the error -/
theorem structErr_of_check {row : OpRow} {first : MapObj} {rest pre post : List MapObj} {m : MapObj}
    {e : Err} (hsplit : first :: rest = pre ++ m :: post) (h2 : rest ≠ [])
    (hfu : ¬ (row.fillFirst = true ∧ row.union = true))
    (hpre : ∀ x ∈ pre, mapCheck row first x = none) (hm : mapCheck row first m = some e) :
    structErr row (first :: rest) = some e := by
  unfold structErr
  simp only []
  rw [if_neg h2, if_neg (by simpa using hfu), hsplit, List.findSome?_append,
    List.findSome?_eq_none_iff.2 hpre, List.findSome?_cons, hm]
  rfl

theorem structErr_wide_first {row : OpRow} {first : MapObj} {rest : List MapObj} (h2 : rest ≠ [])
    (hfu : ¬ (row.fillFirst = true ∧ row.union = true))
    (hall : ∀ x ∈ first :: rest, mapCheck row first x = none)
    (hw : isWide first.kind = true) (hff : row.fillFirst = true) :
    structErr row (first :: rest) = some .runtime := by
  unfold structErr
  simp only []
  rw [if_neg h2, if_neg (by simpa using hfu), List.findSome?_eq_none_iff.2 hall]
  simp [hw, hff]

/-! ### the inputs, each read through its own sentinel -/

/-- the values at pixel `p` of exactly those inputs in which `p` is valid — validity judged by
    each input's OWN kind and sentinel —, in list order -/
def vals (maps : List MapObj) (p : Nat) : List Val :=
  maps.filterMap fun m => if m.vc.valid (m.abs p) then some (m.abs p) else none

theorem fm_nil_iff {α β : Type} (q : α → Bool) (g : α → β) (l : List α) :
    (l.filterMap fun a => if q a then some (g a) else none) = [] ↔ ∀ a ∈ l, q a = false := by
  rw [List.filterMap_eq_nil_iff]
  constructor
  · intro h a ha
    have := h a ha
    cases hq : q a with
    | false => rfl
    | true => simp [hq] at this
  · intro h a ha
    simp [h a ha]

theorem fm_length_le {α β : Type} (q : α → Bool) (g : α → β) (l : List α) :
    (l.filterMap fun a => if q a then some (g a) else none).length ≤ l.length :=
  List.length_filterMap_le _ _

theorem fm_length_iff {α β : Type} (q : α → Bool) (g : α → β) (l : List α) :
    (l.filterMap fun a => if q a then some (g a) else none).length = l.length ↔
      ∀ a ∈ l, q a = true := by
  induction l with
  | nil => simp
  | cons a l ih =>
    have hle := fm_length_le q g l
    rw [List.filterMap_cons]
    cases hq : q a with
    | true =>
      simp only [if_true, List.length_cons, List.mem_cons, forall_eq_or_imp, hq, true_and]
      rw [← ih]; omega
    | false =>
      simp only [Bool.false_eq_true, if_false]
      constructor
      · intro h; simp only [List.length_cons] at h; omega
      · intro h; have := h a List.mem_cons_self; rw [hq] at this; cases this

theorem filterMap_congr' {α β : Type} {f g : α → Option β} {l : List α} (h : ∀ a ∈ l, f a = g a) :
    l.filterMap f = l.filterMap g := by
  induction l with
  | nil => rfl
  | cons a l ih =>
    rw [List.filterMap_cons, List.filterMap_cons, h a List.mem_cons_self,
      ih (fun b hb => h b (List.mem_cons_of_mem _ hb))]

theorem any_congr_mem {α : Type} {p q : α → Bool} {l : List α} (h : ∀ a ∈ l, p a = q a) :
    l.any p = l.any q := by
  induction l with
  | nil => rfl
  | cons a l ih =>
    rw [List.any_cons, List.any_cons, h a List.mem_cons_self,
      ih (fun b hb => h b (List.mem_cons_of_mem _ hb))]

theorem all_congr_mem {α : Type} {p q : α → Bool} {l : List α} (h : ∀ a ∈ l, p a = q a) :
    l.all p = l.all q := by
  induction l with
  | nil => rfl
  | cons a l ih =>
    rw [List.all_cons, List.all_cons, h a List.mem_cons_self,
      ih (fun b hb => h b (List.mem_cons_of_mem _ hb))]

theorem vals_eq_nil_iff (maps : List MapObj) (p : Nat) :
    vals maps p = [] ↔ ∀ m ∈ maps, m.vc.valid (m.abs p) = false :=
  fm_nil_iff (fun m : MapObj => m.vc.valid (m.abs p)) (fun m => m.abs p) maps

theorem vals_length_le (maps : List MapObj) (p : Nat) : (vals maps p).length ≤ maps.length :=
  fm_length_le (fun m : MapObj => m.vc.valid (m.abs p)) (fun m => m.abs p) maps

theorem vals_length_eq_iff (maps : List MapObj) (p : Nat) :
    (vals maps p).length = maps.length ↔ ∀ m ∈ maps, m.vc.valid (m.abs p) = true :=
  fm_length_iff (fun m : MapObj => m.vc.valid (m.abs p)) (fun m => m.abs p) maps

/-- when every input is valid at `p` the list is simply the inputs' values -/
theorem vals_all (maps : List MapObj) (p : Nat) (h : ∀ m ∈ maps, m.vc.valid (m.abs p) = true) :
    vals maps p = maps.map (·.abs p) := by
  induction maps with
  | nil => rfl
  | cons m ms ih =>
    unfold vals at ih ⊢
    rw [List.filterMap_cons, h m List.mem_cons_self, if_pos rfl, List.map_cons,
      ih (fun a ha => h a (List.mem_cons_of_mem _ ha))]

theorem mem_vals {maps : List MapObj} {p : Nat} {x : Val} (h : x ∈ vals maps p) :
    ∃ m ∈ maps, m.vc.valid (m.abs p) = true ∧ x = m.abs p := by
  unfold vals at h
  obtain ⟨m, hm, hx⟩ := List.mem_filterMap.1 h
  split at hx
  · rename_i hv
    cases hx
    exact ⟨m, hm, hv, rfl⟩
  · cases hx

/-- the value the property prescribes at pixel `p`, given the list `vs` of valid inputs and the
    number `n` of maps: the seeded left fold (`Model/MultiOps.denseMulti` with the inputs read
    through their own sentinels) -/
def denseOf (sent : Val) (f : Val → Val → Val) (filler : Val) (union fillFirst : Bool) (n : Nat)
    (vs : List Val) : Val :=
  if union then (if vs.isEmpty then sent else vs.foldl f filler)
  else if vs.length = n then
    (if fillFirst then (match vs with | [] => sent | v :: rest => rest.foldl f v)
     else vs.foldl f filler)
  else sent

theorem denseMulti_eq_denseOf (c : Cfg) (vc : VCfg Val) (ms : List (State Val)) (f : Val → Val → Val)
    (filler : Val) (union fillFirst : Bool) (p : Nat) :
    denseMulti c vc ms f filler union fillFirst p =
      denseOf vc.sentinel f filler union fillFirst ms.length (validInputs c vc ms p) := by
  unfold denseMulti denseOf
  simp only []
  cases validInputs c vc ms p <;> rfl

/-! ### normalising an input to the output sentinel -/

theorem c_eq_of_orders {m first : MapObj} (h1 : m.covord = first.covord) (h2 : m.spord = first.spord) :
    m.c = first.c := by
  unfold MapObj.c; rw [h1, h2]

theorem inv_norm {c : Cfg} (vc : VCfg Val) (m : MapObj) (h : Inv c m.vc m.st) (hb : m.BlankInvalid) :
    Inv c vc (norm vc m) := by
  apply inv_mapCells c m.vc vc m.st _ h
  unfold MapObj.BlankInvalid at hb
  simp only [hb, Bool.false_eq_true, if_false]

theorem abs_norm {c : Cfg} (vc : VCfg Val) (m : MapObj) (h : Inv c m.vc m.st) (p : Nat)
    (hp : p < c.npix) :
    abs c vc (norm vc m) p =
      if m.vc.valid (abs c m.vc m.st p) then abs c m.vc m.st p else vc.sentinel :=
  abs_mapCells c m.vc vc m.st _ h p hp

/-- a valid value read at a pixel is a cell of the storage -/
theorem abs_mem_sp {c : Cfg} {vc : VCfg Val} {s : State Val} (h : Inv c vc s) {p : Nat}
    (hp : p < c.npix) : abs c vc s p ∈ s.sp := by
  have hlt := h.idxOf_lt_size hp
  show rd s.sp (idxOf c s p) vc.sentinel ∈ s.sp
  unfold rd
  rw [Array.getElem?_eq_getElem hlt, Option.getD_some]
  exact Array.getElem_mem hlt

theorem sentClash_false_iff (vc : VCfg Val) (maps : List MapObj) :
    sentClash vc maps = false ↔
      ∀ m ∈ maps, ∀ x ∈ m.st.sp, m.vc.valid x = true → vc.valid x = true := by
  unfold sentClash
  rw [Bool.eq_false_iff]
  simp only [ne_eq, List.any_eq_true, Array.any_eq_true', Bool.and_eq_true, Bool.not_eq_true',
    not_exists, not_and, Bool.not_eq_false]

/-- under the sentinel guard, the normalised inputs are valid exactly where the inputs are, with
    the same values -/
theorem validInputs_norm {c : Cfg} (vc : VCfg Val) (maps : List MapObj)
    (hc : ∀ m ∈ maps, m.c = c) (hInv : ∀ m ∈ maps, Inv m.c m.vc m.st)
    (hv : vc.valid vc.sentinel = false)
    (hcl : ∀ m ∈ maps, ∀ x ∈ m.st.sp, m.vc.valid x = true → vc.valid x = true)
    (p : Nat) (hp : p < c.npix) :
    validInputs c vc (maps.map (norm vc)) p = vals maps p := by
  unfold validInputs vals
  rw [List.filterMap_map]
  apply filterMap_congr'
  intro m hm
  have hcm := hc m hm
  have hI : Inv c m.vc m.st := by rw [← hcm]; exact hInv m hm
  show (if vc.valid (abs c vc (norm vc m) p) = true then some (abs c vc (norm vc m) p) else none) = _
  rw [abs_norm vc m hI p hp]
  have habs : m.abs p = abs c m.vc m.st p := by unfold MapObj.abs; rw [hcm]
  rw [habs]
  cases hval : m.vc.valid (abs c m.vc m.st p) with
  | true =>
    simp only [if_true]
    rw [hcl m hm _ (abs_mem_sp hI hp) hval]
    rfl
  | false =>
    simp only [Bool.false_eq_true, if_false, hv]


/-! ### the result's validity rule -/

theorem kindOut_cases (row : OpRow) (first : MapObj) (hr : isRecd first.kind = false) :
    (∃ d, kindOut row first = .plain d) ∨ (∃ n, kindOut row first = .wide n) := by
  unfold kindOut multiKindOut
  cases hk : first.kind with
  | recd fs pr => rw [hk] at hr; cases hr
  | plain dt => cases parseDTCode row.dtypeOut <;> exact Or.inl ⟨_, rfl⟩
  | packed => cases parseDTCode row.dtypeOut <;> exact Or.inl ⟨_, rfl⟩
  | wide n =>
    cases parseDTCode row.dtypeOut with
    | none => exact Or.inr ⟨_, rfl⟩
    | some d => exact Or.inl ⟨_, rfl⟩

/-- the blank cell of the result reads as unset -/
theorem vcOut_blank_invalid (row : OpRow) (first : MapObj) (hr : isRecd first.kind = false) :
    (vcOut row first).valid (vcOut row first).sentinel = false := by
  unfold vcOut
  rcases kindOut_cases row first hr with ⟨d, h⟩ | ⟨n, h⟩
  · rw [h]; exact Kind.valid_blank_plain d first.sent
  · rw [h]; exact Kind.valid_blank_wide n first.sent

/-- the blank cell of the empty result reads as unset -/
theorem vcE_blank_invalid (row : OpRow) (first : MapObj) (hk : first.KindOk) :
    (vcE row first).valid (vcE row first).sentinel = false := by
  unfold vcE kindE multiKindE
  cases parseDTCode row.dtypeOut with
  | some d => exact Kind.valid_blank_plain d first.sent
  | none => exact hk.blankInvalid

theorem covered_norm (c : Cfg) (vc : VCfg Val) (m : MapObj) (k : Nat) :
    covered c (norm vc m) k = covered c m.st k := rfl

theorem anyCov_false_iff (row : OpRow) (first : MapObj) (maps : List MapObj) :
    anyCov row first maps = false ↔ ∀ k, k < first.c.ncov →
      (if row.union then maps.any (fun m => covered m.c m.st k)
       else maps.all (fun m => covered m.c m.st k)) = false := by
  unfold anyCov
  rw [Bool.eq_false_iff]
  simp only [ne_eq, List.any_eq_true, List.mem_range, not_exists, not_and, Bool.not_eq_true]

/-- what the structural preconditions say of each input -/
theorem Accepts.mem {row : OpRow} {first : MapObj} {maps : List MapObj} (h : Accepts row first maps)
    {m : MapObj} (hm : m ∈ maps) :
    isRecd m.kind = false ∧ (row.intOnly = true → m.kind.isIntegerMap = true) ∧
      m.covord = first.covord ∧ m.spord = first.spord ∧ wideW m.kind = wideW first.kind :=
  (mapCheck_none_iff row first m).1 (h.2.2.1 m hm)

theorem Accepts.c_eq {row : OpRow} {first : MapObj} {maps : List MapObj} (h : Accepts row first maps)
    {m : MapObj} (hm : m ∈ maps) : m.c = first.c :=
  c_eq_of_orders (h.mem hm).2.2.1 (h.mem hm).2.2.2.1

/-- outside the combined coverage the specification prescribes the sentinel (whatever it is) -/
theorem denseOf_uncovered {row : OpRow} {first : MapObj} {maps : List MapObj}
    (hacc : Accepts row first maps) (hok : ∀ m ∈ maps, m.WF ∧ m.KindOk)
    (sent : Val) (f : Val → Val → Val) (filler : Val) (p : Nat) (hp : p < first.c.npix)
    (hnc : (if row.union then maps.any (fun m => covered m.c m.st (p >>> first.c.shift))
            else maps.all (fun m => covered m.c m.st (p >>> first.c.shift))) = false) :
    denseOf sent f filler row.union row.fillFirst maps.length (vals maps p) = sent := by
  have hinval : ∀ m ∈ maps, covered m.c m.st (p >>> first.c.shift) = false →
      m.vc.valid (m.abs p) = false := by
    intro m hm hc
    have hcm := hacc.c_eq hm
    have hI := (hok m hm).1.2
    unfold MapObj.abs
    rw [hI.abs_uncovered (by rw [hcm]; exact hp) (by rw [hcm] at hc ⊢; exact hc)]
    exact (hok m hm).2.blankInvalid
  unfold denseOf
  cases hu : row.union with
  | true =>
    rw [hu] at hnc
    simp only [if_true] at hnc ⊢
    have hnil : vals maps p = [] := by
      rw [vals_eq_nil_iff]
      intro m hm
      apply hinval m hm
      cases hc : covered m.c m.st (p >>> first.c.shift) with
      | false => rfl
      | true =>
        have : maps.any (fun m => covered m.c m.st (p >>> first.c.shift)) = true :=
          List.any_eq_true.2 ⟨m, hm, hc⟩
        rw [this] at hnc; cases hnc
    rw [hnil]; rfl
  | false =>
    rw [hu] at hnc
    simp only [Bool.false_eq_true, if_false] at hnc ⊢
    have hlen : ¬ (vals maps p).length = maps.length := by
      rw [vals_length_eq_iff]
      intro hall
      have : maps.all (fun m => covered m.c m.st (p >>> first.c.shift)) = true := by
        rw [List.all_eq_true]
        intro m hm
        cases hc : covered m.c m.st (p >>> first.c.shift) with
        | true => rfl
        | false => have := hall m hm; rw [hinval m hm hc] at this; cases this
      rw [this] at hnc; cases hnc
    rw [if_neg hlen]

/-- **the core call under the API's preconditions**: it succeeds, and its result obeys the
    layout, holds the seeded fold of the inputs valid at each pixel — validity judged by each
    input's own sentinel — and covers the union / intersection of the inputs' coverage -/
theorem core_spec {row : OpRow} {first : MapObj} {maps : List MapObj}
    (hacc : Accepts row first maps) (hfirst : first ∈ maps) (hok : ∀ m ∈ maps, m.WF ∧ m.KindOk)
    (hcl : sentClash (vcOut row first) maps = false) :
    ∃ st, core row first maps = some st ∧ Inv first.c (vcOut row first) st ∧
      (∀ p, p < first.c.npix → abs first.c (vcOut row first) st p =
        denseOf (vcOut row first).sentinel (cellF row first) (fillerOf row first) row.union
          row.fillFirst maps.length (vals maps p)) ∧
      (∀ k, k < first.c.ncov → covered first.c st k =
        if row.union then maps.any (fun m => covered m.c m.st k)
        else maps.all (fun m => covered m.c m.st k)) := by
  have hrec : isRecd first.kind = false := (hacc.mem hfirst).1
  have hv := vcOut_blank_invalid row first hrec
  have hInvN : ∀ s ∈ maps.map (norm (vcOut row first)), Inv first.c (vcOut row first) s := by
    intro s hs
    obtain ⟨m, hm, rfl⟩ := List.mem_map.1 hs
    apply inv_norm _ m _ (hok m hm).2.blankInvalid
    rw [← hacc.c_eq hm]; exact (hok m hm).1.2
  have hne : maps.map (norm (vcOut row first)) ≠ [] := by
    intro h; rw [List.map_eq_nil_iff] at h; rw [h] at hfirst; cases hfirst
  have hff : row.fillFirst = true → row.union = false := by
    intro h1
    cases hu : row.union with
    | false => rfl
    | true => exact absurd ⟨h1, hu⟩ hacc.2.1
  obtain ⟨st, hst, hI, habs, hcov⟩ := multiOp_spec' first.c (vcOut row first)
    (maps.map (norm (vcOut row first))) (cellF row first) (fillerOf row first) row.union
    row.fillFirst hInvN hv hne hff
  refine ⟨st, hst, hI, ?_, ?_⟩
  · intro p hp
    rw [habs p hp, denseMulti_eq_denseOf, List.length_map,
      validInputs_norm (vcOut row first) maps (fun m hm => hacc.c_eq hm)
        (fun m hm => (hok m hm).1.2) hv ((sentClash_false_iff _ _).1 hcl) p hp]
  · intro k hk
    rw [hcov k hk, List.any_map, List.all_map]
    have e : ∀ m ∈ maps, covered first.c (norm (vcOut row first) m) k = covered m.c m.st k := by
      intro m hm; rw [covered_norm, hacc.c_eq hm]
    cases row.union with
    | true =>
      simp only [if_true]
      exact any_congr_mem e
    | false =>
      simp only [Bool.false_eq_true, if_false]
      exact all_congr_mem e


/-- **everything a successful call determines**, for well-formed, well-typed inputs -/
theorem ok_sem {row : OpRow} {maps : List MapObj} {m' : MapObj}
    (hok : ∀ m ∈ maps, m.WF ∧ m.KindOk) (h : apiMultiOp row maps = .ok m') :
    ∃ first rest, maps = first :: rest ∧ Accepts row first maps ∧
      m'.covord = first.covord ∧ m'.spord = first.spord ∧ m'.sent = first.sent ∧ m'.cache = none ∧
      m'.kind = (if anyCov row first maps then kindOut row first else kindE row first) ∧
      m'.WF ∧ m'.BlankInvalid ∧
      (anyCov row first maps = true → promotedOk row first = true ∧
        sentClash (vcOut row first) maps = false) ∧
      (∀ p, p < m'.npix → m'.abs p =
        denseOf m'.vc.sentinel (cellF row first) (fillerOf row first) row.union row.fillFirst
          maps.length (vals maps p)) ∧
      (∀ k, k < m'.c.ncov → covered m'.c m'.st k =
        if row.union then maps.any (fun m => covered m.c m.st k)
        else maps.all (fun m => covered m.c m.st k)) := by
  obtain ⟨first, rest, rfl, hacc, hcase⟩ := (ok_iff row maps m').1 h
  have hfirst : first ∈ first :: rest := List.mem_cons_self
  refine ⟨first, rest, rfl, hacc, ?_⟩
  rcases hcase with ⟨hac, rfl⟩ | ⟨hac, hpr, hcl, _, st, hst, _, rfl⟩
  · have hnc := (anyCov_false_iff row first _).1 hac
    refine ⟨rfl, rfl, rfl, rfl, by rw [hac]; rfl, ?_,
      vcE_blank_invalid row first (hok first hfirst).2,
      (fun h => by rw [hac] at h; cases h), ?_, ?_⟩
    · exact ⟨(hok first hfirst).1.1,
        inv_makeEmpty' first.c (vcE row first) [] List.nodup_nil (by simp)⟩
    · intro p hp
      show abs first.c (vcE row first) (makeEmpty first.c (vcE row first) []) p = _
      rw [makeEmpty_abs']
      exact (denseOf_uncovered hacc hok _ _ _ p hp (hnc _ (covpix_lt first.c p hp))).symm
    · intro k hk
      show covered first.c (makeEmpty first.c (vcE row first) []) k = _
      rw [covered_makeEmpty first.c (vcE row first) [] List.nodup_nil k hk, hnc k hk]
      simp
  · obtain ⟨st', hst', hI, habs, hcov⟩ := core_spec hacc hfirst hok hcl
    rw [hst] at hst'
    cases hst'
    refine ⟨rfl, rfl, rfl, rfl, by rw [hac]; rfl, ⟨(hok first hfirst).1.1, hI⟩,
      vcOut_blank_invalid row first (hacc.mem hfirst).1, (fun _ => ⟨hpr, hcl⟩), habs, hcov⟩


/-- with well-formed inputs no listing ever raises: the data-dependent phase never ends in an
    `IndexError` -/
theorem dataErr_ne_index {row : OpRow} {first : MapObj} {maps : List MapObj}
    (hacc : Accepts row first maps) (hfirst : first ∈ maps) (hok : ∀ m ∈ maps, m.WF ∧ m.KindOk) :
    dataErr row first maps ≠ some .index := by
  unfold dataErr
  split
  · intro h; cases h
  split
  · intro h; cases h
  split
  · intro h; cases h
  rename_i hcl
  split
  · intro h; cases h
  obtain ⟨st, hst, _⟩ := core_spec hacc hfirst hok (by simpa using hcl)
  rw [hst]
  simp only []
  split <;> (intro h; cases h)

/-- for well-formed, well-typed inputs the call never raises an `IndexError` -/
theorem never_index {row : OpRow} {maps : List MapObj} (hok : ∀ m ∈ maps, m.WF ∧ m.KindOk) :
    apiMultiOp row maps ≠ .error .index := by
  intro h
  rcases (error_iff row maps .index).1 h with h | ⟨hs, first, rest, rfl, hd⟩
  · unfold structErr at h
    cases maps with
    | nil => cases h
    | cons first rest =>
      simp only [] at h
      split at h
      · cases h
      split at h
      · cases h
      split at h
      · rename_i e he
        cases h
        obtain ⟨m, _, hm⟩ := List.exists_of_findSome?_eq_some he
        unfold mapCheck at hm
        split at hm
        · cases hm
        · repeat' split at hm
          all_goals cases hm
      · split at h <;> cases h
  · obtain ⟨f, r, hfr, hacc⟩ := (structErr_none_iff row _).1 hs
    cases hfr
    exact dataErr_ne_index hacc List.mem_cons_self hok hd

/-! ### reading `denseOf` -/

theorem denseOf_union_nil (sent : Val) (f : Val → Val → Val) (e : Val) (ff : Bool) (n : Nat) :
    denseOf sent f e true ff n [] = sent := rfl

theorem denseOf_union_cons (sent : Val) (f : Val → Val → Val) (e : Val) (ff : Bool) (n : Nat)
    (v : Val) (vs : List Val) :
    denseOf sent f e true ff n (v :: vs) = vs.foldl f (f e v) := rfl

theorem denseOf_inter_ne (sent : Val) (f : Val → Val → Val) (e : Val) (ff : Bool) (n : Nat)
    (vs : List Val) (h : vs.length ≠ n) : denseOf sent f e false ff n vs = sent := by
  unfold denseOf
  simp only [Bool.false_eq_true, if_false]
  rw [if_neg h]

theorem denseOf_inter_first (sent : Val) (f : Val → Val → Val) (e : Val) (n : Nat)
    (v : Val) (vs : List Val) (h : (v :: vs).length = n) :
    denseOf sent f e false true n (v :: vs) = vs.foldl f v := by
  unfold denseOf
  simp only [Bool.false_eq_true, if_false, if_true]
  rw [if_pos h]

theorem denseOf_inter_seeded (sent : Val) (f : Val → Val → Val) (e : Val) (n : Nat)
    (v : Val) (vs : List Val) (h : (v :: vs).length = n) :
    denseOf sent f e false false n (v :: vs) = vs.foldl f (f e v) := by
  unfold denseOf
  simp only [Bool.false_eq_true, if_false]
  rw [if_pos h]
  rfl

/-! ### neutrality of the start value -/


def inDT (dt : DT) (x : Val) : Bool :=
  match dt, x with
  | .int b sg, .num n 0 => decide (0 < b) && wrapInt b sg n == n
  | .flt _, .num n e => dyNorm n e == (n, e)
  | _, _ => false

def isBitUfunc (u : String) : Bool := u == "bitwise_or" || u == "bitwise_and" || u == "bitwise_xor"

theorem neutral_num {u : String} {dt : DT} {e x : Val} (h : neutralFiller u dt = some e)
    (hx : inDT dt x = true) (hb : isBitUfunc u = true → dt.isFlt = false) :
    ufuncCell u dt e x = x := by
  cases dt with
  | bool => simp [inDT] at hx
  | int b sg =>
    cases x with
    | num n ex =>
      cases ex with
      | succ _ => simp [inDT] at hx
      | zero =>
        simp only [inDT, Bool.and_eq_true, decide_eq_true_eq, beq_iff_eq] at hx
        obtain ⟨hbpos, hw⟩ := hx
        have hbd := wrapInt_bounds b hbpos sg n hw
        unfold neutralFiller at h
        split at h <;> cases h
        all_goals first
          | (with_reducible exact add_zero_int b sg _ n hw)
          | (with_reducible exact mul_one_int b sg n hw)
          | (with_reducible exact or_zero_int b sg _ n hw)
          | (with_reducible exact xor_zero_int b sg _ n hw)
          | (rename_i heq; cases heq <;>
             first
             | (with_reducible exact and_ones_int b sg n hw)
             | (with_reducible exact fmax_min_int b sg _ n hbd.1 hw)
             | (with_reducible exact fmin_max_int b sg _ n hbd.2 hw))
    | _ => simp [inDT] at hx
  | flt bits =>
    cases x with
    | num n ex =>
      simp only [inDT, beq_iff_eq] at hx
      unfold neutralFiller at h
      split at h <;> cases h
      all_goals first
        | (with_reducible exact add_zero_flt bits _ n ex hx)
        | (with_reducible exact mul_one_flt bits n ex hx)
        | (with_reducible exact fmax_inf _ _)
        | (with_reducible exact fmin_inf _ _)
        | exact absurd (hb (by decide)) (by simp [DT.isFlt])
        | (rename_i heq; cases heq)
    | _ => simp [inDT] at hx


def inWide (n : Nat) (x : Val) : Bool :=
  match x with
  | .bytes bs => bs.length == n && bs.all (· < 256)
  | _ => false

theorem zipWith_replicate_left (g : Nat → Nat → Nat) (k : Nat) :
    ∀ bs : List Nat, (∀ q ∈ bs, g k q = q) → List.zipWith g (List.replicate bs.length k) bs = bs
  | [], _ => rfl
  | q :: bs, h => by
    rw [List.length_cons, List.replicate_succ, List.zipWith_cons_cons, h q List.mem_cons_self,
      zipWith_replicate_left g k bs (fun r hr => h r (List.mem_cons_of_mem _ hr))]

theorem neutral_wide {u : String} {n : Nat} {k : Int} {e0 : Nat} {x : Val}
    (h : neutralFiller u (.int 8 false) = some (.num k e0)) (hx : inWide n x = true) :
    ufuncCell u (.int 8 false) (.bytes (List.replicate n k.toNat)) x = x := by
  cases x with
  | bytes bs =>
    simp only [inWide, Bool.and_eq_true, beq_iff_eq, List.all_eq_true, decide_eq_true_eq] at hx
    obtain ⟨hlen, hlt⟩ := hx
    subst hlen
    unfold neutralFiller at h
    split at h <;> cases h
    · show Val.bytes (List.zipWith _ _ _) = _
      rw [zipWith_replicate_left]
      intro q hq; have := hlt q hq; show (0 + q) % 256 = q; omega
    · show Val.bytes (List.zipWith _ _ _) = _
      rw [zipWith_replicate_left]
      intro q hq; have := hlt q hq; show (1 * q) % 256 = q; omega
    · show Val.bytes (List.zipWith _ _ _) = _
      rw [zipWith_replicate_left]
      intro q hq; show 0 ||| q = q; exact Nat.zero_or q
    · show Val.bytes (List.zipWith _ _ _) = _
      rw [zipWith_replicate_left]
      intro q hq; show 0 ^^^ q = q; exact Nat.zero_xor q
    · rename_i heq; cases heq
      show Val.bytes (List.zipWith _ _ _) = _
      rw [zipWith_replicate_left]
      intro q hq; have := hlt q hq
      show 255 &&& q = q
      rw [Nat.and_comm, show (255 : Nat) = 2 ^ 8 - 1 from rfl, Nat.and_two_pow_sub_one_eq_mod]
      omega
    · rename_i heq; cases heq
      show Val.bytes (List.zipWith _ _ _) = _
      rw [zipWith_replicate_left]
      intro q hq; show max 0 q = q; omega
    · rename_i heq; cases heq
      show Val.bytes (List.zipWith _ _ _) = _
      rw [zipWith_replicate_left]
      intro q hq; have := hlt q hq; show min 255 q = q; omega
  | _ => simp [inWide] at hx


/-- the cell is a member of the carrier of the array the ufunc runs on: a byte row of the
    map's width for wide masks, else an in-range integer / a normalised dyadic of the OUTPUT
    dtype -/
def inOut (row : OpRow) (first : MapObj) (x : Val) : Bool :=
  match first.kind with
  | .wide n => inWide n x
  | _ => inDT (dtOut row first) x

/-- the ufuncs of the fourteen named operations that fold from a neutral start value -/
def namedUfuncs : List String :=
  ["add", "multiply", "bitwise_or", "bitwise_and", "bitwise_xor", "fmax", "fmin"]

theorem neutralFiller_int {u : String} (hu : u ∈ namedUfuncs) (b : Nat) (sg : Bool) :
    ∃ k, neutralFiller u (.int b sg) = some (.num k 0) := by
  simp only [namedUfuncs, List.mem_cons, List.not_mem_nil, or_false] at hu
  rcases hu with rfl | rfl | rfl | rfl | rfl | rfl | rfl <;> exact ⟨_, rfl⟩

theorem neutralFiller_flt {u : String} (hu : u ∈ namedUfuncs) (hb : isBitUfunc u = false) (bits : Nat) :
    ∃ e, neutralFiller u (.flt bits) = some e := by
  simp only [namedUfuncs, List.mem_cons, List.not_mem_nil, or_false] at hu
  rcases hu with rfl | rfl | rfl | rfl | rfl | rfl | rfl <;>
    first | exact ⟨_, rfl⟩ | (exact absurd hb (by decide))

/-- **the start value never shows**: for a named operation (not `ufunc_*`, not seeded with the
    first map) the value the model starts the fold with is neutral on the carrier of the
    output array -/
theorem neutral_api {row : OpRow} {first : MapObj} {maps : List MapObj}
    (hacc : Accepts row first maps) (hfirst : first ∈ maps)
    (hu : isUfuncRow row = false) (hff : row.fillFirst = false) (hnamed : row.ufunc ∈ namedUfuncs)
    (hbit : isBitUfunc row.ufunc = true → (dtOut row first).isFlt = false)
    {x : Val} (hx : inOut row first x = true) :
    cellF row first (fillerOf row first) x = x := by
  have hrec := (hacc.mem hfirst).1
  have hspec : fillerSpec row first = (neutralFiller row.ufunc (dtArr row first)).getD row.filler := by
    unfold fillerSpec; rw [hu, hff]; rfl
  unfold cellF fillerOf inOut at *
  rw [hspec]
  cases hk : first.kind with
  | recd fs pr => rw [hk] at hrec; cases hrec
  | wide n =>
    rw [hk] at hx
    have hd : dtArr row first = .int 8 false := by unfold dtArr; rw [hk]; rfl
    rw [hd]
    obtain ⟨k, hk'⟩ := neutralFiller_int hnamed 8 false
    rw [hk']
    exact neutral_wide hk' hx
  | plain dt0 =>
    rw [hk] at hx
    have hd : dtArr row first = dtOut row first := by unfold dtArr; rw [hk]; rfl
    rw [hd]
    simp only [] at hx ⊢
    cases hdo : dtOut row first with
    | bool => rw [hdo] at hx; simp [inDT] at hx
    | int b sg =>
      obtain ⟨k, hk'⟩ := neutralFiller_int hnamed b sg
      rw [hk']; rw [hdo] at hx
      exact neutral_num hk' hx (fun _ => rfl)
    | flt bits =>
      have hb : isBitUfunc row.ufunc = false := by
        cases h : isBitUfunc row.ufunc with
        | false => rfl
        | true => have := hbit h; rw [hdo] at this; cases this
      obtain ⟨e, he⟩ := neutralFiller_flt hnamed hb bits
      rw [he]; rw [hdo] at hx
      exact neutral_num he hx (fun h => by rw [hb] at h; cases h)
  | packed =>
    rw [hk] at hx
    have hd : dtArr row first = dtOut row first := by unfold dtArr; rw [hk]; rfl
    rw [hd]
    simp only [] at hx ⊢
    cases hdo : dtOut row first with
    | bool => rw [hdo] at hx; simp [inDT] at hx
    | int b sg =>
      obtain ⟨k, hk'⟩ := neutralFiller_int hnamed b sg
      rw [hk']; rw [hdo] at hx
      exact neutral_num hk' hx (fun _ => rfl)
    | flt bits =>
      have hb : isBitUfunc row.ufunc = false := by
        cases h : isBitUfunc row.ufunc with
        | false => rfl
        | true => have := hbit h; rw [hdo] at this; cases this
      obtain ⟨e, he⟩ := neutralFiller_flt hnamed hb bits
      rw [he]; rw [hdo] at hx
      exact neutral_num he hx (fun h => by rw [hb] at h; cases h)

end ApiMulti
end HS
