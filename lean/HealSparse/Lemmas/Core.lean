/-
  Helper lemmas for the core model (index arithmetic, scatter, coverage construction).
  Helper lemmas live here; property theorems live in HealSparse/Props.
-/
import HealSparse.Model.Core
import HealSparse.Model.Map
namespace HS

variable {V : Type}

theorem rd_eq_getElem {α} (a : Array α) (i : Nat) (d : α) (h : i < a.size) : rd a i d = a[i] := by
  simp [rd, h]

theorem rd_oob {α} (a : Array α) (i : Nat) (d : α) (h : a.size ≤ i) : rd a i d = d := by
  simp [rd, h]

theorem shift_eq_div (c : Cfg) (p : Nat) : p >>> c.shift = p / c.nfine := by
  simp [Cfg.nfine, Nat.shiftRight_eq_div_pow]

/-- `lookup p = blockStart (p >> shift) + p % nfine`. -/
theorem lookup_eq (c : Cfg) (s : State V) (p : Nat) :
    lookup c s p = blockStart c s (p >>> c.shift) + ((p % c.nfine : Nat) : Int) := by
  rw [shift_eq_div]
  unfold lookup blockStart
  rw [shift_eq_div]
  have h := Nat.div_add_mod p c.nfine
  rw [Nat.mul_comm] at h
  generalize p / c.nfine * c.nfine = a at *
  generalize p % c.nfine = b at *
  omega

theorem covpix_lt (c : Cfg) (p : Nat) (h : p < c.npix) : p >>> c.shift < c.ncov := by
  rw [shift_eq_div, Nat.div_lt_iff_lt_mul c.nfine_pos]
  exact h

theorem scatter_size {W} (g : V → W → V) (a : Array V) (upd : List (Nat × W)) :
    (scatter g a upd).size = a.size := by
  unfold scatter
  induction upd generalizing a with
  | nil => rfl
  | cons x xs ih => simp [List.foldl_cons, ih]

/-- Sequential scatter, read back at cell `j`. -/
theorem scatter_rd {W} (g : V → W → V) (a : Array V) (upd : List (Nat × W)) (j : Nat) (d : V)
    (hj : j < a.size) :
    rd (scatter g a upd) j d =
      upd.foldl (fun x iw => if iw.1 = j then g x iw.2 else x) (rd a j d) := by
  unfold scatter
  induction upd generalizing a with
  | nil => rfl
  | cons x xs ih =>
    simp only [List.foldl_cons]
    rw [ih _ (by simpa using hj)]
    congr 1
    simp only [rd, Array.getElem?_modify]
    split <;> simp_all
theorem covered_eq_true_iff (c : Cfg) (s : State V) (k : Nat) :
    covered c s k = true ↔ ((c.nfine : Nat) : Int) ≤ blockStart c s k := by
  simp [covered]

theorem covered_eq_false_iff (c : Cfg) (s : State V) (k : Nat) :
    covered c s k = false ↔ blockStart c s k < ((c.nfine : Nat) : Int) := by
  simp [covered]

/-- pure arithmetic: `a*n + r = a'*n + r'` with small remainders determines both parts. -/
theorem mul_add_inj {n a r a' r' : Nat} (hr : r < n) (hr' : r' < n)
    (h : a * n + r = a' * n + r') : a = a' ∧ r = r' := by
  have hn : 0 < n := by omega
  have h1 : (a * n + r) / n = a := by
    rw [Nat.mul_comm, Nat.mul_add_div hn, Nat.div_eq_of_lt hr]; rfl
  have h2 : (a' * n + r') / n = a' := by
    rw [Nat.mul_comm, Nat.mul_add_div hn, Nat.div_eq_of_lt hr']; rfl
  have : a = a' := by rw [← h1, ← h2, h]
  subst this
  exact ⟨rfl, by omega⟩

section
variable [DecidableEq V] {c : Cfg} {vc : VCfg V} {s : State V}

theorem Inv.nblk_succ (h : Inv c vc s) : nblk c s + 1 = s.sp.size / c.nfine := by
  have hsp := h.2.1
  have hn := c.nfine_pos
  unfold nblk at *
  generalize c.nfine = n at *
  generalize hq : s.sp.size / n = q at *
  cases q with
  | zero =>
    simp at hsp
    rw [hsp, Nat.div_self hn] at hq
    omega
  | succ q => omega

theorem Inv.size_eq (h : Inv c vc s) : s.sp.size = (nblk c s + 1) * c.nfine := h.2.1

theorem Inv.nfine_le_size (h : Inv c vc s) : c.nfine ≤ s.sp.size := by
  rw [h.size_eq, Nat.succ_mul]; omega

/-- a covered coverage pixel owns one of the data blocks `1..nblk`. -/
theorem Inv.covered_blk (h : Inv c vc s) {k : Nat} (hk : k < c.ncov)
    (hc : covered c s k = true) :
    ∃ b, b < nblk c s ∧ blockStart c s k = (((b + 1) * c.nfine : Nat) : Int) := by
  have hsz := h.size_eq
  obtain ⟨_, _, _, hblk, _, _⟩ := h
  rw [covered_eq_true_iff] at hc
  have hn := c.nfine_pos
  rcases hblk k hk with h0 | ⟨h1, h2, h3⟩
  · omega
  · generalize blockStart c s k = bs at *
    obtain ⟨m, rfl⟩ := Int.eq_ofNat_of_zero_le (a := bs) (by omega)
    generalize c.nfine = n at *
    have h2' : m % n = 0 := by exact_mod_cast h2
    have h1' : n ≤ m := by exact_mod_cast h1
    have h3' : m < s.sp.size := by exact_mod_cast h3
    have hm := Nat.div_add_mod m n
    rw [h2', Nat.mul_comm] at hm
    have hq1 : 1 ≤ m / n := (Nat.le_div_iff_mul_le hn).2 (by omega)
    have hq2 : m / n < nblk c s + 1 := by
      rw [Nat.div_lt_iff_lt_mul hn, ← hsz]; exact h3'
    refine ⟨m / n - 1, by omega, ?_⟩
    have : m / n - 1 + 1 = m / n := by omega
    rw [this]
    omega

theorem Inv.uncovered_bs (h : Inv c vc s) {k : Nat} (hk : k < c.ncov)
    (hc : covered c s k = false) : blockStart c s k = 0 := by
  obtain ⟨_, _, _, hblk, _, _⟩ := h
  rw [covered_eq_false_iff] at hc
  rcases hblk k hk with h0 | ⟨h1, _, _⟩
  · exact h0
  · omega

theorem Inv.lookup_covered (h : Inv c vc s) {p : Nat} (hp : p < c.npix)
    (hc : covered c s (p >>> c.shift) = true) :
    ∃ b, b < nblk c s ∧
      blockStart c s (p >>> c.shift) = (((b + 1) * c.nfine : Nat) : Int) ∧
      lookup c s p = (((b + 1) * c.nfine + p % c.nfine : Nat) : Int) := by
  obtain ⟨b, hb, hbs⟩ := h.covered_blk (covpix_lt c p hp) hc
  refine ⟨b, hb, hbs, ?_⟩
  rw [lookup_eq, hbs]
  omega

theorem Inv.lookup_uncovered (h : Inv c vc s) {p : Nat} (hp : p < c.npix)
    (hc : covered c s (p >>> c.shift) = false) :
    lookup c s p = ((p % c.nfine : Nat) : Int) := by
  rw [lookup_eq, h.uncovered_bs (covpix_lt c p hp) hc]
  omega

/-- block arithmetic: cell `(b+1)*n + r` of a data block lies in `[n, (nblk+1)*n)`. -/
theorem blk_cell_range {n b r m : Nat} (hb : b < m) (hr : r < n) :
    n ≤ (b + 1) * n + r ∧ (b + 1) * n + r < (m + 1) * n := by
  have h1 : (b + 1) * n = b * n + n := Nat.succ_mul b n
  have h2 : (b + 2) * n ≤ (m + 1) * n := Nat.mul_le_mul_right n (by omega)
  have h3 : (b + 2) * n = b * n + n + n := by rw [Nat.add_mul]; omega
  omega

theorem Inv.idxOf_covered (h : Inv c vc s) {p : Nat} (hp : p < c.npix)
    (hc : covered c s (p >>> c.shift) = true) :
    c.nfine ≤ idxOf c s p ∧ idxOf c s p < s.sp.size ∧ lookup c s p = ((idxOf c s p : Nat) : Int) := by
  obtain ⟨b, hb, _, hl⟩ := h.lookup_covered hp hc
  have := blk_cell_range (n := c.nfine) (r := p % c.nfine) hb (Nat.mod_lt _ c.nfine_pos)
  have hidx : idxOf c s p = (b + 1) * c.nfine + p % c.nfine := by
    unfold idxOf; rw [hl]; exact Int.toNat_natCast _
  rw [hidx, h.size_eq]
  exact ⟨this.1, this.2, hl⟩

theorem Inv.idxOf_uncovered (h : Inv c vc s) {p : Nat} (hp : p < c.npix)
    (hc : covered c s (p >>> c.shift) = false) :
    idxOf c s p = p % c.nfine ∧ idxOf c s p < c.nfine := by
  have hidx : idxOf c s p = p % c.nfine := by
    unfold idxOf; rw [h.lookup_uncovered hp hc]; exact Int.toNat_natCast _
  rw [hidx]
  exact ⟨rfl, Nat.mod_lt _ c.nfine_pos⟩

theorem Inv.lookup_inj (h : Inv c vc s) {p q : Nat}
    (hp : p < c.npix) (hq : q < c.npix) (hc : covered c s (p >>> c.shift) = true)
    (he : lookup c s p = lookup c s q) : p = q := by
  obtain ⟨b, hb, hbs, hl⟩ := h.lookup_covered hp hc
  have hn := c.nfine_pos
  have hrp := Nat.mod_lt p hn
  have hrq := Nat.mod_lt q hn
  cases hcq : covered c s (q >>> c.shift) with
  | false =>
    have hq' := h.lookup_uncovered hq hcq
    have := (blk_cell_range (n := c.nfine) (r := p % c.nfine) hb hrp).1
    omega
  | true =>
    obtain ⟨b', hb', hbs', hl'⟩ := h.lookup_covered hq hcq
    have he' : (b + 1) * c.nfine + p % c.nfine = (b' + 1) * c.nfine + q % c.nfine := by omega
    obtain ⟨hbb, hr⟩ := mul_add_inj hrp hrq he'
    have hbseq : blockStart c s (p >>> c.shift) = blockStart c s (q >>> c.shift) := by
      rw [hbs, hbs', hbb]
    have hk := h.2.2.2.2.1 _ (covpix_lt c p hp) _ (covpix_lt c q hq)
      ((covered_eq_true_iff c s _).1 hc) hbseq
    rw [shift_eq_div, shift_eq_div] at hk
    rw [← Nat.div_add_mod p c.nfine, ← Nat.div_add_mod q c.nfine, hk, hr]

theorem Inv.abs_uncovered (h : Inv c vc s) {p : Nat} (hp : p < c.npix)
    (hc : covered c s (p >>> c.shift) = false) : abs c vc s p = vc.sentinel := by
  have := h.idxOf_uncovered hp hc
  unfold abs rd
  change (s.sp[idxOf c s p]?).getD _ = _
  rw [h.2.2.1 _ this.2]; rfl
end

end HS
