/-
  C05 (array level) — `_PackedBoolArray` behaves like a NumPy boolean array.

  Model: `HealSparse/Model/Packed.lean` (one byte heap for all numpy buffers + one view
  descriptor `PBA` per `_PackedBoolArray` object; every method transcribed from
  `healsparse/packedBoolArray.py` as repaired on 2026-09-26, /repo commit 5aa1222).
  Helper lemmas: `HealSparse/Lemmas/Packed.lean`.

  Abstraction: `bits h p` = what `np.asarray(p)` shows (the model of `__array__`).
  Every theorem below has the shape `bits (method …) = <list operation on bits …>`, for ALL
  heaps, offsets, lengths, bit patterns, slice bounds, index lists and operands, under `WF h p`
  ("`p` satisfies the constructor's invariants and lies inside the heap" — proved to hold for
  everything produced by the constructor, `from_boolean_array`, `copy`, `resize` and slices).

  Where the code still deviates from NumPy the theorem is named `…_partial`, carries the exact
  extra hypothesis, shows the full NumPy statement in a comment and is followed by a concrete
  `example … := by decide` exhibiting the deviation on the model.  Remaining deviation:
  empty index / empty slice assignments skip the validation of the value.
-/
import HealSparse.Lemmas.Packed
import HealSparse.Lemmas.TwinOps
namespace HS
namespace C05
open Packed

/-- `bits h p` = `np.asarray(p)`: the model of `__array__` (`Packed.toBools`) -/
local notation "bits" => toBools

/-! ## Bytes -/

/-- "unpack, rewrite bits `[lo,hi)` with `f`, pack" changes exactly those bits. -/
theorem byteMod_getLsbD (b : Byte) (lo hi : Nat) (f : Nat → Bool → Bool) (t : Nat) (ht : t < 8) :
    (pack (setRange (unpack b) lo hi f)).getLsbD t =
      if lo ≤ t ∧ t < hi then f t (b.getLsbD t) else b.getLsbD t :=
  Packed.byteMod_getLsbD b lo hi f t ht

/-- `np.packbits ∘ np.unpackbits = id` on a byte. -/
theorem pack_unpack (b : Byte) : pack (unpack b) = b := Packed.pack_unpack b

/-- The lookup-table formula of `_bit_count` (0x55 / 0x33 / 0x0F, uint8 wrap-around) is the
    number of set bits, for all 256 bytes. -/
theorem bitCount_eq_popcount (b : Byte) : (bitCount b).toNat = (unpack b).count true :=
  bitCount_popcount b

/-! ## The abstraction -/

/-- `np.asarray(p)[i]` is heap bit `8·off + start + i`; its length is `stop − start`. -/
theorem bits_eq (h : Heap) (p : PBA) (hwf : WF h p) :
    bits h p = (List.range p.n).map fun i => hbit h (p.A + i) := toBools_eq h p hwf

/-- `len(p) = len(np.asarray(p))`. -/
theorem len_eq (h : Heap) (p : PBA) (hwf : WF h p) : p.pyLen = .ok (bits h p).length := by
  rw [hwf.pyLen, toBools_length h p hwf]

/-! ## `_extract_first_middle_last` -/

/-- The extraction never fails on a well-formed view. -/
theorem fml_total (h : Heap) (p : PBA) (hwf : WF h p) (mask : Bool) : ∃ f, p.fml h mask = .ok f :=
  PBA.fml_ok hwf mask

/-- First, middle and last part cover the bits `[start, stop)` of the view's bytes exactly
    once, and nothing else (all six cases of the code, with and without masking). -/
theorem fml_partition (h : Heap) (p : PBA) (hwf : WF h p) (mask : Bool) (f : FML)
    (hf : p.fml h mask = .ok f) (k : Nat) :
    f.cover p.len k = if p.start ≤ k ∧ k < p.start + p.n then 1 else 0 := by
  have hs := hwf.stop_eq
  obtain ⟨a1, a2, a3, a4, a5⟩ := hwf
  unfold PBA.fml at hf
  rw [hs] at hf
  exact fml_cover_raw _ p.len p.start (p.start + p.n) mask a1 (by omega) (by omega) f hf k

example : ∃ h p, WF h p ∧ p.start = 3 ∧ p.n = 27 := -- hypotheses satisfiable: `P(size=30)[3:30]`
  ⟨#[0, 0, 0, 0], ⟨0, 4, 3, 30, false⟩, ⟨by decide, by decide, by decide, by decide, by decide⟩, rfl, rfl⟩

/-! ## Construction -/

/-- `_PackedBoolArray(size=n, start_index=s)` is `np.zeros(n, bool)`; the new object is
    well formed, owns its buffer, and older arrays are untouched. -/
theorem new_bits (h : Heap) (n s : Nat) (hs : s < 8) :
    ∃ h' p, init h (some (n : Int)) none (some (s : Int)) none = .ok (h', p) ∧
      WF h' p ∧ p.own = true ∧ p.start = s ∧ bits h' p = List.replicate n false ∧
      ∀ w, WF h w → WF h' w ∧ bits h' w = bits h w := by
  obtain ⟨p, e, hwf, ho, hst, _, _, hb⟩ := init_sized_spec h n s hs
  exact ⟨_, p, e, hwf, ho, hst, hb, fun w hw => ⟨hw.append _, toBools_append hw _⟩⟩

/-- `from_boolean_array(arr, start_index=s)` shows `arr` (the start padding is invisible). -/
theorem fromBool_bits (h : Heap) (arr : List Bool) (s : Nat) (hs : s < 8) :
    ∃ h' p, fromBool h arr (some (s : Int)) = .ok (h', p) ∧
      WF h' p ∧ p.own = true ∧ p.start = s ∧ bits h' p = arr ∧
      ∀ w, WF h w → WF h' w ∧ bits h' w = bits h w := by
  obtain ⟨p, e, hwf, ho, hst, _, _, hb⟩ := fromBool_spec h arr s hs (some s) (Or.inl rfl)
  exact ⟨_, p, e, hwf, ho, hst, hb, fun w hw => ⟨hw.append _, toBools_append hw _⟩⟩

/-- `from_boolean_array(arr)` -/
theorem fromBool_bits_default (h : Heap) (arr : List Bool) :
    ∃ h' p, fromBool h arr none = .ok (h', p) ∧ WF h' p ∧ p.start = 0 ∧ bits h' p = arr := by
  obtain ⟨p, e, hwf, _, hst, _, _, hb⟩ := fromBool_spec h arr 0 (by omega) none (Or.inr ⟨rfl, rfl⟩)
  exact ⟨_, p, e, hwf, hst, hb⟩

/-- a negative `size` is rejected -/
theorem new_rejects_negative (h : Heap) (n : Int) (hn : n < 0) (start : Option Int) :
    init h (some n) none start none = .error .value := by
  have hd : decide (n < 0) = true := by simpa using hn
  cases start with
  | none => simp [init, checkStart, bind, Except.bind, hn, throw, throwThe, MonadExceptOf.throw]
  | some s =>
    by_cases c : s < 0 ∨ 7 < s
    · have : (decide (s < 0) || decide (s > 7)) = true := by simp; omega
      simp [init, checkStart, this, bind, Except.bind]
    · have : (decide (s < 0) || decide (s > 7)) = false := by simp; omega
      simp [init, checkStart, this, bind, Except.bind, hn, throw, throwThe, MonadExceptOf.throw]

/-- `start_index` outside `0..7` is rejected. -/
theorem new_rejects_start (h : Heap) (size : Option Int) (s : Int) (hs : s < 0 ∨ 7 < s) :
    init h size none (some s) none = .error .value := by
  have : (decide (s < 0) || decide (s > 7)) = true := by simp; omega
  cases size <;> simp [init, checkStart, this, bind, Except.bind]

/-! ## Slicing -/

/-- `self[lo:hi]` is accepted exactly when `0 ≤ lo ≤ size` (if given) and the stop (if given;
    `hi + size` for a negative `hi`) is at most `size`.  (NumPy clips instead of rejecting;
    the class documents these range checks.) -/
theorem slice_total (h : Heap) (p : PBA) (hwf : WF h p) (lo hi : Option Int) :
    (∃ q, slice p lo hi = .ok q) ↔ (0 ≤ lo.getD 0 ∧ lo.getD 0 ≤ p.n) ∧ normHi p.n hi ≤ p.n :=
  slice_ok_iff h p hwf lo hi

/-- An accepted slice is a well-formed *view* (no copy) showing `np.asarray(p)[L:E]` with
    `E = max(stop, L)`: a stop before the start gives the empty array.  Holds for views of
    views (nested slices): `p` is any well-formed view. -/
theorem slice_bits (h : Heap) (p : PBA) (hwf : WF h p) (lo hi : Option Int) (q : PBA)
    (hq : slice p lo hi = .ok q) (L E : Nat) (hL : lo.getD 0 = (L : Int))
    (hE : max (normHi p.n hi) L = (E : Int)) :
    WF h q ∧ q.own = false ∧ bits h q = ((bits h p).drop L).take (E - L) := by
  obtain ⟨hwq, hA, hn, ho, hLE, hEn⟩ := slice_spec h p hwf lo hi q hq L E hL hE
  refine ⟨hwq, ho, ?_⟩
  apply List.ext_getElem?
  intro i
  rw [List.getElem?_take, List.getElem?_drop, toBools_getElem? _ _ hwq, toBools_getElem? _ _ hwf, hn, hA]
  by_cases c : i < E - L
  · simp only [c, if_true]; rw [if_pos (by omega)]; congr 2; omega
  · simp only [c, if_false]

/-- NumPy: `a[L:S]` is accepted for all `0 ≤ L ≤ len(a)`, `S ≤ len(a)` and shows
    `a[L:max(S,L)]`.  So does the class — also for a slice of an unaligned view that ends below
    the view's bit offset, and for `S < L`. -/
theorem slice_accepts (h : Heap) (p : PBA) (hwf : WF h p) (L : Nat) (S : Int) (hL : L ≤ p.n) (hS : S ≤ p.n)
    (hS0 : 0 ≤ S) :
    ∃ q, slice p (some (L : Int)) (some S) = .ok q ∧ WF h q ∧
      bits h q = ((bits h p).drop L).take (S.toNat - L) := by
  have hacc : ∃ q, slice p (some (L : Int)) (some S) = .ok q := by
    rw [slice_ok_iff h p hwf]
    simp only [sliceAccepts, Option.getD_some, normHi]
    rw [if_neg (by omega)]
    omega
  obtain ⟨q, hq⟩ := hacc
  have hE : max (normHi p.n (some S)) L = ((max S.toNat L : Nat) : Int) := by
    simp only [normHi]; rw [if_neg (by omega)]; omega
  obtain ⟨hwq, _, hb⟩ := slice_bits h p hwf _ _ q hq L (max S.toNat L) rfl hE
  refine ⟨q, hq, hwq, ?_⟩
  rw [hb]
  congr 1; omega

/-- `P(size=30)[3:30]`, the nested `[3:30][5:9]`, a negative stop, a nested slice below the bit
    offset (`[3:30][:2]`, formerly rejected) and a reversed slice (`[9:8]`, formerly an object of
    size -1): all views of the right extent. -/
example : slice ⟨0, 4, 0, 30, true⟩ (some 3) (some 30) = .ok ⟨0, 4, 3, 30, false⟩ ∧
    slice ⟨0, 4, 3, 30, false⟩ (some 5) (some 9) = .ok ⟨1, 1, 0, 4, false⟩ ∧
    slice ⟨0, 4, 3, 30, false⟩ none (some (-2)) = .ok ⟨0, 4, 3, 28, false⟩ ∧
    slice ⟨0, 4, 3, 30, false⟩ none (some 2) = .ok ⟨0, 1, 3, 5, false⟩ ∧
    (slice ⟨0, 4, 0, 30, true⟩ (some 9) (some 8)).map (·.size) = .ok 0 := by decide

/-! ## Reading elements -/

/-- `p[i]` -/
theorem getInt_bits (h : Heap) (p : PBA) (hwf : WF h p) (i : Nat) (hi : i < (bits h p).length) :
    getInt h p i = .ok ((bits h p).getD i false) :=
  getInt_spec h p hwf i (by rwa [toBools_length h p hwf] at hi)

/-- `p[idx]` for any index list inside the array, incl. empty and repeated indices. -/
theorem getIdx_bits (h : Heap) (p : PBA) (hwf : WF h p) (idx : List Nat) (hr : ∀ i ∈ idx, i < (bits h p).length) :
    getIdx h p (idx.map Int.ofNat) = .ok (idx.map fun i => (bits h p).getD i false) :=
  getIdx_spec h p hwf idx (by rwa [toBools_length h p hwf] at hr)

/-- An index outside `[0, size)` raises `IndexError` (negative indices are not supported). -/
theorem getIdx_rejects (h : Heap) (p : PBA) (idx : List Int) (l : Int) (hl : l ∈ idx) (hbad : l < 0 ∨ p.size ≤ l) :
    getIdx h p idx = .error .index := by
  have hne : idx.isEmpty = false := by cases idx <;> simp_all
  simp [getIdx, testBits, hne, checkLocs_err p idx l hl hbad, bind, Except.bind]

/-! ## In-place logic, inversion -/

/-- `p &= o`, `p |= o`, `p ^= o` with a bool `o`: element-wise on `np.asarray(p)`; the heap keeps
    its size and every bit outside the view keeps its value. -/
theorem iopBool_bits (h : Heap) (p : PBA) (hwf : WF h p) (op : Op) (o : Bool) :
    ∃ h', iopBool h p op o = .ok h' ∧ bits h' p = (bits h p).map (fun x => op.bool x o) ∧
      Rewrites h h' p (fun _ x => op.bool x o) := by
  obtain ⟨h', e, R⟩ := opBool_spec h p hwf op o
  refine ⟨h', e, ?_, R⟩
  rw [(toBools_rewrites hwf R).2, toBools_eq h p hwf, List.map_map]; rfl

/-- `p.invert()` -/
theorem invert_bits (h : Heap) (p : PBA) (hwf : WF h p) :
    ∃ h', invert h p = .ok h' ∧ bits h' p = (bits h p).map (!·) ∧ Rewrites h h' p (fun _ x => !x) := by
  obtain ⟨h', e, R⟩ := opBool_spec h p hwf .invert true
  refine ⟨h', e, ?_, R⟩
  rw [(toBools_rewrites hwf R).2, toBools_eq h p hwf, List.map_map]; rfl

/-- A write through a view `v = p[L:E]` is seen through the parent `p` (numpy view semantics),
    for any method characterised by `Rewrites` (all bulk in-place methods are). -/
theorem view_write_visible {h h' : Heap} {p v : PBA} {F} (hp : WF h p) (hv : WF h v)
    (R : Rewrites h h' v F) (L E : Nat) (hA : v.A = p.A + L) (hn : v.n = E - L) (hLE : L ≤ E) (hE : E ≤ p.n) :
    bits h' p = (bits h p).take L ++ bits h' v ++ (bits h p).drop E :=
  toBools_rewrites_parent hp hv R L E hA hn hLE hE

/-- … and a view that shares no bit with the written one is unchanged. -/
theorem view_write_frame {h h' : Heap} {v w : PBA} {F} (hw : WF h w) (R : Rewrites h h' v F)
    (hd : w.A + w.n ≤ v.A ∨ v.A + v.n ≤ w.A) : WF h' w ∧ bits h' w = bits h w :=
  ⟨R.wf hw, toBools_rewrites_frame hw R hd⟩

/-- `p op= q` is `np.asarray(p) op np.asarray(q)` element-wise for every `q` of the same
    length and bit alignment (documented restriction) — also when `p` and `q` are disjoint,
    overlapping or identical views of one array (an operand that shares memory is copied). -/
theorem iopPBA_bits (h : Heap) (p q : PBA) (hp : WF h p) (hq : WF h q)
    (hs : q.start = p.start) (he : q.stop = p.stop) (op : Op) :
    ∃ h', iopPBA h p q op = .ok h' ∧ bits h' p = List.zipWith op.bool (bits h p) (bits h q) ∧
      Rewrites h h' p (fun k x => op.bool x (opnd h p q k)) := by
  obtain ⟨h', e, R⟩ := iopPBA_spec h p q hp hq hs he op
  refine ⟨h', e, ?_, R⟩
  rw [(toBools_rewrites hp R).2]
  exact zipWith_toBools h p q hp hq hs he op.bool

/-- hypotheses satisfiable: `a[1:17]` and `a[9:25]` of a 32-bit array (overlapping views) -/
example : ∃ h p q, WF h p ∧ WF h q ∧ q.start = p.start ∧ q.stop = p.stop ∧ p.n = 16 ∧ sharesMemory p q = true :=
  ⟨#[0, 0, 0, 1], ⟨0, 3, 1, 17, false⟩, ⟨1, 3, 1, 17, false⟩,
   ⟨by decide, by decide, by decide, by decide, by decide⟩,
   ⟨by decide, by decide, by decide, by decide, by decide⟩, rfl, rfl, rfl, by decide⟩

/-- `x = a[1:17]; x |= a[9:25]` with only `a[24]` set: `a[8] = old a[8] | old a[16] = False`
    (before the repair the code produced `True`), `a[16] = old a[16] | old a[24] = True`, and the
    heap has its old size again (the temporary copy is gone). -/
example :
    let h : Heap := #[0, 0, 0, 1]
    let x : PBA := ⟨0, 3, 1, 17, false⟩
    let y : PBA := ⟨1, 3, 1, 17, false⟩
    (iopPBA h x y .or).map (fun h' => (hbit h' 8, hbit h' 16, h'.size)) = .ok (false, true, 4) := by
  decide

/-! ## Assignment -/

/-- `p[i] = v` -/
theorem setInt_bits (h : Heap) (p : PBA) (hwf : WF h p) (i : Nat) (hi : i < (bits h p).length) (v : Bool) :
    ∃ h', setInt h p i v = .ok h' ∧ bits h' p = (bits h p).set i v ∧ h'.size = h.size := by
  rw [toBools_length h p hwf] at hi
  have hr : InRange p.n [(i : Int)] := by intro l hl; simp at hl; subst hl; omega
  have key : ∀ h' F, Rewrites h h' p F → (∀ k x, F k x = if k = p.A + i then v else x) →
      bits h' p = (bits h p).set i v := by
    intro h' F R hF
    rw [(toBools_rewrites hwf R).2]
    apply List.ext_getElem?
    intro j
    rw [getElem?_set', toBools_getElem? _ _ hwf]
    by_cases c : j < p.n
    · simp only [List.getElem?_map, List.getElem?_range c, Option.map_some, c, if_true, hF]
      by_cases c2 : i = j
      · subst c2; simp
      · rw [if_neg (by omega), if_neg c2]
    · simp [c]
  cases v with
  | true =>
    obtain ⟨h', e, R⟩ := setBits_spec h p hwf _ hr
    refine ⟨h', e, key h' _ R (fun k x => ?_), R.size⟩
    simp only [hits, List.any_cons, List.any_nil, Bool.or_false, Int.toNat_natCast]
    by_cases c : k = p.A + i
    · subst c; simp
    · have : ¬ p.A + i = k := fun hh => c hh.symm
      simp [c, this]
  | false =>
    obtain ⟨h', e, R⟩ := clearBits_spec h p hwf _ hr
    refine ⟨h', e, key h' _ R (fun k x => ?_), R.size⟩
    simp only [hits, List.any_cons, List.any_nil, Bool.or_false, Int.toNat_natCast]
    by_cases c : k = p.A + i
    · subst c; simp
    · have : ¬ p.A + i = k := fun hh => c hh.symm
      simp [c, this]

/-- Common shape of the three slice assignments: what `p[L:E] = …` does to `np.asarray(p)`. -/
theorem setSlice_parent {h h' : Heap} {p t : PBA} {F} (hp : WF h p) (lo hi : Option Int)
    (ht : slice p lo hi = .ok t) (L E : Nat) (hL : lo.getD 0 = (L : Int))
    (hE : max (normHi p.n hi) L = (E : Int)) (R : Rewrites h h' t F) :
    bits h' p = (bits h p).take L ++ bits h' t ++ (bits h p).drop E := by
  obtain ⟨hwt, hA, hn, _, hLE, hEn⟩ := slice_spec h p hp lo hi t ht L E hL hE
  exact toBools_rewrites_parent hp hwt R L E hA hn hLE hEn

/-- `p[L:S] = v` with a bool (`E = max(S, L)`: a reversed slice is empty, nothing changes). -/
theorem setSliceBool_bits (h : Heap) (p : PBA) (hp : WF h p) (lo hi : Option Int) (t : PBA)
    (ht : slice p lo hi = .ok t) (L E : Nat) (hL : lo.getD 0 = (L : Int))
    (hE : max (normHi p.n hi) L = (E : Int)) (v : Bool) :
    ∃ h', setSliceBool h p lo hi v = .ok h' ∧ h'.size = h.size ∧
      bits h' p = (bits h p).take L ++ List.replicate (E - L) v ++ (bits h p).drop E := by
  obtain ⟨hwt, hA, hn, _, hLE, hEn⟩ := slice_spec h p hp lo hi t ht L E hL hE
  obtain ⟨h', e, R⟩ := setSliceBool_spec h p lo hi t ht hwt v
  refine ⟨h', e, R.size, ?_⟩
  rw [setSlice_parent hp lo hi ht L E hL hE R, (toBools_rewrites hwt R).2, hn]
  congr 2
  apply List.ext_getElem?; intro i
  by_cases c : i < E - L <;> simp [c]

/-- `p[L:E] = vals` with a boolean array of the right length. -/
theorem setSliceArr_bits (h : Heap) (p : PBA) (hp : WF h p) (lo hi : Option Int) (t : PBA)
    (ht : slice p lo hi = .ok t) (L E : Nat) (hL : lo.getD 0 = (L : Int))
    (hE : max (normHi p.n hi) L = (E : Int)) (vals : List Bool) (hv : vals.length = E - L) :
    ∃ h', setSliceArr h p lo hi vals = .ok h' ∧ h'.size = h.size ∧
      bits h' p = (bits h p).take L ++ vals ++ (bits h p).drop E := by
  obtain ⟨hwt, hA, hn, _, hLE, hEn⟩ := slice_spec h p hp lo hi t ht L E hL hE
  obtain ⟨h', e, R⟩ := setSliceArr_spec h p lo hi t ht hwt vals (by omega)
  refine ⟨h', e, R.size, ?_⟩
  rw [setSlice_parent hp lo hi ht L E hL hE R, (toBools_rewrites hwt R).2, hn]
  congr 2
  apply List.ext_getElem?; intro i
  by_cases c : i < E - L
  · simp only [List.getElem?_map, List.getElem?_range c, Option.map_some]
    have : t.A + i - t.A = i := by omega
    rw [this, List.getD_eq_getElem?_getD, List.getElem?_eq_getElem (by omega)]; rfl
  · have h0 : (List.range (E - L))[i]? = none := by simp; omega
    simp only [List.getElem?_map, h0, Option.map_none]
    rw [List.getElem?_eq_none (by omega)]

/-- NumPy: a value array of another length is rejected (no broadcasting; NumPy would broadcast
    length 1) — for every slice.  The code validates the value only for a NON-EMPTY slice
    (extra hypothesis `t.n ≠ 0`): an assignment to an empty slice returns before any check. -/
theorem setSliceArr_rejects_partial (h : Heap) (p : PBA) (lo hi : Option Int) (t : PBA) (ht : slice p lo hi = .ok t)
    (hwt : WF h t) (vals : List Bool) (hne : t.n ≠ 0) (hv : vals.length ≠ t.n) :
    setSliceArr h p lo hi vals = .error .value := by
  obtain ⟨f, hf⟩ := PBA.fml_ok hwt false
  simp [setSliceArr, ht, hwt.pyLen, hne, hf, hv, bind, Except.bind, throw, throwThe, MonadExceptOf.throw]

/-- the deviation: `p[3:3] = np.array([True, False])` returns silently (NumPy: `ValueError`) -/
example : setSliceArr #[0, 0] ⟨0, 2, 0, 10, true⟩ (some 3) (some 3) [true, false] = .ok #[0, 0] := by decide

/-- `p[L:E] = q` copies `np.asarray(q)` for every `q` of that length and alignment — also when `q`
    is a view of the same array that overlaps the target (it is copied first). -/
theorem setSlicePBA_bits (h : Heap) (p : PBA) (hp : WF h p) (lo hi : Option Int) (t : PBA)
    (ht : slice p lo hi = .ok t) (L E : Nat) (hL : lo.getD 0 = (L : Int))
    (hE : max (normHi p.n hi) L = (E : Int)) (q : PBA) (hq : WF h q) (hs : q.start = t.start)
    (he : q.stop = t.stop) :
    ∃ h', setSlicePBA h p lo hi q = .ok h' ∧ h'.size = h.size ∧
      bits h' p = (bits h p).take L ++ bits h q ++ (bits h p).drop E := by
  obtain ⟨hwt, hA, hn, _, hLE, hEn⟩ := slice_spec h p hp lo hi t ht L E hL hE
  obtain ⟨h', e, R⟩ := setSlicePBA_spec h p lo hi t q ht hwt hq hs he
  refine ⟨h', e, R.size, ?_⟩
  rw [setSlice_parent hp lo hi ht L E hL hE R, (toBools_rewrites hwt R).2]
  congr 2
  have := zipWith_toBools h t q hwt hq hs he (fun _ o => o)
  rw [this]
  have hnq : q.n = t.n := by simp only [PBA.n, hs, he]
  apply List.ext_getElem?; intro i
  rw [List.getElem?_zipWith, toBools_getElem? _ _ hwt, toBools_getElem? _ _ hq, hnq]
  by_cases c : i < t.n <;> simp [c]

/-- `a[1:17] = a[9:25]` (overlapping views), only `a[24]` set: `a[8] = old a[16] = False`
    (before the repair: `True`) and `a[16] = old a[24] = True`. -/
example :
    let h : Heap := #[0, 0, 0, 1]
    let a : PBA := ⟨0, 4, 0, 32, true⟩
    let y : PBA := ⟨1, 3, 1, 17, false⟩
    (setSlicePBA h a (some 1) (some 17) y).map (fun h' => (hbit h' 8, hbit h' 16, h'.size)) =
      .ok (false, true, 4) := by
  decide

/-- `p[idx] = v` with a bool: every listed element becomes `v` (duplicates are harmless). -/
theorem setIdxBool_bits (h : Heap) (p : PBA) (hwf : WF h p) (idx : List Nat)
    (hr : ∀ i ∈ idx, i < (bits h p).length) (v : Bool) :
    ∃ h', setIdxBool h p (idx.map Int.ofNat) v = .ok h' ∧ h'.size = h.size ∧
      bits h' p = npSetIdxBool (bits h p) idx v := by
  rw [toBools_length h p hwf] at hr
  have hr' := inRange_ofNat p.n idx hr
  have key : ∀ h' F, Rewrites h h' p F →
      (∀ j x, j < p.n → F (p.A + j) x = if j ∈ idx then v else x) →
      bits h' p = npSetIdxBool (bits h p) idx v := by
    intro h' F R hF
    rw [(toBools_rewrites hwf R).2]
    apply List.ext_getElem?
    intro j
    rw [npSetIdxBool_getElem?, toBools_getElem? _ _ hwf]
    by_cases c : j < p.n
    · simp only [List.getElem?_map, List.getElem?_range c, Option.map_some, c, if_true, hF j _ c]
      by_cases c2 : j ∈ idx <;> simp [c2]
    · simp [c]
  have hemp : ∀ hh : idx = [], setIdxBool h p (idx.map Int.ofNat) v = .ok h := by
    intro hh; subst hh; rfl
  by_cases hne : idx = []
  · refine ⟨h, hemp hne, rfl, ?_⟩
    subst hne; rfl
  · have hne' : (idx.map Int.ofNat).isEmpty = false := by cases idx <;> simp_all
    cases v with
    | true =>
      obtain ⟨h', e, R⟩ := setBits_spec h p hwf _ hr'
      refine ⟨h', by simp [setIdxBool, hne', e], R.size, key h' _ R (fun j x _ => ?_)⟩
      rw [hits_ofNat]; by_cases c : j ∈ idx <;> simp [c]
    | false =>
      obtain ⟨h', e, R⟩ := clearBits_spec h p hwf _ hr'
      refine ⟨h', by simp [setIdxBool, hne', e], R.size, key h' _ R (fun j x _ => ?_)⟩
      rw [hits_ofNat]; by_cases c : j ∈ idx <;> simp [c]

/-- `p[idx] = vals` is NumPy's sequential assignment — with repeated indices the LAST
    occurrence wins — for all index lists inside the array and value arrays of the same length. -/
theorem setIdxArr_bits (h : Heap) (p : PBA) (hwf : WF h p) (idx : List Nat) (vals : List Bool)
    (hlen : vals.length = idx.length) (hr : ∀ i ∈ idx, i < (bits h p).length) :
    ∃ h', setIdxArr h p (idx.map Int.ofNat) vals = (h', none) ∧ h'.size = h.size ∧
      bits h' p = npSetIdx (bits h p) idx vals := by
  rw [toBools_length h p hwf] at hr
  obtain ⟨h', e, hs, hb⟩ := setIdxArr_spec h p hwf idx vals hlen hr
  have hw' : WF h' p := by
    obtain ⟨a1, a2, a3, a4, a5⟩ := hwf
    exact ⟨a1, a2, a3, a4, by omega⟩
  refine ⟨h', e, hs, ?_⟩
  apply List.ext_getElem?
  intro j
  unfold npSetIdx
  rw [foldl_set_last, toBools_getElem? _ _ hw', toBools_getElem? _ _ hwf]
  have hsome := lastValN_isSome idx vals hlen j
  by_cases c : j < p.n
  · simp only [c, if_true, hb j c]
    by_cases cj : j ∈ idx
    · simp only [cj, decide_true, if_true] at hsome ⊢
      obtain ⟨b, hb'⟩ := Option.isSome_iff_exists.mp hsome
      simp [hb']
    · simp only [cj, decide_false, if_false] at hsome ⊢
      have : lastValN (idx.zip vals) j = none := by
        cases hh : lastValN (idx.zip vals) j <;> simp_all
      simp [this]
  · simp only [c, if_false]
    cases lastValN (idx.zip vals) j <;> rfl

/-- `p[[2, 2]] = [False, True]` ends with `p[2] = True` and `p[[2, 2]] = [True, False]` with
    `False` (before the repair a `False` anywhere won). -/
example :
    let h : Heap := #[0, 0]
    let p : PBA := ⟨0, 2, 0, 10, true⟩
    ((bits (setIdxArr h p [2, 2] [false, true]).1 p).getD 2 false = true) ∧
    ((bits (setIdxArr h p [2, 2] [true, false]).1 p).getD 2 false = false) := by
  decide

/-- An index outside `[0, size)` raises `IndexError` before anything is written. -/
theorem setIdxArr_rejects (h : Heap) (p : PBA) (idx : List Int) (vals : List Bool)
    (hlen : vals.length = idx.length) (l : Int) (hl : l ∈ idx) (hbad : l < 0 ∨ p.size ≤ l) :
    setIdxArr h p idx vals = (h, some .index) := by
  have hne : idx.isEmpty = false := by cases idx <;> simp_all
  have hrc : (decide (minI idx < 0) || decide (maxI idx ≥ p.size)) = true := by
    cases idx with
    | nil => simp at hl
    | cons x xs =>
      have m1 := (foldl_min_le (x :: xs) x).2 l hl
      have m2 := (foldl_max_ge (x :: xs) x).2 l hl
      simp only [minI, maxI, List.headD_cons, Bool.or_eq_true]
      rcases hbad with hh | hh
      · left; exact decide_eq_true (by omega)
      · right; exact decide_eq_true (Int.le_trans hh m2)
  simp [setIdxArr, hne, hlen, hrc]

example : setIdxArr #[0, 0] ⟨0, 2, 0, 10, true⟩ [0, 100] [true, false] = (#[0, 0], some .index) := by decide

/-- NumPy: a value array of another length is rejected for every index list.  The code checks the
    length only for a NON-EMPTY index list (extra hypothesis `idx ≠ []`). -/
theorem setIdxArr_rejects_length_partial (h : Heap) (p : PBA) (idx : List Int) (vals : List Bool)
    (hne : idx ≠ []) (hlen : vals.length ≠ idx.length) :
    setIdxArr h p idx vals = (h, some .value) := by
  have hne' : idx.isEmpty = false := by cases idx <;> simp_all
  simp [setIdxArr, hne', hlen]

/-- the deviation: `p[np.array([], int)] = np.array([True, False])` returns silently -/
example : setIdxArr #[0, 0] ⟨0, 2, 0, 10, true⟩ [] [true, false] = (#[0, 0], none) := by decide

/-! ## Sum, copy, resize -/

/-- `p.sum()` is the number of `True` elements (the padding at both ends is masked). -/
theorem sum_eq_count (h : Heap) (p : PBA) (hwf : WF h p) : sum h p = .ok ((bits h p).count true) :=
  sum_spec h p hwf

/-- `p.copy()`: a new owning array with the same elements; every bit of the new buffer
    outside `[start, stop)` is zero (`copy_masks_padding`); existing arrays are untouched. -/
theorem copy_bits (h : Heap) (p : PBA) (hwf : WF h p) :
    ∃ h' q, copy h p = .ok (h', q) ∧ WF h' q ∧ q.own = true ∧ q.start = p.start ∧ q.stop = p.stop ∧
      q.off = h.size ∧ bits h' q = bits h p ∧ PadZero h' q ∧
      ∀ w, WF h w → WF h' w ∧ bits h' w = bits h w := by
  obtain ⟨d, e, hdl, hd⟩ := copy_spec h p hwf
  have hs := hwf.stop_eq
  have hwf' := hwf
  obtain ⟨a1, a2, a3, a4, a5⟩ := hwf
  have hwq : WF (h ++ d.toArray) ⟨h.size, p.len, p.start, p.stop, true⟩ :=
    ⟨a1, a2, a3, a4, by simp [hdl]⟩
  have hnq : (⟨h.size, p.len, p.start, p.stop, true⟩ : PBA).n = p.n := rfl
  refine ⟨_, _, e, hwq, rfl, rfl, rfl, rfl, ?_, ?_, fun w hw => ⟨hw.append _, toBools_append hw _⟩⟩
  · rw [toBools_eq _ _ hwq, toBools_eq _ _ hwf', hnq]
    apply List.map_congr_left
    intro i hi
    have hin := List.mem_range.mp hi
    have e1 : (⟨h.size, p.len, p.start, p.stop, true⟩ : PBA).A + i =
        8 * (h.size + (p.start + i) / 8) + (p.start + i) % 8 := by simp only [PBA.A]; omega
    rw [e1, hbit_append_new _ _ _ _ (Nat.mod_lt _ (by omega)), hd _ _ (by omega) (Nat.mod_lt _ (by omega))]
    have e2 : 8 * ((p.start + i) / 8) + (p.start + i) % 8 = p.start + i := by omega
    have e3 : 8 * (p.off + (p.start + i) / 8) + (p.start + i) % 8 = p.A + i := by simp only [PBA.A]; omega
    rw [e2, e3]
    simp [hin]
  · intro k hk1 hk2
    simp only [PBA.A] at hk1 hk2
    rw [hnq] at hk1
    have e1 : k = 8 * (h.size + (k - 8 * h.size) / 8) + (k - 8 * h.size) % 8 := by omega
    rw [e1, hbit_append_new _ _ _ _ (Nat.mod_lt _ (by omega)), hd _ _ (by omega) (Nat.mod_lt _ (by omega))]
    have : ¬ (p.start ≤ 8 * ((k - 8 * h.size) / 8) + (k - 8 * h.size) % 8 ∧
        8 * ((k - 8 * h.size) / 8) + (k - 8 * h.size) % 8 < p.start + p.n) := by omega
    simp [this]

/-- Padding of a copy is masked on BOTH sides: every bit of the new buffer before `start` is
    zero as well. -/
theorem copy_masks_padding (h : Heap) (p : PBA) (hwf : WF h p) :
    ∃ h' q, copy h p = .ok (h', q) ∧
      ∀ k, 8 * q.off ≤ k → k < 8 * (q.off + q.len) → ¬ (q.A ≤ k ∧ k < q.A + q.n) → hbit h' k = false := by
  obtain ⟨d, e, hdl, hd⟩ := copy_spec h p hwf
  refine ⟨_, _, e, fun k hk1 hk2 hk3 => ?_⟩
  simp only [PBA.A] at hk1 hk2 hk3
  have hnq : (⟨h.size, p.len, p.start, p.stop, true⟩ : PBA).n = p.n := rfl
  rw [hnq] at hk3
  have e1 : k = 8 * (h.size + (k - 8 * h.size) / 8) + (k - 8 * h.size) % 8 := by omega
  rw [e1, hbit_append_new _ _ _ _ (Nat.mod_lt _ (by omega)), hd _ _ (by omega) (Nat.mod_lt _ (by omega))]
  have : ¬ (p.start ≤ 8 * ((k - 8 * h.size) / 8) + (k - 8 * h.size) % 8 ∧
      8 * ((k - 8 * h.size) / 8) + (k - 8 * h.size) % 8 < p.start + p.n) := by omega
  simp [this]

/-- `a.resize(n)` (n ≥ len) on an owning array keeps the elements and appends `False` —
    whatever the padding bits of the last byte held (they are cleared first).  No other array
    changes (`w` any view containing no padding bit of `p`). -/
theorem resize_bits (h : Heap) (p : PBA) (hwf : WF h p) (hown : p.own = true) (n : Nat)
    (hge : (bits h p).length ≤ n) :
    ∃ h' p', resize h p n = ((h', p'), none) ∧ WF h' p' ∧ p'.own = true ∧
      bits h' p' = bits h p ++ List.replicate (n - (bits h p).length) false ∧
      ∀ w, WF h w → (∀ k, w.A ≤ k → k < w.A + w.n → ¬ padBit p k) → WF h' w ∧ bits h' w = bits h w := by
  rw [toBools_length h p hwf] at hge ⊢
  obtain ⟨h', p', e, hw', _, ho, hb, hold, hsz⟩ := resize_spec h p hwf n hge (Or.inl hown)
  refine ⟨h', p', e, hw', by rw [ho, hown], hb, fun w hw hnp => ?_⟩
  have hww : WF h' w := by
    obtain ⟨b1, b2, b3, b4, b5⟩ := hw
    exact ⟨b1, b2, b3, b4, by omega⟩
  refine ⟨hww, ?_⟩
  rw [toBools_eq _ _ hww, toBools_eq _ _ hw]
  apply List.map_congr_left
  intro i hi
  have := List.mem_range.mp hi
  obtain ⟨b1, b2, b3, b4, b5⟩ := hw
  apply hold _ _ (hnp _ (by omega) (by omega))
  simp only [PBA.A, PBA.n] at *
  omega

/-- `P(data_buffer=[0xFF], stop_index=5).resize(8)` is `1,1,1,1,1,0,0,0` (before the repair the
    dirty padding showed up as three more ones). -/
example :
    let r := (resize #[0xFF] ⟨0, 1, 0, 5, true⟩ 8).1
    bits r.1 r.2 = [true, true, true, true, true, false, false, false] := by
  decide

/-- shrinking is rejected -/
theorem resize_rejects (h : Heap) (p : PBA) (n : Int) (hn : n < p.size) :
    resize h p n = ((h, p), some .value) := by
  simp [resize, hn]

/-- A view cannot be resized (as for numpy arrays): `ValueError`, and nothing changes — neither
    the heap (in particular the parent's bits behind the view) nor the object (`size` stays). -/
theorem resize_rejects_view (h : Heap) (p : PBA) (hwf : WF h p) (n : Nat) (hlt : (bits h p).length < n)
    (hown : p.own = false) : resize h p n = ((h, p), some .value) := by
  rw [toBools_length h p hwf] at hlt
  exact resize_view_spec h p hwf n hlt hown

/-- A refused `resize` (shrinking, or a view) leaves the heap and the object unchanged, whatever
    the arguments. -/
theorem resize_refused_unchanged (h : Heap) (p : PBA) (hwf : WF h p) (n : Int) (e : PErr)
    (hr : (resize h p n).2 = some e) : (resize h p n).1 = (h, p) := by
  have hs := hwf.stop_eq
  obtain ⟨a1, a2, a3, a4, a5⟩ := hwf
  have hsize : p.size = (p.n : Int) := by simp only [PBA.size, PBA.n]; omega
  by_cases c1 : n < p.size
  · simp [resize, c1]
  · by_cases c2 : n = p.size
    · simp [resize, c2] at hr
    · cases hown : p.own
      · simp [resize, c1, c2, hown]
      · exfalso
        obtain ⟨m, rfl⟩ : ∃ m : Nat, n = m := ⟨n.toNat, by omega⟩
        obtain ⟨h', p', e', _⟩ := resize_spec h p ⟨a1, a2, a3, a4, a5⟩ m (by omega) (Or.inl hown)
        rw [e'] at hr
        simp at hr

/-- hypotheses satisfiable, and the former deviation is gone: `a = P(30 × True); v = a[3:6]`;
    `v.resize(50)` and `v.resize(5)` (same byte count) are both refused with `a` intact. -/
example :
    let h : Heap := #[0xFF, 0xFF, 0xFF, 0x3F]
    let v : PBA := ⟨0, 1, 3, 6, false⟩
    resize h v 50 = ((h, v), some .value) ∧ resize h v 5 = ((h, v), some .value) := by
  decide

/-- `p.sum(shape=shape)` (no axis) on an aligned array whose size is the product of `shape`
    (last entry a multiple of 8): the total count, as `np.sum(arr.reshape(shape))`. -/
theorem sum_shaped_eq (h : Heap) (p : PBA) (hwf : WF h p) (h0 : p.start = 0) (h8 : p.stop % 8 = 0)
    (init : List Nat) (c : Nat) (hprod : prodL (init ++ [8 * c]) = (bits h p).length) :
    sumShaped h p (init ++ [8 * c]) none = .ok ([], [(bits h p).count true]) := by
  rw [toBools_length h p hwf] at hprod
  exact sumShaped_none h p hwf h0 h8 init c hprod

/-- `p.sum(shape=shape, axis=len(shape)-1)` is `np.sum(arr.reshape(shape), axis=-1)`: the result
    has shape `shape[:-1]` and the values `sumAxis` (= reshape-and-sum in C order) of the 0/1
    elements.  (The only axis the class supports; it is how the map code uses it.) -/
theorem sum_shaped_axis (h : Heap) (p : PBA) (hwf : WF h p) (h0 : p.start = 0) (h8 : p.stop % 8 = 0)
    (init : List Nat) (c : Nat) (hprod : prodL (init ++ [8 * c]) = (bits h p).length) :
    sumShaped h p (init ++ [8 * c]) (some (init.length : Int)) =
      .ok (init, sumAxis (bitsNat (bits h p)) (init ++ [8 * c]) init.length) := by
  rw [toBools_length h p hwf] at hprod
  exact sumShaped_last h p hwf h0 h8 init c hprod

/-- hypotheses satisfiable: 48 bits as shape (3, 16), axis 1 -/
example : WF #[1, 2, 3, 4, 5, 6] ⟨0, 6, 0, 48, true⟩ ∧ prodL ([3] ++ [8 * 2]) = 48 ∧
    sumShaped #[1, 2, 3, 4, 5, 6] ⟨0, 6, 0, 48, true⟩ [3, 16] (some 1) = .ok ([3], [2, 3, 4]) :=
  ⟨⟨by decide, by decide, by decide, by decide, by decide⟩, by decide, by decide⟩

/-- Every other axis (a middle axis, a negative axis, an axis ≥ ndim) is refused. -/
theorem sum_shaped_rejects_axis (h : Heap) (p : PBA) (hwf : WF h p) (h0 : p.start = 0) (h8 : p.stop % 8 = 0)
    (init : List Nat) (c : Nat) (hprod : prodL (init ++ [8 * c]) = (bits h p).length) (a : Int)
    (ha : a ≠ (init.length : Int)) :
    sumShaped h p (init ++ [8 * c]) (some a) = .error (if a ≥ (init.length : Int) + 1 then .value else .notImpl) := by
  rw [toBools_length h p hwf] at hprod
  exact sumShaped_other_axis h p hwf h0 h8 init c hprod a ha

example :
    let h : Heap := #[0xFF, 0x01, 0x00, 0x03]
    let p : PBA := ⟨0, 4, 0, 32, true⟩
    sumShaped h p [2, 2, 8] (some 1) = .error .notImpl ∧ sumShaped h p [2, 2, 8] (some (-1)) = .error .notImpl ∧
    sumShaped h p [2, 2, 8] (some 2) = .ok ([2, 2], [8, 1, 0, 2]) := by
  decide

/-- reshaped sums are refused on unaligned arrays -/
theorem sum_shaped_rejects (h : Heap) (p : PBA) (shape : List Nat) (axis : Option Int)
    (hun : p.start ≠ 0 ∨ p.stop % 8 ≠ 0) : sumShaped h p shape axis = .error .value := by
  have : (p.start != 0 || p.stop % 8 != 0) = true := by
    rcases hun with hh | hh <;> simp [hh]
  simp [sumShaped, this, bind, Except.bind, throw, throwThe, MonadExceptOf.throw]

/-! ## The copying forms `&`, `|`, `^`, `~` -/

/-- `r = p op o` with a bool: a new array with the element-wise result; `p` is unchanged. -/
theorem bopBool_bits (h : Heap) (p : PBA) (hwf : WF h p) (op : Op) (o : Bool) :
    ∃ h' r, bopBool h p op o = .ok (h', r) ∧ WF h' r ∧ r.own = true ∧
      bits h' r = (bits h p).map (fun x => op.bool x o) ∧
      ∀ w, WF h w → WF h' w ∧ bits h' w = bits h w := by
  obtain ⟨h1, r, e1, hw1, ho, hs, he, hoff, hb1, _, hfr1⟩ := copy_bits h p hwf
  obtain ⟨h2, e2, hb2, R⟩ := iopBool_bits h1 r hw1 op o
  refine ⟨h2, r, by simp [bopBool, e1, e2, bind, Except.bind, pure, Except.pure], R.wf hw1, ho,
    by rw [hb2, hb1], fun w hw => ?_⟩
  obtain ⟨hw', hbw⟩ := hfr1 w hw
  refine ⟨R.wf hw', ?_⟩
  rw [toBools_rewrites_frame hw' R (Or.inl ?_), hbw]
  obtain ⟨b1, b2, b3, b4, b5⟩ := hw
  simp only [PBA.A, PBA.n, hoff]; omega

/-- `~p` -/
theorem not_bits (h : Heap) (p : PBA) (hwf : WF h p) :
    ∃ h' r, notCopy h p = .ok (h', r) ∧ WF h' r ∧ bits h' r = (bits h p).map (!·) ∧
      ∀ w, WF h w → WF h' w ∧ bits h' w = bits h w := by
  obtain ⟨h1, r, e1, hw1, ho, hs, he, hoff, hb1, _, hfr1⟩ := copy_bits h p hwf
  obtain ⟨h2, e2, hb2, R⟩ := invert_bits h1 r hw1
  refine ⟨h2, r, by simp [notCopy, e1, e2, bind, Except.bind, pure, Except.pure], R.wf hw1,
    by rw [hb2, hb1], fun w hw => ?_⟩
  obtain ⟨hw', hbw⟩ := hfr1 w hw
  refine ⟨R.wf hw', ?_⟩
  rw [toBools_rewrites_frame hw' R (Or.inl ?_), hbw]
  obtain ⟨b1, b2, b3, b4, b5⟩ := hw
  simp only [PBA.A, PBA.n, hoff]; omega

/-- `r = p op q` with an aligned packed operand of the same size. -/
theorem bopPBA_bits (h : Heap) (p q : PBA) (hp : WF h p) (hq : WF h q)
    (hs : q.start = p.start) (he : q.stop = p.stop) (op : Op) :
    ∃ h' r, bopPBA h p q op = .ok (h', r) ∧ WF h' r ∧
      bits h' r = List.zipWith op.bool (bits h p) (bits h q) ∧
      ∀ w, WF h w → WF h' w ∧ bits h' w = bits h w := by
  obtain ⟨h1, r, e1, hw1, ho, hs1, he1, hoff, hb1, _, hfr1⟩ := copy_bits h p hp
  obtain ⟨hq1, hbq⟩ := hfr1 q hq
  obtain ⟨h2, e2, hb2, R⟩ := iopPBA_bits h1 r q hw1 hq1 (by rw [hs, hs1]) (by rw [he, he1]) op
  refine ⟨h2, r, by simp [bopPBA, e1, e2, bind, Except.bind, pure, Except.pure], R.wf hw1,
    by rw [hb2, hb1, hbq], fun w hw => ?_⟩
  obtain ⟨hw', hbw⟩ := hfr1 w hw
  refine ⟨R.wf hw', ?_⟩
  rw [toBools_rewrites_frame hw' R (Or.inl ?_), hbw]
  obtain ⟨b1, b2, b3, b4, b5⟩ := hw
  simp only [PBA.A, PBA.n, hoff]; omega

/-- `data_array` -/
theorem dataArray_eq (h : Heap) (p : PBA) :
    dataArray h p = if p.start = 0 then .ok (p.data h) else .error .notImpl :=
  dataArray_spec h p

/-! ### C05 at the world level: a bit-packed boolean map is indistinguishable from an ordinary one

A SIMULATION between two driver worlds that differ only in which boolean entries are `.packed`
and which are `.plain .bool` (`World.Twin`, Lemmas/TwinWorld.lean: same names in the same order,
entries pairwise `MapObj.Twin`, files pairwise `FileObj.Twin`, everything else equal).  Method:
`World.norm` retags every bit-packed entry as an ordinary boolean map; twins are exactly the
worlds with the same normal form; each of the 51 operations of Model/Dispatch.lean commutes with
the normalisation (Lemmas/TwinOps.lean, `sim_opXxx`), unless the line is in the exception set.

The exception set `asym w op a` (Lemmas/TwinOps.lean; the same in twin worlds, `asymLine_twin`):
`info`, `pack`, `deg`, `upg` of a boolean map; `deg` with a boolean weight map; `genhp ord=…` of
a boolean map; `dor` on a boolean file or with a boolean weight file; `nvalid path=str` of a
boolean map.  Every class is witnessed by an evaluated pair
of histories with different answers (`#guard`s at the end of Lemmas/TwinOps.lean); creation
(`cfg … kind=packed` against `cfg … kind=plain dtype=b1`, different LINES) is `make_empty_packed_iff`
and `cfg_twin`.  Everything else — updates by pixels and by ranges, boolean algebra, inversion,
masking, `astype`, the union / intersection operations, counting and listing, sub-maps, fracdet,
MOC and HEALPix interchange, `write` / `read` / `cat` / `fitsraw` / `covread`, copies, views,
metadata — is PROVED symmetric. -/

/-- **one protocol line in twin worlds**: outside the exception set, the same line gives the
    same answer and twin worlds again (both worlds satisfying the reachability invariant
    `World.Good` of C04) -/
theorem twin_step {w₁ w₂ : World} (h : w₁.Twin w₂) (g₁ : w₁.Good) (g₂ : w₂.Good) (line : String)
    (hex : asymLine w₁ line = false) :
    (step w₁ line).2 = (step w₂ line).2 ∧ (step w₁ line).1.Twin (step w₂ line).1 :=
  HS.twin_step h g₁ g₂ line hex

/-- **any history in twin worlds**: if no line falls in the exception set (`twinSafe`: each line
    judged in the world it is run in), the two runs give the same list of answers and end in
    twin worlds -/
theorem twin_history {w₁ w₂ : World} (h : w₁.Twin w₂) (g₁ : w₁.Good) (g₂ : w₂.Good)
    (lines : List String) (hs : twinSafe w₁ lines = true) :
    (runObs w₁ lines).2 = (runObs w₂ lines).2 ∧ (runObs w₁ lines).1.Twin (runObs w₂ lines).1 :=
  HS.twin_history h g₁ g₂ lines hs

/-- … in particular after any two setup histories that lead to twin worlds (reachable worlds are
    `Good`, C04) -/
theorem twin_reachable (setup₁ setup₂ lines : List String)
    (h : (runLines setup₁).Twin (runLines setup₂)) (hs : twinSafe (runLines setup₁) lines = true) :
    (runObs (runLines setup₁) lines).2 = (runObs (runLines setup₂) lines).2 ∧
      (runObs (runLines setup₁) lines).1.Twin (runObs (runLines setup₂) lines).1 :=
  HS.twin_history h (Good.runLines setup₁) (Good.runLines setup₂) lines hs

/-- the exception set does not depend on which of two twin worlds it is judged in -/
theorem asym_twin {w₁ w₂ : World} (h : w₁.Twin w₂) (g₁ : w₁.Good) (g₂ : w₂.Good) (line : String) :
    asymLine w₁ line = asymLine w₂ line :=
  asymLine_twin h g₁ g₂ line

/-- twins are the worlds with the same ordinary-boolean normal form -/
theorem twin_iff_norm {w₁ w₂ : World} : w₁.Twin w₂ ↔ w₁.norm = w₂.norm := World.twin_iff

/-- creation: `make_empty` builds a bit-packed map exactly when it builds the ordinary boolean map
    with the same arguments, the coverage pixels hold a multiple of 8 pixels and the sentinel is
    `False`; the two maps then differ in the kind only -/
theorem make_empty_packed_iff (co so : Nat) (sent : Option Val) (cp : List Nat) (m : MapObj) :
    apiMakeEmpty co so .packed sent cp = .ok m ↔
      (cfgOf co so).nfine % 8 = 0 ∧ ∃ m', apiMakeEmpty co so (.plain .bool) sent cp = .ok m' ∧
        m'.sent = .bool false ∧ m = { m' with kind := .packed } :=
  apiMakeEmpty_packed_iff co so sent cp m

/-- … and the two creation lines, where both succeed, lead from twin worlds to twin worlds -/
theorem cfg_twin {w₁ w₂ : World} (h : w₁.Twin w₂) (n : String) {co so : Nat} {sent : Option Val}
    {cp : List Nat} {m₁ m₂ : MapObj} (h₁ : apiMakeEmpty co so .packed sent cp = .ok m₁)
    (h₂ : apiMakeEmpty co so (.plain .bool) sent cp = .ok m₂) :
    m₁.Twin m₂ ∧ (w₁.bind n m₁).Twin (w₂.bind n m₂) :=
  HS.cfg_twin h n h₁ h₂

/-- non-vacuity: the two worlds `exW₁` / `exW₂` (`a` bit-packed and `b` ordinary, and the other
    way round) are twins and good (kernel-checked), the 42-line history `exCommon` mixing both
    kinds of operand passes the executable check and gives the same answers in both (evaluated:
    Lemmas/TwinOps.lean) -/
example : exW₁.Twin exW₂ ∧ exW₁.Good ∧ exW₂.Good := ⟨exW_twin, exW_good.1, exW_good.2⟩

#guard twinSafe exW₁ exCommon && (runObs exW₁ exCommon).2 == (runObs exW₂ exCommon).2
#guard (runObs (runLines exSetup₁) exCommon).2 == (runObs (runLines exSetup₂) exCommon).2

end C05
end HS
