"""C05 — bit-packed maps are indistinguishable from boolean maps; the packed array underneath behaves
like a NumPy boolean array.

Two families of histories:
 (i)  array level (props/c05_array.py): stand-alone `_PackedBoolArray` objects, three-way comparison
      packed / numpy twin / Lean model of packedBoolArray.py;
 (ii) map level, *twin histories*: the same random history is applied to a bit-packed map `p` and to an
      ordinary boolean map `u` of the same configuration; every observation line on `p` is followed by the
      same line on `u`.  Both maps are compared with the Lean model line by line (as everywhere), and
      `pair_check` compares the observation of `p` with the observation of `u` on the real side alone.
"""
import gen
from props import c05_array

PID = 'C05'
RULE = (c05_array.RULE + "  ||  map level: twin histories on a bit-packed map p and a boolean map u with the same "
        "nside pair (sparse order - coverage order >= 2, so nfine % 8 == 0), optional cov_pixels pre-allocation and "
        "False sentinel: 3-10 steps from {update_values_pix with scalar / array values, replace / or / and, repeated "
        "pixels for or/and, None; pixel ranges with arbitrary (non byte aligned) ends on both range paths; &,|,^ with "
        "True/False and with a packed or an unpacked operand map (copying and in place); invert / ~; copy; write + "
        "read (full and by pixels); get_single_covpix_map; fracdet_map; as_bit_packed_map of u}, each applied to p "
        "and to u, followed by the observers {dense values, coverage mask, valid_pixels through five paths, n_valid "
        "and valid area, coverage_map, valid_pixels_single_covpix, reads through every read path} on p and on u; "
        "non-trivial (map level) = a range update or an or/and update, and at least one operator / file / derived "
        "map step")
ASSUMPTIONS = list(c05_array.ASSUMPTIONS) + [
    "map level: both twins have the False sentinel (the only one a bit-packed map supports)",
    "`info` and `state` lines are not compared between the twins (kind and storage layout differ by design)"]
REGIONS = c05_array.REGIONS


def twin_name(n):
    return 'u' + n[1:]


def twin_line(ln):
    """the same protocol line for the unpacked twin: every map / file name starting with `p` -> `u…`"""
    t = ln.split()
    out = [t[0]]
    for x in t[1:]:
        if '=' in x:
            k, v = x.split('=', 1)
            if k in ('r', 'f') and v.startswith('p'):
                v = twin_name(v)
            out.append(k + '=' + v)
        elif x.startswith('p'):
            out.append(twin_name(x))
        else:
            out.append(x)
    return ' '.join(out)


def both(h, ln):
    h.append(ln)
    h.append(twin_line(ln))


OBS_PATHS = ['list', 'mask', 'iter', 'covpix_maps', 'pos']


def observe(rng, h, c, name='p', full=False):
    both(h, 'vals %s' % name)
    both(h, 'covmask %s' % name)
    both(h, 'valid %s path=%s' % (name, rng.choice(OBS_PATHS) if not full else 'list'))
    both(h, 'nvalid %s' % name)
    if full or rng.random() < 0.5:
        both(h, 'covmap %s' % name)
        both(h, 'nvalid %s path=area' % name)
        both(h, 'vpsc %s k=%d' % (name, rng.randrange(c.ncov)))
    if full or rng.random() < 0.4:
        cc = gen.MapCfg(name, c.kind, c.covord, c.spord, dtype=c.dtype)
        both(h, gen.read_line(rng, cc))
    h.append('info %s' % name)
    h.append('info %s' % twin_name(name))
    h.append('state %s' % name)
    h.append('state %s' % twin_name(name))


def map_history(rng):
    covord = rng.choice([0, 0, 0, 1])
    spord = covord + (rng.choice([2, 2, 3]) if covord == 0 else 2)
    p = gen.MapCfg('p', 'packed', covord, spord)
    u = gen.MapCfg('u', 'plain', covord, spord, dtype='b1')
    if rng.random() < 0.25:
        p.covpix = rng.sample(range(p.ncov), rng.randint(1, min(3, p.ncov)))
        u.covpix = list(p.covpix)
    h = [p.line(), u.line()]
    # operand maps: pq packed / uq unpacked with the same content (used as rhs by both twins)
    q = gen.MapCfg('pq', 'packed', covord, spord)
    h += [q.line(), twin_line(q.line()).replace('kind=packed', 'kind=plain dtype=b1')]
    focus = rng.sample(range(p.ncov), min(p.ncov, rng.randint(1, 4)))
    qfocus = focus[:2] + rng.sample(range(p.ncov), 1)
    for _ in range(rng.randint(0, 3)):
        both(h, gen.updr_line(rng, q) if rng.random() < 0.4 else gen.upd_line(rng, q, focus=qfocus))
    observe(rng, h, p)
    nfile = 0
    for _ in range(rng.randint(3, 10)):
        r = rng.random()
        if rng.random() < 0.12:
            # continue on the maps AS READ BACK from their own files (storage that does not own its buffer:
            # a rebinding made by growth / copy-on-write must not be lost — seeded change C05d)
            for ln in gen.roundtrip_lines(rng, 'p', f='prt'):
                both(h, ln)
        if r < 0.35:
            both(h, gen.upd_line(rng, p, focus=focus))
        elif r < 0.55:
            both(h, gen.updr_line(rng, p))
        elif r < 0.70:
            op = rng.choice(['and', 'or', 'xor'])
            if rng.random() < 0.35:
                rhs = 'const=%s' % rng.choice('TF')
            else:
                rhs = 'rhs=%s' % rng.choice(['pq', 'uq'])       # packed or unpacked operand, same for both twins
            if rng.random() < 0.5:
                both(h, 'bop p op=%s %s inplace=1' % (op, rhs))
            else:
                both(h, 'bop p op=%s %s r=pt' % (op, rhs))
                observe(rng, h, p, name='pt')
                if rng.random() < 0.5:
                    both(h, 'copy pt r=p')                     # continue on the result
        elif r < 0.78:
            if rng.random() < 0.5:
                both(h, 'inv p inplace=1')
            else:
                both(h, 'inv p r=pt')
                observe(rng, h, p, name='pt')
        elif r < 0.84:
            both(h, 'copy p r=pc')
            both(h, gen.upd_line(rng, gen.MapCfg('pc', 'packed', covord, spord), focus=focus))
            observe(rng, h, p, name='pc')                       # the copy changed …
        elif r < 0.90:
            nfile += 1
            both(h, 'write p f=pf%d compress=%s' % (nfile, rng.choice('01')))
            if rng.random() < 0.5:
                both(h, 'read r=pr f=pf%d' % nfile)
            else:
                req = rng.sample(range(p.ncov), min(p.ncov, rng.randint(1, 3))) + focus[:1]
                req = list(dict.fromkeys(req))
                rng.shuffle(req)
                both(h, 'read r=pr f=pf%d pixels=%s' % (nfile, ','.join(map(str, req))))
            observe(rng, h, p, name='pr')
            if rng.random() < 0.5:                              # … and can be extended after the round trip
                both(h, gen.upd_line(rng, gen.MapCfg('pr', 'packed', covord, spord), focus=None))
                observe(rng, h, p, name='pr')
        elif r < 0.95:
            both(h, 'scov p k=%d r=ps' % rng.choice(focus + [rng.randrange(p.ncov)]))
            observe(rng, h, p, name='ps')
        else:
            o = rng.randint(covord, spord)
            both(h, 'fracdet p r=pd ord=%d' % o)
            both(h, 'vals pd')
            both(h, 'covmask pd')
        observe(rng, h, p)
    if rng.random() < 0.5:
        # as_bit_packed_map of the unpacked twin must be the packed twin
        h += ['pack u r=pk', 'vals pk', 'vals p', 'covmask pk', 'covmask p', 'valid pk', 'valid p', 'info pk']
    observe(rng, h, p, full=True)
    return h


def histories(rng, tier):
    out = list(c05_array.histories(rng, tier))
    n = 200 if tier == 'quick' else 3000
    for _ in range(n):
        out.append(map_history(rng))
    return out


MUTATORS = ('upd', 'updr', 'bop', 'inv', 'copy', 'write', 'read', 'scov', 'fracdet', 'pack', 'cfg')
SKIP = ('info', 'state')


def pair_check(h, robs):
    """real side alone: an observation of `p…` must equal the same observation of its twin `u…`"""
    for i in range(len(h) - 1):
        ln = h[i]
        t = ln.split()
        if t[0].startswith('p.') or t[0] in SKIP or t[0] in MUTATORS:
            continue
        if len(t) < 2 or not t[1].startswith('p'):
            continue
        if h[i + 1] != twin_line(ln):
            # `vals pk` / `vals p` pairs of the as_bit_packed_map check
            if t[1] == 'pk' and h[i + 1] == ln.replace(' pk', ' p', 1):
                a, b = robs[i], robs[i + 1]
            else:
                continue
        else:
            a, b = robs[i], robs[i + 1]
        if any(o.startswith('err') or o in ('nomap', 'inexact') for o in (a, b)):
            continue
        if a != b:
            return "bit-packed and unpacked twins differ in `%s`: packed=%s unpacked=%s" % (ln[:60], a[:120], b[:120])
    return None


def nontrivial(h):
    if h and h[0].startswith('p.'):
        return c05_array.nontrivial(h)
    upd = any(ln.startswith('updr p ') or (ln.startswith('upd p ') and ('op=or' in ln or 'op=and' in ln)) for ln in h)
    other = any(ln.split()[0] in ('bop', 'inv', 'write', 'scov', 'fracdet', 'copy') for ln in h)
    return upd and other


def must_reject(line):
    """C05: the packed array must reject what the numpy twin rejects (array-level ops)"""
    return line.startswith('p.')
