/-
  Helper lemmas for the scalar operators, `apply_mask`, `astype` and `as_bit_packed_map`
  (model: HealSparse/Model/ScalarOps.lean).  The property theorems are in Props/C12.lean.
-/
import HealSparse.Lemmas.Core
import HealSparse.Lemmas.Coverage
import HealSparse.Lemmas.Valid
import HealSparse.Model.ScalarOps
namespace HS
variable {V : Type}

/-! ### cell-wise maps of the whole storage -/

theorem rd_map_lt {α β : Type} (g : α → β) (a : Array α) (i : Nat) (d : α) (d' : β)
    (hi : i < a.size) : rd (a.map g) i d' = g (rd a i d) := by
  simp [rd, hi]

/-- a state with the same index and a cell-wise mapped storage -/
def mapCells {W : Type} (s : State V) (g : V → W) : State W :=
  { cov := s.cov, sp := s.sp.map g }

theorem mapCells_covered {W : Type} (c : Cfg) (s : State V) (g : V → W) (k : Nat) :
    covered c (mapCells s g) k = covered c s k := rfl

theorem mapCells_lookup {W : Type} (c : Cfg) (s : State V) (g : V → W) (p : Nat) :
    lookup c (mapCells s g) p = lookup c s p := rfl

section
variable [DecidableEq V] {W : Type} [DecidableEq W]

theorem inv_mapCells (c : Cfg) (vc : VCfg V) (vw : VCfg W) (s : State V) (g : V → W)
    (h : Inv c vc s) (hg : g vc.sentinel = vw.sentinel) : Inv c vw (mapCells s g) := by
  refine inv_of_cov_eq (s' := mapCells s g) (vw := vw) h rfl (by simp [mapCells]) ?_
  intro i hi
  show (s.sp.map g)[i]? = _
  rw [Array.getElem?_map, h.2.2.1 i hi, Option.map_some, hg]

omit [DecidableEq W] in
theorem abs_mapCells (c : Cfg) (vc : VCfg V) (vw : VCfg W) (s : State V) (g : V → W)
    (h : Inv c vc s) (p : Nat) (hp : p < c.npix) :
    abs c vw (mapCells s g) p = g (abs c vc s p) := by
  show rd (s.sp.map g) (idxOf c s p) vw.sentinel = g (rd s.sp (idxOf c s p) vc.sentinel)
  exact rd_map_lt g s.sp _ vc.sentinel vw.sentinel (h.idxOf_lt_size hp)

end

theorem scalarOp_eq (vc : VCfg V) (s : State V) (f : V → V) :
    scalarOp vc s f = mapCells s (fun x => if vc.valid x then f x else x) := rfl

theorem astypeMap_eq {V' : Type} (vc : VCfg V) (s : State V) (conv : V → V') (sent' : V') :
    astypeMap vc s conv sent' = mapCells s (fun x => if vc.valid x then conv x else sent') := rfl

/-! ### `apply_mask` -/

theorem denseFold_const (v : V) (pix : List Nat) (p : Nat) (x : V) :
    denseFold (fun _ (_ : Unit) => v) (pix.map (·, ())) p x = if p ∈ pix then v else x := by
  unfold denseFold
  induction pix generalizing x with
  | nil => simp
  | cons q qs ih =>
    simp only [List.map_cons, List.foldl_cons, List.mem_cons]
    rw [ih]
    by_cases hq : q = p
    · subst hq; simp
    · have : ¬ p = q := fun h => hq h.symm
      simp [hq, this]

/-- the bad valid pixels, as `apply_mask` computes them -/
def badPixels (c : Cfg) (vc : VCfg V) (s : State V) (bad : Nat → Bool) : List Nat :=
  ((validCells vc s).map (pixOfCell c s)).filter bad

section
variable [DecidableEq V] {c : Cfg} {vc : VCfg V} {s : State V}

theorem Inv.applyMask_eq (h : Inv c vc s) (hv : vc.valid vc.sentinel = false) (bad : Nat → Bool) :
    applyMask c vc s bad =
      some (withScatter c s (fun _ (_ : Unit) => vc.sentinel)
        ((badPixels c vc s bad).map (·, ()))) := by
  unfold applyMask
  rw [h.validPixels_eq hv, Option.map_some, Inv.sp_zero c vc s h]
  congr 1
  unfold withScatter badPixels
  congr 1
  simp only [List.map_map]
  congr 2

theorem Inv.mem_badPixels (h : Inv c vc s) (hv : vc.valid vc.sentinel = false) (bad : Nat → Bool)
    (p : Nat) :
    p ∈ badPixels c vc s bad ↔ p < c.npix ∧ vc.valid (abs c vc s p) = true ∧ bad p = true := by
  unfold badPixels
  rw [List.mem_filter, h.mem_validCells_map hv p, and_assoc]

theorem Inv.badPixels_covered (h : Inv c vc s) (hv : vc.valid vc.sentinel = false)
    (bad : Nat → Bool) :
    ∀ qw ∈ (badPixels c vc s bad).map (fun p => (p, ())),
      qw.1 < c.npix ∧ covered c s (qw.1 >>> c.shift) = true := by
  intro qw hq
  obtain ⟨p, hp, rfl⟩ := List.mem_map.1 hq
  obtain ⟨h1, h2, _⟩ := (h.mem_badPixels hv bad p).1 hp
  exact ⟨h1, h.covered_of_valid hv h1 h2⟩

end

/-! ### `as_bit_packed_map` -/

/-- folding index-determined writes: the result at `i` is the written value iff `i` was
    addressed (no duplicate-freeness needed, the value depends on the index only) -/
theorem foldl_setIdx_get {α : Type} (F : Nat → α) (l : List Nat) (a : Array α) (i : Nat) :
    (l.foldl (fun a m => a.setIfInBounds m (F m)) a)[i]? =
      if i ∈ l ∧ i < a.size then some (F i) else a[i]? := by
  induction l generalizing a with
  | nil => simp
  | cons m ms ih =>
    rw [List.foldl_cons, ih, Array.getElem?_setIfInBounds, Array.size_setIfInBounds]
    by_cases hm : m = i
    · subst hm
      by_cases hlt : m < a.size
      · simp [hlt]
      · simp [hlt]
    · have : ¬ i = m := fun h => hm h.symm
      simp [hm, this]

theorem foldl_setIdx_size {α : Type} (F : Nat → α) (l : List Nat) (a : Array α) :
    (l.foldl (fun a m => a.setIfInBounds m (F m)) a).size = a.size := by
  induction l generalizing a with
  | nil => rfl
  | cons m ms ih => rw [List.foldl_cons, ih, Array.size_setIfInBounds]

/-- the cells written by `asBitPacked` -/
def packedCells (c : Cfg) (s : State V) : List Nat :=
  ((List.range c.ncov).filter (covered c s)).flatMap fun k =>
    (List.range c.nfine).map fun j => (blockStart c s k).toNat + j

theorem asBitPacked_sp (c : Cfg) (vc : VCfg V) (s : State V) :
    (asBitPacked c vc s).sp =
      (packedCells c s).foldl (fun a m => a.setIfInBounds m (vc.valid (rd s.sp m vc.sentinel)))
        (Array.replicate ((((List.range c.ncov).filter (covered c s)).length + 1) * c.nfine) false) := by
  unfold asBitPacked packedCells
  simp only [List.foldl_flatMap, List.foldl_map]

section
variable [DecidableEq V] {c : Cfg} {vc : VCfg V} {s : State V}

/-- the number of covered coverage pixels is the number of data blocks -/
theorem Inv.covered_count (h : Inv c vc s) :
    ((List.range c.ncov).filter (covered c s)).length = nblk c s := by
  have hperm : ((List.range c.ncov).filter (covered c s)).Perm (blockToCov c s).toList := by
    rw [List.perm_ext_iff_of_nodup (List.filter_sublist.nodup List.nodup_range) h.blockToCov_nodup]
    intro k
    rw [List.mem_filter, List.mem_range]
    constructor
    · rintro ⟨hk, hc⟩
      obtain ⟨b, hb⟩ := (h.covered_iff_blockToCov hk).1 hc
      rw [← Array.getElem?_toList] at hb
      exact List.mem_of_getElem? hb
    · intro hm
      have hk := h.blockToCov_lt k hm
      obtain ⟨b, hb⟩ := List.getElem?_of_mem hm
      rw [Array.getElem?_toList] at hb
      exact ⟨hk, (h.covered_iff_blockToCov hk).2 ⟨b, hb⟩⟩
  rw [hperm.length_eq, Array.length_toList, blockToCov_size]

theorem Inv.asBitPacked_size (h : Inv c vc s) : (asBitPacked c vc s).sp.size = s.sp.size := by
  rw [asBitPacked_sp, foldl_setIdx_size, Array.size_replicate, h.covered_count, ← h.size_eq]

/-- every data cell is addressed by `asBitPacked` -/
theorem Inv.mem_packedCells (h : Inv c vc s) {i : Nat} (h1 : c.nfine ≤ i) (h2 : i < s.sp.size) :
    i ∈ packedCells c s := by
  obtain ⟨b, k, hb, hk, _, hi, hbs, _, _⟩ := h.cell_spec h1 h2
  unfold packedCells
  rw [List.mem_flatMap]
  refine ⟨k, ?_, ?_⟩
  · rw [List.mem_filter, List.mem_range, covered_eq_true_iff, hbs]
    exact ⟨hk, by exact_mod_cast le_succ_mul _ _⟩
  · rw [List.mem_map]
    refine ⟨i % c.nfine, List.mem_range.2 (Nat.mod_lt _ c.nfine_pos), ?_⟩
    rw [hbs, Int.toNat_natCast]
    exact hi.symm

/-- the bit-packed storage holds the validity of every source cell -/
theorem Inv.asBitPacked_get (h : Inv c vc s) (hv : vc.valid vc.sentinel = false) {i : Nat}
    (hi : i < s.sp.size) :
    (asBitPacked c vc s).sp[i]? = some (vc.valid (rd s.sp i vc.sentinel)) := by
  rw [asBitPacked_sp, foldl_setIdx_get, Array.size_replicate, h.covered_count, ← h.size_eq]
  by_cases h1 : c.nfine ≤ i
  · rw [if_pos ⟨h.mem_packedCells h1 hi, hi⟩]
  · split
    · rfl
    · rw [Array.getElem?_replicate, if_pos hi]
      have : rd s.sp i vc.sentinel = vc.sentinel := by
        unfold rd; rw [h.2.2.1 i (by omega)]; rfl
      rw [this, hv]

end

end HS
