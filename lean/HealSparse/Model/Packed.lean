/-
  Executable model of `healsparse/packedBoolArray.py`, class `_PackedBoolArray` (array level
  of C05).  Core Lean only (linked into `hsdriver`).

  Representation.  numpy arrays are mutable and slices are *views*; the model makes this
  functional with ONE byte heap (`Heap`) for all arrays of a history and a view descriptor
  (`PBA`) per `_PackedBoolArray` object:

      self._data        = heap bytes [off, off+len)          (a numpy uint8 array or a view of one)
      self._start_index = start   (0..7)
      self._stop_index  = stop    (a Python int; it CAN be negative or < start, see `slice`)
      own               = does `self._data` own its memory (False for slice views)

  Every mutating method returns the updated heap, so a write through a slice view is seen by
  the parent (and by every other view of the same bytes), and two operands that are views of
  the same array alias exactly as in numpy.

  The methods are transcribed statement by statement (state of /repo after the repairs of
  2026-09-26, incl. "resize refuses a view before touching its last byte"), including the parts of the code that still deviate from numpy
  (they are marked `DEFECT`).  The theorems about this model are in
  `HealSparse/Props/C05.lean`.
-/
namespace HS
namespace Packed

abbrev Byte := BitVec 8
abbrev Heap := Array Byte

/-- Exception classes raised by the code / numpy. -/
inductive PErr where
  | value | index | notImpl | type | axis
  deriving DecidableEq, Repr

def PErr.tag : PErr → String
  | .value => "ValueError"
  | .index => "IndexError"
  | .notImpl => "NotImplementedError"
  | .type => "TypeError"
  | .axis => "AxisError"

/-- A `_PackedBoolArray` object: a view descriptor into the heap. -/
structure PBA where
  off : Nat
  len : Nat
  start : Nat
  stop : Int
  own : Bool
  deriving DecidableEq, Repr

/-! ### numpy primitives -/

/-- `np.unpackbits(b, bitorder="little").astype(bool)` of one byte. -/
def unpack (b : Byte) : List Bool := (List.range 8).map b.getLsbD

/-- `np.packbits(l, bitorder="little")[0]` (for `l.length ≤ 8`; shorter lists are zero padded). -/
def pack (l : List Bool) : Byte := (BitVec.ofBoolListLE l).setWidth 8

/-- `np.packbits(l, bitorder="little")` -/
def packBits (l : List Bool) : List Byte :=
  (List.range ((l.length + 7) / 8)).map fun j => pack ((l.drop (8 * j)).take 8)

/-- `data[i]` of the heap (0 outside; the model never reads outside). -/
def rdB (h : Heap) (i : Nat) : Byte := h.getD i 0

/-- `data[i] = b` -/
def wr (h : Heap) (i : Nat) (b : Byte) : Heap := h.setIfInBounds i b

/-- `arr[lo:hi] = f(arr[lo:hi])` on an unpacked byte (Python slice semantics for `0 ≤ lo`, `0 ≤ hi`:
    positions `i` with `lo ≤ i < hi`, clipped to the array). -/
def setRange (l : List Bool) (lo hi : Nat) (f : Nat → Bool → Bool) : List Bool :=
  l.mapIdx fun i x => if lo ≤ i ∧ i < hi then f i x else x

/-- `data[a:b] = g(data[a:b])`, `g` receives the index relative to `a`. -/
def mapRange (h : Heap) (a b : Nat) (g : Nat → Byte → Byte) : Heap :=
  h.mapIdx fun j x => if a ≤ j ∧ j < b then g (j - a) x else x

/-- bit `k` of the heap seen as one long little-endian bit string (specification device) -/
def hbit (h : Heap) (k : Nat) : Bool := (rdB h (k / 8)).getLsbD (k % 8)

/-- the bytes `self._data` -/
def PBA.data (h : Heap) (p : PBA) : List Byte := (h.extract p.off (p.off + p.len)).toList

/-- `self.size` (a Python int) -/
def PBA.size (p : PBA) : Int := p.stop - p.start

/-- `len(self)`: Python raises `ValueError` when `__len__` returns a negative number. -/
def PBA.pyLen (p : PBA) : Except PErr Nat :=
  if p.size < 0 then .error .value else .ok p.size.toNat

/-! ### `__init__` (lines 30-82) -/

def checkStart (start : Option Int) : Except PErr Nat :=
  match start with
  | none => .ok 0
  | some s => if s < 0 || s > 7 then .error .value else .ok s.toNat

/-- The `data_buffer is not None` branch; the buffer is heap bytes `[off, off+len)`. -/
def initData (off len : Nat) (own : Bool) (start stop : Option Int) : Except PErr PBA := do
  let s ← checkStart start
  match stop with
  | none => pure ⟨off, len, s, (len : Int) * 8, own⟩
  | some e =>
    let intrinsic : Int := (len : Int) * 8
    if e < intrinsic - 7 || e > intrinsic then throw .value
    pure ⟨off, len, s, e, own⟩

/-- `_PackedBoolArray(size=…, data_buffer=…, start_index=…, stop_index=…)`.
    A given `data` is a fresh numpy array: it is placed at the end of the heap. -/
def init (h : Heap) (size : Option Int) (data : Option (List Byte)) (start stop : Option Int) :
    Except PErr (Heap × PBA) := do
  if size.isSome && data.isSome then throw .value
  let s ← checkStart start
  match data with
  | some d =>
    let p ← initData h.size d.length true start stop
    pure (h ++ d.toArray, p)
  | none =>
    let size := size.getD 0
    if size < 0 then throw .value               -- "Size must not be negative."
    if stop.isSome then throw .value
    let offsetValue : Int := if (size + s) % 8 == 0 then 0 else 1
    let dataLen : Int := (size + s) / 8 + offsetValue
    if dataLen < 0 then throw .value            -- np.zeros(negative)
    pure (h ++ Array.replicate dataLen.toNat (0 : Byte), ⟨h.size, dataLen.toNat, s, size + s, true⟩)

/-- `from_boolean_array(arr, start_index)` (lines 84-113), `arr` a 1-d boolean array. -/
def fromBoolData (start : Nat) (arr : List Bool) : List Byte :=
  packBits (List.replicate start false ++ arr)

def fromBool (h : Heap) (arr : List Bool) (start : Option Int) : Except PErr (Heap × PBA) :=
  match start with
  | some s =>
    if s < 0 then .error .value else            -- np.zeros(start_index) with a negative length
    init h none (some (fromBoolData s.toNat arr)) (some s) (some (s + arr.length))
  | none => init h none (some (packBits arr)) (some 0) (some (0 + (arr.length : Int)))

/-! ### `__array__` (lines 392-394) -/

/-- `np.unpackbits(self._data, bitorder="little").astype(bool)[start:stop]` -/
def toBools (h : Heap) (p : PBA) : List Bool :=
  (((p.data h).flatMap unpack).take p.stop.toNat).drop p.start

/-! ### `__getitem__` with a slice (lines 235-291) -/

/-- `self[lo:hi:step]`; `none` = omitted.  All arithmetic is Python integer arithmetic
    (`//` and `%` by 8 are floor division / non-negative remainder = Lean `Int` `/`, `%`).
    A stop before the start gives the empty slice (`_stop = max(_stop, key_start)`). -/
def slice (p : PBA) (lo hi : Option Int) (step : Option Int := none) : Except PErr PBA := do
  let size := p.size
  -- key.start
  let (startIndex, stopIndex0, keyStart, dataStart) ← (match lo with
    | some ks =>
      if ks < 0 || ks > size then (.error .value : Except PErr (Int × Int × Int × Int))
      else
        let dataStart := (ks + p.start) / 8
        .ok ((ks + p.start) % 8, p.stop - dataStart * 8, ks, dataStart)
    | none => .ok ((p.start : Int), p.stop, 0, 0))
  -- key.stop
  let (dataStop, stopIndex) ← (match hi with
    | some ke =>
      let stop0 := if ke < 0 then ke + size else ke
      if stop0 > size then (.error .value : Except PErr (Int × Int))
      else
        let stop' := max stop0 keyStart
        let sz := stop' - keyStart
        let offsetValue : Int := if (sz + startIndex) % 8 == 0 then 0 else 1
        let dataStop := (stop' + p.start) / 8 + offsetValue
        .ok (dataStop, (dataStop - dataStart - offsetValue) * 8 + (stop' + p.start) % 8)
    | none => .ok ((p.len : Int), stopIndex0))
  match step with
  | some st => if st != 1 then throw .notImpl
  | none => pure ()
  -- self._data[data_start: data_stop]  (numpy clips; both bounds are ≥ 0 here)
  let a := min dataStart.toNat p.len
  let b := min dataStop.toNat p.len
  initData (p.off + a) (b - a) false (some startIndex) (some stopIndex)

/-! ### `_extract_first_middle_last` (lines 460-542) -/

/-- `(unpacked copy of a byte | None, start, stop)`; Python's `None` bounds are normalised
    (`None` start = 0, `None` stop = 8); for `(None, -1, -1)` the bounds are unused. -/
structure Part where
  arr : Option (List Bool)
  lo : Nat
  hi : Nat
  deriving DecidableEq, Repr

/-- `(None, -1, -1)` -/
def Part.absent : Part := ⟨none, 0, 0⟩

structure FML where
  first : Part
  /-- `None`, or the view `self._data[a:b]` -/
  mid : Option (Nat × Nat)
  last : Part
  deriving DecidableEq, Repr

def maskFrom (l : List Bool) (lo hi : Nat) : List Bool := setRange l lo hi fun _ _ => false

/-- The six cases, in the order of the code.  `rd i = self._data[i]`, `ndata = len(self._data)`. -/
def fml (rd : Nat → Byte) (ndata start : Nat) (stop : Int) (mask : Bool) : Except PErr FML :=
  if start == 0 && stop == (ndata : Int) * 8 then
    -- fully aligned
    .ok ⟨.absent, some (0, ndata), .absent⟩
  else if start == 0 then
    -- aligned at 0
    if ndata == 0 then .error .index else       -- self._data[-1] of an empty array
    let last := unpack (rd (ndata - 1))
    let sm := (stop % 8).toNat
    let last := if mask then maskFrom last sm 8 else last
    if stop < 8 then .ok ⟨.absent, none, ⟨some last, 0, sm⟩⟩
    else .ok ⟨.absent, some (0, ndata - 1), ⟨some last, 0, sm⟩⟩
  else
    -- not aligned at 0
    if ndata == 0 then .error .index else       -- self._data[0] of an empty array
    let first := unpack (rd 0)
    let first := if mask then maskFrom first 0 start else first
    if stop == (ndata : Int) * 8 then
      if ndata == 1 then .ok ⟨⟨some first, start, 8⟩, none, .absent⟩
      else .ok ⟨⟨some first, start, 8⟩, some (1, ndata), .absent⟩
    else
      if ndata == 1 then
        let first := if mask then maskFrom first stop.toNat 8 else first
        .ok ⟨⟨some first, start, stop.toNat⟩, none, .absent⟩
      else
        let last := unpack (rd (ndata - 1))
        let sm := (stop % 8).toNat
        let last := if mask then maskFrom last sm 8 else last
        let mid := if ndata - 2 == 0 then none else some (1, ndata - 1)
        .ok ⟨⟨some first, start, 8⟩, mid, ⟨some last, 0, sm⟩⟩

def PBA.fml (h : Heap) (p : PBA) (mask : Bool) : Except PErr FML :=
  Packed.fml (fun i => rdB h (p.off + i)) p.len p.start p.stop mask

/-- The write-back pattern shared by `__setitem__`(slice), `_operation_helper_bool` and
    `_operation_helper_pba`, in the order of the code:
      `first[0][lo:hi] = firstF(…); self._data[0]  = packbits(first[0])[0]`
      `last[0][lo:hi]  = lastF(…);  self._data[-1] = packbits(last[0])[0]`
      `mid_data[:] = midF(mid_data[:])`
    The unpacked first/last arrays are the copies taken when the parts were extracted;
    `midF` is given the heap *at the time of the middle update* (an operand that aliases
    `self` is read after the first/last bytes have been written). -/
def applyParts (h : Heap) (off len : Nat) (f : FML)
    (firstF lastF : Nat → Bool → Bool) (midF : Heap → Nat → Byte → Byte) : Heap :=
  let h1 := match f.first.arr with
    | some a => wr h off (pack (setRange a f.first.lo f.first.hi firstF))
    | none => h
  let h2 := match f.last.arr with
    | some a => wr h1 (off + len - 1) (pack (setRange a f.last.lo f.last.hi lastF))
    | none => h1
  match f.mid with
  | some (a, b) => mapRange h2 (off + a) (off + b) (midF h2)
  | none => h2

/-! ### `copy` (lines 197-219) -/

def setLast (l : List Byte) (b : Byte) : List Byte := l.set (l.length - 1) b

/-- `new_buffer[0] = packbits(first)[0]` and `new_buffer[-1] = packbits(last)[0]` (when present) -/
def maskedBuffer (f : FML) (nb : List Byte) : List Byte :=
  let nb := match f.first.arr with
    | some a => nb.set 0 (pack a)
    | none => nb
  match f.last.arr with
  | some a => setLast nb (pack a)
  | none => nb

def copy (h : Heap) (p : PBA) : Except PErr (Heap × PBA) := do
  let f ← p.fml h true
  let nb := maskedBuffer f (p.data h)           -- new_buffer = self._data.copy(); …
  let q ← initData h.size nb.length true (some p.start) (some p.stop)
  pure (h ++ nb.toArray, q)

/-- `np.shares_memory(p._data, q._data)`: both non-empty and the byte ranges intersect
    (distinct numpy buffers occupy disjoint parts of the heap) -/
def sharesMemory (p q : PBA) : Bool :=
  decide (0 < p.len) && decide (0 < q.len) && decide (p.off < q.off + q.len) && decide (q.off < p.off + p.len)

/-- a temporary buffer at the end of the heap is released (Python drops the object) -/
def release (h : Heap) (n : Nat) : Heap := h.extract 0 n

/-! ### in-place logic (lines 396-458, 544-633) -/

inductive Op where
  | and | or | xor | invert
  deriving DecidableEq, Repr

def Op.bool : Op → Bool → Bool → Bool
  | .and, x, o => x && o
  | .or, x, o => x || o
  | .xor, x, o => x ^^ o
  | .invert, x, _ => !x

def Op.byte : Op → Byte → Byte → Byte
  | .and, x, o => x &&& o
  | .or, x, o => x ||| o
  | .xor, x, o => x ^^^ o
  | .invert, x, _ => ~~~x

/-- `self._uint8_truefalse[b]` -/
def truefalse (b : Bool) : Byte := if b then 0xFF else 0

/-- `_operation_helper_bool(operation, other)` -/
def opBool (h : Heap) (p : PBA) (op : Op) (other : Bool) : Except PErr Heap := do
  let f ← p.fml h false
  pure (applyParts h p.off p.len f (fun _ x => op.bool x other) (fun _ x => op.bool x other)
    (fun _ _ x => op.byte x (truefalse other)))

/-- `self.invert()` -/
def invert (h : Heap) (p : PBA) : Except PErr Heap := opBool h p .invert true

/-- Common part of `_operation_helper_pba` and `__setitem__(slice, array)`: combine with the
    parts `g` of the operand.  `rdo hc i` reads byte `i` of the operand's `_data` from the
    current heap `hc` (for an operand living in the heap) or from a private buffer.
    A missing operand part would raise `TypeError` (`None[...]`), a middle of another length a
    broadcasting `ValueError`; neither happens for operands that pass the callers' checks. -/
def combineParts (h : Heap) (p : PBA) (f g : FML) (rdo : Heap → Nat → Byte)
    (bitF : Bool → Bool → Bool) (byteF : Byte → Byte → Byte) : Except PErr Heap := do
  if f.first.arr.isSome && g.first.arr.isNone then throw .type
  if f.last.arr.isSome && g.last.arr.isNone then throw .type
  let a' ← (match f.mid, g.mid with
    | some (a, b), some (a', b') => if b - a != b' - a' then .error .value else .ok a'
    | some _, none => .error .type
    | none, _ => (.ok 0 : Except PErr Nat))
  let of := (g.first.arr.getD [])
  let ol := (g.last.arr.getD [])
  pure (applyParts h p.off p.len f (fun t x => bitF x (of.getD t false)) (fun t x => bitF x (ol.getD t false))
    (fun hc i x => byteF x (rdo hc (a' + i))))

/-- the body of `_operation_helper_pba` after the aliasing test -/
def opPBACore (h : Heap) (p q : PBA) (op : Op) : Except PErr Heap := do
  let f ← p.fml h false
  let g ← q.fml h false
  combineParts h p f g (fun hc i => rdB hc (q.off + i)) op.bool op.byte

/-- `_operation_helper_pba(operation, other)`: overlapping views of one buffer are combined
    through a temporary copy of the operand (`other = other.copy()`). -/
def opPBA (h : Heap) (p q : PBA) (op : Op) : Except PErr Heap := do
  if sharesMemory p q then
    let (h1, qc) ← copy h q
    let h2 ← opPBACore h1 p qc op
    pure (release h2 h.size)
  else opPBACore h p q op

/-- `self &= other`, `self |= other`, `self ^= other` with a bool. -/
def iopBool (h : Heap) (p : PBA) (op : Op) (other : Bool) : Except PErr Heap := opBool h p op other

/-- `self &= other` … with a `_PackedBoolArray`.  (Line 402 compares `other._stop_index` with
    itself; harmless, equal sizes and starts imply equal stops.) -/
def iopPBA (h : Heap) (p q : PBA) (op : Op) : Except PErr Heap := do
  let lo ← q.pyLen
  let ls ← p.pyLen
  if lo != ls then throw .value
  if q.start != p.start || q.stop != q.stop then throw .value
  opPBA h p q op

/-! ### the copying forms -/

/-- `self & other`, `self | other`, `self ^ other` with a bool: `new = self.copy(); new op= other`. -/
def bopBool (h : Heap) (p : PBA) (op : Op) (other : Bool) : Except PErr (Heap × PBA) := do
  let (h1, n) ← copy h p
  let h2 ← iopBool h1 n op other
  pure (h2, n)

def bopPBA (h : Heap) (p q : PBA) (op : Op) : Except PErr (Heap × PBA) := do
  let (h1, n) ← copy h p
  let h2 ← iopPBA h1 n q op
  pure (h2, n)

/-- `~self` -/
def notCopy (h : Heap) (p : PBA) : Except PErr (Heap × PBA) := do
  let (h1, n) ← copy h p
  let h2 ← invert h1 n
  pure (h2, n)

/-! ### index arrays: `_set_bits_at_locs`, `_clear_bits_at_locs`, `_test_bits_at_locs` (635-674) -/

def minI (l : List Int) : Int := l.foldl min (l.headD 0)
def maxI (l : List Int) : Int := l.foldl max (l.headD 0)

/-- range check and `_locs = locs + self._start_index`; the `ufunc.at` / fancy-index bounds
    check on `self._data` precedes every update. -/
def checkLocs (p : PBA) (locs : List Int) : Except PErr (List Nat) :=
  if minI locs < 0 || maxI locs ≥ p.size then .error .index
  else
    let ls := locs.map fun (l : Int) => (l + (p.start : Int)).toNat
    if ls.any (fun l => l / 8 ≥ p.len) then .error .index else .ok ls

/-- `np.bitwise_or.at(self._data, _locs // 8, 1 << (_locs % 8))`: sequential, one update per entry. -/
def setBits (h : Heap) (p : PBA) (locs : List Int) : Except PErr Heap :=
  if locs.isEmpty then .ok h else do
  let ls ← checkLocs p locs
  pure (ls.foldl (fun h l => wr h (p.off + l / 8) (rdB h (p.off + l / 8) ||| ((1 : Byte) <<< (l % 8)))) h)

/-- `np.bitwise_and.at(self._data, _locs // 8, ~(1 << (_locs % 8)))` -/
def clearBits (h : Heap) (p : PBA) (locs : List Int) : Except PErr Heap :=
  if locs.isEmpty then .ok h else do
  let ls ← checkLocs p locs
  pure (ls.foldl (fun h l => wr h (p.off + l / 8) (rdB h (p.off + l / 8) &&& ~~~((1 : Byte) <<< (l % 8)))) h)

/-- `self._data[_locs // 8] & (1 << (_locs % 8)) != 0` -/
def testBits (h : Heap) (p : PBA) (locs : List Int) : Except PErr (List Bool) :=
  if locs.isEmpty then .ok [] else do
  let ls ← checkLocs p locs
  pure (ls.map fun l => (rdB h (p.off + l / 8) &&& ((1 : Byte) <<< (l % 8))) != 0)

/-- `self[i]` with an integer -/
def getInt (h : Heap) (p : PBA) (i : Int) : Except PErr Bool := do
  let r ← testBits h p [i]
  pure (r.headD false)

/-- `self[idx]` with an integer index array / list.  `asList`: a Python list was passed; the
    empty list becomes a float64 array under `np.atleast_1d` and is rejected. -/
def getIdx (h : Heap) (p : PBA) (idx : List Int) (asList : Bool := false) : Except PErr (List Bool) :=
  if asList && idx.isEmpty then .error .index else testBits h p idx

/-- `self[i] = value` with an integer -/
def setInt (h : Heap) (p : PBA) (i : Int) (v : Bool) : Except PErr Heap :=
  if v then setBits h p [i] else clearBits h p [i]

/-- `self[idx] = value` with a bool -/
def setIdxBool (h : Heap) (p : PBA) (idx : List Int) (v : Bool) (asList : Bool := false) : Except PErr Heap :=
  if asList && idx.isEmpty then .error .index else
  if idx.isEmpty then .ok h else
  if v then setBits h p idx else clearBits h p idx

/-- `np.unique`: the sorted distinct values -/
def insSorted (x : Int) : List Int → List Int
  | [] => [x]
  | y :: ys => if x < y then x :: y :: ys else if x = y then y :: ys else y :: insSorted x ys

def sortedUnique (l : List Int) : List Int := l.foldr insSorted []

/-- the value at the LAST occurrence of index `i` -/
def lastVal (ivs : List (Int × Bool)) (i : Int) : Bool :=
  ((ivs.reverse.find? fun iv => iv.1 == i).map (·.2)).getD false

/-- `_, last = np.unique(indices[::-1], return_index=True); keep = len(indices) - 1 - last`:
    `(indices[keep], value[keep])` = every distinct index (ascending) with its last value -/
def keepLast (idx : List Int) (vals : List Bool) : List (Int × Bool) :=
  (sortedUnique idx).map fun i => (i, lastVal (idx.zip vals) i)

/-- `self[idx] = values` with a boolean array: range check up front, then only the last
    occurrence of every index is kept; set the True ones, clear the False ones.
    DEFECT (kept): `len(idx) = 0` returns before the length check. -/
def setIdxArr (h : Heap) (p : PBA) (idx : List Int) (vals : List Bool) (asList : Bool := false) :
    Heap × Option PErr :=
  if asList && idx.isEmpty then (h, some .index) else
  if idx.isEmpty then (h, none) else
  if vals.length != idx.length then (h, some .value) else
  if minI idx < 0 || maxI idx ≥ p.size then (h, some .index) else
  let kp := keepLast idx vals
  let t := (kp.filter (·.2)).map (·.1)
  let f := (kp.filter (!·.2)).map (·.1)
  match setBits h p t with
  | .error e => (h, some e)
  | .ok h1 =>
    match clearBits h1 p f with
    | .error e => (h1, some e)
    | .ok h2 => (h2, none)

/-! ### `__setitem__` with a slice (lines 310-366) -/

def setSliceBool (h : Heap) (p : PBA) (lo hi : Option Int) (v : Bool) : Except PErr Heap := do
  let t ← slice p lo hi
  let n ← t.pyLen
  if n == 0 then return h
  let f ← t.fml h false
  pure (applyParts h t.off t.len f (fun _ _ => v) (fun _ _ => v) (fun _ _ _ => truefalse v))

/-- value = 1-d boolean ndarray.  DEFECT: an empty slice returns before the length check. -/
def setSliceArr (h : Heap) (p : PBA) (lo hi : Option Int) (vals : List Bool) : Except PErr Heap := do
  let t ← slice p lo hi
  let n ← t.pyLen
  if n == 0 then return h
  let f ← t.fml h false
  if vals.length != n then throw .value
  -- _value = from_boolean_array(value, start_index=temp_pba._start_index): a private buffer
  let vb := fromBoolData t.start vals
  let _ ← initData 0 vb.length true (some t.start) (some ((t.start : Int) + vals.length))
  let g ← Packed.fml (fun i => vb.getD i 0) vb.length t.start ((t.start : Int) + vals.length) false
  combineParts h t f g (fun _ i => vb.getD i 0) (fun _ o => o) (fun _ o => o)

/-- value = `_PackedBoolArray` `q`; a view overlapping the target is copied first. -/
def setSlicePBA (h : Heap) (p : PBA) (lo hi : Option Int) (q : PBA) : Except PErr Heap := do
  let t ← slice p lo hi
  let n ← t.pyLen
  if n == 0 then return h
  let f ← t.fml h false
  if (t.start : Int) != q.start || t.stop != q.stop then throw .value
  if sharesMemory t q then
    let (h1, qc) ← copy h q
    let g ← qc.fml h1 false
    let h2 ← combineParts h1 t f g (fun hc i => rdB hc (qc.off + i)) (fun _ o => o) (fun _ o => o)
    pure (release h2 h.size)
  else
    let g ← q.fml h false
    combineParts h t f g (fun hc i => rdB hc (q.off + i)) (fun _ o => o) (fun _ o => o)

/-! ### `sum`, `_bit_count` (lines 155-187, 676-688) -/

/-- One entry of the lookup table: the uint8 (wrap-around) arithmetic of lines 678-686. -/
def bitCount (x : Byte) : Byte :=
  let x := x - ((x >>> 1) &&& 0x55)
  let x := (x &&& 0x33) + ((x >>> 2) &&& 0x33)
  let x := (x + (x >>> 4)) &&& 0x0F
  x * 0x01

def countTrue (l : List Bool) : Nat := l.count true

/-- `np.sum(first) + np.sum(last) + np.sum(self._bit_count(mid_data))` (lines 160-165);
    `off` = heap position of `self._data[0]` -/
def sumParts (h : Heap) (off : Nat) (f : FML) : Nat :=
  let s1 := match f.first.arr with | some a => countTrue a | none => 0
  let s2 := match f.last.arr with | some a => countTrue a | none => 0
  let s3 := match f.mid with
    | some (a, b) => (((List.range (b - a)).map fun i => (bitCount (rdB h (off + a + i))).toNat)).sum
    | none => 0
  s1 + s2 + s3

/-- `self.sum()` -/
def sum (h : Heap) (p : PBA) : Except PErr Nat := do
  let f ← p.fml h true
  pure (sumParts h p.off f)

def prodL (l : List Nat) : Nat := l.foldl (· * ·) 1

/-- `np.sum(temp.reshape(shape), axis=k)` for a flat `temp`, C order; returns the flat result. -/
def sumAxis (temp : List Nat) (shape : List Nat) (k : Nat) : List Nat :=
  let outer := prodL (shape.take k)
  let A := shape.getD k 1
  let inner := prodL (shape.drop (k + 1))
  (List.range (outer * inner)).map fun oi =>
    let o := oi / inner
    let i := oi % inner
    ((List.range A).map fun a => temp.getD ((o * A + a) * inner + i) 0).sum

/-- `self.sum(shape=shape, axis=axis)`; result = (shape of the result, flat values).
    Only `axis=None` and the last axis are supported (the counts are per byte). -/
def sumShaped (h : Heap) (p : PBA) (shape : List Nat) (axis : Option Int) :
    Except PErr (List Nat × List Nat) := do
  if p.start != 0 || p.stop % 8 != 0 then throw .value
  match axis with
  | some a => if a ≥ shape.length then throw .value
  | none => pure ()
  if ((prodL shape : Nat) : Int) != p.size then throw .value
  match shape.getLast? with
  | none => throw .index
  | some l => if l % 8 != 0 then throw .value
  match axis with
  | some a => if a != (shape.length : Int) - 1 then throw .notImpl
  | none => pure ()
  let newShape := shape.set (shape.length - 1) (shape.getLast?.getD 0 / 8)
  let temp := (p.data h).map fun b => (bitCount b).toNat
  if prodL newShape != temp.length then throw .value    -- reshape
  match axis with
  | none => pure ([], [temp.sum])
  | some a => pure (newShape.eraseIdx a.toNat, sumAxis temp newShape a.toNat)

/-! ### `resize`, `data_array` (lines 131-153, 189-195) -/

/-- `np.uint8((1 << sm) - 1)` -/
def lowMask (sm : Nat) : Byte := BitVec.ofNat 8 ((1 <<< sm) - 1)

/-- `self._data.resize(nd, refcheck=False); self._stop_index = newsize + start`:
    numpy's `resize` is a no-op when the byte count does not change (also on a view), fails on a
    view otherwise (`_stop_index` is then left alone), and reallocates an owning buffer
    (modelled as a move to the end of the heap with zero fill; older views of it keep the stale
    bytes — in numpy they dangle). -/
def growBuffer (h : Heap) (p : PBA) (nd : Nat) (newstop : Int) : (Heap × PBA) × Option PErr :=
  if nd == p.len then ((h, { p with stop := newstop }), none)
  else if !p.own then ((h, p), some .value)
  else
    let bytes := ((p.data h).take nd) ++ List.replicate (nd - p.len) (0 : Byte)
    ((h ++ bytes.toArray, { p with off := h.size, len := nd, stop := newstop }), none)

/-- `self.resize(newsize)` (lines 133-163).  A view of another buffer is refused before anything
    is touched (as numpy refuses to resize a view).  For an owning buffer the padding bits of the
    last byte are cleared first, so the new elements are False whatever the padding held. -/
def resize (h : Heap) (p : PBA) (newsize : Int) : (Heap × PBA) × Option PErr :=
  if newsize < p.size then ((h, p), some .value)
  else if newsize == p.size then ((h, p), none)
  else
    let nd0 := (newsize + p.start) / 8
    let nd := (if (newsize + p.start) % 8 != 0 then nd0 + 1 else nd0).toNat
    if !p.own then ((h, p), some .value)                -- not self._data.flags.owndata
    else if p.stop % 8 != 0 then
      if p.len == 0 then ((h, p), some .index)          -- self._data[-1] of an empty buffer
      else
        let last := p.off + p.len - 1
        growBuffer (wr h last (rdB h last &&& lowMask (p.stop % 8).toNat)) p nd (newsize + p.start)
    else growBuffer h p nd (newsize + p.start)

/-- `self.data_array` -/
def dataArray (h : Heap) (p : PBA) : Except PErr (List Byte) :=
  if p.start != 0 || p.stop != p.size then .error .notImpl else .ok (p.data h)

/-- `str(self)` -/
def repr (p : PBA) : String :=
  let st := s!"_PackedBoolArray(size={p.size}"
  let st := if p.start > 0 then st ++ s!", start_index={p.start}" else st
  st ++ ")"

end Packed
end HS
