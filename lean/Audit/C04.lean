import HealSparse.Props.C04
import HealSparse.Props.C04Kernels
#print axioms HS.C04.checkInv_iff
#print axioms HS.C04.inv_makeEmpty
#print axioms HS.C04.inv_reserve
#print axioms HS.C04.inv_updateCore
#print axioms HS.C04.lookup_inj
#print axioms HS.C04.uncovered_reads_sentinel
#print axioms HS.C04.covered_in_range
#print axioms HS.C04.file_layout
#print axioms HS.C04.reachable_wf
#print axioms HS.C04.reachable_get_wf
#print axioms HS.C04.reachable_checkInv
#print axioms HS.C04.reachable_get_checkInv
#print axioms HS.C04.reachable_get_ok
#print axioms HS.C04.reachable_file_wf
#print axioms HS.C04.kernel_bitshift
#print axioms HS.C04.kernel_bitshift_exhaustive
#print axioms HS.C04.kernel_bitshift_spec
#print axioms HS.C04.kernel_default_sentinels
#print axioms HS.C04.kernel_sentinels_all_dtypes
#print axioms HS.C04.kernel_unseen
