/-
  C20 — random points fall inside the map's valid footprint, in the requested number.
  Property theorems only (helpers in HealSparse/Lemmas).  Proved: the arithmetic of the fast
  generator, the bookkeeping of the rejection loop (count, validity, determinism as a
  function of the candidate stream, divergence when no candidate is valid) and the window
  logic (every per-pixel interval is covered modulo one turn; the clipped pre-fix window was
  not).  Outside Lean: geometry of pixels (hpgeom), the bound on pixel extents, statistics.
-/
import HealSparse.Model.Randoms
import HealSparse.Lemmas.Randoms
namespace HS
namespace C20

/-- fast generator: every point lies in the valid pixel chosen for it … -/
theorem fast_in_parent (s p sub : Nat) (h : sub < 2 ^ s) : fastChild s p sub >>> s = p := by
  exact Randoms.fastChild_shiftRight s p sub h

/-- … and every sub-pixel of a valid pixel is reachable (the range of `sub` is all of `[0, 2^s)`) -/
theorem fast_onto (s p c : Nat) (h : c >>> s = p) : ∃ sub, sub < 2 ^ s ∧ fastChild s p sub = c := by
  exact Randoms.fastChild_onto s p c h

/-- the rejection loop, when it terminates, returns exactly `n` points, all of them valid
    candidates, namely the first `n` valid candidates of the stream in order — so the result is a
    function of the candidate stream alone (determinism per seed) -/
theorem loop_spec {α : Type} (n : Nat) (bs : List (List (α × Bool))) (out : List α)
    (h : rejectionLoop n bs = some out) :
    out.length = n ∧ out = (((bs.flatten).filter (·.2)).take n).map (·.1) := by
  rw [Randoms.rejectionLoop_eq] at h
  split at h
  · next hc =>
    cases h
    refine ⟨?_, rfl⟩
    rw [Randoms.takeValid_length]
    omega
  · cases h

/-- every returned point was drawn and is valid -/
theorem loop_valid {α : Type} (n : Nat) (bs : List (List (α × Bool))) (out : List α)
    (h : rejectionLoop n bs = some out) : ∀ x ∈ out, (x, true) ∈ bs.flatten := by
  rw [Randoms.rejectionLoop_eq] at h
  split at h
  · cases h
    intro x hx
    exact Randoms.takeValid_mem n _ x hx
  · cases h

/-- the loop finds its `n` points as soon as the supply contains `n` valid candidates -/
theorem loop_terminates {α : Type} (n : Nat) (bs : List (List (α × Bool)))
    (h : n ≤ ((bs.flatten).filter (·.2)).length) : (rejectionLoop n bs).isSome = true := by
  rw [Randoms.rejectionLoop_eq, if_pos h]
  rfl

/-- … and never, if no candidate is ever valid (a footprint wholly outside the sampled window
    makes the real loop run forever) -/
theorem loop_may_diverge {α : Type} (n : Nat) (hn : 0 < n) (bs : List (List (α × Bool)))
    (h : ∀ b ∈ bs, ∀ c ∈ b, c.2 = false) : rejectionLoop n bs = none := by
  rw [Randoms.rejectionLoop_eq, if_neg]
  have hz : (bs.flatten).filter (·.2) = [] := by
    rw [List.filter_eq_nil_iff]
    intro c hc
    obtain ⟨b, hb, hcb⟩ := List.mem_flatten.1 hc
    simp [h b hb c hcb]
  rw [hz]
  simp only [List.length_nil]
  omega

/-- **window**: every point of every per-coverage-pixel interval is congruent, modulo one turn,
    to a point of the sampled window (so after wrapping no part of the footprint is starved by
    the window) -/
theorem window_covers (T : Int) (hT : 0 < T) (ivs : List (Int × Int)) (iv : Int × Int) (hiv : iv ∈ ivs)
    (x : Int) (hx : iv.1 ≤ x ∧ x ≤ iv.2) :
    ∃ y, (raWindow T ivs).1 ≤ y ∧ y ≤ (raWindow T ivs).2 ∧ (y - x) % T = 0 := by
  exact Randoms.raWindow_covers T hT ivs iv hiv x hx

/-- the window is never wider than one turn -/
theorem window_width (T : Int) (hT : 0 < T) (ivs : List (Int × Int)) (hne : ivs ≠ [])
    (hwf : ∀ iv ∈ ivs, iv.1 ≤ iv.2) :
    0 ≤ (raWindow T ivs).2 - (raWindow T ivs).1 ∧ (raWindow T ivs).2 - (raWindow T ivs).1 ≤ T := by
  exact Randoms.raWindow_width T hT ivs hne hwf

/-- witness: the pre-fix clipped window starves the part of an interval lying west of 0 -/
theorem Witness.window_clip_starves :
    ¬ ∃ y, (raWindowClipped 360 [(-10, 10)]).1 ≤ y ∧ y ≤ (raWindowClipped 360 [(-10, 10)]).2 ∧
      (y - (-5)) % 360 = 0 := by
  have e : raWindowClipped 360 [(-10, 10)] = (0, 10) := by decide
  rw [e]
  rintro ⟨y, h1, h2, h3⟩
  simp only at h1 h2
  omega

/-- non-vacuity -/
example : rejectionLoop 3 [[(1, false), (2, true)], [(3, true), (4, true), (5, true)]] = some [2, 3, 4] := by
  decide
example : raWindow 360 [(-10, 10), (350, 370)] = (0, 360) := by decide

end C20
end HS
