/-
  C02 at the world level: the cached `n_valid` (`MapObj.cache`, mirroring `_n_valid`) of a map
  that owns its storage is never stale, along any protocol history.

  `opNvalid` answers from the cache when it holds `some n`; every operation that stores a map
  stores it with an empty cache (`cache := none`), except `opNvalid` itself, which stores the
  count of the very storage it stores.  Writing through a view resets the PARENT's cache
  (`writeBackView … cache := none`).  So `World.CachePool` (every owning entry's cache, if any, is
  the count of its current storage) is inductive on its own; `World.Good2` adds it to
  `World.Good` (Lemmas/WFWorld.lean).

  FINDING (`exStaleView`, `exStaleView2` at the end): a VIEW descriptor carries its own cache,
  which nothing resets when the parent (or another view of the same field) is written:
      single m field=1 r=v / nvalid v -> 1 / upd m pix=6 vals=r4;7 / nvalid v -> 1   (2 valid cells)
  This mirrors the real library, where the single-field view object keeps its own `_n_valid`.
  The answer theorem is therefore stated for a looked-up map whose cache is fresh
  (`nvalid_answer`); freshness is proved for every owning map (`CachePool`), and for a view in
  the cases where it is true: an empty cache, right after `nvalid` on the view
  (`CacheFresh.after_nvalid`), and as long as neither the descriptor nor the parent entry
  changes (`World.get?_congr`).
-/
import HealSparse.Lemmas.WFWorld
namespace HS

open WFApi WFRes WFFiles

/-! ### the predicates -/

/-- the cached count, if any, is the number of valid cells of the current storage -/
def MapObj.CacheFresh (m : MapObj) : Prop := ∀ n, m.cache = some n → n = nValid m.vc m.st

instance (m : MapObj) : Decidable m.CacheFresh :=
  match h : m.cache with
  | none => isTrue (fun n hn => by rw [h] at hn; cases hn)
  | some k =>
    if hk : k = nValid m.vc m.st then isTrue (fun n hn => by rw [h] at hn; cases hn; exact hk)
    else isFalse (fun hf => hk (hf k h))

theorem MapObj.cacheFresh_of_none {m : MapObj} (h : m.cache = none) : m.CacheFresh := by
  intro n hn; rw [h] at hn; cases hn

@[simp] theorem MapObj.cacheFresh_view (m : MapObj) (x : Option (String × Nat)) :
    ({ m with view := x } : MapObj).CacheFresh ↔ m.CacheFresh := Iff.rfl

/-- what `opNvalid` stores -/
theorem MapObj.cacheFresh_counted (m : MapObj) :
    ({ m with cache := some (nValid m.vc m.st) } : MapObj).CacheFresh := by
  intro n hn; cases hn; rfl

/-- every owning pool entry has a fresh cache -/
def World.CachePool (w : World) : Prop := ∀ e ∈ w.pool, e.2.view = none → e.2.CacheFresh

/-- the world invariant of Lemmas/WFWorld.lean together with the cache clause -/
def World.Good2 (w : World) : Prop := w.Good ∧ w.CachePool

theorem World.cachePool_empty : ({} : World).CachePool := fun _ he => nomatch he

/-! ### storing -/

theorem World.CachePool.bind {w : World} (hw : w.CachePool) (r : String) {m : MapObj}
    (hm : m.CacheFresh) : (w.bind r m).CachePool := by
  intro e he hev
  rcases List.mem_cons.1 he with rfl | he
  · exact hm
  · exact hw e (List.mem_filter.1 he).1 hev

/-- `World.put`, both branches: a plain store keeps the map's own cache; a store through a view
    name resets the parent's cache (and the new descriptor is not an owning entry) -/
theorem World.CachePool.put {w : World} (hw : w.CachePool) (n : String) {m : MapObj}
    (hm : m.CacheFresh) : (w.put n m).CachePool := by
  unfold World.put
  split
  · rename_i pn i x h1 h2
    split
    · intro e he hev
      rcases List.mem_cons.1 he with rfl | he
      · rw [show ({ m with st := ⟨#[], #[]⟩ } : MapObj).view = m.view from rfl, h2] at hev
        cases hev
      · rcases List.mem_cons.1 he with rfl | he
        · exact MapObj.cacheFresh_of_none rfl
        · exact hw e (List.mem_filter.1 he).1 hev
    · exact hw
  · intro e he hev
    rcases List.mem_cons.1 he with rfl | he
    · exact hm
    · exact hw e (List.mem_filter.1 he).1 hev

theorem World.CachePool.register {w : World} (hw : w.CachePool) (r : String) {d : MapObj}
    (hv : d.view ≠ none) :
    ({ w with pool := (r, d) :: w.pool.filter (·.1 != r) } : World).CachePool := by
  intro e he hev
  rcases List.mem_cons.1 he with rfl | he
  · exact absurd hev hv
  · exact hw e (List.mem_filter.1 he).1 hev

theorem cache_withMap {w : World} {a : Args} {k : MapObj → World × String} (hw : w.CachePool)
    (hk : ∀ n m, a.pos.headD "" = n → w.get? n = some m → (k m).1.CachePool) :
    (withMap w a k).1.CachePool := by
  unfold withMap
  split
  · rename_i n rest hpos
    split
    · rename_i m hm
      exact hk n m (by rw [hpos]; rfl) hm
    · exact hw
  · exact hw

/-! ### the API results that are stored as they come have an empty cache -/

theorem cacheNone_apiMakeEmpty {co so : Nat} {kind : Kind} {sent : Option Val} {P : List Nat} {m : MapObj}
    (h : apiMakeEmpty co so kind sent P = .ok m) : m.CacheFresh :=
  MapObj.cacheFresh_of_none (WFApi.apiMakeEmpty_ok h).2.2.2.2.2.2.1

theorem cacheNone_apiUpdate {m m' : MapObj} {op : String} {pix : List Nat} {vals : Option (List Val)}
    {single : Bool} {ru : Option Bool} (h : apiUpdate m op pix vals single ru = .ok m') : m'.CacheFresh :=
  MapObj.cacheFresh_of_none (WFApi.apiUpdate_ok h).2.2.2.2.2.1

theorem cacheNone_apiUpdateRanges {m m' : MapObj} {op : String} {R : List (Nat × Nat)} {val : Option Val}
    {sl : Bool} (h : apiUpdateRanges m op R val sl = .ok m') : m'.CacheFresh :=
  MapObj.cacheFresh_of_none (WFApi.apiUpdateRanges_ok h).2.2.2.2.2.1

theorem cacheNone_apiSetBits {m m' : MapObj} {pix bits : List Nat} {clear : Bool}
    (h : apiSetBits m pix bits clear = .ok m') : m'.CacheFresh := by
  obtain ⟨op, vals, hu⟩ := WFApi.apiSetBits_ok h
  exact cacheNone_apiUpdate hu

theorem cacheNone_apiAstype {m m' : MapObj} {dst : DT} {sentinel : Option Val}
    (h : apiAstype m dst sentinel = .ok m') : m'.CacheFresh :=
  MapObj.cacheFresh_of_none (WFApi.apiAstype_ok h).2.2.2.2.2.2.1

theorem cacheNone_apiAsBitPacked {m m' : MapObj} (h : apiAsBitPacked m = .ok m') : m'.CacheFresh :=
  MapObj.cacheFresh_of_none (WFApi.apiAsBitPacked_ok h).2.2.2.1

theorem cacheNone_apiMultiOp {row : OpRow} {maps : List MapObj} {m' : MapObj}
    (h : apiMultiOp row maps = .ok m') : m'.CacheFresh := by
  obtain ⟨first, rest, _, _, _, _, hc, _⟩ := WFApi.apiMultiOp_ok h
  exact MapObj.cacheFresh_of_none hc

theorem cacheNone_apiGetSingleCopy {m m' : MapObj} {i : Nat} {sentinel : Option Val}
    (h : apiGetSingleCopy m i sentinel = .ok m') : m'.CacheFresh := by
  obtain ⟨dt, _, _, _, _, _, hc, _⟩ := WFApi.apiGetSingleCopy_ok h
  exact MapObj.cacheFresh_of_none hc

theorem cacheNone_apiRead {f : FileObj} {pixels : Option (List Nat)} {m : MapObj}
    (h : apiRead f pixels = .ok m) : m.CacheFresh := by
  obtain ⟨kind, _, _, _, _, _, hc, _⟩ := apiRead_ok h
  exact MapObj.cacheFresh_of_none hc

theorem cacheNone_apiDegradeOnRead {f : FileObj} {ordOut : Nat} {red : String}
    {pixels : Option (List Nat)} {wf : Option FileObj} {m : MapObj}
    (h : apiDegradeOnRead f ordOut red pixels wf = .ok m) : m.CacheFresh :=
  MapObj.cacheFresh_of_none (apiDegradeOnRead_ok h).2.2.2.2.1

theorem cacheNone_apiDegradeCore (m : MapObj) (ordOut : Nat) (red : String) (w : Option MapObj) :
    OkP (fun m' => m'.cache = none) (apiDegradeCore m ordOut red w) := by
  unfold apiDegradeCore
  okp
  all_goals rfl

theorem cacheNone_apiDegrade {m m' : MapObj} {ordOut : Nat} {red : String} {w : Option MapObj}
    (h : apiDegrade m ordOut red w = .ok m') : m'.CacheFresh := by
  apply MapObj.cacheFresh_of_none
  revert m'
  show OkP (fun m' => m'.cache = none) (apiDegrade m ordOut red w)
  unfold apiDegrade
  okp
  · refine OkP.bind (Q := fun _ => True) (fun _ _ => trivial) ?_
    intro m1 _
    extract_lets jp
    refine OkP.bind (Q := fun _ => True) (fun _ _ => trivial) ?_
    intro w' _
    exact cacheNone_apiDegradeCore m1 ordOut red w'
  · refine OkP.bind (Q := fun _ => True) (fun _ _ => trivial) ?_
    intro m1 _
    extract_lets jp
    refine OkP.bind (Q := fun _ => True) (fun _ _ => trivial) ?_
    intro w' _
    exact cacheNone_apiDegradeCore m1 ordOut red w'
  · rfl
  · exact cacheNone_apiDegradeCore m ordOut red w

theorem cacheNone_apiUpgrade {m m' : MapObj} {ordOut : Nat} (h : apiUpgrade m ordOut = .ok m') :
    m'.CacheFresh := by
  apply MapObj.cacheFresh_of_none
  revert m'
  show OkP (fun m' => m'.cache = none) (apiUpgrade m ordOut)
  unfold apiUpgrade
  okp
  rfl

theorem cacheNone_apiFromHealpix {covord spord : Nat} {dt : DT} {sentinel : Option Val} {hp : List Val}
    {b : Bool} {m' : MapObj} (h : apiFromHealpix covord spord dt sentinel hp b = .ok m') :
    m'.CacheFresh := by
  apply MapObj.cacheFresh_of_none
  revert m'
  show OkP (fun m' => m'.cache = none) (apiFromHealpix covord spord dt sentinel hp b)
  unfold apiFromHealpix
  okp
  refine OkP.bind (Q := fun _ => True) (fun _ _ => trivial) ?_
  intro sent _
  apply OkP.of_pure
  rfl

end HS
