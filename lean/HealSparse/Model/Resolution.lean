/-
  Changing resolution: `_degrade`, `upgrade`.

  Mirrors healSparseMap.py `_degrade` (1492-1611, after the `fix:` commits: weights are
  gathered into this map's storage layout; the overflow block of the result is reset to
  the sentinel) and `upgrade` (1661-1697).  The storage is regrouped by consecutive runs
  of `2^g` cells (row-major reshape `(nblk+1, ncoarse, 2^g)`), the reduction is a
  parameter applied to the run of cells (it does the validity masking itself, as
  `reduce_array` does through NaN).
-/
import HealSparse.Model.Core
import HealSparse.Model.Map
import HealSparse.Model.Valid
namespace HS

variable {V W : Type}

/-- configuration of the coarser map (`g` bits fewer per coverage pixel) -/
def degCfg (c : Cfg) (g : Nat) : Cfg := ⟨c.ncov, c.shift - g⟩

/-- `_degrade`: output cell `r` = `red` of input cells `[r*2^g, (r+1)*2^g)`, then the
    overflow block is reset; index rebuilt from the block table (order preserving). -/
def degradeMap (c : Cfg) (vc : VCfg V) (s : State V) (g : Nat) (red : List V → W) (sentOut : W) :
    State W :=
  let cOut := degCfg c g
  let grp := 2 ^ g
  { cov := initializePixels cOut (emptyCov cOut) (blockToCov c s).toList
    sp := (Array.range (s.sp.size / grp)).map fun r =>
      if r < cOut.nfine then sentOut
      else red ((List.range grp).map fun j => rd s.sp (r * grp + j) vc.sentinel) }

/-- weights gathered into this map's storage layout (zeros elsewhere):
    `wv[p + cov[p >> shift]] = weights[p]` for every valid pixel `p` of this map -/
def gatherWeights {X : Type} (c : Cfg) (vc : VCfg V) (s : State V) (wAt : Nat → X) (zero : X) :
    Option (Array X) :=
  (validPixels c vc s).map fun vp =>
    vp.foldl (fun a p => a.setIfInBounds (idxOf c s p.toNat) (wAt p.toNat)) (Array.replicate s.sp.size zero)

/-- weighted `_degrade`: the reduction sees (cell, weight) pairs -/
def degradeMapW {X : Type} (c : Cfg) (vc : VCfg V) (s : State V) (g : Nat) (wv : Array X) (zero : X)
    (red : List (V × X) → W) (sentOut : W) : State W :=
  let cOut := degCfg c g
  let grp := 2 ^ g
  { cov := initializePixels cOut (emptyCov cOut) (blockToCov c s).toList
    sp := (Array.range (s.sp.size / grp)).map fun r =>
      if r < cOut.nfine then sentOut
      else red ((List.range grp).map fun j =>
        (rd s.sp (r * grp + j) vc.sentinel, rd wv (r * grp + j) zero)) }

/-- `upgrade`: `np.repeat(sp, 2^g)`; index rebuilt from the block table. -/
def upgradeMap (c : Cfg) (vc : VCfg V) (s : State V) (g : Nat) : State V :=
  let cOut : Cfg := ⟨c.ncov, c.shift + g⟩
  { cov := initializePixels cOut (emptyCov cOut) (blockToCov c s).toList
    sp := (Array.range (s.sp.size * 2 ^ g)).map fun i => rd s.sp (i / 2 ^ g) vc.sentinel }

/-- `degrade` below the coverage resolution first re-houses the map into one whose coverage
    resolution is the target (`make_empty_like(self, nside_coverage=nside_out)` followed by
    `out[valid_pixels] = self[valid_pixels]`, i.e. a `replace` update of an empty map). -/
def rehouseMap (c cNew : Cfg) (vc : VCfg V) (s : State V) : Option (State V) :=
  (validPixels c vc s).map fun vp =>
    updatePix cNew vc (makeEmpty cNew vc []) none (fun _ (w : V) => w)
      (vp.map fun p => (p.toNat, abs c vc s p.toNat)) false

/-- the run of fine-pixel values below coarse pixel `q` (NEST order): dense view of the children -/
def childrenVals (c : Cfg) (vc : VCfg V) (s : State V) (g : Nat) (q : Nat) : List V :=
  (List.range (2 ^ g)).map fun j => abs c vc s (q * 2 ^ g + j)

end HS
