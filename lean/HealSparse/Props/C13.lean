/-
  C13 — a wide-mask map behaves as a per-pixel set of bit positions.
  Property theorems only (helpers in HealSparse/Lemmas).  The map-level statements
  (history refinement, validity accounting, rejection leaves the map unchanged) are the
  C01 / C02 theorems instantiated at byte-row cells; this file proves the bit-level facts.
-/
import HealSparse.Model.WideMask
import HealSparse.Model.Api
import HealSparse.Lemmas.WideMask
import HealSparse.Lemmas.ApiReject
namespace HS
namespace C13

/-- a row of `n` bytes -/
def IsRow (row : List Nat) (n : Nat) : Prop := row.length = n ∧ ∀ x ∈ row, x < 256

/-- width rule of make_empty: `nbytes = (maxbits-1)/8 + 1` holds every requested bit -/
theorem width_rule (maxbits : Nat) (h : 1 ≤ maxbits) : maxbits ≤ 8 * ((maxbits - 1) / 8 + 1) := by
  omega

/-- geometry width (after the fix): `maxbits = max(bits)+1` bytes hold every bit of the shape -/
theorem geom_width_enough (bits : List Nat) (b : Nat) (hb : b ∈ bits) :
    b < 8 * ((bits.foldl max 0 + 1 - 1) / 8 + 1) := by
  have h := WideMask.le_foldl_max bits 0 b hb
  omega

/-- `_bitvals_to_packed_array` produces a row of `maxbits/8` bytes … -/
theorem pack_isRow (bits : List Nat) (maxbits : Nat) :
    IsRow (bitvalsToPacked bits maxbits) (maxbits / 8) := by
  exact ⟨WideMask.length_bitvalsToPacked bits maxbits,
    fun x hx => WideMask.lt_of_mem_bitvalsToPacked bits maxbits x hx⟩

/-- … whose set bits are exactly the listed positions (including 7, 8, 15, 16, …). -/
theorem pack_testBit (bits : List Nat) (maxbits b : Nat) (hb : b < 8 * (maxbits / 8)) :
    rowTestBit (bitvalsToPacked bits maxbits) b = bits.contains b := by
  exact WideMask.rowTestBit_bitvalsToPacked bits maxbits b hb

/-- set_bits: `S' = S ∪ bits` -/
theorem set_bits_spec (row : List Nat) (bits : List Nat) (n b : Nat) (hr : IsRow row n) (hb : b < 8 * n) :
    rowTestBit (List.zipWith (· ||| ·) row (bitvalsToPacked bits (8 * n))) b
      = (rowTestBit row b || bits.contains b) := by
  have hdiv : 8 * n / 8 = n := Nat.mul_div_cancel_left n (by decide)
  have hi : b / 8 < n := by omega
  have hp : b / 8 < (bitvalsToPacked bits (8 * n)).length := by
    rw [WideMask.length_bitvalsToPacked, hdiv]; exact hi
  have hpk : rowTestBit (bitvalsToPacked bits (8 * n)) b = bits.contains b :=
    WideMask.rowTestBit_bitvalsToPacked bits (8 * n) b (by rw [hdiv]; exact hb)
  rw [WideMask.rowTestBit_zipWith (· ||| ·) (· || ·) (fun x y j => Nat.testBit_or x y j)
    row _ b (by rw [hr.1]; exact hi) hp, hpk]

/-- clear_bits: `S' = S \ bits` -/
theorem clear_bits_spec (row : List Nat) (bits : List Nat) (n b : Nat) (hr : IsRow row n) (hb : b < 8 * n) :
    rowTestBit (List.zipWith (· &&& ·) row (complBytes (bitvalsToPacked bits (8 * n)))) b
      = (rowTestBit row b && !bits.contains b) := by
  have hdiv : 8 * n / 8 = n := Nat.mul_div_cancel_left n (by decide)
  have hi : b / 8 < n := by omega
  have hp : b / 8 < (bitvalsToPacked bits (8 * n)).length := by
    rw [WideMask.length_bitvalsToPacked, hdiv]; exact hi
  have hpk : rowTestBit (bitvalsToPacked bits (8 * n)) b = bits.contains b :=
    WideMask.rowTestBit_bitvalsToPacked bits (8 * n) b (by rw [hdiv]; exact hb)
  rw [WideMask.rowTestBit_zipWith (· &&& ·) (· && ·) (fun x y j => Nat.testBit_and x y j)
    row _ b (by rw [hr.1]; exact hi) (by rw [WideMask.length_complBytes]; exact hp),
    WideMask.rowTestBit_complBytes _ b hp (WideMask.lt_of_mem_bitvalsToPacked bits (8 * n)), hpk]

/-- xor with a bit list: symmetric difference -/
theorem xor_bits_spec (row : List Nat) (bits : List Nat) (n b : Nat) (hr : IsRow row n) (hb : b < 8 * n) :
    rowTestBit (List.zipWith (· ^^^ ·) row (bitvalsToPacked bits (8 * n))) b
      = (rowTestBit row b != bits.contains b) := by
  have hdiv : 8 * n / 8 = n := Nat.mul_div_cancel_left n (by decide)
  have hi : b / 8 < n := by omega
  have hp : b / 8 < (bitvalsToPacked bits (8 * n)).length := by
    rw [WideMask.length_bitvalsToPacked, hdiv]; exact hi
  have hpk : rowTestBit (bitvalsToPacked bits (8 * n)) b = bits.contains b :=
    WideMask.rowTestBit_bitvalsToPacked bits (8 * n) b (by rw [hdiv]; exact hb)
  rw [WideMask.rowTestBit_zipWith (· ^^^ ·) (· != ·) (fun x y j => Nat.testBit_xor x y j)
    row _ b (by rw [hr.1]; exact hi) hp, hpk]

/-- and with a bit list: intersection -/
theorem and_bits_spec (row : List Nat) (bits : List Nat) (n b : Nat) (hr : IsRow row n) (hb : b < 8 * n) :
    rowTestBit (List.zipWith (· &&& ·) row (bitvalsToPacked bits (8 * n))) b
      = (rowTestBit row b && bits.contains b) := by
  have hdiv : 8 * n / 8 = n := Nat.mul_div_cancel_left n (by decide)
  have hi : b / 8 < n := by omega
  have hp : b / 8 < (bitvalsToPacked bits (8 * n)).length := by
    rw [WideMask.length_bitvalsToPacked, hdiv]; exact hi
  have hpk : rowTestBit (bitvalsToPacked bits (8 * n)) b = bits.contains b :=
    WideMask.rowTestBit_bitvalsToPacked bits (8 * n) b (by rw [hdiv]; exact hb)
  rw [WideMask.rowTestBit_zipWith (· &&& ·) (· && ·) (fun x y j => Nat.testBit_and x y j)
    row _ b (by rw [hr.1]; exact hi) hp, hpk]

/-- the bytes stay bytes under set / clear / xor (so the row invariant is preserved) -/
theorem ops_preserve_isRow (row : List Nat) (bits : List Nat) (n : Nat) (hr : IsRow row n) :
    IsRow (List.zipWith (· ||| ·) row (bitvalsToPacked bits (8 * n))) n ∧
    IsRow (List.zipWith (· &&& ·) row (complBytes (bitvalsToPacked bits (8 * n)))) n ∧
    IsRow (List.zipWith (· ^^^ ·) row (bitvalsToPacked bits (8 * n))) n := by
  have hdiv : 8 * n / 8 = n := Nat.mul_div_cancel_left n (by decide)
  have hpl : (bitvalsToPacked bits (8 * n)).length = n := by
    rw [WideMask.length_bitvalsToPacked, hdiv]
  have hpb := WideMask.lt_of_mem_bitvalsToPacked bits (8 * n)
  refine ⟨⟨?_, ?_⟩, ⟨?_, ?_⟩, ⟨?_, ?_⟩⟩
  · simp [hr.1, hpl]
  · exact WideMask.lt_of_mem_zipWith _ _ _
      (fun x y hx hy => Nat.or_lt_two_pow (n := 8) hx hy) hr.2 hpb
  · simp [hr.1, hpl, WideMask.length_complBytes]
  · exact WideMask.lt_of_mem_zipWith _ _ _
      (fun x y _ hy => Nat.and_lt_two_pow (n := 8) x hy) hr.2 (WideMask.lt_of_mem_complBytes _)
  · simp [hr.1, hpl]
  · exact WideMask.lt_of_mem_zipWith _ _ _
      (fun x y hx hy => Nat.xor_lt_two_pow (n := 8) hx hy) hr.2 hpb

/-- check_bits: true iff the pixel's set meets the bit list -/
theorem check_bits_spec (row : List Nat) (bits : List Nat) (n : Nat) (hr : IsRow row n)
    (hbits : ∀ b ∈ bits, b < 8 * n) :
    (List.zipWith (· &&& ·) row (bitvalsToPacked bits (8 * n))).any (· != 0)
      = bits.any (fun b => rowTestBit row b) := by
  have hdiv : 8 * n / 8 = n := Nat.mul_div_cancel_left n (by decide)
  have hpl : (bitvalsToPacked bits (8 * n)).length = n := by
    rw [WideMask.length_bitvalsToPacked, hdiv]
  have hlen : (List.zipWith (· &&& ·) row (bitvalsToPacked bits (8 * n))).length = n := by
    simp [hr.1, hpl]
  have hlt := WideMask.lt_of_mem_zipWith (· &&& ·) row (bitvalsToPacked bits (8 * n))
      (fun x y _ hy => Nat.and_lt_two_pow (n := 8) x hy) hr.2
      (WideMask.lt_of_mem_bitvalsToPacked bits (8 * n))
  rw [WideMask.any_ne_zero_eq _ hlt, hlen, Bool.eq_iff_iff]
  simp only [List.any_eq_true, List.mem_range]
  constructor
  · rintro ⟨b, hb, h⟩
    rw [and_bits_spec row bits n b hr hb] at h
    simp only [Bool.and_eq_true] at h
    exact ⟨b, by simpa using h.2, h.1⟩
  · rintro ⟨b, hb, h⟩
    refine ⟨b, hbits b hb, ?_⟩
    rw [and_bits_spec row bits n b hr (hbits b hb)]
    simp [h, hb]

/-- a pixel is valid iff its set is non-empty -/
theorem valid_iff_nonempty (row : List Nat) (n : Nat) (hr : IsRow row n) :
    row.any (· != 0) = (List.range (8 * n)).any (fun b => rowTestBit row b) := by
  have h := WideMask.any_ne_zero_eq row hr.2
  rw [hr.1] at h
  exact h

/-- **bit positions at or above the width are rejected** by set_bits_pix / clear_bits_pix,
    whatever the pixels — and a rejected call returns no new map, so the map is unchanged. -/
theorem reject_big_bit (m : MapObj) (pix : List Nat) (bits : List Nat) (clear : Bool)
    (h : ∃ b ∈ bits, b ≥ m.maxbits) (r : MapObj) : apiSetBits m pix bits clear ≠ .ok r := by
  exact apiSetBits_rejects_big m pix bits clear h r

/-- the same for bit-list operators (`m |= [bits]` …) -/
theorem reject_big_bit_operator (m : MapObj) (op : String) (bits : List Nat)
    (h : ∃ b ∈ bits, b ≥ m.maxbits) (r : State Val) : apiScalarOp m op (.bits bits) ≠ .ok r := by
  exact apiScalarOp_rejects_big m op bits h r

/-- non-vacuity / byte-boundary witnesses -/
example : bitvalsToPacked [0, 7, 8, 16] 24 = [129, 1, 1] := by decide
example : IsRow [129, 1, 1] 3 := by unfold IsRow; decide

end C13
end HS
