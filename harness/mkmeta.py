#!/usr/bin/env python3
"""mkmeta.py <id> "<change>" "<needs>"  — writes seeded/<id>/meta.json from seeded/<id>/result.json"""
import json, os, sys
mid, where, needs = sys.argv[1:4]
d = os.path.join(os.path.dirname(os.path.dirname(os.path.abspath(__file__))), 'seeded', mid)
r = json.load(open(os.path.join(d, 'result.json')))
m = {'id': mid, 'breaks_property': r['breaks_property'], 'change': where, 'needs_to_manifest': needs,
     'produced_by': 'independent sub-agent given only the property text and a scratch worktree',
     'confirmed': {'patch_applies_to_HEAD': r['patch_applies'], 'demo_exit_without_change': r['demo_exit_without_change'],
                   'demo_exit_with_change': r['demo_exit_with_change'],
                   'test_suite_with_change': r.get('test_suite_with_change', '')},
     'what_i_ran': 'harness/evalmut.py: fresh worktree of /repo HEAD, demo before/after `git apply patch.diff`, full pytest '
                   'with the change, then `HS_REPO=<worktree> ./check <Cxx>` (quick tier, seeds 0,1,2) per listed property',
     'checks': r['checks'], 'caught_by': r['caught_by'], 'caught_every_seed_by': r['caught_every_seed_by']}
json.dump(m, open(os.path.join(d, 'meta.json'), 'w'), indent=1)
print('wrote', d)
