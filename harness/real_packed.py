"""Protocol operations on stand-alone _PackedBoolArray objects (array level of C05).
Operation `p.xyz` is method `op_p_xyz(self, pos, kv)`; returns the observation string.

Every operation is applied to the real `_PackedBoolArray` AND to a twin plain `np.ndarray(dtype=bool)`
(slices of packed arrays are twinned by numpy slices of the twin, so both sides have view semantics).
Where the two disagree the observation is prefixed with `NUMPY-DIFF ` (three-way comparison
packed / numpy / Lean model: the model sees the unprefixed protocol line and answers what the code
answers, so a NUMPY-DIFF observation always shows up as a difference).

The twin is numpy restricted to the domain the class documents by explicit range checks
(slice start in [0, size], slice stop <= size (negative stops count from the end), step 1, integer
indices in [0, size), values of the right length, no broadcasting, packed operands with the same bit
alignment, `sum(shape=…)` only on aligned arrays with the documented shape rules and axis None / last):
outside this domain the twin raises as well.  Anything the class rejects *inside* the domain, or
answers differently, is flagged.
"""
import numpy as np

from healsparse.packedBoolArray import _PackedBoolArray as PBA


class Unsupported(ValueError):
    """Raised by the twin for inputs outside the documented domain of _PackedBoolArray."""


def _bits(s):
    if s in ('_', ''):
        return np.zeros(0, dtype=np.bool_)
    return np.array([c == '1' for c in s], dtype=np.bool_)


def _enc(arr):
    return ''.join('1' if v else '0' for v in np.asarray(arr).tolist())


def _optint(kv, k):
    v = kv.get(k)
    return None if v is None or v == 'none' else int(v)


def _ints(s):
    return [] if s in ('_', '', None) else [int(t) for t in s.split(',')]


def _bytes(s):
    body = s[1:]
    return np.array([int(t) for t in body.split('.')] if body else [], dtype=np.uint8)


def _encbytes(a):
    return 'b' + '.'.join(str(int(v)) for v in np.asarray(a).tolist())


class PackedOps(object):
    def packed_reset(self):
        self.parrs = {}      # name -> _PackedBoolArray
        self.ptwin = {}      # name -> np.ndarray(bool) (a numpy view where the packed one is a view)

    # ---- plumbing ------------------------------------------------------
    def _p(self, name):
        if not hasattr(self, 'parrs'):
            self.packed_reset()
        if name not in self.parrs:
            # the object was not created on this side (its creation raised): an ordinary error observation,
            # so that the history is judged at the step that failed and not aborted
            raise LookupError('no such packed array ' + name)
        return self.parrs[name], self.ptwin[name]

    def _state_diff(self):
        """First object whose packed content differs from its twin (after a mutation)."""
        for n in sorted(self.parrs):
            try:
                a = np.asarray(self.parrs[n])
            except Exception as e:   # pragma: no cover
                return "%s:asarray-raised-%s" % (n, type(e).__name__)
            t = self.ptwin[n]
            if a.shape != t.shape or np.any(a != t):
                return "%s:packed=%s,numpy=%s" % (n, _enc(a), _enc(t))
        return None

    def _both(self, fpacked, ftwin, mutating=False, show=str):
        """Run the packed operation and the twin operation; build the observation."""
        pe = te = None
        pr = tr = None
        try:
            pr = fpacked()
        except Exception as e:
            pe = e
        try:
            tr = ftwin()
        except Exception as e:
            te = e
        if pe is not None:
            if te is not None:
                sd = self._state_diff() if mutating else None
                if sd is not None:
                    return 'NUMPY-DIFF err %s state-after-error %s' % (type(pe).__name__, sd)
                raise pe                                  # both reject: plain `err <Class>`
            return 'NUMPY-DIFF err %s numpy=accepts' % type(pe).__name__
        obs = show(pr) if not mutating else 'ok'
        if te is not None:
            return 'NUMPY-DIFF %s numpy-raised=%s' % (obs, type(te).__name__)
        if not mutating:
            tobs = show(tr)
            if tobs != obs:
                return 'NUMPY-DIFF %s numpy=%s' % (obs, tobs)
        sd = self._state_diff() if mutating else None
        if sd is not None:
            return 'NUMPY-DIFF %s %s' % (obs, sd)
        return obs

    def _operand(self, kv):
        """-> (kind, packed-side value, twin-side value)"""
        if 'v' in kv:
            b = kv['v'] == 'T'
            return 'bool', b, b
        if 'vals' in kv:
            v = _bits(kv['vals'])
            return 'arr', v, v.copy()
        q, tq = self._p(kv['rhs'])
        return 'pba', q, tq

    # ---- construction --------------------------------------------------
    def op_p_new(self, pos, kv):
        if not hasattr(self, 'parrs'):
            self.packed_reset()
        n, start, stop = _optint(kv, 'n'), _optint(kv, 'start'), _optint(kv, 'stop')
        data = _bytes(kv['data']) if 'data' in kv else None

        def fp():
            return PBA(size=n, data_buffer=data, start_index=start, stop_index=stop)

        def ft():
            if n is not None and data is not None:
                raise Unsupported('both')
            s = 0 if start is None else start
            if s < 0 or s > 7:
                raise Unsupported('start')
            if data is not None:
                e = len(data) * 8 if stop is None else stop
                if e < len(data) * 8 - 7 or e > len(data) * 8 or e < s:
                    raise Unsupported('stop')
                return np.unpackbits(data, bitorder='little').astype(np.bool_)[s:e].copy()
            if stop is not None:
                raise Unsupported('stop without buffer')
            return np.zeros(0 if n is None else n, dtype=np.bool_)      # negative n: ValueError

        return self._make(pos[0], fp, ft)

    def _make(self, name, fp, ft):
        made = {}

        def fp2():
            made['p'] = fp()
            return made['p']

        def ft2():
            made['t'] = ft()
            return made['t']

        def show(p):
            return 'ok'
        obs = self._both(fp2, ft2, show=show)
        if 'p' in made:
            self.parrs[name] = made['p']
            if 't' in made:
                self.ptwin[name] = made['t']
            else:
                self.ptwin[name] = np.asarray(made['p']).copy()
            if obs == 'ok':
                a = np.asarray(made['p'])
                t = self.ptwin[name]
                if a.shape != t.shape or np.any(a != t):
                    return 'NUMPY-DIFF ok packed=%s numpy=%s' % (_enc(a), _enc(t))
        return obs

    def op_p_frombool(self, pos, kv):
        if not hasattr(self, 'parrs'):
            self.packed_reset()
        bits = _bits(kv.get('bits', '_'))
        start = _optint(kv, 'start')

        def ft():
            if start is not None and (start < 0 or start > 7):
                raise Unsupported('start')
            return bits.copy()
        return self._make(pos[0], lambda: PBA.from_boolean_array(bits, start_index=start), ft)

    def op_p_slice(self, pos, kv):
        p, t = self._p(pos[1])
        lo, hi, step = _optint(kv, 'lo'), _optint(kv, 'hi'), _optint(kv, 'step')

        def ft():
            n = t.size
            if lo is not None and (lo < 0 or lo > n):
                raise Unsupported('start')
            if hi is not None:
                e = hi + n if hi < 0 else hi
                if e > n:
                    raise Unsupported('stop')
            if step is not None and step != 1:
                raise Unsupported('step')
            return t[lo:hi]
        return self._make(pos[0], lambda: p[lo:hi:step], ft)

    def op_p_copy(self, pos, kv):
        p, t = self._p(pos[1])
        return self._make(pos[0], lambda: p.copy(), lambda: t.copy())

    def op_p_not(self, pos, kv):
        p, t = self._p(pos[1])
        return self._make(pos[0], lambda: ~p, lambda: ~t)

    def op_p_bop(self, pos, kv):
        p, t = self._p(pos[1])
        kind, v, tv = self._operand(kv)
        op = kv['op']

        def fp():
            return {'and': p.__and__, 'or': p.__or__, 'xor': p.__xor__}[op](v)

        def ft():
            if kind == 'pba' and (len(tv) != len(t) or v._start_index != p._start_index):
                raise Unsupported('size / alignment')
            return {'and': np.logical_and, 'or': np.logical_or, 'xor': np.logical_xor}[op](t, tv)
        return self._make(pos[0], fp, ft)

    # ---- observers -----------------------------------------------------
    def op_p_len(self, pos, kv):
        p, t = self._p(pos[0])
        return self._both(lambda: len(p), lambda: len(t))

    def op_p_arr(self, pos, kv):
        p, t = self._p(pos[0])
        return self._both(lambda: np.asarray(p), lambda: t, show=_enc)

    def op_p_repr(self, pos, kv):
        p, _ = self._p(pos[0])
        return str(p)

    def op_p_data(self, pos, kv):
        p, t = self._p(pos[0])

        def ft():
            if p._start_index != 0:
                raise Unsupported('unaligned')
            return np.packbits(t, bitorder='little')
        # padding bits beyond `size` are not part of the numpy view of the array: compare masked
        def fp():
            return p.data_array
        obs = self._both(fp, ft, show=_encbytes)
        if obs.startswith('NUMPY-DIFF b'):
            d = p.data_array
            if len(d) and np.all(np.unpackbits(d, bitorder='little')[:t.size].astype(bool) == t):
                return _encbytes(d)       # differs only in the padding of the last byte
        return obs

    def op_p_get(self, pos, kv):
        p, t = self._p(pos[0])
        i = int(kv['i'])

        def ft():
            if i < 0 or i >= t.size:
                raise IndexError(i)
            return t[i]
        return self._both(lambda: p[i], ft, show=lambda b: 'T' if b else 'F')

    def _index(self, kv):
        idx = _ints(kv.get('idx'))
        if kv.get('list') == '1':
            return idx, list(idx), (np.array(idx, dtype=np.int64))
        return idx, np.array(idx, dtype=np.int64), np.array(idx, dtype=np.int64)

    def op_p_getidx(self, pos, kv):
        p, t = self._p(pos[0])
        idx, key, tkey = self._index(kv)

        def ft():
            if any(i < 0 or i >= t.size for i in idx):
                raise IndexError('range')
            return t[tkey]

        def show(a):
            a = np.asarray(a)
            if a.ndim != 1:
                return 'ndim=%d:%s' % (a.ndim, _enc(np.atleast_1d(a)))
            return _enc(a)
        return self._both(lambda: p[key], ft, show=show)

    def op_p_sum(self, pos, kv):
        p, t = self._p(pos[0])
        return self._both(lambda: p.sum(), lambda: t.sum(dtype=np.int64), show=lambda v: str(int(v)))

    def op_p_sumshape(self, pos, kv):
        p, t = self._p(pos[0])
        shape = tuple(_ints(kv.get('shape')))
        axis = _optint(kv, 'axis')

        def ft():
            if p._start_index != 0 or p._stop_index % 8 != 0:
                raise Unsupported('unaligned')
            if axis is not None and axis >= len(shape):
                raise Unsupported('axis')
            if len(shape) == 0 or int(np.prod(shape)) != t.size or shape[-1] % 8 != 0:
                raise Unsupported('shape')
            if axis is not None and axis != len(shape) - 1:
                raise Unsupported('only the last axis')
            return np.sum(t.reshape(shape), axis=axis, dtype=np.int64)

        def show(r):
            r = np.asarray(r)
            if axis is None:
                return str(int(r))
            return 'x'.join(str(d) for d in r.shape) + ':' + (','.join(str(int(v)) for v in r.ravel()) or '_')
        return self._both(lambda: p.sum(shape=shape, axis=axis), ft, show=show)

    def op_p_fml(self, pos, kv):
        p, _ = self._p(pos[0])
        first, mid, last = p._extract_first_middle_last(mask_extra=kv.get('mask') == '1')

        def part(x):
            if x[0] is None:
                return 'None'
            return '%s/%d/%d' % (_enc(x[0]), 0 if x[1] is None else x[1], 8 if x[2] is None else x[2])
        return 'F=%s M=%s L=%s' % (part(first), 'None' if mid is None else _encbytes(mid), part(last))

    def op_p_lut(self, pos, kv):
        lut = PBA(size=8)._bit_count(np.arange(256, dtype=np.uint8))
        want = [bin(i).count('1') for i in range(256)]
        obs = ','.join(str(int(v)) for v in lut)
        if [int(v) for v in lut] != want:
            return 'NUMPY-DIFF ' + obs
        return obs

    def op_p_dump(self, pos, kv):
        if not hasattr(self, 'parrs'):
            self.packed_reset()
        names = sorted(self.parrs)
        obs = ','.join('%s=%s' % (n, _enc(np.asarray(self.parrs[n]))) for n in names) or '_'
        sd = self._state_diff()
        if sd is not None:
            return 'NUMPY-DIFF %s %s' % (obs, sd)
        return obs

    def op_p_drop(self, pos, kv):
        if hasattr(self, 'parrs'):
            self.parrs.pop(pos[0], None)
            self.ptwin.pop(pos[0], None)
        return 'ok'

    # ---- mutation ------------------------------------------------------
    def op_p_set(self, pos, kv):
        p, t = self._p(pos[0])
        i, v = int(kv['i']), kv['v'] == 'T'

        def ft():
            if i < 0 or i >= t.size:
                raise IndexError(i)
            t[i] = v
        return self._both(lambda: p.__setitem__(i, v), ft, mutating=True)

    def op_p_setslice(self, pos, kv):
        p, t = self._p(pos[0])
        lo, hi = _optint(kv, 'lo'), _optint(kv, 'hi')
        kind, v, tv = self._operand(kv)

        def ft():
            n = t.size
            if lo is not None and (lo < 0 or lo > n):
                raise Unsupported('start')
            if hi is not None:
                e = hi + n if hi < 0 else hi
                if e > n:
                    raise Unsupported('stop')
            if kind != 'bool' and len(tv) != len(t[lo:hi]):
                raise Unsupported('length')           # no broadcasting
            if kind == 'pba' and (p._start_index + (lo or 0)) % 8 != v._start_index:
                raise Unsupported('alignment')
            t[lo:hi] = tv
        return self._both(lambda: p.__setitem__(slice(lo, hi), v), ft, mutating=True)

    def op_p_setidx(self, pos, kv):
        p, t = self._p(pos[0])
        idx, key, tkey = self._index(kv)
        kind, v, tv = self._operand(kv)

        def ft():
            if any(i < 0 or i >= t.size for i in idx):
                raise IndexError('range')
            if kind != 'bool' and len(tv) != len(idx):
                raise Unsupported('length')
            t[tkey] = tv
        return self._both(lambda: p.__setitem__(key, v), ft, mutating=True)

    def op_p_iop(self, pos, kv):
        p, t = self._p(pos[0])
        kind, v, tv = self._operand(kv)
        op = kv['op']

        def fp():
            {'and': p.__iand__, 'or': p.__ior__, 'xor': p.__ixor__}[op](v)

        def ft():
            if kind == 'pba' and (len(tv) != len(t) or v._start_index != p._start_index):
                raise Unsupported('size / alignment')
            if op == 'and':
                t[...] &= tv
            elif op == 'or':
                t[...] |= tv
            else:
                t[...] ^= tv
        return self._both(fp, ft, mutating=True)

    def op_p_invert(self, pos, kv):
        p, t = self._p(pos[0])

        def ft():
            t[...] = ~t
        return self._both(lambda: p.invert(), ft, mutating=True)

    def op_p_resize(self, pos, kv):
        p, t = self._p(pos[0])
        n = int(kv['n'])
        name = pos[0]

        def ft():
            if n < t.size:
                raise Unsupported('shrink')
            if n == t.size:
                return
            if not t.flags.owndata:
                raise ValueError('cannot resize this array: it does not own its data')
            # (np.ndarray.resize(refcheck=False) semantics: keep the data, zero-fill)
            new = np.zeros(n, dtype=np.bool_)
            new[:t.size] = t
            self.ptwin[name] = new
        return self._both(lambda: p.resize(n), ft, mutating=True)
