/-
  Helper lemmas for the pixel-range update path (`Model/Ranges.lean`), used by Props/C08.
-/
import HealSparse.Lemmas.Core
import HealSparse.Lemmas.Coverage
import HealSparse.Model.Ranges
namespace HS

variable {V : Type}

/-! ### `expand` and dense folds over ranges -/

theorem expand_mem' (R : List (Nat × Nat)) (p : Nat) :
    p ∈ expand R ↔ ∃ ab ∈ R, ab.1 ≤ p ∧ p < ab.2 := by
  simp only [expand, List.mem_flatMap, List.mem_map, List.mem_range]
  constructor
  · rintro ⟨ab, hab, j, hj, rfl⟩
    exact ⟨ab, hab, by omega, by omega⟩
  · rintro ⟨ab, hab, h1, h2⟩
    exact ⟨ab, hab, p - ab.1, by omega, by omega⟩

theorem expand_cons (ab : Nat × Nat) (R : List (Nat × Nat)) :
    expand (ab :: R) = (List.range (ab.2 - ab.1)).map (ab.1 + ·) ++ expand R := by
  simp [expand]

theorem denseFold_append {W} (g : V → W → V) (L M : List (Nat × W)) (p : Nat) (x : V) :
    denseFold g (L ++ M) p x = denseFold g M p (denseFold g L p x) := by
  simp [denseFold, List.foldl_append]

/-- folding over the pixels of one half-open range `[a, a+m)` applies `h` once iff `p` is inside -/
theorem denseFold_range (h : V → V) (a m p : Nat) (x : V) :
    denseFold (fun x (_ : Unit) => h x) (((List.range m).map (a + ·)).map fun q => (q, ())) p x
      = if a ≤ p ∧ p < a + m then h x else x := by
  induction m with
  | zero =>
    have : ¬ (a ≤ p ∧ p < a + 0) := by omega
    rw [if_neg this]
    simp [denseFold]
  | succ m ih =>
    rw [List.range_succ, List.map_append, List.map_append, denseFold_append, ih]
    simp only [List.map_cons, List.map_nil, denseFold, List.foldl_cons, List.foldl_nil]
    by_cases h1 : a + m = p
    · have h2 : ¬ (a ≤ p ∧ p < a + m) := by omega
      have h3 : a ≤ p ∧ p < a + (m + 1) := by omega
      rw [if_neg h2, if_pos h3, if_pos h1]
    · by_cases h2 : a ≤ p ∧ p < a + m
      · have h3 : a ≤ p ∧ p < a + (m + 1) := by omega
        rw [if_pos h2, if_pos h3, if_neg h1]
      · have h3 : ¬ (a ≤ p ∧ p < a + (m + 1)) := by omega
        rw [if_neg h2, if_neg h3, if_neg h1]

/-- the row-by-row form of the dense fold over `expand R` -/
theorem denseFold_expand (h : V → V) (R : List (Nat × Nat)) (hR : ∀ ab ∈ R, ab.1 ≤ ab.2)
    (p : Nat) (x : V) :
    denseFold (fun x (_ : Unit) => h x) ((expand R).map fun q => (q, ())) p x
      = R.foldl (fun x ab => if ab.1 ≤ p ∧ p < ab.2 then h x else x) x := by
  induction R generalizing x with
  | nil => simp [expand, denseFold]
  | cons ab R ih =>
    rw [expand_cons, List.map_append, denseFold_append, denseFold_range, List.foldl_cons,
      ih (fun ab' h' => hR ab' (List.mem_cons_of_mem _ h'))]
    have := hR ab List.mem_cons_self
    have e : ab.1 + (ab.2 - ab.1) = ab.2 := by omega
    rw [e]

/-- dense folds over two mapped lists agree if they agree entry by entry -/
theorem denseFold_map_congr {α W W'} (g : V → W → V) (g' : V → W' → V) (l : List α)
    (φ : α → Nat × W) (ψ : α → Nat × W')
    (h1 : ∀ q ∈ l, (φ q).1 = (ψ q).1) (h2 : ∀ q ∈ l, ∀ x, g x (φ q).2 = g' x (ψ q).2)
    (p : Nat) (x : V) :
    denseFold g (l.map φ) p x = denseFold g' (l.map ψ) p x := by
  induction l generalizing x with
  | nil => rfl
  | cons q l ih =>
    simp only [List.map_cons, denseFold, List.foldl_cons]
    rw [h1 q List.mem_cons_self, h2 q List.mem_cons_self]
    exact ih (fun q' h' => h1 q' (List.mem_cons_of_mem _ h'))
      (fun q' h' => h2 q' (List.mem_cons_of_mem _ h')) _

/-- a duplicate-free pixel list touches `p` at most once -/
theorem denseFold_nodup {W} (g : V → W → V) (l : List Nat) (φ : Nat → W) (hnd : l.Nodup)
    (p : Nat) (x : V) :
    denseFold g (l.map fun q => (q, φ q)) p x = if p ∈ l then g x (φ p) else x := by
  induction l generalizing x with
  | nil => simp [denseFold]
  | cons q l ih =>
    have hq : q ∉ l := (List.nodup_cons.1 hnd).1
    simp only [List.map_cons, denseFold, List.foldl_cons]
    have ih' := ih (List.nodup_cons.1 hnd).2
    simp only [denseFold] at ih'
    rw [ih']
    by_cases h1 : q = p
    · subst h1
      simp [hq]
    · have : p ∈ q :: l ↔ p ∈ l := by
        simp [List.mem_cons, Ne.symm h1]
      simp [h1, this]

/-! ### `sliceApply` -/

theorem foldl_modify_range_size (h : V → V) (s0 n : Nat) (a : Array V) :
    ((List.range n).foldl (fun a j => a.modify (s0 + j) h) a).size = a.size := by
  induction n with
  | zero => rfl
  | succ n ih => rw [List.range_succ, List.foldl_append]; simp [ih]

theorem foldl_modify_range_get (h : V → V) (s0 n : Nat) (a : Array V) (i : Nat) :
    ((List.range n).foldl (fun a j => a.modify (s0 + j) h) a)[i]?
      = if s0 ≤ i ∧ i < s0 + n then a[i]?.map h else a[i]? := by
  induction n with
  | zero => rw [if_neg (by omega)]; rfl
  | succ n ih =>
    rw [List.range_succ, List.foldl_append]
    simp only [List.foldl_cons, List.foldl_nil, Array.getElem?_modify, ih]
    by_cases h1 : s0 + n = i
    · rw [if_pos h1, if_neg (by omega), if_pos (by omega)]
    · rw [if_neg h1]
      by_cases h2 : s0 ≤ i ∧ i < s0 + n
      · rw [if_pos h2, if_pos (by omega)]
      · rw [if_neg h2, if_neg (by omega)]

theorem sliceApply_size (h : V → V) (a : Array V) (start stop : Int) :
    (sliceApply h a start stop).size = a.size := foldl_modify_range_size ..

theorem sliceApply_get (h : V → V) (a : Array V) (start stop : Int) (hs : 0 ≤ start) (i : Nat) :
    (sliceApply h a start stop)[i]?
      = if start ≤ (i : Int) ∧ (i : Int) < stop then a[i]?.map h else a[i]? := by
  unfold sliceApply
  rw [foldl_modify_range_get]
  by_cases h1 : start ≤ (i : Int) ∧ (i : Int) < stop
  · rw [if_pos h1, if_pos (by omega)]
  · rw [if_neg h1, if_neg (by omega)]

theorem sliceApply_empty (h : V → V) (a : Array V) (start stop : Int) (hs : stop ≤ start) :
    sliceApply h a start stop = a := by
  unfold sliceApply
  have : (stop - start).toNat = 0 := by omega
  rw [this]; rfl

/-! ### The effect of slices, seen through the lookup of a fixed state -/

/-- `a'` is `a` with `h` applied once at the cell of every pixel satisfying `P`, nothing else
    being touched (as far as pixels and the overflow block can tell). -/
def SliceRel (c : Cfg) (s : State V) (h : V → V) (P : Nat → Prop) (a a' : Array V) : Prop :=
  a'.size = a.size ∧ (∀ i, i < c.nfine → a'[i]? = a[i]?) ∧
  ∀ p, p < c.npix →
    (P p → a'[idxOf c s p]? = a[idxOf c s p]?.map h) ∧ (¬ P p → a'[idxOf c s p]? = a[idxOf c s p]?)

theorem SliceRel.of_empty (c : Cfg) (s : State V) (h : V → V) (P : Nat → Prop) (a : Array V)
    (hP : ∀ p, p < c.npix → ¬ P p) : SliceRel c s h P a a :=
  ⟨rfl, fun _ _ => rfl, fun p hp => ⟨fun h' => absurd h' (hP p hp), fun _ => rfl⟩⟩

theorem SliceRel.congr {c : Cfg} {s : State V} {h : V → V} {P Q : Nat → Prop} {a a' : Array V}
    (hr : SliceRel c s h P a a') (hPQ : ∀ p, p < c.npix → (P p ↔ Q p)) : SliceRel c s h Q a a' :=
  ⟨hr.1, hr.2.1, fun p hp =>
    ⟨fun hq => (hr.2.2 p hp).1 ((hPQ p hp).2 hq), fun hq => (hr.2.2 p hp).2 (fun h' => hq ((hPQ p hp).1 h'))⟩⟩

theorem SliceRel.trans {c : Cfg} {s : State V} {h : V → V} {P Q : Nat → Prop} {a a' a'' : Array V}
    (h1 : SliceRel c s h P a a') (h2 : SliceRel c s h Q a' a'')
    (hd : ∀ p, p < c.npix → P p → Q p → False) :
    SliceRel c s h (fun p => P p ∨ Q p) a a'' := by
  refine ⟨h2.1.trans h1.1, fun i hi => (h2.2.1 i hi).trans (h1.2.1 i hi), fun p hp => ⟨?_, ?_⟩⟩
  · rintro (hP | hQ)
    · rw [(h2.2.2 p hp).2 (fun hQ => hd p hp hP hQ), (h1.2.2 p hp).1 hP]
    · rw [(h2.2.2 p hp).1 hQ, (h1.2.2 p hp).2 (fun hP => hd p hp hP hQ)]
  · intro hn
    rw [(h2.2.2 p hp).2 (fun hQ => hn (Or.inr hQ)), (h1.2.2 p hp).2 (fun hP => hn (Or.inl hP))]

/-! ### One slice inside one covered block -/

theorem shift_eq_of_block (c : Cfg) {k q : Nat} (h1 : k * c.nfine ≤ q) (h2 : q < (k + 1) * c.nfine) :
    q >>> c.shift = k := by
  rw [shift_eq_div]
  exact Nat.div_eq_of_lt_le h1 h2

theorem block_le_npix (c : Cfg) {k : Nat} (hk : k < c.ncov) : (k + 1) * c.nfine ≤ c.npix :=
  Nat.mul_le_mul_right _ hk

theorem lookup_of_shift (c : Cfg) (s : State V) {p k : Nat} (h : p >>> c.shift = k) :
    lookup c s p = (p : Int) + rd s.cov k 0 := by
  unfold lookup; rw [h]

section piece
variable [DecidableEq V] {c : Cfg} {vc : VCfg V} {s : State V}

theorem sliceRel_piece (hs : Inv c vc s) (h : V → V)
    (k lo hi : Nat) (hk : k < c.ncov) (hc : covered c s k = true)
    (hlo : k * c.nfine ≤ lo) (hhi : hi ≤ (k + 1) * c.nfine) (start stop : Int)
    (hstart : start = (lo : Int) + rd s.cov k 0) (hstop : stop = (hi : Int) + rd s.cov k 0)
    (a : Array V) :
    SliceRel c s h (fun p => lo ≤ p ∧ p < hi) a (sliceApply h a start stop) := by
  have hbs : ((c.nfine : Nat) : Int) ≤ rd s.cov k 0 + ((k * c.nfine : Nat) : Int) :=
    (covered_eq_true_iff c s k).1 hc
  have hblock : ∀ q, lo ≤ q → q < hi → q >>> c.shift = k ∧ q < c.npix := fun q h1 h2 =>
    ⟨shift_eq_of_block c (Nat.le_trans hlo h1) (Nat.lt_of_lt_of_le h2 hhi),
     Nat.lt_of_lt_of_le (Nat.lt_of_lt_of_le h2 hhi) (block_le_npix c hk)⟩
  have hlo' : ((k * c.nfine : Nat) : Int) ≤ (lo : Int) := by exact_mod_cast hlo
  generalize ((k * c.nfine : Nat) : Int) = kn at hbs hlo'
  have hn : (0 : Int) < ((c.nfine : Nat) : Int) := by exact_mod_cast c.nfine_pos
  have hst : ((c.nfine : Nat) : Int) ≤ start := by omega
  have h0 : 0 ≤ start := by omega
  refine ⟨sliceApply_size .., fun i hii => ?_, fun p hp => ⟨?_, ?_⟩⟩
  · rw [sliceApply_get h a start stop h0, if_neg]
    have : (i : Int) < ((c.nfine : Nat) : Int) := by exact_mod_cast hii
    omega
  · rintro ⟨h1, h2⟩
    have hk' := (hblock p h1 h2).1
    have hix := hs.idxOf_covered hp (by rw [hk']; exact hc)
    have hl := lookup_of_shift c s hk'
    rw [sliceApply_get h a start stop h0, if_pos]
    omega
  · intro hnP
    rw [sliceApply_get h a start stop h0, if_neg]
    rintro ⟨h1, h2⟩
    cases hcp : covered c s (p >>> c.shift) with
    | false =>
      have := (hs.idxOf_uncovered hp hcp).2
      have : ((idxOf c s p : Nat) : Int) < ((c.nfine : Nat) : Int) := by exact_mod_cast this
      omega
    | true =>
      have hix := hs.idxOf_covered hp hcp
      obtain ⟨q, hq⟩ : ∃ q : Nat, (q : Int) = (idxOf c s p : Int) - rd s.cov k 0 :=
        ⟨((idxOf c s p : Int) - rd s.cov k 0).toNat, by omega⟩
      have hq1 : lo ≤ q := by omega
      have hq2 : q < hi := by omega
      have hb := hblock q hq1 hq2
      have hl := lookup_of_shift c s hb.1
      have : q = p := hs.lookup_inj hb.2 hp (by rw [hb.1]; exact hc) (by omega)
      subst this
      exact hnP ⟨hq1, hq2⟩

/-- one slice, guarded by the `no_append` mask test -/
theorem sliceRel_block (hs : Inv c vc s) (h : V → V) (na : Bool) (mask : Nat → Bool)
    (k lo hi : Nat) (hk : k < c.ncov) (H : (na && !mask k) = false → covered c s k = true)
    (hlo : k * c.nfine ≤ lo) (hhi : hi ≤ (k + 1) * c.nfine) (start stop : Int)
    (hstart : start = (lo : Int) + rd s.cov k 0) (hstop : stop = (hi : Int) + rd s.cov k 0)
    (a : Array V) :
    SliceRel c s h (fun p => (na && !mask (p >>> c.shift)) = false ∧ lo ≤ p ∧ p < hi) a
      (if (na && !mask k) = true then a else sliceApply h a start stop) := by
  have hsh : ∀ p, lo ≤ p → p < hi → p >>> c.shift = k := fun p h1 h2 =>
    shift_eq_of_block c (Nat.le_trans hlo h1) (Nat.lt_of_lt_of_le h2 hhi)
  split
  · rename_i hna
    apply SliceRel.of_empty
    rintro p hp ⟨h1, h2, h3⟩
    rw [hsh p h2 h3, hna] at h1
    cases h1
  · rename_i hna
    have hna' : (na && !mask k) = false := by simpa using hna
    refine (sliceRel_piece hs h k lo hi hk (H hna') hlo hhi start stop hstart hstop a).congr ?_
    intro p hp
    constructor
    · rintro ⟨h1, h2⟩
      exact ⟨by rw [hsh p h1 h2]; exact hna', h1, h2⟩
    · rintro ⟨_, h1, h2⟩
      exact ⟨h1, h2⟩

theorem nf_mul_cast (c : Cfg) (k : Nat) :
    ((c.nfine : Nat) : Int) * ((k : Nat) : Int) = ((k * c.nfine : Nat) : Int) := by
  rw [Int.natCast_mul, Int.mul_comm]

theorem succ_mul_cast (c : Cfg) (k : Nat) :
    (((k + 1) * c.nfine : Nat) : Int) = ((k * c.nfine : Nat) : Int) + ((c.nfine : Nat) : Int) := by
  rw [Nat.succ_mul]; exact Int.natCast_add _ _

/-- the whole blocks strictly between the first and the last coverage pixel of a row -/
theorem sliceRel_middle (hs : Inv c vc s) (h : V → V) (na : Bool) (mask : Nat → Bool)
    (ka m : Nat) (hm : ka + 1 + m ≤ c.ncov)
    (H : ∀ k, ka < k → k < ka + 1 + m → (na && !mask k) = false → covered c s k = true)
    (a0 : Array V) :
    SliceRel c s h
      (fun p => (na && !mask (p >>> c.shift)) = false ∧
        (ka + 1) * c.nfine ≤ p ∧ p < (ka + 1 + m) * c.nfine) a0
      ((List.range m).foldl (fun sp i =>
        if (na && !mask (ka + 1 + i)) = true then sp
        else sliceApply h sp
          (rd s.cov (ka + 1 + i) 0 + ((c.nfine : Nat) : Int) * ((ka + 1 + i : Nat) : Int))
          (rd s.cov (ka + 1 + i) 0 + ((c.nfine : Nat) : Int) * ((ka + 1 + i : Nat) : Int)
            + ((c.nfine : Nat) : Int))) a0) := by
  induction m with
  | zero =>
    apply SliceRel.of_empty
    rintro p hp ⟨_, h2, h3⟩
    rw [Nat.add_zero] at h3
    omega
  | succ m ih =>
    rw [List.range_succ, List.foldl_append, List.foldl_cons, List.foldl_nil]
    have ih' := ih (by omega) (fun k h1 h2 => H k h1 (by omega))
    have hb := sliceRel_block hs h na mask (ka + 1 + m) ((ka + 1 + m) * c.nfine)
      ((ka + 1 + m + 1) * c.nfine) (by omega) (H _ (by omega) (by omega))
      (Nat.le_refl _) (Nat.le_refl _)
      (rd s.cov (ka + 1 + m) 0 + ((c.nfine : Nat) : Int) * ((ka + 1 + m : Nat) : Int))
      (rd s.cov (ka + 1 + m) 0 + ((c.nfine : Nat) : Int) * ((ka + 1 + m : Nat) : Int)
            + ((c.nfine : Nat) : Int))
      (by rw [nf_mul_cast]; omega) (by rw [nf_mul_cast, succ_mul_cast]; omega)
      ((List.range m).foldl (fun sp i =>
        if (na && !mask (ka + 1 + i)) = true then sp
        else sliceApply h sp
          (rd s.cov (ka + 1 + i) 0 + ((c.nfine : Nat) : Int) * ((ka + 1 + i : Nat) : Int))
          (rd s.cov (ka + 1 + i) 0 + ((c.nfine : Nat) : Int) * ((ka + 1 + i : Nat) : Int)
            + ((c.nfine : Nat) : Int))) a0)
    have e1 : (ka + 1) * c.nfine ≤ (ka + 1 + m) * c.nfine := Nat.mul_le_mul_right _ (by omega)
    have e2 : (ka + 1 + (m + 1)) * c.nfine = (ka + 1 + m) * c.nfine + c.nfine := Nat.succ_mul _ _
    have e3 : (ka + 1 + m + 1) * c.nfine = (ka + 1 + m) * c.nfine + c.nfine := Nat.succ_mul _ _
    refine (ih'.trans hb ?_).congr ?_
    · rintro p hp ⟨_, _, h3⟩ ⟨_, h4, _⟩
      omega
    · intro p hp
      rw [e2, e3]
      constructor
      · rintro (⟨h1, h2, h3⟩ | ⟨h1, h2, h3⟩)
        · exact ⟨h1, h2, by omega⟩
        · exact ⟨h1, by omega, h3⟩
      · rintro ⟨h1, h2, h3⟩
        by_cases hh : p < (ka + 1 + m) * c.nfine
        · exact Or.inl ⟨h1, h2, hh⟩
        · exact Or.inr ⟨h1, by omega, h3⟩

end piece

/-! ### `covRange` arithmetic -/

theorem covRange_lo (c : Cfg) (ab : Nat × Nat) :
    (covRange c ab).1 * c.nfine ≤ ab.1 ∧ ab.1 < ((covRange c ab).1 + 1) * c.nfine := by
  show (ab.1 >>> c.shift) * c.nfine ≤ ab.1 ∧ ab.1 < (ab.1 >>> c.shift + 1) * c.nfine
  rw [shift_eq_div, Nat.succ_mul]
  have h1 := Nat.div_add_mod ab.1 c.nfine
  have h2 := Nat.mod_lt ab.1 c.nfine_pos
  rw [Nat.mul_comm] at h1
  generalize ab.1 / c.nfine * c.nfine = x at *
  omega

theorem covRange_hi (c : Cfg) (ab : Nat × Nat) (h2 : ab.2 ≤ c.npix) (hpos : 0 < c.ncov) :
    (covRange c ab).2 < c.ncov ∧ (covRange c ab).2 * c.nfine ≤ ab.2 ∧
      ab.2 ≤ ((covRange c ab).2 + 1) * c.nfine := by
  show (if ab.2 >>> c.shift == c.ncov then c.ncov - 1 else ab.2 >>> c.shift) < c.ncov ∧
    (if ab.2 >>> c.shift == c.ncov then c.ncov - 1 else ab.2 >>> c.shift) * c.nfine ≤ ab.2 ∧
    ab.2 ≤ ((if ab.2 >>> c.shift == c.ncov then c.ncov - 1 else ab.2 >>> c.shift) + 1) * c.nfine
  rw [shift_eq_div]
  have h1 := Nat.div_add_mod ab.2 c.nfine
  have h3 := Nat.mod_lt ab.2 c.nfine_pos
  rw [Nat.mul_comm] at h1
  unfold Cfg.npix at h2
  split
  · rename_i he
    have he' : ab.2 / c.nfine = c.ncov := by simpa using he
    rw [he'] at h1
    have e : c.ncov - 1 + 1 = c.ncov := by omega
    have e2 : (c.ncov - 1) * c.nfine ≤ c.ncov * c.nfine := Nat.mul_le_mul_right _ (by omega)
    rw [e]
    refine ⟨by omega, by omega, h2⟩
  · rename_i he
    have he' : ab.2 / c.nfine ≠ c.ncov := by simpa using he
    have h4 : ab.2 / c.nfine ≤ c.ncov := by
      rw [Nat.div_le_iff_le_mul_add_pred c.nfine_pos] 
      rw [Nat.mul_comm]; omega
    rw [Nat.succ_mul]
    generalize ab.2 / c.nfine * c.nfine = x at *
    refine ⟨by omega, by omega, by omega⟩

theorem covRange_hi_zero (c : Cfg) (ab : Nat × Nat) (h2 : ab.2 ≤ c.npix) (h0 : c.ncov = 0) :
    (covRange c ab).2 = 0 := by
  have : ab.2 = 0 := by
    rw [Cfg.npix, h0, Nat.zero_mul] at h2; omega
  simp [covRange, this, h0]

theorem ncov_pos_of_lt_npix (c : Cfg) {p : Nat} (hp : p < c.npix) : 0 < c.ncov := by
  apply Nat.pos_of_ne_zero
  intro h0
  rw [Cfg.npix, h0, Nat.zero_mul] at hp
  omega

theorem nf_mul_succ_cast (c : Cfg) (k : Nat) :
    ((c.nfine : Nat) : Int) * (((k : Nat) : Int) + 1) = (((k + 1) * c.nfine : Nat) : Int) := by
  rw [Int.natCast_mul, Int.mul_comm]; rfl

/-! ### One row -/

theorem rowApply_cov (c : Cfg) (h : V → V) (na : Bool) (mask : Nat → Bool) (s : State V)
    (ab : Nat × Nat) : (rowApply c h na mask s ab).cov = s.cov := by
  unfold rowApply
  simp only []
  split <;> (try split) <;> rfl

section row
variable [DecidableEq V] {c : Cfg} {vc : VCfg V} {s : State V}

theorem rowApply_spec (hs : Inv c vc s) (h : V → V) (na : Bool) (mask : Nat → Bool)
    (ab : Nat × Nat) (hab1 : ab.1 ≤ ab.2) (hab2 : ab.2 ≤ c.npix)
    (H : ∀ k, (covRange c ab).1 ≤ k → k ≤ (covRange c ab).2 → k < c.ncov →
      (na && !mask k) = false → covered c s k = true) :
    SliceRel c s h (fun p => (na && !mask (p >>> c.shift)) = false ∧ ab.1 ≤ p ∧ p < ab.2)
      s.sp (rowApply c h na mask s ab).sp := by
  have hlo := covRange_lo c ab
  have hhi := covRange_hi c ab hab2
  have hz := covRange_hi_zero c ab hab2
  unfold rowApply
  simp only []
  generalize (covRange c ab).1 = ka at *
  generalize (covRange c ab).2 = kb at *
  split
  · rename_i hlt
    have hpos : 0 < c.ncov := by
      apply Nat.pos_of_ne_zero
      intro h0
      have := hz h0
      omega
    obtain ⟨hkb, hhi1, hhi2⟩ := hhi hpos
    have hb1 := sliceRel_block hs h na mask ka ab.1 ((ka + 1) * c.nfine) (by omega)
      (H ka (Nat.le_refl _) (Nat.le_of_lt hlt) (by omega)) hlo.1 (Nat.le_refl _)
      (((ab.1 : Nat) : Int) + rd s.cov ka 0)
      (rd s.cov ka 0 + ((c.nfine : Nat) : Int) * (((ka : Nat) : Int) + 1)) rfl
      (by rw [nf_mul_succ_cast]; omega) s.sp
    have hb2 := sliceRel_middle hs h na mask ka (kb - ka - 1) (by omega)
      (fun k h1 h2 => H k (Nat.le_of_lt h1) (by omega) (by omega))
      (if (na && !mask ka) = true then s.sp
        else sliceApply h s.sp (((ab.1 : Nat) : Int) + rd s.cov ka 0)
          (rd s.cov ka 0 + ((c.nfine : Nat) : Int) * (((ka : Nat) : Int) + 1)))
    have e : ka + 1 + (kb - ka - 1) = kb := by omega
    rw [e] at hb2
    have hb3 := sliceRel_block hs h na mask kb (kb * c.nfine) ab.2 hkb
      (H kb (Nat.le_of_lt hlt) (Nat.le_refl _) hkb) (Nat.le_refl _) hhi2
      (rd s.cov kb 0 + ((c.nfine : Nat) : Int) * ((kb : Nat) : Int))
      (((ab.2 : Nat) : Int) + rd s.cov kb 0)
      (by rw [nf_mul_cast]; omega) rfl
      ((List.range (kb - ka - 1)).foldl (fun sp i =>
        if (na && !mask (ka + 1 + i)) = true then sp
        else sliceApply h sp
          (rd s.cov (ka + 1 + i) 0 + ((c.nfine : Nat) : Int) * ((ka + 1 + i : Nat) : Int))
          (rd s.cov (ka + 1 + i) 0 + ((c.nfine : Nat) : Int) * ((ka + 1 + i : Nat) : Int)
            + ((c.nfine : Nat) : Int)))
        (if (na && !mask ka) = true then s.sp
          else sliceApply h s.sp (((ab.1 : Nat) : Int) + rd s.cov ka 0)
            (rd s.cov ka 0 + ((c.nfine : Nat) : Int) * (((ka : Nat) : Int) + 1))))
    have e1 : (ka + 1) * c.nfine ≤ kb * c.nfine := Nat.mul_le_mul_right _ (by omega)
    have hlo2 := hlo.2
    generalize (ka + 1) * c.nfine = x at *
    generalize kb * c.nfine = y at *
    refine (((hb1.trans hb2 ?_).trans hb3 ?_).congr ?_)
    · rintro p hp ⟨_, _, h3⟩ ⟨_, h4, _⟩
      omega
    · rintro p hp (⟨_, _, h3⟩ | ⟨_, _, h3⟩) ⟨_, h4, _⟩ <;> omega
    · intro p hp
      constructor
      · rintro ((⟨h1, h2, h3⟩ | ⟨h1, h2, h3⟩) | ⟨h1, h2, h3⟩) <;> exact ⟨h1, by omega, by omega⟩
      · rintro ⟨h1, h2, h3⟩
        by_cases hx : p < x
        · exact Or.inl (Or.inl ⟨h1, h2, hx⟩)
        · by_cases hy : p < y
          · exact Or.inl (Or.inr ⟨h1, by omega, hy⟩)
          · exact Or.inr ⟨h1, by omega, h3⟩
  · rename_i hlt
    by_cases hemp : ab.1 = ab.2
    · have : ∀ p, p < c.npix → ¬ ((na && !mask (p >>> c.shift)) = false ∧ ab.1 ≤ p ∧ p < ab.2) := by
        rintro p _ ⟨_, h2, h3⟩; omega
      split
      · exact SliceRel.of_empty c s h _ _ this
      · show SliceRel c s h _ s.sp (sliceApply h s.sp _ _)
        rw [sliceApply_empty _ _ _ _ (by omega)]
        exact SliceRel.of_empty c s h _ _ this
    · have hpos : 0 < c.ncov := ncov_pos_of_lt_npix c (p := ab.1) (by omega)
      obtain ⟨hkb, hhi1, hhi2⟩ := hhi hpos
      have e1 : (kb + 1) * c.nfine ≤ (ka + 1) * c.nfine := Nat.mul_le_mul_right _ (by omega)
      have hka : ka < c.ncov := by
        have h1 : ka * c.nfine < c.ncov * c.nfine :=
          Nat.lt_of_le_of_lt hlo.1 (Nat.lt_of_lt_of_le (by omega) hab2)
        exact Nat.lt_of_mul_lt_mul_right h1
      have hb := sliceRel_block hs h na mask ka ab.1 ab.2 hka
        (fun hna => by
          have h1 : ka * c.nfine < (kb + 1) * c.nfine := by omega
          have : ka ≤ kb := Nat.le_of_lt_succ (Nat.lt_of_mul_lt_mul_right h1)
          exact H ka (Nat.le_refl _) this hka hna)
        hlo.1 (by omega)
        (((ab.1 : Nat) : Int) + rd s.cov ka 0)
        (((ab.1 : Nat) : Int) + rd s.cov ka 0 + ((ab.2 - ab.1 : Nat) : Int)) rfl (by omega) s.sp
      split
      · rename_i hna
        rw [if_pos hna] at hb
        exact hb
      · rename_i hna
        rw [if_neg hna] at hb
        exact hb

end row

/-! ### From cells back to states -/

theorem covered_of_cov_eq (c : Cfg) {s s' : State V} (h : s'.cov = s.cov) (k : Nat) :
    covered c s' k = covered c s k := by
  unfold covered blockStart; rw [h]

theorem idxOf_of_cov_eq (c : Cfg) {s s' : State V} (h : s'.cov = s.cov) (p : Nat) :
    idxOf c s' p = idxOf c s p := by
  unfold idxOf lookup; rw [h]

section rows
variable [DecidableEq V] {c : Cfg} {vc : VCfg V} {s : State V}

theorem SliceRel.inv {h : V → V} {P : Nat → Prop} {s' : State V} (hr : SliceRel c s h P s.sp s'.sp)
    (hs : Inv c vc s) (hcov : s'.cov = s.cov) : Inv c vc s' := by
  obtain ⟨cov', sp'⟩ := s'
  simp only at hcov hr
  subst hcov
  have hsz : sp'.size = s.sp.size := hr.1
  have hnb : nblk c (⟨s.cov, sp'⟩ : State V) = nblk c s := by
    show sp'.size / _ - 1 = _
    rw [hsz]; rfl
  obtain ⟨h1, h2, h3, h4, h5, h6⟩ := hs
  refine ⟨h1, ?_, ?_, ?_, h5, ?_⟩
  · show sp'.size = _
    rw [hnb, hsz]; exact h2
  · intro i hi
    rw [← h3 i hi]; exact hr.2.1 i hi
  · intro k hk
    show _ ∨ (_ ∧ _ ∧ _ < ((sp'.size : Nat) : Int))
    rw [hsz]; exact h4 k hk
  · rw [hnb]; exact h6

theorem SliceRel.abs_eq {h : V → V} {P : Nat → Prop} {s' : State V}
    (hr : SliceRel c s h P s.sp s'.sp) (hs : Inv c vc s) (hcov : s'.cov = s.cov)
    (p : Nat) (hp : p < c.npix) :
    (P p → abs c vc s' p = h (abs c vc s p)) ∧ (¬ P p → abs c vc s' p = abs c vc s p) := by
  have hlt := hs.idxOf_lt_size hp
  have e : abs c vc s' p = (s'.sp[idxOf c s p]?).getD vc.sentinel := by
    show rd s'.sp (idxOf c s' p) _ = _
    rw [idxOf_of_cov_eq c hcov]; rfl
  have e0 : abs c vc s p = (s.sp[idxOf c s p]?).getD vc.sentinel := rfl
  rw [e, e0]
  constructor
  · intro hP
    rw [(hr.2.2 p hp).1 hP, Array.getElem?_eq_getElem hlt]; rfl
  · intro hP
    rw [(hr.2.2 p hp).2 hP]

/-- all rows: layout, coverage index and dense view -/
theorem rows_spec (h : V → V) (na : Bool) (mask : Nat → Bool) (R : List (Nat × Nat))
    (hR : ∀ ab ∈ R, ab.1 ≤ ab.2 ∧ ab.2 ≤ c.npix) (s : State V) (hs : Inv c vc s)
    (H : ∀ ab ∈ R, ∀ k, (covRange c ab).1 ≤ k → k ≤ (covRange c ab).2 → k < c.ncov →
      (na && !mask k) = false → covered c s k = true) :
    Inv c vc (R.foldl (rowApply c h na mask) s) ∧
    (R.foldl (rowApply c h na mask) s).cov = s.cov ∧
    ∀ p, p < c.npix → abs c vc (R.foldl (rowApply c h na mask) s) p
      = R.foldl (fun x ab =>
          if (na && !mask (p >>> c.shift)) = false ∧ ab.1 ≤ p ∧ p < ab.2 then h x else x)
          (abs c vc s p) := by
  induction R generalizing s with
  | nil => exact ⟨hs, rfl, fun _ _ => rfl⟩
  | cons ab R ih =>
    have hab := hR ab List.mem_cons_self
    have hrow := rowApply_spec hs h na mask ab hab.1 hab.2 (H ab List.mem_cons_self)
    have hcov := rowApply_cov c h na mask s ab
    have hs1 := hrow.inv hs hcov
    have ih' := ih (fun ab' h' => hR ab' (List.mem_cons_of_mem _ h')) (rowApply c h na mask s ab) hs1
      (fun ab' h' k h1 h2 h3 h4 => by
        rw [covered_of_cov_eq c hcov]
        exact H ab' (List.mem_cons_of_mem _ h') k h1 h2 h3 h4)
    refine ⟨ih'.1, ih'.2.1.trans hcov, fun p hp => ?_⟩
    rw [List.foldl_cons, List.foldl_cons, ih'.2.2 p hp]
    congr 1
    have := hrow.abs_eq hs hcov p hp
    split
    · rename_i hP; exact this.1 hP
    · rename_i hP; exact this.2 hP

end rows

theorem rowFold_guard (h : V → V) (b : Prop) [Decidable b] (R : List (Nat × Nat)) (p : Nat) (x : V) :
    R.foldl (fun x ab => if b ∧ ab.1 ≤ p ∧ p < ab.2 then h x else x) x
      = if b then R.foldl (fun x ab => if ab.1 ≤ p ∧ p < ab.2 then h x else x) x else x := by
  by_cases hb : b
  · simp only [hb, true_and, if_true]
  · simp only [hb, false_and, if_false]
    induction R with
    | nil => rfl
    | cons ab R ih => exact ih

/-! ### `updateRanges` -/

/-- the coverage pixels `updateRanges` reserves (when appending) -/
def rangeNewCov (c : Cfg) (s : State V) (R : List (Nat × Nat)) : List Nat :=
  ((List.range c.ncov).filter fun k =>
    (R.map (covRange c)).any fun lh => lh.1 ≤ k && k ≤ lh.2).filter fun k => !covered c s k

/-- the state after the growth step of `updateRanges` -/
def rangeGrow (c : Cfg) (vc : VCfg V) (s : State V) (R : List (Nat × Nat)) (na : Bool) : State V :=
  if (!na && !(rangeNewCov c s R).isEmpty) = true then reserve c vc s (rangeNewCov c s R) else s

theorem updateRanges_eq (c : Cfg) (vc : VCfg V) (s : State V) (h : V → V) (R : List (Nat × Nat))
    (na : Bool) :
    updateRanges c vc s h R na = R.foldl (rowApply c h na (covered c s)) (rangeGrow c vc s R na) :=
  rfl

theorem mem_rangeNewCov (c : Cfg) (s : State V) (R : List (Nat × Nat)) (k : Nat) :
    k ∈ rangeNewCov c s R ↔ k < c.ncov ∧ covered c s k = false ∧
      ∃ ab ∈ R, (covRange c ab).1 ≤ k ∧ k ≤ (covRange c ab).2 := by
  simp only [rangeNewCov, List.mem_filter, List.mem_range, List.any_eq_true, List.mem_map,
    Bool.and_eq_true, decide_eq_true_eq, Bool.not_eq_true']
  constructor
  · rintro ⟨⟨h1, lh, ⟨ab, hab, rfl⟩, h2, h3⟩, h4⟩
    exact ⟨h1, h4, ab, hab, h2, h3⟩
  · rintro ⟨h1, h4, ab, hab, h2, h3⟩
    exact ⟨⟨h1, _, ⟨ab, hab, rfl⟩, h2, h3⟩, h4⟩

theorem nodup_rangeNewCov (c : Cfg) (s : State V) (R : List (Nat × Nat)) :
    (rangeNewCov c s R).Nodup :=
  List.filter_sublist.nodup (List.filter_sublist.nodup List.nodup_range)

/-- every pixel of a row lies in the row's coverage-pixel range -/
theorem covRange_mem (c : Cfg) (ab : Nat × Nat) (h2 : ab.2 ≤ c.npix) {q : Nat}
    (hq1 : ab.1 ≤ q) (hq2 : q < ab.2) :
    (covRange c ab).1 ≤ q >>> c.shift ∧ q >>> c.shift ≤ (covRange c ab).2 := by
  have hpos : 0 < c.ncov := ncov_pos_of_lt_npix c (p := q) (by omega)
  have hlo := covRange_lo c ab
  have hhi := covRange_hi c ab h2 hpos
  rw [shift_eq_div]
  constructor
  · rw [Nat.le_div_iff_mul_le c.nfine_pos]; omega
  · have : q / c.nfine < (covRange c ab).2 + 1 := by
      rw [Nat.div_lt_iff_lt_mul c.nfine_pos]; omega
    omega

section upd
variable [DecidableEq V]

theorem rangeGrow_spec (c : Cfg) (vc : VCfg V) (s : State V) (R : List (Nat × Nat)) (na : Bool)
    (hs : Inv c vc s) :
    Inv c vc (rangeGrow c vc s R na) ∧
    (∀ p, p < c.npix → abs c vc (rangeGrow c vc s R na) p = abs c vc s p) ∧
    (∀ k, k < c.ncov → covered c (rangeGrow c vc s R na) k
        = (covered c s k || (!na && decide (k ∈ rangeNewCov c s R)))) := by
  have hnd := nodup_rangeNewCov c s R
  have hnew : ∀ k ∈ rangeNewCov c s R, k < c.ncov ∧ covered c s k = false := fun k hk =>
    ⟨((mem_rangeNewCov c s R k).1 hk).1, ((mem_rangeNewCov c s R k).1 hk).2.1⟩
  unfold rangeGrow
  split
  · rename_i hc
    have hna : na = false := by
      cases na <;> simp_all
    subst hna
    refine ⟨inv_reserve' c vc s _ hs hnd hnew, fun p hp => reserve_abs' c vc s _ hs hnd hnew p hp,
      fun k hk => ?_⟩
    rw [reserve_covered' c vc s _ hs hnd k hk]; rfl
  · rename_i hc
    refine ⟨hs, fun _ _ => rfl, fun k hk => ?_⟩
    cases na with
    | true => simp
    | false =>
      have hemp : rangeNewCov c s R = [] := by simpa using hc
      simp [hemp]

/-- the three facts about `updateRanges` from which all of C08 follows -/
theorem updateRanges_spec (c : Cfg) (vc : VCfg V) (s : State V) (h : V → V)
    (R : List (Nat × Nat)) (na : Bool) (hs : Inv c vc s)
    (hR : ∀ ab ∈ R, ab.1 ≤ ab.2 ∧ ab.2 ≤ c.npix) :
    Inv c vc (updateRanges c vc s h R na) ∧
    (∀ k, k < c.ncov → covered c (updateRanges c vc s h R na) k
        = (covered c s k || (!na && decide (k ∈ rangeNewCov c s R)))) ∧
    (∀ p, p < c.npix → abs c vc (updateRanges c vc s h R na) p
        = denseUpdate c (abs c vc s) (covered c s) (fun x (_ : Unit) => h x)
            ((expand R).map fun q => (q, ())) na p) := by
  obtain ⟨hg1, hg2, hg3⟩ := rangeGrow_spec c vc s R na hs
  have H : ∀ ab ∈ R, ∀ k, (covRange c ab).1 ≤ k → k ≤ (covRange c ab).2 → k < c.ncov →
      (na && !covered c s k) = false → covered c (rangeGrow c vc s R na) k = true := by
    intro ab hab k h1 h2 h3 h4
    rw [hg3 k h3]
    cases hck : covered c s k with
    | true => rfl
    | false =>
      have hna : na = false := by
        cases na <;> simp_all
      have : k ∈ rangeNewCov c s R := (mem_rangeNewCov c s R k).2 ⟨h3, hck, ab, hab, h1, h2⟩
      simp [hna, this]
  obtain ⟨hr1, hr2, hr3⟩ := rows_spec h na (covered c s) R hR (rangeGrow c vc s R na) hg1 H
  rw [updateRanges_eq]
  refine ⟨hr1, fun k hk => ?_, fun p hp => ?_⟩
  · rw [covered_of_cov_eq c hr2, hg3 k hk]
  · rw [hr3 p hp, hg2 p hp, rowFold_guard, ← denseFold_expand h R (fun ab hab => (hR ab hab).1)]
    unfold denseUpdate
    cases hb : (na && !covered c s (p >>> c.shift)) with
    | true => simp
    | false => simp

end upd

/-! ### Comparison with the explicit-pixel path -/

theorem stageList_fst_mem {W} (b : Bool) (pv : List (Nat × W)) (qw : Nat × Option W)
    (h : qw ∈ stageList b pv) : ∃ pw ∈ pv, pw.1 = qw.1 := by
  unfold stageList at h
  rcases List.mem_append.1 h with h | h
  · split at h
    · obtain ⟨pw, hpw, rfl⟩ := List.mem_map.1 h
      exact ⟨pw, hpw, rfl⟩
    · cases h
  · obtain ⟨pw, hpw, rfl⟩ := List.mem_map.1 h
    exact ⟨pw, hpw, rfl⟩

theorem stageList_expand_lt {W} (c : Cfg) (b : Bool) (R : List (Nat × Nat)) (w : W)
    (hR : ∀ ab ∈ R, ab.1 ≤ ab.2 ∧ ab.2 ≤ c.npix) :
    ∀ qw ∈ stageList b ((expand R).map fun q => (q, w)), qw.1 < c.npix := by
  intro qw hqw
  obtain ⟨pw, hpw, he⟩ := stageList_fst_mem b _ qw hqw
  obtain ⟨q, hq, rfl⟩ := List.mem_map.1 hpw
  obtain ⟨ab, hab, h1, h2⟩ := (expand_mem' R q).1 hq
  rw [← he]
  exact Nat.lt_of_lt_of_le h2 (hR ab hab).2

theorem denseFold_stage_none {W} (f : V → W → V) (w : W) (l : List Nat) (p : Nat) (x : V) :
    denseFold (stageOp id f) (stageList false (l.map fun q => (q, w))) p x
      = denseFold (fun x (_ : Unit) => cellEffect none f w x) (l.map fun q => (q, ())) p x := by
  have e : stageList false (l.map fun q => (q, w)) = l.map fun q => (q, some w) := by
    simp [stageList]
  rw [e]
  exact denseFold_map_congr (stageOp id f) (fun x (_ : Unit) => cellEffect none f w x) l
    (fun q => (q, some w)) (fun q => (q, ())) (fun _ _ => rfl) (fun _ _ _ => rfl) p x

theorem denseFold_stage_some {W} (pre : V → V) (f : V → W → V) (w : W) (l : List Nat)
    (hnd : l.Nodup) (p : Nat) (x : V) :
    denseFold (stageOp pre f) (stageList true (l.map fun q => (q, w))) p x
      = denseFold (fun x (_ : Unit) => cellEffect (some pre) f w x) (l.map fun q => (q, ())) p x := by
  have e : stageList true (l.map fun q => (q, w))
      = (l.map fun q => (q, (fun _ => (none : Option W)) q))
        ++ l.map fun q => (q, (fun _ => some w) q) := by
    simp only [stageList, if_true, List.map_map]
    rfl
  rw [e, denseFold_append, denseFold_nodup _ l _ hnd, denseFold_nodup _ l _ hnd,
    denseFold_nodup (fun x (_ : Unit) => cellEffect (some pre) f w x) l (fun _ => ()) hnd]
  by_cases hp : p ∈ l
  · simp only [hp, if_true]; rfl
  · simp only [hp, if_false]

theorem ranges_covered_aux (c : Cfg) (s : State V) (R : List (Nat × Nat)) (na : Bool)
    (hR : ∀ ab ∈ R, ab.1 ≤ ab.2 ∧ ab.2 ≤ c.npix) (k : Nat) (hk : k < c.ncov)
    (h : denseCov c (covered c s) ((expand R).map fun q => (q, ())) na k = true) :
    (covered c s k || (!na && decide (k ∈ rangeNewCov c s R))) = true := by
  unfold denseCov at h
  cases hck : covered c s k with
  | true => rfl
  | false =>
    rw [hck] at h
    simp only [Bool.false_or, Bool.and_eq_true, Bool.not_eq_true', List.any_eq_true,
      List.mem_map, beq_iff_eq] at h
    obtain ⟨hna, _, ⟨q, hq, rfl⟩, hqk⟩ := h
    obtain ⟨ab, hab, h1, h2⟩ := (expand_mem' R q).1 hq
    have hm := covRange_mem c ab (hR ab hab).2 h1 h2
    simp only at hqk
    rw [hqk] at hm
    have : k ∈ rangeNewCov c s R := (mem_rangeNewCov c s R k).2 ⟨hk, hck, ab, hab, hm.1, hm.2⟩
    simp [hna, this]

theorem expand_upgrade' (g : Nat) (R : List (Nat × Nat)) (p : Nat) :
    p ∈ expand (R.map fun ab => (ab.1 <<< g, ab.2 <<< g)) ↔ (p >>> g) ∈ expand R := by
  rw [expand_mem', expand_mem']
  have hg := Nat.two_pow_pos g
  constructor
  · rintro ⟨_, hm, h1, h2⟩
    obtain ⟨ab, hab, rfl⟩ := List.mem_map.1 hm
    simp only [Nat.shiftLeft_eq] at h1 h2
    rw [Nat.shiftRight_eq_div_pow]
    exact ⟨ab, hab, (Nat.le_div_iff_mul_le hg).2 h1, (Nat.div_lt_iff_lt_mul hg).2 h2⟩
  · rintro ⟨ab, hab, h1, h2⟩
    rw [Nat.shiftRight_eq_div_pow] at h1 h2
    refine ⟨_, List.mem_map.2 ⟨ab, hab, rfl⟩, ?_, ?_⟩
    · simp only [Nat.shiftLeft_eq]
      exact (Nat.le_div_iff_mul_le hg).1 h1
    · simp only [Nat.shiftLeft_eq]
      exact (Nat.div_lt_iff_lt_mul hg).1 h2

end HS
