/-
  Helper lemmas for the heap layer (Model/Heap.lean), used by Props/C09.lean.
-/
import HealSparse.Model.Heap
namespace HS
namespace HeapL

variable {V : Type}

theorem read_some (h : Heap V) (i : Nat) (m : HMap) (hm : h.maps[i]? = some m) :
    h.read i = ⟨(h.covs[m.cov]?).getD #[], (h.bufs[m.buf]?).getD #[]⟩ := by
  simp [Heap.read, hm]

theorem mutate_none (h : Heap V) (i : Nat) (f : State V → State V) (hm : h.maps[i]? = none) :
    h.mutate i f = h := by
  simp [Heap.mutate, hm]

theorem mutate_some (h : Heap V) (i : Nat) (f : State V → State V) (m : HMap)
    (hm : h.maps[i]? = some m) :
    h.mutate i f =
      { covs := h.covs.push (f (h.read i)).cov
        bufs := h.bufs.setIfInBounds m.buf (f (h.read i)).sp
        maps := h.maps.setIfInBounds i ⟨h.covs.size, m.buf⟩ } := by
  simp [Heap.mutate, hm]

theorem mutate_maps_size (h : Heap V) (i : Nat) (f : State V → State V) :
    (h.mutate i f).maps.size = h.maps.size := by
  cases hm : h.maps[i]? with
  | none => rw [mutate_none h i f hm]
  | some m => rw [mutate_some h i f m hm]; simp

theorem produce_maps_size (h : Heap V) (sc : Option Nat) (res : State V) :
    (h.produce sc res).maps.size = h.maps.size + 1 := by
  unfold Heap.produce
  split <;> simp

theorem step_maps_size_le (h : Heap V) (st : HStep V) : h.maps.size ≤ (h.step st).maps.size := by
  cases st with
  | mutate i f => simp [Heap.step, mutate_maps_size]
  | produce sc f => simp [Heap.step, produce_maps_size]

theorem mutate_frame (h : Heap V) (hs : h.Sep) (i j : Nat) (f : State V → State V)
    (hij : j ≠ i) (hj : j < h.maps.size) : (h.mutate i f).read j = h.read j := by
  cases hm : h.maps[i]? with
  | none => rw [mutate_none h i f hm]
  | some mi =>
    rw [mutate_some h i f mi hm]
    have hjm : h.maps[j]? = some h.maps[j] := Array.getElem?_eq_getElem hj
    obtain ⟨hr, hd⟩ := hs
    have hne : mi.buf ≠ (h.maps[j]).buf := hd i j mi _ hm hjm (fun e => hij e.symm)
    have hcov := (hr j _ hjm).1
    have hmj : (h.maps.setIfInBounds i ⟨h.covs.size, mi.buf⟩)[j]? = some h.maps[j] := by
      rw [Array.getElem?_setIfInBounds_ne (fun e => hij e.symm)]; exact hjm
    rw [read_some _ j _ hmj, read_some h j _ hjm]
    simp only [Array.getElem?_setIfInBounds_ne hne]
    rw [Array.getElem?_push_lt hcov]
    simp [hcov]

theorem mutate_self (h : Heap V) (hs : h.Sep) (i : Nat) (f : State V → State V)
    (hi : i < h.maps.size) : (h.mutate i f).read i = f (h.read i) := by
  have hm : h.maps[i]? = some h.maps[i] := Array.getElem?_eq_getElem hi
  rw [mutate_some h i f _ hm]
  have hbuf := (hs.1 i _ hm).2
  have hmi : (h.maps.setIfInBounds i ⟨h.covs.size, (h.maps[i]).buf⟩)[i]?
      = some ⟨h.covs.size, (h.maps[i]).buf⟩ := by
    simp [hi]
  rw [read_some _ i _ hmi]
  simp [hbuf]

theorem produce_frame (h : Heap V) (hs : h.Sep) (sc : Option Nat) (res : State V) (j : Nat)
    (hj : j < h.maps.size) : (h.produce sc res).read j = h.read j := by
  have hjm : h.maps[j]? = some h.maps[j] := Array.getElem?_eq_getElem hj
  obtain ⟨hc, hb⟩ := hs.1 j _ hjm
  unfold Heap.produce
  split
  · rename_i mj _
    have hmj : (h.maps.push ⟨mj.cov, h.bufs.size⟩)[j]? = some h.maps[j] := by
      rw [Array.getElem?_push_lt hj]
    rw [read_some _ j _ hmj, read_some h j _ hjm]
    simp [Array.getElem?_push_lt hb, hb]
  · have hmj : (h.maps.push ⟨h.covs.size, h.bufs.size⟩)[j]? = some h.maps[j] := by
      rw [Array.getElem?_push_lt hj]
    rw [read_some _ j _ hmj, read_some h j _ hjm]
    simp [Array.getElem?_push_lt hb, Array.getElem?_push_lt hc, hb, hc]

theorem produce_result (h : Heap V) (_hs : h.Sep) (sc : Option Nat) (res : State V)
    (hshare : ∀ j, sc = some j → j < h.maps.size → (h.read j).cov = res.cov) :
    (h.produce sc res).read h.maps.size = res := by
  unfold Heap.produce
  split
  · rename_i mj heq
    cases sc with
    | none => simp at heq
    | some j =>
      have hjm : h.maps[j]? = some mj := by simpa using heq
      have hj : j < h.maps.size := by
        apply Classical.byContradiction; intro hn
        rw [Array.getElem?_eq_none (by omega)] at hjm; cases hjm
      have hsh := hshare j rfl hj
      rw [read_some h j _ hjm] at hsh
      simp only at hsh
      have hm : (h.maps.push ⟨mj.cov, h.bufs.size⟩)[h.maps.size]? = some ⟨mj.cov, h.bufs.size⟩ := by
        simp
      rw [read_some _ _ _ hm]
      simp [hsh]
  · have hm : (h.maps.push ⟨h.covs.size, h.bufs.size⟩)[h.maps.size]?
        = some ⟨h.covs.size, h.bufs.size⟩ := by simp
    rw [read_some _ _ _ hm]
    simp

theorem sep_mutate (h : Heap V) (hs : h.Sep) (i : Nat) (f : State V → State V) :
    (h.mutate i f).Sep := by
  cases hm : h.maps[i]? with
  | none => rw [mutate_none h i f hm]; exact hs
  | some mi =>
    rw [mutate_some h i f mi hm]
    obtain ⟨hr, hd⟩ := hs
    have key : ∀ (k : Nat) (m : HMap),
        (h.maps.setIfInBounds i ⟨h.covs.size, mi.buf⟩)[k]? = some m →
        ∃ m0, h.maps[k]? = some m0 ∧ m0.buf = m.buf ∧ m.cov < h.covs.size + 1 := by
      intro k m hk
      rw [Array.getElem?_setIfInBounds] at hk
      split at hk
      · rename_i hik
        subst hik
        split at hk
        · cases hk; exact ⟨mi, hm, rfl, by simp⟩
        · cases hk
      · exact ⟨m, hk, rfl, by have := (hr k m hk).1; omega⟩
    refine ⟨?_, ?_⟩
    · intro k m hk
      obtain ⟨m0, h0, hb, hc⟩ := key k m hk
      refine ⟨by simpa using hc, ?_⟩
      have := (hr k m0 h0).2
      simp only [Array.size_setIfInBounds]; omega
    · intro k l mk ml hk hl hkl
      obtain ⟨m0, h0, hb0, _⟩ := key k mk hk
      obtain ⟨m1, h1, hb1, _⟩ := key l ml hl
      have := hd k l m0 m1 h0 h1 hkl
      rw [← hb0, ← hb1]; exact this

theorem sep_produce (h : Heap V) (hs : h.Sep) (sc : Option Nat) (res : State V) :
    (h.produce sc res).Sep := by
  obtain ⟨hr, hd⟩ := hs
  -- generic: pushing a handle with in-range coverage index and the fresh buffer
  have gen : ∀ (covs : Array (Array Int)) (c : Nat), h.covs.size ≤ covs.size → c < covs.size →
      (⟨covs, h.bufs.push res.sp, h.maps.push ⟨c, h.bufs.size⟩⟩ : Heap V).Sep := by
    intro covs c hle hc
    have key : ∀ (k : Nat) (m : HMap), (h.maps.push ⟨c, h.bufs.size⟩)[k]? = some m →
        (m = ⟨c, h.bufs.size⟩ ∧ k = h.maps.size) ∨ (h.maps[k]? = some m ∧ k < h.maps.size) := by
      intro k m hk
      rw [Array.getElem?_push] at hk
      split at hk
      · cases hk; left; exact ⟨rfl, by assumption⟩
      · right; refine ⟨hk, ?_⟩
        apply Classical.byContradiction; intro hn
        rw [Array.getElem?_eq_none (by omega)] at hk; cases hk
    refine ⟨?_, ?_⟩
    · intro k m hk
      simp only [Array.size_push]
      rcases key k m hk with ⟨rfl, _⟩ | ⟨h0, _⟩
      · exact ⟨hc, by simp⟩
      · have := hr k m h0; omega
    · intro k l mk ml hk hl hkl
      rcases key k mk hk with ⟨rfl, ek⟩ | ⟨h0, ek⟩ <;> rcases key l ml hl with ⟨rfl, el⟩ | ⟨h1, el⟩
      · omega
      · have := (hr l ml h1).2; simp only; omega
      · have := (hr k mk h0).2; simp only; omega
      · exact hd k l mk ml h0 h1 hkl
  unfold Heap.produce
  split
  · rename_i mj heq
    cases sc with
    | none => simp at heq
    | some j =>
      have hjm : h.maps[j]? = some mj := by simpa using heq
      exact gen h.covs mj.cov (Nat.le_refl _) (hr j mj hjm).1
  · exact gen (h.covs.push res.cov) h.covs.size (by simp) (by simp)

theorem sep_step (h : Heap V) (hs : h.Sep) (st : HStep V) : (h.step st).Sep := by
  cases st with
  | mutate i f => exact sep_mutate h hs i f
  | produce sc f => exact sep_produce h hs sc _

theorem no_tie (h : Heap V) (hs : h.Sep) (steps : List (HStep V)) (j : Nat) (hj : j < h.maps.size)
    (hnot : ∀ st ∈ steps, st.target ≠ some j) : (h.run steps).read j = h.read j := by
  induction steps generalizing h with
  | nil => rfl
  | cons st rest ih =>
    have hrun : h.run (st :: rest) = (h.step st).run rest := by simp [Heap.run]
    rw [hrun]
    have hj' : j < (h.step st).maps.size := Nat.lt_of_lt_of_le hj (step_maps_size_le h st)
    rw [ih (h.step st) (sep_step h hs st) hj' (fun s hsm => hnot s (List.mem_cons_of_mem _ hsm))]
    have hst := hnot st (List.mem_cons_self ..)
    cases st with
    | mutate i f =>
      have hij : j ≠ i := by
        intro e; apply hst; simp [HStep.target, e]
      exact mutate_frame h hs i j f hij hj
    | produce sc f => exact produce_frame h hs sc _ j hj

end HeapL
end HS
