/-
  Files at the level of concrete map kinds: which header keywords `_write_map_fits` sets
  and how `_read_map_fits` / `_read_healsparse_fits_file` recover kind, dtype, sentinel,
  primary, wide-mask width and bit packing from them.
-/
import HealSparse.Model.Api
import HealSparse.Model.FitsIO
import HealSparse.Model.ApiRes
import HealSparse.Model.DegradeOnRead
import HealSparse.Model.Cat
namespace HS

/-- what a healsparse FITS file holds (decoded cells; the byte encoding is trusted) -/
structure FileObj where
  covord   : Nat
  spord    : Nat
  arrDT    : String            -- dtype of the SPARSE array as written ("i2" for bool maps, "u1" wide / packed, "rec")
  sentinel : Val               -- SENTINEL keyword
  primary  : Option Nat        -- PRIMARY keyword (record arrays)
  fields   : List DT           -- table columns (record arrays)
  wwidth   : Option Nat        -- WIDEMASK / WWIDTH
  bitpack  : Bool              -- BITPACK
  mdata    : List (String × String)
  file     : FitsFile Val


/-- `_write_map_fits` -/
def apiWrite (m : MapObj) (md : List (String × String)) : FileObj :=
  let (arr, fields, pr, ww, bp) : String × List DT × Option Nat × Option Nat × Bool :=
    match m.kind with
    | .wide n => ("u1", [], none, some n, false)
    | .packed => ("u1", [], none, none, true)
    | .plain .bool => ("i2", [], none, none, false)
    | .plain dt => (dtCode dt, [], none, none, false)
    | .recd fs p => ("rec", fs, some p, none, false)
  { covord := m.covord, spord := m.spord, arrDT := arr, sentinel := m.sent, primary := pr, fields := fields,
    wwidth := ww, bitpack := bp, mdata := md, file := writeFits m.st }

/-- kind recovery on read: BITPACK → packed; a table → record array (whatever the type of
    its primary field — after the `fix:` commit the reader no longer takes the boolean
    branch for a record array whose primary field is boolean); boolean SENTINEL →
    `astype(bool)`; WIDEMASK → reshape to rows of WWIDTH bytes; else the array dtype -/
def fileKind (f : FileObj) : Option Kind :=
  if f.bitpack then some .packed
  else if f.arrDT == "rec" then f.primary.map fun p => .recd f.fields p
  else match f.sentinel with
    | .bool _ => some (.plain .bool)
    | _ =>
      match f.wwidth with
      | some w => some (.wide w)
      | none => (parseDTCode f.arrDT).map .plain

/-- `HealSparseMap.read(file, pixels=…)` -/
def apiRead (f : FileObj) (pixels : Option (List Nat)) : Except Err MapObj := do
  let kind ← match fileKind f with
    | some k => pure k
    | none => throw .runtime
  let c := cfgOf f.covord f.spord
  let vc : VCfg Val := ⟨kind.blank f.sentinel, kind.valid f.sentinel⟩
  let st ← match pixels with
    | none => pure (readFull f.file)
    | some px =>
      if px.any (· ≥ c.ncov) && false then throw .index
      match readPartial c vc f.file px with
      | some s => pure s
      | none => throw .runtime
  pure { covord := f.covord, spord := f.spord, kind := kind, sent := f.sentinel, st := st }


/-- `HealSparseMap.read(file, degrade_nside=…, reduction=…, pixels=…, weightfile=…)` -/
def apiDegradeOnRead (f : FileObj) (ordOut : Nat) (red : String) (pixels : Option (List Nat))
    (wf : Option FileObj) : Except Err MapObj := do
  let c := cfgOf f.covord f.spord
  let px ← match dorPixels c f.file pixels with
    | some px => pure px
    | none => throw .runtime
  -- weight file: coverage checks (lines 387-398)
  let useW ← match wf with
    | some w =>
      if red == "wmean" then
        if w.covord != f.covord then throw .value
        pure true
      else pure false
    | none => pure false
  if ordOut ≥ f.spord then throw .value
  if f.bitpack then throw .notImpl
  -- weight file: type checks (lines 448-463)
  if useW then
    match wf with
    | some w =>
      let isFloat := match parseDTCode w.arrDT with | some (.flt _) => true | _ => false
      let boolSent := match w.sentinel with | .bool _ => true | _ => false
      if w.spord != f.spord || w.arrDT == "rec" || w.wwidth.isSome || !isFloat || boolSent then throw .value
    | none => pure ()
  if ordOut < f.covord then throw .value
  let g := 2 * (f.spord - ordOut)
  let kind ← match fileKind f with
    | some k => pure k
    | none => throw .runtime
  let vc : VCfg Val := ⟨kind.blank f.sentinel, kind.valid f.sentinel⟩
  let mk (kindOut : Kind) (sentOut : Val) (st : Option (State Val)) : Except Err MapObj :=
    match st with
    | some st => pure { covord := f.covord, spord := ordOut, kind := kindOut, sent := sentOut, st := st }
    | none => throw .runtime
  -- weight file: coverage is needed only where the map has observed pixels (checked block by
  -- block in the read loop after the `fix:` commit; before it, up front for every pixel read,
  -- so that an allocated but unobserved coverage pixel of the map made the call fail)
  if useW then
    match wf with
    | some w =>
      let wc := cfgOf w.covord w.spord
      let fs : State Val := ⟨f.file.cov, f.file.data⟩
      let observed (k : Nat) : Bool := (List.range c.nfine).any fun j =>
        vc.valid (rd f.file.data ((blockStart c fs k).toNat + j) vc.sentinel)
      if !(px.all fun k => covered wc (⟨w.file.cov, w.file.data⟩ : State Val) k || !observed k) then throw .value
    | none => pure ()
  let wprep (sw : Val) (x : Val) : Val := if x == sw then .num 0 0 else x
  if !(red == "and" || red == "or") && !cellsFitF64 f.file.data then throw .inexact
  match kind with
  | .packed => throw .notImpl
  | .wide n =>
    if red != "and" && red != "or" then throw .notImpl
    let fr : List Val → Val := fun cells =>
      let rows := cells.map fun v => match v with | .bytes b => b | _ => List.replicate n 0
      match rows with
      | [] => .bytes (List.replicate n 0)
      | r :: rest => .bytes (rest.foldl (zipBytes (if red == "and" then (· &&& ·) else (· ||| ·))) r)
    mk kind f.sentinel (degradeOnRead c vc f.file pixels g fr (kind.blank f.sentinel))
  | .recd fs pr =>
    if !floatReds.contains red then throw .value
    if red == "wmean" && !useW then throw .value
    let fsOut := fs.map auxDT
    let kindOut := Kind.recd fsOut pr
    let sentOut := (fs.getD pr (.flt 64) |> auxDT).defaultSentinel
    let blankOut := kindOut.blank sentOut
    let fr : List (Val × Val) → Val := fun cw =>
      let validCW := cw.filter fun p => vc.valid p.1
      let ws := validCW.map fun p => p.2.numD
      let fields := (List.range fs.length).map fun i =>
        let vals := validCW.map fun p => match p.1 with | .recd l => l.getD i (0, 0) | _ => (0, 0)
        match reduceVals red vals ws (cw.map fun p => p.2.numD) with
        | none => some ((fsOut.getD i (.flt 64)).defaultSentinel.numD)
        | some (.num n e) => if (Val.num n e).fits (fsOut.getD i (.flt 64)) then some (n, e) else none
        | some _ => none
      if fields.all Option.isSome then .recd (fields.map fun o => o.getD (0, 0)) else .poison
    let ovf : Val := blankOut
    match wf, useW with
    | some w, true =>
      mk kindOut sentOut (degradeOnReadW c vc f.file w.file w.sentinel (wprep w.sentinel) pixels g fr ovf)
    | _, _ =>
      mk kindOut sentOut (degradeOnRead c vc f.file pixels g (fun cells => fr (cells.map (·, Val.num 0 0))) ovf)
  | .plain dt0 =>
    -- boolean maps are stored as int16: the on-read path sees an integer array
    let dt := if dt0 == .bool then DT.int 16 true else dt0
    if dt.isInt && (red == "and" || red == "or") then
      let fr : List Val → Val := fun cells =>
        match cells with
        | [] => f.sentinel
        | r :: rest => rest.foldl (if red == "and" then Val.and dt else Val.or dt) r
      let asNum (v : Val) : Val := match v with | .bool b => .num (if b then 1 else 0) 0 | v => v
      let kindOut := if dt0 == .bool then Kind.plain .bool else kind
      mk kindOut f.sentinel (degradeOnRead c vc f.file pixels g (fun cells => fr (cells.map asNum)) f.sentinel)
    else
      if !floatReds.contains red then throw .value
      if red == "wmean" && !useW then throw .value
      let dtOut := auxDT dt
      let sentOut := dtOut.defaultSentinel
      let fr : List (Val × Val) → Val := fun cw =>
        let validCW := cw.filter fun p => vc.valid p.1
        match reduceVals red (validCW.map fun p => p.1.numD) (validCW.map fun p => p.2.numD)
            (cw.map fun p => p.2.numD) with
        | none => sentOut
        | some (.num n e) => if (Val.num n e).fits dtOut then .num n e else .poison
        | some v => v
      match wf, useW with
      | some w, true =>
        mk (.plain dtOut) sentOut (degradeOnReadW c vc f.file w.file w.sentinel (wprep w.sentinel) pixels g fr sentOut)
      | _, _ =>
        mk (.plain dtOut) sentOut (degradeOnRead c vc f.file pixels g (fun cells => fr (cells.map (·, Val.num 0 0))) sentOut)


/-- `cat_healsparse_files(files, outfile, in_memory=True, nside_coverage_out=…, check_overlap=…, or_overlap=…)` -/
def apiCat (files : List FileObj) (covordOut : Option Nat) (checkOverlap orOverlap : Bool) :
    Except Err FileObj := do
  if orOverlap && !checkOverlap then throw .runtime          -- `raise RuntimeWarning`
  let f0 ← match files with
    | f :: _ => pure f
    | [] => throw .index
  let co := covordOut.getD f0.covord
  if files.any (fun f => f.spord != f0.spord) then throw .runtime
  let kind ← match fileKind f0 with
    | some k => pure k
    | none => throw .runtime
  if co > f0.spord then throw .value
  let vc : VCfg Val := ⟨kind.blank f0.sentinel, kind.valid f0.sentinel⟩
  let cOut := cfgOf co f0.spord
  let inputs : List (CatIn Val) := files.map fun f => ⟨cfgOf f.covord f.spord, f.file⟩
  let orOk := orOverlap && kind.isIntegerMap
  let orF : Val → Val → Val := fun a b => Val.or kind.dt a b
  match catFiles cOut vc inputs checkOverlap orOk orF with
  | none => throw .runtime
  | some st =>
    let m : MapObj := { covord := co, spord := f0.spord, kind := kind, sent := f0.sentinel, st := st }
    pure (apiWrite m [])

end HS
