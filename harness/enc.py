"""Text encoding of the line protocol (shared grammar with lean/HealSparse/Model/Text.lean)."""
import numpy as np

DTYPES = {
    'i1': np.int8, 'i2': np.int16, 'i4': np.int32, 'i8': np.int64,
    'u1': np.uint8, 'u2': np.uint16, 'u4': np.uint32, 'u8': np.uint64,
    'f4': np.float32, 'f8': np.float64, 'b1': np.bool_,
}


class Inexact(Exception):
    """A float that is not a finite dyadic rational (nan/inf): the case is discarded."""


def enc_float(x):
    x = float(x)
    if x != x:
        raise Inexact(repr(x))
    if x == float('inf'):
        return 'inf'
    if x == float('-inf'):
        return '-inf'
    n, d = x.as_integer_ratio()
    e = d.bit_length() - 1
    return str(n) if e == 0 else "%d^%d" % (n, e)


def enc_scalar(x):
    if isinstance(x, (bool, np.bool_)):
        return 'T' if x else 'F'
    if isinstance(x, (int, np.integer)):
        return str(int(x))
    if isinstance(x, (float, np.floating)):
        return enc_float(x)
    raise TypeError("cannot encode %r" % (x,))


def enc_cell(x):
    """One cell of a map: scalar, wide-mask row (1-d uint8), record (np.void)."""
    if isinstance(x, np.void):
        return 'r' + ';'.join(enc_scalar(x[n]) for n in x.dtype.names)
    if isinstance(x, np.ndarray) and x.ndim == 1:
        return 'b' + '.'.join(str(int(b)) for b in x)
    return enc_scalar(x)


def enc_cells(arr):
    """An array of cells."""
    arr = np.asarray(arr)
    if arr.dtype.fields is not None:
        names = arr.dtype.names
        # boolean record fields travel as 0 / 1 (the model keeps record fields as numbers)
        cols = [[str(int(v)) for v in arr[n].tolist()] if arr[n].dtype.kind == 'b'
                else [enc_scalar(v) for v in arr[n].tolist()] if arr[n].dtype.kind != 'f'
                else [enc_float(v) for v in arr[n]] for n in names]
        out = ['r' + ';'.join(c[i] for c in cols) for i in range(arr.size)]
    elif arr.ndim == 2:
        out = ['b' + '.'.join(map(str, row)) for row in arr.tolist()]
    elif arr.dtype.kind == 'b':
        out = ['T' if v else 'F' for v in arr.tolist()]
    elif arr.dtype.kind in 'iu':
        out = [str(v) for v in arr.tolist()]
    elif arr.dtype.kind == 'f':
        out = [enc_float(v) for v in arr]
    else:
        raise TypeError("cannot encode array of dtype %s" % arr.dtype)
    return ','.join(out) if out else '_'


def enc_nats(l):
    l = list(l)
    return ','.join(str(int(v)) for v in l) if l else '_'


def enc_ints(l):
    l = list(l)
    return ','.join(str(int(v)) for v in l) if l else '_'


def enc_bits(l):
    return ''.join('1' if v else '0' for v in l)


def enc_ranges(r):
    r = list(r)
    return ','.join("%d:%d" % (int(a), int(b)) for a, b in r) if r else '_'


def split_list(s):
    return [] if s in ('_', '') else s.split(',')


def dec_dy(s):
    if '^' in s:
        n, e = s.split('^')
        return int(n) / float(2 ** int(e))
    return int(s)


def dec_val(s, dtype=None):
    """Decode one value token to a Python / numpy object."""
    if s == 'T':
        return True
    if s == 'F':
        return False
    if s.startswith('b'):
        return np.array([int(b) for b in s[1:].split('.')], dtype=np.uint8)
    if s.startswith('r'):
        vals = [dec_dy(t) for t in s[1:].split(';')]
        rec = np.zeros(1, dtype=dtype)
        for n, v in zip(rec.dtype.names, vals):
            rec[n] = v
        return rec
    return dec_dy(s)


def parse_args(toks):
    pos, kv = [], {}
    for t in toks:
        if t.count('=') == 1:
            k, v = t.split('=')
            kv[k] = v
        else:
            pos.append(t)
    return pos, kv
