/-
  C02 at the driver level: the accounting observers of the protocol (`valid`, `nvalid`, `covmap`,
  `covmask`, `vpsc`, `fracdet` — Model/Dispatch.lean) — helper lemmas for the driver part of
  Props/C02.lean.

  Part 1: core: the dense valid set, coverage pixel by coverage pixel; the storage-order listing
          `valid_pixels` as the concatenation of the per-coverage-pixel listings in block order.
  Part 2: `countUnder`, the one counting function; `covmask`, `fracdet` as equations (the
          observers that need the core theorems of Props/C02 are treated there).
  Part 3: the fracdet map the driver binds.
-/
import HealSparse.Lemmas.WFWorld
import HealSparse.Lemmas.ApiDegrade
namespace HS
namespace ApiAccounting

/-! ### Part 0: sorted lists (as in Lemmas/ApiMoc.lean, which imports Props/C02 and therefore
cannot be imported by a file Props/C02 imports); the dense valid set -/

/-- a strictly sorted list is determined by its members -/
theorem sorted_ext {α : Type} {lt : α → α → Prop} (asymm : ∀ a b, lt a b → lt b a → False) :
    ∀ {l₁ l₂ : List α}, l₁.Pairwise lt → l₂.Pairwise lt → (∀ x, x ∈ l₁ ↔ x ∈ l₂) → l₁ = l₂
  | [], [], _, _, _ => rfl
  | [], b :: _, _, _, h => by have := (h b).2 (List.mem_cons_self ..); cases this
  | a :: _, [], _, _, h => by have := (h a).1 (List.mem_cons_self ..); cases this
  | a :: t₁, b :: t₂, h₁, h₂, h => by
    have p₁ := List.pairwise_cons.1 h₁
    have p₂ := List.pairwise_cons.1 h₂
    have hab : a = b := by
      rcases List.mem_cons.1 ((h a).1 (List.mem_cons_self ..)) with e | ha
      · exact e
      · rcases List.mem_cons.1 ((h b).2 (List.mem_cons_self ..)) with e | hb
        · exact e.symm
        · exact (asymm a b (p₁.1 b hb) (p₂.1 a ha)).elim
    subst hab
    congr 1
    refine sorted_ext asymm p₁.2 p₂.2 fun x => ⟨fun hx => ?_, fun hx => ?_⟩
    · rcases List.mem_cons.1 ((h x).1 (List.mem_cons_of_mem _ hx)) with e | hx'
      · subst e; exact (asymm _ _ (p₁.1 x hx) (p₁.1 x hx)).elim
      · exact hx'
    · rcases List.mem_cons.1 ((h x).2 (List.mem_cons_of_mem _ hx)) with e | hx'
      · subst e; exact (asymm _ _ (p₂.1 x hx) (p₂.1 x hx)).elim
      · exact hx'

theorem sorted_ext_nat {l₁ l₂ : List Nat} (h₁ : l₁.Pairwise (· < ·)) (h₂ : l₂.Pairwise (· < ·))
    (h : ∀ x, x ∈ l₁ ↔ x ∈ l₂) : l₁ = l₂ :=
  sorted_ext (fun a b h1 h2 => by omega) h₁ h₂ h

theorem sorted_ext_int {l₁ l₂ : List Int} (h₁ : l₁.Pairwise (· < ·)) (h₂ : l₂.Pairwise (· < ·))
    (h : ∀ x, x ∈ l₁ ↔ x ∈ l₂) : l₁ = l₂ :=
  sorted_ext (fun a b h1 h2 => by omega) h₁ h₂ h

/-- sorting a duplicate-free list of integers gives a strictly ascending list -/
theorem mergeSort_strict {l : List Int} (hnd : l.Nodup) :
    (l.mergeSort (· ≤ ·)).Pairwise (· < ·) := by
  have hle : (l.mergeSort (fun a b => decide (a ≤ b))).Pairwise (fun a b => decide (a ≤ b) = true) :=
    List.pairwise_mergeSort (fun a b c h1 h2 => by simp at *; omega)
      (fun a b => by simp; omega) l
  have hnd' : (l.mergeSort (fun a b => decide (a ≤ b))).Nodup :=
    (List.mergeSort_perm l _).nodup_iff.2 hnd
  exact (hle.and hnd').imp fun ⟨h1, h2⟩ => by simp at h1; omega


/-- the dense valid set, ascending (`C02.validSet`, restated here: Props/C02 imports this file) -/
def validSet {V : Type} (c : Cfg) (vc : VCfg V) (s : State V) : List Nat :=
  (List.range c.npix).filter fun p => vc.valid (abs c vc s p)

/-- valid offsets inside coverage pixel `k`, ascending (`C02.validIn`) -/
def validIn {V : Type} (c : Cfg) (vc : VCfg V) (s : State V) (k : Nat) : List Nat :=
  (List.range c.nfine).filter fun j => vc.valid (abs c vc s (k * c.nfine + j))

theorem validSet_sorted {V : Type} (c : Cfg) (vc : VCfg V) (s : State V) :
    (validSet c vc s).Pairwise (· < ·) :=
  List.Pairwise.sublist List.filter_sublist List.pairwise_lt_range

theorem mem_validSet {V : Type} {c : Cfg} {vc : VCfg V} {s : State V} {p : Nat} :
    p ∈ validSet c vc s ↔ p < c.npix ∧ vc.valid (abs c vc s p) = true := by
  unfold validSet
  rw [List.mem_filter, List.mem_range]

/-! ### Part 1: core -/

/-- `range (N·n)` block by block -/
theorem range_mul (N n : Nat) :
    List.range (N * n) = (List.range N).flatMap fun b => (List.range n).map fun j => b * n + j := by
  induction N with
  | zero => simp
  | succ N ih =>
    rw [Nat.succ_mul, List.range_add, ih, List.range_succ, List.flatMap_append]
    simp

section core
variable {V : Type} [DecidableEq V] {c : Cfg} {vc : VCfg V} {s : State V}

omit [DecidableEq V] in
/-- **the dense valid set, coverage pixel by coverage pixel** (ascending in both readings) -/
theorem validSet_eq_flatMap (c : Cfg) (vc : VCfg V) (s : State V) :
    validSet c vc s =
      (List.range c.ncov).flatMap fun k => (validIn c vc s k).map fun j => k * c.nfine + j := by
  unfold validSet validIn Cfg.npix
  rw [range_mul, List.filter_flatMap]
  congr 1
  funext k
  rw [List.filter_map]
  rfl

omit [DecidableEq V] in
theorem validIn_sorted (c : Cfg) (vc : VCfg V) (s : State V) (k : Nat) :
    (validIn c vc s k).Pairwise (· < ·) :=
  List.Pairwise.sublist List.filter_sublist List.pairwise_lt_range

omit [DecidableEq V] in
/-- the valid pixels of coverage pixel `K` are the members of the valid set with `p >> shift = K` -/
theorem validIn_eq_filter (c : Cfg) (vc : VCfg V) (s : State V) {K : Nat} (hK : K < c.ncov) :
    ((validIn c vc s K).map fun j => K * c.nfine + j) =
      (validSet c vc s).filter fun p => p >>> c.shift == K := by
  refine sorted_ext_nat ?_ ((validSet_sorted c vc s).sublist List.filter_sublist) fun p => ?_
  · rw [List.pairwise_map]
    exact (validIn_sorted c vc s K).imp fun h => by omega
  · rw [List.mem_map, List.mem_filter, mem_validSet]
    unfold validIn
    constructor
    · rintro ⟨j, hj, rfl⟩
      obtain ⟨h1, h2⟩ := List.mem_filter.1 hj
      have hj' := List.mem_range.1 h1
      refine ⟨⟨mul_add_lt_mul hK hj', h2⟩, ?_⟩
      rw [shift_eq_div, (mul_add_div_mod hj').1]; simp
    · rintro ⟨⟨hp, hval⟩, hk⟩
      have hk' : p >>> c.shift = K := by simpa using hk
      rw [shift_eq_div] at hk'
      have hmod := Nat.mod_lt p c.nfine_pos
      have hdec : p = K * c.nfine + p % c.nfine := by
        rw [← hk', Nat.mul_comm]; exact (Nat.div_add_mod p c.nfine).symm
      refine ⟨p % c.nfine, List.mem_filter.2 ⟨List.mem_range.2 hmod, ?_⟩, hdec.symm⟩
      rw [← hdec]; exact hval

end core

theorem list_eq_map_range {α : Type} (l : List α) (d : α) :
    l = (List.range l.length).map fun i => (l[i]?).getD d := by
  apply List.ext_getElem?
  intro i
  by_cases hi : i < l.length
  · rw [List.getElem?_map, List.getElem?_range hi]
    simp [List.getElem?_eq_getElem hi]
  · rw [List.getElem?_eq_none (by omega), List.getElem?_eq_none (by simp; omega)]

theorem flatMap_congr' {α β : Type} {l : List α} {f g : α → List β} (h : ∀ a ∈ l, f a = g a) :
    l.flatMap f = l.flatMap g := by
  induction l with
  | nil => rfl
  | cons a t ih =>
    simp only [List.flatMap_cons]
    rw [h a (List.mem_cons_self ..), ih fun x hx => h x (List.mem_cons_of_mem _ hx)]

section storage
variable {V : Type} [DecidableEq V] {c : Cfg} {vc : VCfg V} {s : State V}

/-- **`valid_pixels` in storage order** is the concatenation, over the blocks in BLOCK order
    (`_block_to_cov_index`: the order in which coverage pixels were allocated), of the ascending
    listings of the valid pixels of each block's coverage pixel — what
    `iter_valid_pixels_by_covpix` yields piece by piece -/
theorem validCells_pix_eq (h : Inv c vc s) (hv : vc.valid vc.sentinel = false) :
    (validCells vc s).map (pixOfCell c s) =
      (blockToCov c s).toList.flatMap fun k => (validIn c vc s k).map fun j => k * c.nfine + j := by
  have hsz : (blockToCov c s).toList.length = nblk c s := by
    rw [Array.length_toList, blockToCov_size]
  rw [list_eq_map_range (blockToCov c s).toList 0, hsz, List.flatMap_map]
  unfold validCells
  rw [h.size_eq, range_mul, List.filter_flatMap, List.map_flatMap, List.range_succ_eq_map,
    List.flatMap_cons, List.flatMap_map]
  have h0 : ((List.range c.nfine).map fun j => 0 * c.nfine + j).filter
      (fun i => vc.valid (rd s.sp i vc.sentinel)) = [] := by
    rw [List.filter_eq_nil_iff]
    intro i hi
    obtain ⟨j, hj, rfl⟩ := List.mem_map.1 hi
    have hj' := List.mem_range.1 hj
    have : rd s.sp (0 * c.nfine + j) vc.sentinel = vc.sentinel := by
      unfold rd; rw [h.2.2.1 _ (by omega)]; rfl
    rw [this, hv]; simp
  simp only [h0, List.map_nil, List.nil_append]
  apply flatMap_congr'
  intro b hb
  have hb' := List.mem_range.1 hb
  obtain ⟨k, hk, hbs, hget⟩ := h.blockToCov_spec hb'
  rw [Array.getElem?_toList, hget, Option.getD_some, List.filter_map, List.map_map]
  unfold validIn
  rw [← filter_block c vc s hbs]
  apply List.map_congr_left
  intro j hj
  have hj' := List.mem_range.1 (List.mem_filter.1 hj).1
  simp only [Function.comp_apply]
  have hlt : (b + 1) * c.nfine + j < s.sp.size := by
    rw [h.size_eq]; exact (blk_cell_range hb' hj').2
  obtain ⟨b', k', _, _, hdiv, _, _, hget', hpix⟩ :=
    h.cell_spec (i := (b + 1) * c.nfine + j) (by have := le_succ_mul c.nfine b; omega) hlt
  obtain ⟨e1, e2⟩ := mul_add_div_mod (k := b + 1) hj'
  rw [e1] at hdiv
  have hbb : b' = b := by omega
  subst hbb
  rw [hget] at hget'
  cases hget'
  rw [hpix, e2]

/-- … as `valid_pixels` itself -/
theorem validPixels_storage_order (h : Inv c vc s) (hv : vc.valid vc.sentinel = false) :
    validPixels c vc s = some (((blockToCov c s).toList.flatMap fun k =>
      (validIn c vc s k).map fun j => k * c.nfine + j).map fun p => ((p : Nat) : Int)) := by
  rw [h.validPixels_eq hv, validCells_pix_eq h hv]

end storage

section under
variable {V : Type} {c : Cfg} {vc : VCfg V} {s : State V}

/-- the valid pixels below coarse pixel `q` (`g` bits coarser): the members of the valid set with
    `p >> g = q`, ascending -/
theorem under_eq_filter (c : Cfg) (vc : VCfg V) (s : State V) (g q : Nat)
    (hq : (q + 1) * 2 ^ g ≤ c.npix) :
    (((List.range (2 ^ g)).filter fun j => vc.valid (abs c vc s (q * 2 ^ g + j))).map
        fun j => q * 2 ^ g + j) =
      (validSet c vc s).filter fun p => p >>> g == q := by
  have hpos := Nat.two_pow_pos g
  refine sorted_ext_nat ?_ ((validSet_sorted c vc s).sublist List.filter_sublist) fun p => ?_
  · rw [List.pairwise_map]
    exact (List.Pairwise.sublist List.filter_sublist List.pairwise_lt_range).imp fun h => by omega
  · rw [List.mem_map, List.mem_filter, mem_validSet]
    constructor
    · rintro ⟨j, hj, rfl⟩
      obtain ⟨h1, h2⟩ := List.mem_filter.1 hj
      have hj' := List.mem_range.1 h1
      refine ⟨⟨?_, h2⟩, ?_⟩
      · rw [Nat.add_mul] at hq; omega
      · rw [Nat.shiftRight_eq_div_pow, (mul_add_div_mod hj').1]; simp
    · rintro ⟨⟨hp, hval⟩, hk⟩
      have hk' : p >>> g = q := by simpa using hk
      rw [Nat.shiftRight_eq_div_pow] at hk'
      have hmod := Nat.mod_lt p hpos
      have hdec : p = q * 2 ^ g + p % 2 ^ g := by
        rw [← hk', Nat.mul_comm]; exact (Nat.div_add_mod p (2 ^ g)).symm
      refine ⟨p % 2 ^ g, List.mem_filter.2 ⟨List.mem_range.2 hmod, ?_⟩, hdec.symm⟩
      rw [← hdec]; exact hval

end under

/-! ### Part 2: the observers as equations -/

/-- the number of valid pixels below pixel `q` of order `O` — the ONE function of the dense valid
    set every counting observer prints -/
def countUnder (m : MapObj) (O q : Nat) : Nat :=
  ((validSet m.c m.vc m.st).filter fun p => p >>> (2 * (m.spord - O)) == q).length

theorem countUnder_covord (m : MapObj) (k : Nat) :
    countUnder m m.covord k = ((validSet m.c m.vc m.st).filter fun p => p >>> m.c.shift == k).length :=
  rfl

/-- **`covmask n`**: the coverage mask, one bit per coverage pixel -/
theorem opCovmask_eq {w : World} {a : Args} {n : String} {rest : List String} {m : MapObj}
    (ha : a.pos = n :: rest) (hg : w.get? n = some m) :
    opCovmask w a = (w, showBits ((List.range m.c.ncov).map (covered m.c m.st))) := by
  unfold opCovmask withMap
  rw [ha]
  simp only [hg]
  rfl

/-! ### Part 3: the fracdet map -/

/-- the fraction `n / 2^g` as a cell value (dyadic, normalised) -/
def fracVal (n g : Nat) : Val := Val.num (dyNorm ((n : Nat) : Int) g).1 (dyNorm ((n : Nat) : Int) g).2

/-- the map `fracdet n ord=O r=F` binds to `F`: float64, sentinel 0, orders `(covord, O)` -/
def fracMap (m : MapObj) (O : Nat) : MapObj :=
  { covord := m.covord, spord := O, kind := .plain (.flt 64), sent := .num 0 0,
    st := fracdetState m O }

/-- **`fracdet n ord=O r=F`**: ValueError unless `covord ≤ O ≤ spord`, else `F` is bound to
    `fracMap m O` -/
theorem opFracdet_eq {w : World} {a : Args} {n : String} {rest : List String} {m : MapObj}
    {r : String} {O : Nat} (ha : a.pos = n :: rest) (hg : w.get? n = some m)
    (hr : a.get? "r" = some r) (hO : a.nat? "ord" = some O) :
    opFracdet w a =
      if O > m.spord ∨ O < m.covord then (w, errLine .value) else (w.bind r (fracMap m O), "ok") := by
  unfold opFracdet withMap
  rw [ha]
  simp only [hg, hr, hO]
  by_cases h : O > m.spord ∨ O < m.covord
  · rw [if_pos h, if_pos (by simpa using h)]
  · rw [if_neg h, if_neg (by simpa using h)]
    rfl

theorem rd_map {α β : Type} (a : Array α) (f : α → β) (i : Nat) (d : α) :
    rd (a.map f) i (f d) = f (rd a i d) := by
  unfold rd
  rw [Array.getElem?_map]
  cases a[i]? <;> rfl

/-- **the fracdet map, entry by entry**: pixel `q` of order `O` holds (number of valid pixels of
    `m` below `q`) / `4^(spord - O)`, as an exact dyadic; the map obeys the layout and has the
    coverage mask of `m` -/
theorem fracMap_spec {m : MapObj} {O : Nat} (hwf : m.WF) (hv : m.BlankInvalid)
    (hlo : m.covord ≤ O) (hhi : O ≤ m.spord) :
    (fracMap m O).WF ∧
    (∀ q, q < 12 * 4 ^ O → (fracMap m O).abs q = fracVal (countUnder m O q) (2 * (m.spord - O))) ∧
    (∀ k, k < m.c.ncov → covered (fracMap m O).c (fracMap m O).st k = covered m.c m.st k) := by
  have hg : 2 * (m.spord - O) ≤ m.c.shift := ApiDegrade.gbits_le hlo
  have hcfg : fcfg m.c (2 * (m.spord - O)) = cfgOf m.covord O := degCfg_cfgOf hlo hhi
  refine ⟨WF.fracdet_partial hwf hv hlo hhi, ?_, ?_⟩
  · intro q hq
    have hnp : (cfgOf m.covord O).npix = 12 * 4 ^ O := ApiDegrade.cfgOf_npix hlo
    have hq' : q < (fcfg m.c (2 * (m.spord - O))).npix := by rw [hcfg, hnp]; exact hq
    have key := hwf.2.fracdet_eq' hv hg hq'
    rw [hcfg] at key
    -- the cell the map reads is the image of the count cell
    have habs : (fracMap m O).abs q =
        fracVal (HS.abs (cfgOf m.covord O) fvc
          (fracdetCounts m.c m.vc m.st (2 * (m.spord - O))) q) (2 * (m.spord - O)) := by
      show rd ((fracdetCounts m.c m.vc m.st (2 * (m.spord - O))).sp.map _) _ (Val.num 0 0) = _
      have h0 : Val.num 0 0 = (fun (n : Nat) => fracVal n (2 * (m.spord - O))) 0 := by
        show _ = fracVal 0 _
        unfold fracVal
        rw [show ((0 : Nat) : Int) = 0 from rfl, WFRes.dyNorm_zero]
      rw [h0]
      exact rd_map _ _ _ _
    rw [habs, key]
    congr 1
    unfold countUnder
    rw [← under_eq_filter m.c m.vc m.st (2 * (m.spord - O)) q, List.length_map]
    -- the children of an in-range coarse pixel are in range
    have : m.c.npix = 12 * 4 ^ m.spord := ApiDegrade.cfgOf_npix hwf.1
    rw [this, show 2 ^ (2 * (m.spord - O)) = 4 ^ (m.spord - O) by rw [Nat.pow_mul]]
    have e : 4 ^ m.spord = 4 ^ O * 4 ^ (m.spord - O) := by
      rw [← Nat.pow_add]; congr 1; omega
    rw [e, ← Nat.mul_assoc]
    exact Nat.mul_le_mul_right _ (by omega)
  · intro k hk
    have := hwf.2.fracdet_covered' (g := 2 * (m.spord - O)) hk
    rw [hcfg] at this
    exact this

theorem length_filter_beq_nodup {l : List Nat} (h : l.Nodup) (q : Nat) :
    (l.filter fun p => p == q).length = if q ∈ l then 1 else 0 := by
  induction l with
  | nil => rfl
  | cons a t ih =>
    obtain ⟨ha, ht⟩ := List.nodup_cons.1 h
    rw [List.filter_cons]
    by_cases hq : a = q
    · subst hq
      simp only [beq_self_eq_true, if_true, List.length_cons, List.mem_cons, true_or]
      rw [ih ht, if_neg ha]
    · have h1 : (a == q) = false := by simpa using hq
      have h2 : (q ∈ a :: t) ↔ q ∈ t := by
        rw [List.mem_cons]
        exact ⟨fun h => h.resolve_left fun e => hq e.symm, fun h => .inr h⟩
      simp only [h1, Bool.false_eq_true, if_false, ih ht, h2]

/-- at the sparse order the count below a pixel is its 0/1 validity indicator -/
theorem countUnder_spord (m : MapObj) (q : Nat) :
    countUnder m m.spord q = if q ∈ validSet m.c m.vc m.st then 1 else 0 := by
  unfold countUnder
  rw [Nat.sub_self, Nat.mul_zero]
  simp only [Nat.shiftRight_zero]
  exact length_filter_beq_nodup ((validSet_sorted _ _ _).imp fun h => by omega) q

theorem fracVal_zero_bits (n : Nat) : fracVal n 0 = .num n 0 := rfl

/-- **`vals F`** prints the dense view, pixel by pixel -/
theorem opVals_eq {w : World} {a : Args} {n : String} {rest : List String} {m : MapObj}
    (ha : a.pos = n :: rest) (hg : w.get? n = some m) :
    opVals w a = (w, showVals ((List.range m.npix).map m.abs)) := by
  unfold opVals withMap
  rw [ha]
  simp only [hg]

end ApiAccounting
end HS
