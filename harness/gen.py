"""Generators of structured, mostly valid operation histories (one PRNG drives everything)."""
import random

INT_DTYPES = ['i1', 'i2', 'i4', 'i8', 'u1', 'u2', 'u4', 'u8']
FLT_DTYPES = ['f4', 'f8']
BITS = {'i1': 8, 'i2': 16, 'i4': 32, 'i8': 64, 'u1': 8, 'u2': 16, 'u4': 32, 'u8': 64}


def dy(rng, lo=-40, hi=40, exps=(0, 0, 1, 2)):
    n = rng.randint(lo, hi)
    e = rng.choice(exps)
    while e > 0 and n % 2 == 0:
        n //= 2
        e -= 1
    return str(n) if e == 0 else "%d^%d" % (n, e)


class MapCfg(object):
    def __init__(self, name, kind, covord, spord, dtype=None, sentinel='default', maxbits=None,
                 fields=None, primary=None, covpix=None):
        self.name, self.kind, self.covord, self.spord = name, kind, covord, spord
        self.dtype, self.sentinel, self.maxbits = dtype, sentinel, maxbits
        self.fields, self.primary, self.covpix = fields, primary, covpix or []
        self.ncov = 12 * 4 ** covord
        self.nfine = 4 ** (spord - covord)
        self.npix = self.ncov * self.nfine

    def single_field(self, rng, primary_bias=0.0):
        """index of a field a single-field map may be taken of (boolean fields: not modelled)"""
        ok = [i for i, f in enumerate(self.fields) if f != 'b1']
        if self.primary in ok and rng.random() < primary_bias:
            return self.primary
        return rng.choice(ok) if ok else None

    def line(self):
        s = "cfg %s kind=%s covord=%d spord=%d" % (self.name, self.kind, self.covord, self.spord)
        if self.kind == 'plain':
            s += " dtype=%s" % self.dtype
        if self.kind == 'wide':
            s += " maxbits=%d" % self.maxbits
        if self.kind == 'rec':
            s += " fields=%s primary=%d" % (','.join(self.fields), self.primary)
        if self.sentinel != 'default':
            s += " sentinel=%s" % self.sentinel
        if self.covpix:
            s += " covpix=%s" % ','.join(map(str, self.covpix))
        return s

    # -- classification ---------------------------------------------------
    @property
    def is_int(self):
        return self.kind == 'plain' and self.dtype in INT_DTYPES

    @property
    def is_flt(self):
        return self.kind == 'plain' and self.dtype in FLT_DTYPES

    @property
    def is_bool(self):
        return self.kind == 'packed' or (self.kind == 'plain' and self.dtype == 'b1')

    @property
    def nbytes(self):
        return (self.maxbits - 1) // 8 + 1

    def zero_sentinel(self):
        if self.kind == 'wide':
            return True
        if self.is_int:
            if self.sentinel == 'default':
                return self.dtype.startswith('u')
            return self.sentinel == '0'
        return False

    def ops(self):
        """operations legal on this map"""
        if self.is_bool:
            return ['replace', 'or', 'and']
        if self.kind == 'rec':
            return ['replace']
        o = ['replace', 'add']
        if self.kind == 'wide':
            return ['replace', 'or', 'and', 'add']
        if self.is_int and self.zero_sentinel():
            o += ['or', 'and']
        return o

    # -- values -------------------------------------------------------------
    def near_sentinel_tok(self, rng, dt):
        """a VALID value next to the sentinel (validity is `!= sentinel`, never `isclose`)"""
        import numpy as np
        import hpgeom as hpg
        st = self.sentinel
        if dt in INT_DTYPES:
            lo, hi = int(np.iinfo(np.dtype(dt)).min), int(np.iinfo(np.dtype(dt)).max)
            sv = lo if st == 'default' else int(st)
            v = sv + rng.choice([1, 1, 2, -1])
            if v < lo or v > hi:
                v = sv + 1 if sv < hi else sv - 1
            return str(v)
        if dt in FLT_DTYPES:
            if st == 'default':
                return None       # neighbours of UNSEEN (1.6e30) make every later sum inexact: not generated
            # (float32 maps: only the -9999 neighbour — sums of 2^-20-sized and unit-sized values round
            #  in float32 in an order the exact model cannot predict)
            if st == '0' and dt == 'f8':
                return rng.choice(['1^30', '-1^30'])
            if st == '1^1' and dt == 'f8':
                return '524289^20'                        # 0.5 + 2^-20
            if st == '-9999':
                return '-159983^4'                        # -9999 + 2^-4
        return None

    def scalar_tok(self, rng, dtype=None):
        dt = dtype or self.dtype
        if dtype is None and self.kind == 'plain' and rng.random() < 0.04:
            t = self.near_sentinel_tok(rng, dt)
            if t is not None:
                return t
        if dt in ('i8', 'u8') and rng.random() < 0.06:
            # 64-bit values that float64 cannot hold exactly
            return str(rng.choice([2 ** 53 + 1, 2 ** 62 + 1, 2 ** 53 + 3] + ([-(2 ** 53) - 1] if dt == 'i8' else [2 ** 63 + 5])))
        if dt in INT_DTYPES:
            if dt.startswith('u'):
                return str(rng.choice([0, 1, 2, 3, 5, 7, 12, 200 if BITS[dt] >= 8 else 1, rng.randint(0, 100)]))
            return str(rng.choice([0, 1, -1, 2, 3, -5, 7, 12, rng.randint(-100, 100)]))
        if dt in FLT_DTYPES:
            if rng.random() < 0.3:
                return str(rng.randint(-3, 3))       # a few favourite values (arithmetic can land on a sentinel)
            return dy(rng)
        if dt == 'b1':
            return rng.choice('TF')
        raise ValueError(dt)

    def val(self, rng):
        if self.kind == 'plain':
            return self.scalar_tok(rng)
        if self.kind == 'packed':
            return rng.choice('TF')
        if self.kind == 'wide' and self.nbytes >= 2 and rng.random() < 0.15:
            # bytes that add up to a non-zero multiple of 256 (a row is valid iff ANY byte is non-zero)
            bs = [0] * self.nbytes
            i, j = rng.sample(range(self.nbytes), 2)
            bs[i], bs[j] = rng.choice([(128, 128), (192, 64), (255, 1), (64, 192)])
            if self.nbytes >= 3 and rng.random() < 0.3:
                k = next(x for x in range(self.nbytes) if x not in (i, j))
                bs[i], bs[j], bs[k] = 128, 64, 64
            top = self.maxbits - 8 * (self.nbytes - 1)            # bits available in the last byte
            if bs[-1] < 2 ** top:
                return 'b' + '.'.join(map(str, bs))
        if self.kind == 'wide':
            return 'b' + '.'.join(str(rng.choice([0, 0, 1, 2, 128, 255, rng.randint(0, 255)]))
                                  for _ in range(self.nbytes))
        if self.kind == 'rec':
            toks = [self.scalar_tok(rng, f) if f != 'b1' else rng.choice('01') for f in self.fields]
            if rng.random() < 0.04:
                t = self.near_sentinel_tok(rng, self.fields[self.primary])
                if t is not None:
                    toks[self.primary] = t
            return 'r' + ';'.join(toks)
        raise ValueError(self.kind)


def rand_cfg(rng, name='m1', kinds=None, max_npix=768, min_delta=0, rec_unsigned=True, rec_bool=True):
    kinds = kinds or ['int', 'int', 'flt', 'flt', 'bool', 'packed', 'wide', 'rec']
    k = rng.choice(kinds)
    while True:
        covord = rng.choice([0, 0, 0, 1])
        delta = rng.choice([0, 1, 1, 2, 2, 3])
        if k == 'packed' and delta < 2:
            continue
        if delta < min_delta:
            continue
        if 12 * 4 ** (covord + delta) <= max_npix:
            break
    spord = covord + delta
    if k == 'int':
        dt = rng.choice(INT_DTYPES)
        sent = rng.choice(['default', 'default', '0', '0', '-1' if dt.startswith('i') else '255', '7'])
        c = MapCfg(name, 'plain', covord, spord, dtype=dt, sentinel=sent)
    elif k == 'flt':
        dt = rng.choice(FLT_DTYPES)
        sent = rng.choice(['default', 'default', 'default', '-9999', '0', '1^1'])
        c = MapCfg(name, 'plain', covord, spord, dtype=dt, sentinel=sent)
    elif k == 'bool':
        c = MapCfg(name, 'plain', covord, spord, dtype='b1', sentinel=rng.choice(['default', 'default', 'F', 'T']))
    elif k == 'packed':
        c = MapCfg(name, 'packed', covord, spord)
    elif k == 'wide':
        c = MapCfg(name, 'wide', covord, spord, maxbits=rng.choice([1, 7, 8, 9, 15, 16, 17, 20, 32]))
    elif k == 'rec':
        nf = rng.choice([1, 2, 2, 3, 4])            # (a record with a single field is legal)
        # rec_unsigned=False: known finding F43 (unsigned record fields come back signed from FITS tables)
        fields = [rng.choice(['f8', 'f4', 'i4', 'i8', 'i2', 'u2'] if rec_unsigned else ['f8', 'f4', 'i4', 'i8', 'i2'])
                  for _ in range(nf)]
        if rec_bool and nf > 1 and rng.random() < 0.2:
            fields[rng.randrange(nf)] = 'b1'              # a boolean field (possibly the primary one)
        pr = rng.randrange(nf)
        if fields[pr] in FLT_DTYPES:
            sent = rng.choice(['default', 'default', '-9999'])
        elif fields[pr] == 'b1':
            sent = 'default'
        else:
            sent = rng.choice(['default', 'default', '0', '7'])
        c = MapCfg(name, 'rec', covord, spord, fields=fields, primary=pr, sentinel=sent)
    if rng.random() < 0.2:
        n = rng.randint(1, min(3, c.ncov))
        c.covpix = rng.sample(range(c.ncov), n)
        if rng.random() < 0.15:
            c.covpix = c.covpix + [c.covpix[0]]          # a repeated coverage pixel: one block all the same
    return c


def rand_pixels(rng, c, n=None, unique=True, focus=None):
    """Pixels concentrated in a few coverage pixels (chosen in shuffled order), with block
    boundaries and the last pixel of the sphere over-represented."""
    if focus is None:
        focus = rng.sample(range(c.ncov), min(c.ncov, rng.randint(1, 4)))
    if n is None:
        n = rng.choice([0, 1, 1, 2, 3, 5, 8, 13])
    out = []
    for _ in range(n):
        k = rng.choice(focus)
        r = rng.random()
        if r < 0.15:
            off = 0
        elif r < 0.3:
            off = c.nfine - 1
        else:
            off = rng.randrange(c.nfine)
        out.append(k * c.nfine + off)
    if rng.random() < 0.05 and n > 0:
        out[-1] = c.npix - 1
    if unique:
        seen, u = set(), []
        for p in out:
            if p not in seen:
                seen.add(p)
                u.append(p)
        out = u
    elif len(out) >= 2 and rng.random() < 0.6:
        out[rng.randrange(len(out))] = out[0]      # force a duplicate
    return out


def upd_line(rng, c, focus=None, allow_err=0.0):
    """One update_values_pix call."""
    ops = c.ops()
    op = rng.choice(ops)
    r = rng.random()
    if r < 0.12:
        pix = rand_pixels(rng, c, focus=focus)
        return "upd %s op=replace none=1 pix=%s" % (c.name, ','.join(map(str, pix)) or '_')
    accumulating = op != 'replace'
    pix = rand_pixels(rng, c, unique=not accumulating, focus=focus)
    ptxt = ','.join(map(str, pix)) or '_'
    if rng.random() < 0.4 or not pix:
        return "upd %s op=%s pix=%s val=%s" % (c.name, op, ptxt, c.val(rng))
    return "upd %s op=%s pix=%s vals=%s" % (c.name, op, ptxt, ','.join(c.val(rng) for _ in pix))


def bad_upd_line(rng, c):
    """A call that must be rejected (malformed stream)."""
    k = rng.choice(['dup_replace', 'len_mismatch', 'none_nonreplace', 'illegal_op', 'oob', 'mistyped'])
    pix = rand_pixels(rng, c, n=rng.choice([2, 3, 5]), unique=True)
    if len(pix) < 2:
        pix = [0, 1]
    if k == 'mistyped' and c.kind == 'plain' and c.dtype != 'b1':
        other = 'f4' if c.dtype != 'f4' else 'f8'
        if c.dtype in INT_DTYPES:
            other = 'i2' if c.dtype != 'i2' else 'i4'
        return "upd %s op=replace pix=%s vals=%s vdtype=%s" % (c.name, ','.join(map(str, pix)),
                                                                ','.join(c.val(rng) for _ in pix), other)
    if k == 'mistyped':
        k = 'dup_replace'
    if k == 'dup_replace':
        pix = pix + [pix[0]]
        return "upd %s op=replace pix=%s vals=%s" % (c.name, ','.join(map(str, pix)),
                                                      ','.join(c.val(rng) for _ in pix))
    if k == 'len_mismatch':
        return "upd %s op=replace pix=%s vals=%s" % (c.name, ','.join(map(str, pix)),
                                                      ','.join(c.val(rng) for _ in pix + [0]))
    if k == 'none_nonreplace':
        return "upd %s op=%s none=1 pix=%s" % (c.name, rng.choice(['add', 'or', 'and']), ','.join(map(str, pix)))
    if k == 'illegal_op':
        illegal = [o for o in ['add', 'or', 'and', 'xor'] if o not in c.ops()]
        return "upd %s op=%s pix=%s val=%s" % (c.name, rng.choice(illegal), ','.join(map(str, pix)), c.val(rng))
    pix = pix + [c.npix + rng.randint(0, 5)]
    return "upd %s op=replace pix=%s val=%s" % (c.name, ','.join(map(str, pix)), c.val(rng))


def roundtrip_lines(rng, name, f='pv'):
    """replace map `name` by what reading its own file gives (storage that does not own its buffer,
    on-disk byte order, memory-mapped or decompressed arrays): histories continue on it unchanged"""
    return ['write %s f=%s compress=%s' % (name, f, rng.choice('01')), 'read r=%s f=%s' % (name, f)]


def refused_line(rng, c):
    """`bad` line: a call of a kind the library refuses for this kind of map (see real.py BAD_KINDS)"""
    ks = ['not_ndarray', 'ranges_array', 'getitem_flt', 'getitem_listflt', 'getitem_type',
          'setitem_flt', 'setitem_listflt', 'setitem_type', 'sop_array', 'deg_finer']
    if c.kind == 'wide':
        ks += ['wide_scalar', 'sop_wide_const', 'sop_list_float', 'sop_wide_add', 'deg_wide_mean']
    else:
        ks += ['sop_list_nonwide', 'chkpos_nonint']
    if c.kind != 'rec':
        ks += ['getitem_str']
    if c.kind == 'plain' and c.is_int:
        ks += ['int_float', 'sop_int_fltconst']
    if c.kind == 'plain' and c.is_flt:
        ks += ['flt_int', 'sop_bit_on_float', 'deg_wmean_noweights', 'deg_weights_notmap', 'deg_weights_int']
    if c.kind in ('plain', 'packed', 'wide'):
        ks += ['ranges_ring']
    k = rng.choice(ks)
    pix = rand_pixels(rng, c, n=rng.choice([1, 2, 3]), unique=True) or [0]
    return "bad %s k=%s pix=%s val=%s" % (c.name, k, ','.join(map(str, pix)), c.val(rng))


def read_line(rng, c):
    """A read through one of the read paths of HealSparseMap."""
    path = rng.choice(['pix', 'getitem_arr', 'getitem_list', 'getitem_int', 'slice', 'pos', 'pix', 'vm'])
    if path == 'slice':
        a = rng.randrange(c.npix)
        b = rng.randint(a, min(c.npix, a + 40))
        st = rng.choice([1, 1, 2, 3])
        return "get %s slice=%d:%d:%d" % (c.name, a, b, st)
    pix = rand_pixels(rng, c, n=rng.choice([1, 2, 4, 7]), unique=False)
    if path == 'getitem_int':
        pix = pix[:1]
    s = "get %s pix=%s path=%s" % (c.name, ','.join(map(str, pix)), path if path != 'vm' else 'pix')
    if path == 'vm' or rng.random() < 0.15:
        s += " vm=1"
    return s


def rand_ranges(rng, c, disjoint=False, allow_last=True, focus=None):
    """(M,2) half-open pixel ranges with block-boundary alignments over-represented."""
    m = rng.choice([0, 1, 1, 2, 2, 3, 4])
    rows = []
    for _ in range(m):
        k = rng.randrange(c.ncov)
        if focus and rng.random() < 0.6:
            # start in / just before a coverage pixel the history works on (so that ranges run from
            # uncovered into covered coverage pixels and vice versa)
            k = max(0, min(c.ncov - 1, rng.choice(focus) - rng.choice([0, 1, 1, 2])))
        r = rng.random()
        if r < 0.25:
            a = k * c.nfine
        elif r < 0.4:
            a = k * c.nfine + c.nfine - 1
        else:
            a = k * c.nfine + rng.randrange(c.nfine)
        r = rng.random()
        span = rng.choice([0, 1, 2, 3])
        if r < 0.3:
            b = min(c.npix, (a // c.nfine + span + 1) * c.nfine)      # ends on a block edge
        elif r < 0.4 and allow_last:
            b = c.npix
            a = max(a, c.npix - 3 * c.nfine)
        elif r < 0.5:
            if rng.random() < 0.2:
                a = c.npix                                              # … at the very end of the sphere
            b = a                                                       # empty row
        else:
            b = min(c.npix, a + rng.randint(1, max(1, span * c.nfine + c.nfine // 2 + 1)))
        rows.append((a, b))
    if disjoint:
        rows.sort()
        out, last = [], 0
        for a, b in rows:
            a = max(a, last)
            if b <= a:
                continue
            out.append((a, b))
            last = b
        rng.shuffle(out)
        rows = out
    else:
        rng.shuffle(rows)
    return rows



def scattered_range_lines(rng, c, path=None):
    """A run of consecutive coverage pixels allocated ONE CALL AT A TIME in a shuffled order, with foreign
    coverage pixels allocated in between (so the run's storage blocks are neither adjacent nor ascending and
    foreign blocks lie inside their span), then ONE range row crossing the whole run.  (Seeded changes C01d /
    C08d: a "contiguous run" shortcut of the range path that looks at the first and last block only.)"""
    if c.ncov < 5:
        return []
    k = rng.randint(2, min(5, c.ncov - 2))                 # fully crossed ("middle") coverage pixels
    b = rng.randint(0, c.ncov - k)                          # they are b .. b+k-1
    middles = list(range(b, b + k))
    outside = [q for q in range(c.ncov) if q < b - 1 or q > b + k]
    foreign = rng.sample(outside, min(len(outside), rng.randint(1, 2)))
    order = [q for q in middles if rng.random() < 0.9] + foreign
    rng.shuffle(order)
    if rng.random() < 0.3:                                  # the classic: first, foreign, last, inner
        order = [middles[0]] + foreign[:1] + [middles[-1]] + middles[1:-1]
    lines = []
    for q in order:
        pix = q * c.nfine + rng.randrange(c.nfine)
        lines.append("upd %s op=replace pix=%d val=%s" % (c.name, pix, c.val(rng)))
    lo = b * c.nfine if (b == 0 or rng.random() < 0.3) else b * c.nfine - rng.randint(1, c.nfine)
    hi = (b + k) * c.nfine if (b + k == c.ncov or rng.random() < 0.3) else (b + k) * c.nfine + rng.randint(1, c.nfine)
    op = rng.choice(c.ops())
    path = path or rng.choice(['slice', 'slice', 'expand'])
    if rng.random() < 0.15:
        lines.append("updr %s op=replace none=1 ranges=%d:%d path=%s" % (c.name, lo, hi, path))
    else:
        lines.append("updr %s op=%s ranges=%d:%d val=%s path=%s" % (c.name, op, lo, hi, c.val(rng), path))
    return lines


def updr_line(rng, c, path=None, focus=None):
    ops = c.ops()
    op = rng.choice(ops)
    path = path or rng.choice(['slice', 'expand', 'thr'])
    need_disjoint = (op == 'replace')
    rows = rand_ranges(rng, c, disjoint=need_disjoint, focus=focus)
    if op == 'add' and c.kind == 'plain' and c.is_int and not c.zero_sentinel() and c.sentinel != 'default' \
            and rows and rng.random() < 0.3:
        # overlapping rows whose running sum passes through the sentinel (unset cells count as 0: 0 + s = s)
        rows = rows[:1] * rng.choice([2, 3])
        rtxt = ','.join("%d:%d" % ab for ab in rows)
        return "updr %s op=add ranges=%s val=%s path=%s" % (c.name, rtxt, c.sentinel, path if path != 'thr' else 'slice')
    rtxt = ','.join("%d:%d" % ab for ab in rows) or '_'
    if path == 'thr':
        # exercise the threshold switch itself: a threshold near the total number of pixels addressed
        total = sum(b - a for a, b in rows)
        ptxt = 'thr=%d' % max(0, total + rng.choice([-1, 0, 0, 1]))
    else:
        ptxt = 'path=%s' % path
    if rng.random() < 0.2:
        # (a None-clear is a `replace`: the library checks the raw rows for uniqueness up front, so a row given
        #  twice is refused even when it is EMPTY — the model drops empty rows first.  Documented asymmetry on
        #  input outside the property's quantifier: rows are made unique here)
        urows = list(dict.fromkeys(rows))
        rtxt = ','.join("%d:%d" % ab for ab in urows) or '_'
        return "updr %s op=replace none=1 ranges=%s %s" % (c.name, rtxt, ptxt)
    return "updr %s op=%s ranges=%s val=%s %s" % (c.name, op, rtxt, c.val(rng), ptxt)


def scalar_op_line(rng, c, inplace=None, r='t1'):
    """map op scalar (copying or in place)."""
    if inplace is None:
        inplace = rng.random() < 0.5
    tail = " inplace=1" if inplace else " r=%s" % r
    if c.kind == 'wide':
        op = rng.choice(['and', 'or', 'xor'])
        nb = rng.randint(1, 3)
        bits = [rng.choice([0, 7, 8, 15, 16, c.nbytes * 8 - 1, rng.randrange(c.nbytes * 8)]) % (c.nbytes * 8)
                for _ in range(nb)]
        return "sop %s op=%s bits=%s%s" % (c.name, op, ','.join(map(str, bits)), tail)
    if c.is_int:
        op = rng.choice(['add', 'sub', 'mul', 'and', 'or', 'xor', 'pow'])
        if op == 'pow':
            k = rng.choice([0, 1, 2, 3])
        elif c.dtype.startswith('u'):
            k = rng.choice([0, 1, 2, 3, 5, 12])
        else:
            k = rng.choice([0, 1, -1, 2, 3, -5, 12])
        return "sop %s op=%s k=%d ktype=int%s" % (c.name, op, k, tail)
    if c.is_flt and c.sentinel in ('0', '1^1', '-9999') and rng.random() < 0.5:
        # aim at the sentinel: some valid pixels become invalid through arithmetic
        if c.sentinel == '0' and rng.random() < 0.3:
            return "sop %s op=mul k=0 ktype=%s%s" % (c.name, rng.choice(['flt', 'int']), tail)
        v = rng.randint(-3, 3)
        two_s = {'0': 0, '1^1': 1, '-9999': -19998}[c.sentinel]      # 2 * sentinel
        n2 = two_s - 2 * v                                            # 2 * (sentinel - v)
        k = str(n2 // 2) if n2 % 2 == 0 else "%d^1" % n2
        return "sop %s op=add k=%s ktype=flt%s" % (c.name, k, tail)
    if c.is_flt:
        op = rng.choice(['add', 'sub', 'mul', 'div', 'pow'])
        if op == 'div':
            # (divisors that are not powers of two give quotients the exact model declines; the harness then checks
            #  the library's result against the correctly rounded quotient itself)
            k = rng.choice(['1', '-1', '2', '4', '-2', '1^1', '1^2', '3', '10', '49', '-7', '3', '5^3'])
        elif op == 'pow':
            k = rng.choice(['0', '1', '2', '3'])
        else:
            k = dy(rng, -12, 12)
        kt = rng.choice(['flt', 'flt', 'int']) if '^' not in k else 'flt'
        if op in ('add', 'sub', 'mul', 'div') and rng.random() < (0.5 if c.dtype == 'f4' else 0.15):
            # a numpy float64 scalar that float32 cannot hold, on any float map: numpy computes in float64 and casts
            # the result (the exact model declines; the harness checks the rounding itself)
            k = rng.choice(['53687091^29', '-28633115^26', '11184811^25', '3602879701896397^55'])
            return "sop %s op=%s k=%s ktype=flt npk=f8%s" % (c.name, op, k, tail)
        return "sop %s op=%s k=%s ktype=%s%s" % (c.name, op, k, kt, tail)
    # illegal on this kind (must be rejected)
    return "sop %s op=add k=1 ktype=int%s" % (c.name, tail)


def geom_line(rng, c, mode=None, r='g1'):
    """a geometric shape combined with / rendered like map `c` (positions incl. poles, lon 0, tiny and large shapes)"""
    import numpy as np
    import hpgeom as hpg
    nside = 2 ** c.spord
    res = hpg.nside_to_resolution(nside)
    lon = rng.choice([rng.uniform(0, 360), 0.0, 359.9, 45.0])
    lat = rng.choice([float(np.degrees(np.arcsin(rng.uniform(-1, 1)))), 89.0, -89.5, 0.0])
    shape = rng.choice(['circle', 'circle', 'ellipse', 'box', 'polygon'])
    size = rng.choice([0.3, 1.0, 2.5, 5.0]) * res
    if shape == 'circle':
        par = [lon, lat, size]
    elif shape == 'ellipse':
        par = [lon, lat, size * 1.5, size * 0.7, rng.uniform(0, 180)]
    elif shape == 'box':
        size = min(size, 20.0)
        lat = max(-60.0, min(60.0, lat))
        par = [lon, (lon + 3 * size) % 360.0, lat - size, lat + size]
    else:
        size = min(size, 10.0)
        lat = max(-60.0, min(60.0, lat))
        par = [lon, lat, (lon + 2 * size) % 360.0, lat, (lon + size) % 360.0, lat + 2 * size]
    mode = mode or rng.choice(['ior', 'ior', 'or', 'realize', 'getmap', 'getmaplike'])
    if c.kind == 'wide':
        W = c.nbytes * 8
        bits = [rng.choice([0, 7, 8, 15, 16, W - 1, rng.randrange(W)]) % W for _ in range(rng.randint(1, 3))]
        if mode == 'getmap':
            bits = [rng.choice([0, 7, 8, 15, 16, 23, 24]) for _ in range(rng.randint(1, 3))]
        vtxt = 'bits=%s' % ','.join(map(str, bits))
        op = rng.choice(['or', 'or', 'and'])
    elif c.is_bool:
        vtxt = 'value=T'
        op = rng.choice(['or', 'and'])
    elif c.is_int:
        vtxt = 'value=%s vtype=int' % c.scalar_tok(rng)
        op = rng.choice(['or', 'and', 'add'] if c.zero_sentinel() else ['add'])
    elif c.is_flt:
        vtxt = 'value=%s vtype=flt' % dy(rng)
        op = 'add'
    else:
        vtxt = 'value=1 vtype=int'
        op = 'or'
    ln = 'geom %s shape=%s params=%s %s op=%s mode=%s' % (c.name, shape, ':'.join(repr(float(x)) for x in par), vtxt,
                                                        op, mode)
    if mode in ('or', 'getmap', 'getmaplike'):
        ln += ' r=%s' % r
    if rng.random() < 0.25 and c.spord >= 1:
        ln += ' render=%d' % rng.randint(max(0, c.spord - 2), c.spord)
    return ln


def file_variants(rng, h, p=0.3):
    """Glue around the file formats: the same history with some files turned into legal FOREIGN / LEGACY
    variants and some reads made through other entry points.  The model ignores the extra tokens (the
    meaning of the file is the same); the real side (real.py) applies a variant only where it is legal:
      write     variant=nosentinel  SENTINEL keyword removed (float map with the default sentinel: old files)
      hpxwrite  variant=ring        explicit HEALPix file re-written with RING-ordered PIXEL column
                variant=nobad       BAD_DATA keyword removed (float map with the default sentinel)
      moc       variant=mocvers     PIXTYPE removed: a MOC recognised by its MOCVERS keyword only
      read / hpxread / mocread / dor   header=1: read(..., header=True)
    """
    out = []
    for ln in h:
        op = ln.split(' ', 1)[0]
        if rng.random() < p:
            if op == 'write':
                ln += ' variant=nosentinel'
            elif op == 'hpxwrite':
                ln += ' variant=' + rng.choice(['ring', 'nobad', 'ring+nobad'])
            elif op == 'moc':
                ln += ' variant=mocvers'
            elif op in ('read', 'hpxread', 'mocread', 'dor'):
                ln += ' header=1'
        if op in ('read', 'dor') and ' pixels=' in ln and ' idtype=' not in ln and rng.random() < 0.5:
            # the request as a numpy array of a NARROW integer dtype (coverage pixel numbers fit it; anything the
            # library derives from them — offsets, shifted pixel numbers — must not be computed in that dtype:
            # seeded change C19g)
            mx = max(int(x) for x in ln.split(' pixels=')[1].split()[0].split(','))
            fits = [d for d, top in (('u1', 255), ('i1', 127), ('i2', 32767), ('u2', 65535), ('i4', 2 ** 31 - 1),
                                     ('u4', 2 ** 32 - 1), ('i8', 2 ** 63 - 1)) if mx <= top]
            ln += ' idtype=' + rng.choice(fits)
        out.append(ln)
    return out
