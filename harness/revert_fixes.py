"""Self-test of the corpus: revert each recorded `fix:` commit of /repo in a scratch worktree and run the owning
check (quick tier, no Lean) against it — the defect must be reported again.
   /venv/bin/python harness/revert_fixes.py  > .work/revert_fixes.log"""
import json
import os
import re
import subprocess
import sys

VERIF = os.path.dirname(os.path.dirname(os.path.abspath(__file__)))
k = json.load(open(os.path.join(VERIF, 'known_findings.json')))
rows = []
for e in k:
    if e.get('status') != 'fixed':
        continue
    m = re.search(r'property=(C\d\d) ([0-9a-f]{7})', e['what'])
    if not m:
        continue
    rows.append((e['id'], m.group(1), m.group(2)))
seen = set()
for fid, pid, h in rows:
    if (pid, h) in seen:
        continue
    seen.add((pid, h))
    wt = '/tmp/mut/revert_%s' % fid
    subprocess.run(['git', '-C', '/repo', 'worktree', 'remove', '--force', wt], stdout=subprocess.DEVNULL, stderr=subprocess.DEVNULL)
    subprocess.run(['git', '-C', '/repo', 'worktree', 'add', '-q', wt, 'HEAD'], check=True)
    r = subprocess.run(['git', '-C', wt, 'revert', '--no-commit', h], stdout=subprocess.PIPE, stderr=subprocess.STDOUT)
    if r.returncode != 0:
        print(fid, pid, h, 'revert-conflict', flush=True)
    else:
        env = dict(os.environ, HS_REPO=wt, VERIF_SEED='0')
        c = subprocess.run([os.path.join(VERIF, 'check'), pid, '--no-lean'], env=env, cwd=wt, stdout=subprocess.PIPE, stderr=subprocess.STDOUT)
        v = [l for l in c.stdout.decode().split('\n') if l.startswith('VIOLATION')]
        print(fid, pid, h, 'CAUGHT' if c.returncode == 1 and v else 'MISSED exit=%d' % c.returncode, len(v), flush=True)
    subprocess.run(['git', '-C', '/repo', 'worktree', 'remove', '--force', wt], stdout=subprocess.DEVNULL, stderr=subprocess.DEVNULL)
