/-
  Helper lemmas on coverage-index construction (`initializePixels`, `appendPixels`,
  `makeEmpty`, `reserve`) and on the update path (`updateCore`): layout preservation and
  refinement of the dense view.  The property theorems in HealSparse/Props are thin wrappers.
-/
import HealSparse.Lemmas.Core
namespace HS
variable {V : Type}

/-! ### Generic folds of point updates over a keyed list -/

section folds
variable {α β : Type}

theorem foldl_set_size (f : Nat × β → α) (l : List (Nat × β)) (a : Array α) :
    (l.foldl (fun a kv => a.setIfInBounds kv.1 (f kv)) a).size = a.size := by
  induction l generalizing a with
  | nil => rfl
  | cons x xs ih => simp [List.foldl_cons, ih]

theorem foldl_set_of_not_mem (f : Nat × β → α) (l : List (Nat × β)) (a : Array α) (k : Nat)
    (hk : ∀ kv ∈ l, kv.1 ≠ k) :
    (l.foldl (fun a kv => a.setIfInBounds kv.1 (f kv)) a)[k]? = a[k]? := by
  induction l generalizing a with
  | nil => rfl
  | cons x xs ih =>
    rw [List.foldl_cons, ih _ (fun kv h => hk kv (List.mem_cons_of_mem _ h))]
    exact Array.getElem?_setIfInBounds_ne (hk x List.mem_cons_self)

theorem foldl_set_of_mem (f : Nat × β → α) (l : List (Nat × β)) (a : Array α)
    (hnd : (l.map (·.1)).Nodup) (kv : Nat × β) (hkv : kv ∈ l) (hlt : kv.1 < a.size) :
    (l.foldl (fun a kv => a.setIfInBounds kv.1 (f kv)) a)[kv.1]? = some (f kv) := by
  induction l generalizing a with
  | nil => cases hkv
  | cons x xs ih =>
    rw [List.map_cons, List.nodup_cons] at hnd
    rw [List.foldl_cons]
    rcases List.mem_cons.1 hkv with rfl | hmem
    · rw [foldl_set_of_not_mem]
      · exact Array.getElem?_setIfInBounds_self_of_lt hlt
      · intro kv' h' he
        exact hnd.1 (he ▸ List.mem_map_of_mem h')
    · exact ih _ hnd.2 hmem (by simpa using hlt)

theorem foldl_modify_size (f : Nat × β → α → α) (l : List (Nat × β)) (a : Array α) :
    (l.foldl (fun a kv => a.modify kv.1 (f kv)) a).size = a.size := by
  induction l generalizing a with
  | nil => rfl
  | cons x xs ih => simp [List.foldl_cons, ih]

theorem foldl_modify_of_not_mem (f : Nat × β → α → α) (l : List (Nat × β)) (a : Array α) (k : Nat)
    (hk : ∀ kv ∈ l, kv.1 ≠ k) :
    (l.foldl (fun a kv => a.modify kv.1 (f kv)) a)[k]? = a[k]? := by
  induction l generalizing a with
  | nil => rfl
  | cons x xs ih =>
    rw [List.foldl_cons, ih _ (fun kv h => hk kv (List.mem_cons_of_mem _ h))]
    rw [Array.getElem?_modify, if_neg (hk x List.mem_cons_self)]

theorem foldl_modify_of_mem (f : Nat × β → α → α) (l : List (Nat × β)) (a : Array α)
    (hnd : (l.map (·.1)).Nodup) (kv : Nat × β) (hkv : kv ∈ l) :
    (l.foldl (fun a kv => a.modify kv.1 (f kv)) a)[kv.1]? = (a[kv.1]?).map (f kv) := by
  induction l generalizing a with
  | nil => cases hkv
  | cons x xs ih =>
    rw [List.map_cons, List.nodup_cons] at hnd
    rw [List.foldl_cons]
    rcases List.mem_cons.1 hkv with rfl | hmem
    · rw [foldl_modify_of_not_mem]
      · rw [Array.getElem?_modify, if_pos rfl]
      · intro kv' h' he
        exact hnd.1 (he ▸ List.mem_map_of_mem h')
    · rw [ih _ hnd.2 hmem, Array.getElem?_modify, if_neg]
      intro he
      exact hnd.1 (he ▸ List.mem_map_of_mem hmem)

end folds

/-! ### scatter framing -/

theorem scatter_getElem?_of_ne {W} (g : V → W → V) (a : Array V) (upd : List (Nat × W)) (j : Nat)
    (hj : ∀ iw ∈ upd, iw.1 ≠ j) : (scatter g a upd)[j]? = a[j]? :=
  foldl_modify_of_not_mem (fun iw x => g x iw.2) upd a j hj

/-! ### dense folds and filters -/

theorem denseFold_filter_all {W} (g : V → W → V) (L : List (Nat × W)) (P : Nat × W → Bool)
    (p : Nat) (x : V) (h : ∀ qw ∈ L, qw.1 = p → P qw = true) :
    denseFold g (L.filter P) p x = denseFold g L p x := by
  unfold denseFold
  induction L generalizing x with
  | nil => rfl
  | cons y ys ih =>
    have ih' := fun x => ih x (fun qw hq => h qw (List.mem_cons_of_mem _ hq))
    by_cases hy : y.1 = p
    · rw [List.filter_cons_of_pos (h y List.mem_cons_self hy)]
      simp only [List.foldl_cons]; exact ih' _
    · cases hP : P y with
      | true => rw [List.filter_cons_of_pos hP]; simp only [List.foldl_cons]; exact ih' _
      | false =>
        rw [List.filter_cons_of_neg (by simp [hP])]
        simp only [List.foldl_cons, if_neg hy]; exact ih' _

theorem denseFold_none {W} (g : V → W → V) (L : List (Nat × W))
    (p : Nat) (x : V) (h : ∀ qw ∈ L, qw.1 ≠ p) : denseFold g L p x = x := by
  unfold denseFold
  induction L generalizing x with
  | nil => rfl
  | cons y ys ih =>
    simp only [List.foldl_cons, if_neg (h y List.mem_cons_self)]
    exact ih x (fun qw hq => h qw (List.mem_cons_of_mem _ hq))

/-- read-back of a scatter whose indices are an injective-at-`p` image of pixel numbers -/
theorem scatter_rd_map {W} (g : V → W → V) (a : Array V) (M : List (Nat × W)) (f : Nat → Nat)
    (p : Nat) (d : V) (hj : f p < a.size) (hinj : ∀ qw ∈ M, f qw.1 = f p → qw.1 = p) :
    rd (scatter g a (M.map fun pw => (f pw.1, pw.2))) (f p) d = denseFold g M p (rd a (f p) d) := by
  rw [scatter_rd _ _ _ _ _ hj]
  unfold denseFold
  generalize rd a (f p) d = x
  induction M generalizing x with
  | nil => rfl
  | cons y ys ih =>
    simp only [List.map_cons, List.foldl_cons]
    have : (f y.1 = f p) ↔ (y.1 = p) := ⟨hinj y List.mem_cons_self, fun h => by rw [h]⟩
    simp only [this]
    exact ih (fun qw hq => hinj qw (List.mem_cons_of_mem _ hq)) _


/-! ### Coverage-index construction -/

theorem mem_zipIdx_ne {l : List Nat} {k : Nat} (hk : k ∉ l) :
    ∀ kv ∈ l.zipIdx, kv.1 ≠ k := by
  intro kv h he
  exact hk (he ▸ List.fst_mem_of_mem_zipIdx h)

theorem appendPixels_size (c : Cfg) (cov : Array Int) (size : Nat) (new : List Nat) :
    (appendPixels c cov size new).size = cov.size :=
  foldl_set_size _ _ _

theorem appendPixels_not_mem (c : Cfg) (cov : Array Int) (size : Nat) (new : List Nat) (k : Nat)
    (hk : k ∉ new) : (appendPixels c cov size new)[k]? = cov[k]? :=
  foldl_set_of_not_mem _ _ _ _ (mem_zipIdx_ne hk)

theorem appendPixels_mem (c : Cfg) (cov : Array Int) (size : Nat) (new : List Nat) (k t : Nat)
    (hnd : new.Nodup) (ht : new[t]? = some k) (hk : k < cov.size) :
    (appendPixels c cov size new)[k]? =
      some (((t * c.nfine + size : Nat) : Int) - ((k * c.nfine : Nat) : Int)) := by
  have hm : (k, t) ∈ new.zipIdx := List.mk_mem_zipIdx_iff_getElem?.2 ht
  exact foldl_set_of_mem
    (fun ki : Nat × Nat => ((ki.2 * c.nfine + size : Nat) : Int) - ((ki.1 * c.nfine : Nat) : Int))
    new.zipIdx cov (by rw [List.zipIdx_map_fst]; exact hnd) (k, t) hm hk

theorem initializePixels_size (c : Cfg) (cov : Array Int) (P : List Nat) :
    (initializePixels c cov P).size = cov.size :=
  foldl_modify_size (fun (ki : Nat × Nat) (x : Int) => x + (((ki.2 + 1) * c.nfine : Nat) : Int)) _ _

theorem initializePixels_not_mem (c : Cfg) (cov : Array Int) (P : List Nat) (k : Nat)
    (hk : k ∉ P) : (initializePixels c cov P)[k]? = cov[k]? :=
  foldl_modify_of_not_mem (fun (ki : Nat × Nat) (x : Int) => x + (((ki.2 + 1) * c.nfine : Nat) : Int))
    _ _ _ (mem_zipIdx_ne hk)

theorem initializePixels_mem (c : Cfg) (cov : Array Int) (P : List Nat) (k t : Nat)
    (hnd : P.Nodup) (ht : P[t]? = some k) :
    (initializePixels c cov P)[k]? = (cov[k]?).map (· + (((t + 1) * c.nfine : Nat) : Int)) := by
  have hm : (k, t) ∈ P.zipIdx := List.mk_mem_zipIdx_iff_getElem?.2 ht
  exact foldl_modify_of_mem
    (fun (ki : Nat × Nat) (x : Int) => x + (((ki.2 + 1) * c.nfine : Nat) : Int))
    P.zipIdx cov (by rw [List.zipIdx_map_fst]; exact hnd) (k, t) hm

theorem emptyCov_size (c : Cfg) : (emptyCov c).size = c.ncov := by simp [emptyCov]

theorem emptyCov_getElem? (c : Cfg) (k : Nat) (hk : k < c.ncov) :
    (emptyCov c)[k]? = some (-(((k * c.nfine : Nat) : Int))) := by
  simp [emptyCov, hk]

/-! ### block starts of `makeEmpty` and `reserve` -/

theorem makeEmpty_blockStart_not_mem (c : Cfg) (vc : VCfg V) (P : List Nat) (k : Nat)
    (hk : k < c.ncov) (hP : k ∉ P) : blockStart c (makeEmpty c vc P) k = 0 := by
  unfold blockStart makeEmpty rd
  simp only
  rw [initializePixels_not_mem c _ _ _ hP, emptyCov_getElem? c k hk]
  simp only [Option.getD_some]
  omega

theorem makeEmpty_blockStart_mem (c : Cfg) (vc : VCfg V) (P : List Nat) (k t : Nat)
    (hk : k < c.ncov) (hnd : P.Nodup) (ht : P[t]? = some k) :
    blockStart c (makeEmpty c vc P) k = (((t + 1) * c.nfine : Nat) : Int) := by
  unfold blockStart makeEmpty rd
  simp only
  rw [initializePixels_mem c _ _ _ _ hnd ht, emptyCov_getElem? c k hk]
  simp only [Option.map_some, Option.getD_some]
  omega

theorem reserve_blockStart_not_mem (c : Cfg) (vc : VCfg V) (s : State V) (new : List Nat) (k : Nat)
    (hk : k ∉ new) : blockStart c (reserve c vc s new) k = blockStart c s k := by
  unfold blockStart reserve rd
  simp only
  rw [appendPixels_not_mem c _ _ _ _ hk]

theorem reserve_blockStart_mem (c : Cfg) (vc : VCfg V) (s : State V) (new : List Nat) (k t : Nat)
    (hk : k < s.cov.size) (hnd : new.Nodup) (ht : new[t]? = some k) :
    blockStart c (reserve c vc s new) k = ((s.sp.size + t * c.nfine : Nat) : Int) := by
  unfold blockStart reserve rd
  simp only
  rw [appendPixels_mem c _ _ _ _ _ hnd ht hk]
  simp only [Option.getD_some]
  omega

/-! ### Layout invariant: `makeEmpty` and `reserve` -/

theorem nblk_of_size {c : Cfg} {s : State V} {m : Nat} (h : s.sp.size = (m + 1) * c.nfine) :
    nblk c s = m := by
  unfold nblk; rw [h, Nat.mul_div_cancel _ c.nfine_pos]; rfl

theorem succ_mul_cast_inj {n t t' : Nat} (hn : 0 < n)
    (h : (((t + 1) * n : Nat) : Int) = (((t' + 1) * n : Nat) : Int)) : t = t' := by
  have h' : (t + 1) * n = (t' + 1) * n := by exact_mod_cast h
  have := Nat.eq_of_mul_eq_mul_right hn h'
  omega

theorem le_succ_mul (n t : Nat) : n ≤ (t + 1) * n := by
  rw [Nat.succ_mul]; omega

section inv
variable [DecidableEq V]

theorem inv_makeEmpty' (c : Cfg) (vc : VCfg V) (P : List Nat)
    (hnd : P.Nodup) (hlt : ∀ k ∈ P, k < c.ncov) : Inv c vc (makeEmpty c vc P) := by
  have hn := c.nfine_pos
  have hsz : (makeEmpty c vc P).sp.size = (P.length + 1) * c.nfine := by simp [makeEmpty]
  have hnb : nblk c (makeEmpty c vc P) = P.length := nblk_of_size hsz
  have hbs : ∀ k, k < c.ncov → blockStart c (makeEmpty c vc P) k = 0 ∨
      ∃ t, t < P.length ∧ P[t]? = some k ∧
        blockStart c (makeEmpty c vc P) k = (((t + 1) * c.nfine : Nat) : Int) := by
    intro k hk
    by_cases hm : k ∈ P
    · obtain ⟨t, ht⟩ := List.getElem?_of_mem hm
      exact Or.inr ⟨t, (List.getElem?_eq_some_iff.1 ht).1, ht,
        makeEmpty_blockStart_mem c vc P k t hk hnd ht⟩
    · exact Or.inl (makeEmpty_blockStart_not_mem c vc P k hk hm)
  refine ⟨?_, ?_, ?_, ?_, ?_, ?_⟩
  · simp [makeEmpty, initializePixels_size, emptyCov_size]
  · rw [hnb]; exact hsz
  · intro i hi
    have : i < (P.length + 1) * c.nfine := Nat.lt_of_lt_of_le hi (le_succ_mul _ _)
    simp [makeEmpty, this]
  · intro k hk
    rcases hbs k hk with h0 | ⟨t, htl, _, hb⟩
    · exact Or.inl h0
    · right
      rw [hb, hsz]
      refine ⟨?_, ?_, ?_⟩
      · exact_mod_cast le_succ_mul _ _
      · rw [Int.natCast_mul]; exact Int.mul_emod_left _ _
      · have : (t + 1) * c.nfine < (P.length + 1) * c.nfine :=
          Nat.mul_lt_mul_of_pos_right (by omega) hn
        exact_mod_cast this
  · intro k hk k' hk' hle he
    rcases hbs k hk with h0 | ⟨t, _, ht, hb⟩
    · omega
    · rcases hbs k' hk' with h0' | ⟨t', _, ht', hb'⟩
      · omega
      · have : t = t' := succ_mul_cast_inj hn (by rw [← hb, ← hb', he])
        subst this
        rw [ht] at ht'
        exact Option.some.inj ht'
  · intro b hb
    rw [hnb] at hb
    have hk : P[b] ∈ P := List.getElem_mem hb
    have hb' : P[b]? = some P[b] := List.getElem?_eq_getElem hb
    exact ⟨P[b], hlt _ hk, makeEmpty_blockStart_mem c vc P _ b (hlt _ hk) hnd hb'⟩

theorem reserve_size (c : Cfg) (vc : VCfg V) (s : State V) (new : List Nat)
    (h : Inv c vc s) :
    (reserve c vc s new).sp.size = (nblk c s + new.length + 1) * c.nfine := by
  have hsz := h.size_eq
  simp only [reserve, Array.size_append, Array.size_replicate]
  rw [hsz, ← Nat.add_mul]
  congr 1; omega

/-- block starts after `reserve`: old pixels keep theirs, the `t`-th new pixel gets block
    `nblk + t + 1`. -/
theorem reserve_blockStart (c : Cfg) (vc : VCfg V) (s : State V) (new : List Nat)
    (h : Inv c vc s) (hnd : new.Nodup) (k : Nat) (hk : k < c.ncov) :
    (k ∉ new ∧ blockStart c (reserve c vc s new) k = blockStart c s k) ∨
    ∃ t, t < new.length ∧ new[t]? = some k ∧
      blockStart c (reserve c vc s new) k = (((nblk c s + t + 1) * c.nfine : Nat) : Int) := by
  by_cases hm : k ∈ new
  · obtain ⟨t, ht⟩ := List.getElem?_of_mem hm
    refine Or.inr ⟨t, (List.getElem?_eq_some_iff.1 ht).1, ht, ?_⟩
    rw [reserve_blockStart_mem c vc s new k t (by rw [h.1]; exact hk) hnd ht, h.size_eq,
      ← Nat.add_mul]
    congr 2; omega
  · exact Or.inl ⟨hm, reserve_blockStart_not_mem c vc s new k hm⟩

theorem inv_reserve' (c : Cfg) (vc : VCfg V) (s : State V) (new : List Nat)
    (h : Inv c vc s) (hnd : new.Nodup)
    (hnew : ∀ k ∈ new, k < c.ncov ∧ covered c s k = false) :
    Inv c vc (reserve c vc s new) := by
  have hn := c.nfine_pos
  have hsz' := reserve_size c vc s new h
  have hnb : nblk c (reserve c vc s new) = nblk c s + new.length := nblk_of_size hsz'
  have hbs := reserve_blockStart c vc s new h hnd
  -- old covered pixels are not in `new`
  have hold : ∀ k, k < c.ncov → k ∉ new → blockStart c s k = 0 ∨
      ∃ b, b < nblk c s ∧ blockStart c s k = (((b + 1) * c.nfine : Nat) : Int) := by
    intro k hk _
    cases hc : covered c s k with
    | false => exact Or.inl (h.uncovered_bs hk hc)
    | true => exact Or.inr (h.covered_blk hk hc)
  refine ⟨?_, ?_, ?_, ?_, ?_, ?_⟩
  · simp only [reserve, appendPixels_size]; exact h.1
  · rw [hnb]; exact hsz'
  · intro i hi
    have : i < s.sp.size := Nat.lt_of_lt_of_le hi h.nfine_le_size
    simp only [reserve]
    rw [Array.getElem?_append_left this]
    exact h.2.2.1 i hi
  · intro k hk
    rw [hsz']
    rcases hbs k hk with ⟨hm, hb⟩ | ⟨t, htl, _, hb⟩
    · rw [hb]
      rcases hold k hk hm with h0 | ⟨b, hbl, hb0⟩
      · exact Or.inl h0
      · right
        rw [hb0]
        refine ⟨?_, ?_, ?_⟩
        · exact_mod_cast le_succ_mul _ _
        · rw [Int.natCast_mul]; exact Int.mul_emod_left _ _
        · have : (b + 1) * c.nfine < (nblk c s + new.length + 1) * c.nfine :=
            Nat.mul_lt_mul_of_pos_right (by omega) hn
          exact_mod_cast this
    · right
      rw [hb]
      refine ⟨?_, ?_, ?_⟩
      · exact_mod_cast le_succ_mul _ _
      · rw [Int.natCast_mul]; exact Int.mul_emod_left _ _
      · have : (nblk c s + t + 1) * c.nfine < (nblk c s + new.length + 1) * c.nfine :=
          Nat.mul_lt_mul_of_pos_right (by omega) hn
        exact_mod_cast this
  · intro k hk k' hk' hle he
    rcases hbs k hk with ⟨hm, hb⟩ | ⟨t, _, ht, hb⟩
    · rcases hold k hk hm with h0 | ⟨b, hbl, hb0⟩
      · omega
      · rcases hbs k' hk' with ⟨hm', hb'⟩ | ⟨t', _, ht', hb'⟩
        · rw [hb, hb'] at he
          rw [hb] at hle
          exact h.2.2.2.2.1 k hk k' hk' hle he
        · have : b = nblk c s + t' := succ_mul_cast_inj hn (by rw [← hb0, ← hb, he, hb'])
          omega
    · rcases hbs k' hk' with ⟨hm', hb'⟩ | ⟨t', _, ht', hb'⟩
      · rcases hold k' hk' hm' with h0 | ⟨b, hbl, hb0⟩
        · omega
        · have : b = nblk c s + t := succ_mul_cast_inj hn (by rw [← hb0, ← hb', ← he, hb])
          omega
      · have : nblk c s + t = nblk c s + t' := succ_mul_cast_inj hn (by rw [← hb, ← hb', he])
        have : t = t' := by omega
        subst this
        rw [ht] at ht'
        exact Option.some.inj ht'
  · intro b hb
    rw [hnb] at hb
    by_cases hbl : b < nblk c s
    · obtain ⟨k, hk, hkb⟩ := h.2.2.2.2.2 b hbl
      refine ⟨k, hk, ?_⟩
      have hm : k ∉ new := by
        intro hm
        have := (covered_eq_false_iff c s k).1 (hnew k hm).2
        have h2 : ((c.nfine : Nat) : Int) ≤ (((b + 1) * c.nfine : Nat) : Int) := by
          exact_mod_cast le_succ_mul _ _
        omega
      rw [reserve_blockStart_not_mem c vc s new k hm, hkb]
    · have ht : b - nblk c s < new.length := by omega
      have hk : new[b - nblk c s] ∈ new := List.getElem_mem ht
      have ht' : new[b - nblk c s]? = some new[b - nblk c s] := List.getElem?_eq_getElem ht
      refine ⟨_, (hnew _ hk).1, ?_⟩
      rcases hbs _ (hnew _ hk).1 with ⟨hm, _⟩ | ⟨t, _, ht2, hb2⟩
      · exact absurd hk hm
      · have : t = b - nblk c s := by
          obtain ⟨h1l, _⟩ := List.getElem?_eq_some_iff.1 ht2
          exact (List.getElem?_inj h1l hnd).1 (ht2.trans ht'.symm)
        rw [hb2, this]
        congr 2; omega
end inv

/-! ### `reserve`: dense view and coverage -/

section reserve
variable [DecidableEq V]

theorem reserve_covered' (c : Cfg) (vc : VCfg V) (s : State V) (new : List Nat)
    (h : Inv c vc s) (hnd : new.Nodup) (k : Nat) (hk : k < c.ncov) :
    covered c (reserve c vc s new) k = (covered c s k || decide (k ∈ new)) := by
  rcases reserve_blockStart c vc s new h hnd k hk with ⟨hm, hb⟩ | ⟨t, _, ht, hb⟩
  · simp [covered, hb, hm]
  · have hm : k ∈ new := List.mem_of_getElem? ht
    have : covered c (reserve c vc s new) k = true := by
      rw [covered_eq_true_iff, hb]
      exact_mod_cast le_succ_mul _ _
    simp [this, hm]

theorem Inv.sp_zero (c : Cfg) (vc : VCfg V) (s : State V) (h : Inv c vc s) :
    rd s.sp 0 vc.sentinel = vc.sentinel := by
  unfold rd; rw [h.2.2.1 0 c.nfine_pos]; rfl

theorem Inv.idxOf_lt_size {c : Cfg} {vc : VCfg V} {s : State V} (h : Inv c vc s) {p : Nat}
    (hp : p < c.npix) : idxOf c s p < s.sp.size := by
  cases hc : covered c s (p >>> c.shift) with
  | true => exact (h.idxOf_covered hp hc).2.1
  | false => exact Nat.lt_of_lt_of_le (h.idxOf_uncovered hp hc).2 h.nfine_le_size

theorem reserve_abs' (c : Cfg) (vc : VCfg V) (s : State V) (new : List Nat)
    (h : Inv c vc s) (hnd : new.Nodup)
    (hnew : ∀ k ∈ new, k < c.ncov ∧ covered c s k = false) (p : Nat) (hp : p < c.npix) :
    abs c vc (reserve c vc s new) p = abs c vc s p := by
  have hk := covpix_lt c p hp
  rcases reserve_blockStart c vc s new h hnd _ hk with ⟨hm, hb⟩ | ⟨t, htl, ht, hb⟩
  · have hl : lookup c (reserve c vc s new) p = lookup c s p := by
      rw [lookup_eq, lookup_eq, hb]
    unfold abs
    rw [hl]
    have : (lookup c s p).toNat < s.sp.size := h.idxOf_lt_size hp
    unfold rd
    simp only [reserve]
    rw [Array.getElem?_append_left this]
  · have hm : p >>> c.shift ∈ new := List.mem_of_getElem? ht
    rw [h.abs_uncovered hp (hnew _ hm).2]
    have hl : lookup c (reserve c vc s new) p =
        (((nblk c s + t + 1) * c.nfine + p % c.nfine : Nat) : Int) := by
      rw [lookup_eq, hb]; omega
    unfold abs
    rw [hl, Int.toNat_natCast]
    have hr := Nat.mod_lt p c.nfine_pos
    have h1 := (blk_cell_range (n := c.nfine) (b := nblk c s + t) (m := nblk c s + new.length)
      (r := p % c.nfine) (by omega) hr).2
    have h2 : (nblk c s + 1) * c.nfine ≤ (nblk c s + t + 1) * c.nfine :=
      Nat.mul_le_mul_right _ (by omega)
    have h3 : (nblk c s + new.length + 1) * c.nfine = s.sp.size + new.length * c.nfine := by
      rw [h.size_eq, ← Nat.add_mul]; congr 1; omega
    have hsz := h.size_eq
    have h4 : (nblk c s + t + 1) * c.nfine ≤ (nblk c s + t + 1) * c.nfine + p % c.nfine :=
      Nat.le_add_right _ _
    generalize (nblk c s + t + 1) * c.nfine + p % c.nfine = idx at *
    unfold rd
    simp only [reserve]
    rw [Array.getElem?_append_right (by omega), Array.getElem?_replicate, if_pos (by omega)]
    exact h.sp_zero
end reserve

/-! ### Scatter through the lookup of a state -/

/-- `s` with its storage scattered at the cells addressed by the pixels of `M`. -/
def withScatter {W} (c : Cfg) (s : State V) (g : V → W → V) (M : List (Nat × W)) : State V :=
  { s with sp := scatter g s.sp (M.map fun pw => (idxOf c s pw.1, pw.2)) }

theorem withScatter_size {W} (c : Cfg) (s : State V) (g : V → W → V) (M : List (Nat × W)) :
    (withScatter c s g M).sp.size = s.sp.size := scatter_size _ _ _

theorem withScatter_nblk {W} (c : Cfg) (s : State V) (g : V → W → V) (M : List (Nat × W)) :
    nblk c (withScatter c s g M) = nblk c s := by
  unfold nblk; rw [withScatter_size]

theorem withScatter_covered {W} (c : Cfg) (s : State V) (g : V → W → V) (M : List (Nat × W))
    (k : Nat) : covered c (withScatter c s g M) k = covered c s k := rfl

section
variable [DecidableEq V] {W : Type}

theorem inv_withScatter (c : Cfg) (vc : VCfg V) (s : State V) (g : V → W → V)
    (M : List (Nat × W)) (h : Inv c vc s)
    (hM : ∀ qw ∈ M, qw.1 < c.npix ∧ covered c s (qw.1 >>> c.shift) = true) :
    Inv c vc (withScatter c s g M) := by
  have hs := withScatter_size c s g M
  have hnb := withScatter_nblk c s g M
  obtain ⟨hcov, hsp, hovf, hblk, hinj, honto⟩ := h
  refine ⟨hcov, ?_, ?_, ?_, hinj, ?_⟩
  · rw [hs, hnb]; exact hsp
  · intro i hi
    rw [← hovf i hi]
    apply scatter_getElem?_of_ne
    intro iw hiw
    obtain ⟨qw, hq, rfl⟩ := List.mem_map.1 hiw
    have := (Inv.idxOf_covered ⟨hcov, hsp, hovf, hblk, hinj, honto⟩ (hM qw hq).1 (hM qw hq).2).1
    simp only
    omega
  · intro k hk
    rw [hs]; exact hblk k hk
  · rw [hnb]; exact honto

theorem abs_withScatter (c : Cfg) (vc : VCfg V) (s : State V) (g : V → W → V)
    (M : List (Nat × W)) (h : Inv c vc s)
    (hM : ∀ qw ∈ M, qw.1 < c.npix ∧ covered c s (qw.1 >>> c.shift) = true)
    (p : Nat) (hp : p < c.npix) :
    abs c vc (withScatter c s g M) p =
      if covered c s (p >>> c.shift) = true then denseFold g M p (abs c vc s p)
      else abs c vc s p := by
  show rd (scatter g s.sp (M.map fun pw => (idxOf c s pw.1, pw.2))) (idxOf c s p) vc.sentinel = _
  split
  · rename_i hc
    have hi := h.idxOf_covered hp hc
    refine scatter_rd_map g s.sp M (idxOf c s) p vc.sentinel hi.2.1 ?_
    intro qw hq he
    have hiq := h.idxOf_covered (hM qw hq).1 (hM qw hq).2
    exact h.lookup_inj (hM qw hq).1 hp (hM qw hq).2 (by rw [hiq.2.2, hi.2.2, he])
  · rename_i hc
    have hc' : covered c s (p >>> c.shift) = false := by simpa using hc
    have hi := h.idxOf_uncovered hp hc'
    show rd _ _ _ = rd s.sp (idxOf c s p) vc.sentinel
    unfold rd
    rw [scatter_getElem?_of_ne]
    intro iw hiw
    obtain ⟨qw, hq, rfl⟩ := List.mem_map.1 hiw
    have := (h.idxOf_covered (hM qw hq).1 (hM qw hq).2).1
    simp only
    omega
end

/-! ### `updateCore` in stages -/

def inL {W} (c : Cfg) (s : State V) (L : List (Nat × W)) : List (Nat × W) :=
  L.filter fun pw => covered c s (pw.1 >>> c.shift)

def outL {W} (c : Cfg) (s : State V) (L : List (Nat × W)) : List (Nat × W) :=
  L.filter fun pw => !covered c s (pw.1 >>> c.shift)

def stage1 {W} (c : Cfg) (s : State V) (g : V → W → V) (L : List (Nat × W)) : State V :=
  withScatter c s g (inL c s L)

def stage2 {W} (c : Cfg) (vc : VCfg V) (s : State V) (g : V → W → V) (L : List (Nat × W)) :
    State V :=
  reserve c vc (stage1 c s g L) (newCovPix c s ((outL c s L).map (·.1)))

theorem updateCore_eq {W} (c : Cfg) (vc : VCfg V) (s : State V) (g : V → W → V)
    (L : List (Nat × W)) (na : Bool) :
    updateCore c vc s g L na =
      if ((outL c s L).isEmpty || na) = true then stage1 c s g L
      else withScatter c (stage2 c vc s g L) g (outL c s L) := rfl

theorem mem_inL {W} (c : Cfg) (s : State V) (L : List (Nat × W)) (qw : Nat × W) :
    qw ∈ inL c s L ↔ qw ∈ L ∧ covered c s (qw.1 >>> c.shift) = true := by
  simp [inL]

theorem mem_outL {W} (c : Cfg) (s : State V) (L : List (Nat × W)) (qw : Nat × W) :
    qw ∈ outL c s L ↔ qw ∈ L ∧ covered c s (qw.1 >>> c.shift) = false := by
  simp [outL]

theorem mem_newCovPix (c : Cfg) (s : State V) (pix : List Nat) (k : Nat) :
    k ∈ newCovPix c s pix ↔
      k < c.ncov ∧ covered c s k = false ∧ ∃ p ∈ pix, p >>> c.shift = k := by
  simp [newCovPix, List.mem_range]

theorem nodup_newCovPix (c : Cfg) (s : State V) (pix : List Nat) : (newCovPix c s pix).Nodup :=
  List.filter_sublist.nodup List.nodup_range

/-! ### `updateCore`: layout, coverage and dense view -/

section update
variable [DecidableEq V] {W : Type}

theorem inv_stage1 (c : Cfg) (vc : VCfg V) (s : State V) (g : V → W → V) (L : List (Nat × W))
    (h : Inv c vc s) (hL : ∀ qw ∈ L, qw.1 < c.npix) : Inv c vc (stage1 c s g L) :=
  inv_withScatter c vc s g _ h fun qw hq =>
    ⟨hL qw ((mem_inL c s L qw).1 hq).1, ((mem_inL c s L qw).1 hq).2⟩

theorem abs_stage1 (c : Cfg) (vc : VCfg V) (s : State V) (g : V → W → V) (L : List (Nat × W))
    (h : Inv c vc s) (hL : ∀ qw ∈ L, qw.1 < c.npix) (p : Nat) (hp : p < c.npix) :
    abs c vc (stage1 c s g L) p =
      if covered c s (p >>> c.shift) = true then denseFold g L p (abs c vc s p)
      else abs c vc s p := by
  unfold stage1
  rw [abs_withScatter c vc s g _ h (fun qw hq =>
    ⟨hL qw ((mem_inL c s L qw).1 hq).1, ((mem_inL c s L qw).1 hq).2⟩) p hp]
  split
  · rename_i hc
    exact denseFold_filter_all g L _ p _ (fun qw _ he => by rw [he]; exact hc)
  · rfl

omit [DecidableEq V] in
theorem stage2_new (c : Cfg) (s : State V) (g : V → W → V) (L : List (Nat × W)) :
    ∀ k ∈ newCovPix c s ((outL c s L).map (·.1)),
      k < c.ncov ∧ covered c (stage1 c s g L) k = false := by
  intro k hk
  have := (mem_newCovPix c s _ k).1 hk
  exact ⟨this.1, this.2.1⟩

theorem inv_stage2 (c : Cfg) (vc : VCfg V) (s : State V) (g : V → W → V) (L : List (Nat × W))
    (h : Inv c vc s) (hL : ∀ qw ∈ L, qw.1 < c.npix) : Inv c vc (stage2 c vc s g L) :=
  inv_reserve' c vc _ _ (inv_stage1 c vc s g L h hL) (nodup_newCovPix c s _) (stage2_new c s g L)

theorem covered_stage2 (c : Cfg) (vc : VCfg V) (s : State V) (g : V → W → V) (L : List (Nat × W))
    (h : Inv c vc s) (hL : ∀ qw ∈ L, qw.1 < c.npix) (k : Nat) (hk : k < c.ncov) :
    covered c (stage2 c vc s g L) k =
      (covered c s k || L.any (fun qw => qw.1 >>> c.shift == k)) := by
  unfold stage2
  rw [reserve_covered' c vc _ _ (inv_stage1 c vc s g L h hL) (nodup_newCovPix c s _) k hk]
  show (covered c s k || _) = _
  cases hc : covered c s k with
  | true => rfl
  | false =>
    simp only [Bool.false_or]
    rw [Bool.eq_iff_iff]
    simp only [decide_eq_true_eq, mem_newCovPix, List.any_eq_true, beq_iff_eq]
    constructor
    · rintro ⟨_, _, q, hq, rfl⟩
      obtain ⟨qw, hqw, rfl⟩ := List.mem_map.1 hq
      exact ⟨qw, ((mem_outL c s L qw).1 hqw).1, rfl⟩
    · rintro ⟨qw, hqw, rfl⟩
      exact ⟨hk, hc, qw.1, List.mem_map.2 ⟨qw, (mem_outL c s L qw).2 ⟨hqw, hc⟩, rfl⟩, rfl⟩

theorem abs_stage2 (c : Cfg) (vc : VCfg V) (s : State V) (g : V → W → V) (L : List (Nat × W))
    (h : Inv c vc s) (hL : ∀ qw ∈ L, qw.1 < c.npix) (p : Nat) (hp : p < c.npix) :
    abs c vc (stage2 c vc s g L) p = abs c vc (stage1 c s g L) p :=
  reserve_abs' c vc _ _ (inv_stage1 c vc s g L h hL) (nodup_newCovPix c s _)
    (stage2_new c s g L) p hp

theorem outL_covered_stage2 (c : Cfg) (vc : VCfg V) (s : State V) (g : V → W → V)
    (L : List (Nat × W)) (h : Inv c vc s) (hL : ∀ qw ∈ L, qw.1 < c.npix) :
    ∀ qw ∈ outL c s L, qw.1 < c.npix ∧ covered c (stage2 c vc s g L) (qw.1 >>> c.shift) = true := by
  intro qw hq
  have hq' := (mem_outL c s L qw).1 hq
  have hlt := hL qw hq'.1
  refine ⟨hlt, ?_⟩
  rw [covered_stage2 c vc s g L h hL _ (covpix_lt c _ hlt)]
  have : L.any (fun qw' => qw'.1 >>> c.shift == qw.1 >>> c.shift) = true :=
    List.any_eq_true.2 ⟨qw, hq'.1, by simp⟩
  rw [this, Bool.or_true]

theorem inv_updateCore' (c : Cfg) (vc : VCfg V) (s : State V) (g : V → W → V)
    (L : List (Nat × W)) (na : Bool)
    (h : Inv c vc s) (hL : ∀ qw ∈ L, qw.1 < c.npix) :
    Inv c vc (updateCore c vc s g L na) := by
  rw [updateCore_eq]
  split
  · exact inv_stage1 c vc s g L h hL
  · exact inv_withScatter c vc _ g _ (inv_stage2 c vc s g L h hL)
      (outL_covered_stage2 c vc s g L h hL)

omit [DecidableEq V] in
theorem outL_eq_nil_iff (c : Cfg) (s : State V) (L : List (Nat × W)) :
    outL c s L = [] ↔ ∀ qw ∈ L, covered c s (qw.1 >>> c.shift) = true := by
  simp [outL, List.filter_eq_nil_iff]

theorem updateCore_covered' (c : Cfg) (vc : VCfg V) (s : State V) (g : V → W → V)
    (L : List (Nat × W)) (na : Bool)
    (h : Inv c vc s) (hL : ∀ qw ∈ L, qw.1 < c.npix) (k : Nat) (hk : k < c.ncov) :
    covered c (updateCore c vc s g L na) k = denseCov c (covered c s) L na k := by
  rw [updateCore_eq]
  unfold denseCov
  split
  · rename_i hcond
    show covered c s k = _
    cases na with
    | true => simp
    | false =>
      simp only [Bool.or_false, List.isEmpty_iff] at hcond
      have hall := (outL_eq_nil_iff c s L).1 hcond
      cases hc : covered c s k with
      | true => rfl
      | false =>
        simp only [Bool.not_false, Bool.true_and, Bool.false_or]
        symm
        rw [Bool.eq_false_iff]
        intro hany
        obtain ⟨qw, hqw, he⟩ := List.any_eq_true.1 hany
        have := hall qw hqw
        rw [beq_iff_eq] at he
        rw [he, hc] at this
        cases this
  · rename_i hcond
    have hna : na = false := by
      cases na with
      | true => simp at hcond
      | false => rfl
    subst hna
    rw [withScatter_covered, covered_stage2 c vc s g L h hL k hk]
    simp

theorem updateCore_refines' (c : Cfg) (vc : VCfg V) (s : State V) (g : V → W → V)
    (L : List (Nat × W)) (na : Bool)
    (h : Inv c vc s) (hL : ∀ qw ∈ L, qw.1 < c.npix) (p : Nat) (hp : p < c.npix) :
    abs c vc (updateCore c vc s g L na) p
      = denseUpdate c (abs c vc s) (covered c s) g L na p := by
  rw [updateCore_eq]
  unfold denseUpdate
  have hk := covpix_lt c p hp
  split
  · rename_i hcond
    rw [abs_stage1 c vc s g L h hL p hp]
    cases hc : covered c s (p >>> c.shift) with
    | true => simp
    | false =>
      simp only [Bool.false_eq_true, if_false, Bool.not_false, Bool.and_true]
      cases na with
      | true => simp
      | false =>
        simp only [Bool.false_eq_true, if_false]
        simp only [Bool.or_false, List.isEmpty_iff] at hcond
        have hall := (outL_eq_nil_iff c s L).1 hcond
        symm
        apply denseFold_none
        intro qw hqw he
        have := hall qw hqw
        rw [he, hc] at this
        cases this
  · rename_i hcond
    have hna : na = false := by
      cases na with
      | true => simp at hcond
      | false => rfl
    subst hna
    simp only [Bool.false_and, Bool.false_eq_true, if_false]
    rw [abs_withScatter c vc _ g _ (inv_stage2 c vc s g L h hL)
      (outL_covered_stage2 c vc s g L h hL) p hp,
      covered_stage2 c vc s g L h hL _ hk, abs_stage2 c vc s g L h hL p hp,
      abs_stage1 c vc s g L h hL p hp]
    cases hc : covered c s (p >>> c.shift) with
    | true =>
      simp only [Bool.true_or, if_true]
      apply denseFold_none
      intro qw hqw he
      have := ((mem_outL c s L qw).1 hqw).2
      rw [he, hc] at this
      cases this
    | false =>
      simp only [Bool.false_or, Bool.false_eq_true, if_false]
      split
      · exact denseFold_filter_all g L _ p _ (fun qw _ he => by rw [he, hc]; rfl)
      · rename_i hany
        symm
        apply denseFold_none
        intro qw hqw he
        apply hany
        exact List.any_eq_true.2 ⟨qw, hqw, by rw [he]; simp⟩
end update

/-! ### Dense specification: congruence and special cases -/

theorem denseUpdate_congr {W} (c : Cfg) (val val' : Nat → V) (cov cov' : Nat → Bool)
    (g : V → W → V) (L : List (Nat × W)) (na : Bool) (p : Nat)
    (hv : val p = val' p) (hc : cov (p >>> c.shift) = cov' (p >>> c.shift)) :
    denseUpdate c val cov g L na p = denseUpdate c val' cov' g L na p := by
  unfold denseUpdate; rw [hv, hc]

theorem denseCov_congr {W} (c : Cfg) (cov cov' : Nat → Bool) (L : List (Nat × W)) (na : Bool)
    (k : Nat) (hc : cov k = cov' k) : denseCov c cov L na k = denseCov c cov' L na k := by
  unfold denseCov; rw [hc]

theorem denseUpdate_untouched {W} (c : Cfg) (val : Nat → V) (cov : Nat → Bool)
    (g : V → W → V) (L : List (Nat × W)) (na : Bool) (p : Nat) (h : ∀ qw ∈ L, qw.1 ≠ p) :
    denseUpdate c val cov g L na p = val p := by
  unfold denseUpdate; rw [denseFold_none g L p _ h]; simp

theorem denseFold_clear (pix : List Nat) (v : V) (p : Nat) (x : V) :
    denseFold (fun _ (w : V) => w) (pix.map (·, v)) p x = if p ∈ pix then v else x := by
  unfold denseFold
  induction pix generalizing x with
  | nil => simp
  | cons q qs ih =>
    simp only [List.map_cons, List.foldl_cons, List.mem_cons]
    rw [ih]
    by_cases hq : q = p
    · subst hq; simp
    · have : ¬ p = q := fun h => hq h.symm
      simp [hq, this]

theorem makeEmpty_abs' (c : Cfg) (vc : VCfg V) (P : List Nat) (p : Nat) :
    abs c vc (makeEmpty c vc P) p = vc.sentinel := by
  unfold abs rd makeEmpty
  simp only [Array.getElem?_replicate]
  split <;> rfl

end HS
