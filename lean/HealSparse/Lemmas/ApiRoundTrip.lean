/-
  File round trips at the level of the executable API model (`apiWrite` / `apiRead`,
  Model/ApiFiles.lean): what `HealSparseMap.read(file, pixels=…)` recovers from a file that
  `HealSparseMap.write` produced — kind, dtype, sentinel, orders and both arrays — for every
  kind of map object.  Helper lemmas for the API-level theorems of Props/C03.lean.

  What is needed of the map object, and where it comes from:
  * the kind is recovered from the header keywords alone (BITPACK, the table columns and PRIMARY,
    the type of the SENTINEL keyword, WIDEMASK / WWIDTH, the array dtype code), so the map must
    be TYPED the way the file format can express: `MapObj.FileTyped`
      - a plain boolean map has a boolean sentinel (the `astype(bool)` trigger),
      - a plain numeric map has one of the dtypes a FITS column can carry (`DT.real`: i1 i2 i4 i8
        u1 u2 u4 u8 f4 f8) and a NON-boolean sentinel,
      - a wide mask has a non-boolean scalar sentinel (`MapObj.SentOK`),
      - bit-packed and record maps (whatever the type of the primary field): nothing.
    `fileKind_apiWrite_iff`: the reader recovers exactly `m.kind` IFF `m.FileTyped`.
  * `MapObj.Ok` (= `WF ∧ KindOk ∧ SentOK`, Lemmas/WFWorld.lean) does NOT imply `FileTyped`:
    `KindOk` says nothing about a numeric plain map (neither that its dtype exists in numpy nor
    that its sentinel is a number).  No constructor of the protocol produces such objects
    (`parseDT` only yields real dtypes and `check_sentinel` only typed sentinels), but the
    predicates proved invariant so far do not exclude them; the two concrete objects are
    `RoundTrip.oddDtMap` and `RoundTrip.boolSentMap` below.
  * under `SentOK` alone the CONTENT is still recovered (`apiRead_apiWrite_content`): orders,
    sentinel, both arrays, the blank cell and the validity test — only the kind label may
    differ.
-/
import HealSparse.Lemmas.WFWorld
import HealSparse.Lemmas.SubMap
import HealSparse.Props.C10
namespace HS

open WFFiles

/-! ### dtypes a file can carry -/

/-- the numpy dtypes healsparse maps are made of (what `dtCode` / `parseDTCode` name) -/
def DT.real : DT → Bool
  | .int b _ => b == 8 || b == 16 || b == 32 || b == 64
  | .flt b => b == 32 || b == 64
  | .bool => true

theorem parseDTCode_real {s : String} {dt : DT} (h : parseDTCode s = some dt) : dt.real = true := by
  unfold parseDTCode at h
  split at h <;> first | (cases h; rfl) | cases h

theorem parseDTCode_dtCode_of_real {dt : DT} (h : dt.real = true) :
    parseDTCode (dtCode dt) = some dt := by
  cases dt with
  | bool => rfl
  | flt b =>
    simp only [DT.real, Bool.or_eq_true, beq_iff_eq] at h
    rcases h with rfl | rfl <;> decide +kernel
  | int b sg =>
    simp only [DT.real, Bool.or_eq_true, beq_iff_eq] at h
    cases sg <;> rcases h with ((rfl | rfl) | rfl) | rfl <;> decide +kernel

theorem dtCode_ne_rec {dt : DT} (h : dt.real = true) : ¬ dtCode dt = "rec" := by
  cases dt with
  | bool => decide +kernel
  | flt b =>
    simp only [DT.real, Bool.or_eq_true, beq_iff_eq] at h
    rcases h with rfl | rfl <;> decide +kernel
  | int b sg =>
    simp only [DT.real, Bool.or_eq_true, beq_iff_eq] at h
    cases sg <;> rcases h with ((rfl | rfl) | rfl) | rfl <;> decide +kernel

/-- **the dtype code round trip holds exactly for the real dtypes** -/
theorem parseDTCode_dtCode_iff (dt : DT) : parseDTCode (dtCode dt) = some dt ↔ dt.real = true :=
  ⟨parseDTCode_real, parseDTCode_dtCode_of_real⟩

/-- the protocol's dtype parser only yields real dtypes -/
theorem parseDT_real {s : String} {dt : DT} (h : parseDT s = some dt) : dt.real = true := by
  unfold parseDT at h
  split at h <;> first | (cases h; rfl) | cases h

/-! ### the typing a file can express -/

/-- the map object is typed the way the header keywords can express (see the file header) -/
def MapObj.FileTyped (m : MapObj) : Prop :=
  match m.kind with
  | .plain .bool => m.sent.isBoolV = true
  | .plain dt => dt.real = true ∧ m.sent.isBoolV = false
  | .wide _ => m.sent.isBoolV = false
  | .packed => True
  | .recd _ _ => True

instance (m : MapObj) : Decidable m.FileTyped := by
  unfold MapObj.FileTyped; split <;> infer_instance

theorem MapObj.FileTyped_congr {m m' : MapObj} (h3 : m'.kind = m.kind) (h4 : m'.sent = m.sent) :
    m'.FileTyped ↔ m.FileTyped := by
  unfold MapObj.FileTyped; rw [h3, h4]

@[simp] theorem MapObj.FileTyped_cache_view (m : MapObj) (x : Option Nat) (v : Option (String × Nat)) :
    ({ m with cache := x, view := v } : MapObj).FileTyped ↔ m.FileTyped := Iff.rfl

theorem MapObj.FileTyped.sentOK {m : MapObj} (h : m.FileTyped) : m.SentOK := by
  unfold MapObj.FileTyped at h
  unfold MapObj.SentOK Kind.sentOK
  split
  · rename_i n hk; rw [hk] at h; exact h
  · trivial

/-- `FileTyped` = the two existing typing predicates + the numeric-plain clause they lack -/
theorem MapObj.fileTyped_iff (m : MapObj) (hk : m.KindOk) (hs : m.SentOK) :
    m.FileTyped ↔ ∀ dt, m.kind = .plain dt → dt ≠ .bool → dt.real = true ∧ m.sent.isBoolV = false := by
  unfold MapObj.KindOk MapObj.kindOk at hk
  unfold MapObj.SentOK Kind.sentOK at hs
  unfold MapObj.FileTyped
  cases hkind : m.kind with
  | packed => simp
  | recd fs p => simp
  | wide n => rw [hkind] at hs; simpa using hs
  | plain dt =>
    rw [hkind] at hk
    cases dt with
    | bool =>
      have : m.sent.isBoolV = true := by
        cases hsent : m.sent <;> rw [hsent] at hk <;> first | rfl | cases hk
      simpa using this
    | int b sg => simp
    | flt b => simp

/-! ### the reader, as equations -/

theorem apiRead_none_eq (f : FileObj) :
    apiRead f none = match fileKind f with
      | some k => .ok { covord := f.covord, spord := f.spord, kind := k, sent := f.sentinel,
                        st := readFull f.file }
      | none => .error .runtime := by
  unfold apiRead
  cases fileKind f <;> rfl

theorem apiRead_some_eq (f : FileObj) (px : List Nat) :
    apiRead f (some px) = match fileKind f with
      | some k =>
        (match readPartial (cfgOf f.covord f.spord) ⟨k.blank f.sentinel, k.valid f.sentinel⟩
            f.file px with
         | some s => .ok { covord := f.covord, spord := f.spord, kind := k, sent := f.sentinel, st := s }
         | none => .error .runtime)
      | none => .error .runtime := by
  unfold apiRead
  cases fileKind f with
  | none => rfl
  | some k =>
    simp only [bind, Except.bind, pure, Except.pure, Bool.and_false, Bool.false_eq_true, if_false]
    cases readPartial (cfgOf f.covord f.spord) ⟨k.blank f.sentinel, k.valid f.sentinel⟩ f.file px <;> rfl

/-- the reader only ever raises `RuntimeError` -/
theorem apiRead_error_runtime {f : FileObj} {px : Option (List Nat)} {e : Err}
    (h : apiRead f px = .error e) : e = .runtime := by
  cases px with
  | none =>
    rw [apiRead_none_eq] at h
    split at h <;> cases h; rfl
  | some l =>
    rw [apiRead_some_eq] at h
    split at h
    · split at h <;> cases h; rfl
    · cases h; rfl

/-! ### kind recovery -/

/-- **the reader recovers exactly the map's kind IFF the map is `FileTyped`** -/
theorem fileKind_apiWrite_iff (m : MapObj) (md : List (String × String)) :
    fileKind (apiWrite m md) = some m.kind ↔ m.FileTyped := by
  unfold MapObj.FileTyped fileKind apiWrite
  cases hk : m.kind with
  | packed => simp
  | recd fs p => simp
  | wide n => cases hs : m.sent <;> simp [Val.isBoolV]
  | plain dt =>
    cases dt with
    | bool => cases hs : m.sent <;> simp [Val.isBoolV] <;> decide +kernel
    | int b sg =>
      cases hs : m.sent <;> simp [Val.isBoolV, parseDTCode_dtCode_iff] <;> exact dtCode_ne_rec
    | flt b =>
      cases hs : m.sent <;> simp [Val.isBoolV, parseDTCode_dtCode_iff] <;> exact dtCode_ne_rec

/-- whatever kind the reader recovers, the cell parameters are the map's (sentinel compatible
    maps; restatement of `fileKind_apiWrite`) -/
theorem vc_of_fileKind_apiWrite {m : MapObj} {md : List (String × String)} (hs : m.SentOK) {k : Kind}
    (hk : fileKind (apiWrite m md) = some k) :
    (⟨k.blank m.sent, k.valid m.sent⟩ : VCfg Val) = m.vc := by
  have := fileKind_apiWrite m md hs k hk
  unfold MapObj.vc
  rw [this.1, this.2]

/-! ### full read -/

/-- full read of a written file, any map object: the recovered kind is whatever `fileKind` says,
    everything else is the map's -/
theorem apiRead_apiWrite_none_eq (m : MapObj) (md : List (String × String)) :
    apiRead (apiWrite m md) none = match fileKind (apiWrite m md) with
      | some k => .ok { m with kind := k, cache := none, view := none }
      | none => .error .runtime := by
  rw [apiRead_none_eq]
  cases fileKind (apiWrite m md) with
  | none => rfl
  | some k => cases m; rfl

/-- **full round trip**: every field but `cache` / `view` is recovered exactly -/
theorem apiRead_apiWrite_none (m : MapObj) (md : List (String × String)) (h : m.FileTyped) :
    apiRead (apiWrite m md) none = .ok { m with cache := none, view := none } := by
  rw [apiRead_apiWrite_none_eq, (fileKind_apiWrite_iff m md).2 h]

/-- … and `FileTyped` is exactly the condition -/
theorem apiRead_apiWrite_none_iff (m : MapObj) (md : List (String × String)) :
    apiRead (apiWrite m md) none = .ok { m with cache := none, view := none } ↔ m.FileTyped := by
  refine ⟨fun h => ?_, apiRead_apiWrite_none m md⟩
  rw [apiRead_apiWrite_none_eq] at h
  apply (fileKind_apiWrite_iff m md).1
  cases hk : fileKind (apiWrite m md) with
  | none => rw [hk] at h; cases h
  | some k =>
    rw [hk] at h
    have : ({ m with kind := k, cache := none, view := none } : MapObj).kind
        = ({ m with cache := none, view := none } : MapObj).kind := by
      rw [Except.ok.inj h]
    exact congrArg some this

/-! ### partial read -/

/-- partial read of a written file in terms of the core `readPartial` at the MAP's parameters -/
theorem apiRead_apiWrite_some_eq (m : MapObj) (md : List (String × String)) (px : List Nat)
    (hs : m.SentOK) {k : Kind} (hk : fileKind (apiWrite m md) = some k) :
    apiRead (apiWrite m md) (some px) =
      match readPartial m.c m.vc (writeFits m.st) px with
      | some s => .ok { m with kind := k, st := s, cache := none, view := none }
      | none => .error .runtime := by
  rw [apiRead_some_eq, hk]
  simp only [apiWrite_covord, apiWrite_spord, apiWrite_sentinel, apiWrite_file]
  rw [vc_of_fileKind_apiWrite hs hk]
  rfl

/-- **content round trip** for every sentinel-compatible map (in particular every `m.Ok`), full
    or partial: whatever the read returns has the map's orders, sentinel, blank cell and validity
    test, and the state the core reader produces at the map's own parameters.  Only the kind
    label is not claimed. -/
theorem apiRead_apiWrite_content {m : MapObj} {md : List (String × String)} (hs : m.SentOK)
    {px : Option (List Nat)} {m' : MapObj} (h : apiRead (apiWrite m md) px = .ok m') :
    m'.covord = m.covord ∧ m'.spord = m.spord ∧ m'.sent = m.sent ∧ m'.cache = none ∧
    m'.view = none ∧ m'.c = m.c ∧ m'.vc = m.vc ∧ fileKind (apiWrite m md) = some m'.kind ∧
    (px = none → m'.st = m.st) ∧
    (∀ l, px = some l → readPartial m.c m.vc (writeFits m.st) l = some m'.st) := by
  obtain ⟨k, hk, h1, h2, h3, h4, h5, h6, hfull, hpart⟩ := apiRead_ok h
  simp only [apiWrite_covord, apiWrite_spord, apiWrite_sentinel, apiWrite_file] at h1 h2 h4 hfull hpart
  have hvc := vc_of_fileKind_apiWrite hs hk
  refine ⟨h1, h2, h4, h5, h6, ?_, ?_, by rw [h3]; exact hk, ?_, ?_⟩
  · unfold MapObj.c; rw [h1, h2]
  · unfold MapObj.vc; rw [h3, h4]; exact hvc
  · intro hp; rw [hfull hp]; rfl
  · intro l hl
    have := hpart l hl
    rw [hvc] at this
    exact this

/-! ### `read(file, pixels=[k])` is `get_single_covpix_map(k)` -/

theorem sortNat_singleton (k : Nat) : sortNat [k] = [k] := rfl

theorem partialPixels_singleton {V : Type} (c : Cfg) (s : State V) (k : Nat) (hk : k < c.ncov)
    (hc : covered c s k = true) : partialPixels c (writeFits s) [k] = [k] := by
  unfold partialPixels
  have : covered c (⟨(writeFits s).cov, (writeFits s).data⟩ : State V) k = true := hc
  simp [List.filter, hk, this, sortNat_singleton]

theorem readPartial_singleton {V : Type} (c : Cfg) (vc : VCfg V) (s : State V) (k : Nat)
    (hk : k < c.ncov) (hc : covered c s k = true) :
    readPartial c vc (writeFits s) [k] = some (singleCovpixMap c vc s k) := by
  rw [readPartial_writeFits, partialPixels_singleton c s k hk hc, singleCovpixMap_covered c vc s k hc]
  have h1 : ¬ ([k].eraseDups.length < [k].length) := by
    rw [eraseDups_length_lt_iff]; simp
  rw [if_neg h1]
  rfl

/-! ### typing is established by `make_empty` and kept by updates and by the round trip -/

theorem WFApi.checkSentinel_notBool {dt : DT} {s : Option Val} {v : Val}
    (h : checkSentinel dt s = .ok v) (hd : dt ≠ .bool) : v.isBoolV = false := by
  rcases WFApi.checkSentinel_ok_cases h with ⟨_, rfl⟩ | ⟨n, e, rfl, _⟩ | ⟨x, _, hb⟩
  · cases dt with
    | bool => exact absurd rfl hd
    | flt b =>
      unfold DT.defaultSentinel
      split <;> first | rfl | (rename_i h; cases h)
    | int b sg => cases sg <;> rfl
  · rfl
  · exact absurd hb hd

theorem WFApi.checkSentinel_isBoolV {dt : DT} {s : Option Val} {v : Val}
    (h : checkSentinel dt s = .ok v) (hd : dt = .bool) : v.isBoolV = true := by
  have := WFApi.checkSentinel_bool h hd
  cases v <;> first | rfl | cases this

/-- the plain dtype of a kind, if any, is a real one (what `parseKind` guarantees) -/
def Kind.realDT : Kind → Bool
  | .plain dt => dt.real
  | _ => true

/-- `make_empty` of a real dtype makes a `FileTyped` map -/
theorem FileTyped.apiMakeEmpty {covord spord : Nat} {kind : Kind} {sentinel : Option Val}
    {covPix : List Nat} {m : MapObj} (hreal : kind.realDT = true)
    (h : HS.apiMakeEmpty covord spord kind sentinel covPix = .ok m) : m.FileTyped := by
  unfold HS.apiMakeEmpty at h
  simp only [bind, Except.bind, pure, Except.pure, throw, throwThe, MonadExceptOf.throw] at h
  repeat' xpeel h
  all_goals cases h
  · trivial
  · trivial
  · trivial
  · -- plain
    rename_i dt _ v hv
    unfold MapObj.FileTyped
    cases dt with
    | bool => exact WFApi.checkSentinel_isBoolV hv rfl
    | int b sg => exact ⟨hreal, WFApi.checkSentinel_notBool hv (by simp)⟩
    | flt b => exact ⟨hreal, WFApi.checkSentinel_notBool hv (by simp)⟩
  · trivial

theorem FileTyped.apiUpdate {m : MapObj} {op : String} {pix : List Nat}
    {vals : Option (List Val)} {single : Bool} {rawUnique : Option Bool} {m' : MapObj}
    (h : m.FileTyped) (hr : HS.apiUpdate m op pix vals single rawUnique = .ok m') : m'.FileTyped := by
  obtain ⟨_, _, h3, h4, _⟩ := WFApi.apiUpdate_ok hr
  exact (MapObj.FileTyped_congr h3 h4).2 h

theorem FileTyped.apiUpdateRanges {m : MapObj} {op : String} {R : List (Nat × Nat)}
    {val : Option Val} {slicePath : Bool} {m' : MapObj}
    (h : m.FileTyped) (hr : HS.apiUpdateRanges m op R val slicePath = .ok m') : m'.FileTyped := by
  obtain ⟨_, _, h3, h4, _⟩ := WFApi.apiUpdateRanges_ok hr
  exact (MapObj.FileTyped_congr h3 h4).2 h

/-- whatever is read from a file written from a `FileTyped` map is `FileTyped` again -/
theorem FileTyped.apiRead_apiWrite {m : MapObj} {md : List (String × String)}
    {px : Option (List Nat)} {m' : MapObj} (h : m.FileTyped)
    (hr : HS.apiRead (apiWrite m md) px = .ok m') : m'.FileTyped := by
  obtain ⟨_, _, h3, _, _, _, _, hk, _⟩ := apiRead_apiWrite_content h.sentOK hr
  rw [(fileKind_apiWrite_iff m md).2 h] at hk
  exact (MapObj.FileTyped_congr (Option.some.inj hk).symm h3).2 h

/-! ### `MapObj.Ok` does not imply `FileTyped`: the two objects -/

namespace RoundTrip

/-- a well-formed `Ok` map object of a dtype numpy does not have (`int12`): the writer names it
    `i1`, the reader recovers `int8` -/
def oddDtMap : MapObj :=
  { covord := 0, spord := 0, kind := .plain (.int 12 true), sent := .num (-2048) 0,
    st := makeEmpty (cfgOf 0 0) ⟨.num (-2048) 0, (Kind.plain (.int 12 true)).valid (.num (-2048) 0)⟩ [3] }

/-- a well-formed `Ok` int32 map object carrying a BOOLEAN sentinel: the reader takes its
    `astype(bool)` branch -/
def boolSentMap : MapObj :=
  { covord := 0, spord := 0, kind := .plain (.int 32 true), sent := .bool false,
    st := makeEmpty (cfgOf 0 0) ⟨.bool false, (Kind.plain (.int 32 true)).valid (.bool false)⟩ [3] }

theorem oddDtMap_ok : oddDtMap.Ok := by decide +kernel
theorem boolSentMap_ok : boolSentMap.Ok := by decide +kernel

theorem oddDtMap_not_typed : ¬ oddDtMap.FileTyped := by decide +kernel
theorem boolSentMap_not_typed : ¬ boolSentMap.FileTyped := by decide +kernel

/-- what the reader recovers instead -/
theorem oddDtMap_kind : fileKind (apiWrite oddDtMap []) = some (.plain (.int 8 true)) := by
  decide +kernel
theorem boolSentMap_kind : fileKind (apiWrite boolSentMap []) = some (.plain .bool) := by
  decide +kernel

/-- a dtype whose code the reader does not know at all (`int128` ↦ "i16"): the read RAISES -/
def hugeDtMap : MapObj :=
  { covord := 0, spord := 0, kind := .plain (.int 128 true), sent := .num 0 0,
    st := makeEmpty (cfgOf 0 0) ⟨.num 0 0, (Kind.plain (.int 128 true)).valid (.num 0 0)⟩ [] }

theorem hugeDtMap_ok : hugeDtMap.Ok := by decide +kernel
theorem hugeDtMap_kind : fileKind (apiWrite hugeDtMap []) = none := by decide +kernel

end RoundTrip

/-! ### the World level: `write`, `read`, `getmeta` of the protocol driver

User metadata does not live in `MapObj`: the driver keeps it per map NAME (`World.metas`),
`write` copies the source name's metadata into the file (`FileObj.mdata`), `read` makes the
file's metadata the metadata of the result name. -/

/-- the user metadata the driver keeps for the map named `n` -/
def World.metaOf (w : World) (n : String) : List (String × String) :=
  ((w.metas.find? (·.1 == n)).map (·.2)).getD []

/-- what `write` does to the world: the file (with the map's current user metadata) is stored
    under the `f=` name; nothing else changes -/
theorem opWrite_eq (w : World) (a : Args) (n : String) (rest : List String) (m : MapObj)
    (hpos : a.pos = n :: rest) (hget : w.get? n = some m) :
    opWrite w a = ({ w with files := ((a.getD "f" "f", apiWrite m (w.metaOf n)) ::
        w.files.filter (·.1 != a.getD "f" "f")) }, "ok") := by
  unfold opWrite withMap
  simp only [hpos, hget, List.headD_cons]
  rfl

/-- what a successful `read` does to the world: the result is bound to the `r=` name as an owning
    object and the file's metadata becomes that name's metadata -/
theorem opRead_eq (w : World) (a : Args) (fo : FileObj) (px : Option (List Nat)) (m' : MapObj)
    (hfile : (w.files.find? (·.1 == a.getD "f" "f")).map (·.2) = some fo)
    (hpx : (a.get? "pixels" = none ∧ px = none) ∨
        ∃ t l, a.get? "pixels" = some t ∧ parseNats t = some l ∧ px = some l)
    (hr : apiRead fo px = .ok m') :
    opRead w a = ({ (w.bind (a.getD "r" "tmp") m') with
        metas := ((a.getD "r" "tmp", fo.mdata) :: w.metas.filter (·.1 != a.getD "r" "tmp")) }, "ok") := by
  unfold opRead
  simp only [hfile]
  rcases hpx with ⟨h1, rfl⟩ | ⟨t, l, h1, h2, rfl⟩
  · simp only [h1, hr]; rfl
  · simp only [h1, h2, Option.map_some, hr]; rfl

theorem World.get?_bind_self (w : World) (r : String) (m : MapObj) :
    (w.bind r m).get? r = some { m with view := none } := by
  unfold World.get? World.raw? World.bind
  simp

theorem World.metaOf_cons_self (w : World) (r : String) (md : List (String × String))
    (ms : List (String × List (String × String))) :
    ({ w with metas := (r, md) :: ms } : World).metaOf r = md := by
  unfold World.metaOf
  simp


theorem stepArgs_write (w : World) (a : Args) : stepArgs w "write" a = opWrite w a := by rfl
theorem stepArgs_read (w : World) (a : Args) : stepArgs w "read" a = opRead w a := by rfl
theorem stepArgs_getmeta (w : World) (a : Args) : stepArgs w "getmeta" a = opGetmeta w a := by rfl

theorem opGetmeta_eq (w : World) (a : Args) (n : String) (rest : List String) (m : MapObj)
    (hpos : a.pos = n :: rest) (hget : w.get? n = some m) :
    opGetmeta w a = (w, (((w.metaOf n).find? (·.1 == a.getD "k" "")).map (·.2)).getD "none") := by
  unfold opGetmeta withMap
  simp only [hpos, hget, List.headD_cons]
  rfl

/-- the file a `write` stores can be found again under its name -/
theorem files_find_cons_self (fs : List (String × FileObj)) (F : String) (fo : FileObj) :
    (((F, fo) :: fs).find? (·.1 == F)).map (·.2) = some fo := by
  simp

/-- **write → read at the World level** (full or partial read): if the reader accepts the file,
    both steps answer `ok`, the result name is bound to the map read (owning its storage), and
    the user metadata of the source map has travelled to the result name -/
theorem write_read_world (w : World) (aW aR : Args) (n : String) (rest : List String)
    (m m' : MapObj) (px : Option (List Nat))
    (hpos : aW.pos = n :: rest) (hget : w.get? n = some m)
    (hf : aR.getD "f" "f" = aW.getD "f" "f")
    (hpx : (aR.get? "pixels" = none ∧ px = none) ∨
        ∃ t l, aR.get? "pixels" = some t ∧ parseNats t = some l ∧ px = some l)
    (hr : apiRead (apiWrite m (w.metaOf n)) px = .ok m') :
    (stepArgs w "write" aW).2 = "ok" ∧
    (stepArgs (stepArgs w "write" aW).1 "read" aR).2 = "ok" ∧
    (stepArgs (stepArgs w "write" aW).1 "read" aR).1.get? (aR.getD "r" "tmp")
      = some { m' with view := none } ∧
    (stepArgs (stepArgs w "write" aW).1 "read" aR).1.metaOf (aR.getD "r" "tmp") = w.metaOf n := by
  rw [stepArgs_write, opWrite_eq w aW n rest m hpos hget]
  simp only
  rw [stepArgs_read]
  rw [opRead_eq _ aR (apiWrite m (w.metaOf n)) px m' (by rw [hf]; exact files_find_cons_self _ _ _) hpx hr]
  refine ⟨by first | rfl | trivial, by first | rfl | trivial, ?_, ?_⟩
  · exact World.get?_bind_self _ _ _
  · exact World.metaOf_cons_self _ _ _ _

/-- **user metadata round trip**: after `write` and a successful `read`, `getmeta` on the map read
    back answers what `getmeta` answered on the source map, for every key -/
theorem getmeta_write_read (w : World) (aW aR aG aG' : Args) (n : String) (rest rest' rest'' : List String)
    (m m' : MapObj) (px : Option (List Nat))
    (hpos : aW.pos = n :: rest) (hget : w.get? n = some m)
    (hf : aR.getD "f" "f" = aW.getD "f" "f")
    (hpx : (aR.get? "pixels" = none ∧ px = none) ∨
        ∃ t l, aR.get? "pixels" = some t ∧ parseNats t = some l ∧ px = some l)
    (hr : apiRead (apiWrite m (w.metaOf n)) px = .ok m')
    (hG : aG.pos = aR.getD "r" "tmp" :: rest') (hG' : aG'.pos = n :: rest'')
    (hkey : aG.getD "k" "" = aG'.getD "k" "") :
    (stepArgs (stepArgs (stepArgs w "write" aW).1 "read" aR).1 "getmeta" aG).2
      = (stepArgs w "getmeta" aG').2 := by
  obtain ⟨_, _, h3, h4⟩ := write_read_world w aW aR n rest m m' px hpos hget hf hpx hr
  rw [stepArgs_getmeta, stepArgs_getmeta, opGetmeta_eq _ aG _ rest' _ hG h3,
    opGetmeta_eq w aG' n rest'' m hG' hget, h4, hkey]

/-- for a `FileTyped` map the full read always succeeds: the three-step round trip is
    unconditional and the object bound is the map itself (cache reset) -/
theorem write_read_full_world (w : World) (aW aR : Args) (n : String) (rest : List String)
    (m : MapObj) (hpos : aW.pos = n :: rest) (hget : w.get? n = some m) (ht : m.FileTyped)
    (hf : aR.getD "f" "f" = aW.getD "f" "f") (hpx : aR.get? "pixels" = none) :
    (stepArgs (stepArgs w "write" aW).1 "read" aR).2 = "ok" ∧
    (stepArgs (stepArgs w "write" aW).1 "read" aR).1.get? (aR.getD "r" "tmp")
      = some { m with cache := none, view := none } ∧
    (stepArgs (stepArgs w "write" aW).1 "read" aR).1.metaOf (aR.getD "r" "tmp") = w.metaOf n := by
  obtain ⟨_, h2, h3, h4⟩ := write_read_world w aW aR n rest m _ none hpos hget hf
    (Or.inl ⟨hpx, rfl⟩) (apiRead_apiWrite_none m _ ht)
  exact ⟨h2, h3, h4⟩


/-! ### concrete maps of every kind (non-vacuity material) -/

namespace RoundTrip

/-- a boolean map with sentinel `True` and one pixel cleared to `False` -/
def exBoolE : Except Err MapObj := do
  let m ← apiMakeEmpty 0 1 (.plain .bool) (some (.bool true)) [2]
  apiUpdate m "replace" [9] (some [.bool false]) true

/-- a bit-packed map (`nside_coverage = 1`, `nside_sparse = 4`: 16 bits per coverage pixel) -/
def exPackedE : Except Err MapObj := do
  let m ← apiMakeEmpty 0 2 .packed none []
  apiUpdate m "replace" [3, 100] (some [.bool true]) true

/-- a record map whose PRIMARY field is boolean, second field float32 -/
def exRecBoolE : Except Err MapObj := do
  let m ← apiMakeEmpty 0 1 (.recd [.bool, .flt 32] 0) none []
  apiUpdate m "replace" [21] (some [.recd [(1, 0), (5, 1)]]) true

/-- a float32 map with the default (`UNSEEN`) sentinel -/
def exFloatE : Except Err MapObj := do
  let m ← apiMakeEmpty 0 1 (.plain (.flt 32)) none []
  apiUpdate m "replace" [0, 47] (some [.num 3 1, .num (-1) 0]) false

/-- executable comparison of the fields of two map objects (`MapObj` has no `DecidableEq`) -/
def sameObj (a b : MapObj) : Bool :=
  decide (a.covord = b.covord) && decide (a.spord = b.spord) && decide (a.kind = b.kind) &&
  decide (a.sent = b.sent) && decide (a.st.cov = b.st.cov) && decide (a.st.sp = b.st.sp) &&
  decide (a.cache = b.cache) && decide (a.view = b.view)

end RoundTrip

/-! ### `update_values_pix` on interchangeable maps (API-level continuation)

`apiUpdate` = a validation chain that never looks at the arrays (`updA`), followed by the view
test, the update proper and the float exactness test (`updB`), which depend on the arrays only
through the dense view.  Hence two map objects with the same configuration / kind / sentinel
and content-equal states (`C10.Same`) cannot be told apart by any call, errors included. -/

/-- the validation chain of `update_values_pix` up to and including the pixel range check —
    every test that does not look at the arrays — in continuation-passing form.
    `k none` = the empty-pixel early return. -/
def updAK {β : Type} (m : MapObj) (op : String) (pix : List Nat) (vals : Option (List Val))
    (single : Bool) (rawUnique : Option Bool)
    (k : Option (List Val × Bool × Bool) → Except Err β) : Except Err β := do
  let m := { m with cache := none }
  let (vals, single, noAppend) ← match vals with
    | none =>
        if op != "replace" then throw .value
        pure ([clearValue m], true, true)
    | some vs => pure (vs, single || vs.length == 1, false)
  if op != "replace" then
    if m.kind.isBool then
      if op != "or" && op != "and" then throw .notImpl
    else if op == "or" || op == "and" then
      if !(m.kind.isIntegerMap && m.sent.isZero) then throw .value
    else if op == "add" then
      match m.kind with
      | .recd _ _ => throw .value
      | _ => pure ()
    else throw .value
  if pix.isEmpty then return (← k none)
  if !(vals.all (valMatchesKind m.kind)) then throw .value
  if op == "replace" then
    match rawUnique with
    | some ok => if !ok then throw .value
    | none => if pix.eraseDups.length < pix.length then throw .value
  if !single && vals.length != pix.length then throw .value
  if pix.any (· ≥ m.npix) then throw .index
  k (some (vals, single, noAppend))

/-- the rest: the view test, the update proper, the float exactness test -/
def updB (m : MapObj) (op : String) (pix : List Nat) (r : Option (List Val × Bool × Bool)) :
    Except Err MapObj :=
  match r with
  | none => .ok { m with cache := none }
  | some (vals, single, noAppend) =>
    if m.view.isSome && pix.any (fun p => m.abs p == m.sent) then .error .runtime
    else
      let pv : List (Nat × Val) :=
        if single then pix.map (·, vals.headD (.num 0 0)) else pix.zip vals
      let st' := updatePix m.c m.vc m.st (cellOp m op).1 (cellOp m op).2 pv noAppend
      if op == "add" && !floatCellsFit m.kind st'.sp then .error .inexact
      else .ok { m with cache := none, st := st' }

theorem apiUpdate_eq_cps (m : MapObj) (op : String) (pix : List Nat) (vals : Option (List Val))
    (single : Bool) (rawUnique : Option Bool) :
    apiUpdate m op pix vals single rawUnique = updAK m op pix vals single rawUnique (updB m op pix) := by
  rfl


/-- the validation chain by itself: `.ok none` = empty-pixel early return,
    `.ok (some (vals, single, noAppend))` = go on with the normalised values -/
def updA (m : MapObj) (op : String) (pix : List Nat) (vals : Option (List Val))
    (single : Bool) (rawUnique : Option Bool) : Except Err (Option (List Val × Bool × Bool)) :=
  updAK m op pix vals single rawUnique .ok

/-- `x` is `y` followed by `k` (kept opaque for the structural walk below) -/
def UpdPres {β : Type} (k : Option (List Val × Bool × Bool) → Except Err β)
    (x : Except Err β) (y : Except Err (Option (List Val × Bool × Bool))) : Prop := x = y.bind k

theorem UpdPres.ite {β : Type} {k : Option (List Val × Bool × Bool) → Except Err β} {c : Prop}
    [Decidable c] {A B : Except Err β} {A' B' : Except Err (Option (List Val × Bool × Bool))}
    (hA : c → UpdPres k A A') (hB : ¬ c → UpdPres k B B') :
    UpdPres k (if c then A else B) (if c then A' else B') := by
  by_cases h : c
  · rw [if_pos h, if_pos h]; exact hA h
  · rw [if_neg h, if_neg h]; exact hB h

theorem UpdPres.err {β : Type} {k : Option (List Val × Bool × Bool) → Except Err β} (e : Err) :
    UpdPres k (.error e) (.error e) := rfl

theorem UpdPres.ret {β : Type} {k : Option (List Val × Bool × Bool) → Except Err β}
    (r : Option (List Val × Bool × Bool)) : UpdPres k (k r) (.ok r) := rfl

theorem updAK_pres {β : Type} (m : MapObj) (op : String) (pix : List Nat) (vals : Option (List Val))
    (single : Bool) (rawUnique : Option Bool) (k : Option (List Val × Bool × Bool) → Except Err β) :
    UpdPres k (updAK m op pix vals single rawUnique k) (updAK m op pix vals single rawUnique .ok) := by
  cases m with
  | mk co so kind sent st cache view =>
  cases vals <;> cases rawUnique <;> cases kind <;>
  · unfold updAK
    simp only [bind, Except.bind, pure, Except.pure, throw, throwThe, MonadExceptOf.throw]
    repeat' first
      | exact UpdPres.err _
      | exact UpdPres.ret _
      | (apply UpdPres.ite <;> intro _)

theorem updAK_eq_bind {β : Type} (m : MapObj) (op : String) (pix : List Nat) (vals : Option (List Val))
    (single : Bool) (rawUnique : Option Bool) (k : Option (List Val × Bool × Bool) → Except Err β) :
    updAK m op pix vals single rawUnique k = (updA m op pix vals single rawUnique).bind k :=
  updAK_pres m op pix vals single rawUnique k

/-- **`update_values_pix` = validation chain, then the array part** -/
theorem apiUpdate_eq (m : MapObj) (op : String) (pix : List Nat) (vals : Option (List Val))
    (single : Bool) (rawUnique : Option Bool) :
    apiUpdate m op pix vals single rawUnique =
      (updA m op pix vals single rawUnique).bind (updB m op pix) := by
  rw [apiUpdate_eq_cps, updAK_eq_bind]

/-- the validation chain does not look at the arrays (nor at the cache) -/
theorem updA_st (m : MapObj) (s : State Val) (x : Option Nat) (op : String) (pix : List Nat)
    (vals : Option (List Val)) (single : Bool) (rawUnique : Option Bool) :
    updA { m with st := s, cache := x } op pix vals single rawUnique
      = updA m op pix vals single rawUnique := rfl

open WFApi in
/-- past the validation chain every pixel is in range -/
theorem updA_ok_lt {m : MapObj} {op : String} {pix : List Nat} {vals : Option (List Val)}
    {single : Bool} {rawUnique : Option Bool} {r : List Val × Bool × Bool}
    (h : updA m op pix vals single rawUnique = .ok (some r)) : ∀ p ∈ pix, p < m.npix := by
  unfold updA updAK at h
  simp only [bind, Except.bind, pure, Except.pure, throw, throwThe, MonadExceptOf.throw] at h
  repeat' xpeel h
  all_goals first
    | (cases h; done)
    | exact lt_of_not_any_ge ‹_›


section
variable {V : Type} [DecidableEq V] {c : Cfg} {vc : VCfg V} {s : State V}

/-- a test holds on every storage cell iff it holds on the blank cell and on the value of every
    pixel: the storage of a well-laid-out map holds nothing else -/
theorem Inv.sp_all_iff (h : Inv c vc s) (P : V → Bool) :
    s.sp.all P = true ↔ (P vc.sentinel = true ∧ ∀ p, p < c.npix → P (abs c vc s p) = true) := by
  rw [Array.all_eq_true]
  constructor
  · intro hall
    have h0 : P vc.sentinel = true := by
      have hs := h.2.2.1 0 c.nfine_pos
      have hlt : 0 < s.sp.size := h.sp_pos
      have := hall 0 hlt
      rw [Array.getElem?_eq_getElem hlt] at hs
      rw [Option.some.inj hs] at this
      exact this
    refine ⟨h0, fun p _ => ?_⟩
    unfold abs rd
    cases hg : s.sp[(lookup c s p).toNat]? with
    | none => exact h0
    | some v =>
      obtain ⟨hlt, rfl⟩ := Array.getElem?_eq_some_iff.1 hg
      exact hall _ hlt
  · rintro ⟨h0, hpx⟩ i hi
    by_cases h1 : i < c.nfine
    · have hs := h.2.2.1 i h1
      rw [Array.getElem?_eq_getElem hi] at hs
      rw [Option.some.inj hs]; exact h0
    · obtain ⟨hp, _, _, ha, _⟩ := h.pixOfCell_spec (Nat.le_of_not_lt h1) hi
      have := hpx _ hp
      rw [ha, rd_eq_getElem _ _ _ hi] at this
      exact this

end

/-- the float exactness test of `update_values_pix` does not depend on the representation -/
theorem floatCellsFit_same {c : Cfg} {vc : VCfg Val} {s₁ s₂ : State Val} (k : Kind)
    (h : C10.Same c vc s₁ s₂) : floatCellsFit k s₁.sp = floatCellsFit k s₂.sp := by
  obtain ⟨h1, h2, hab, _⟩ := h
  unfold floatCellsFit
  split
  · rw [Bool.eq_iff_iff, h1.sp_all_iff, h2.sp_all_iff]
    constructor
    · rintro ⟨a, b⟩; exact ⟨a, fun p hp => by rw [← hab p hp]; exact b p hp⟩
    · rintro ⟨a, b⟩; exact ⟨a, fun p hp => by rw [hab p hp]; exact b p hp⟩
  · rfl

/-- two results of an API call on interchangeable maps are interchangeable: both succeed with the
    configuration, kind, sentinel and view flag of `m` and content-equal states, or
    both raise the same error -/
def UpdRel (m : MapObj) (x y : Except Err MapObj) : Prop :=
  match x, y with
  | .ok r₁, .ok r₂ => r₁.Same m ∧ r₂.Same m ∧ C10.Same m.c m.vc r₁.st r₂.st
  | .error e₁, .error e₂ => e₁ = e₂
  | _, _ => False

theorem updatePix_same {W : Type} (c : Cfg) (vc : VCfg Val) (s₁ s₂ : State Val)
    (pre : Option (Val → Val)) (f : Val → W → Val) (pv : List (Nat × W)) (na : Bool)
    (h : C10.Same c vc s₁ s₂) (hpv : ∀ qw ∈ pv, qw.1 < c.npix) :
    C10.Same c vc (updatePix c vc s₁ pre f pv na) (updatePix c vc s₂ pre f pv na) := by
  unfold updatePix
  apply C10.same_updateCore c vc s₁ s₂ _ _ na h
  intro qw hq
  obtain ⟨pw, hpw, he⟩ := stageList_fst_mem _ pv qw hq
  rw [← he]
  exact hpv pw hpw

theorem pv_lt_of_pix {n : Nat} {pix : List Nat} (hp : ∀ p ∈ pix, p < n) (single : Bool) (v : Val)
    (vals : List Val) :
    ∀ qw ∈ (if single = true then pix.map (fun x => (x, v)) else pix.zip vals), qw.1 < n := by
  intro qw hq
  split at hq
  · obtain ⟨x, hx, rfl⟩ := List.mem_map.1 hq
    exact hp x hx
  · exact hp _ (List.of_mem_zip (a := qw.1) (b := qw.2) hq).1

theorem any_congr_mem {α : Type} {l : List α} {p q : α → Bool} (h : ∀ x ∈ l, p x = q x) :
    l.any p = l.any q := by
  induction l with
  | nil => rfl
  | cons a as ih =>
    rw [List.any_cons, List.any_cons, h a List.mem_cons_self,
      ih (fun x hx => h x (List.mem_cons_of_mem _ hx))]

theorem UpdRel.ite2 {m : MapObj} {c : Prop} [Decidable c] {e : Err} {B B' : Except Err MapObj}
    (h : ¬ c → UpdRel m B B') :
    UpdRel m (if c then .error e else B) (if c then .error e else B') := by
  by_cases hc : c
  · rw [if_pos hc, if_pos hc]; exact rfl
  · rw [if_neg hc, if_neg hc]; exact h hc

theorem updB_same (m : MapObj) (s₂ : State Val) (x : Option Nat) (hS : C10.Same m.c m.vc m.st s₂)
    (op : String) (pix : List Nat) (r : Option (List Val × Bool × Bool))
    (hr : ∀ rr, r = some rr → ∀ p ∈ pix, p < m.npix) :
    UpdRel m (updB m op pix r) (updB { m with st := s₂, cache := x } op pix r) := by
  cases r with
  | none => exact ⟨⟨rfl, rfl, rfl, rfl, rfl⟩, ⟨rfl, rfl, rfl, rfl, rfl⟩, hS⟩
  | some rr =>
    obtain ⟨vals, single, na⟩ := rr
    have hp := hr _ rfl
    have hhit : (pix.any fun p => ({ m with st := s₂, cache := x } : MapObj).abs p == m.sent)
        = pix.any fun p => m.abs p == m.sent := by
      apply any_congr_mem
      intro p hpm
      have : ({ m with st := s₂, cache := x } : MapObj).abs p = m.abs p :=
        (hS.2.2.1 p (hp p hpm)).symm
      rw [this]
    have hst := updatePix_same m.c m.vc m.st s₂ (cellOp m op).1 (cellOp m op).2
      (if single = true then pix.map (fun x => (x, vals.headD (.num 0 0))) else pix.zip vals) na hS
      (pv_lt_of_pix hp single _ vals)
    have hfit := floatCellsFit_same m.kind hst
    have e1 : updB m op pix (some (vals, single, na)) =
        if (m.view.isSome && pix.any fun p => m.abs p == m.sent) = true then .error .runtime
        else if (op == "add" && !floatCellsFit m.kind (updatePix m.c m.vc m.st (cellOp m op).1
            (cellOp m op).2 (if single = true then pix.map (fun x => (x, vals.headD (.num 0 0)))
              else pix.zip vals) na).sp) = true then .error .inexact
        else .ok { m with cache := none, st := (updatePix m.c m.vc m.st (cellOp m op).1
            (cellOp m op).2 (if single = true then pix.map (fun x => (x, vals.headD (.num 0 0)))
              else pix.zip vals) na) } := rfl
    have e2 : updB { m with st := s₂, cache := x } op pix (some (vals, single, na)) =
        if (m.view.isSome && pix.any fun p =>
            ({ m with st := s₂, cache := x } : MapObj).abs p == m.sent) = true then .error .runtime
        else if (op == "add" && !floatCellsFit m.kind (updatePix m.c m.vc s₂ (cellOp m op).1
            (cellOp m op).2 (if single = true then pix.map (fun x => (x, vals.headD (.num 0 0)))
              else pix.zip vals) na).sp) = true then .error .inexact
        else .ok { m with cache := none, st := (updatePix m.c m.vc s₂ (cellOp m op).1
            (cellOp m op).2 (if single = true then pix.map (fun x => (x, vals.headD (.num 0 0)))
              else pix.zip vals) na) } := rfl
    rw [e1, e2, hhit, ← hfit]
    refine UpdRel.ite2 fun _ => UpdRel.ite2 fun _ => ?_
    exact ⟨⟨rfl, rfl, rfl, rfl, rfl⟩, ⟨rfl, rfl, rfl, rfl, rfl⟩, hst⟩

/-- **`update_values_pix` cannot tell interchangeable maps apart**: on two map objects with the
    same configuration, kind, sentinel and view flag whose states are content-equal, every call
    either raises the same error on both or succeeds on both with content-equal results -/
theorem apiUpdate_same (m₁ m₂ : MapObj) (hm : m₂.Same m₁) (hS : C10.Same m₁.c m₁.vc m₁.st m₂.st)
    (op : String) (pix : List Nat) (vals : Option (List Val)) (single : Bool)
    (rawUnique : Option Bool) :
    UpdRel m₁ (apiUpdate m₁ op pix vals single rawUnique) (apiUpdate m₂ op pix vals single rawUnique) := by
  have e : m₂ = { m₁ with st := m₂.st, cache := m₂.cache } := by
    obtain ⟨h1, h2, h3, h4, h5⟩ := hm
    cases m₁; cases m₂
    simp only at h1 h2 h3 h4 h5
    subst h1 h2 h3 h4 h5
    rfl
  rw [e, apiUpdate_eq, apiUpdate_eq, updA_st m₁ m₂.st m₂.cache]
  cases hA : updA m₁ op pix vals single rawUnique with
  | error err => exact rfl
  | ok r =>
    exact updB_same m₁ m₂.st m₂.cache hS op pix r (fun rr hrr => updA_ok_lt (hrr ▸ hA))


/-! ### a history of `update_values_pix` calls -/

/-- one call of `update_values_pix`: operation, pixels, values (`none` = clear), scalar flag -/
abbrev UpdCall := String × List Nat × Option (List Val) × Bool

/-- run a list of calls, stopping at the first error -/
def runUpdates (m : MapObj) (calls : List UpdCall) : Except Err MapObj :=
  calls.foldlM (fun m c => apiUpdate m c.1 c.2.1 c.2.2.1 c.2.2.2) m

theorem MapObj.Same.c_eq {m' m : MapObj} (h : m'.Same m) : m'.c = m.c := by
  unfold MapObj.c; rw [h.1, h.2.1]

theorem MapObj.Same.vc_eq {m' m : MapObj} (h : m'.Same m) : m'.vc = m.vc := by
  unfold MapObj.vc; rw [h.2.2.1, h.2.2.2.1]

theorem MapObj.Same.trans {a b c : MapObj} (h1 : a.Same b) (h2 : b.Same c) : a.Same c :=
  ⟨h1.1.trans h2.1, h1.2.1.trans h2.2.1, h1.2.2.1.trans h2.2.2.1, h1.2.2.2.1.trans h2.2.2.2.1,
    h1.2.2.2.2.trans h2.2.2.2.2⟩

theorem MapObj.Same.symm {a b : MapObj} (h : a.Same b) : b.Same a :=
  ⟨h.1.symm, h.2.1.symm, h.2.2.1.symm, h.2.2.2.1.symm, h.2.2.2.2.symm⟩

theorem UpdRel.of_same {m m' : MapObj} (h : m'.Same m) {x y : Except Err MapObj}
    (hr : UpdRel m' x y) : UpdRel m x y := by
  unfold UpdRel at hr ⊢
  cases x <;> cases y <;> simp only at hr ⊢
  · exact hr
  · rw [← h.c_eq, ← h.vc_eq]
    exact ⟨hr.1.trans h, hr.2.1.trans h, hr.2.2⟩

/-- **every history of updates**: interchangeable map objects stay interchangeable through any
    list of `update_values_pix` calls, and the first error (if any) is the same on both -/
theorem runUpdates_same (calls : List UpdCall) (m₁ m₂ : MapObj) (hm : m₂.Same m₁)
    (hS : C10.Same m₁.c m₁.vc m₁.st m₂.st) :
    UpdRel m₁ (runUpdates m₁ calls) (runUpdates m₂ calls) := by
  induction calls generalizing m₁ m₂ with
  | nil => exact ⟨MapObj.Same.rfl', hm, hS⟩
  | cons c cs ih =>
    unfold runUpdates
    rw [List.foldlM_cons, List.foldlM_cons]
    have h1 := apiUpdate_same m₁ m₂ hm hS c.1 c.2.1 c.2.2.1 c.2.2.2 none
    cases hx : apiUpdate m₁ c.1 c.2.1 c.2.2.1 c.2.2.2 with
    | error e₁ =>
      cases hy : apiUpdate m₂ c.1 c.2.1 c.2.2.1 c.2.2.2 with
      | error e₂ => rw [hx, hy] at h1; exact h1
      | ok r₂ => rw [hx, hy] at h1; exact h1.elim
    | ok r₁ =>
      cases hy : apiUpdate m₂ c.1 c.2.1 c.2.2.1 c.2.2.2 with
      | error e₂ => rw [hx, hy] at h1; exact h1.elim
      | ok r₂ =>
        rw [hx, hy] at h1
        obtain ⟨s1, s2, hS'⟩ := h1
        rw [← s1.c_eq, ← s1.vc_eq] at hS'
        exact UpdRel.of_same s1 (ih r₁ r₂ (s2.trans s1.symm) hS')

end HS
