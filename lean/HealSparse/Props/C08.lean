/-
  C08 — pixel-range updates equal the explicit-pixel update.
  Property theorems only (helpers in HealSparse/Lemmas).
-/
import HealSparse.Lemmas.Core
import HealSparse.Lemmas.Coverage
import HealSparse.Lemmas.Ranges
import HealSparse.Model.Ranges
import HealSparse.Props.C04
import HealSparse.Props.C01
namespace HS
namespace C08

variable {V : Type} [DecidableEq V]

/-- well-formed range array: half-open, inside the sphere (any row order, overlaps and
    empty rows allowed, ends may be `npix` in any row) -/
def RangesOk (c : Cfg) (R : List (Nat × Nat)) : Prop := ∀ ab ∈ R, ab.1 ≤ ab.2 ∧ ab.2 ≤ c.npix

/-- `expand` lists exactly the pixels inside the ranges. -/
theorem expand_mem (R : List (Nat × Nat)) (p : Nat) :
    p ∈ expand R ↔ ∃ ab ∈ R, ab.1 ≤ p ∧ p < ab.2 := by
  exact expand_mem' R p

/-- The slice path preserves the storage layout. -/
theorem inv_updateRanges (c : Cfg) (vc : VCfg V) (s : State V) (h : V → V)
    (R : List (Nat × Nat)) (na : Bool) (hs : Inv c vc s) (hR : RangesOk c R) :
    Inv c vc (updateRanges c vc s h R na) := by
  exact (updateRanges_spec c vc s h R na hs hR).1

/-- **Refinement of the slice path**: every pixel gets the cell effect `h` applied once per
    range row containing it, in row order (and nothing when `no_append` and uncovered). -/
theorem updateRanges_refines (c : Cfg) (vc : VCfg V) (s : State V) (h : V → V)
    (R : List (Nat × Nat)) (na : Bool) (hs : Inv c vc s) (hR : RangesOk c R)
    (p : Nat) (hp : p < c.npix) :
    abs c vc (updateRanges c vc s h R na) p
      = denseUpdate c (abs c vc s) (covered c s) (fun x (_ : Unit) => h x)
          ((expand R).map fun q => (q, ())) na p := by
  exact (updateRanges_spec c vc s h R na hs hR).2.2 p hp

/-- **The two paths agree** (operations without pre-pass: replace, or, and, add over a zero
    sentinel, None-clear): updating with ranges gives the same value at every pixel as
    updating with the explicit list of pixels the ranges contain. -/
theorem ranges_eq_explicit {W : Type} (c : Cfg) (vc : VCfg V) (s : State V) (f : V → W → V) (w : W)
    (R : List (Nat × Nat)) (na : Bool) (hs : Inv c vc s) (hR : RangesOk c R)
    (p : Nat) (hp : p < c.npix) :
    abs c vc (updateRanges c vc s (cellEffect none f w) R na) p
      = abs c vc (updatePix c vc s none f ((expand R).map fun q => (q, w)) na) p := by
  rw [updateRanges_refines c vc s _ R na hs hR p hp]
  show _ = abs c vc (updateCore c vc s (stageOp id f)
    (stageList false ((expand R).map fun q => (q, w))) na) p
  rw [C01.updateCore_refines c vc s _ _ na hs (stageList_expand_lt c false R w hR) p hp]
  unfold denseUpdate
  rw [denseFold_stage_none]

/-- The two paths agree for operations with a pre-pass (`add` over a non-zero sentinel)
    when no pixel is addressed twice.  (With overlapping rows the slice path re-applies the
    pre-pass per row while the explicit path applies it once; they differ only if an
    intermediate sum equals the sentinel — the full statement without `Nodup` is false.) -/
theorem ranges_eq_explicit_pre_partial {W : Type} (c : Cfg) (vc : VCfg V) (s : State V)
    (pre : V → V) (f : V → W → V) (w : W)
    (R : List (Nat × Nat)) (na : Bool) (hs : Inv c vc s) (hR : RangesOk c R)
    (hnd : (expand R).Nodup) (p : Nat) (hp : p < c.npix) :
    abs c vc (updateRanges c vc s (cellEffect (some pre) f w) R na) p
      = abs c vc (updatePix c vc s (some pre) f ((expand R).map fun q => (q, w)) na) p := by
  rw [updateRanges_refines c vc s _ R na hs hR p hp]
  show _ = abs c vc (updateCore c vc s (stageOp pre f)
    (stageList true ((expand R).map fun q => (q, w))) na) p
  rw [C01.updateCore_refines c vc s _ _ na hs (stageList_expand_lt c true R w hR) p hp]
  unfold denseUpdate
  rw [denseFold_stage_some pre f w (expand R) hnd]

/-- The coverage after a range update contains the coverage the explicit update needs,
    and is unchanged under `no_append`. -/
theorem ranges_covered_superset (c : Cfg) (vc : VCfg V) (s : State V) (h : V → V)
    (R : List (Nat × Nat)) (na : Bool) (hs : Inv c vc s) (hR : RangesOk c R)
    (k : Nat) (hk : k < c.ncov) :
    (denseCov c (covered c s) ((expand R).map fun q => (q, ())) na k = true →
        covered c (updateRanges c vc s h R na) k = true) ∧
    (na = true → covered c (updateRanges c vc s h R na) k = covered c s k) := by
  have hc := (updateRanges_spec c vc s h R na hs hR).2.1 k hk
  refine ⟨fun hd => ?_, fun hna => ?_⟩
  · rw [hc]
    exact ranges_covered_aux c s R na hR k hk hd
  · rw [hc, hna]
    simp

/-- `hpg.upgrade_pixel_ranges`: shifting both ends left by `g` bits -/
def upgradeRanges (g : Nat) (R : List (Nat × Nat)) : List (Nat × Nat) :=
  R.map fun ab => (ab.1 <<< g, ab.2 <<< g)

/-- A shape with a fixed render resolution covers exactly the children of its rendered pixels. -/
theorem expand_upgrade (g : Nat) (R : List (Nat × Nat)) (p : Nat) :
    p ∈ expand (upgradeRanges g R) ↔ (p >>> g) ∈ expand R := by
  exact expand_upgrade' g R p

/-- non-vacuity: a row ending at the last pixel in a non-final row position, a row on a block edge -/
example : RangesOk ⟨3, 1⟩ [(4, 6), (0, 2), (1, 1)] := by unfold RangesOk; decide
example : (updateRanges (V := Nat) ⟨3, 1⟩ ⟨0, fun x => x != 0⟩ ⟨#[0, -2, -4], #[0, 0]⟩
    (fun _ => 5) [(4, 6), (1, 3)] false).sp = #[0, 0, 0, 5, 5, 0, 5, 5] := by decide +kernel

end C08
end HS
