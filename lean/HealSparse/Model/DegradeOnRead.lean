/-
  Degrade-on-read: `_read_healsparse_fits_file_and_degrade` (io_map_fits.py 344-564, after
  the `fix:` commits): per requested covered coverage pixel (ascending) the block is read
  from the SPARSE extension by row range, regrouped and reduced, and stored as the next
  block of the output; the overflow block of the output is the output sentinel.
-/
import HealSparse.Model.Core
import HealSparse.Model.Map
import HealSparse.Model.FitsIO
import HealSparse.Model.Resolution
namespace HS

variable {V W : Type}

/-- coverage pixels processed: all covered ones (ascending) or the covered requested ones (sorted);
    `none` = RuntimeError (duplicates / nothing covered) -/
def dorPixels (c : Cfg) (f : FitsFile V) (pixels : Option (List Nat)) : Option (List Nat) :=
  match pixels with
  | none => some ((List.range c.ncov).filter fun k => covered c (⟨f.cov, f.data⟩ : State V) k)
  | some l =>
    if l.eraseDups.length < l.length then none
    else
      let px := partialPixels c f l
      if px.isEmpty then none else some px

/-- unweighted degrade-on-read -/
def degradeOnRead (c : Cfg) (vc : VCfg V) (f : FitsFile V) (pixels : Option (List Nat)) (g : Nat)
    (red : List V → W) (sentOut : W) : Option (State W) :=
  (dorPixels c f pixels).map fun px =>
    let cOut := degCfg c g
    let grp := 2 ^ g
    let s : State V := ⟨f.cov, f.data⟩
    let outBlock (k : Nat) : List W :=
      let st := (blockStart c s k).toNat
      (List.range cOut.nfine).map fun r =>
        red ((List.range grp).map fun j => rd f.data (st + r * grp + j) vc.sentinel)
    { cov := initializePixels cOut (emptyCov cOut) px
      sp := (List.replicate cOut.nfine sentOut ++ px.flatMap outBlock).toArray }

/-- weighted degrade-on-read: the weight block of coverage pixel `k` is read from the weight
    file through ITS coverage index; `prep` is `w[w == sentinel_weight] = 0` -/
def degradeOnReadW {X : Type} (c : Cfg) (vc : VCfg V) (f : FitsFile V) (wf : FitsFile X) (dflt : X)
    (prep : X → X) (pixels : Option (List Nat)) (g : Nat) (red : List (V × X) → W) (sentOut : W) :
    Option (State W) :=
  (dorPixels c f pixels).map fun px =>
    let cOut := degCfg c g
    let grp := 2 ^ g
    let s : State V := ⟨f.cov, f.data⟩
    let ws : State X := ⟨wf.cov, wf.data⟩
    let outBlock (k : Nat) : List W :=
      let st := (blockStart c s k).toNat
      let wst := (blockStart c ws k).toNat
      (List.range cOut.nfine).map fun r =>
        red ((List.range grp).map fun j =>
          (rd f.data (st + r * grp + j) vc.sentinel, prep (rd wf.data (wst + r * grp + j) dflt)))
    { cov := initializePixels cOut (emptyCov cOut) px
      sp := (List.replicate cOut.nfine sentOut ++ px.flatMap outBlock).toArray }

end HS
