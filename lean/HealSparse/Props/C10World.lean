/-
  C10 at the WORLD level — maps with equal content are interchangeable, however they were
  produced.  (This file continues Props/C10.lean: the lemma files it rests on import Props/C10,
  so the theorems cannot live there.)

  Two worlds are content-equal (`World.SameW`, Lemmas/SameWorld.lean) when they bind the same
  names, in the same order, to maps with the same configuration, kind, sentinel, cache and view
  flag and CONTENT-EQUAL states (`C10.Same`: both obey the layout, every pixel reads the same,
  same coverage mask — the arrays may differ in block order), the same names to files that are
  content-equal in the same sense, the same names to HEALPix-format files holding the same
  (pixel, value) pairs (`HpSame`: an explicit file lists them in storage order), and agree on
  everything else.

  `same_step`: in content-equal good worlds every protocol line outside the exception set
  `diffLine` gives the SAME answer and content-equal worlds again — errors included.
  `same_history`: any list of lines.  `diff_same`: the exception set is the same in both worlds.

  The per-operation simulations: Lemmas/SameOps.lean (owning targets), Lemmas/SameViews.lean
  (in-place operations through record-field views), Lemmas/SameRes.lean (`deg`, `genhp`, `dor`,
  `cat`, `hpxwrite`).
-/
import HealSparse.Lemmas.SameRes
namespace HS
namespace C10

/-- the name the line operates on resolves to a record-field view (no longer part of the
    exception set: view targets are covered; kept with `viewTarget_same` as a fact of its own) -/
def viewTarget (w : World) (a : Args) : Bool :=
  match w.get? (a.pos.headD "") with
  | some m => m.view.isSome
  | none => false

theorem noView_of {w : World} {a : Args} (h : viewTarget w a = false) : NoViewTarget w a := by
  intro m hm
  unfold viewTarget at h
  simp only [hm] at h
  cases hv : m.view with
  | none => rfl
  | some x => rw [hv] at h; cases h

/-- **the exception set** (parsed operation and arguments, judged in the world the line runs in):
    * `dump`, `state`, `fitsraw`: they print / compare the ARRAYS, which content-equal maps need
      not share (the only lines of the real protocol on which the two worlds are legitimately told
      apart);
    * `genhp` with `nest=0` and an `n2r=` table LONGER than the output map (`genhpLong`): the
      model then reads the dense view at pixel numbers past the map, i.e. raw storage — a GENUINE
      difference between content-equal worlds (`genhpCounterexample` below; a model artefact: the
      real library computes the table itself, and the harness passes the true table).  Every
      other `genhp` line is covered;
    * `cat` of files that are not all read back with the kind and sentinel of the FIRST one
      (`catMixed`; the loop reads every file through the first file's sentinel): NOT covered —
      no difference was observed on hand-made attempts; the harness never mixes kinds.  Every
      `cat` of files of one kind and sentinel is covered.
    Covered: all 47 other operations + the whole `p.*` family + unknown operations: cfg upd updr
    set bits geom sop mask astype pack bop inv mop deg dor cat genhp hpxwrite moc interp chk copy
    info upg mocread single scov meta getmeta write read covread fromhp hpximplicit hpxread rand
    vals get valid nvalid covmap vpsc fracdet covmask drop reset bad.  In particular
    * the in-place operations (`upd`, `updr`, `set`, `bits`, `geom`, and `sop` / `mask` / `bop` /
      `inv` with `inplace=1`) whether their target is an owning map or a record-field VIEW (the
      store then writes the column back into the parent: Lemmas/SameViews.lean);
    * `deg` with or without a weight map, above or below the coverage resolution; `dor` on FITS
      files (with or without pixel request and weight file: the result is the same map, array
      for array) and on HEALPix-format files (Lemmas/SameRes.lean);
    * `hpxwrite`: the two files differ as LISTS (storage order) but hold the same (pixel, value)
      pairs, which is what `World.SameW` asks of HEALPix-format files (`HpSame`); `hpxread` and
      `dor` of such files give content-equal maps. -/
def diff (w : World) (op : String) (a : Args) : Bool :=
  match op with
  | "dump" | "state" | "fitsraw" => true
  | "genhp" => genhpLong w a
  | "cat" => catMixed w a
  | _ => false

/-- … on a protocol line -/
def diffLine (w : World) (line : String) : Bool :=
  match (line.trimAscii.toString.splitOn " ").filter (· != "") with
  | [] => false
  | op :: rest => if op.startsWith "p." then false else diff w op (parseArgs rest)

theorem inplace_noView {w : World} {a : Args} (h : (a.flag "inplace" && viewTarget w a) = false) :
    a.flag "inplace" = true → NoViewTarget w a := by
  intro hin
  rw [hin, Bool.true_and] at h
  exact noView_of h

/-- **one parsed operation in content-equal good worlds**, outside the exception set: the same
    answer, content-equal worlds -/
theorem same_stepArgs {w₁ w₂ : World} (h : w₁.SameW w₂) (g₁ : w₁.Good) (g₂ : w₂.Good)
    (op : String) (a : Args) (hex : diff w₁ op a = false) :
    SimR (stepArgs w₁ op a) (stepArgs w₂ op a) := by
  unfold stepArgs
  split
  all_goals first
    | exact SimR.same h _
    | (exact absurd (show true = false from hex) (by decide))
    | (with_reducible first
        | exact same_opCfg h a | exact same_opMocread h a | exact same_opFromhp h a
        | exact same_opHpximplicit h a | exact same_opHpxread h a | exact same_opRand h a
        | exact same_opCovread h a | exact same_opRead h a | exact same_opDrop h a
        | exact same_opReset a
        | exact same_opVals h g₁ g₂ a | exact same_opGet h g₁ g₂ a | exact same_opCovmask h g₁ g₂ a
        | exact same_opCovmap h g₁ g₂ a | exact same_opValid h g₁ g₂ a | exact same_opVpsc h g₁ g₂ a
        | exact same_opInfo h g₁ g₂ a | exact same_opChk h g₁ g₂ a | exact same_opGetmeta h g₁ g₂ a
        | exact same_opMeta h g₁ g₂ a | exact same_opBad h g₁ g₂ a | exact same_opCopy h g₁ g₂ a
        | exact same_opNvalid h g₁ g₂ a | exact same_opWrite h g₁ g₂ a
        | exact same_opAstype h g₁ g₂ a | exact same_opScov h g₁ g₂ a | exact same_opUpg h g₁ g₂ a
        | exact same_opFracdet h g₁ g₂ a | exact same_opSingle h g₁ g₂ a
        | exact same_opMop h g₁ g₂ a | exact same_opPack h g₁ g₂ a | exact same_opInterp h g₁ g₂ a
        | exact same_opMoc h g₁ g₂ a | exact same_opDeg h g₁ g₂ a | exact same_opDor h a
        | exact same_opHpxwrite h g₁ g₂ a)
    | exact same_opGenhp h g₁ g₂ a hex
    | exact same_opCat h g₁ a hex
    | (with_reducible first
        | exact sameV_opUpd h g₁ g₂ a | exact sameV_opUpdr h g₁ g₂ a | exact sameV_opSet h g₁ g₂ a
        | exact sameV_opBits h g₁ g₂ a | exact sameV_opGeom h g₁ g₂ a | exact sameV_opSop h g₁ g₂ a
        | exact sameV_opMask h g₁ g₂ a | exact sameV_opBop h g₁ g₂ a | exact sameV_opInv h g₁ g₂ a)

/-- **one protocol line in content-equal good worlds**: outside the exception set the same line
    gives the same answer — `ok`, an observation, or `err X` with the same `X` — and
    content-equal worlds again -/
theorem same_step {w₁ w₂ : World} (h : w₁.SameW w₂) (g₁ : w₁.Good) (g₂ : w₂.Good) (line : String)
    (hex : diffLine w₁ line = false) :
    (step w₁ line).2 = (step w₂ line).2 ∧ (step w₁ line).1.SameW (step w₂ line).1 := by
  unfold step
  unfold diffLine at hex
  simp only
  split
  · exact SimR.same h _
  · rename_i op rest htoks
    simp only [htoks] at hex
    split
    · rw [show w₂.packed = w₁.packed from h.2.2.1.symm]
      exact ⟨rfl, h.with_packed _⟩
    · rename_i hp
      simp only [hp, Bool.false_eq_true, if_false] at hex
      exact same_stepArgs h g₁ g₂ op (parseArgs rest) hex

/-! ### the exception set is the same in content-equal worlds -/

theorem viewTarget_same {w₁ w₂ : World} (h : w₁.SameW w₂) (g₁ : w₁.Good) (g₂ : w₂.Good) (a : Args) :
    viewTarget w₁ a = viewTarget w₂ a := by
  unfold viewTarget
  rcases h.get g₁ g₂ (a.pos.headD "") with ⟨e1, e2⟩ | ⟨m₁, m₂, e1, e2, hc⟩
  · rw [e1, e2]
  · rw [e1, e2]; simp only [hc.view_eq]

theorem genhpLong_same {w₁ w₂ : World} (h : w₁.SameW w₂) (g₁ : w₁.Good) (g₂ : w₂.Good) (a : Args) :
    genhpLong w₁ a = genhpLong w₂ a := by
  unfold genhpLong
  rcases h.get g₁ g₂ (a.pos.headD "") with ⟨e1, e2⟩ | ⟨m₁, m₂, e1, e2, hc⟩
  · rw [e1, e2]
  · rw [e1, e2]
    cases parseNats (a.getD "n2r" "_") with
    | none => rfl
    | some t => simp only [hc.spord_eq]

theorem diff_same {w₁ w₂ : World} (h : w₁.SameW w₂) (g₁ : w₁.Good) (g₂ : w₂.Good) (op : String)
    (a : Args) : diff w₁ op a = diff w₂ op a := by
  unfold diff
  split <;> first | rfl | exact genhpLong_same h g₁ g₂ a | exact catMixed_same h a

theorem diffLine_same {w₁ w₂ : World} (h : w₁.SameW w₂) (g₁ : w₁.Good) (g₂ : w₂.Good)
    (line : String) : diffLine w₁ line = diffLine w₂ line := by
  unfold diffLine
  split
  · rfl
  · simp only [diff_same h g₁ g₂]

/-! ### any history -/

/-- run a history, collecting the answers -/
def runObs (w : World) : List String → World × List String
  | [] => (w, [])
  | l :: ls => ((runObs (step w l).1 ls).1, (step w l).2 :: (runObs (step w l).1 ls).2)

/-- no line of the history falls in the exception set (each judged in the world it is run in) -/
def sameSafe (w : World) : List String → Bool
  | [] => true
  | l :: ls => !diffLine w l && sameSafe (step w l).1 ls

theorem runObs_world (w : World) (lines : List String) :
    (runObs w lines).1 = lines.foldl (fun w l => (step w l).1) w := by
  induction lines generalizing w with
  | nil => rfl
  | cons l ls ih => simp only [runObs, List.foldl_cons, ih]

/-- **any history in content-equal good worlds**: if no line falls in the exception set, the two
    runs give the same list of answers and end in content-equal worlds -/
theorem same_history {w₁ w₂ : World} (h : w₁.SameW w₂) (g₁ : w₁.Good) (g₂ : w₂.Good)
    (lines : List String) (hs : sameSafe w₁ lines = true) :
    (runObs w₁ lines).2 = (runObs w₂ lines).2 ∧ (runObs w₁ lines).1.SameW (runObs w₂ lines).1 := by
  induction lines generalizing w₁ w₂ with
  | nil => exact ⟨rfl, h⟩
  | cons l ls ih =>
    simp only [sameSafe, Bool.and_eq_true, Bool.not_eq_true'] at hs
    obtain ⟨ho, ht⟩ := same_step h g₁ g₂ l hs.1
    obtain ⟨io, it⟩ := ih ht (Good.step g₁ l) (Good.step g₂ l) hs.2
    exact ⟨by simp only [runObs, ho, io], it⟩

/-- the safety condition may be judged in either world -/
theorem sameSafe_same {w₁ w₂ : World} (h : w₁.SameW w₂) (g₁ : w₁.Good) (g₂ : w₂.Good)
    (lines : List String) : sameSafe w₁ lines = sameSafe w₂ lines := by
  induction lines generalizing w₁ w₂ with
  | nil => rfl
  | cons l ls ih =>
    simp only [sameSafe, diffLine_same h g₁ g₂ l]
    cases hd : diffLine w₂ l with
    | true => rfl
    | false =>
      simp only [Bool.not_false, Bool.true_and]
      have hd1 : diffLine w₁ l = false := by rw [diffLine_same h g₁ g₂ l]; exact hd
      exact ih (same_step h g₁ g₂ l hd1).2 (Good.step g₁ l) (Good.step g₂ l)

/-- **construction routes**: if two setup histories reach content-equal worlds, every
    continuation outside the exception set is indistinguishable — the same answers line by line,
    content-equal worlds at the end -/
theorem same_routes (setup₁ setup₂ : List String)
    (h : (runLines setup₁).SameW (runLines setup₂)) (lines : List String)
    (hs : sameSafe (runLines setup₁) lines = true) :
    (runObs (runLines setup₁) lines).2 = (runObs (runLines setup₂) lines).2 ∧
    (runLines (setup₁ ++ lines)).SameW (runLines (setup₂ ++ lines)) := by
  obtain ⟨ho, hw⟩ := same_history h (Good.runLines setup₁) (Good.runLines setup₂) lines hs
  refine ⟨ho, ?_⟩
  rw [runObs_world, runObs_world] at hw
  unfold runLines at hw ⊢
  rw [List.foldl_append, List.foldl_append]
  exact hw

/-! ### one concrete family of construction routes -/

theorem entSame_refl_of_good {w : World} (g : w.Good) : ∀ e ∈ w.pool, EntSame e.2 e.2 := by
  intro e he
  cases hv : e.2.view with
  | none => exact .inl ⟨hv, MapObj.SameC.refl (g.1 e he hv).1⟩
  | some x => exact .inr ⟨(by rw [hv]; exact fun h => nomatch h), rfl⟩

/-- rebinding a name twice: only the last binding counts, and content-equal last bindings give
    content-equal worlds whatever was bound in between -/
theorem bind_bind_sameW {w : World} (g : w.Good) (n : String) {x y a b : MapObj} (hab : a.SameC b) :
    ((w.bind n x).bind n a).SameW ((w.bind n y).bind n b) := by
  have hpool : ∀ z : MapObj, ((w.bind n z).pool.filter (·.1 != n)) = w.pool.filter (·.1 != n) := by
    intro z
    unfold World.bind
    simp only [List.filter_cons, bne_self_eq_false, Bool.false_eq_true, if_false, List.filter_filter,
      Bool.and_self]
  refine ⟨?_, Named.refl_on fun e he => FileObj.SameF.refl (g.2.2 e he).1, rfl, rfl,
    Named.refl HpSame.refl _, rfl⟩
  show Named EntSame ((n, _) :: (w.bind n x).pool.filter (·.1 != n))
    ((n, _) :: (w.bind n y).pool.filter (·.1 != n))
  rw [hpool, hpool]
  exact .cons (.inl ⟨rfl, hab.with_view none⟩)
    (Named.refl_on fun e he => entSame_refl_of_good g e (List.mem_filter.1 he).1)

/-- **the same pixels written in two different orders**: in any good world, for an owning map
    `n`, storing the result of `replace A := va` then `replace B := vb` — or of `B` then `A` —
    (disjoint pixel lists; what `upd n pix=A val=va; upd n pix=B val=vb` and the two lines
    swapped do) leaves content-equal worlds: by `same_history` every continuation outside the
    exception set is then indistinguishable -/
theorem upd_routes_sameW {w : World} (g : w.Good) (n : String) {m m₁ m₁₂ m₂ m₂₁ : MapObj}
    {A B : List Nat} {va vb : Val} (hget : w.get? n = some m)
    (hdis : ∀ p, p ∈ A → p ∈ B → False)
    (h1 : apiUpdate m "replace" A (some [va]) true = .ok m₁)
    (h12 : apiUpdate m₁ "replace" B (some [vb]) true = .ok m₁₂)
    (h2 : apiUpdate m "replace" B (some [vb]) true = .ok m₂)
    (h21 : apiUpdate m₂ "replace" A (some [va]) true = .ok m₂₁) :
    ((w.bind n m₁).bind n m₁₂).SameW ((w.bind n m₂).bind n m₂₁) :=
  bind_bind_sameW g n (replace_commute (g.get hget).1 hdis h1 h12 h2 h21)

/-! ### non-vacuity: two construction routes, evaluated (the kernel cannot run the line parser) -/

section examples

instance (c : Cfg) (vc : VCfg Val) (s₁ s₂ : State Val) : Decidable (Same c vc s₁ s₂) := by
  unfold Same; infer_instance

/-- executable check of `MapObj.SameC` -/
def sameCB (a b : MapObj) : Bool :=
  decide (a.covord = b.covord) && decide (a.spord = b.spord) && decide (a.kind = b.kind) &&
  decide (a.sent = b.sent) && decide (a.cache = b.cache) && decide (a.view = b.view) &&
  decide (Same a.c a.vc a.st b.st)

/-- executable check of the pool part of `World.SameW` (owning entries) -/
def samePoolB (w₁ w₂ : World) : Bool :=
  decide (w₁.pool.map (·.1) = w₂.pool.map (·.1)) &&
  (w₁.pool.zip w₂.pool).all fun p => sameCB p.1.2 p.2.2

/-- pixel 40 written before pixel 5 … -/
def route₁ : List String :=
  ["cfg m kind=plain dtype=i4 covord=0 spord=1", "upd m pix=40 val=9", "upd m pix=5 val=7"]
/-- … and the two lines swapped -/
def route₂ : List String :=
  ["cfg m kind=plain dtype=i4 covord=0 spord=1", "upd m pix=5 val=7", "upd m pix=40 val=9"]

/-- a continuation through updates, range updates, scalar operators, masks, casts, sub-maps,
    resolution changes, files, counting and listing -/
def continuation : List String :=
  ["vals m", "valid m", "nvalid m", "nvalid m", "covmask m", "covmap m", "vpsc m k=1", "info m",
   "upd m pix=6,41,20 vals=1,2,3", "updr m ranges=0:3,44:48 val=5 path=slice",
   "updr m ranges=10:12 val=4 path=expand", "get m pix=5,6,40,41,0,47",
   "sop m op=add k=1 r=q", "sop m op=mul k=2 inplace=1", "vals q", "mask m by=q bits=1 r=mk",
   "valid mk", "astype m dtype=f8 r=mf", "vals mf", "scov m k=10 r=sc", "valid sc",
   "upg m ord=2 r=up", "nvalid up", "fracdet m ord=0 r=fd", "vals fd",
   "write m f=F", "covread f=F", "read f=F r=z", "read f=F r=zp pixels=10,1", "vals zp",
   "copy m r=c", "upd c pix=99 val=1", "set m slice=0:48:7 val=8", "vals m", "valid m", "nvalid m",
   "cfg k kind=plain dtype=i4 covord=0 spord=1", "upd k pix=5,30 vals=2,3",
   "mop maps=m,k name=sum_union r=s1", "vals s1", "mop maps=m,k name=max_intersection r=s2",
   "valid s2", "mop maps=m name=sum_union r=s3", "geom m ranges=0:4 value=3 op=replace mode=ior",
   "vals m", "moc m f=M", "mocread f=M covord=0 r=mm", "valid mm",
   "interp m nb=5:6:40:41 w=1:1:1:1", "astype m dtype=b1 r=bb", "pack bb r=pb", "valid pb"]

-- the two routes reach DIFFERENT arrays …
#guard (step (runLines route₁) "dump m").2 != (step (runLines route₂) "dump m").2
-- … but content-equal worlds,
#guard samePoolB (runLines route₁) (runLines route₂)
-- no line of the continuation falls in the exception set,
#guard sameSafe (runLines route₁) continuation
-- the answers agree line by line (what `same_history` proves),
#guard (runObs (runLines route₁) continuation).2 == (runObs (runLines route₂) continuation).2
-- the final worlds are content-equal again, with different arrays,
#guard samePoolB (runObs (runLines route₁) continuation).1 (runObs (runLines route₂) continuation).1
#guard (step (runObs (runLines route₁) continuation).1 "dump m").2
        != (step (runObs (runLines route₂) continuation).1 "dump m").2
-- errors included: the same refusals on both sides
#guard (runObs (runLines route₁) ["upd m pix=5,5 vals=1,2", "upd m pix=48 val=1", "sop m op=and k=1^1 ktype=flt"]).2
        == ["err ValueError", "err IndexError", "err NotImplementedError"]
#guard (runObs (runLines route₂) ["upd m pix=5,5 vals=1,2", "upd m pix=48 val=1", "sop m op=and k=1^1 ktype=flt"]).2
        == ["err ValueError", "err IndexError", "err NotImplementedError"]
-- the exception set flags the array dumps and the operations not covered
#guard diffLine (runLines route₁) "dump m" && diffLine (runLines route₁) "state m cov=_ sp=_" &&
       !diffLine (runLines route₁) "hpxwrite m f=H" && !diffLine (runLines route₁) "deg m ord=0 r=d" &&
       !diffLine (runLines route₁) "dor f=F ord=0 r=d" && !diffLine (runLines route₁) "cat files=F,G f=C" &&
       !diffLine (runLines route₁) "genhp m ord=0 red=sum" && !diffLine (runLines route₁) "upd m pix=1 val=1" &&
       !diffLine (runLines route₁) "mop maps=m,m name=sum_union r=x"

/-- resolution changes, concatenation and HEALPix interchange, run after both routes -/
def resContinuation : List String :=
  ["deg m ord=0 red=sum r=d1", "vals d1", "deg m ord=0 red=mean r=d2", "vals d2",
   "deg m ord=0 red=or r=d3", "vals d3",
   "cfg k kind=plain dtype=i4 covord=0 spord=1", "upd k pix=5,30 vals=2,3",
   "mop maps=m,k name=sum_union r=s1", "vals s1", "mop maps=m,k name=max_intersection r=s2",
   "vals s2", "valid s2", "moc m f=M", "mocread f=M covord=0 r=mm", "valid mm",
   "genhp m", "genhp m ord=0 red=sum", "interp m nb=5:6:40:41 w=1:1:1:1",
   "hpxwrite m f=H", "hpxread f=H covord=0 r=hh", "vals hh",
   "write m f=F", "dor f=F ord=0 red=sum r=dd", "vals dd",
   "write k f=G", "cat files=F,G f=C", "read f=C r=cc", "vals cc",
   "geom m ranges=0:4 value=3 op=replace mode=ior", "vals m",
   "cfg b kind=plain dtype=b1 covord=0 spord=2", "upd b pix=100 val=T", "upd b pix=5 val=T",
   "pack b r=pb", "valid pb", "vals pb"]

-- no line falls in the exception set; the same answers on both routes (what `same_history` proves)
#guard sameSafe (runLines route₁) resContinuation
#guard (runObs (runLines route₁) resContinuation).2 == (runObs (runLines route₂) resContinuation).2
#guard ((runObs (runLines route₁) resContinuation).2.filter (· == "ok")).length ≥ 15

/-- the (pixel, value) lists of an explicit HEALPix-format file -/
def hpPairs (w : World) (n : String) : Option (List Nat × List Val) :=
  match (w.hpfiles.find? (·.1 == n)).map (·.2) with
  | some (HpFile.explicit _ _ _ pix vals) => some (pix, vals)
  | _ => none

-- `hpxwrite`: the two files list the pixels in different orders (storage order) …
#guard (hpPairs (step (runLines route₁) "hpxwrite m f=H").1 "H").map (·.1) == some [40, 5]
#guard (hpPairs (step (runLines route₂) "hpxwrite m f=H").1 "H").map (·.1) == some [5, 40]
-- … and reading them back gives the same answers
#guard (runObs (runLines route₁) ["hpxwrite m f=H", "hpxread f=H covord=0 r=hh", "vals hh", "valid hh"]).2
        == (runObs (runLines route₂) ["hpxwrite m f=H", "hpxread f=H covord=0 r=hh", "vals hh", "valid hh"]).2

/-- boolean maps, record maps and views of the covered set, after two routes -/
def boolRoute (swap : Bool) : List String :=
  ["cfg b kind=plain dtype=b1 covord=0 spord=1", "cfg r kind=rec fields=i4,f8 primary=0 covord=0 spord=1"] ++
  (if swap then ["upd b pix=40 val=T", "upd b pix=5 val=T", "upd r pix=40 val=r1;2", "upd r pix=5 val=r3;4"]
   else ["upd b pix=5 val=T", "upd b pix=40 val=T", "upd r pix=5 val=r3;4", "upd r pix=40 val=r1;2"])

def boolContinuation : List String :=
  ["inv b r=nb", "valid nb", "bop b op=or rhs=nb r=ob", "valid ob", "bop b op=and const=F inplace=1",
   "valid b", "single r field=1 copy=1 r=s1", "vals s1", "single r field=1 r=v1", "vals v1",
   "nvalid v1", "geom b ranges=0:4 value=T op=or mode=or r=gb", "valid gb"]

#guard (step (runLines (boolRoute true)) "dump r").2 != (step (runLines (boolRoute false)) "dump r").2
#guard sameSafe (runLines (boolRoute true)) boolContinuation
#guard (runObs (runLines (boolRoute true)) boolContinuation).2
        == (runObs (runLines (boolRoute false)) boolContinuation).2

/-- in-place operations THROUGH VIEWS (the store writes the column back into the parent), on both
    routes: accepted writes, refused ones (a view cannot create pixels; boolean algebra on a
    numeric view), scalar operators, masks, ranges, slices, geometry -/
def viewContinuation : List String :=
  ["single r field=1 r=v1", "single r field=0 r=v0", "vals v1", "upd v1 pix=5 val=9^1", "vals r", "vals v1",
   "upd v1 pix=7 val=1", "upd v0 pix=40 val=8", "vals r", "updr v1 ranges=40:41 val=3 path=slice", "vals r",
   "updr v1 ranges=0:3 val=3", "set v1 slice=5:6:1 val=2", "vals r", "sop v1 op=add k=1 inplace=1", "vals r",
   "sop v0 op=mul k=3 inplace=1", "vals r", "nvalid v0", "nvalid r",
   "cfg q kind=plain dtype=i4 covord=0 spord=1", "upd q pix=5 val=1", "mask v0 by=q bits=1 inplace=1",
   "vals r", "valid r", "geom v0 ranges=5:6 value=3 op=replace mode=ior", "vals r",
   "bop v0 op=and const=F inplace=1", "inv v0 inplace=1", "bits v0 pix=5 bits=1",
   "geom v1 ranges=40:41 value=3^0 op=add mode=ior", "vals r", "upd v0 pix=5 none=1", "vals r", "valid r"]

-- no line falls in the exception set (view targets are covered), the answers agree line by line,
-- and the parents end content-equal with different arrays
#guard sameSafe (runLines (boolRoute true)) viewContinuation
#guard (runObs (runLines (boolRoute true)) viewContinuation).2
        == (runObs (runLines (boolRoute false)) viewContinuation).2
#guard ((runObs (runLines (boolRoute true)) viewContinuation).2.filter (· == "ok")).length ≥ 12
#guard (step (runObs (runLines (boolRoute true)) viewContinuation).1 "dump r").2
        != (step (runObs (runLines (boolRoute false)) viewContinuation).1 "dump r").2

/-! the `genhp` exception is genuine: all twelve coverage pixels allocated in two different orders,
    then a RING export through a malformed `n2r=` table (49 entries for 48 pixels, entry 48
    repeating entry 0): pixel 0 reads back `abs 48`, the first cell of the LAST storage block -/

/-- one pixel per coverage pixel, ascending … -/
def fullRoute₁ : List String :=
  ["cfg m kind=plain dtype=i4 covord=0 spord=1"] ++ (List.range 12).map fun k => s!"upd m pix={4*k} val={k+1}"
/-- … and descending -/
def fullRoute₂ : List String :=
  ["cfg m kind=plain dtype=i4 covord=0 spord=1"] ++
    (List.range 12).reverse.map fun k => s!"upd m pix={4*k} val={k+1}"
/-- the identity table with one entry too many -/
def genhpCounterexample : String :=
  "genhp m nest=0 n2r=" ++ ",".intercalate (((List.range 48) ++ [0]).map toString)

#guard samePoolB (runLines fullRoute₁) (runLines fullRoute₂)
#guard diffLine (runLines fullRoute₁) genhpCounterexample
#guard (step (runLines fullRoute₁) genhpCounterexample).2 != (step (runLines fullRoute₂) genhpCounterexample).2
#guard ((step (runLines fullRoute₁) genhpCounterexample).2.take 3) == "12,"
#guard ((step (runLines fullRoute₂) genhpCounterexample).2.take 2) == "1,"
-- with the table of the right length the line is covered, and the answers agree
#guard !diffLine (runLines fullRoute₁) ("genhp m nest=0 n2r=" ++ ",".intercalate ((List.range 48).map toString))
#guard (step (runLines fullRoute₁) ("genhp m nest=0 n2r=" ++ ",".intercalate ((List.range 48).map toString))).2
        == (step (runLines fullRoute₂) ("genhp m nest=0 n2r=" ++ ",".intercalate ((List.range 48).map toString))).2

/-- the theorems applied: any two routes whose final worlds are content-equal (hypothesis `h`,
    e.g. from `upd_routes_sameW`) are indistinguishable by `continuation` -/
example (setup₁ setup₂ : List String) (h : (runLines setup₁).SameW (runLines setup₂))
    (hs : sameSafe (runLines setup₁) continuation = true) :
    (runObs (runLines setup₁) continuation).2 = (runObs (runLines setup₂) continuation).2 :=
  (same_routes setup₁ setup₂ h continuation hs).1

/-- every reachable world is content-equal to itself: the relation is inhabited on all of them -/
example (lines : List String) : (runLines lines).SameW (runLines lines) :=
  World.SameW.refl (Good.runLines lines)

end examples

end C10
end HS
