/-
  C01 — a sparse map reads and writes exactly like a dense HEALPix array.
  Property theorems only (helpers in HealSparse/Lemmas).
-/
import HealSparse.Lemmas.Core
import HealSparse.Lemmas.Coverage
import HealSparse.Props.C04
import HealSparse.Lemmas.ApiDense
import HealSparse.Lemmas.ApiBits
namespace HS
namespace C01

variable {V : Type} [DecidableEq V]

/-- Growth does not change any pixel value. -/
theorem reserve_abs (c : Cfg) (vc : VCfg V) (s : State V) (new : List Nat)
    (h : Inv c vc s) (hnd : new.Nodup)
    (hnew : ∀ k ∈ new, k < c.ncov ∧ covered c s k = false) (p : Nat) (hp : p < c.npix) :
    abs c vc (reserve c vc s new) p = abs c vc s p := by
  exact reserve_abs' c vc s new h hnd hnew p hp

/-- Growth covers exactly the requested coverage pixels in addition. -/
theorem reserve_covered (c : Cfg) (vc : VCfg V) (s : State V) (new : List Nat)
    (h : Inv c vc s) (hnd : new.Nodup)
    (hnew : ∀ k ∈ new, k < c.ncov ∧ covered c s k = false) (k : Nat) (hk : k < c.ncov) :
    covered c (reserve c vc s new) k = (covered c s k || decide (k ∈ new)) := by
  exact reserve_covered' c vc s new h hnd k hk

/-- **Refinement**: one `update_values_pix` call (any operation `g`, operand list `L` with
    repeated pixels allowed, either append mode) changes the dense view exactly as the
    dense update does. -/
theorem updateCore_refines {W : Type} (c : Cfg) (vc : VCfg V) (s : State V) (g : V → W → V)
    (L : List (Nat × W)) (na : Bool)
    (h : Inv c vc s) (hL : ∀ qw ∈ L, qw.1 < c.npix) (p : Nat) (hp : p < c.npix) :
    abs c vc (updateCore c vc s g L na) p
      = denseUpdate c (abs c vc s) (covered c s) g L na p := by
  exact updateCore_refines' c vc s g L na h hL p hp

/-- The coverage mask after an update is the dense coverage. -/
theorem updateCore_covered {W : Type} (c : Cfg) (vc : VCfg V) (s : State V) (g : V → W → V)
    (L : List (Nat × W)) (na : Bool)
    (h : Inv c vc s) (hL : ∀ qw ∈ L, qw.1 < c.npix) (k : Nat) (hk : k < c.ncov) :
    covered c (updateCore c vc s g L na) k = denseCov c (covered c s) L na k := by
  exact updateCore_covered' c vc s g L na h hL k hk

/-- One update operation of a history (the operand type may differ per call). -/
structure UpdOp (V : Type) where
  W  : Type
  g  : V → W → V
  L  : List (Nat × W)
  na : Bool

def UpdOp.inRange (c : Cfg) (o : UpdOp V) : Prop := ∀ qw ∈ o.L, qw.1 < c.npix

/-- run a history on the sparse representation -/
def runHist (c : Cfg) (vc : VCfg V) (s : State V) (h : List (UpdOp V)) : State V :=
  h.foldl (fun s o => updateCore c vc s o.g o.L o.na) s

/-- run the same history on a dense array + coverage set -/
def denseHist (c : Cfg) (d : (Nat → V) × (Nat → Bool)) (h : List (UpdOp V)) :
    (Nat → V) × (Nat → Bool) :=
  h.foldl (fun d o => (denseUpdate c d.1 d.2 o.g o.L o.na, denseCov c d.2 o.L o.na)) d

/-- **Every history**: after any sequence of updates starting from any well-formed state,
    every pixel reads what the dense array holds, the coverage mask is the dense coverage,
    and the layout invariant holds. -/
theorem history_refines (c : Cfg) (vc : VCfg V) (s : State V) (hs : Inv c vc s)
    (h : List (UpdOp V)) (hr : ∀ o ∈ h, o.inRange c) :
    Inv c vc (runHist c vc s h) ∧
    (∀ p, p < c.npix → abs c vc (runHist c vc s h) p
        = (denseHist c (abs c vc s, covered c s) h).1 p) ∧
    (∀ k, k < c.ncov → covered c (runHist c vc s h) k
        = (denseHist c (abs c vc s, covered c s) h).2 k) := by
  have key : ∀ (h : List (UpdOp V)) (s : State V) (d : (Nat → V) × (Nat → Bool)),
      Inv c vc s → (∀ o ∈ h, o.inRange c) →
      (∀ p, p < c.npix → abs c vc s p = d.1 p) → (∀ k, k < c.ncov → covered c s k = d.2 k) →
      Inv c vc (runHist c vc s h) ∧
      (∀ p, p < c.npix → abs c vc (runHist c vc s h) p = (denseHist c d h).1 p) ∧
      (∀ k, k < c.ncov → covered c (runHist c vc s h) k = (denseHist c d h).2 k) := by
    intro h
    induction h with
    | nil => intro s d hs _ hv hc; exact ⟨hs, hv, hc⟩
    | cons o h ih =>
      intro s d hs hr hv hc
      have ho : o.inRange c := hr o List.mem_cons_self
      refine ih (updateCore c vc s o.g o.L o.na)
        (denseUpdate c d.1 d.2 o.g o.L o.na, denseCov c d.2 o.L o.na)
        (C04.inv_updateCore c vc s o.g o.L o.na hs ho)
        (fun o' ho' => hr o' (List.mem_cons_of_mem _ ho')) ?_ ?_
      · intro p hp
        rw [updateCore_refines c vc s o.g o.L o.na hs ho p hp]
        exact denseUpdate_congr c _ _ _ _ o.g o.L o.na p (hv p hp) (hc _ (covpix_lt c p hp))
      · intro k hk
        rw [updateCore_covered c vc s o.g o.L o.na hs ho k hk]
        exact denseCov_congr c _ _ o.L o.na k (hc k hk)
  exact key h s (abs c vc s, covered c s) hs hr (fun _ _ => rfl) (fun _ _ => rfl)

/-- The empty map reads as the sentinel everywhere. -/
theorem makeEmpty_abs (c : Cfg) (vc : VCfg V) (P : List Nat)
    (hnd : P.Nodup) (hlt : ∀ k ∈ P, k < c.ncov) (p : Nat) (hp : p < c.npix) :
    abs c vc (makeEmpty c vc P) p = vc.sentinel := by
  exact makeEmpty_abs' c vc P p

/-- Pixels never written read as the sentinel, after any history from the empty map. -/
theorem never_written_reads_sentinel (c : Cfg) (vc : VCfg V)
    (h : List (UpdOp V)) (hr : ∀ o ∈ h, o.inRange c) (p : Nat) (hp : p < c.npix)
    (hnw : ∀ o ∈ h, ∀ qw ∈ o.L, qw.1 ≠ p) :
    abs c vc (runHist c vc (makeEmpty c vc []) h) p = vc.sentinel := by
  have key : ∀ (h : List (UpdOp V)) (s : State V), Inv c vc s → (∀ o ∈ h, o.inRange c) →
      (∀ o ∈ h, ∀ qw ∈ o.L, qw.1 ≠ p) → abs c vc (runHist c vc s h) p = abs c vc s p := by
    intro h
    induction h with
    | nil => intro s _ _ _; rfl
    | cons o h ih =>
      intro s hs hr hnw
      have ho : o.inRange c := hr o List.mem_cons_self
      have := ih (updateCore c vc s o.g o.L o.na)
        (C04.inv_updateCore c vc s o.g o.L o.na hs ho)
        (fun o' ho' => hr o' (List.mem_cons_of_mem _ ho'))
        (fun o' ho' => hnw o' (List.mem_cons_of_mem _ ho'))
      rw [updateCore_refines c vc s o.g o.L o.na hs ho p hp,
        denseUpdate_untouched c _ _ o.g o.L o.na p (hnw o List.mem_cons_self)] at this
      exact this
  rw [key h _ (C04.inv_makeEmpty c vc [] List.nodup_nil (fun _ hk => nomatch hk)) hr hnw]
  exact makeEmpty_abs c vc [] List.nodup_nil (fun _ hk => nomatch hk) p hp

/-- `None` (clear) on a kind whose clear value is the sentinel: every addressed pixel reads
    the sentinel afterwards, covered or not, and nothing else changes. -/
theorem clear_spec (c : Cfg) (vc : VCfg V) (s : State V) (h : Inv c vc s)
    (pix : List Nat) (hL : ∀ q ∈ pix, q < c.npix) (p : Nat) (hp : p < c.npix) :
    abs c vc (updateCore c vc s (fun _ (w : V) => w) (pix.map (·, vc.sentinel)) true) p
      = if p ∈ pix then vc.sentinel else abs c vc s p := by
  have hL' : ∀ qw ∈ pix.map (·, vc.sentinel), qw.1 < c.npix := by
    intro qw hq
    obtain ⟨q, hq', rfl⟩ := List.mem_map.1 hq
    exact hL q hq'
  rw [updateCore_refines c vc s _ _ true h hL' p hp]
  unfold denseUpdate
  rw [denseFold_clear]
  cases hc : covered c s (p >>> c.shift) with
  | true => simp
  | false =>
    have := h.abs_uncovered hp hc
    simp [this]

open ApiDense ApiRanges

/-! ## The protocol against a dense interpreter

The definitions live in Lemmas/ApiDense.lean: `DenseMap` (header + one value per pixel),
`dUpdate` / `dRanges` (`update_values_pix` on a dense array, validation included), `dstepArgs` /
`dstep` (the dense interpreter of the lines `cfg`, `upd`, `updr`, `set`, `get`, `vals`),
`Rel w D` (a world and a dense world agree), `getAnswer` (what a read line answers from a
dense array). -/

/-! ### (1) the read paths -/

/-- **`get`**: in ANY world, for the map the name resolves to (owning or view), the line is
    answered from the dense view `m.abs` alone — whatever access path the line names for the
    real side (`path=getitem_arr|getitem_list|getitem_int`, `ring=`, `lon=`/`lat=`: the model has
    one reading of a pixel and ignores these keys) — and the world is returned unchanged -/
theorem get_reads_dense_view (w : World) (a : Args) {n : String} {rest : List String} {m : MapObj}
    (hn : a.pos = n :: rest) (hg : w.get? n = some m) :
    opGet w a = (w, getAnswer a m.spord m.npix m.abs m.vc.valid) := by
  rw [opGet_eq]
  unfold withMap
  rw [hn]
  simp only [hg]

/-- the answer for a resolved pixel list: the values `f p` in the addressed order (`vm=1`: their
    validity), IndexError as soon as one pixel is outside the sphere (slices are NOT clipped) -/
theorem getAnswer_pixels (a : Args) (spord npix : Nat) (f : Nat → Val) (valid : Val → Bool)
    {l : List Nat} (hreq : getReq a spord = some (some l)) :
    getAnswer a spord npix f valid =
      if (∃ p ∈ l, npix ≤ p) then "err IndexError"
      else if a.flag "vm" then showBits (l.map fun p => valid (f p)) else showVals (l.map f) := by
  unfold getAnswer
  rw [hreq]
  simp only []
  by_cases hb : (l.any fun x => decide (x ≥ npix)) = true
  · have hex : ∃ p ∈ l, npix ≤ p := by
      obtain ⟨p, hp, hge⟩ := List.any_eq_true.1 hb
      exact ⟨p, hp, by simpa using hge⟩
    rw [if_pos hb, if_pos hex]
    decide +kernel
  · have hne : ¬ ∃ p ∈ l, npix ≤ p := by
      rintro ⟨p, hp, hge⟩
      exact hb (List.any_eq_true.2 ⟨p, hp, by simpa using hge⟩)
    rw [if_neg hb, if_neg hne]

/-- the addressed pixels: `pix=` as listed … -/
theorem getReq_pix (a : Args) (spord : Nat) (h1 : a.get? "slice" = none) (h2 : a.get? "nsord" = none) :
    getReq a spord = (parseNats (a.getD "pix" "_")).map some := by
  unfold getReq Args.nat?
  simp only [h1, h2, Option.bind_none]

/-- … or `slice=lo:hi:st`: Python's `range(lo, hi, st)` (`st = 0` is malformed) -/
theorem getReq_slice (a : Args) (spord : Nat) {sl : String} {lo hi st : Nat} (h1 : a.get? "slice" = some sl)
    (hsl : (sl.splitOn ":").map String.toNat? = [some lo, some hi, some st]) (hst : st ≠ 0)
    (h2 : a.get? "nsord" = none) :
    getReq a spord = some (some (slicePix lo hi st)) := by
  unfold getReq Args.nat?
  have : (st == 0) = false := by simpa using hst
  simp only [h1, h2, hsl, Option.bind_none, this, Bool.false_eq_true, if_false, Option.map_some]

/-- the slice `lo:hi:st` holds the pixels `lo, lo+st, …` below `hi`, in order; it is empty when
    `hi ≤ lo` -/
theorem slice_semantics {lo hi st : Nat} (hst : 0 < st) :
    (∀ p, p ∈ slicePix lo hi st ↔ lo ≤ p ∧ p < hi ∧ (p - lo) % st = 0) ∧
    (slicePix lo hi st).length = (hi - lo + st - 1) / st ∧
    (∀ i, i < (hi - lo + st - 1) / st → (slicePix lo hi st)[i]? = some (lo + i * st)) ∧
    (hi ≤ lo → slicePix lo hi st = []) :=
  ⟨mem_slicePix hst, length_slicePix lo hi st, fun i hi' => getElem?_slicePix lo hi st i hi',
    slicePix_empty hst⟩

/-- **`vals`**: the whole dense array `[m.abs 0, …, m.abs (npix-1)]` -/
theorem vals_reads_dense_array (w : World) (a : Args) {n : String} {rest : List String} {m : MapObj}
    (hn : a.pos = n :: rest) (hg : w.get? n = some m) :
    opVals w a = (w, showVals ((List.range m.npix).map m.abs)) := by
  rw [opVals_eq]
  unfold withMap
  rw [hn]
  simp only [hg]

/-- a record-field view, in a world reachable by any protocol history, reads its parent's
    field: `v.abs p = recField i (parent.abs p)` -/
theorem view_reads_parent_field (lines : List String) {n : String} {v : MapObj} {pn : String} {i : Nat}
    (hg : (runLines lines).get? n = some v) (hv : v.view = some (pn, i)) :
    ∃ par, (runLines lines).get? pn = some par ∧ par.WF ∧ v.npix = par.npix ∧
      ∀ q, q < par.npix → v.abs q = recField i (par.abs q) := by
  have hw := Good.runLines lines
  rcases World.get?_cases hg with ⟨_, hnone⟩ | ⟨d, pn', i', par, hd, hdv, hp, hs, hmat, _, _⟩
  · rw [hnone] at hv; cases hv
  · obtain ⟨dt, s', _, h1, h2, _, _, _, _, h7⟩ := WFApi.materializeView_ok hmat
    rw [h7] at hv
    cases hv
    have hrec := materializeView_parent_recd hmat
    obtain ⟨e, he, _, rfl⟩ := World.raw?_mem hp
    have hpv : e.2.view = none := by
      cases hvv : e.2.view with
      | none => rfl
      | some x =>
        have := hw.2.1 e he (by rw [hvv]; exact fun h => nomatch h)
        rw [this] at hrec; cases hrec
    have hget : (runLines lines).get? pn = some e.2 := by
      unfold World.get?
      rw [hp]
      simp only [hpv]
    have hwf := (hw.1 e he hpv).1
    refine ⟨e.2, hget, hwf, ?_, fun q hq => materializeView_abs hwf hmat q hq⟩
    unfold MapObj.npix MapObj.c
    rw [h1, h2]

/-! ### (2), (5) the write paths and the headline -/

/-- **one write or read line** of a plain history, in any world that agrees with a dense world:
    the protocol and the dense interpreter answer alike and still agree afterwards.  For the
    write lines this says: `upd` (one value broadcast / one value per pixel / `None`; operations
    `replace`, `add`, `or`, `and`; whatever `via=`, `ring=`, `lon=`/`lat=` name for the real
    side), `updr` (on EITHER path: the two agree by `C08.api_ranges_agree`, and each agrees with
    the dense update of the expanded pixels) and `set` (slice assignment, `None` included) are
    accepted or refused exactly as `dUpdate` / `dRanges` decide from the header, the arguments
    and the dense values, and an accepted call changes the dense view to `dNew`: at every pixel
    the reset of `add` over a non-zero sentinel (unset counts as 0) and then the operation, once
    per occurrence of the pixel in call order (`dNew_single`, `dNew_none`, `dNew_replace_vals`,
    `dNew_not_mem`; `replace` with a repeated pixel is refused: `dUpdate_replace_dups`). -/
theorem plain_line_dense {w : World} {D : DenseWorld} (h : Rel w D) {line : String}
    (hp : plainLine line = true) :
    Rel (step w line).1 (dstep D line).1 ∧ (step w line).2 = (dstep D line).2 :=
  rel_step h hp

/-- **the headline.**  For EVERY history of plain lines (`cfg` of any kind, dtype, sentinel and
    coverage; `upd` / `updr` / `set` with any operation, value form, pixel list, ranges, path;
    `get` / `vals`; malformed or refused lines included): the world the protocol reaches and the
    dense world the dense interpreter reaches agree — the same names, the same headers, and
    every map reads at every pixel what the dense array holds. -/
theorem reachable_dense (lines : List String) (hp : ∀ l ∈ lines, plainLine l = true) :
    Rel (runLines lines) (drun lines) :=
  rel_runLines lines hp

/-- … hence reading after the history, through any read line, is indexing the dense array:
    any further plain line is answered by the protocol as by the dense interpreter -/
theorem reachable_dense_answer (lines : List String) (hp : ∀ l ∈ lines, plainLine l = true)
    (q : String) (hq : plainLine q = true) :
    (step (runLines lines) q).2 = (dstep (drun lines) q).2 :=
  (rel_step (rel_runLines lines hp) hq).2

/-- … and every answer ALONG the history agrees too -/
theorem reachable_dense_answers (lines : List String) (hp : ∀ l ∈ lines, plainLine l = true)
    (k : Nat) (hk : k < lines.length) :
    (step (runLines (lines.take k)) lines[k]).2 = (dstep (drun (lines.take k)) lines[k]).2 :=
  reachable_dense_answer (lines.take k) (fun l hl => hp l (List.mem_of_mem_take hl)) lines[k]
    (hp _ (List.getElem_mem hk))

/-- the map-level reading of the headline: a name bound after a plain history is bound on the
    dense side to an array with the same header that holds `m.abs p` at every pixel -/
theorem reachable_dense_map (lines : List String) (hp : ∀ l ∈ lines, plainLine l = true)
    {n : String} {m : MapObj} (hg : (runLines lines).get? n = some m) :
    ∃ d, (drun lines).get? n = some d ∧ m.WF ∧ m.view = none ∧ m.covord = d.covord ∧
      m.spord = d.spord ∧ m.kind = d.kind ∧ m.sent = d.sent ∧ ∀ p, p < m.npix → m.abs p = d.f p := by
  have hR := rel_runLines lines hp
  have hm := hR.maps n
  rw [hR.get?_eq n] at hg
  rw [hg] at hm
  cases hd : (drun lines).get? n with
  | none => rw [hd] at hm; exact hm.elim
  | some d =>
    rw [hd] at hm
    exact ⟨d, rfl, hm.wf, hm.view, hm.covord, hm.spord, hm.kind, hm.sent, hm.abs⟩

/-! ### (3) never-written pixels read the blank -/

/-- the raw line addresses pixel `p` of the map named `n`: it is an `upd` / `updr` / `set` line
    on that name whose `pix=` list / `ranges=` rows / `slice=` holds `p` (read off the line) -/
def hitsLine (n : String) (p : Nat) (line : String) : Bool :=
  match lineToks line with
  | [] => false
  | op :: rest => hits n p (op, parseArgs rest)

/-- along the history from world `w`, every line addressing `(n, p)` was answered something
    other than `ok` -/
def NeverWritten (n : String) (p : Nat) : World → List String → Prop
  | _, [] => True
  | w, l :: ls => (hitsLine n p l = true → (step w l).2 ≠ "ok") ∧ NeverWritten n p (step w l).1 ls

theorem blankAt_dstep {D : DenseWorld} {n : String} {p : Nat} (h : BlankAt D n p) (line : String)
    (hh : hitsLine n p line = true → (dstep D line).2 ≠ "ok") : BlankAt (dstep D line).1 n p := by
  unfold dstep hitsLine at *
  cases ht : lineToks line with
  | nil => exact h
  | cons op rest =>
    rw [ht] at hh
    exact blankAt_step h op (parseArgs rest) hh

/-- **never-written pixels read the blank** (`never_written_reads_sentinel` at the driver): after
    any plain history, a pixel of a map that no ACCEPTED write line addressed (since the world
    was empty; re-`cfg` of the name makes it blank again anyway) reads the blank cell of the
    map's kind — the sentinel, the zero row, the blank record -/
theorem never_written_reads_blank (lines : List String) (hp : ∀ l ∈ lines, plainLine l = true)
    (n : String) (p : Nat) (hnw : NeverWritten n p {} lines) {m : MapObj}
    (hg : (runLines lines).get? n = some m) (hpn : p < m.npix) :
    m.abs p = m.kind.blank m.sent := by
  have key : ∀ (ls : List String) (w : World) (D : DenseWorld), Rel w D → BlankAt D n p →
      (∀ l ∈ ls, plainLine l = true) → NeverWritten n p w ls →
      Rel (ls.foldl (fun w l => (step w l).1) w) (ls.foldl (fun D l => (dstep D l).1) D) ∧
      BlankAt (ls.foldl (fun D l => (dstep D l).1) D) n p := by
    intro ls
    induction ls with
    | nil => intro w D hR hB _ _; exact ⟨hR, hB⟩
    | cons l ls ih =>
      intro w D hR hB hpl hn
      obtain ⟨r1, r2⟩ := rel_step hR (hpl l List.mem_cons_self)
      refine ih _ _ r1 (blankAt_dstep hB l fun hh => ?_)
        (fun l' h' => hpl l' (List.mem_cons_of_mem _ h')) hn.2
      rw [← r2]
      exact hn.1 hh
  obtain ⟨hR, hB⟩ := key lines {} [] rel_empty (fun d hd => by cases hd) hp hnw
  have hR' : Rel (runLines lines) (lines.foldl (fun D l => (dstep D l).1) ([] : DenseWorld)) := hR
  have hg' : (runLines lines).raw? n = some m := by rw [← hR'.get?_eq n]; exact hg
  have hm := hR'.maps n
  rw [hg'] at hm
  cases hd : (lines.foldl (fun D l => (dstep D l).1) ([] : DenseWorld)).get? n with
  | none => rw [hd] at hm; exact hm.elim
  | some d =>
    rw [hd] at hm
    rw [hm.abs p hpn, hB d hd, hm.kind, hm.sent]
    rfl

/-! ### (4) a call that does not answer `ok` stores nothing -/

/-- In the model every API function is pure (it returns a new object or an error), so NO call
    can fail after a partial write.  At the driver, in a world reachable by any protocol history:
    `upd`, `updr`, `set`, in-place `sop` / `bop`, `geom` answering anything but `ok` leave every
    name resolving to a map with the same configuration, kind, sentinel, arrays and view flag
    (at most the addressed map's `n_valid` cache is reset); `bits`, `mask`, `inv` return the very
    world they were given. -/
theorem failed_call_stores_nothing (lines : List String) (a : Args) :
    ((opUpd (runLines lines) a).2 ≠ "ok" → SameMaps (opUpd (runLines lines) a).1 (runLines lines)) ∧
    ((opUpdr (runLines lines) a).2 ≠ "ok" → SameMaps (opUpdr (runLines lines) a).1 (runLines lines)) ∧
    ((opSet (runLines lines) a).2 ≠ "ok" → SameMaps (opSet (runLines lines) a).1 (runLines lines)) ∧
    ((opSop (runLines lines) a).2 ≠ "ok" → SameMaps (opSop (runLines lines) a).1 (runLines lines)) ∧
    ((opBop (runLines lines) a).2 ≠ "ok" → SameMaps (opBop (runLines lines) a).1 (runLines lines)) ∧
    ((opGeom (runLines lines) a).2 ≠ "ok" → SameMaps (opGeom (runLines lines) a).1 (runLines lines)) ∧
    ((opBits (runLines lines) a).2 ≠ "ok" → (opBits (runLines lines) a).1 = runLines lines) ∧
    ((opMask (runLines lines) a).2 ≠ "ok" → (opMask (runLines lines) a).1 = runLines lines) ∧
    ((opInv (runLines lines) a).2 ≠ "ok" → (opInv (runLines lines) a).1 = runLines lines) := by
  have hw := Good.runLines lines
  exact ⟨opUpd_not_ok hw a, opUpdr_not_ok hw a, opSet_not_ok hw a, ApiBits.opSop_not_ok hw a,
    opBop_not_ok hw a, opGeom_not_ok hw a, ApiBits.opBits_not_ok _ a, opMask_not_ok _ a,
    opInv_not_ok _ a⟩

/-- `SameMaps` spelled out: same arrays, hence the same value at every pixel -/
theorem sameMaps_abs {w' w : World} (h : SameMaps w' w) (x : String) {m' : MapObj}
    (hm : w'.get? x = some m') :
    ∃ m, w.get? x = some m ∧ m'.abs = m.abs ∧ m'.st = m.st ∧ m'.kind = m.kind ∧ m'.sent = m.sent := by
  have hx := h x
  rw [hm] at hx
  cases hg : w.get? x with
  | none => rw [hg] at hx; cases hx
  | some m =>
    rw [hg] at hx
    simp only [Option.map_some, Option.some.injEq] at hx
    refine ⟨m, rfl, ?_⟩
    obtain ⟨co, so, k, se, st, ca, vi⟩ := m
    obtain ⟨co', so', k', se', st', ca', vi'⟩ := m'
    simp only [forgetCache, MapObj.mk.injEq] at hx
    obtain ⟨rfl, rfl, rfl, rfl, rfl, _, rfl⟩ := hx
    exact ⟨rfl, rfl, rfl, rfl⟩

/-! ### non-vacuity -/

/-- the answers of the protocol along a history -/
def answers (lines : List String) : List String :=
  (lines.foldl (fun (wo : World × List String) l =>
    let r := step wo.1 l; (r.1, wo.2 ++ [r.2])) ({}, [])).2

/-- the answers of the dense interpreter along it -/
def danswers (lines : List String) : List String :=
  (lines.foldl (fun (wo : DenseWorld × List String) l =>
    let r := dstep wo.1 l; (r.1, wo.2 ++ [r.2])) ([], [])).2

/-- a plain history over three kinds of map: values broadcast / per pixel / `None`, `add` over a
    non-zero sentinel with a repeated pixel, `replace` with a repeated pixel (refused), a range
    update on both paths with overlapping rows, slice assignment and slice reads (empty, strided,
    out of range), a valid mask, a wide mask `or`, out-of-range pixels, malformed lines -/
def exHistory : List String :=
  ["cfg a kind=plain dtype=i8 covord=0 spord=1", "cfg f kind=plain dtype=f8 covord=0 spord=1 sentinel=-9999",
   "cfg w kind=wide maxbits=10 covord=0 spord=1",
   "upd a pix=3,9,40 val=7", "upd a pix=3,4 vals=1,2", "get a pix=3,4,9,40,0",
   "upd a pix=3,3,5 val=10 op=add", "get a pix=3,5 via=whatever path=getitem_int",
   "upd a pix=3,3 val=1", "upd a pix=9 none=1", "get a pix=9,3 vm=1",
   "updr a ranges=0:6,4:9 val=5 op=add path=slice", "updr a ranges=0:6,4:9 val=5 op=add path=expand",
   "vals a", "set a slice=40:48:3 val=-1", "get a slice=40:48:1", "get a slice=44:40:1", "get a slice=40:50:4",
   "set a slice=0:4:1 none=1", "get a slice=0:8:2", "upd a pix=48 val=1", "upd a pix=1 val=1^1",
   "upd f pix=1,2 vals=1^1,3 ", "upd f pix=1,1 val=1^2 op=add", "get f pix=0,1,2", "get f pix=0,1,2 vm=1",
   "upd w pix=2 val=b1.2", "upd w pix=2,2 val=b4.0 op=or", "get w pix=2,3", "vals w",
   "get nope pix=1", "get a", "upd a pix=x val=1", "", "cfg a kind=plain dtype=i4 covord=0 spord=0", "vals a"]

#guard exHistory.all plainLine
#guard answers exHistory == danswers exHistory
#guard (answers exHistory).take 12 ==
  ["ok", "ok", "ok", "ok", "ok", "1,2,7,7,-9223372036854775808", "ok", "21,10", "err ValueError", "ok", "01", "ok"]

/-! never-written pixels read the blank; an accepted write shows through every read line -/
#guard answers ["cfg a kind=plain dtype=i8 covord=0 spord=1 sentinel=-5", "upd a pix=3 val=7",
    "upd a pix=4,48 val=9", "updr a ranges=8:10 val=1", "get a pix=4,5,7,10", "get a slice=3:10:5", "get a pix=3,8 vm=1"]
  == ["ok", "ok", "err IndexError", "ok", "-5,-5,-5,-5", "7,1", "11"]


end C01
end HS
