/-
  Line-protocol driver for the correspondence check: one operation per input line,
  one observation per output line.  Imports the executable model only (no Mathlib),
  so it links as a native executable.
-/
import HealSparse.Model.Dispatch
open HS

partial def loop (h : IO.FS.Stream) (out : IO.FS.Stream) (w : World) : IO Unit := do
  let line ← h.getLine
  if line.isEmpty then return ()
  let (w', o) := step w line
  out.putStrLn o
  loop h out w'

def main : IO Unit := do
  let stdin ← IO.getStdin
  let stdout ← IO.getStdout
  loop stdin stdout {}
  stdout.flush
